package pdftree

// B2 bounded check for C05/C17 (labelled bounded): hostile name and number trees.
// Tree shapes with shared children (DAG ladders), self and mutual cycles and long
// chains are walked with every traversal of the package; each must terminate, and
// the work must stay proportional to the number of objects in the file.

import (
	"fmt"
	"testing"
	"time"

	"seehuhn.de/go/pdf"
	"seehuhn.de/go/pdf/internal/debug/memfile"
	"syscall"
)

func TestB2C05HostileTrees(t *testing.T) {
	cases := 0
	var kc NameCodec
	key := pdf.Name("K")
	lim := pdf.Array{kc.encode(key), kc.encode(key)}
	type shape struct {
		name   string
		levels int
		width  int
		cycle  int // 0: none, 1: bottom level points at the root, 2: every node lists itself
	}
	shapes := []shape{
		{"ladder", 40, 2, 0}, {"ladder", 12, 3, 0}, {"ladder", 200, 2, 0}, {"chain", 300, 1, 0},
		{"ladder+rootcycle", 30, 2, 1}, {"ladder+selfcycle", 30, 2, 2}, {"chain+rootcycle", 10, 1, 1},
	}
	for _, sh := range shapes {
		cases++
		w, _ := memfile.NewPDFWriter(pdf.V1_7, nil)
		root := w.Alloc()
		leaf := w.Alloc()
		w.Put(leaf, pdf.Dict{"Names": pdf.Array{kc.encode(key), pdf.Integer(42)}, "Limits": lim})
		kids := pdf.Array{leaf}
		if sh.cycle == 1 {
			kids = append(kids, root)
		}
		objects := 2
		for l := 0; l < sh.levels; l++ {
			var level pdf.Array
			for i := 0; i < sh.width; i++ {
				level = append(level, w.Alloc())
			}
			for _, ref := range level {
				k := append(pdf.Array{}, kids...)
				if sh.cycle == 2 {
					k = append(k, ref)
				}
				w.Put(ref.(pdf.Reference), pdf.Dict{"Kids": k, "Limits": lim})
				objects++
			}
			kids = level
		}
		w.Put(root, pdf.Dict{"Kids": kids})
		desc := fmt.Sprintf("%s levels=%d width=%d objects=%d", sh.name, sh.levels, sh.width, objects)
		budget := 20 * objects
		timed := func(what string, f func()) {
			done := make(chan struct{})
			start := c05CPU()
			go func() {
				defer func() {
					if r := recover(); r != nil {
						t.Errorf("B2-FAIL panic hostile-tree %s %s: %v", what, desc, r)
					}
					close(done)
				}()
				f()
			}()
			select {
			case <-done:
				if d := c05CPU() - start; d > 5*time.Second {
					t.Errorf("B2-FAIL slow hostile-tree %s %s: %v", what, desc, d)
				}
			case <-time.After(300 * time.Second):
				t.Errorf("B2-FAIL hang hostile-tree %s %s: no result after 300 s", what, desc)
			}
		}
		timed("FromFile.All", func() {
			ff, err := ExtractFromFile[pdf.Name, NameCodec](w, root)
			if err != nil {
				return
			}
			n := 0
			for range ff.All() {
				n++
				if n > budget {
					t.Errorf("B2-FAIL blowup hostile-tree FromFile.All %s: more than %d entries reported for one key", desc, budget)
					break
				}
			}
			ff.Lookup(key)
			ff.Lookup("absent")
		})
		timed("ExtractInMemory", func() {
			im, err := ExtractInMemory[pdf.Name, NameCodec](w, root)
			if err != nil {
				return
			}
			n := 0
			for range im.All() {
				n++
			}
			if n > 1 {
				t.Errorf("B2-FAIL blowup hostile-tree InMemory %s: %d entries for one key", desc, n)
			}
		})
		if sh.levels <= 40 || sh.width == 1 {
			timed("Size", func() { Size[pdf.Name, NameCodec](w, root) })
		}
	}
	t.Logf("B2-CASES %d", cases)
}

// c05CPU is the CPU time (user + system) of this process: time bounds are stated in CPU time
// so that a loaded machine does not raise false alarms.
func c05CPU() time.Duration {
	var ru syscall.Rusage
	if err := syscall.Getrusage(syscall.RUSAGE_SELF, &ru); err != nil {
		return 0
	}
	return time.Duration(ru.Utime.Nano() + ru.Stime.Nano())
}
