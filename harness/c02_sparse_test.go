package pdf

// C02, "references allocated but never written": documents in which most object numbers are
// allocated and never written.  Known finding (known-findings.txt, kind sparse-xref-stream):
// with a cross-reference stream the Writer lists every number below /Size, the entries
// compress to almost nothing, and the Reader's cap on declared entries (8192 + 32 per stored
// byte) refuses the Writer's own file.

import (
	"bytes"
	"fmt"
	"testing"
)

func TestB2C02Sparse(t *testing.T) {
	gaps := []int{0, 1, 100, 8000, 8192, 9000, 20000, 66000}
	if b2Thorough() {
		gaps = append(gaps, 5000, 12000, 40000, 300000, 1000000)
	}
	cases := 0
	for _, v := range []Version{V1_3, V1_4, V1_5, V1_7, V2_0} {
		for _, human := range []bool{false, true} {
			for _, gap := range gaps {
				for _, layout := range []int{0, 1, 2} { // gap before, between, after the written objects
					desc := fmt.Sprintf("v=%v human=%v gap=%d layout=%d", v, human, gap, layout)
					cases++
					var buf bytes.Buffer
					w, err := NewWriter(&buf, v, &WriterOptions{HumanReadable: human})
					if err != nil {
						t.Errorf("B2-FAIL sparse-write %s: %v", desc, err)
						continue
					}
					w.GetMeta().Catalog.Pages = w.Alloc()
					written := map[Reference]Object{}
					var unwritten []Reference
					put := func(k int) {
						ref := w.Alloc()
						obj := Array{Integer(k), Name(fmt.Sprintf("N%d", k)), String(desc)}
						if err := w.Put(ref, obj); err != nil {
							t.Errorf("B2-FAIL sparse-write %s: Put: %v", desc, err)
						}
						written[ref] = obj
					}
					skip := func() {
						for i := 0; i < gap; i++ {
							ref := w.Alloc()
							if i == 0 || i == gap-1 || i == gap/2 {
								unwritten = append(unwritten, ref)
							}
						}
					}
					if layout == 0 {
						skip()
					}
					put(1)
					put(2)
					if layout == 1 {
						skip()
					}
					put(3)
					if layout == 2 {
						skip()
					}
					if err := w.Close(); err != nil {
						t.Errorf("B2-FAIL sparse-write %s: Close: %v", desc, err)
						continue
					}
					r, err := NewReader(bytes.NewReader(buf.Bytes()), int64(buf.Len()), nil)
					if err != nil {
						kind := "sparse-open"
						if !human && v >= V1_5 {
							kind = "sparse-xref-stream"
						}
						t.Errorf("B2-FAIL %s %s: the Reader refuses the %d-byte file the Writer produced: %s", kind, desc, buf.Len(), b2ShortErr(err))
						continue
					}
					for ref, want := range written {
						got, err := r.Get(ref, true)
						if err != nil || !Equal(got, want) {
							t.Errorf("B2-FAIL sparse-object %s: %v reads %s, %v", desc, ref, b2Short(AsString(got)), err)
						}
					}
					for _, ref := range unwritten {
						got, err := r.Get(ref, true)
						if err != nil || got != nil {
							t.Errorf("B2-FAIL sparse-unwritten %s: %v reads %s, %v (want null)", desc, ref, b2Short(AsString(got)), err)
						}
					}
					r.Close()
				}
			}
		}
	}
	t.Logf("B2-CASES %d", cases)
}
