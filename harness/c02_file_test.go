package pdf

// B2 bounded contract checks for C02 and C03 (labelled bounded, never counted as proved).
//
// C02: documents produced by a fixed family of write scripts (all versions,
// compact/human-readable, buffer and seekable sinks, with and without
// encryption, Put / WriteCompressed / OpenStream with filter chains, references
// never written, the same value written twice) are read back and compared.
//
// C03: the produced bytes are checked by a small strict parser written from
// ISO 32000 (header, %%EOF, startxref, classic tables with 20-byte entries or
// xref streams with /W and PNG-up predictor, one entry per object number below
// /Size, every in-use offset points at "N G obj", stream /Length is exact).

import (
	"bytes"
	"compress/zlib"
	"fmt"
	"io"
	"os"
	"regexp"
	"seehuhn.de/go/xmp"
	"strconv"
	"testing"
)

type c02Stream struct {
	ref     Reference
	dict    Dict
	filters []Filter
	data    []byte
}

type c02Doc struct {
	desc     string
	bytes    []byte
	objects  map[Reference]Object
	streams  []c02Stream
	unused   []Reference
	version  Version
	userPwd  string
	ownerPwd string
	id       [][]byte
}

func c02Data(n int, kind int) []byte {
	d := make([]byte, n)
	for i := range d {
		switch kind {
		case 0:
			d[i] = byte(i*7 + i/251)
		case 1:
			d[i] = 'A' // long runs
		default:
			d[i] = byte((i / 3) % 4)
		}
	}
	return d
}

type c02Sink interface {
	io.Writer
}

func c02Write(v Version, human bool, seekable bool, user, owner string, variant int) (*c02Doc, error) {
	doc := &c02Doc{objects: map[Reference]Object{}, version: v, userPwd: user, ownerPwd: owner}
	doc.desc = fmt.Sprintf("v=%v human=%v seekable=%v user=%q owner=%q variant=%d", v, human, seekable, user, owner, variant)
	var sink io.Writer
	var buf bytes.Buffer
	var fd *os.File
	if seekable {
		var err error
		fd, err = os.CreateTemp("", "b2c02")
		if err != nil {
			return nil, err
		}
		defer os.Remove(fd.Name())
		defer fd.Close()
		sink = fd
	} else {
		sink = &buf
	}
	opt := &WriterOptions{HumanReadable: human, UserPassword: user, OwnerPassword: owner, UserPermissions: PermCopy | PermPrint}
	if variant%3 == 2 && v >= V1_6 {
		// document metadata stored in plain text (/EncryptMetadata false in encrypted files)
		opt.DocumentMetadata = &MetadataStream{Data: xmp.NewPacket(), Plaintext: true}
	}
	w, err := NewWriter(sink, v, opt)
	if err != nil {
		return nil, fmt.Errorf("NewWriter: %w", err)
	}
	put := func(ref Reference, obj Object) error {
		doc.objects[ref] = obj
		return w.Put(ref, obj)
	}
	a, b := w.Alloc(), w.Alloc()
	shared := Dict{"Shared": String("twice (written) \\ twice"), "N": Integer(-5)}
	if err := put(a, Dict{"Type": Name("Pages"), "Kids": Array{}, "Count": Integer(0), "Later": b,
		"Nested": Array{Integer(1), Real(2.5), Name("a b#c"), String("x\r\n(y"), nil, Array{}, Dict{}, Boolean(true)}}); err != nil {
		return nil, err
	}
	w.GetMeta().Catalog.Pages = a
	// compressed objects
	cr := []Reference{w.Alloc(), w.Alloc(), w.Alloc()}
	co := []Object{Dict{"K": Array{Integer(1), b}}, Array{Name("X"), String("in objstm")}, String("plain string \xff\x00")}
	if variant%2 == 1 {
		cr, co = cr[:1], co[:1]
	}
	if err := w.WriteCompressed(cr, co...); err != nil {
		return nil, fmt.Errorf("WriteCompressed: %w", err)
	}
	for i, r := range cr {
		doc.objects[r] = co[i]
	}
	// streams
	chains := [][]Filter{nil, {FilterFlate{}}, {FilterASCII85{}}, {FilterASCIIHex{}}, {FilterRunLength{}}, {FilterLZW{}},
		{FilterASCII85{}, FilterFlate{}}, {FilterASCIIHex{}, FilterRunLength{}}, {FilterFlate{Predictor: FlatePredictorPNGUp, Columns: 5}}, {FilterLZW{Predictor: FlatePredictorTIFF, Columns: 5}}}
	sizes := []int{0, 1, 5, 1023, 1024, 1025, 3000}
	var queued []c02Stream
	for i, ch := range chains {
		if v < V1_2 && len(ch) > 0 {
			continue
		}
		size := sizes[(i+variant)%len(sizes)]
		if len(ch) == 1 {
			if f, ok := ch[0].(FilterFlate); ok && f.Predictor != 0 {
				size = (size / 5) * 5
			}
			if f, ok := ch[0].(FilterLZW); ok && f.Predictor != 0 {
				size = (size / 5) * 5
			}
		}
		data := c02Data(size, (i+variant)%3)
		if len(ch) == 0 {
			// unfiltered data ending in an EOL: the stream extent must not lose it
			data = []byte("BT /F1 12 Tf (line) Tj ET\n")
			if variant%2 == 1 {
				// short (so that /Length is direct), quoting the keyword, ending in a bare CR
				data = []byte("BT (a short stream)\nendstream\n(quoted above) Tj ET\r")
			}
			if variant%2 == 0 {
				// long enough for an indirect /Length on a non-seekable sink, ending in an EOL
				data = append(bytes.Repeat([]byte("0 0 m 100 100 l S % filler line\n"), 40), []byte("(endstream is a keyword) Tj\nQ\r\n")...)
				if variant%4 == 2 {
					// ... or in a bare carriage return
					data = append(data[:len(data)-2], '\r')
				}
			}
		}
		ref := w.Alloc()
		if (i+variant)%4 == 1 {
			// a stream object with a non-zero generation number
			ref = NewReference(ref.Number(), uint16(1+(i*37+variant)%65534))
		}
		dict := Dict{"Idx": Integer(i), "Note": String("a string in the stream dictionary"), "Deep": Dict{"S": Array{String("nested \x00(")}}}
		sw, err := w.OpenStream(ref, dict, ch...)
		if err != nil {
			return nil, fmt.Errorf("OpenStream chain %d: %w", i, err)
		}
		if (i+variant)%3 == 0 {
			// an object put while the stream is open is written after the stream
			if err := put(w.Alloc(), Dict{"During": Integer(i), "S": String("put while a stream was open")}); err != nil {
				return nil, fmt.Errorf("Put during stream: %w", err)
			}
			if i%2 == 0 {
				// ... also when the queued object is itself a stream, between two others
				qdata := []byte("a stream object queued while another stream was open\n")
				qref := w.Alloc()
				if err := w.Put(qref, NewStream(Dict{"Idx": Integer(1000 + i), "Note": String("a string in the stream dictionary"), "Deep": Dict{"S": Array{String("nested \x00(")}}}, qdata)); err != nil {
					return nil, fmt.Errorf("Put of a stream during stream: %w", err)
				}
				queued = append(queued, c02Stream{qref, Dict{"Idx": Integer(1000 + i), "Note": String("a string in the stream dictionary"), "Deep": Dict{"S": Array{String("nested \x00(")}}}, nil, qdata})
				if err := put(w.Alloc(), Integer(i)); err != nil {
					return nil, fmt.Errorf("Put during stream: %w", err)
				}
			}
		}
		// chunked writes
		for off := 0; off < len(data); {
			n := 1 + (off*7+variant)%500
			if off+n > len(data) {
				n = len(data) - off
			}
			if _, err := sw.Write(data[off : off+n]); err != nil {
				return nil, fmt.Errorf("stream write: %w", err)
			}
			off += n
		}
		if err := sw.Close(); err != nil {
			return nil, fmt.Errorf("stream close chain %d: %w", i, err)
		}
		if len(dict) != 3 {
			return nil, fmt.Errorf("OpenStream modified the caller's dict: %v", dict)
		}
		doc.streams = append(doc.streams, c02Stream{ref, dict, ch, data})
		doc.streams = append(doc.streams, queued...)
		queued = nil
	}
	doc.unused = append(doc.unused, w.Alloc())
	if err := put(b, Integer(42)); err != nil {
		return nil, err
	}
	// objects with non-zero generation numbers
	for gi, gen := range []uint16{1, 255, 256, 300, 65534} {
		if (gi+variant)%2 == 0 {
			continue
		}
		gref := NewReference(w.Alloc().Number(), gen)
		if err := put(gref, Dict{"Gen": Integer(gen), "S": String("generation")}); err != nil {
			return nil, fmt.Errorf("Put generation %d: %w", gen, err)
		}
	}
	// the same value written twice
	s1, s2 := w.Alloc(), w.Alloc()
	if err := put(s1, shared); err != nil {
		return nil, err
	}
	if err := put(s2, shared); err != nil {
		return nil, err
	}
	if !Equal(shared, Dict{"Shared": String("twice (written) \\ twice"), "N": Integer(-5)}) {
		return nil, fmt.Errorf("writing modified the caller's object: %v", shared)
	}
	doc.unused = append(doc.unused, w.Alloc())
	doc.id = w.GetMeta().ID
	if err := w.Close(); err != nil {
		return nil, fmt.Errorf("Close: %w", err)
	}
	if seekable {
		data, err := os.ReadFile(fd.Name())
		if err != nil {
			return nil, err
		}
		doc.bytes = data
	} else {
		doc.bytes = buf.Bytes()
	}
	return doc, nil
}

func c02Scenarios() []func() (*c02Doc, error) {
	var out []func() (*c02Doc, error)
	versions := []Version{V1_1, V1_4, V1_5, V1_7, V2_0}
	n := 0
	for _, v := range versions {
		for _, human := range []bool{false, true} {
			for _, seekable := range []bool{false, true} {
				pw := [][2]string{{"", ""}}
				if v >= V1_4 && (!human || b2Thorough()) {
					pw = append(pw, [2]string{"user", "owner"}, [2]string{"", "owner"})
				}
				for _, p := range pw {
					v, human, seekable, p, variant := v, human, seekable, p, n
					n++
					out = append(out, func() (*c02Doc, error) { return c02Write(v, human, seekable, p[0], p[1], variant) })
				}
			}
		}
	}
	return out
}

func TestB2C02RoundTrip(t *testing.T) {
	cases := 0
	for _, mk := range c02Scenarios() {
		doc, err := mk()
		if err != nil {
			t.Errorf("B2-FAIL write-error %v", err)
			continue
		}
		for _, pwd := range []string{doc.userPwd, doc.ownerPwd} {
			cases++
			var ropt *ReaderOptions
			if pwd != "" {
				ropt = &ReaderOptions{Password: pwd}
			}
			r, err := NewReader(bytes.NewReader(doc.bytes), int64(len(doc.bytes)), ropt)
			if err != nil {
				t.Errorf("B2-FAIL open-error %s: %v", doc.desc, err)
				continue
			}
			if r.GetMeta().Version != doc.version {
				t.Errorf("B2-FAIL version %s: got %v", doc.desc, r.GetMeta().Version)
			}
			for ref, want := range doc.objects {
				got, err := r.Get(ref, true)
				if err != nil || !Equal(got, b2Expect(want)) {
					t.Errorf("B2-FAIL object %s ref=%v want=%v got=%v err=%v", doc.desc, ref, AsString(want), AsString(got), err)
				}
			}
			for _, ref := range doc.unused {
				got, err := r.Get(ref, true)
				if err != nil || got != nil {
					t.Errorf("B2-FAIL unused-ref %s ref=%v got=%v err=%v", doc.desc, ref, got, err)
				}
			}
			for _, s := range doc.streams {
				obj, err := r.Get(s.ref, true)
				stm, ok := obj.(*Stream)
				if err != nil || !ok {
					t.Errorf("B2-FAIL stream-missing %s ref=%v got=%v err=%v", doc.desc, s.ref, obj, err)
					continue
				}
				if idx, _ := stm.Dict["Idx"].(Integer); idx != s.dict["Idx"] || !Equal(stm.Dict["Note"], s.dict["Note"]) || !Equal(stm.Dict["Deep"], s.dict["Deep"]) {
					t.Errorf("B2-FAIL stream-dict %s ref=%v dict=%v", doc.desc, s.ref, AsString(stm.Dict))
				}
				rd, err := DecodeStream(r, nil, stm)
				if err != nil {
					t.Errorf("B2-FAIL stream-decode %s ref=%v: %v", doc.desc, s.ref, err)
					continue
				}
				data, err := io.ReadAll(rd)
				if err != nil || !bytes.Equal(data, s.data) {
					t.Errorf("B2-FAIL stream-data %s ref=%v len(want)=%d len(got)=%d err=%v", doc.desc, s.ref, len(s.data), len(data), err)
				}
			}
			if doc.userPwd == doc.ownerPwd {
				break
			}
		}
	}
	t.Logf("B2-CASES %d", cases)
}

// TestB2C02HostileBodies: stream bodies that only a correct /Length delimits (a line that
// quotes the keyword endstream, data ending in CR, data ending in the keyword), written in
// several chunks around the 1024-byte buffering threshold, to seekable and other sinks.
func TestB2C02HostileBodies(t *testing.T) {
	cases := 0
	filler := bytes.Repeat([]byte("0 0 m 100 100 l S % filler line\n"), 45)
	bodies := [][]byte{
		append(append([]byte{}, filler...), []byte("(quoted)\nendstream\n% more data after the quoted keyword\nQ\n")...),
		append(append([]byte{}, filler...), []byte("ends in a carriage return\r")...),
		append(append([]byte{}, filler...), []byte("ends in the keyword\rendstream\r")...),
		append([]byte("short\nendstream\nshort"), filler[:100]...),
	}
	for _, v := range []Version{V1_4, V1_7} {
		for _, seekable := range []bool{false, true} {
			for bi, body := range bodies {
				for _, chunk := range []int{0, 1, 100, 700, 1023, 1024} {
					cases++
					desc := fmt.Sprintf("v=%v seekable=%v body#%d chunk=%d", v, seekable, bi, chunk)
					var sink io.Writer
					var buf bytes.Buffer
					mem := &c02MemSink{}
					if seekable {
						sink = mem
					} else {
						sink = &buf
					}
					w, err := NewWriter(sink, v, nil)
					if err != nil {
						t.Fatal(err)
					}
					a := w.Alloc()
					w.GetMeta().Catalog.Pages = a
					w.Put(a, Dict{"Type": Name("Pages"), "Kids": Array{}, "Count": Integer(0)})
					ref := w.Alloc()
					sw, err := w.OpenStream(ref, Dict{})
					if err != nil {
						t.Errorf("B2-FAIL hostile-body %s: %v", desc, err)
						continue
					}
					for off := 0; off < len(body); {
						n := chunk
						if n == 0 || off+n > len(body) {
							n = len(body) - off
						}
						sw.Write(body[off : off+n])
						off += n
					}
					if err := sw.Close(); err != nil {
						t.Errorf("B2-FAIL hostile-body %s: close: %v", desc, err)
						continue
					}
					after := w.Alloc()
					w.Put(after, String("after the stream"))
					if err := w.Close(); err != nil {
						t.Errorf("B2-FAIL hostile-body %s: Close: %v", desc, err)
						continue
					}
					data := buf.Bytes()
					if seekable {
						data = mem.data
					}
					r, err := NewReader(bytes.NewReader(data), int64(len(data)), nil)
					if err != nil {
						t.Errorf("B2-FAIL hostile-body %s: open: %v", desc, err)
						continue
					}
					obj, err := r.Get(ref, true)
					stm, ok := obj.(*Stream)
					if err != nil || !ok {
						t.Errorf("B2-FAIL hostile-body %s: %v %v", desc, obj, err)
						continue
					}
					rd, err := DecodeStream(r, nil, stm)
					var got []byte
					if err == nil {
						got, err = io.ReadAll(rd)
					}
					if err != nil || !bytes.Equal(got, body) {
						t.Errorf("B2-FAIL hostile-body %s: wrote %d bytes, read back %d (%v)", desc, len(body), len(got), err)
					}
					if o, err := r.Get(after, true); err != nil || !Equal(o, String("after the stream")) {
						t.Errorf("B2-FAIL hostile-body %s: the object after the stream reads as %v (%v)", desc, o, err)
					}
				}
			}
		}
	}
	t.Logf("B2-CASES %d", cases)
}

// TestB2C02ManyCompressed: more objects in one WriteCompressed call than one object stream
// may hold for the reader; a sample of them (first, last, both sides of every multiple of
// 10000) must read back.
func TestB2C02ManyCompressed(t *testing.T) {
	cases := 0
	for _, n := range []int{9999, 10000, 10001, 20003} {
		cases++
		var buf bytes.Buffer
		w, err := NewWriter(&buf, V1_7, nil)
		if err != nil {
			t.Fatal(err)
		}
		a := w.Alloc()
		w.GetMeta().Catalog.Pages = a
		w.Put(a, Dict{"Type": Name("Pages"), "Kids": Array{}, "Count": Integer(0)})
		refs := make([]Reference, n)
		objs := make([]Object, n)
		for i := range refs {
			refs[i] = w.Alloc()
			objs[i] = Array{Integer(i), String(fmt.Sprintf("object number %d with some text to keep the cross-reference data in proportion", i))}
		}
		if err := w.WriteCompressed(refs, objs...); err != nil {
			t.Errorf("B2-FAIL many-compressed n=%d: WriteCompressed: %v", n, err)
			continue
		}
		if err := w.Close(); err != nil {
			t.Errorf("B2-FAIL many-compressed n=%d: Close: %v", n, err)
			continue
		}
		r, err := NewReader(bytes.NewReader(buf.Bytes()), int64(buf.Len()), nil)
		if err != nil {
			t.Errorf("B2-FAIL many-compressed n=%d: open: %v", n, err)
			continue
		}
		for _, i := range []int{0, 1, 9998, 9999, 10000, 10001, 19999, 20000, 20001, n - 2, n - 1} {
			if i < 0 || i >= n {
				continue
			}
			got, err := r.Get(refs[i], true)
			if err != nil || !Equal(got, objs[i]) {
				t.Errorf("B2-FAIL many-compressed n=%d: object %d of the call reads back as %v (%v)", n, i, AsString(got), err)
				break
			}
		}
	}
	t.Logf("B2-CASES %d", cases)
}

// c02MemSink is a seekable in-memory sink.
type c02MemSink struct {
	data []byte
	pos  int64
}

func (s *c02MemSink) Write(p []byte) (int, error) {
	if end := s.pos + int64(len(p)); end > int64(len(s.data)) {
		s.data = append(s.data, make([]byte, end-int64(len(s.data)))...)
	}
	copy(s.data[s.pos:], p)
	s.pos += int64(len(p))
	return len(p), nil
}

func (s *c02MemSink) Seek(off int64, whence int) (int64, error) {
	switch whence {
	case io.SeekStart:
		s.pos = off
	case io.SeekCurrent:
		s.pos += off
	case io.SeekEnd:
		s.pos = int64(len(s.data)) + off
	}
	return s.pos, nil
}

// TestB2C03Large: many objects of irregular size, so that the cross-reference data itself
// is large (a compressed cross-reference stream of more than 1024 bytes on a sink that
// cannot seek); checked by the strict parser and read back.
func TestB2C03Large(t *testing.T) {
	cases := 0
	for _, v := range []Version{V1_4, V1_7, V2_0} {
		for _, seekable := range []bool{false, true} {
			cases++
			var sink io.Writer
			var buf bytes.Buffer
			mem := &c02MemSink{}
			if seekable {
				sink = mem
			} else {
				sink = &buf
			}
			w, err := NewWriter(sink, v, nil)
			if err != nil {
				t.Fatal(err)
			}
			a := w.Alloc()
			w.GetMeta().Catalog.Pages = a
			w.Put(a, Dict{"Type": Name("Pages"), "Kids": Array{}, "Count": Integer(0)})
			x := uint32(88172645)
			want := map[Reference]int{}
			for i := 0; i < 1500; i++ {
				x ^= x << 13
				x ^= x >> 17
				x ^= x << 5
				n := int(x>>8) % 300
				ref := w.Alloc()
				want[ref] = n
				if err := w.Put(ref, String(bytes.Repeat([]byte{byte('a' + i%26)}, n))); err != nil {
					t.Errorf("B2-FAIL large-document v=%v: Put: %v", v, err)
				}
			}
			if err := w.Close(); err != nil {
				t.Errorf("B2-FAIL large-document v=%v seekable=%v: Close: %v", v, seekable, err)
				continue
			}
			data := buf.Bytes()
			if seekable {
				data = mem.data
			}
			if err := c03Check(data); err != nil {
				t.Errorf("B2-FAIL structure large document v=%v seekable=%v: %v", v, seekable, err)
			}
			// nothing but white space, "startxref", the offset and %%EOF may follow the last
			// cross-reference section
			tail := data[bytes.LastIndex(data, []byte("endobj"))+6:]
			if v >= V1_5 && !regexp.MustCompile(`^\s*startxref\s+\d+\s+%%EOF\s*$`).Match(tail) {
				t.Errorf("B2-FAIL structure large document v=%v seekable=%v: after the cross-reference stream: %.80q", v, seekable, tail)
			}
			r, err := NewReader(bytes.NewReader(data), int64(len(data)), nil)
			if err != nil {
				t.Errorf("B2-FAIL large-document v=%v seekable=%v: open: %v", v, seekable, err)
				continue
			}
			k := 0
			for ref, n := range want {
				if k++; k%37 != 0 {
					continue
				}
				got, err := r.Get(ref, true)
				if s, ok := got.(String); err != nil || !ok || len(s) != n {
					t.Errorf("B2-FAIL large-document v=%v seekable=%v: %v reads back as %v (%v)", v, seekable, ref, AsString(got), err)
					break
				}
			}
		}
	}
	t.Logf("B2-CASES %d", cases)
}

// ---- C03: strict independent parser ----

var c03ObjHdr = regexp.MustCompile(`^(\d+) (\d+) obj[\r\n ]`)

type c03Entry struct {
	kind byte // 'n', 'f', 'c'
	pos  int64
	gen  int64
}

func c03Check(data []byte) error {
	if !bytes.HasPrefix(data, []byte("%PDF-")) {
		return fmt.Errorf("no header")
	}
	trimmed := bytes.TrimRight(data, "\r\n")
	if !bytes.HasSuffix(trimmed, []byte("%%EOF")) {
		return fmt.Errorf("no %%%%EOF at the end")
	}
	i := bytes.LastIndex(data, []byte("startxref"))
	if i < 0 {
		return fmt.Errorf("no startxref")
	}
	rest := data[i+len("startxref"):]
	rest = bytes.TrimLeft(rest, "\r\n ")
	j := 0
	for j < len(rest) && rest[j] >= '0' && rest[j] <= '9' {
		j++
	}
	xpos, err := strconv.ParseInt(string(rest[:j]), 10, 64)
	if err != nil || xpos <= 0 || xpos >= int64(len(data)) {
		return fmt.Errorf("bad startxref value %q", rest[:j])
	}
	entries := map[int64]c03Entry{}
	var size int64
	if bytes.HasPrefix(data[xpos:], []byte("xref")) {
		p := xpos + 4
		p += int64(len(data[p:]) - len(bytes.TrimLeft(data[p:], "\r\n ")))
		for !bytes.HasPrefix(data[p:], []byte("trailer")) {
			var start, count int64
			line := data[p:]
			eol := bytes.IndexAny(line, "\r\n")
			if _, err := fmt.Sscanf(string(line[:eol]), "%d %d", &start, &count); err != nil {
				return fmt.Errorf("bad subsection header %q", line[:eol])
			}
			p += int64(eol)
			for data[p] == '\r' || data[p] == '\n' {
				p++
			}
			for k := int64(0); k < count; k++ {
				e := data[p : p+20]
				if e[10] != ' ' || e[16] != ' ' || !(e[18] == '\r' && e[19] == '\n' || e[18] == ' ' && (e[19] == '\n' || e[19] == '\r')) {
					return fmt.Errorf("entry %d is not a 20-byte xref line: %q", start+k, e)
				}
				pos, err1 := strconv.ParseInt(string(e[:10]), 10, 64)
				gen, err2 := strconv.ParseInt(string(e[11:16]), 10, 64)
				if err1 != nil || err2 != nil || (e[17] != 'n' && e[17] != 'f') {
					return fmt.Errorf("bad xref line %q", e)
				}
				if _, dup := entries[start+k]; dup {
					return fmt.Errorf("object %d has two entries", start+k)
				}
				entries[start+k] = c03Entry{e[17], pos, gen}
				p += 20
			}
		}
		m := regexp.MustCompile(`/Size (\d+)`).FindSubmatch(data[p:])
		if m == nil {
			return fmt.Errorf("trailer without /Size")
		}
		size, _ = strconv.ParseInt(string(m[1]), 10, 64)
	} else {
		// xref stream
		hdr := c03ObjHdr.FindSubmatch(data[xpos:])
		if hdr == nil {
			return fmt.Errorf("startxref %d points neither at xref nor at an object", xpos)
		}
		si := bytes.Index(data[xpos:], []byte("stream"))
		dict := data[xpos : xpos+int64(si)]
		top := c03TopLevel(dict)
		num := func(key string) (int64, bool) {
			v, err := strconv.ParseInt(top[key], 10, 64)
			return v, err == nil
		}
		size, _ = num("Size")
		length, ok := num("Length")
		if !ok {
			return fmt.Errorf("xref stream without direct /Length")
		}
		wm := regexp.MustCompile(`^\[ ?(\d+) (\d+) (\d+) ?\]`).FindSubmatch([]byte(top["W"]))
		if wm == nil {
			return fmt.Errorf("xref stream without /W: %q", dict)
		}
		var w [3]int
		for k := range w {
			w[k], _ = strconv.Atoi(string(wm[k+1]))
		}
		body := data[xpos+int64(si)+6:]
		if body[0] == '\r' {
			body = body[1:]
		}
		if body[0] != '\n' {
			return fmt.Errorf("no EOL after stream keyword")
		}
		body = body[1:]
		raw := body[:length]
		if !bytes.HasPrefix(bytes.TrimLeft(body[length:], "\r\n"), []byte("endstream")) {
			return fmt.Errorf("xref stream /Length %d does not end at endstream", length)
		}
		if top["Filter"] == "/FlateDecode" {
			zr, err := zlib.NewReader(bytes.NewReader(raw))
			if err != nil {
				return fmt.Errorf("xref stream: %v", err)
			}
			raw, err = io.ReadAll(zr)
			if err != nil {
				return fmt.Errorf("xref stream: %v", err)
			}
		}
		cols := w[0] + w[1] + w[2]
		predM := regexp.MustCompile(`/Predictor (\d+)`).FindSubmatch([]byte(top["DecodeParms"]))
		pred := int64(0)
		if predM != nil {
			pred, _ = strconv.ParseInt(string(predM[1]), 10, 64)
		}
		if pred >= 10 {
			rowLen := cols + 1
			if len(raw)%rowLen != 0 {
				return fmt.Errorf("xref stream: %d bytes is not a multiple of the row length %d", len(raw), rowLen)
			}
			prev := make([]byte, cols)
			var out []byte
			for off := 0; off < len(raw); off += rowLen {
				row := raw[off+1 : off+rowLen]
				switch raw[off] {
				case 0:
				case 2:
					for k := range row {
						row[k] += prev[k]
					}
				default:
					return fmt.Errorf("xref stream: unexpected PNG filter %d", raw[off])
				}
				out = append(out, row...)
				prev = row
			}
			raw = out
		}
		if int64(len(raw)) != size*int64(cols) {
			return fmt.Errorf("xref stream has %d bytes for /Size %d and /W %v", len(raw), size, w)
		}
		be := func(b []byte) int64 {
			var v int64
			for _, x := range b {
				v = v<<8 | int64(x)
			}
			return v
		}
		for n := int64(0); n < size; n++ {
			row := raw[n*int64(cols) : (n+1)*int64(cols)]
			tp := int64(1)
			if w[0] > 0 {
				tp = be(row[:w[0]])
			}
			f2, f3 := be(row[w[0]:w[0]+w[1]]), be(row[w[0]+w[1]:])
			switch tp {
			case 0:
				entries[n] = c03Entry{'f', f2, f3}
			case 1:
				entries[n] = c03Entry{'n', f2, f3}
			case 2:
				entries[n] = c03Entry{'c', f2, f3}
			default:
				return fmt.Errorf("xref stream entry %d has type %d", n, tp)
			}
		}
	}
	for n := int64(0); n < size; n++ {
		e, ok := entries[n]
		if !ok {
			return fmt.Errorf("object %d below /Size %d has no xref entry", n, size)
		}
		if e.kind != 'n' {
			continue
		}
		if e.pos <= 0 || e.pos >= int64(len(data)) {
			return fmt.Errorf("object %d: offset %d outside the file", n, e.pos)
		}
		m := c03ObjHdr.FindSubmatch(data[e.pos:])
		if m == nil || string(m[1]) != strconv.FormatInt(n, 10) || string(m[2]) != strconv.FormatInt(e.gen, 10) {
			return fmt.Errorf("object %d %d: offset %d does not point at its header (found %q)", n, e.gen, e.pos, data[e.pos:min(e.pos+20, int64(len(data)))])
		}
		// stream framing
		end := bytes.Index(data[e.pos:], []byte("endobj"))
		objText := data[e.pos : e.pos+int64(end)]
		if si := bytes.Index(objText, []byte(">>\nstream\n")); si >= 0 || bytes.Contains(objText, []byte(">>\r\nstream")) {
			_ = si
		}
	}
	for n := range entries {
		if n >= size {
			return fmt.Errorf("entry for object %d >= /Size %d", n, size)
		}
	}
	return nil
}

// c03TopLevel splits the first dictionary in text into its top-level entries (key -> value text).
func c03TopLevel(text []byte) map[string]string {
	out := map[string]string{}
	i := bytes.Index(text, []byte("<<"))
	if i < 0 {
		return out
	}
	i += 2
	depth := 0
	key := ""
	start := -1
	flush := func(end int) {
		if key != "" && start >= 0 {
			out[key] = string(bytes.TrimSpace(text[start:end]))
		}
	}
	for i < len(text) {
		c := text[i]
		switch {
		case c == '(':
			// literal string: skip to the matching parenthesis
			lvl := 1
			i++
			for i < len(text) && lvl > 0 {
				switch text[i] {
				case '\\':
					i++
				case '(':
					lvl++
				case ')':
					lvl--
				}
				i++
			}
			continue
		case c == '<' && i+1 < len(text) && text[i+1] == '<':
			depth++
			i += 2
			continue
		case c == '>' && i+1 < len(text) && text[i+1] == '>':
			if depth == 0 {
				flush(i)
				return out
			}
			depth--
			i += 2
			continue
		case c == '<':
			for i < len(text) && text[i] != '>' {
				i++
			}
		case c == '[':
			depth++
		case c == ']':
			depth--
		case c == '/' && depth == 0:
			j := i + 1
			for j < len(text) && !bytes.ContainsRune([]byte(" \r\n\t/<>[]()"), rune(text[j])) {
				j++
			}
			if start < 0 || key == "" || len(bytes.TrimSpace(text[start:i])) > 0 {
				// a name in key position, unless we are waiting for a value and nothing came yet
				if key == "" || len(bytes.TrimSpace(text[start:i])) > 0 {
					flush(i)
					key = string(text[i+1 : j])
					start = j
					i = j
					continue
				}
			}
			i = j
			continue
		}
		i++
	}
	return out
}

// c03Streams checks, for every in-use object that is a stream with a direct /Length,
// that exactly /Length bytes lie between "stream" EOL and the EOL before "endstream".
func c03Streams(data []byte) error {
	for _, loc := range regexp.MustCompile(`(?m)^\d+ \d+ obj\b`).FindAllIndex(data, -1) {
		obj := data[loc[0]:]
		end := bytes.Index(obj, []byte("endobj"))
		si := bytes.Index(obj, []byte("stream"))
		if si < 0 || (end >= 0 && si > end) {
			continue
		}
		dictText := obj[:si]
		if !bytes.Contains(dictText, []byte("<<")) || !bytes.HasSuffix(bytes.TrimRight(dictText, "\r\n "), []byte(">>")) {
			continue
		}
		top := c03TopLevel(dictText)
		n, err := strconv.Atoi(top["Length"])
		if err != nil {
			continue // indirect or missing: checked through the reader
		}
		body := obj[si+6:]
		if bytes.HasPrefix(body, []byte("\r\n")) {
			body = body[2:]
		} else if bytes.HasPrefix(body, []byte("\n")) {
			body = body[1:]
		} else {
			return fmt.Errorf("object at %d: no EOL after the stream keyword", loc[0])
		}
		if n > len(body) {
			return fmt.Errorf("object at %d: /Length %d exceeds the file", loc[0], n)
		}
		tail := body[n:]
		if !(bytes.HasPrefix(tail, []byte("\nendstream")) || bytes.HasPrefix(tail, []byte("\r\nendstream")) || bytes.HasPrefix(tail, []byte("\rendstream"))) {
			return fmt.Errorf("object at %d: /Length %d is not followed by EOL + endstream (found %q)", loc[0], n, tail[:min(len(tail), 16)])
		}
	}
	return nil
}

func TestB2C03Structure(t *testing.T) {
	cases := 0
	for _, mk := range c02Scenarios() {
		doc, err := mk()
		if err != nil {
			t.Errorf("B2-FAIL write-error %v", err)
			continue
		}
		cases++
		if err := c03Check(doc.bytes); err != nil {
			t.Errorf("B2-FAIL structure %s: %v", doc.desc, err)
		}
		if err := c03Streams(doc.bytes); err != nil {
			t.Errorf("B2-FAIL stream-length %s: %v", doc.desc, err)
		}
		// the decode parameters in the file describe the encoder that was used: an LZW stream
		// written without early change says so, whatever else is in /DecodeParms
		if doc.userPwd == "" && doc.ownerPwd == "" {
			for _, st := range doc.streams {
				for _, f := range st.filters {
					lz, ok := f.(FilterLZW)
					if !ok || lz.OffByOne {
						continue
					}
					hdr := []byte(fmt.Sprintf("%d %d obj", st.ref.Number(), st.ref.Generation()))
					i := bytes.Index(doc.bytes, append([]byte("\n"), hdr...))
					if i < 0 {
						continue // inside an object stream or the first object
					}
					j := bytes.Index(doc.bytes[i:], []byte("stream"))
					dictText := doc.bytes[i : i+j]
					if !regexp.MustCompile(`/EarlyChange\s+0`).Match(dictText) {
						t.Errorf("B2-FAIL decode-parms %s: LZW stream %v written without early change lacks /EarlyChange 0: %.200q", doc.desc, st.ref, dictText)
					}
				}
			}
		}
	}
	t.Logf("B2-CASES %d", cases)
}

// TestB2C03Rejected: calls the Writer rejects must not leave traces in the file.  After
// a rejected OpenStream (every rejection path) or a stream closed with a wrong
// caller-supplied /Length, either some later call reports an error, or the file that
// Close produces passes the strict parser and the rejected number has no in-use entry.
func TestB2C03Rejected(t *testing.T) {
	cases := 0
	type reject struct {
		name string
		call func(w *Writer, ref Reference) error
	}
	rejects := []reject{
		{"crypt-filter-not-first", func(w *Writer, ref Reference) error {
			_, err := w.OpenStream(ref, Dict{}, FilterFlate{}, FilterCryptIdentity{})
			return err
		}},
		{"length-not-integer", func(w *Writer, ref Reference) error {
			_, err := w.OpenStream(ref, Dict{"Length": Name("x")})
			return err
		}},
		{"length-reference", func(w *Writer, ref Reference) error {
			_, err := w.OpenStream(ref, Dict{"Length": w.Alloc()})
			return err
		}},
		{"filter-not-in-version", func(w *Writer, ref Reference) error {
			_, err := w.OpenStream(ref, Dict{}, &FilterJBIG2{})
			return err
		}},
	}
	for _, v := range []Version{V1_1, V1_4, V1_7, V2_0} {
		for _, human := range []bool{false, true} {
			for _, rj := range rejects {
				cases++
				desc := fmt.Sprintf("%s v=%v human=%v", rj.name, v, human)
				var buf bytes.Buffer
				w, err := NewWriter(&buf, v, &WriterOptions{HumanReadable: human})
				if err != nil {
					t.Errorf("B2-FAIL rejected-setup %s: %v", desc, err)
					continue
				}
				a := w.Alloc()
				w.GetMeta().Catalog.Pages = a
				bad := w.Alloc()
				later := w.Alloc()
				failed := false
				note := func(err error) {
					if err != nil {
						failed = true
					}
				}
				note(w.Put(a, Dict{"Type": Name("Pages"), "Kids": Array{}, "Count": Integer(0)}))
				if err := rj.call(w, bad); err == nil {
					// the call was accepted in this configuration: nothing to check
					continue
				}
				note(w.Put(later, Dict{"After": String("the rejected call")}))
				note(w.Close())
				if failed {
					continue // the writer reported the problem
				}
				if err := c03Check(buf.Bytes()); err != nil {
					t.Errorf("B2-FAIL rejected-call-leaves-trace %s: %v", desc, err)
				}
				if r, err := NewReader(bytes.NewReader(buf.Bytes()), int64(buf.Len()), nil); err != nil {
					t.Errorf("B2-FAIL rejected-call-leaves-trace %s: open: %v", desc, err)
				} else {
					if got, err := r.Get(bad, true); err != nil || got != nil {
						t.Errorf("B2-FAIL rejected-call-leaves-trace %s: the rejected reference reads as %v (%v), want null", desc, got, err)
					}
					if got, err := r.Get(later, true); err != nil || !Equal(got, Dict{"After": String("the rejected call")}) {
						t.Errorf("B2-FAIL rejected-call-leaves-trace %s: the object written afterwards reads as %v (%v)", desc, got, err)
					}
				}
				// the reference can be used again after the rejected call
				var buf2 bytes.Buffer
				if w2, err := NewWriter(&buf2, v, &WriterOptions{HumanReadable: human}); err == nil {
					a2 := w2.Alloc()
					w2.GetMeta().Catalog.Pages = a2
					w2.Put(a2, Dict{"Type": Name("Pages"), "Kids": Array{}, "Count": Integer(0)})
					bad2 := w2.Alloc()
					if rj.call(w2, bad2) != nil {
						if err := w2.Put(bad2, String("second attempt")); err != nil {
							t.Errorf("B2-FAIL rejected-call-leaves-trace %s: the reference cannot be written after the rejected call: %v", desc, err)
						}
					}
				}
			}
			// a stream closed with a wrong caller-supplied /Length
			for _, n := range []int{100, 1023, 1024, 1500, 5000} {
				for _, delta := range []int{-1, 1} {
					cases++
					desc := fmt.Sprintf("wrong-length n=%d delta=%d v=%v human=%v", n, delta, v, human)
					var buf bytes.Buffer
					w, _ := NewWriter(&buf, v, &WriterOptions{HumanReadable: human})
					a := w.Alloc()
					w.GetMeta().Catalog.Pages = a
					w.Put(a, Dict{"Type": Name("Pages"), "Kids": Array{}, "Count": Integer(0)})
					failed := false
					sw, err := w.OpenStream(w.Alloc(), Dict{"Length": Integer(n + delta)})
					if err != nil {
						continue
					}
					if _, err := sw.Write(c02Data(n, 1)); err != nil {
						failed = true
					}
					if err := sw.Close(); err != nil {
						failed = true
					}
					if err := w.Close(); err != nil {
						failed = true
					}
					if failed {
						continue
					}
					if err := c03Streams(buf.Bytes()); err != nil {
						t.Errorf("B2-FAIL wrong-length-accepted %s: %v", desc, err)
					} else {
						t.Errorf("B2-FAIL wrong-length-accepted %s: no error and the strict parser did not notice", desc)
					}
				}
			}
		}
	}
	t.Logf("B2-CASES %d", cases)
}
