package pdf

// B2 bounded contract checks for C02 and C03 (labelled bounded, never counted as proved).
//
// C02: documents produced by a fixed family of write scripts (all versions,
// compact/human-readable, buffer and seekable sinks, with and without
// encryption, Put / WriteCompressed / OpenStream with filter chains, references
// never written, the same value written twice) are read back and compared.
//
// C03: the produced bytes are checked by a small strict parser written from
// ISO 32000 (header, %%EOF, startxref, classic tables with 20-byte entries or
// xref streams with /W and PNG-up predictor, one entry per object number below
// /Size, every in-use offset points at "N G obj", stream /Length is exact).

import (
	"bytes"
	"compress/zlib"
	"fmt"
	"io"
	"math"
	"math/rand"
	"os"
	"regexp"
	"seehuhn.de/go/xmp"
	"strconv"
	"testing"
)

type c02Stream struct {
	ref     Reference
	dict    Dict
	filters []Filter
	data    []byte
}

type c02Doc struct {
	desc     string
	bytes    []byte
	objects  map[Reference]Object
	streams  []c02Stream
	unused   []Reference
	version  Version
	userPwd  string
	ownerPwd string
	id       [][]byte
}

func c02Data(n int, kind int) []byte {
	d := make([]byte, n)
	for i := range d {
		switch kind {
		case 0:
			d[i] = byte(i*7 + i/251)
		case 1:
			d[i] = 'A' // long runs
		default:
			d[i] = byte((i / 3) % 4)
		}
	}
	return d
}

type c02Sink interface {
	io.Writer
}

func c02Write(v Version, human bool, seekable bool, user, owner string, variant int) (*c02Doc, error) {
	doc := &c02Doc{objects: map[Reference]Object{}, version: v, userPwd: user, ownerPwd: owner}
	doc.desc = fmt.Sprintf("v=%v human=%v seekable=%v user=%q owner=%q variant=%d", v, human, seekable, user, owner, variant)
	var sink io.Writer
	var buf bytes.Buffer
	var fd *os.File
	if seekable {
		var err error
		fd, err = os.CreateTemp("", "b2c02")
		if err != nil {
			return nil, err
		}
		defer os.Remove(fd.Name())
		defer fd.Close()
		sink = fd
	} else {
		sink = &buf
	}
	opt := &WriterOptions{HumanReadable: human, UserPassword: user, OwnerPassword: owner, UserPermissions: PermCopy | PermPrint}
	if variant%3 == 2 && v >= V1_6 {
		// document metadata stored in plain text (/EncryptMetadata false in encrypted files)
		opt.DocumentMetadata = &MetadataStream{Data: xmp.NewPacket(), Plaintext: true}
	}
	w, err := NewWriter(sink, v, opt)
	if err != nil {
		return nil, fmt.Errorf("NewWriter: %w", err)
	}
	put := func(ref Reference, obj Object) error {
		doc.objects[ref] = obj
		return w.Put(ref, obj)
	}
	a, b := w.Alloc(), w.Alloc()
	shared := Dict{"Shared": String("twice (written) \\ twice"), "N": Integer(-5)}
	if err := put(a, Dict{"Type": Name("Pages"), "Kids": Array{}, "Count": Integer(0), "Later": b,
		"Nested": Array{Integer(1), Real(2.5), Name("a b#c"), String("x\r\n(y"), nil, Array{}, Dict{}, Boolean(true)}}); err != nil {
		return nil, err
	}
	w.GetMeta().Catalog.Pages = a
	// compressed objects
	cr := []Reference{w.Alloc(), w.Alloc(), w.Alloc()}
	co := []Object{Dict{"K": Array{Integer(1), b}}, Array{Name("X"), String("in objstm")}, String("plain string \xff\x00")}
	if variant%2 == 1 {
		cr, co = cr[:1], co[:1]
	}
	if err := w.WriteCompressed(cr, co...); err != nil {
		return nil, fmt.Errorf("WriteCompressed: %w", err)
	}
	for i, r := range cr {
		doc.objects[r] = co[i]
	}
	// streams
	chains := [][]Filter{nil, {FilterFlate{}}, {FilterASCII85{}}, {FilterASCIIHex{}}, {FilterRunLength{}}, {FilterLZW{}},
		{FilterASCII85{}, FilterFlate{}}, {FilterASCIIHex{}, FilterRunLength{}}, {FilterFlate{Predictor: FlatePredictorPNGUp, Columns: 5}}, {FilterLZW{Predictor: FlatePredictorTIFF, Columns: 5}}}
	sizes := []int{0, 1, 5, 1023, 1024, 1025, 3000}
	var queued []c02Stream
	for i, ch := range chains {
		if v < V1_2 && len(ch) > 0 {
			continue
		}
		size := sizes[(i+variant)%len(sizes)]
		if len(ch) == 1 {
			if f, ok := ch[0].(FilterFlate); ok && f.Predictor != 0 {
				size = (size / 5) * 5
			}
			if f, ok := ch[0].(FilterLZW); ok && f.Predictor != 0 {
				size = (size / 5) * 5
			}
		}
		data := c02Data(size, (i+variant)%3)
		if len(ch) == 0 {
			// unfiltered data ending in an EOL: the stream extent must not lose it
			data = []byte("BT /F1 12 Tf (line) Tj ET\n")
			if variant%2 == 1 {
				// short (so that /Length is direct), quoting the keyword, ending in a bare CR
				data = []byte("BT (a short stream)\nendstream\n(quoted above) Tj ET\r")
			}
			if variant%2 == 0 {
				// long enough for an indirect /Length on a non-seekable sink, ending in an EOL
				data = append(bytes.Repeat([]byte("0 0 m 100 100 l S % filler line\n"), 40), []byte("(endstream is a keyword) Tj\nQ\r\n")...)
				if variant%4 == 2 {
					// ... or in a bare carriage return
					data = append(data[:len(data)-2], '\r')
				}
			}
		}
		ref := w.Alloc()
		if (i+variant)%4 == 1 {
			// a stream object with a non-zero generation number
			ref = NewReference(ref.Number(), uint16(1+(i*37+variant)%65534))
		}
		dict := Dict{"Idx": Integer(i), "Note": String("a string in the stream dictionary"), "Deep": Dict{"S": Array{String("nested \x00(")}}}
		sw, err := w.OpenStream(ref, dict, ch...)
		if err != nil {
			return nil, fmt.Errorf("OpenStream chain %d: %w", i, err)
		}
		if (i+variant)%3 == 0 {
			// an object put while the stream is open is written after the stream
			if err := put(w.Alloc(), Dict{"During": Integer(i), "S": String("put while a stream was open")}); err != nil {
				return nil, fmt.Errorf("Put during stream: %w", err)
			}
			if i%2 == 0 {
				// ... also when the queued object is itself a stream, between two others
				qdata := []byte("a stream object queued while another stream was open\n")
				qref := w.Alloc()
				if err := w.Put(qref, NewStream(Dict{"Idx": Integer(1000 + i), "Note": String("a string in the stream dictionary"), "Deep": Dict{"S": Array{String("nested \x00(")}}}, qdata)); err != nil {
					return nil, fmt.Errorf("Put of a stream during stream: %w", err)
				}
				queued = append(queued, c02Stream{qref, Dict{"Idx": Integer(1000 + i), "Note": String("a string in the stream dictionary"), "Deep": Dict{"S": Array{String("nested \x00(")}}}, nil, qdata})
				if err := put(w.Alloc(), Integer(i)); err != nil {
					return nil, fmt.Errorf("Put during stream: %w", err)
				}
			}
		}
		// chunked writes
		for off := 0; off < len(data); {
			n := 1 + (off*7+variant)%500
			if off+n > len(data) {
				n = len(data) - off
			}
			if _, err := sw.Write(data[off : off+n]); err != nil {
				return nil, fmt.Errorf("stream write: %w", err)
			}
			off += n
		}
		if err := sw.Close(); err != nil {
			return nil, fmt.Errorf("stream close chain %d: %w", i, err)
		}
		if len(dict) != 3 {
			return nil, fmt.Errorf("OpenStream modified the caller's dict: %v", dict)
		}
		doc.streams = append(doc.streams, c02Stream{ref, dict, ch, data})
		doc.streams = append(doc.streams, queued...)
		queued = nil
	}
	doc.unused = append(doc.unused, w.Alloc())
	if err := put(b, Integer(42)); err != nil {
		return nil, err
	}
	// objects with non-zero generation numbers
	for gi, gen := range []uint16{1, 255, 256, 300, 65534} {
		if (gi+variant)%2 == 0 {
			continue
		}
		gref := NewReference(w.Alloc().Number(), gen)
		if err := put(gref, Dict{"Gen": Integer(gen), "S": String("generation")}); err != nil {
			return nil, fmt.Errorf("Put generation %d: %w", gen, err)
		}
	}
	// the same value written twice
	s1, s2 := w.Alloc(), w.Alloc()
	if err := put(s1, shared); err != nil {
		return nil, err
	}
	if err := put(s2, shared); err != nil {
		return nil, err
	}
	if !Equal(shared, Dict{"Shared": String("twice (written) \\ twice"), "N": Integer(-5)}) {
		return nil, fmt.Errorf("writing modified the caller's object: %v", shared)
	}
	doc.unused = append(doc.unused, w.Alloc())
	doc.id = w.GetMeta().ID
	if err := w.Close(); err != nil {
		return nil, fmt.Errorf("Close: %w", err)
	}
	if seekable {
		data, err := os.ReadFile(fd.Name())
		if err != nil {
			return nil, err
		}
		doc.bytes = data
	} else {
		doc.bytes = buf.Bytes()
	}
	return doc, nil
}

func c02Scenarios() []func() (*c02Doc, error) {
	var out []func() (*c02Doc, error)
	versions := []Version{V1_1, V1_4, V1_5, V1_7, V2_0}
	n := 0
	for _, v := range versions {
		for _, human := range []bool{false, true} {
			for _, seekable := range []bool{false, true} {
				pw := [][2]string{{"", ""}}
				if v >= V1_4 && (!human || b2Thorough()) {
					pw = append(pw, [2]string{"user", "owner"}, [2]string{"", "owner"})
				}
				for _, p := range pw {
					v, human, seekable, p, variant := v, human, seekable, p, n
					n++
					out = append(out, func() (*c02Doc, error) { return c02Write(v, human, seekable, p[0], p[1], variant) })
				}
			}
		}
	}
	return out
}

func TestB2C02RoundTrip(t *testing.T) {
	cases := 0
	for _, mk := range c02Scenarios() {
		doc, err := mk()
		if err != nil {
			t.Errorf("B2-FAIL write-error %v", err)
			continue
		}
		for _, pwd := range []string{doc.userPwd, doc.ownerPwd} {
			cases++
			var ropt *ReaderOptions
			if pwd != "" {
				ropt = &ReaderOptions{Password: pwd}
			}
			r, err := NewReader(bytes.NewReader(doc.bytes), int64(len(doc.bytes)), ropt)
			if err != nil {
				t.Errorf("B2-FAIL open-error %s: %v", doc.desc, err)
				continue
			}
			if r.GetMeta().Version != doc.version {
				t.Errorf("B2-FAIL version %s: got %v", doc.desc, r.GetMeta().Version)
			}
			for ref, want := range doc.objects {
				got, err := r.Get(ref, true)
				if err != nil || !Equal(got, b2Expect(want)) {
					t.Errorf("B2-FAIL object %s ref=%v want=%v got=%v err=%v", doc.desc, ref, AsString(want), AsString(got), err)
				}
			}
			for _, ref := range doc.unused {
				got, err := r.Get(ref, true)
				if err != nil || got != nil {
					t.Errorf("B2-FAIL unused-ref %s ref=%v got=%v err=%v", doc.desc, ref, got, err)
				}
			}
			for _, s := range doc.streams {
				obj, err := r.Get(s.ref, true)
				stm, ok := obj.(*Stream)
				if err != nil || !ok {
					t.Errorf("B2-FAIL stream-missing %s ref=%v got=%v err=%v", doc.desc, s.ref, obj, err)
					continue
				}
				if idx, _ := stm.Dict["Idx"].(Integer); idx != s.dict["Idx"] || !Equal(stm.Dict["Note"], s.dict["Note"]) || !Equal(stm.Dict["Deep"], s.dict["Deep"]) {
					t.Errorf("B2-FAIL stream-dict %s ref=%v dict=%v", doc.desc, s.ref, AsString(stm.Dict))
				}
				rd, err := DecodeStream(r, nil, stm)
				if err != nil {
					t.Errorf("B2-FAIL stream-decode %s ref=%v: %v", doc.desc, s.ref, err)
					continue
				}
				data, err := io.ReadAll(rd)
				if err != nil || !bytes.Equal(data, s.data) {
					t.Errorf("B2-FAIL stream-data %s ref=%v len(want)=%d len(got)=%d err=%v", doc.desc, s.ref, len(s.data), len(data), err)
				}
			}
			if doc.userPwd == doc.ownerPwd {
				break
			}
		}
	}
	t.Logf("B2-CASES %d", cases)
}

// TestB2C02HostileBodies: stream bodies that only a correct /Length delimits (a line that
// quotes the keyword endstream, data ending in CR, data ending in the keyword), written in
// several chunks around the 1024-byte buffering threshold, to seekable and other sinks.
func TestB2C02HostileBodies(t *testing.T) {
	cases := 0
	filler := bytes.Repeat([]byte("0 0 m 100 100 l S % filler line\n"), 45)
	bodies := [][]byte{
		append(append([]byte{}, filler...), []byte("(quoted)\nendstream\n% more data after the quoted keyword\nQ\n")...),
		append(append([]byte{}, filler...), []byte("ends in a carriage return\r")...),
		append(append([]byte{}, filler...), []byte("ends in the keyword\rendstream\r")...),
		append([]byte("short\nendstream\nshort"), filler[:100]...),
	}
	for _, v := range []Version{V1_4, V1_7} {
		for _, seekable := range []bool{false, true} {
			for bi, body := range bodies {
				for _, chunk := range []int{0, 1, 100, 700, 1023, 1024} {
					cases++
					desc := fmt.Sprintf("v=%v seekable=%v body#%d chunk=%d", v, seekable, bi, chunk)
					var sink io.Writer
					var buf bytes.Buffer
					mem := &c02MemSink{}
					if seekable {
						sink = mem
					} else {
						sink = &buf
					}
					w, err := NewWriter(sink, v, nil)
					if err != nil {
						t.Fatal(err)
					}
					a := w.Alloc()
					w.GetMeta().Catalog.Pages = a
					w.Put(a, Dict{"Type": Name("Pages"), "Kids": Array{}, "Count": Integer(0)})
					ref := w.Alloc()
					sw, err := w.OpenStream(ref, Dict{})
					if err != nil {
						t.Errorf("B2-FAIL hostile-body %s: %v", desc, err)
						continue
					}
					for off := 0; off < len(body); {
						n := chunk
						if n == 0 || off+n > len(body) {
							n = len(body) - off
						}
						sw.Write(body[off : off+n])
						off += n
					}
					if err := sw.Close(); err != nil {
						t.Errorf("B2-FAIL hostile-body %s: close: %v", desc, err)
						continue
					}
					after := w.Alloc()
					w.Put(after, String("after the stream"))
					if err := w.Close(); err != nil {
						t.Errorf("B2-FAIL hostile-body %s: Close: %v", desc, err)
						continue
					}
					data := buf.Bytes()
					if seekable {
						data = mem.data
					}
					r, err := NewReader(bytes.NewReader(data), int64(len(data)), nil)
					if err != nil {
						t.Errorf("B2-FAIL hostile-body %s: open: %v", desc, err)
						continue
					}
					obj, err := r.Get(ref, true)
					stm, ok := obj.(*Stream)
					if err != nil || !ok {
						t.Errorf("B2-FAIL hostile-body %s: %v %v", desc, obj, err)
						continue
					}
					rd, err := DecodeStream(r, nil, stm)
					var got []byte
					if err == nil {
						got, err = io.ReadAll(rd)
					}
					if err != nil || !bytes.Equal(got, body) {
						t.Errorf("B2-FAIL hostile-body %s: wrote %d bytes, read back %d (%v)", desc, len(body), len(got), err)
					}
					if o, err := r.Get(after, true); err != nil || !Equal(o, String("after the stream")) {
						t.Errorf("B2-FAIL hostile-body %s: the object after the stream reads as %v (%v)", desc, o, err)
					}
				}
			}
		}
	}
	t.Logf("B2-CASES %d", cases)
}

// TestB2C02ManyCompressed: more objects in one WriteCompressed call than one object stream
// may hold for the reader; a sample of them (first, last, both sides of every multiple of
// 10000) must read back.
func TestB2C02ManyCompressed(t *testing.T) {
	cases := 0
	for _, n := range []int{9999, 10000, 10001, 20003} {
		cases++
		var buf bytes.Buffer
		w, err := NewWriter(&buf, V1_7, nil)
		if err != nil {
			t.Fatal(err)
		}
		a := w.Alloc()
		w.GetMeta().Catalog.Pages = a
		w.Put(a, Dict{"Type": Name("Pages"), "Kids": Array{}, "Count": Integer(0)})
		refs := make([]Reference, n)
		objs := make([]Object, n)
		for i := range refs {
			refs[i] = w.Alloc()
			objs[i] = Array{Integer(i), String(fmt.Sprintf("object number %d with some text to keep the cross-reference data in proportion", i))}
		}
		if err := w.WriteCompressed(refs, objs...); err != nil {
			t.Errorf("B2-FAIL many-compressed n=%d: WriteCompressed: %v", n, err)
			continue
		}
		if err := w.Close(); err != nil {
			t.Errorf("B2-FAIL many-compressed n=%d: Close: %v", n, err)
			continue
		}
		r, err := NewReader(bytes.NewReader(buf.Bytes()), int64(buf.Len()), nil)
		if err != nil {
			t.Errorf("B2-FAIL many-compressed n=%d: open: %v", n, err)
			continue
		}
		for _, i := range []int{0, 1, 9998, 9999, 10000, 10001, 19999, 20000, 20001, n - 2, n - 1} {
			if i < 0 || i >= n {
				continue
			}
			got, err := r.Get(refs[i], true)
			if err != nil || !Equal(got, objs[i]) {
				t.Errorf("B2-FAIL many-compressed n=%d: object %d of the call reads back as %v (%v)", n, i, AsString(got), err)
				break
			}
		}
	}
	t.Logf("B2-CASES %d", cases)
}

// c02MemSink is a seekable in-memory sink.
type c02MemSink struct {
	data []byte
	pos  int64
}

func (s *c02MemSink) Write(p []byte) (int, error) {
	if end := s.pos + int64(len(p)); end > int64(len(s.data)) {
		s.data = append(s.data, make([]byte, end-int64(len(s.data)))...)
	}
	copy(s.data[s.pos:], p)
	s.pos += int64(len(p))
	return len(p), nil
}

func (s *c02MemSink) Seek(off int64, whence int) (int64, error) {
	switch whence {
	case io.SeekStart:
		s.pos = off
	case io.SeekCurrent:
		s.pos += off
	case io.SeekEnd:
		s.pos = int64(len(s.data)) + off
	}
	return s.pos, nil
}

// TestB2C03Large: many objects of irregular size, so that the cross-reference data itself
// is large (a compressed cross-reference stream of more than 1024 bytes on a sink that
// cannot seek); checked by the strict parser and read back.
func TestB2C03Large(t *testing.T) {
	cases := 0
	for _, v := range []Version{V1_4, V1_7, V2_0} {
		for _, seekable := range []bool{false, true} {
			cases++
			var sink io.Writer
			var buf bytes.Buffer
			mem := &c02MemSink{}
			if seekable {
				sink = mem
			} else {
				sink = &buf
			}
			w, err := NewWriter(sink, v, nil)
			if err != nil {
				t.Fatal(err)
			}
			a := w.Alloc()
			w.GetMeta().Catalog.Pages = a
			w.Put(a, Dict{"Type": Name("Pages"), "Kids": Array{}, "Count": Integer(0)})
			x := uint32(88172645)
			want := map[Reference]int{}
			for i := 0; i < 1500; i++ {
				x ^= x << 13
				x ^= x >> 17
				x ^= x << 5
				n := int(x>>8) % 300
				ref := w.Alloc()
				want[ref] = n
				if err := w.Put(ref, String(bytes.Repeat([]byte{byte('a' + i%26)}, n))); err != nil {
					t.Errorf("B2-FAIL large-document v=%v: Put: %v", v, err)
				}
			}
			if err := w.Close(); err != nil {
				t.Errorf("B2-FAIL large-document v=%v seekable=%v: Close: %v", v, seekable, err)
				continue
			}
			data := buf.Bytes()
			if seekable {
				data = mem.data
			}
			if err := c03Check(data); err != nil {
				t.Errorf("B2-FAIL structure large document v=%v seekable=%v: %v", v, seekable, err)
			}
			// nothing but white space, "startxref", the offset and %%EOF may follow the last
			// cross-reference section
			tail := data[bytes.LastIndex(data, []byte("endobj"))+6:]
			if v >= V1_5 && !regexp.MustCompile(`^\s*startxref\s+\d+\s+%%EOF\s*$`).Match(tail) {
				t.Errorf("B2-FAIL structure large document v=%v seekable=%v: after the cross-reference stream: %.80q", v, seekable, tail)
			}
			r, err := NewReader(bytes.NewReader(data), int64(len(data)), nil)
			if err != nil {
				t.Errorf("B2-FAIL large-document v=%v seekable=%v: open: %v", v, seekable, err)
				continue
			}
			k := 0
			for ref, n := range want {
				if k++; k%37 != 0 {
					continue
				}
				got, err := r.Get(ref, true)
				if s, ok := got.(String); err != nil || !ok || len(s) != n {
					t.Errorf("B2-FAIL large-document v=%v seekable=%v: %v reads back as %v (%v)", v, seekable, ref, AsString(got), err)
					break
				}
			}
		}
	}
	// the same kind of document with most of the strings in object streams of irregular size
	// (many object streams, the late ones with high object numbers), and sparse documents:
	// object numbers (also those of object streams) far above the byte offsets in the file,
	// on both sides of the values that need one, two or three bytes in a cross-reference
	// stream entry; all checked by the strict parser, which follows every type-2 entry into
	// the object stream it names, and compared with what was written
	seed := c03Seed()
	batches := c03Prog{"large-compressed", func(p *c03Pen) error {
		if err := p.pages(); err != nil {
			return err
		}
		for i := 0; i < 1500; {
			var objs []Object
			for n := 1 + p.rng.Intn(1+p.rng.Intn(60)); n > 0; n-- {
				objs = append(objs, String(bytes.Repeat([]byte{byte('a' + i%26)}, p.rng.Intn(300))))
				i++
			}
			var err error
			if p.rng.Intn(4) == 0 {
				err = p.put(p.w.Alloc(), objs[0])
			} else {
				err = p.compressed(objs...)
			}
			if err != nil {
				return err
			}
			if p.rng.Intn(10) == 0 {
				p.gap(p.rng.Intn(500))
			}
		}
		return nil
	}}
	progs := []c03Prog{batches}
	gaps := []int{0, 1, 100, 200, 254, 255, 256, 300, 1000, 65000, 65534, 65535, 65536, 65537, 70000}
	for i := 0; i < 5; i++ {
		gaps = append(gaps, rand.New(rand.NewSource(seed*100+int64(i))).Intn(1<<uint(8+3*i)))
	}
	if b2Thorough() {
		gaps = append(gaps, 131072, 1<<20)
	}
	for _, gap := range gaps {
		for layout := 0; layout < 3; layout++ {
			progs = append(progs, c03Sparse(gap, layout))
		}
	}
	for pi, prog := range progs {
		for vi, v := range []Version{V1_4, V1_5, V1_7, V2_0} {
			if v == V1_4 && pi%3 != 0 && !b2Thorough() {
				continue
			}
			for hi, human := range []bool{false, true} {
				if human && (pi+vi)%4 != 0 && !b2Thorough() {
					continue
				}
				cases++
				doc, err := c03Run(prog, v, human, (pi+vi+hi)%2 == 0, "", "", seed*1000+int64(pi))
				if err != nil {
					t.Errorf("B2-FAIL write-error %v", err)
					continue
				}
				c03Verify(t, doc)
			}
		}
	}
	t.Logf("B2-CASES %d", cases)
}

// ---- C03: strict independent parser ----

var c03ObjHdr = regexp.MustCompile(`^(\d+) (\d+) obj[\r\n ]`)

type c03Entry struct {
	kind byte // 'n', 'f', 'c'
	pos  int64
	gen  int64
}

// c03Check is the strict parser of the property: cross-reference level (c03XRef) and
// object level (c03File.objects).
func c03Check(data []byte) error {
	_, err := c03Parse(data)
	return err
}

func c03Parse(data []byte) (*c03File, error) {
	f := &c03File{data: data}
	if err := c03XRef(f); err != nil {
		return f, err
	}
	if err := f.objects(); err != nil {
		return f, err
	}
	return f, nil
}

// c03XRef checks header, %%EOF, startxref and the cross-reference section, and fills in
// f.entries, f.size and the position of the trailer dictionary.
func c03XRef(f *c03File) error {
	data := f.data
	if !regexp.MustCompile(`^%PDF-[12]\.[0-9][\r\n]`).Match(data) {
		return fmt.Errorf("no header")
	}
	trimmed := bytes.TrimRight(data, "\r\n")
	if !bytes.HasSuffix(trimmed, []byte("%%EOF")) {
		return fmt.Errorf("no %%%%EOF at the end")
	}
	i := bytes.LastIndex(data, []byte("startxref"))
	if i < 0 {
		return fmt.Errorf("no startxref")
	}
	rest := data[i+len("startxref"):]
	rest = bytes.TrimLeft(rest, "\r\n ")
	j := 0
	for j < len(rest) && rest[j] >= '0' && rest[j] <= '9' {
		j++
	}
	xpos, err := strconv.ParseInt(string(rest[:j]), 10, 64)
	if err != nil || xpos <= 0 || xpos >= int64(len(data)) {
		return fmt.Errorf("bad startxref value %q", rest[:j])
	}
	entries := map[int64]c03Entry{}
	var size int64
	if bytes.HasPrefix(data[xpos:], []byte("xref")) {
		p := xpos + 4
		p += int64(len(data[p:]) - len(bytes.TrimLeft(data[p:], "\r\n ")))
		for !bytes.HasPrefix(data[p:], []byte("trailer")) {
			var start, count int64
			line := data[p:]
			eol := bytes.IndexAny(line, "\r\n")
			if _, err := fmt.Sscanf(string(line[:eol]), "%d %d", &start, &count); err != nil {
				return fmt.Errorf("bad subsection header %q", line[:eol])
			}
			p += int64(eol)
			for data[p] == '\r' || data[p] == '\n' {
				p++
			}
			for k := int64(0); k < count; k++ {
				e := data[p : p+20]
				if e[10] != ' ' || e[16] != ' ' || !(e[18] == '\r' && e[19] == '\n' || e[18] == ' ' && (e[19] == '\n' || e[19] == '\r')) {
					return fmt.Errorf("entry %d is not a 20-byte xref line: %q", start+k, e)
				}
				pos, err1 := strconv.ParseInt(string(e[:10]), 10, 64)
				gen, err2 := strconv.ParseInt(string(e[11:16]), 10, 64)
				if err1 != nil || err2 != nil || (e[17] != 'n' && e[17] != 'f') {
					return fmt.Errorf("bad xref line %q", e)
				}
				if _, dup := entries[start+k]; dup {
					return fmt.Errorf("object %d has two entries", start+k)
				}
				entries[start+k] = c03Entry{e[17], pos, gen}
				p += 20
			}
		}
		m := regexp.MustCompile(`/Size (\d+)`).FindSubmatch(data[p:])
		if m == nil {
			return fmt.Errorf("trailer without /Size")
		}
		size, _ = strconv.ParseInt(string(m[1]), 10, 64)
		f.trailerPos = p + int64(len("trailer"))
	} else {
		f.xrefStream = true
		f.trailerPos = xpos
		// xref stream
		hdr := c03ObjHdr.FindSubmatch(data[xpos:])
		if hdr == nil {
			return fmt.Errorf("startxref %d points neither at xref nor at an object", xpos)
		}
		si := bytes.Index(data[xpos:], []byte("stream"))
		dict := data[xpos : xpos+int64(si)]
		top := c03TopLevel(dict)
		num := func(key string) (int64, bool) {
			v, err := strconv.ParseInt(top[key], 10, 64)
			return v, err == nil
		}
		size, _ = num("Size")
		length, ok := num("Length")
		if !ok {
			return fmt.Errorf("xref stream without direct /Length")
		}
		wm := regexp.MustCompile(`^\[ ?(\d+) (\d+) (\d+) ?\]`).FindSubmatch([]byte(top["W"]))
		if wm == nil {
			return fmt.Errorf("xref stream without /W: %q", dict)
		}
		var w [3]int
		for k := range w {
			w[k], _ = strconv.Atoi(string(wm[k+1]))
		}
		body := data[xpos+int64(si)+6:]
		if body[0] == '\r' {
			body = body[1:]
		}
		if body[0] != '\n' {
			return fmt.Errorf("no EOL after stream keyword")
		}
		body = body[1:]
		raw := body[:length]
		if !bytes.HasPrefix(bytes.TrimLeft(body[length:], "\r\n"), []byte("endstream")) {
			return fmt.Errorf("xref stream /Length %d does not end at endstream", length)
		}
		if top["Filter"] == "/FlateDecode" {
			zr, err := zlib.NewReader(bytes.NewReader(raw))
			if err != nil {
				return fmt.Errorf("xref stream: %v", err)
			}
			raw, err = io.ReadAll(zr)
			if err != nil {
				return fmt.Errorf("xref stream: %v", err)
			}
		}
		cols := w[0] + w[1] + w[2]
		predM := regexp.MustCompile(`/Predictor (\d+)`).FindSubmatch([]byte(top["DecodeParms"]))
		pred := int64(0)
		if predM != nil {
			pred, _ = strconv.ParseInt(string(predM[1]), 10, 64)
		}
		if pred >= 10 {
			rowLen := cols + 1
			if len(raw)%rowLen != 0 {
				return fmt.Errorf("xref stream: %d bytes is not a multiple of the row length %d", len(raw), rowLen)
			}
			prev := make([]byte, cols)
			var out []byte
			for off := 0; off < len(raw); off += rowLen {
				row := raw[off+1 : off+rowLen]
				switch raw[off] {
				case 0:
				case 2:
					for k := range row {
						row[k] += prev[k]
					}
				default:
					return fmt.Errorf("xref stream: unexpected PNG filter %d", raw[off])
				}
				out = append(out, row...)
				prev = row
			}
			raw = out
		}
		if int64(len(raw)) != size*int64(cols) {
			return fmt.Errorf("xref stream has %d bytes for /Size %d and /W %v", len(raw), size, w)
		}
		be := func(b []byte) int64 {
			var v int64
			for _, x := range b {
				v = v<<8 | int64(x)
			}
			return v
		}
		for n := int64(0); n < size; n++ {
			row := raw[n*int64(cols) : (n+1)*int64(cols)]
			tp := int64(1)
			if w[0] > 0 {
				tp = be(row[:w[0]])
			}
			f2, f3 := be(row[w[0]:w[0]+w[1]]), be(row[w[0]+w[1]:])
			switch tp {
			case 0:
				entries[n] = c03Entry{'f', f2, f3}
			case 1:
				entries[n] = c03Entry{'n', f2, f3}
			case 2:
				entries[n] = c03Entry{'c', f2, f3}
			default:
				return fmt.Errorf("xref stream entry %d has type %d", n, tp)
			}
		}
	}
	for n := int64(0); n < size; n++ {
		e, ok := entries[n]
		if !ok {
			return fmt.Errorf("object %d below /Size %d has no xref entry", n, size)
		}
		if e.kind != 'n' {
			continue
		}
		if e.pos <= 0 || e.pos >= int64(len(data)) {
			return fmt.Errorf("object %d: offset %d outside the file", n, e.pos)
		}
		m := c03ObjHdr.FindSubmatch(data[e.pos:])
		if m == nil || string(m[1]) != strconv.FormatInt(n, 10) || string(m[2]) != strconv.FormatInt(e.gen, 10) {
			return fmt.Errorf("object %d %d: offset %d does not point at its header (found %q)", n, e.gen, e.pos, data[e.pos:min(e.pos+20, int64(len(data)))])
		}
		// stream framing
		end := bytes.Index(data[e.pos:], []byte("endobj"))
		objText := data[e.pos : e.pos+int64(end)]
		if si := bytes.Index(objText, []byte(">>\nstream\n")); si >= 0 || bytes.Contains(objText, []byte(">>\r\nstream")) {
			_ = si
		}
	}
	for n := range entries {
		if n >= size {
			return fmt.Errorf("entry for object %d >= /Size %d", n, size)
		}
	}
	if e0, ok := entries[0]; !ok || e0.kind != 'f' {
		return fmt.Errorf("object 0 is not free")
	}
	f.entries, f.size = entries, size
	return nil
}

// c03TopLevel splits the first dictionary in text into its top-level entries (key -> value text).
func c03TopLevel(text []byte) map[string]string {
	out := map[string]string{}
	i := bytes.Index(text, []byte("<<"))
	if i < 0 {
		return out
	}
	i += 2
	depth := 0
	key := ""
	start := -1
	flush := func(end int) {
		if key != "" && start >= 0 {
			out[key] = string(bytes.TrimSpace(text[start:end]))
		}
	}
	for i < len(text) {
		c := text[i]
		switch {
		case c == '(':
			// literal string: skip to the matching parenthesis
			lvl := 1
			i++
			for i < len(text) && lvl > 0 {
				switch text[i] {
				case '\\':
					i++
				case '(':
					lvl++
				case ')':
					lvl--
				}
				i++
			}
			continue
		case c == '<' && i+1 < len(text) && text[i+1] == '<':
			depth++
			i += 2
			continue
		case c == '>' && i+1 < len(text) && text[i+1] == '>':
			if depth == 0 {
				flush(i)
				return out
			}
			depth--
			i += 2
			continue
		case c == '<':
			for i < len(text) && text[i] != '>' {
				i++
			}
		case c == '[':
			depth++
		case c == ']':
			depth--
		case c == '/' && depth == 0:
			j := i + 1
			for j < len(text) && !bytes.ContainsRune([]byte(" \r\n\t/<>[]()"), rune(text[j])) {
				j++
			}
			if start < 0 || key == "" || len(bytes.TrimSpace(text[start:i])) > 0 {
				// a name in key position, unless we are waiting for a value and nothing came yet
				if key == "" || len(bytes.TrimSpace(text[start:i])) > 0 {
					flush(i)
					key = string(text[i+1 : j])
					start = j
					i = j
					continue
				}
			}
			i = j
			continue
		}
		i++
	}
	return out
}

// c03Streams checks, for every in-use object that is a stream with a direct /Length,
// that exactly /Length bytes lie between "stream" EOL and the EOL before "endstream".
func c03Streams(data []byte) error {
	for _, loc := range regexp.MustCompile(`(?m)^\d+ \d+ obj\b`).FindAllIndex(data, -1) {
		obj := data[loc[0]:]
		end := bytes.Index(obj, []byte("endobj"))
		si := bytes.Index(obj, []byte("stream"))
		if si < 0 || (end >= 0 && si > end) {
			continue
		}
		dictText := obj[:si]
		if !bytes.Contains(dictText, []byte("<<")) || !bytes.HasSuffix(bytes.TrimRight(dictText, "\r\n "), []byte(">>")) {
			continue
		}
		top := c03TopLevel(dictText)
		n, err := strconv.Atoi(top["Length"])
		if err != nil {
			continue // indirect or missing: checked through the reader
		}
		body := obj[si+6:]
		if bytes.HasPrefix(body, []byte("\r\n")) {
			body = body[2:]
		} else if bytes.HasPrefix(body, []byte("\n")) {
			body = body[1:]
		} else {
			return fmt.Errorf("object at %d: no EOL after the stream keyword", loc[0])
		}
		if n > len(body) {
			return fmt.Errorf("object at %d: /Length %d exceeds the file", loc[0], n)
		}
		tail := body[n:]
		if !(bytes.HasPrefix(tail, []byte("\nendstream")) || bytes.HasPrefix(tail, []byte("\r\nendstream")) || bytes.HasPrefix(tail, []byte("\rendstream"))) {
			return fmt.Errorf("object at %d: /Length %d is not followed by EOL + endstream (found %q)", loc[0], n, tail[:min(len(tail), 16)])
		}
	}
	return nil
}

func TestB2C03Structure(t *testing.T) {
	cases := 0
	for _, mk := range c02Scenarios() {
		doc, err := mk()
		if err != nil {
			t.Errorf("B2-FAIL write-error %v", err)
			continue
		}
		cases++
		// strict parser (cross-reference level and object level), direct /Length values, and
		// the values the strict parser extracts against what was written
		c03Verify(t, doc)
		// the decode parameters in the file describe the encoder that was used: an LZW stream
		// written without early change says so, whatever else is in /DecodeParms
		if doc.userPwd == "" && doc.ownerPwd == "" {
			for _, st := range doc.streams {
				for _, f := range st.filters {
					lz, ok := f.(FilterLZW)
					if !ok || lz.OffByOne {
						continue
					}
					hdr := []byte(fmt.Sprintf("%d %d obj", st.ref.Number(), st.ref.Generation()))
					i := bytes.Index(doc.bytes, append([]byte("\n"), hdr...))
					if i < 0 {
						continue // inside an object stream or the first object
					}
					j := bytes.Index(doc.bytes[i:], []byte("stream"))
					dictText := doc.bytes[i : i+j]
					if !regexp.MustCompile(`/EarlyChange\s+0`).Match(dictText) {
						t.Errorf("B2-FAIL decode-parms %s: LZW stream %v written without early change lacks /EarlyChange 0: %.200q", doc.desc, st.ref, dictText)
					}
				}
			}
		}
	}
	// further write programs: token boundaries between all kinds of objects, names, strings
	// and numbers with every kind of escape, pseudo-random programs
	seed := c03Seed()
	progs := append(c03Programs(), c03Sparse(300, 0), c03Sparse(70000, 1), c03Sparse(66000, 2))
	for pi, prog := range progs {
		for vi, v := range c03AllVersions() {
			for hi, human := range []bool{false, true} {
				type cfg struct {
					seekable    bool
					user, owner string
				}
				cfgs := []cfg{{(pi+vi+hi)%2 == 1, "", ""}}
				if b2Thorough() {
					cfgs = append(cfgs, cfg{(pi+vi+hi)%2 == 0, "", ""})
				}
				if v >= V1_4 && (b2Thorough() || !human && v >= V1_7) {
					cfgs = append(cfgs, cfg{false, "", "owner"}, cfg{true, "user", "owner"})
				}
				for ci, c := range cfgs {
					cases++
					doc, err := c03Run(prog, v, human, c.seekable, c.user, c.owner, seed*1000+int64(pi*100+vi*10+hi*4+ci))
					if err != nil {
						t.Errorf("B2-FAIL write-error %v", err)
						continue
					}
					c03Verify(t, doc)
				}
			}
		}
	}
	t.Logf("B2-CASES %d", cases)
}

// TestB2C03Rejected: calls the Writer rejects must not leave traces in the file.  After
// a rejected OpenStream (every rejection path) or a stream closed with a wrong
// caller-supplied /Length, either some later call reports an error, or the file that
// Close produces passes the strict parser and the rejected number has no in-use entry.
func TestB2C03Rejected(t *testing.T) {
	cases := 0
	type reject struct {
		name string
		call func(w *Writer, ref Reference) error
	}
	rejects := []reject{
		{"crypt-filter-not-first", func(w *Writer, ref Reference) error {
			_, err := w.OpenStream(ref, Dict{}, FilterFlate{}, FilterCryptIdentity{})
			return err
		}},
		{"length-not-integer", func(w *Writer, ref Reference) error {
			_, err := w.OpenStream(ref, Dict{"Length": Name("x")})
			return err
		}},
		{"length-reference", func(w *Writer, ref Reference) error {
			_, err := w.OpenStream(ref, Dict{"Length": w.Alloc()})
			return err
		}},
		{"filter-not-in-version", func(w *Writer, ref Reference) error {
			_, err := w.OpenStream(ref, Dict{}, &FilterJBIG2{})
			return err
		}},
	}
	for _, v := range []Version{V1_1, V1_4, V1_7, V2_0} {
		for _, human := range []bool{false, true} {
			for _, rj := range rejects {
				cases++
				desc := fmt.Sprintf("%s v=%v human=%v", rj.name, v, human)
				var buf bytes.Buffer
				w, err := NewWriter(&buf, v, &WriterOptions{HumanReadable: human})
				if err != nil {
					t.Errorf("B2-FAIL rejected-setup %s: %v", desc, err)
					continue
				}
				a := w.Alloc()
				w.GetMeta().Catalog.Pages = a
				bad := w.Alloc()
				later := w.Alloc()
				failed := false
				note := func(err error) {
					if err != nil {
						failed = true
					}
				}
				note(w.Put(a, Dict{"Type": Name("Pages"), "Kids": Array{}, "Count": Integer(0)}))
				if err := rj.call(w, bad); err == nil {
					// the call was accepted in this configuration: nothing to check
					continue
				}
				note(w.Put(later, Dict{"After": String("the rejected call")}))
				note(w.Close())
				if failed {
					continue // the writer reported the problem
				}
				if err := c03Check(buf.Bytes()); err != nil {
					t.Errorf("B2-FAIL rejected-call-leaves-trace %s: %v", desc, err)
				}
				if r, err := NewReader(bytes.NewReader(buf.Bytes()), int64(buf.Len()), nil); err != nil {
					t.Errorf("B2-FAIL rejected-call-leaves-trace %s: open: %v", desc, err)
				} else {
					if got, err := r.Get(bad, true); err != nil || got != nil {
						t.Errorf("B2-FAIL rejected-call-leaves-trace %s: the rejected reference reads as %v (%v), want null", desc, got, err)
					}
					if got, err := r.Get(later, true); err != nil || !Equal(got, Dict{"After": String("the rejected call")}) {
						t.Errorf("B2-FAIL rejected-call-leaves-trace %s: the object written afterwards reads as %v (%v)", desc, got, err)
					}
				}
				// the reference can be used again after the rejected call
				var buf2 bytes.Buffer
				if w2, err := NewWriter(&buf2, v, &WriterOptions{HumanReadable: human}); err == nil {
					a2 := w2.Alloc()
					w2.GetMeta().Catalog.Pages = a2
					w2.Put(a2, Dict{"Type": Name("Pages"), "Kids": Array{}, "Count": Integer(0)})
					bad2 := w2.Alloc()
					if rj.call(w2, bad2) != nil {
						if err := w2.Put(bad2, String("second attempt")); err != nil {
							t.Errorf("B2-FAIL rejected-call-leaves-trace %s: the reference cannot be written after the rejected call: %v", desc, err)
						}
					}
				}
			}
			// a stream closed with a wrong caller-supplied /Length
			for _, n := range []int{100, 1023, 1024, 1500, 5000} {
				for _, delta := range []int{-1, 1} {
					cases++
					desc := fmt.Sprintf("wrong-length n=%d delta=%d v=%v human=%v", n, delta, v, human)
					var buf bytes.Buffer
					w, _ := NewWriter(&buf, v, &WriterOptions{HumanReadable: human})
					a := w.Alloc()
					w.GetMeta().Catalog.Pages = a
					w.Put(a, Dict{"Type": Name("Pages"), "Kids": Array{}, "Count": Integer(0)})
					failed := false
					sw, err := w.OpenStream(w.Alloc(), Dict{"Length": Integer(n + delta)})
					if err != nil {
						continue
					}
					if _, err := sw.Write(c02Data(n, 1)); err != nil {
						failed = true
					}
					if err := sw.Close(); err != nil {
						failed = true
					}
					if err := w.Close(); err != nil {
						failed = true
					}
					if failed {
						continue
					}
					if err := c03Streams(buf.Bytes()); err != nil {
						t.Errorf("B2-FAIL wrong-length-accepted %s: %v", desc, err)
					} else {
						t.Errorf("B2-FAIL wrong-length-accepted %s: no error and the strict parser did not notice", desc)
					}
				}
			}
		}
	}
	t.Logf("B2-CASES %d", cases)
}

// ---- C03: strict object-level parser, written from ISO 32000-1 7.2 (lexical conventions),
// 7.3 (objects), 7.3.8 (streams), 7.5.7 (object streams); shares no code with the library ----

// c03Val is a value as extracted by the strict parser.
type c03Val struct {
	kind     byte // 'z' null, 'b' boolean, 'i' integer, 'r' real, 's' string, 'n' name, 'a' array, 'd' dictionary, 'R' reference
	b        bool
	i        int64 // integer value; object number of a reference
	gen      int64 // generation number of a reference
	f        float64
	s        string
	arr      []*c03Val
	dict     map[string]*c03Val
	isStream bool
	stream   []byte // the /Length bytes after "stream" EOL
}

type c03File struct {
	data       []byte
	entries    map[int64]c03Entry
	size       int64
	xrefStream bool
	trailerPos int64 // table: just after the keyword trailer; stream: the cross-reference stream object
	trailer    *c03Val
	encrypted  bool
	objs       map[int64]*c03Val // in-use objects by number
	busy       map[int64]bool
	objStms    map[int64]*c03ObjStm
}

type c03ObjStm struct {
	opaque bool // encrypted: contents not available to this parser
	n      int64
	nums   []int64
	vals   []*c03Val
}

func c03IsWhite(c byte) bool {
	return c == 0 || c == 9 || c == 10 || c == 12 || c == 13 || c == 32
}

func c03IsDelim(c byte) bool {
	switch c {
	case '(', ')', '<', '>', '[', ']', '{', '}', '/', '%':
		return true
	}
	return false
}

func c03IsRegular(c byte) bool { return !c03IsWhite(c) && !c03IsDelim(c) }

func c03Hex(c byte) int {
	switch {
	case c >= '0' && c <= '9':
		return int(c - '0')
	case c >= 'a' && c <= 'f':
		return int(c-'a') + 10
	case c >= 'A' && c <= 'F':
		return int(c-'A') + 10
	}
	return -1
}

var (
	c03IntRe  = regexp.MustCompile(`^[+-]?[0-9]+$`)
	c03UintRe = regexp.MustCompile(`^[0-9]+$`)
	c03RealRe = regexp.MustCompile(`^[+-]?([0-9]+\.[0-9]*|\.[0-9]+)$`)
)

type c03Lex struct {
	data []byte
	pos  int
}

// skip passes over white space and comments (7.2.3, 7.2.4).
func (l *c03Lex) skip() {
	for l.pos < len(l.data) {
		c := l.data[l.pos]
		if c03IsWhite(c) {
			l.pos++
		} else if c == '%' {
			for l.pos < len(l.data) && l.data[l.pos] != '\r' && l.data[l.pos] != '\n' {
				l.pos++
			}
		} else {
			break
		}
	}
}

// word reads the maximal run of regular characters at the current position: one token (7.2.2).
func (l *c03Lex) word() string {
	start := l.pos
	for l.pos < len(l.data) && c03IsRegular(l.data[l.pos]) {
		l.pos++
	}
	return string(l.data[start:l.pos])
}

// name reads a name object (7.3.5): SOLIDUS, then regular characters; a NUMBER SIGN must be
// followed by two hexadecimal digits, and the code 0 is not allowed.
func (l *c03Lex) name() (string, error) {
	start := l.pos
	l.pos++ // '/'
	raw := l.word()
	var out []byte
	for i := 0; i < len(raw); i++ {
		if raw[i] != '#' {
			out = append(out, raw[i])
			continue
		}
		if i+2 >= len(raw) || c03Hex(raw[i+1]) < 0 || c03Hex(raw[i+2]) < 0 {
			return "", fmt.Errorf("name %.30q at %d: '#' not followed by two hex digits", "/"+raw, start)
		}
		c := byte(c03Hex(raw[i+1])<<4 | c03Hex(raw[i+2]))
		if c == 0 {
			return "", fmt.Errorf("name %.30q at %d: #00 in a name", "/"+raw, start)
		}
		out = append(out, c)
		i += 2
	}
	return string(out), nil
}

// literal reads a literal string (7.3.4.2).
func (l *c03Lex) literal() (string, error) {
	start := l.pos
	l.pos++ // '('
	depth := 1
	var out []byte
	for {
		if l.pos >= len(l.data) {
			return "", fmt.Errorf("literal string at %d is not closed", start)
		}
		c := l.data[l.pos]
		l.pos++
		switch c {
		case '\\':
			if l.pos >= len(l.data) {
				return "", fmt.Errorf("literal string at %d is not closed", start)
			}
			e := l.data[l.pos]
			l.pos++
			switch e {
			case 'n':
				out = append(out, '\n')
			case 'r':
				out = append(out, '\r')
			case 't':
				out = append(out, '\t')
			case 'b':
				out = append(out, '\b')
			case 'f':
				out = append(out, '\f')
			case '(', ')', '\\':
				out = append(out, e)
			case '\r': // line continuation
				if l.pos < len(l.data) && l.data[l.pos] == '\n' {
					l.pos++
				}
			case '\n':
			case '0', '1', '2', '3', '4', '5', '6', '7':
				v := int(e - '0')
				for k := 0; k < 2 && l.pos < len(l.data) && l.data[l.pos] >= '0' && l.data[l.pos] <= '7'; k++ {
					v = v*8 + int(l.data[l.pos]-'0')
					l.pos++
				}
				out = append(out, byte(v))
			default: // the REVERSE SOLIDUS is ignored
				out = append(out, e)
			}
		case '(':
			depth++
			out = append(out, c)
		case ')':
			depth--
			if depth == 0 {
				return string(out), nil
			}
			out = append(out, c)
		case '\r': // an unescaped end-of-line marker is read as LINE FEED
			if l.pos < len(l.data) && l.data[l.pos] == '\n' {
				l.pos++
			}
			out = append(out, '\n')
		default:
			out = append(out, c)
		}
	}
}

// hexString reads a hexadecimal string (7.3.4.3).
func (l *c03Lex) hexString() (string, error) {
	start := l.pos
	l.pos++ // '<'
	var out []byte
	hi := -1
	for {
		if l.pos >= len(l.data) {
			return "", fmt.Errorf("hexadecimal string at %d is not closed", start)
		}
		c := l.data[l.pos]
		l.pos++
		if c == '>' {
			if hi >= 0 {
				out = append(out, byte(hi<<4))
			}
			return string(out), nil
		}
		if c03IsWhite(c) {
			continue
		}
		h := c03Hex(c)
		if h < 0 {
			return "", fmt.Errorf("hexadecimal string at %d: unexpected character %q", start, c)
		}
		if hi < 0 {
			hi = h
		} else {
			out = append(out, byte(hi<<4|h))
			hi = -1
		}
	}
}

// object reads one direct object or indirect reference (7.3).
func (l *c03Lex) object(depth int) (*c03Val, error) {
	if depth > 64 {
		return nil, fmt.Errorf("nesting too deep")
	}
	l.skip()
	if l.pos >= len(l.data) {
		return nil, fmt.Errorf("unexpected end of data")
	}
	c := l.data[l.pos]
	switch {
	case c == '/':
		s, err := l.name()
		return &c03Val{kind: 'n', s: s}, err
	case c == '(':
		s, err := l.literal()
		return &c03Val{kind: 's', s: s}, err
	case c == '<' && l.pos+1 < len(l.data) && l.data[l.pos+1] == '<':
		start := l.pos
		l.pos += 2
		v := &c03Val{kind: 'd', dict: map[string]*c03Val{}}
		for {
			l.skip()
			if l.pos >= len(l.data) {
				return nil, fmt.Errorf("dictionary at %d is not closed", start)
			}
			if bytes.HasPrefix(l.data[l.pos:], []byte(">>")) {
				l.pos += 2
				return v, nil
			}
			if l.data[l.pos] != '/' {
				return nil, fmt.Errorf("dictionary at %d: %.20q where a key was expected", start, l.data[l.pos:])
			}
			key, err := l.name()
			if err != nil {
				return nil, err
			}
			if _, dup := v.dict[key]; dup {
				return nil, fmt.Errorf("dictionary at %d: key %q twice", start, key)
			}
			l.skip()
			if bytes.HasPrefix(l.data[l.pos:], []byte(">>")) {
				return nil, fmt.Errorf("dictionary at %d: key %q without a value", start, key)
			}
			val, err := l.object(depth + 1)
			if err != nil {
				return nil, err
			}
			v.dict[key] = val
		}
	case c == '<':
		s, err := l.hexString()
		return &c03Val{kind: 's', s: s}, err
	case c == '[':
		start := l.pos
		l.pos++
		v := &c03Val{kind: 'a', arr: []*c03Val{}}
		for {
			l.skip()
			if l.pos >= len(l.data) {
				return nil, fmt.Errorf("array at %d is not closed", start)
			}
			if l.data[l.pos] == ']' {
				l.pos++
				return v, nil
			}
			e, err := l.object(depth + 1)
			if err != nil {
				return nil, err
			}
			v.arr = append(v.arr, e)
		}
	case c03IsDelim(c):
		return nil, fmt.Errorf("unexpected delimiter %q at %d", c, l.pos)
	}
	start := l.pos
	w := l.word()
	switch {
	case w == "null":
		return &c03Val{kind: 'z'}, nil
	case w == "true":
		return &c03Val{kind: 'b', b: true}, nil
	case w == "false":
		return &c03Val{kind: 'b'}, nil
	case c03IntRe.MatchString(w):
		i, err := strconv.ParseInt(w, 10, 64)
		if err != nil {
			return nil, fmt.Errorf("integer %.30q at %d out of range", w, start)
		}
		if c03UintRe.MatchString(w) {
			// "N G R" is an indirect reference
			save := l.pos
			l.skip()
			if w2 := l.word(); c03UintRe.MatchString(w2) {
				l.skip()
				if l.word() == "R" {
					gen, err := strconv.ParseInt(w2, 10, 64)
					if err != nil || gen > 65535 || i == 0 {
						return nil, fmt.Errorf("bad reference %s %s R at %d", w, w2, start)
					}
					return &c03Val{kind: 'R', i: i, gen: gen}, nil
				}
			}
			l.pos = save
		}
		return &c03Val{kind: 'i', i: i}, nil
	case c03RealRe.MatchString(w):
		x, err := strconv.ParseFloat(w, 64)
		if err != nil {
			return nil, fmt.Errorf("real %.30q at %d out of range", w, start)
		}
		return &c03Val{kind: 'r', f: x}, nil
	}
	return nil, fmt.Errorf("invalid token %.30q at %d", w, start)
}

// indirect returns in-use object n, parsed at the offset its cross-reference entry gives:
// "N G obj" object [stream EOL data EOL endstream] endobj.
func (f *c03File) indirect(n int64) (*c03Val, error) {
	if v, ok := f.objs[n]; ok {
		return v, nil
	}
	e, ok := f.entries[n]
	if !ok || e.kind != 'n' {
		return nil, fmt.Errorf("object %d is not in use", n)
	}
	return f.parseAt(n, e)
}

func (f *c03File) parseAt(n int64, e c03Entry) (*c03Val, error) {
	if f.busy[n] {
		return nil, fmt.Errorf("object %d: /Length depends on itself", n)
	}
	f.busy[n] = true
	defer delete(f.busy, n)
	m := c03ObjHdr.Find(f.data[e.pos:])
	if m == nil {
		return nil, fmt.Errorf("object %d: no header at %d", n, e.pos)
	}
	l := &c03Lex{data: f.data, pos: int(e.pos) + len(m) - 1}
	v, err := l.object(0)
	if err != nil {
		return nil, fmt.Errorf("object %d %d: %v", n, e.gen, err)
	}
	l.skip()
	kw := l.word()
	if kw == "stream" {
		if v.kind != 'd' {
			return nil, fmt.Errorf("object %d: stream without a dictionary", n)
		}
		if bytes.HasPrefix(l.data[l.pos:], []byte("\r\n")) {
			l.pos += 2
		} else if bytes.HasPrefix(l.data[l.pos:], []byte("\n")) {
			l.pos++
		} else {
			return nil, fmt.Errorf("object %d: no EOL after the stream keyword", n)
		}
		var length int64
		switch lv := v.dict["Length"]; {
		case lv == nil:
			return nil, fmt.Errorf("object %d: stream without /Length", n)
		case lv.kind == 'i':
			length = lv.i
		case lv.kind == 'R':
			lo, err := f.resolve(lv)
			if err != nil {
				return nil, fmt.Errorf("object %d: /Length %d %d R: %v", n, lv.i, lv.gen, err)
			}
			if lo.kind != 'i' || lo.isStream {
				return nil, fmt.Errorf("object %d: /Length %d %d R is not an integer", n, lv.i, lv.gen)
			}
			length = lo.i
		default:
			return nil, fmt.Errorf("object %d: /Length is not an integer", n)
		}
		if length < 0 || int64(l.pos)+length > int64(len(l.data)) {
			return nil, fmt.Errorf("object %d: /Length %d exceeds the file", n, length)
		}
		v.isStream = true
		v.stream = l.data[l.pos : l.pos+int(length)]
		l.pos += int(length)
		tail := l.data[l.pos:]
		switch {
		case bytes.HasPrefix(tail, []byte("\r\nendstream")):
			l.pos += 2
		case bytes.HasPrefix(tail, []byte("\nendstream")), bytes.HasPrefix(tail, []byte("\rendstream")):
			l.pos++
		default:
			return nil, fmt.Errorf("object %d: /Length %d is not followed by EOL endstream (found %q)", n, length, tail[:min(len(tail), 16)])
		}
		if w := l.word(); w != "endstream" {
			return nil, fmt.Errorf("object %d: %.20q where endstream was expected", n, w)
		}
		l.skip()
		kw = l.word()
	}
	if kw != "endobj" {
		return nil, fmt.Errorf("object %d %d: %.20q at %d where endobj was expected", n, e.gen, kw, l.pos-len(kw))
	}
	f.objs[n] = v
	return v, nil
}

// resolve follows an indirect reference; a reference to a free or undefined object is null (7.3.10).
func (f *c03File) resolve(r *c03Val) (*c03Val, error) {
	if r == nil || r.kind != 'R' {
		return r, nil
	}
	e, ok := f.entries[r.i]
	switch {
	case !ok || e.kind == 'f':
		return &c03Val{kind: 'z'}, nil
	case e.kind == 'n':
		if e.gen != r.gen {
			return &c03Val{kind: 'z'}, nil
		}
		return f.indirect(r.i)
	}
	if r.gen != 0 {
		return &c03Val{kind: 'z'}, nil
	}
	st, err := f.objStm(e.pos)
	if err != nil {
		return nil, err
	}
	if st.opaque {
		return nil, nil
	}
	if e.gen < 0 || e.gen >= int64(len(st.vals)) {
		return nil, fmt.Errorf("object %d: index %d outside object stream %d", r.i, e.gen, e.pos)
	}
	return st.vals[e.gen], nil
}

// objStm parses object stream c (7.5.7).
func (f *c03File) objStm(c int64) (*c03ObjStm, error) {
	if st, ok := f.objStms[c]; ok {
		return st, nil
	}
	e, ok := f.entries[c]
	if !ok || e.kind != 'n' {
		kind := "no"
		if ok {
			kind = "a type-" + map[byte]string{'f': "0", 'c': "2"}[e.kind]
		}
		return nil, fmt.Errorf("object stream %d has %s cross-reference entry", c, kind)
	}
	if e.gen != 0 {
		return nil, fmt.Errorf("object stream %d has generation %d", c, e.gen)
	}
	v, err := f.indirect(c)
	if err != nil {
		return nil, err
	}
	if !v.isStream {
		return nil, fmt.Errorf("object %d is used as an object stream but is not a stream", c)
	}
	if tp := v.dict["Type"]; tp == nil || tp.kind != 'n' || tp.s != "ObjStm" {
		return nil, fmt.Errorf("object stream %d lacks /Type /ObjStm", c)
	}
	nv, fv := v.dict["N"], v.dict["First"]
	if nv == nil || nv.kind != 'i' || nv.i < 0 || fv == nil || fv.kind != 'i' || fv.i < 0 {
		return nil, fmt.Errorf("object stream %d: bad /N or /First", c)
	}
	st := &c03ObjStm{n: nv.i}
	f.objStms[c] = st
	raw := v.stream
	flt := v.dict["Filter"]
	if flt != nil && flt.kind == 'a' && len(flt.arr) == 1 {
		flt = flt.arr[0]
	}
	switch {
	case f.encrypted:
		st.opaque = true
		return st, nil
	case flt == nil || flt.kind == 'z':
	case flt.kind == 'n' && flt.s == "FlateDecode" && v.dict["DecodeParms"] == nil:
		zr, err := zlib.NewReader(bytes.NewReader(raw))
		if err != nil {
			return nil, fmt.Errorf("object stream %d: %v", c, err)
		}
		raw, err = io.ReadAll(zr)
		if err != nil {
			return nil, fmt.Errorf("object stream %d: %v", c, err)
		}
	default:
		st.opaque = true // a filter this parser does not implement
		return st, nil
	}
	first := int(fv.i)
	if first > len(raw) {
		return nil, fmt.Errorf("object stream %d: /First %d exceeds the %d bytes of data", c, first, len(raw))
	}
	hl := &c03Lex{data: raw[:first]}
	var offs []int
	for k := int64(0); k < st.n; k++ {
		hl.skip()
		w1 := hl.word()
		hl.skip()
		w2 := hl.word()
		if !c03UintRe.MatchString(w1) || !c03UintRe.MatchString(w2) {
			return nil, fmt.Errorf("object stream %d: pair %d of the offset table is %.12q %.12q", c, k, w1, w2)
		}
		num, _ := strconv.ParseInt(w1, 10, 64)
		off, _ := strconv.Atoi(w2)
		if len(offs) > 0 && off <= offs[len(offs)-1] || first+off > len(raw) {
			return nil, fmt.Errorf("object stream %d: offset %d of member %d out of order or outside the data", c, off, k)
		}
		st.nums = append(st.nums, num)
		offs = append(offs, off)
	}
	if hl.skip(); hl.pos != len(hl.data) {
		return nil, fmt.Errorf("object stream %d: %.20q between the %d pairs of the offset table and /First %d", c, hl.data[hl.pos:], st.n, first)
	}
	for k := range offs {
		end := len(raw)
		if k+1 < len(offs) {
			end = first + offs[k+1]
		}
		ol := &c03Lex{data: raw[first+offs[k] : end]}
		val, err := ol.object(0)
		if err != nil {
			return nil, fmt.Errorf("object stream %d member %d (object %d): %v in %.60q", c, k, st.nums[k], err, ol.data)
		}
		if ol.skip(); ol.pos != len(ol.data) {
			return nil, fmt.Errorf("object stream %d member %d (object %d): %.20q after the object", c, k, st.nums[k], ol.data[ol.pos:])
		}
		st.vals = append(st.vals, val)
		if ce, ok := f.entries[st.nums[k]]; !ok || ce.kind != 'c' || ce.pos != c || ce.gen != int64(k) {
			return nil, fmt.Errorf("object stream %d member %d is object %d, whose cross-reference entry says %c %d %d", c, k, st.nums[k], ce.kind, ce.pos, ce.gen)
		}
	}
	return st, nil
}

// objects parses the trailer dictionary, every in-use object and every object stream, and
// checks every type-2 cross-reference entry against the object stream it names.
func (f *c03File) objects() error {
	f.objs = map[int64]*c03Val{}
	f.busy = map[int64]bool{}
	f.objStms = map[int64]*c03ObjStm{}
	if f.xrefStream {
		m := c03ObjHdr.FindSubmatch(f.data[f.trailerPos:])
		xn, _ := strconv.ParseInt(string(m[1]), 10, 64)
		xg, _ := strconv.ParseInt(string(m[2]), 10, 64)
		// the stream is found through startxref; its own number may have an entry that points
		// at it or be marked free, but must not belong to another object
		if e, ok := f.entries[xn]; xn >= f.size || ok && e.kind != 'f' && (e.kind != 'n' || e.pos != f.trailerPos) {
			return fmt.Errorf("the cross-reference stream is object %d, whose entry (/Size %d) is type %c at %d", xn, f.size, e.kind, e.pos)
		}
		t, err := f.parseAt(xn, c03Entry{'n', f.trailerPos, xg})
		if err != nil {
			return err
		}
		if tp := t.dict["Type"]; !t.isStream || tp == nil || tp.kind != 'n' || tp.s != "XRef" {
			return fmt.Errorf("the cross-reference stream lacks /Type /XRef")
		}
		f.trailer = t
	} else {
		l := &c03Lex{data: f.data, pos: int(f.trailerPos)}
		t, err := l.object(0)
		if err != nil || t.kind != 'd' {
			return fmt.Errorf("trailer dictionary: %v", err)
		}
		if l.skip(); l.word() != "startxref" {
			return fmt.Errorf("no startxref after the trailer dictionary")
		}
		f.trailer = t
	}
	if sz := f.trailer.dict["Size"]; sz == nil || sz.kind != 'i' || sz.i != f.size {
		return fmt.Errorf("trailer /Size is not the integer %d", f.size)
	}
	if enc := f.trailer.dict["Encrypt"]; enc != nil && enc.kind != 'z' {
		f.encrypted = true
	}
	root := f.trailer.dict["Root"]
	if root == nil || root.kind != 'R' {
		return fmt.Errorf("trailer /Root is not a reference")
	}
	nums := make([]int64, 0, len(f.entries))
	for n := int64(0); n < f.size; n++ {
		nums = append(nums, n)
	}
	for _, n := range nums {
		switch e := f.entries[n]; e.kind {
		case 'n':
			v, err := f.indirect(n)
			if err != nil {
				return err
			}
			if tp := v.dict["Type"]; v.isStream && tp != nil && tp.kind == 'n' && tp.s == "ObjStm" {
				if _, err := f.objStm(n); err != nil {
					return err
				}
			}
		case 'c':
			st, err := f.objStm(e.pos)
			if err != nil {
				return fmt.Errorf("object %d: %v", n, err)
			}
			if e.gen >= st.n {
				return fmt.Errorf("object %d: index %d in object stream %d with /N %d", n, e.gen, e.pos, st.n)
			}
			if !st.opaque && st.nums[e.gen] != n {
				return fmt.Errorf("object %d: member %d of object stream %d is object %d", n, e.gen, e.pos, st.nums[e.gen])
			}
		}
	}
	cat, err := f.resolve(root)
	if err != nil {
		return err
	}
	if cat != nil {
		if tp := cat.dict["Type"]; cat.kind != 'd' || tp == nil || tp.kind != 'n' || tp.s != "Catalog" {
			return fmt.Errorf("trailer /Root %d %d R is not a catalog dictionary", root.i, root.gen)
		}
	}
	return nil
}

// c03Diff compares a written value with what the strict parser extracted; "" means equal.
// In encrypted files the contents of strings are not compared.
func c03Diff(path string, want Object, got *c03Val, enc bool) string {
	if got == nil {
		return path + ": missing"
	}
	bad := func(kind string) string {
		return fmt.Sprintf("%s: wrote %s %.40s, parsed %s", path, kind, AsString(want), got.show())
	}
	switch x := want.(type) {
	case nil:
		if got.kind != 'z' {
			return bad("null")
		}
	case Boolean:
		if got.kind != 'b' || got.b != bool(x) {
			return bad("boolean")
		}
	case Integer:
		if got.kind != 'i' || got.i != int64(x) {
			return bad("integer")
		}
	case Real:
		if !(got.kind == 'r' && got.f == float64(x)) && !(got.kind == 'i' && float64(got.i) == float64(x)) {
			return bad("real")
		}
	case Name:
		if got.kind != 'n' || got.s != string(x) {
			return bad("name")
		}
	case String:
		if got.kind != 's' || !enc && got.s != string(x) {
			return bad("string")
		}
	case Reference:
		if got.kind != 'R' || got.i != int64(x.Number()) || got.gen != int64(x.Generation()) {
			return bad("reference")
		}
	case Array:
		if x == nil {
			if got.kind != 'z' {
				return bad("nil array")
			}
			return ""
		}
		if got.kind != 'a' || len(got.arr) != len(x) {
			return bad(fmt.Sprintf("array of %d", len(x)))
		}
		for i := range x {
			if d := c03Diff(fmt.Sprintf("%s[%d]", path, i), x[i], got.arr[i], enc); d != "" {
				return d
			}
		}
	case Dict:
		if x == nil {
			if got.kind != 'z' {
				return bad("nil dictionary")
			}
			return ""
		}
		if got.kind != 'd' {
			return bad("dictionary")
		}
		n := 0
		for k, v := range x {
			if v == nil {
				if g := got.dict[string(k)]; g != nil && g.kind != 'z' {
					return bad("dictionary")
				}
				continue
			}
			n++
			if d := c03Diff(fmt.Sprintf("%s/%q", path, string(k)), v, got.dict[string(k)], enc); d != "" {
				return d
			}
		}
		for _, g := range got.dict {
			if g.kind != 'z' {
				n--
			}
		}
		if n != 0 {
			return bad("dictionary")
		}
	}
	return ""
}

func (v *c03Val) show() string {
	switch v.kind {
	case 'z':
		return "null"
	case 'b':
		return fmt.Sprint(v.b)
	case 'i':
		return fmt.Sprint(v.i)
	case 'r':
		return fmt.Sprint("real ", v.f)
	case 's':
		return fmt.Sprintf("string %.30q", v.s)
	case 'n':
		return fmt.Sprintf("name %.30q", v.s)
	case 'R':
		return fmt.Sprintf("%d %d R", v.i, v.gen)
	case 'a':
		return fmt.Sprintf("array of %d", len(v.arr))
	}
	return fmt.Sprintf("dictionary of %d", len(v.dict))
}

// c03Get returns the value the strict parser extracts for ref (nil, nil if it lies in an
// object stream this parser cannot open).
func (f *c03File) get(ref Reference) (*c03Val, error) {
	n := int64(ref.Number())
	e, ok := f.entries[n]
	switch {
	case !ok:
		return nil, fmt.Errorf("no cross-reference entry")
	case e.kind == 'f':
		return nil, fmt.Errorf("the entry is free")
	case e.kind == 'n' && e.gen != int64(ref.Generation()):
		return nil, fmt.Errorf("the entry has generation %d", e.gen)
	}
	return f.resolve(&c03Val{kind: 'R', i: n, gen: int64(ref.Generation())})
}

// c03Compare checks what the strict parser extracts from doc.bytes against what was written.
func c03Compare(doc *c02Doc, f *c03File) []string {
	var out []string
	if f.encrypted != (doc.userPwd != "" || doc.ownerPwd != "") {
		out = append(out, fmt.Sprintf("trailer /Encrypt present: %v", f.encrypted))
	}
	for ref, want := range doc.objects {
		got, err := f.get(ref)
		if err != nil {
			out = append(out, fmt.Sprintf("%v: %v", ref, err))
		} else if got == nil {
			continue
		} else if got.isStream {
			out = append(out, fmt.Sprintf("%v: written as a direct object, found a stream", ref))
		} else if d := c03Diff(fmt.Sprint(ref), want, got, f.encrypted); d != "" {
			out = append(out, d)
		}
	}
	for _, ref := range doc.unused {
		if e, ok := f.entries[int64(ref.Number())]; ok && e.kind != 'f' {
			out = append(out, fmt.Sprintf("%v was never written but has a type %c entry", ref, e.kind))
		}
	}
	for _, s := range doc.streams {
		got, err := f.get(s.ref)
		if err != nil || got == nil || !got.isStream {
			out = append(out, fmt.Sprintf("stream %v: %v %v", s.ref, got, err))
			continue
		}
		for k, v := range s.dict {
			if k == "Length" || k == "Filter" || k == "DecodeParms" || v == nil && got.dict[string(k)] == nil {
				continue
			}
			if d := c03Diff(fmt.Sprintf("stream %v/%q", s.ref, string(k)), v, got.dict[string(k)], f.encrypted); d != "" {
				out = append(out, d)
			}
		}
		if f.encrypted {
			continue
		}
		flt := got.dict["Filter"]
		switch {
		case len(s.filters) == 0:
			if flt != nil && flt.kind != 'z' || !bytes.Equal(got.stream, s.data) {
				out = append(out, fmt.Sprintf("stream %v: %d bytes written without filter, found %d bytes, /Filter %v", s.ref, len(s.data), len(got.stream), flt != nil))
			}
		case len(s.filters) == 1:
			if flt != nil && flt.kind == 'a' && len(flt.arr) == 1 {
				flt = flt.arr[0]
			}
			if flt == nil || flt.kind != 'n' {
				out = append(out, fmt.Sprintf("stream %v: written with one filter, /Filter is not a name", s.ref))
				continue
			}
			ff, isFlate := s.filters[0].(FilterFlate)
			if _, isHex := s.filters[0].(FilterASCIIHex); isHex && flt.s == "ASCIIHexDecode" {
				l := &c03Lex{data: append([]byte("<"), got.stream...)}
				dec, err := l.hexString()
				if err != nil || dec != string(s.data) {
					out = append(out, fmt.Sprintf("stream %v: ASCIIHex data decodes to %d bytes (%v), wrote %d", s.ref, len(dec), err, len(s.data)))
				}
			} else if isFlate && ff.Predictor == 0 && flt.s == "FlateDecode" {
				var dec []byte
				zr, err := zlib.NewReader(bytes.NewReader(got.stream))
				if err == nil {
					dec, err = io.ReadAll(zr)
				}
				if err != nil || !bytes.Equal(dec, s.data) {
					out = append(out, fmt.Sprintf("stream %v: Flate data inflates to %d bytes (%v), wrote %d", s.ref, len(dec), err, len(s.data)))
				}
			}
		}
	}
	return out
}

// ---- C03: further write programs (members of the C02 program space chosen for what a
// strict parser can tell apart: token boundaries, name and string escapes, number syntax,
// object numbers far above the byte offsets) ----

func c03Seed() int64 {
	seed := int64(1)
	fmt.Sscanf(os.Getenv("VERIF_SEED"), "%d", &seed)
	return seed
}

// c03Words returns all byte strings over alpha with lengths from..to.
func c03Words(alpha []byte, from, to int) [][]byte {
	var out [][]byte
	cur := [][]byte{{}}
	for l := 1; l <= to; l++ {
		var next [][]byte
		for _, s := range cur {
			for _, c := range alpha {
				next = append(next, append(append([]byte{}, s...), c))
			}
		}
		if l >= from {
			out = append(out, next...)
		}
		cur = next
	}
	return out
}

// c03Names: names over an alphabet of regular characters, delimiters, white space, bytes
// outside 0x21..0x7e, the NUMBER SIGN and hexadecimal / non-hexadecimal characters around it
// (no NUL: 7.3.5 excludes it from names).
func c03Names(rng *rand.Rand) []Name {
	out := []Name{"", "Type", "A#42", "a b#c", "Lang#C#4", "F# minor", "#", "##", "1.5", "+", "-", ".", "true", "null", "R", "obj", "endobj", "stream"}
	alpha := []byte{'#', '2', '3', 'A', 'f', 'Z', 'g', ' ', '/', '(', ')', '%', '<', '>', '[', ']', '{', '}', 0x7f, 0x80, 0xff, '\n', '\r', '\t', '\f', '.', '+', '-', '!', '~', 0x01}
	maxLen := 2
	if b2Thorough() {
		maxLen = 3
	}
	for _, w := range c03Words(alpha, 1, maxLen) {
		out = append(out, Name(w))
	}
	for _, w := range c03Words([]byte{'#', '2', '0', 'Z', 'e'}, 3, 4) {
		out = append(out, Name(w))
	}
	n := 150
	if b2Thorough() {
		n = 3000
	}
	for i := 0; i < n; i++ {
		w := make([]byte, 1+rng.Intn(9))
		for k := range w {
			switch rng.Intn(4) {
			case 0:
				w[k] = alpha[rng.Intn(len(alpha))]
			case 1:
				w[k] = '#'
			default:
				w[k] = byte(1 + rng.Intn(255))
			}
		}
		out = append(out, Name(w))
	}
	return out
}

func c03Strings(rng *rand.Rand) []String {
	var out []String
	for _, w := range []string{"", "(a) and (b", "\\(\\)", "a\\", "(\r\n)", "\\\r", "\\\n", "\\101", "\\0", "ends in CR\r", "\r\nstarts with EOL"} {
		out = append(out, String(w))
	}
	alpha := []byte{'\n', '\r', ' ', '(', ')', '\\', '0', '7', 'n', 'A', 0x00, 0x80, 0xff, '<', '>', '\t', '\b', '\f'}
	maxLen := 2
	if b2Thorough() {
		maxLen = 3
	}
	for _, w := range c03Words(alpha, 1, maxLen) {
		out = append(out, String(w))
	}
	all := make([]byte, 256)
	for i := range all {
		all[i] = byte(i)
	}
	out = append(out, String(all))
	n := 100
	if b2Thorough() {
		n = 2000
	}
	for i := 0; i < n; i++ {
		w := make([]byte, rng.Intn(40))
		for k := range w {
			if rng.Intn(2) == 0 {
				w[k] = alpha[rng.Intn(len(alpha))]
			} else {
				w[k] = byte(rng.Intn(256))
			}
		}
		out = append(out, String(w))
	}
	return out
}

func c03Numbers(rng *rand.Rand) []Object {
	var out []Object
	for _, i := range []int64{0, 1, -1, 9, 10, 127, 255, 256, 65535, 65536, math.MaxInt32, math.MinInt32, math.MaxInt32 + 1, math.MaxInt64, math.MinInt64} {
		out = append(out, Integer(i))
	}
	for _, r := range []float64{0, 1, -1, 0.5, -0.25, 3, -3, 1e-7, 1e-5, 123456789.125, 1e15, 1e20, -1e20, 1e21, 0.1, 0.1 + 0.2, math.Pi, 9007199254740993, 1234.5678901234567,
		4294967296, -2147483649, 5e-324, math.MaxFloat64, -math.MaxFloat64, 1.5e-10} {
		out = append(out, Real(r))
	}
	for i := 0; i < 60; i++ {
		switch i % 3 {
		case 0:
			out = append(out, Integer(rng.Int63()>>uint(rng.Intn(63))*int64(1-2*rng.Intn(2))))
		case 1:
			out = append(out, Real(rng.NormFloat64()*math.Pow(10, float64(rng.Intn(30)-15))))
		default:
			out = append(out, Real(float64(rng.Intn(2000)-1000)/float64(1+rng.Intn(64))))
		}
	}
	return out
}

// c03Kinds: one or two values of every kind of object, by the character class of their
// first and last byte in the file.
func c03Kinds(target Reference) []Object {
	return []Object{nil, Boolean(true), Boolean(false), Integer(1), Integer(-7), Real(0.5), Real(-2), Real(3), Name("N"), Name(""), Name("1"),
		String("s"), String("\x00\xff\xfe"), String(""), Array{}, Array{Integer(1)}, Dict{}, Dict{"K": Integer(1)}, target, NewReference(7, 3)}
}

func c03RandomValue(rng *rand.Rand, depth int, names []Name, strs []String, nums []Object, target Reference) Object {
	k := rng.Intn(12)
	if depth >= 3 && k >= 10 {
		k = rng.Intn(10)
	}
	switch k {
	case 0:
		return nil
	case 1:
		return Boolean(rng.Intn(2) == 0)
	case 2, 3:
		return nums[rng.Intn(len(nums))]
	case 4, 5:
		return names[rng.Intn(len(names))]
	case 6, 7:
		return strs[rng.Intn(len(strs))]
	case 8:
		return target
	case 9:
		return NewReference(uint32(1+rng.Intn(100000)), uint16(rng.Intn(3)*rng.Intn(65536)))
	case 10:
		a := Array{}
		for n := rng.Intn(6); n > 0; n-- {
			a = append(a, c03RandomValue(rng, depth+1, names, strs, nums, target))
		}
		return a
	}
	d := Dict{}
	for n := rng.Intn(5); n > 0; n-- {
		d[names[rng.Intn(len(names))]] = c03RandomValue(rng, depth+1, names, strs, nums, target)
	}
	return d
}

type c03Prog struct {
	name string
	run  func(p *c03Pen) error
}

// c03Pen records what a program writes.
type c03Pen struct {
	w   *Writer
	doc *c02Doc
	rng *rand.Rand
}

func (p *c03Pen) put(ref Reference, obj Object) error {
	p.doc.objects[ref] = obj
	return p.w.Put(ref, obj)
}

func (p *c03Pen) compressed(objs ...Object) error {
	refs := make([]Reference, len(objs))
	for i := range objs {
		refs[i] = p.w.Alloc()
		p.doc.objects[refs[i]] = objs[i]
	}
	return p.w.WriteCompressed(refs, objs...)
}

func (p *c03Pen) gap(n int) {
	for i := 0; i < n; i++ {
		r := p.w.Alloc()
		if i == 0 || i == n-1 {
			p.doc.unused = append(p.doc.unused, r)
		}
	}
}

func (p *c03Pen) stream(dict Dict, data []byte, during []Object, filters ...Filter) error {
	ref := p.w.Alloc()
	sw, err := p.w.OpenStream(ref, dict, filters...)
	if err != nil {
		return err
	}
	for _, o := range during {
		if err := p.put(p.w.Alloc(), o); err != nil {
			return err
		}
	}
	if _, err := sw.Write(data); err != nil {
		return err
	}
	if err := sw.Close(); err != nil {
		return err
	}
	p.doc.streams = append(p.doc.streams, c02Stream{ref, dict, filters, data})
	return nil
}

func (p *c03Pen) pages() error {
	ref := p.w.Alloc()
	p.w.GetMeta().Catalog.Pages = ref
	return p.put(ref, Dict{"Type": Name("Pages"), "Kids": Array{}, "Count": Integer(0)})
}

// spread writes the items in portions: alternately with Put, in one WriteCompressed call
// (where the portion is not the last member, and where it is), and as an entry of a stream
// dictionary.
func (p *c03Pen) spread(items []Object, portion int) error {
	for k := 0; len(items) > 0; k++ {
		n := min(portion, len(items))
		part := Array(items[:n])
		items = items[n:]
		var err error
		switch k % 4 {
		case 0:
			err = p.put(p.w.Alloc(), part)
		case 1:
			err = p.compressed(part, Integer(k))
		case 2:
			err = p.compressed(Integer(k), part)
		default:
			err = p.stream(Dict{"Part": part}, []byte("stream data\n"), nil)
		}
		if err != nil {
			return err
		}
	}
	return nil
}

func c03Programs() []c03Prog {
	return []c03Prog{
		{"adjacent-objects", func(p *c03Pen) error {
			// every ordered pair of kinds of objects next to each other: in arrays, as
			// dictionary values followed by the next key, as neighbours in an object stream
			if err := p.pages(); err != nil {
				return err
			}
			target := p.w.Alloc()
			if err := p.put(target, Integer(42)); err != nil {
				return err
			}
			kinds := c03Kinds(target)
			var pairs, flat, dicts Array
			for _, a := range kinds {
				for _, b := range kinds {
					pairs = append(pairs, Array{a, b})
					flat = append(flat, a, b)
					dicts = append(dicts, Dict{"A": a, "B": b})
				}
			}
			for i := 0; i < 3; i++ {
				for _, o := range []Object{pairs, flat, dicts} {
					var err error
					switch i {
					case 0:
						err = p.put(p.w.Alloc(), o)
					case 1:
						err = p.compressed(o, Integer(1), o)
					default:
						err = p.stream(Dict{"V": o, "W": Integer(1)}, []byte("x"), []Object{o})
					}
					if err != nil {
						return err
					}
				}
			}
			// each kind as a top-level object, directly and as members of one object stream
			// in every cyclic order
			for _, a := range kinds {
				if _, isRef := a.(Reference); isRef {
					continue
				}
				if err := p.put(p.w.Alloc(), a); err != nil {
					return err
				}
			}
			for s := 0; s < len(kinds); s++ {
				var objs []Object
				for i := range kinds {
					o := kinds[(i*(s+1)+s)%len(kinds)]
					if _, isRef := o.(Reference); !isRef {
						objs = append(objs, o)
					}
				}
				if err := p.compressed(objs...); err != nil {
					return err
				}
			}
			return nil
		}},
		{"names", func(p *c03Pen) error {
			if err := p.pages(); err != nil {
				return err
			}
			var items []Object
			for _, nm := range c03Names(p.rng) {
				items = append(items, Array{nm, Integer(1)}, Dict{nm: Integer(2)}, Dict{"K": nm, "L": nm}, Dict{nm: nm})
			}
			return p.spread(items, 400)
		}},
		{"strings-and-numbers", func(p *c03Pen) error {
			if err := p.pages(); err != nil {
				return err
			}
			var items []Object
			for _, s := range c03Strings(p.rng) {
				items = append(items, s)
			}
			for _, x := range c03Numbers(p.rng) {
				items = append(items, x, Array{x, x}, Dict{"X": x, "Y": x})
			}
			if err := p.spread(items, 300); err != nil {
				return err
			}
			for _, x := range c03Numbers(p.rng) {
				if err := p.put(p.w.Alloc(), x); err != nil {
					return err
				}
			}
			return nil
		}},
		{"random-program", func(p *c03Pen) error {
			// a pseudo-random sequence of the calls of the program space
			names, strs, nums := c03Names(p.rng), c03Strings(p.rng), c03Numbers(p.rng)
			target := p.w.Alloc()
			val := func() Object { return c03RandomValue(p.rng, 0, names, strs, nums, target) }
			dict := func() Dict {
				d := Dict{}
				for n := p.rng.Intn(4); n > 0; n-- {
					nm := names[p.rng.Intn(len(names))]
					if nm != "Length" && nm != "Filter" && nm != "DecodeParms" && nm != "Type" {
						d[nm] = val()
					}
				}
				return d
			}
			steps := 60
			if b2Thorough() {
				steps = 400
			}
			pagesAt := p.rng.Intn(steps)
			for i := 0; i < steps; i++ {
				var err error
				if i == pagesAt {
					err = p.pages()
				}
				if err != nil {
					return err
				}
				switch p.rng.Intn(8) {
				case 0:
					p.gap(1 + p.rng.Intn(1+p.rng.Intn(400)))
				case 1, 2:
					o := val()
					if o == nil {
						o = Array{nil}
					}
					ref := p.w.Alloc()
					if p.rng.Intn(6) == 0 {
						ref = NewReference(ref.Number(), uint16(1+p.rng.Intn(65534)))
					}
					err = p.put(ref, o)
				case 3, 4, 5:
					var objs []Object
					for n := 1 + p.rng.Intn(1+p.rng.Intn(30)); n > 0; n-- {
						o := val()
						if _, isRef := o.(Reference); isRef || o == nil {
							o = Array{o}
						}
						objs = append(objs, o)
					}
					err = p.compressed(objs...)
				default:
					var during []Object
					for n := p.rng.Intn(3); n > 0; n-- {
						during = append(during, Array{val()})
					}
					var filters []Filter
					if p.w.GetMeta().Version >= V1_2 {
						filters = [][]Filter{nil, {FilterFlate{}}, {FilterASCIIHex{}}, {FilterASCII85{}}}[p.rng.Intn(4)]
					}
					data := make([]byte, p.rng.Intn(1+p.rng.Intn(3000)))
					p.rng.Read(data)
					err = p.stream(dict(), data, during, filters...)
				}
				if err != nil {
					return fmt.Errorf("step %d: %w", i, err)
				}
			}
			return p.put(target, Integer(42))
		}},
	}
}

// c03Sparse: object numbers far above the byte offsets of the file (references allocated and
// never written before, between and after the objects that are written).
func c03Sparse(gap, layout int) c03Prog {
	return c03Prog{fmt.Sprintf("sparse gap=%d layout=%d", gap, layout), func(p *c03Pen) error {
		pagesDict := Dict{"Type": Name("Pages"), "Kids": Array{}, "Count": Integer(0)}
		switch layout {
		case 0:
			// the smallest file: the gap, then one object stream
			p.gap(gap)
			pages := p.w.Alloc()
			p.w.GetMeta().Catalog.Pages = pages
			p.doc.objects[pages] = pagesDict
			x := p.w.Alloc()
			p.doc.objects[x] = Integer(7)
			return p.w.WriteCompressed([]Reference{pages, x}, pagesDict, Integer(7))
		case 1:
			if err := p.pages(); err != nil {
				return err
			}
			p.gap(gap)
			if err := p.compressed(Integer(1), Name("X"), String("three")); err != nil {
				return err
			}
			p.gap(gap / 2)
			if err := p.compressed(Array{Integer(2)}, Dict{"D": Integer(2)}); err != nil {
				return err
			}
			return p.put(p.w.Alloc(), String("last"))
		default:
			// the gap after the object streams, an object with a high generation number
			if err := p.compressed(Integer(1), Name("X")); err != nil {
				return err
			}
			if err := p.pages(); err != nil {
				return err
			}
			p.gap(gap)
			if err := p.put(NewReference(p.w.Alloc().Number(), 65534), String("high generation")); err != nil {
				return err
			}
			return p.compressed(Integer(3))
		}
	}}
}

func c03Run(prog c03Prog, v Version, human, seekable bool, user, owner string, seed int64) (*c02Doc, error) {
	doc := &c02Doc{objects: map[Reference]Object{}, version: v, userPwd: user, ownerPwd: owner}
	doc.desc = fmt.Sprintf("%s v=%v human=%v seekable=%v user=%q owner=%q seed=%d", prog.name, v, human, seekable, user, owner, seed)
	var sink io.Writer
	var buf bytes.Buffer
	mem := &c02MemSink{}
	if seekable {
		sink = mem
	} else {
		sink = &buf
	}
	w, err := NewWriter(sink, v, &WriterOptions{HumanReadable: human, UserPassword: user, OwnerPassword: owner})
	if err != nil {
		return nil, fmt.Errorf("%s: NewWriter: %w", doc.desc, err)
	}
	if err := prog.run(&c03Pen{w, doc, rand.New(rand.NewSource(seed))}); err != nil {
		return nil, fmt.Errorf("%s: %w", doc.desc, err)
	}
	if err := w.Close(); err != nil {
		return nil, fmt.Errorf("%s: Close: %w", doc.desc, err)
	}
	doc.bytes = buf.Bytes()
	if seekable {
		doc.bytes = mem.data
	}
	return doc, nil
}

// c03Verify runs the strict parser over doc and compares the extracted values; it reports
// at most a few lines per document.
func c03Verify(t *testing.T, doc *c02Doc) {
	f, err := c03Parse(doc.bytes)
	if err != nil {
		t.Errorf("B2-FAIL structure %s: %v", doc.desc, err)
		return
	}
	if err := c03Streams(doc.bytes); err != nil {
		t.Errorf("B2-FAIL stream-length %s: %v", doc.desc, err)
	}
	for i, d := range c03Compare(doc, f) {
		if i == 3 {
			break
		}
		t.Errorf("B2-FAIL value %s: %s", doc.desc, d)
	}
}

func c03AllVersions() []Version {
	if b2Thorough() {
		return []Version{V1_0, V1_1, V1_2, V1_3, V1_4, V1_5, V1_6, V1_7, V2_0}
	}
	return []Version{V1_1, V1_4, V1_5, V1_7, V2_0}
}
