package content

// B2 bounded check for C15 (labelled bounded, never counted as proved): operator
// sequences with operands of the native types are written with Operator.Format and
// scanned again, in one piece and split over several streams at operator boundaries.

import (
	"bytes"
	"fmt"
	"io"
	"math/rand"
	"os"
	"testing"

	"seehuhn.de/go/pdf"
)

// c15Chunked delivers at most n bytes per Read (n == 0: everything at once).
type c15Chunked struct {
	r io.Reader
	n int
}

func (c *c15Chunked) Read(p []byte) (int, error) {
	if c.n > 0 && len(p) > c.n {
		p = p[:c.n]
	}
	return c.r.Read(p)
}

func c15Scan(parts ...[]byte) ([]Operator, error) { return c15ScanChunked(0, parts...) }

func c15ScanChunked(chunk int, parts ...[]byte) ([]Operator, error) {
	var all []Operator
	for _, p := range parts {
		p := p
		st := NewScanner(func() (io.ReadCloser, error) {
			return io.NopCloser(&c15Chunked{r: bytes.NewReader(p), n: chunk}), nil
		})
		it := st.NewIter()
		for name, args := range it.All() {
			cp := make([]pdf.Object, len(args))
			for i, a := range args {
				cp[i] = c15Clone(a)
			}
			all = append(all, Operator{Name: name, Args: cp})
		}
		if err := it.Err(); err != nil {
			return all, err
		}
	}
	return all, nil
}

func c15Clone(o pdf.Object) pdf.Object {
	switch x := o.(type) {
	case pdf.String:
		return append(pdf.String{}, x...)
	case pdf.Array:
		r := make(pdf.Array, len(x))
		for i, e := range x {
			r[i] = c15Clone(e)
		}
		return r
	case pdf.Dict:
		r := pdf.Dict{}
		for k, v := range x {
			r[k] = c15Clone(v)
		}
		return r
	}
	return o
}

func c15Eq(a, b pdf.Object) bool {
	if sa, ok := a.(pdf.String); ok {
		sb, ok := b.(pdf.String)
		return ok && bytes.Equal(sa, sb)
	}
	switch x := a.(type) {
	case pdf.Array:
		y, ok := b.(pdf.Array)
		if !ok || len(x) != len(y) {
			return false
		}
		for i := range x {
			if !c15Eq(x[i], y[i]) {
				return false
			}
		}
		return true
	case pdf.Dict:
		y, ok := b.(pdf.Dict)
		if !ok || len(x) != len(y) {
			return false
		}
		for k, v := range x {
			w, ok := y[k]
			if !ok || !c15Eq(v, w) {
				return false
			}
		}
		return true
	}
	return pdf.Equal(a, b)
}

// c15Ambiguous reports whether image data contains an end-of-line followed by "EI"
// and a non-regular byte (or the end of the data), i.e. a spurious terminator.
func c15Ambiguous(data []byte) bool {
	for i := 0; i+2 < len(data); i++ {
		if (data[i] == '\n' || data[i] == '\r') && data[i+1] == 'E' && data[i+2] == 'I' {
			if i+3 == len(data) || class[data[i+3]] != regular {
				return true
			}
		}
	}
	return false
}

func TestB2C15Operators(t *testing.T) {
	thorough := os.Getenv("VERIF_TIER") == "thorough"
	seed := int64(1)
	fmt.Sscanf(os.Getenv("VERIF_SEED"), "%d", &seed)
	rng := rand.New(rand.NewSource(seed))
	operands := []pdf.Object{
		pdf.Integer(0), pdf.Integer(-17), pdf.Integer(2147483647), pdf.Real(0.5), pdf.Real(-12.25), pdf.Real(3), pdf.Real(1e-5),
		// reals whose shortest decimal form needs 16 or 17 digits, and large ones
		pdf.Real(9.100000000000001), pdf.Real(1234.5678901234567), pdf.Real(0.1 + 0.2), pdf.Real(123456789.12345679), pdf.Real(-0.30000000000000004), pdf.Real(5e-324), pdf.Real(1.7976931348623157e308), pdf.Real(9007199254740993), pdf.Real(72057594037927.95),
		pdf.Name("F1"), pdf.Name("a b"), pdf.Name("x#y"), pdf.Name(""), pdf.Name("Do"), pdf.Name("EI"),
		pdf.String("text"), pdf.String("(un)balanced)("), pdf.String("back\\slash"), pdf.String("\r\n\t"), pdf.String("\x00\xff\x80binary"), pdf.String(""), pdf.String("EI"), pdf.String("ID"),
		pdf.Boolean(true), pdf.Boolean(false), nil,
		pdf.Array{}, pdf.Array{pdf.Integer(1), pdf.Real(2.5), pdf.String("(")}, pdf.Array{pdf.String("a"), pdf.Integer(-120), pdf.String("b")}, pdf.Array{pdf.Array{pdf.Name("n")}},
		pdf.Dict{}, pdf.Dict{"MCID": pdf.Integer(3)}, pdf.Dict{"K": pdf.Array{pdf.Name("v"), pdf.String(">>")}, "L": pdf.Dict{"M": pdf.Boolean(true)}},
	}
	names := []OpName{"q", "Q", "cm", "Tj", "TJ", "Tf", "re", "f*", "BDC", "EMC", "'", "\"", "sh", "d0", "BT", "ET", "gs", "scn", "SCN", "Do", "W*", "b*", "m", "l", "c", "h", "T*"}
	imageData := [][]byte{nil, []byte("x"), []byte("abcd"), []byte("ab EI cd"), []byte("ab\nEI cd"), []byte("ab\nEI\ncd"), []byte("\x00\xffEI\x00"), bytes.Repeat([]byte{0x45, 0x49, 0x20}, 7), []byte("Q q\n"), []byte("tail\nEI"), []byte("\rEI\x00"), []byte(" \n lead"), []byte("EI"), []byte("end\nE"), bytes.Repeat([]byte("z"), 600)}
	imageDicts := []pdf.Dict{
		{"W": pdf.Integer(1), "H": pdf.Integer(1), "BPC": pdf.Integer(8), "CS": pdf.Name("G")},
		{"Width": pdf.Integer(2), "Height": pdf.Integer(2), "BitsPerComponent": pdf.Integer(8), "ColorSpace": pdf.Name("DeviceGray"), "D": pdf.Array{pdf.Integer(0), pdf.Integer(1)}},
		{"W": pdf.Integer(4), "H": pdf.Integer(1), "IM": pdf.Boolean(true), "A B": pdf.Integer(1)},
	}
	runs := 150
	if thorough {
		runs = 2000
	}
	cases := 0
	var plainData, ambiguousData [][]byte
	for _, d := range imageData {
		if c15Ambiguous(d) {
			ambiguousData = append(ambiguousData, d)
		} else {
			plainData = append(plainData, d)
		}
	}
	for run := 0; run < runs+len(ambiguousData); run++ {
		cases++
		var ops []Operator
		n := 1 + rng.Intn(12)
		if run >= runs {
			// dedicated cases: one image whose data contains a spurious terminator
			n = 0
			ops = append(ops, Operator{Name: OpInlineImage, Args: []pdf.Object{c15Clone(imageDicts[0]), pdf.String(ambiguousData[run-runs])}})
		}
		for i := 0; i < n; i++ {
			if rng.Intn(9) == 0 {
				d := imageDicts[rng.Intn(len(imageDicts))]
				data := plainData[rng.Intn(len(plainData))]
				ops = append(ops, Operator{Name: OpInlineImage, Args: []pdf.Object{c15Clone(d), pdf.String(data)}})
				continue
			}
			op := Operator{Name: names[rng.Intn(len(names))]}
			for k := rng.Intn(5); k > 0; k-- {
				op.Args = append(op.Args, operands[rng.Intn(len(operands))])
			}
			ops = append(ops, op)
		}
		var whole bytes.Buffer
		var parts [][]byte
		var cur bytes.Buffer
		ok := true
		for i, op := range ops {
			if err := op.Format(&whole); err != nil {
				t.Errorf("B2-FAIL format run=%d op=%v: %v", run, op, err)
				ok = false
				break
			}
			op.Format(&cur)
			if rng.Intn(3) == 0 || i == len(ops)-1 {
				parts = append(parts, append([]byte{}, cur.Bytes()...))
				cur.Reset()
			}
		}
		if !ok {
			continue
		}
		for variant, input := range [][][]byte{{whole.Bytes()}, parts, {whole.Bytes()}, {whole.Bytes()}} {
			// variants 2 and 3: the source delivers 1 and 3 bytes per Read (short reads, as
			// decompressors produce them)
			got, err := c15ScanChunked([]int{0, 0, 1, 3}[variant], input...)
			key := "operators"
			if run >= runs {
				key = "inline-image-EI-in-data"
			}
			if err != nil {
				t.Errorf("B2-FAIL %s run=%d variant=%d: scan error %v", key, run, variant, err)
				continue
			}
			bad := len(got) != len(ops)
			for i := 0; !bad && i < len(ops); i++ {
				if got[i].Name != ops[i].Name || len(got[i].Args) != len(ops[i].Args) {
					bad = true
					break
				}
				for j := range ops[i].Args {
					if !c15Eq(got[i].Args[j], ops[i].Args[j]) {
						bad = true
					}
				}
			}
			if bad {
				t.Errorf("B2-FAIL %s run=%d variant=%d: wrote %d operators %v, read %d: %v (text %q)", key, run, variant, len(ops), ops, len(got), got, whole.Bytes())
			}
		}
	}
	t.Logf("B2-CASES %d", cases)
}
