package content

// B2 bounded check for C15 (labelled bounded, never counted as proved): operator
// sequences with operands of the native types are written with Operator.Format and
// scanned again, in one piece and split over several streams at operator boundaries.

import (
	"bytes"
	"fmt"
	"io"
	"math"
	"math/rand"
	"os"
	"strconv"
	"strings"
	"testing"

	"seehuhn.de/go/pdf"
)

// c15Chunked delivers at most n bytes per Read (n == 0: everything at once).
type c15Chunked struct {
	r io.Reader
	n int
}

func (c *c15Chunked) Read(p []byte) (int, error) {
	if c.n > 0 && len(p) > c.n {
		p = p[:c.n]
	}
	return c.r.Read(p)
}

func c15Scan(parts ...[]byte) ([]Operator, error) { return c15ScanChunked(0, parts...) }

func c15ScanChunked(chunk int, parts ...[]byte) ([]Operator, error) {
	var all []Operator
	for _, p := range parts {
		p := p
		st := NewScanner(func() (io.ReadCloser, error) {
			return io.NopCloser(&c15Chunked{r: bytes.NewReader(p), n: chunk}), nil
		})
		it := st.NewIter()
		for name, args := range it.All() {
			cp := make([]pdf.Object, len(args))
			for i, a := range args {
				cp[i] = c15Clone(a)
			}
			all = append(all, Operator{Name: name, Args: cp})
		}
		if err := it.Err(); err != nil {
			return all, err
		}
	}
	return all, nil
}

func c15Clone(o pdf.Object) pdf.Object {
	switch x := o.(type) {
	case pdf.String:
		return append(pdf.String{}, x...)
	case pdf.Array:
		r := make(pdf.Array, len(x))
		for i, e := range x {
			r[i] = c15Clone(e)
		}
		return r
	case pdf.Dict:
		r := pdf.Dict{}
		for k, v := range x {
			r[k] = c15Clone(v)
		}
		return r
	}
	return o
}

func c15Eq(a, b pdf.Object) bool {
	if sa, ok := a.(pdf.String); ok {
		sb, ok := b.(pdf.String)
		return ok && bytes.Equal(sa, sb)
	}
	switch x := a.(type) {
	case pdf.Array:
		y, ok := b.(pdf.Array)
		if !ok || len(x) != len(y) {
			return false
		}
		for i := range x {
			if !c15Eq(x[i], y[i]) {
				return false
			}
		}
		return true
	case pdf.Dict:
		y, ok := b.(pdf.Dict)
		if !ok || len(x) != len(y) {
			return false
		}
		for k, v := range x {
			w, ok := y[k]
			if !ok || !c15Eq(v, w) {
				return false
			}
		}
		return true
	}
	return pdf.Equal(a, b)
}

// c15Ambiguous reports whether image data contains an end-of-line followed by "EI"
// and a non-regular byte (or the end of the data), i.e. a spurious terminator.
func c15Ambiguous(data []byte) bool {
	for i := 0; i+2 < len(data); i++ {
		if (data[i] == '\n' || data[i] == '\r') && data[i+1] == 'E' && data[i+2] == 'I' {
			if i+3 == len(data) || class[data[i+3]] != regular {
				return true
			}
		}
	}
	return false
}

func TestB2C15Operators(t *testing.T) {
	thorough := os.Getenv("VERIF_TIER") == "thorough"
	seed := int64(1)
	fmt.Sscanf(os.Getenv("VERIF_SEED"), "%d", &seed)
	rng := rand.New(rand.NewSource(seed))
	operands := []pdf.Object{
		pdf.Integer(0), pdf.Integer(-17), pdf.Integer(2147483647), pdf.Real(0.5), pdf.Real(-12.25), pdf.Real(3), pdf.Real(1e-5),
		// reals whose shortest decimal form needs 16 or 17 digits, and large ones
		pdf.Real(9.100000000000001), pdf.Real(1234.5678901234567), pdf.Real(0.1 + 0.2), pdf.Real(123456789.12345679), pdf.Real(-0.30000000000000004), pdf.Real(5e-324), pdf.Real(1.7976931348623157e308), pdf.Real(9007199254740993), pdf.Real(72057594037927.95),
		pdf.Name("F1"), pdf.Name("a b"), pdf.Name("x#y"), pdf.Name(""), pdf.Name("Do"), pdf.Name("EI"),
		pdf.String("text"), pdf.String("(un)balanced)("), pdf.String("back\\slash"), pdf.String("\r\n\t"), pdf.String("\x00\xff\x80binary"), pdf.String(""), pdf.String("EI"), pdf.String("ID"),
		pdf.Boolean(true), pdf.Boolean(false), nil,
		pdf.Array{}, pdf.Array{pdf.Integer(1), pdf.Real(2.5), pdf.String("(")}, pdf.Array{pdf.String("a"), pdf.Integer(-120), pdf.String("b")}, pdf.Array{pdf.Array{pdf.Name("n")}},
		pdf.Dict{}, pdf.Dict{"MCID": pdf.Integer(3)}, pdf.Dict{"K": pdf.Array{pdf.Name("v"), pdf.String(">>")}, "L": pdf.Dict{"M": pdf.Boolean(true)}},
	}
	names := []OpName{"q", "Q", "cm", "Tj", "TJ", "Tf", "re", "f*", "BDC", "EMC", "'", "\"", "sh", "d0", "BT", "ET", "gs", "scn", "SCN", "Do", "W*", "b*", "m", "l", "c", "h", "T*"}
	imageData := [][]byte{nil, []byte("x"), []byte("abcd"), []byte("ab EI cd"), []byte("ab\nEI cd"), []byte("ab\nEI\ncd"), []byte("\x00\xffEI\x00"), bytes.Repeat([]byte{0x45, 0x49, 0x20}, 7), []byte("Q q\n"), []byte("tail\nEI"), []byte("\rEI\x00"), []byte(" \n lead"), []byte("EI"), []byte("end\nE"), bytes.Repeat([]byte("z"), 600)}
	imageDicts := []pdf.Dict{
		{"W": pdf.Integer(1), "H": pdf.Integer(1), "BPC": pdf.Integer(8), "CS": pdf.Name("G")},
		{"Width": pdf.Integer(2), "Height": pdf.Integer(2), "BitsPerComponent": pdf.Integer(8), "ColorSpace": pdf.Name("DeviceGray"), "D": pdf.Array{pdf.Integer(0), pdf.Integer(1)}},
		{"W": pdf.Integer(4), "H": pdf.Integer(1), "IM": pdf.Boolean(true), "A B": pdf.Integer(1)},
	}
	runs := 150
	if thorough {
		runs = 2000
	}
	cases := 0
	var plainData, ambiguousData [][]byte
	for _, d := range imageData {
		if c15Ambiguous(d) {
			ambiguousData = append(ambiguousData, d)
		} else {
			plainData = append(plainData, d)
		}
	}
	for run := 0; run < runs+len(ambiguousData); run++ {
		cases++
		var ops []Operator
		n := 1 + rng.Intn(12)
		if run >= runs {
			// dedicated cases: one image whose data contains a spurious terminator
			n = 0
			ops = append(ops, Operator{Name: OpInlineImage, Args: []pdf.Object{c15Clone(imageDicts[0]), pdf.String(ambiguousData[run-runs])}})
		}
		for i := 0; i < n; i++ {
			if rng.Intn(9) == 0 {
				d := imageDicts[rng.Intn(len(imageDicts))]
				data := plainData[rng.Intn(len(plainData))]
				ops = append(ops, Operator{Name: OpInlineImage, Args: []pdf.Object{c15Clone(d), pdf.String(data)}})
				continue
			}
			op := Operator{Name: names[rng.Intn(len(names))]}
			for k := rng.Intn(5); k > 0; k-- {
				op.Args = append(op.Args, operands[rng.Intn(len(operands))])
			}
			ops = append(ops, op)
		}
		var whole bytes.Buffer
		var parts [][]byte
		var cur bytes.Buffer
		ok := true
		for i, op := range ops {
			if err := op.Format(&whole); err != nil {
				t.Errorf("B2-FAIL format run=%d op=%v: %v", run, op, err)
				ok = false
				break
			}
			op.Format(&cur)
			if rng.Intn(3) == 0 || i == len(ops)-1 {
				parts = append(parts, append([]byte{}, cur.Bytes()...))
				cur.Reset()
			}
		}
		if !ok {
			continue
		}
		for variant, input := range [][][]byte{{whole.Bytes()}, parts, {whole.Bytes()}, {whole.Bytes()}} {
			// variants 2 and 3: the source delivers 1 and 3 bytes per Read (short reads, as
			// decompressors produce them)
			got, err := c15ScanChunked([]int{0, 0, 1, 3}[variant], input...)
			key := "operators"
			if run >= runs {
				key = "inline-image-EI-in-data"
			}
			if err != nil {
				t.Errorf("B2-FAIL %s run=%d variant=%d: scan error %v", key, run, variant, err)
				continue
			}
			bad := len(got) != len(ops)
			for i := 0; !bad && i < len(ops); i++ {
				if got[i].Name != ops[i].Name || len(got[i].Args) != len(ops[i].Args) {
					bad = true
					break
				}
				for j := range ops[i].Args {
					if !c15Eq(got[i].Args[j], ops[i].Args[j]) {
						bad = true
					}
				}
			}
			if bad {
				t.Errorf("B2-FAIL %s run=%d variant=%d: wrote %d operators %v, read %d: %v (text %q)", key, run, variant, len(ops), ops, len(got), got, whole.Bytes())
			}
		}
	}
	t.Logf("B2-CASES %d", cases)
}

// ---------------------------------------------------------------------------------------
// Wider operand space: every pair of neighbouring token kinds inside arrays, dictionaries
// and inline image dictionaries, names and strings over all byte values, randomly nested
// operands, unknown operator names.  Two oracles: the round trip through the scanner, and
// c15LexOps, a reader written from ISO 32000 7.2/7.3/8.9.7 that shares no code with the
// library, applied to the text the writer produced.

// c15Same is equality of operands: same type, same value; a dictionary entry whose value
// is null counts as absent (ISO 32000 7.3.7).
func c15Same(a, b pdf.Object) bool {
	switch x := a.(type) {
	case nil:
		return b == nil
	case pdf.Boolean, pdf.Integer, pdf.Real, pdf.Name, pdf.Operator:
		return a == b
	case pdf.String:
		y, ok := b.(pdf.String)
		return ok && bytes.Equal(x, y)
	case pdf.Array:
		y, ok := b.(pdf.Array)
		if !ok || len(x) != len(y) {
			return false
		}
		for i := range x {
			if !c15Same(x[i], y[i]) {
				return false
			}
		}
		return true
	case pdf.Dict:
		y, ok := b.(pdf.Dict)
		if !ok {
			return false
		}
		n := 0
		for k, v := range x {
			if v == nil {
				continue
			}
			n++
			w, ok := y[k]
			if !ok || w == nil || !c15Same(v, w) {
				return false
			}
		}
		for _, w := range y {
			if w != nil {
				n--
			}
		}
		return n == 0
	}
	return false
}

// c15Show renders an object for messages only.
func c15Show(o pdf.Object) string {
	switch x := o.(type) {
	case nil:
		return "null"
	case pdf.String:
		return fmt.Sprintf("(%q)", []byte(x))
	case pdf.Name:
		return fmt.Sprintf("/%q", string(x))
	case pdf.Operator:
		return fmt.Sprintf("keyword:%q", string(x))
	case pdf.Array:
		var p []string
		for _, e := range x {
			p = append(p, c15Show(e))
		}
		return "[" + strings.Join(p, " ") + "]"
	case pdf.Dict:
		var p []string
		for k, e := range x {
			p = append(p, c15Show(k)+" "+c15Show(e))
		}
		return "<<" + strings.Join(p, " ") + ">>"
	case pdf.Real:
		return strconv.FormatFloat(float64(x), 'g', -1, 64) + "r"
	}
	return fmt.Sprint(o)
}

// c15Diff describes the first difference between the written and the read operators.
func c15Diff(want, got []Operator) string {
	for i := range want {
		if i >= len(got) {
			break
		}
		if got[i].Name != want[i].Name {
			return fmt.Sprintf("operator %d: wrote %q, read %q", i, want[i].Name, got[i].Name)
		}
		if len(got[i].Args) != len(want[i].Args) {
			return fmt.Sprintf("operator %d (%s): wrote %d operands, read %d", i, want[i].Name, len(want[i].Args), len(got[i].Args))
		}
		for j := range want[i].Args {
			if !c15Same(want[i].Args[j], got[i].Args[j]) {
				w, g := c15Show(want[i].Args[j]), c15Show(got[i].Args[j])
				if len(w) > 120 {
					w = w[:120] + "..."
				}
				if len(g) > 120 {
					g = g[:120] + "..."
				}
				return fmt.Sprintf("operator %d (%s) operand %d: wrote %s, read %s", i, want[i].Name, j, w, g)
			}
		}
	}
	if len(got) != len(want) {
		return fmt.Sprintf("wrote %d operators, read %d", len(want), len(got))
	}
	return ""
}

// c15Lexer reads a content stream following ISO 32000-1 7.2 (lexical conventions), 7.3
// (objects) and 8.9.7 (inline images).  The length of each inline image's data is given,
// as it is to a reader that knows the image parameters.
type c15Lexer struct {
	b       []byte
	p       int
	imgLens []int
}

func c15IsWS(c byte) bool { return c == 0 || c == 9 || c == 10 || c == 12 || c == 13 || c == 32 }

func c15IsDelim(c byte) bool { return strings.IndexByte("()<>[]{}/%", c) >= 0 }

func c15Hex(c byte) int {
	switch {
	case c >= '0' && c <= '9':
		return int(c - '0')
	case c >= 'a' && c <= 'f':
		return int(c-'a') + 10
	case c >= 'A' && c <= 'F':
		return int(c-'A') + 10
	}
	return -1
}

func (l *c15Lexer) skipWS() {
	for l.p < len(l.b) {
		c := l.b[l.p]
		if c15IsWS(c) {
			l.p++
		} else if c == '%' {
			for l.p < len(l.b) && l.b[l.p] != 10 && l.b[l.p] != 13 {
				l.p++
			}
		} else {
			break
		}
	}
}

// value reads one object.  If the next token is a keyword or a closing bracket, it is
// returned in kw instead.
func (l *c15Lexer) value() (obj pdf.Object, kw string, err error) {
	l.skipWS()
	if l.p >= len(l.b) {
		return nil, "", io.ErrUnexpectedEOF
	}
	c := l.b[l.p]
	switch c {
	case '/':
		l.p++
		var name []byte
		for l.p < len(l.b) && !c15IsWS(l.b[l.p]) && !c15IsDelim(l.b[l.p]) {
			if l.b[l.p] == '#' && l.p+2 < len(l.b) && c15Hex(l.b[l.p+1]) >= 0 && c15Hex(l.b[l.p+2]) >= 0 {
				name = append(name, byte(c15Hex(l.b[l.p+1])<<4|c15Hex(l.b[l.p+2])))
				l.p += 3
				continue
			}
			name = append(name, l.b[l.p])
			l.p++
		}
		return pdf.Name(name), "", nil
	case '(':
		l.p++
		var str []byte
		level := 1
		for {
			if l.p >= len(l.b) {
				return nil, "", fmt.Errorf("unterminated string")
			}
			c := l.b[l.p]
			l.p++
			switch c {
			case '(':
				level++
				str = append(str, c)
			case ')':
				level--
				if level == 0 {
					return pdf.String(str), "", nil
				}
				str = append(str, c)
			case '\r': // an end-of-line in a string is read as LF
				if l.p < len(l.b) && l.b[l.p] == '\n' {
					l.p++
				}
				str = append(str, '\n')
			case '\\':
				if l.p >= len(l.b) {
					return nil, "", fmt.Errorf("unterminated string")
				}
				e := l.b[l.p]
				l.p++
				switch e {
				case 'n':
					str = append(str, '\n')
				case 'r':
					str = append(str, '\r')
				case 't':
					str = append(str, '\t')
				case 'b':
					str = append(str, '\b')
				case 'f':
					str = append(str, '\f')
				case '\r':
					if l.p < len(l.b) && l.b[l.p] == '\n' {
						l.p++
					}
				case '\n':
				default:
					if e >= '0' && e <= '7' {
						v := int(e - '0')
						for k := 0; k < 2 && l.p < len(l.b) && l.b[l.p] >= '0' && l.b[l.p] <= '7'; k++ {
							v = v*8 + int(l.b[l.p]-'0')
							l.p++
						}
						str = append(str, byte(v))
					} else {
						str = append(str, e) // includes \( \) \; the backslash is ignored otherwise
					}
				}
			default:
				str = append(str, c)
			}
		}
	case '<':
		if l.p+1 < len(l.b) && l.b[l.p+1] == '<' {
			l.p += 2
			d := pdf.Dict{}
			for {
				k, kw, err := l.value()
				if err != nil {
					return nil, "", err
				}
				if kw == ">>" {
					return d, "", nil
				}
				key, ok := k.(pdf.Name)
				if kw != "" || !ok {
					return nil, "", fmt.Errorf("dictionary key is %s%s at %d", kw, c15Show(k), l.p)
				}
				v, kw, err := l.value()
				if err != nil {
					return nil, "", err
				}
				if kw == "]" || kw == ">>" {
					return nil, "", fmt.Errorf("dictionary key /%s without value at %d", key, l.p)
				}
				if kw != "" {
					v = pdf.Operator(kw)
				}
				if v != nil {
					d[key] = v
				}
			}
		}
		l.p++
		var str []byte
		hi := -1
		for {
			if l.p >= len(l.b) {
				return nil, "", fmt.Errorf("unterminated hex string")
			}
			c := l.b[l.p]
			l.p++
			if c == '>' {
				if hi >= 0 {
					str = append(str, byte(hi<<4))
				}
				return pdf.String(str), "", nil
			}
			if c15IsWS(c) {
				continue
			}
			h := c15Hex(c)
			if h < 0 {
				return nil, "", fmt.Errorf("byte %q in hex string", c)
			}
			if hi < 0 {
				hi = h
			} else {
				str = append(str, byte(hi<<4|h))
				hi = -1
			}
		}
	case '[':
		l.p++
		arr := pdf.Array{}
		for {
			v, kw, err := l.value()
			if err != nil {
				return nil, "", err
			}
			if kw == "]" {
				return arr, "", nil
			}
			if kw == ">>" {
				return nil, "", fmt.Errorf(">> inside array at %d", l.p)
			}
			if kw != "" {
				v = pdf.Operator(kw)
			}
			arr = append(arr, v)
		}
	case ']':
		l.p++
		return nil, "]", nil
	case '>':
		if l.p+1 < len(l.b) && l.b[l.p+1] == '>' {
			l.p += 2
			return nil, ">>", nil
		}
		return nil, "", fmt.Errorf("stray > at %d", l.p)
	case ')', '{', '}':
		return nil, "", fmt.Errorf("stray %q at %d", c, l.p)
	}
	start := l.p
	for l.p < len(l.b) && !c15IsWS(l.b[l.p]) && !c15IsDelim(l.b[l.p]) {
		l.p++
	}
	tok := string(l.b[start:l.p])
	switch tok {
	case "true":
		return pdf.Boolean(true), "", nil
	case "false":
		return pdf.Boolean(false), "", nil
	case "null":
		return nil, "", nil
	}
	// 7.3.3: an optional sign, decimal digits, at most one period, at least one digit
	digits, dots, numeric := 0, 0, true
	for i := 0; i < len(tok); i++ {
		switch {
		case tok[i] >= '0' && tok[i] <= '9':
			digits++
		case tok[i] == '.':
			dots++
		case i == 0 && (tok[i] == '+' || tok[i] == '-'):
		default:
			numeric = false
		}
	}
	if numeric && digits > 0 && dots <= 1 {
		if dots == 0 {
			if v, err := strconv.ParseInt(tok, 10, 64); err == nil {
				return pdf.Integer(v), "", nil
			}
		}
		v, err := strconv.ParseFloat(tok, 64)
		if err != nil {
			return nil, "", fmt.Errorf("number %q: %v", tok, err)
		}
		return pdf.Real(v), "", nil
	}
	return nil, tok, nil
}

func c15LexOps(data []byte, imgLens []int) ([]Operator, error) {
	l := &c15Lexer{b: data, imgLens: imgLens}
	var ops []Operator
	var args []pdf.Object
	for {
		l.skipWS()
		if l.p >= len(l.b) {
			break
		}
		obj, kw, err := l.value()
		if err != nil {
			return ops, err
		}
		switch kw {
		case "":
			args = append(args, obj)
		case "]", ">>":
			return ops, fmt.Errorf("stray %s at %d", kw, l.p)
		case "BI":
			if len(args) != 0 {
				return ops, fmt.Errorf("operands before BI")
			}
			d := pdf.Dict{}
			for {
				k, kw, err := l.value()
				if err != nil {
					return ops, err
				}
				if kw == "ID" {
					break
				}
				key, ok := k.(pdf.Name)
				if kw != "" || !ok {
					return ops, fmt.Errorf("inline image key is %s%s at %d", kw, c15Show(k), l.p)
				}
				v, kw, err := l.value()
				if err != nil {
					return ops, err
				}
				if kw != "" {
					return ops, fmt.Errorf("inline image key /%s is followed by %s", key, kw)
				}
				if v != nil {
					d[key] = v
				}
			}
			if len(l.imgLens) == 0 {
				return ops, fmt.Errorf("unexpected inline image")
			}
			n := l.imgLens[0]
			l.imgLens = l.imgLens[1:]
			// ID, one white-space byte, the data, white space, EI, then a non-regular byte
			if l.p >= len(l.b) || !c15IsWS(l.b[l.p]) || l.p+1+n > len(l.b) {
				return ops, fmt.Errorf("inline image: no white space after ID, or data cut short")
			}
			img := l.b[l.p+1 : l.p+1+n]
			l.p += 1 + n
			if l.p >= len(l.b) || !c15IsWS(l.b[l.p]) {
				return ops, fmt.Errorf("inline image: no white space between data and EI")
			}
			l.skipWS()
			if !bytes.HasPrefix(l.b[l.p:], []byte("EI")) || (l.p+2 < len(l.b) && !c15IsWS(l.b[l.p+2]) && !c15IsDelim(l.b[l.p+2])) {
				return ops, fmt.Errorf("inline image: EI expected at %d", l.p)
			}
			l.p += 2
			ops = append(ops, Operator{Name: OpInlineImage, Args: []pdf.Object{d, pdf.String(img)}})
		default:
			ops = append(ops, Operator{Name: OpName(kw), Args: args})
			args = nil
		}
	}
	if len(args) != 0 {
		return ops, fmt.Errorf("%d operands without operator at the end", len(args))
	}
	return ops, nil
}

// c15Reporter keeps the output of a failing run short.
type c15Reporter struct {
	t       *testing.T
	count   map[string]int
	skipped int // cases skipped under a TODO-DEFECT note
}

func (r *c15Reporter) fail(kind, format string, args ...any) {
	if r.count == nil {
		r.count = map[string]int{}
	}
	r.count[kind]++
	if r.count[kind] <= 25 {
		r.t.Errorf("B2-FAIL "+kind+" "+format, args...)
	}
}

func (r *c15Reporter) done() {
	if r.skipped > 0 {
		r.t.Logf("TODO-DEFECT cases skipped: %d", r.skipped)
	}
	for kind, n := range r.count {
		if n > 25 {
			r.t.Errorf("B2-FAIL %s (%d more cases of this kind not shown)", kind, n-25)
		}
	}
}

// c15Check writes ops and reads them again: with the independent reader, and with the
// scanner in one piece, one stream per operator, and from sources delivering 1 and 7
// bytes per Read.  kind "X" gives failure kinds X (round trip) and X-writer (the text is
// not what ISO 32000 prescribes for these operands).
func c15Check(r *c15Reporter, kind, desc string, ops []Operator) {
	var whole bytes.Buffer
	var parts [][]byte
	var imgLens []int
	for _, op := range ops {
		// (an inline image dictionary entry whose value is null used to be written as the
		// key alone: repaired by the fix recorded in known-findings.txt)
		var one bytes.Buffer
		if err := op.Format(&one); err != nil {
			r.fail(kind+"-format", "%s op=%s: %v", desc, op.Name, err)
			return
		}
		whole.Write(one.Bytes())
		parts = append(parts, one.Bytes())
		if op.Name == OpInlineImage {
			imgLens = append(imgLens, len(op.Args[1].(pdf.String)))
		}
	}
	text := whole.Bytes()
	if lexed, err := c15LexOps(text, imgLens); err != nil {
		r.fail(kind+"-writer", "%s: written text is malformed: %v (text %.160q)", desc, err, text)
	} else if d := c15Diff(ops, lexed); d != "" {
		r.fail(kind+"-writer", "%s: read by the independent reader: %s (text %.160q)", desc, d, text)
	}
	for variant, chunk := range []int{0, 0, 1, 7} {
		input := [][]byte{text}
		if variant == 1 {
			input = parts
		}
		got, err := c15ScanChunked(chunk, input...)
		if err != nil {
			r.fail(kind, "%s variant=%d: scan error %v (text %.160q)", desc, variant, err, text)
			return
		}
		if d := c15Diff(ops, got); d != "" {
			r.fail(kind, "%s variant=%d: %s (text %.160q)", desc, variant, d, text)
			return
		}
	}
}

func c15Env() (thorough bool, rng *rand.Rand) {
	thorough = os.Getenv("VERIF_TIER") == "thorough"
	seed := int64(1)
	fmt.Sscanf(os.Getenv("VERIF_SEED"), "%d", &seed)
	return thorough, rand.New(rand.NewSource(seed))
}

// c15Atoms has at least one member for every way a token can begin and end.
func c15Atoms() []pdf.Object {
	return []pdf.Object{
		nil, pdf.Boolean(true), pdf.Boolean(false),
		pdf.Integer(0), pdf.Integer(1), pdf.Integer(-17), pdf.Integer(math.MaxInt64), pdf.Integer(math.MinInt64),
		pdf.Real(0.5), pdf.Real(-0.5), pdf.Real(3), pdf.Real(-3), pdf.Real(0), pdf.Real(0.001), pdf.Real(9.100000000000001), pdf.Real(1e20),
		pdf.Name("F1"), pdf.Name(""), pdf.Name("a b"), pdf.Name("x#y"), pdf.Name("null"), pdf.Name("1"), pdf.Name("A\x00B"), pdf.Name("\xff("),
		pdf.String("text"), pdf.String(""), pdf.String("(un)balanced)("), pdf.String("\\"), pdf.String("\r\n"), pdf.String("\x00\xff"), pdf.String("\x001"),
		pdf.Array{}, pdf.Dict{},
	}
}

// c15ImageDict returns a minimal inline image dictionary with the given extra entries.
func c15ImageDict(extra pdf.Dict) pdf.Dict {
	d := pdf.Dict{"W": pdf.Integer(1), "H": pdf.Integer(1), "BPC": pdf.Integer(8), "CS": pdf.Name("G")}
	for k, v := range extra {
		d[k] = v
	}
	return d
}

// TestB2C15Adjacency: every ordered pair (and, for a subset, triple) of operand kinds next
// to each other as array elements, as dictionary value and following key, in an inline
// image dictionary, and as top-level operands.
func TestB2C15Adjacency(t *testing.T) {
	thorough, _ := c15Env()
	r := &c15Reporter{t: t}
	atoms := c15Atoms()
	cases := 0
	for i, a := range atoms {
		for j, b := range atoms {
			cases++
			ops := []Operator{
				{Name: "xyz", Args: []pdf.Object{pdf.Array{a, b}}},
				{Name: "scn", Args: []pdf.Object{a, b, pdf.Array{a, b, a}, a}},
				{Name: "BDC", Args: []pdf.Object{pdf.Name("T"), pdf.Dict{"K": a, "L": b, "M": pdf.Array{pdf.Array{a}, b}}}},
				{Name: "TJ", Args: []pdf.Object{pdf.Array{pdf.Dict{"K": pdf.Array{b, a}}, a, pdf.Array{b}}, pdf.Dict{"N": pdf.Dict{"O": a}, "P": b}}},
				{Name: OpInlineImage, Args: []pdf.Object{c15ImageDict(pdf.Dict{"X": pdf.Array{a, b}, "Y": pdf.Dict{"Z": a}}), pdf.String("x")}},
			}
			c15Check(r, "adjacency", fmt.Sprintf("pair=%d,%d", i, j), ops)
		}
	}
	step := 3
	if thorough {
		step = 1
	}
	for i := 0; i < len(atoms); i += step {
		for j := 0; j < len(atoms); j++ {
			for k := 0; k < len(atoms); k += step {
				cases++
				a, b, c := atoms[i], atoms[j], atoms[(k+i)%len(atoms)]
				ops := []Operator{{Name: "re", Args: []pdf.Object{pdf.Array{a, b, c}, pdf.Dict{"K": pdf.Array{a, b, c}}}}}
				c15Check(r, "adjacency", fmt.Sprintf("triple=%d,%d,%d", i, j, (k+i)%len(atoms)), ops)
			}
		}
	}
	// the inline image dictionary holds each atom directly
	for i, a := range atoms {
		cases++
		ops := []Operator{
			{Name: "q"},
			{Name: OpInlineImage, Args: []pdf.Object{c15ImageDict(pdf.Dict{"A": a, "X": pdf.Integer(5)}), pdf.String("data")}},
			{Name: "Q"},
		}
		c15Check(r, "adjacency", fmt.Sprintf("image-value=%d", i), ops)
	}
	r.done()
	t.Logf("B2-CASES %d", cases)
}

// TestB2C15NameStringBytes: names and strings over all byte values, in every position a
// name or string can take, and at lengths around the limits ISO 32000 mentions.
func TestB2C15NameStringBytes(t *testing.T) {
	r := &c15Reporter{t: t}
	cases := 0
	nameOps := func(n pdf.Name) []Operator {
		return []Operator{
			{Name: "Tf", Args: []pdf.Object{n, pdf.Integer(1)}},
			{Name: "xyz", Args: []pdf.Object{pdf.Array{n, n, pdf.Integer(1), n}, n, n}},
			{Name: "BDC", Args: []pdf.Object{n, pdf.Dict{n: n, "Z": pdf.Array{n}, "ZZ": pdf.Dict{n: pdf.Integer(2)}}}},
			{Name: OpInlineImage, Args: []pdf.Object{c15ImageDict(pdf.Dict{"K" + n: n, "V": pdf.Array{n}}), pdf.String("x")}},
			{Name: "gs", Args: []pdf.Object{n}},
		}
	}
	strOps := func(s pdf.String) []Operator {
		return []Operator{
			{Name: "Tj", Args: []pdf.Object{s}},
			{Name: "TJ", Args: []pdf.Object{pdf.Array{s, pdf.Integer(-120), s, s}}},
			{Name: "BDC", Args: []pdf.Object{pdf.Name("T"), pdf.Dict{"K": s, "L": pdf.Array{s}}}},
			{Name: OpInlineImage, Args: []pdf.Object{c15ImageDict(pdf.Dict{"K": s}), pdf.String("x")}},
			{Name: "\"", Args: []pdf.Object{pdf.Integer(1), pdf.Integer(2), s}},
		}
	}
	var allBytes []byte
	for b := 0; b < 256; b++ {
		allBytes = append(allBytes, byte(b))
	}
	for b := 0; b < 256; b++ {
		c := string([]byte{byte(b)})
		for _, n := range []pdf.Name{pdf.Name(c), pdf.Name("A" + c + "B"), pdf.Name(c + c), pdf.Name("#" + c), pdf.Name(c + "#"), pdf.Name(c + "0")} {
			cases++
			c15Check(r, "name-bytes", fmt.Sprintf("name=%q", string(n)), nameOps(n))
		}
		for _, s := range []pdf.String{pdf.String(c), pdf.String("a" + c + "b"), pdf.String(c + c), pdf.String(c + "\\"), pdf.String("\\" + c)} {
			cases++
			c15Check(r, "string-bytes", fmt.Sprintf("string=%q", string(s)), strOps(s))
		}
	}
	// pairs of bytes in strings: escapes, octal codes followed by digits, end-of-line pairs
	for _, b := range []byte{0, 1, 7, 8, 9, 10, 12, 13, 27, '(', ')', '\\', '0', '7', 127, 128, 255} {
		for c := 0; c < 256; c++ {
			cases++
			s := pdf.String([]byte{b, byte(c)})
			ops := []Operator{{Name: "Tj", Args: []pdf.Object{s}}, {Name: "TJ", Args: []pdf.Object{pdf.Array{append(append(pdf.String{}, s...), '7'), s}}}}
			c15Check(r, "string-bytes", fmt.Sprintf("string=%q", string(s)), ops)
		}
	}
	// texts that look like escapes, and lengths
	for _, n := range []string{"#00", "#41", "#4", "#", "##", "#G0", "#0G", "A#20B", "#2300", "#zz#41#", "\x00", "\x00\x00", "#\x00", string(allBytes),
		strings.Repeat("n", 126), strings.Repeat("n", 127), strings.Repeat("n", 128), strings.Repeat("\x00", 127), strings.Repeat("#", 500), strings.Repeat("\xfe ", 1000)} {
		cases++
		c15Check(r, "name-bytes", fmt.Sprintf("name=%.40q len=%d", n, len(n)), nameOps(pdf.Name(n)))
	}
	for _, s := range []string{"\\000", "\\n", "\\(", "\\)", "\\\r\n", "\\\n", "(", ")", "((", "))", ")(", "(()", "())", strings.Repeat("(", 100) + strings.Repeat(")", 100),
		strings.Repeat(")", 50) + strings.Repeat("(", 50), strings.Repeat("(", 300), "<41>", "<<>>", "\r", "\n", "\r\n", "\n\r", "\r\r", "\n\n", "a\r\nb\rc\nd", string(allBytes),
		strings.Repeat("s", 255), strings.Repeat("s", 256), strings.Repeat("\x00", 1023), strings.Repeat("\\", 1024), strings.Repeat("\xff\r", 3000), strings.Repeat("(\n", 4097)} {
		cases++
		c15Check(r, "string-bytes", fmt.Sprintf("string=%.40q len=%d", s, len(s)), strOps(pdf.String(s)))
	}
	r.done()
	t.Logf("B2-CASES %d", cases)
}

type c15Gen struct {
	rng   *rand.Rand
	atoms []pdf.Object
	keys  []pdf.Name
}

func (g *c15Gen) value(depth int) pdf.Object {
	if depth > 0 && g.rng.Intn(3) == 0 {
		if g.rng.Intn(2) == 0 {
			arr := make(pdf.Array, g.rng.Intn(6))
			for i := range arr {
				arr[i] = g.value(depth - 1)
			}
			return arr
		}
		d := pdf.Dict{}
		for n := g.rng.Intn(4); n > 0; n-- {
			d[g.keys[g.rng.Intn(len(g.keys))]] = g.value(depth - 1)
		}
		return d
	}
	return g.atoms[g.rng.Intn(len(g.atoms))]
}

// c15Chain nests v in depth arrays (kind 0), dictionaries (1) or both alternating (2),
// with a neighbour on each level.
func c15Chain(kind, depth int, v, neighbour pdf.Object) pdf.Object {
	for d := 0; d < depth; d++ {
		if kind == 0 || kind == 2 && d%2 == 0 {
			v = pdf.Array{neighbour, v, neighbour}
		} else {
			v = pdf.Dict{"A": neighbour, "K": v, "Z": neighbour}
		}
	}
	return v
}

// TestB2C15NestedOperands: random operator sequences over known and unknown operator
// names with randomly nested operands, inline images with nested dictionary values and
// with /L, operators with up to 33 operands, and nesting chains.
func TestB2C15NestedOperands(t *testing.T) {
	thorough, rng := c15Env()
	r := &c15Reporter{t: t}
	g := &c15Gen{rng: rng, atoms: c15Atoms(), keys: []pdf.Name{"K", "MCID", "a b", "", "Type", "#", "\x00", "null"}}
	names := []OpName{"q", "Q", "cm", "Tj", "TJ", "Tf", "re", "f*", "BDC", "BMC", "DP", "EMC", "'", "\"", "sh", "d1", "BT", "ET", "gs", "scn", "SCN", "Do", "W*", "b*", "m", "l", "c", "h", "T*", "BX", "EX", "ri", "d",
		"xyz", "Foo", "T**", "n0", "q1", "nul", "tru", "falsey", "R", "obj", "E", "I", "B", "EIx", "IDx", "BIx", "a'", "\"\""}
	imageData := [][]byte{nil, []byte("x"), []byte("abcd"), []byte("ab EI cd"), []byte("\x00\xffEI\x00"), []byte("Q q\n"), []byte(" \n lead"), []byte("EI"), []byte("end\nE"), []byte("BI ID"), bytes.Repeat([]byte("z"), 600), bytes.Repeat([]byte{0xff, '\n', 'E'}, 1000)}
	// with /L the reader knows the length: the data may contain anything (ISO 32000-2, 8.9.7)
	lengthData := [][]byte{[]byte("x"), []byte("ab\nEI cd"), []byte("ab\nEI\ncd"), []byte("tail\nEI"), []byte("\rEI\x00"), []byte("\nEI\n"), []byte("\nEI \nEI \nEI"), []byte("trailing \n"), []byte(" leading"), bytes.Repeat([]byte("\nEI "), 1000)}
	runs, depth := 300, 4
	if thorough {
		runs, depth = 10000, 7
	}
	cases := 0
	for run := 0; run < runs; run++ {
		cases++
		var ops []Operator
		for n := 1 + rng.Intn(6); n > 0; n-- {
			switch rng.Intn(12) {
			case 0:
				d := c15ImageDict(pdf.Dict{"D": g.value(3), g.keys[rng.Intn(3)]: g.value(2)})
				ops = append(ops, Operator{Name: OpInlineImage, Args: []pdf.Object{d, pdf.String(imageData[rng.Intn(len(imageData))])}})
			case 1:
				data := lengthData[rng.Intn(len(lengthData))]
				key := []pdf.Name{"L", "Length"}[rng.Intn(2)]
				d := c15ImageDict(pdf.Dict{key: pdf.Integer(len(data)), "D": g.value(2)})
				ops = append(ops, Operator{Name: OpInlineImage, Args: []pdf.Object{d, pdf.String(data)}})
			case 2:
				// many operands (33: a name and 32 colorants, ISO 32000 Annex C / 8.6.6.5)
				op := Operator{Name: names[rng.Intn(len(names))]}
				for k := 1 + rng.Intn(33); k > 0; k-- {
					op.Args = append(op.Args, g.value(1))
				}
				ops = append(ops, op)
			default:
				op := Operator{Name: names[rng.Intn(len(names))]}
				for k := rng.Intn(5); k > 0; k-- {
					op.Args = append(op.Args, g.value(depth))
				}
				ops = append(ops, op)
			}
		}
		c15Check(r, "nested", fmt.Sprintf("run=%d", run), ops)
	}
	depths := []int{1, 2, 3, 5, 9, 10, 11, 12, 17, 33, 64, 100, 128}
	if thorough {
		depths = append(depths, 129, 200, 254, 255)
	}
	atoms := c15Atoms()
	for _, d := range depths {
		for kind := 0; kind < 3; kind++ {
			for i, a := range atoms {
				cases++
				v := c15Chain(kind, d, a, atoms[(i*7+d)%len(atoms)])
				ops := []Operator{{Name: "q"}, {Name: "xyz", Args: []pdf.Object{pdf.Integer(1), v, pdf.Name("n")}}, {Name: "Q"}}
				if d <= 9 {
					ops = append(ops, Operator{Name: OpInlineImage, Args: []pdf.Object{c15ImageDict(pdf.Dict{"D": v}), pdf.String("x")}})
				}
				c15Check(r, "nested", fmt.Sprintf("chain kind=%d depth=%d atom=%d", kind, d, i), ops)
			}
		}
	}
	r.done()
	t.Logf("B2-CASES %d", cases)
}
