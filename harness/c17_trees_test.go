package pdftree

// B2 bounded check for C17 (labelled bounded, never counted as proved): name and
// number trees are written for key sets of many sizes (crossing the 64-entry leaf
// and 64-kid node boundaries), reopened, checked structurally against ISO 32000-2
// 7.9.6/7.9.7, looked up (present and absent keys) and enumerated, in memory and
// streaming.

import (
	"bytes"
	"cmp"
	"errors"
	"fmt"
	"io"
	"math"
	"math/rand"
	"os"
	"slices"
	"sort"
	"testing"

	"seehuhn.de/go/pdf"
	"seehuhn.de/go/pdf/internal/debug/memfile"
)

func c17Doc(t *testing.T, build func(w *pdf.Writer) (pdf.Reference, error)) (*pdf.Reader, pdf.Reference) {
	var buf bytes.Buffer
	w, err := pdf.NewWriter(&buf, pdf.V2_0, nil)
	if err != nil {
		t.Fatal(err)
	}
	pages := w.Alloc()
	w.GetMeta().Catalog.Pages = pages
	w.Put(pages, pdf.Dict{"Type": pdf.Name("Pages"), "Kids": pdf.Array{}, "Count": pdf.Integer(0)})
	root, err := build(w)
	if err != nil {
		t.Fatalf("harness: write: %v", err)
	}
	if err := w.Close(); err != nil {
		t.Fatal(err)
	}
	r, err := pdf.NewReader(bytes.NewReader(buf.Bytes()), int64(buf.Len()), nil)
	if err != nil {
		t.Fatal(err)
	}
	return r, root
}

// c17Structure validates a name/number tree node recursively and returns its keys in order.
func c17Structure(r pdf.Getter, node pdf.Object, leafKey pdf.Name, isRoot bool, depth int, keyOf func(pdf.Object) (string, bool), less func(a, b string) bool) (keys []string, err error) {
	if depth > 20 {
		return nil, fmt.Errorf("too deep")
	}
	obj, err := pdf.Resolve(r, node)
	if err != nil {
		return nil, err
	}
	d, ok := obj.(pdf.Dict)
	if !ok {
		return nil, fmt.Errorf("node is %T", obj)
	}
	_, hasLeaf := d[leafKey]
	_, hasKids := d["Kids"]
	if hasLeaf == hasKids {
		return nil, fmt.Errorf("node must have exactly one of /Kids and /%s: %v", leafKey, pdf.AsString(d))
	}
	if hasLeaf {
		arr, _ := pdf.Resolve(r, d[leafKey])
		a, ok := arr.(pdf.Array)
		if !ok || len(a)%2 != 0 {
			return nil, fmt.Errorf("bad leaf array")
		}
		if len(a)/2 > 64 {
			return nil, fmt.Errorf("leaf with %d entries", len(a)/2)
		}
		for i := 0; i < len(a); i += 2 {
			k, ok := keyOf(a[i])
			if !ok {
				return nil, fmt.Errorf("bad key %v", a[i])
			}
			if len(keys) > 0 && !less(keys[len(keys)-1], k) {
				return nil, fmt.Errorf("keys not strictly ascending within a leaf: %q then %q", keys[len(keys)-1], k)
			}
			keys = append(keys, k)
		}
	} else {
		kids, _ := pdf.Resolve(r, d["Kids"])
		ka, ok := kids.(pdf.Array)
		if !ok || len(ka) == 0 {
			return nil, fmt.Errorf("bad /Kids")
		}
		if len(ka) > 64 {
			return nil, fmt.Errorf("node with %d kids", len(ka))
		}
		for _, kid := range ka {
			if _, isRef := kid.(pdf.Reference); !isRef {
				return nil, fmt.Errorf("kid is not an indirect reference")
			}
			sub, err := c17Structure(r, kid, leafKey, false, depth+1, keyOf, less)
			if err != nil {
				return nil, err
			}
			if len(sub) == 0 {
				return nil, fmt.Errorf("empty subtree")
			}
			if len(keys) > 0 && !less(keys[len(keys)-1], sub[0]) {
				return nil, fmt.Errorf("kids out of order: %q then %q", keys[len(keys)-1], sub[0])
			}
			keys = append(keys, sub...)
		}
	}
	lim, hasLimits := d["Limits"]
	if isRoot {
		if hasLimits {
			return nil, fmt.Errorf("root has /Limits")
		}
	} else {
		la, _ := lim.(pdf.Array)
		if len(la) != 2 {
			return nil, fmt.Errorf("non-root node without /Limits")
		}
		lo, ok1 := keyOf(la[0])
		hi, ok2 := keyOf(la[1])
		if !ok1 || !ok2 || len(keys) == 0 || lo != keys[0] || hi != keys[len(keys)-1] {
			return nil, fmt.Errorf("/Limits %v do not equal the least and greatest key below the node (%q, %q)", pdf.AsString(la), keys[0], keys[len(keys)-1])
		}
	}
	return keys, nil
}

func TestB2C17NameTrees(t *testing.T) {
	sizes := []int{0, 1, 2, 63, 64, 65, 127, 128, 129, 130, 200, 4095, 4096, 4097, 4200}
	if os.Getenv("VERIF_TIER") != "thorough" {
		sizes = []int{0, 1, 2, 63, 64, 65, 128, 129, 200, 4097}
	}
	cases := 0
	for _, n := range sizes {
		for _, style := range []int{0, 1} {
			cases++
			data := map[pdf.Name]pdf.Object{}
			for i := 0; i < n; i++ {
				var k string
				if style == 0 {
					k = fmt.Sprintf("key%05d", i*3)
				} else {
					// prefixes of each other, the empty name, bytes around the ASCII boundary
					k = string(bytes.Repeat([]byte{byte('a' + i%3)}, i/3)) + map[int]string{0: "", 1: "\x7f", 2: "\x80"}[i%3]
				}
				data[pdf.Name(k)] = pdf.Integer(i)
				if style == 1 && i%2 == 0 {
					// the usual case in destination and file trees: the value is an indirect
					// reference, and it is the reference that is stored and returned
					data[pdf.Name(k)] = pdf.NewReference(uint32(100000+i), 0)
				}
			}
			desc := fmt.Sprintf("names n=%d style=%d (distinct %d)", n, style, len(data))
			r, root := c17Doc(t, func(w *pdf.Writer) (pdf.Reference, error) { return WriteMap[pdf.Name, NameCodec](w, data) })
			if len(data) == 0 {
				if root != 0 {
					t.Errorf("B2-FAIL empty-map-tree %s: root %v", desc, root)
				}
				continue
			}
			keyOf := func(o pdf.Object) (string, bool) { s, ok := o.(pdf.String); return string(s), ok }
			keys, err := c17Structure(r, root, "Names", true, 0, keyOf, func(a, b string) bool { return a < b })
			if err != nil {
				t.Errorf("B2-FAIL structure %s: %v", desc, err)
				continue
			}
			var want []string
			for k := range data {
				want = append(want, string(k))
			}
			sort.Strings(want)
			if fmt.Sprint(keys) != fmt.Sprint(want) {
				t.Errorf("B2-FAIL keys %s: tree holds %d keys, map %d", desc, len(keys), len(want))
			}
			mem, err1 := ExtractInMemory[pdf.Name, NameCodec](r, root)
			str, err2 := ExtractFromFile[pdf.Name, NameCodec](r, root)
			if err1 != nil || err2 != nil {
				t.Errorf("B2-FAIL extract %s: %v %v", desc, err1, err2)
				continue
			}
			probe := func(k pdf.Name, present bool, val pdf.Object) {
				for name, lookup := range map[string]func(pdf.Name) (pdf.Object, error){"memory": mem.Lookup, "streaming": str.Lookup} {
					got, err := lookup(k)
					if present {
						if err != nil || !pdf.Equal(got, val) {
							t.Errorf("B2-FAIL lookup-present %s %s key=%q: %v %v", desc, name, k, got, err)
						}
					} else if err == nil || got != nil {
						t.Errorf("B2-FAIL lookup-absent %s %s key=%q: found %v %v", desc, name, k, got, err)
					}
				}
			}
			for i, k := range want {
				if n > 300 && i%17 != 0 && i != len(want)-1 {
					continue
				}
				probe(pdf.Name(k), true, data[pdf.Name(k)])
				probe(pdf.Name(k+"\x00"), data[pdf.Name(k+"\x00")] != nil, data[pdf.Name(k+"\x00")])
			}
			probe(pdf.Name("\xff\xff\xff"), false, nil)
			if _, has := data[""]; !has {
				probe(pdf.Name(""), false, nil)
			}
			for name, all := range map[string]func(func(pdf.Name, pdf.Object) bool){"memory": mem.All(), "streaming": str.All()} {
				var got []string
				all(func(k pdf.Name, v pdf.Object) bool {
					got = append(got, string(k))
					if !pdf.Equal(v, data[k]) {
						t.Errorf("B2-FAIL enumerate-value %s %s key=%q", desc, name, k)
					}
					return true
				})
				if fmt.Sprint(got) != fmt.Sprint(want) {
					t.Errorf("B2-FAIL enumerate %s %s: %d keys, want %d (ascending, each once)", desc, name, len(got), len(want))
				}
			}
		}
	}
	t.Logf("B2-CASES %d", cases)
}

func TestB2C17NumberTrees(t *testing.T) {
	cases := 0
	extreme := []pdf.Integer{-9223372036854775808, -9223372036854775807, -9007199254740993, -9007199254740992, -9007199254740991, -1, 0, 1, 9007199254740991, 9007199254740992, 9007199254740993, 9223372036854775806, 9223372036854775807}
	for _, n := range []int{0, 1, 64, 65, 129, 4097, 4098, 4130, 5000, -1} {
		cases++
		data := map[pdf.Integer]pdf.Object{}
		for i := 0; i < n; i++ {
			data[pdf.Integer(i*i-1000)] = pdf.Name(fmt.Sprintf("v%d", i))
		}
		if n < 0 {
			// keys beyond the range a float64 represents exactly, and the extremes of int64
			for i, k := range extreme {
				data[k] = pdf.Name(fmt.Sprintf("x%d", i))
			}
		}
		desc := fmt.Sprintf("nums n=%d", n)
		r, root := c17Doc(t, func(w *pdf.Writer) (pdf.Reference, error) { return WriteMap[pdf.Integer, NumCodec](w, data) })
		if n == 0 {
			if root != 0 {
				t.Errorf("B2-FAIL empty-map-tree %s", desc)
			}
			continue
		}
		keyOf := func(o pdf.Object) (string, bool) {
			i, ok := o.(pdf.Integer)
			// order-preserving text form of an int64
			return fmt.Sprintf("%020d", uint64(int64(i))^(1<<63)), ok
		}
		if _, err := c17Structure(r, root, "Nums", true, 0, keyOf, func(a, b string) bool { return a < b }); err != nil {
			t.Errorf("B2-FAIL structure %s: %v", desc, err)
		}
		str, err := ExtractFromFile[pdf.Integer, NumCodec](r, root)
		if err != nil {
			t.Errorf("B2-FAIL extract %s: %v", desc, err)
			continue
		}
		for k, v := range data {
			got, err := str.Lookup(k)
			if err != nil || !pdf.Equal(got, v) {
				t.Errorf("B2-FAIL lookup-present %s key=%d: %v %v", desc, k, got, err)
			}
			if _, has := data[k+1]; !has && k != 9223372036854775807 {
				if got, err := str.Lookup(k + 1); err == nil || got != nil {
					t.Errorf("B2-FAIL lookup-absent %s key=%d", desc, k+1)
				}
			}
		}
		// the in-memory reader agrees, and both enumerate every key once in ascending order
		mem, err := ExtractInMemory[pdf.Integer, NumCodec](r, root)
		if err != nil {
			t.Errorf("B2-FAIL extract %s: %v", desc, err)
			continue
		}
		for name, all := range map[string]func(func(pdf.Integer, pdf.Object) bool){"streaming": str.All(), "memory": mem.All()} {
			count, ordered := 0, true
			var prev pdf.Integer
			for k, v := range all {
				if count > 0 && k <= prev {
					ordered = false
				}
				prev = k
				count++
				if want, ok := data[k]; !ok || !pdf.Equal(v, want) {
					t.Errorf("B2-FAIL enumerate-value %s %s key=%d", desc, name, k)
					break
				}
			}
			if count != len(data) || !ordered {
				t.Errorf("B2-FAIL enumerate %s %s: %d keys, want %d (ascending, each once: %v)", desc, name, count, len(data), ordered)
			}
		}
		for k, v := range data {
			if got, err := mem.Lookup(k); err != nil || !pdf.Equal(got, v) {
				t.Errorf("B2-FAIL lookup-present %s memory key=%d: %v %v", desc, k, got, err)
				break
			}
		}
	}
	t.Logf("B2-CASES %d", cases)
}

// ---------------------------------------------------------------------------
// Sessions: the map, the way the tree is written and the way it is read are all
// drawn from wider classes.
//
//   - values of every object kind (null, boolean, integer, real, name, string,
//     array, dictionary, reference); null is an object like any other, so a key
//     that maps to null is present;
//   - one to three trees (name and number trees mixed) in one file, written by
//     WriteMap or by Write from a sequence, with no stream open or while a
//     stream is open on the same Writer (objects are queued until the stream is
//     closed), possibly several trees within one such window;
//   - read from the Writer before Close and from a Reader on the finished file;
//   - an in-memory tree built from the Go map without any file;
//   - random sessions of reader operations: lookups (present, absent neighbours,
//     below the minimum, above the maximum), complete enumerations,
//     enumerations abandoned after j entries, enumerations of a sequence value
//     that was ranged over before (an iter.Seq2 is restartable), Size;
//   - the tree copied into a second file from the enumeration of either reader.
//
// The oracle is the sorted Go map; the raw node walk (c17Structure, c17RawValues)
// is independent of the library's readers.

type c17Kind[K cmp.Ordered] struct {
	name    string
	leafKey pdf.Name
	ord     func(K) string             // order-preserving text form
	keyOf   func(pdf.Object) (K, bool) // key object of a leaf array
	gen     func(rng *rand.Rand, n int) []K
	absent  func(rng *rand.Rand, k K) []K // neighbours of k and keys beyond both ends
}

var c17NameKind = c17Kind[pdf.Name]{
	name:    "names",
	leafKey: "Names",
	ord:     func(k pdf.Name) string { return string(k) },
	keyOf:   func(o pdf.Object) (pdf.Name, bool) { s, ok := o.(pdf.String); return pdf.Name(s), ok },
	gen: func(rng *rand.Rand, n int) []pdf.Name {
		// short strings over an alphabet with the bytes that matter for the byte-wise
		// order and for the string syntax: many are prefixes of each other
		alphabet := []byte{0x00, '\n', '\r', '(', ')', '\\', 'a', 'b', 0x7f, 0x80, 0xff}
		prefix := ""
		if rng.Intn(3) == 0 {
			prefix = "common/prefix\xc3\xa9"
		}
		seen := map[pdf.Name]bool{}
		var res []pdf.Name
		for tries := 0; len(res) < n; tries++ {
			maxLen := 3 + tries/(20*(n+1))
			b := make([]byte, rng.Intn(maxLen+1))
			for i := range b {
				b[i] = alphabet[rng.Intn(len(alphabet))]
			}
			k := pdf.Name(prefix + string(b))
			if !seen[k] {
				seen[k] = true
				res = append(res, k)
			}
		}
		return res
	},
	absent: func(rng *rand.Rand, k pdf.Name) []pdf.Name {
		res := []pdf.Name{k + "\x00", k + "a", "", "\xff\xff\xff\xff\xff\xff\xff\xff\xff"}
		if len(k) > 0 {
			b := []byte(k)
			res = append(res, pdf.Name(b[:len(b)-1]))
			b[len(b)-1]++
			res = append(res, pdf.Name(b))
			b[len(b)-1] -= 2
			res = append(res, pdf.Name(b))
		}
		return res
	},
}

var c17NumKind = c17Kind[pdf.Integer]{
	name:    "nums",
	leafKey: "Nums",
	ord:     func(k pdf.Integer) string { return fmt.Sprintf("%020d", uint64(int64(k))^(1<<63)) },
	keyOf:   func(o pdf.Object) (pdf.Integer, bool) { i, ok := o.(pdf.Integer); return i, ok },
	gen: func(rng *rand.Rand, n int) []pdf.Integer {
		seen := map[pdf.Integer]bool{}
		var res []pdf.Integer
		style := rng.Intn(4)
		base := pdf.Integer(rng.Intn(2000) - 1000)
		for len(res) < n {
			var k pdf.Integer
			switch style {
			case 0: // consecutive integers across zero
				k = base - pdf.Integer(n/2) + pdf.Integer(len(res))
			case 1: // sparse, small
				k = pdf.Integer(rng.Intn(20*n+10) - 10*n)
			case 2: // anywhere in int64, the extremes included
				k = pdf.Integer(rng.Uint64())
				switch rng.Intn(8) {
				case 0:
					k = math.MinInt64 + pdf.Integer(rng.Intn(3))
				case 1:
					k = math.MaxInt64 - pdf.Integer(rng.Intn(3))
				}
			default: // around the limits of exactly representable floats
				k = pdf.Integer(1<<53) + pdf.Integer(rng.Intn(4*n+8)-2*n)
				if rng.Intn(2) == 0 {
					k = -k
				}
			}
			if !seen[k] {
				seen[k] = true
				res = append(res, k)
			}
		}
		return res
	},
	absent: func(rng *rand.Rand, k pdf.Integer) []pdf.Integer {
		res := []pdf.Integer{math.MinInt64, math.MaxInt64, 0}
		if k < math.MaxInt64 {
			res = append(res, k+1)
		}
		if k > math.MinInt64 {
			res = append(res, k-1)
		}
		return res
	},
}

func c17Value(rng *rand.Rand, i int) pdf.Object {
	switch rng.Intn(11) {
	case 0:
		return nil // the null object
	case 1:
		return pdf.Integer(rng.Intn(2000) - 1000)
	case 2:
		return pdf.Name(fmt.Sprintf("N%d", i))
	case 3:
		return pdf.String(fmt.Sprintf("s(%d)\\\x00\xff", i))
	case 4:
		return pdf.Boolean(i%2 == 0)
	case 5:
		return pdf.Real(float64(i%1000) + 0.5)
	case 6:
		return pdf.Array{pdf.Integer(i), nil, pdf.Name("A")}
	case 7:
		return pdf.Dict{"D": pdf.Integer(i), "S": pdf.String("x")}
	case 8:
		return pdf.Integer(0)
	default:
		return pdf.NewReference(uint32(100000+i), 0)
	}
}

// c17RawValues returns the values of a tree in the order of the raw leaf arrays.
func c17RawValues(r pdf.Getter, node pdf.Object, leafKey pdf.Name, depth int) []pdf.Object {
	obj, _ := pdf.Resolve(r, node)
	d, _ := obj.(pdf.Dict)
	if d == nil || depth > 20 {
		return nil
	}
	var res []pdf.Object
	if leaf, _ := pdf.Resolve(r, d[leafKey]); leaf != nil {
		a, _ := leaf.(pdf.Array)
		for i := 1; i < len(a); i += 2 {
			res = append(res, a[i])
		}
		return res
	}
	kids, _ := pdf.Resolve(r, d["Kids"])
	ka, _ := kids.(pdf.Array)
	for _, kid := range ka {
		res = append(res, c17RawValues(r, kid, leafKey, depth+1)...)
	}
	return res
}

// c17Plan is one tree of a session: how to write it and how to check it.
type c17Plan struct {
	desc  string
	write func(w *pdf.Writer) (pdf.Reference, error)
	// check reads the tree back from g and returns the number of reader operations;
	// ops is the length of the random reader session.
	check func(t *testing.T, g pdf.Getter, root pdf.Reference, where string, ops int)
	// copyTo writes the tree again, into w2, from the enumeration of a reader on g.
	copyTo func(t *testing.T, g pdf.Getter, root pdf.Reference, w2 *pdf.Writer, streaming bool) (pdf.Reference, error)
	// structure does the raw checks only
	structure func(t *testing.T, g pdf.Getter, root pdf.Reference, where string) bool
}

type c17Seq[K cmp.Ordered] = func(func(K, pdf.Object) bool)

func c17NewPlan[K cmp.Ordered, C codec[K]](kd c17Kind[K], seed int64, n int, viaSeq bool) *c17Plan {
	rng := rand.New(rand.NewSource(seed))
	keys := kd.gen(rng, n)
	data := map[K]pdf.Object{}
	for i, k := range keys {
		data[k] = c17Value(rng, i)
	}
	slices.Sort(keys)
	p := &c17Plan{desc: fmt.Sprintf("%s n=%d seed=%d seq=%v", kd.name, n, seed, viaSeq)}

	p.write = func(w *pdf.Writer) (pdf.Reference, error) {
		if !viaSeq {
			return WriteMap[K, C](w, data)
		}
		return Write[K, C](w, func(yield func(K, pdf.Object) bool) {
			for _, k := range keys {
				if !yield(k, data[k]) {
					return
				}
			}
		})
	}

	p.structure = func(t *testing.T, g pdf.Getter, root pdf.Reference, where string) bool {
		desc := p.desc + " " + where
		if n == 0 {
			if root != 0 {
				t.Errorf("B2-FAIL empty-map-tree %s: root %v", desc, root)
				return false
			}
			return true
		}
		keyOf := func(o pdf.Object) (string, bool) {
			k, ok := kd.keyOf(o)
			if !ok {
				return "", false
			}
			return kd.ord(k), true
		}
		got, err := c17Structure(g, root, kd.leafKey, true, 0, keyOf, func(a, b string) bool { return a < b })
		if err != nil {
			t.Errorf("B2-FAIL structure %s: %v", desc, err)
			return false
		}
		ok := len(got) == len(keys)
		for i := 0; ok && i < len(keys); i++ {
			ok = got[i] == kd.ord(keys[i])
		}
		if !ok {
			t.Errorf("B2-FAIL keys %s: tree holds %d keys, map %d, or other keys", desc, len(got), len(keys))
			return false
		}
		vals := c17RawValues(g, root, kd.leafKey, 0)
		for i := 0; i < len(keys) && i < len(vals); i++ {
			if !pdf.Equal(vals[i], data[keys[i]]) {
				t.Errorf("B2-FAIL raw-value %s key=%q: %v", desc, fmt.Sprint(keys[i]), vals[i])
				return false
			}
		}
		return true
	}

	p.check = func(t *testing.T, g pdf.Getter, root pdf.Reference, where string, ops int) {
		desc := p.desc + " " + where
		if !p.structure(t, g, root, where) {
			return
		}
		reported := 0
		fail := func(format string, args ...any) { // at most 4 lines for one tree and getter
			if reported++; reported <= 4 {
				t.Errorf(format, args...)
			}
		}
		type reader struct {
			name   string
			lookup func(K) (pdf.Object, error)
			all    func() c17Seq[K]
			held   c17Seq[K] // one sequence value, ranged over again and again
		}
		var readers []*reader
		var rootObj pdf.Object = root
		if n == 0 && rng.Intn(2) == 0 {
			rootObj = nil // "no tree"
		}
		mem, err1 := ExtractInMemory[K, C](g, rootObj)
		str, err2 := ExtractFromFile[K, C](g, rootObj)
		if err1 != nil || err2 != nil {
			fail("B2-FAIL extract %s: %v %v", desc, err1, err2)
			return
		}
		direct := &InMemory[K, C]{Data: data}
		readers = append(readers,
			&reader{name: "memory", lookup: mem.Lookup, all: func() c17Seq[K] { return mem.All() }},
			&reader{name: "streaming", lookup: str.Lookup, all: func() c17Seq[K] { return str.All() }},
			&reader{name: "memory-direct", lookup: direct.Lookup, all: func() c17Seq[K] { return direct.All() }})
		for _, rd := range readers {
			rd.held = rd.all()
		}
		if sz, err := Size[K, C](g, rootObj); rootObj != nil && (err != nil || sz != n) {
			fail("B2-FAIL size %s: %d %v, want %d", desc, sz, err, n)
		}

		enumerate := func(rd *reader, seq c17Seq[K], stop int, how string) {
			i, bad := 0, ""
			seq(func(k K, v pdf.Object) bool {
				if bad == "" {
					if i >= n {
						bad = "more entries than the map"
					} else if k != keys[i] {
						bad = fmt.Sprintf("entry %d is %q, want %q", i, fmt.Sprint(k), fmt.Sprint(keys[i]))
					} else if !pdf.Equal(v, data[k]) {
						bad = fmt.Sprintf("entry %d (%q) has value %v", i, fmt.Sprint(k), v)
					}
				}
				i++
				return i != stop
			})
			want := n
			if stop > 0 && stop < n {
				want = stop
			}
			if bad == "" && i != want {
				bad = fmt.Sprintf("%d entries, want %d", i, want)
			}
			if bad != "" {
				fail("B2-FAIL enumerate %s %s %s stop=%d: %s", desc, rd.name, how, stop, bad)
			}
		}
		lookup := func(rd *reader, k K) {
			want, present := data[k]
			got, err := rd.lookup(k)
			if present {
				if err != nil || !pdf.Equal(got, want) {
					fail("B2-FAIL lookup-present %s %s key=%q: %v %v", desc, rd.name, fmt.Sprint(k), got, err)
				}
			} else if !errors.Is(err, ErrKeyNotFound) || got != nil {
				fail("B2-FAIL lookup-absent %s %s key=%q: %v %v", desc, rd.name, fmt.Sprint(k), got, err)
			}
		}

		// fixed part: both ends, the entries next to the leaf boundaries, every null value (up to 8)
		for _, rd := range readers {
			nulls := 0
			for i, k := range keys {
				isNull := data[k] == nil && nulls < 8
				if isNull {
					nulls++
				}
				if i == 0 || i == n-1 || i%64 == 63 || i%64 == 0 || isNull {
					if n > 1000 && i%64 != 63 && i != 0 && i != n-1 && !isNull && i%1024 != 0 {
						continue
					}
					lookup(rd, k)
				}
			}
			if n == 0 {
				var zero K
				for _, k := range kd.absent(rng, zero) {
					lookup(rd, k)
				}
			}
			enumerate(rd, rd.held, 0, "held")
		}
		// random part
		for op := 0; op < ops; op++ {
			rd := readers[rng.Intn(len(readers))]
			switch c := rng.Intn(10); {
			case c < 3 && n > 0:
				lookup(rd, keys[rng.Intn(n)])
			case c < 6:
				var k K
				if n > 0 {
					k = keys[[]int{0, n - 1, rng.Intn(n)}[rng.Intn(3)]]
				}
				cand := kd.absent(rng, k)
				lookup(rd, cand[rng.Intn(len(cand))]) // the oracle decides whether it is present
			case c < 7:
				enumerate(rd, rd.all(), 0, "fresh")
			case c < 8:
				enumerate(rd, rd.held, 0, "held")
			default:
				seq, how := rd.held, "held"
				if rng.Intn(2) == 0 {
					seq, how = rd.all(), "fresh"
				}
				stop := 1
				if n > 1 && rng.Intn(2) == 0 {
					stop = 1 + rng.Intn(n)
				}
				enumerate(rd, seq, stop, how+"-partial")
				enumerate(rd, seq, 0, how+"-again")
			}
		}
	}

	p.copyTo = func(t *testing.T, g pdf.Getter, root pdf.Reference, w2 *pdf.Writer, streaming bool) (pdf.Reference, error) {
		if streaming {
			str, err := ExtractFromFile[K, C](g, root)
			if err != nil {
				return 0, err
			}
			return Write[K, C](w2, str.All())
		}
		mem, err := ExtractInMemory[K, C](g, root)
		if err != nil {
			return 0, err
		}
		return Write[K, C](w2, mem.All())
	}
	return p
}

// c17File writes the plans into one file and checks them.  inStream[i] tells whether plan i is written
// while a stream is open; keepOpen[i] whether that stream stays open for the next plan.
func c17File(t *testing.T, rng *rand.Rand, plans []*c17Plan, inStream, keepOpen []bool, version pdf.Version, ops int) {
	w, mf := memfile.NewPDFWriter(version, nil)
	roots := make([]pdf.Reference, len(plans))
	var stm io.WriteCloser
	closeStm := func() {
		if stm != nil {
			if err := stm.Close(); err != nil {
				t.Fatalf("harness: close stream: %v", err)
			}
			stm = nil
		}
	}
	mode := ""
	for i, p := range plans {
		if inStream[i] && stm == nil {
			var err error
			stm, err = w.OpenStream(w.Alloc(), pdf.Dict{})
			if err != nil {
				t.Fatalf("harness: open stream: %v", err)
			}
			stm.Write([]byte("q Q\n"))
		} else if !inStream[i] {
			closeStm()
		}
		root, err := p.write(w)
		if err != nil {
			t.Errorf("B2-FAIL write %s: %v", p.desc, err)
			closeStm()
			w.Close()
			return
		}
		roots[i] = root
		if stm != nil {
			stm.Write([]byte("% more\n"))
			if !keepOpen[i] {
				closeStm()
			}
		}
		mode += map[bool]string{false: "p", true: "s"}[inStream[i]]
	}
	closeStm()
	where := fmt.Sprintf("file[%s v%s]", mode, version)
	if rng.Intn(3) == 0 {
		for i, p := range plans {
			p.check(t, w, roots[i], where+" writer", ops/2)
		}
	}
	if err := w.Close(); err != nil {
		t.Fatalf("harness: close: %v", err)
	}
	r, err := pdf.NewReader(bytes.NewReader(mf.Data), int64(len(mf.Data)), nil)
	if err != nil {
		t.Fatalf("harness: reopen: %v", err)
	}
	for i, p := range plans {
		p.check(t, r, roots[i], where+" reader", ops)
	}
	// copy each tree into a second file from the enumeration of a reader; half of the copies are made
	// while a stream is open on the second file
	w2, mf2 := memfile.NewPDFWriter(version, nil)
	roots2 := make([]pdf.Reference, len(plans))
	for i, p := range plans {
		var stm2 io.WriteCloser
		if i%2 == 1 || rng.Intn(2) == 0 {
			stm2, err = w2.OpenStream(w2.Alloc(), pdf.Dict{})
			if err != nil {
				t.Fatalf("harness: open stream: %v", err)
			}
		}
		roots2[i], err = p.copyTo(t, r, roots[i], w2, rng.Intn(2) == 0)
		if err != nil {
			t.Errorf("B2-FAIL write %s copy: %v", p.desc, err)
			roots2[i] = 0
		}
		if stm2 != nil {
			if err := stm2.Close(); err != nil {
				t.Fatalf("harness: close stream: %v", err)
			}
		}
	}
	if err := w2.Close(); err != nil {
		t.Fatalf("harness: close: %v", err)
	}
	r2, err := pdf.NewReader(bytes.NewReader(mf2.Data), int64(len(mf2.Data)), nil)
	if err != nil {
		t.Fatalf("harness: reopen: %v", err)
	}
	for i, p := range plans {
		p.structure(t, r2, roots2[i], where+" copy")
	}
}

func TestB2C17Sessions(t *testing.T) {
	files := 64
	if os.Getenv("VERIF_TIER") == "thorough" {
		files = 640
	}
	seed := int64(1)
	fmt.Sscanf(os.Getenv("VERIF_SEED"), "%d", &seed)
	boundary := []int{0, 1, 2, 63, 64, 65, 66, 127, 128, 129, 191, 192, 193, 255, 256, 257}
	large := []int{4095, 4096, 4097, 4161, 8193}
	trees := 0
	for f := 0; f < files; f++ {
		rng := rand.New(rand.NewSource(seed*1000003 + int64(f)))
		size := func(j int) int {
			switch {
			case j == 0:
				return boundary[f%len(boundary)] // every boundary size in every run, whatever the seed
			case f%32 == 7 && j == 1:
				return large[(f/32+int(seed))%len(large)]
			case rng.Intn(2) == 0:
				return boundary[rng.Intn(len(boundary))]
			default:
				return rng.Intn(400)
			}
		}
		count := 1 + rng.Intn(3)
		if f%32 == 7 {
			count = 2
		}
		var plans []*c17Plan
		inStream := make([]bool, count)
		keepOpen := make([]bool, count)
		for j := 0; j < count; j++ {
			n := size(j)
			ps := seed*7919 + int64(f)*16 + int64(j)
			isNum := (f/16+j)%2 == 1
			viaSeq := rng.Intn(2) == 0
			if isNum {
				plans = append(plans, c17NewPlan[pdf.Integer, NumCodec](c17NumKind, ps, n, viaSeq))
			} else {
				plans = append(plans, c17NewPlan[pdf.Name, NameCodec](c17NameKind, ps, n, viaSeq))
			}
			inStream[j] = rng.Intn(2) == 0
			keepOpen[j] = rng.Intn(2) == 0
		}
		// the first tree of a file: both ways of writing for every boundary size and both kinds of tree
		inStream[0] = (f/32)%2 == 0
		version := []pdf.Version{pdf.V2_0, pdf.V1_7, pdf.V1_4}[f%3]
		c17File(t, rng, plans, inStream, keepOpen, version, 40)
		trees += count
	}
	t.Logf("B2-CASES %d", trees)
}
