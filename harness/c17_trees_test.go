package pdftree

// B2 bounded check for C17 (labelled bounded, never counted as proved): name and
// number trees are written for key sets of many sizes (crossing the 64-entry leaf
// and 64-kid node boundaries), reopened, checked structurally against ISO 32000-2
// 7.9.6/7.9.7, looked up (present and absent keys) and enumerated, in memory and
// streaming.

import (
	"bytes"
	"fmt"
	"os"
	"sort"
	"testing"

	"seehuhn.de/go/pdf"
)

func c17Doc(t *testing.T, build func(w *pdf.Writer) (pdf.Reference, error)) (*pdf.Reader, pdf.Reference) {
	var buf bytes.Buffer
	w, err := pdf.NewWriter(&buf, pdf.V2_0, nil)
	if err != nil {
		t.Fatal(err)
	}
	pages := w.Alloc()
	w.GetMeta().Catalog.Pages = pages
	w.Put(pages, pdf.Dict{"Type": pdf.Name("Pages"), "Kids": pdf.Array{}, "Count": pdf.Integer(0)})
	root, err := build(w)
	if err != nil {
		t.Fatalf("harness: write: %v", err)
	}
	if err := w.Close(); err != nil {
		t.Fatal(err)
	}
	r, err := pdf.NewReader(bytes.NewReader(buf.Bytes()), int64(buf.Len()), nil)
	if err != nil {
		t.Fatal(err)
	}
	return r, root
}

// c17Structure validates a name/number tree node recursively and returns its keys in order.
func c17Structure(r *pdf.Reader, node pdf.Object, leafKey pdf.Name, isRoot bool, depth int, keyOf func(pdf.Object) (string, bool), less func(a, b string) bool) (keys []string, err error) {
	if depth > 20 {
		return nil, fmt.Errorf("too deep")
	}
	obj, err := pdf.Resolve(r, node)
	if err != nil {
		return nil, err
	}
	d, ok := obj.(pdf.Dict)
	if !ok {
		return nil, fmt.Errorf("node is %T", obj)
	}
	_, hasLeaf := d[leafKey]
	_, hasKids := d["Kids"]
	if hasLeaf == hasKids {
		return nil, fmt.Errorf("node must have exactly one of /Kids and /%s: %v", leafKey, pdf.AsString(d))
	}
	if hasLeaf {
		arr, _ := pdf.Resolve(r, d[leafKey])
		a, ok := arr.(pdf.Array)
		if !ok || len(a)%2 != 0 {
			return nil, fmt.Errorf("bad leaf array")
		}
		if len(a)/2 > 64 {
			return nil, fmt.Errorf("leaf with %d entries", len(a)/2)
		}
		for i := 0; i < len(a); i += 2 {
			k, ok := keyOf(a[i])
			if !ok {
				return nil, fmt.Errorf("bad key %v", a[i])
			}
			if len(keys) > 0 && !less(keys[len(keys)-1], k) {
				return nil, fmt.Errorf("keys not strictly ascending within a leaf: %q then %q", keys[len(keys)-1], k)
			}
			keys = append(keys, k)
		}
	} else {
		kids, _ := pdf.Resolve(r, d["Kids"])
		ka, ok := kids.(pdf.Array)
		if !ok || len(ka) == 0 {
			return nil, fmt.Errorf("bad /Kids")
		}
		if len(ka) > 64 {
			return nil, fmt.Errorf("node with %d kids", len(ka))
		}
		for _, kid := range ka {
			if _, isRef := kid.(pdf.Reference); !isRef {
				return nil, fmt.Errorf("kid is not an indirect reference")
			}
			sub, err := c17Structure(r, kid, leafKey, false, depth+1, keyOf, less)
			if err != nil {
				return nil, err
			}
			if len(sub) == 0 {
				return nil, fmt.Errorf("empty subtree")
			}
			if len(keys) > 0 && !less(keys[len(keys)-1], sub[0]) {
				return nil, fmt.Errorf("kids out of order: %q then %q", keys[len(keys)-1], sub[0])
			}
			keys = append(keys, sub...)
		}
	}
	lim, hasLimits := d["Limits"]
	if isRoot {
		if hasLimits {
			return nil, fmt.Errorf("root has /Limits")
		}
	} else {
		la, _ := lim.(pdf.Array)
		if len(la) != 2 {
			return nil, fmt.Errorf("non-root node without /Limits")
		}
		lo, ok1 := keyOf(la[0])
		hi, ok2 := keyOf(la[1])
		if !ok1 || !ok2 || len(keys) == 0 || lo != keys[0] || hi != keys[len(keys)-1] {
			return nil, fmt.Errorf("/Limits %v do not equal the least and greatest key below the node (%q, %q)", pdf.AsString(la), keys[0], keys[len(keys)-1])
		}
	}
	return keys, nil
}

func TestB2C17NameTrees(t *testing.T) {
	sizes := []int{0, 1, 2, 63, 64, 65, 127, 128, 129, 130, 200, 4095, 4096, 4097, 4200}
	if os.Getenv("VERIF_TIER") != "thorough" {
		sizes = []int{0, 1, 2, 63, 64, 65, 128, 129, 200, 4097}
	}
	cases := 0
	for _, n := range sizes {
		for _, style := range []int{0, 1} {
			cases++
			data := map[pdf.Name]pdf.Object{}
			for i := 0; i < n; i++ {
				var k string
				if style == 0 {
					k = fmt.Sprintf("key%05d", i*3)
				} else {
					// prefixes of each other, the empty name, bytes around the ASCII boundary
					k = string(bytes.Repeat([]byte{byte('a' + i%3)}, i/3)) + map[int]string{0: "", 1: "\x7f", 2: "\x80"}[i%3]
				}
				data[pdf.Name(k)] = pdf.Integer(i)
				if style == 1 && i%2 == 0 {
					// the usual case in destination and file trees: the value is an indirect
					// reference, and it is the reference that is stored and returned
					data[pdf.Name(k)] = pdf.NewReference(uint32(100000+i), 0)
				}
			}
			desc := fmt.Sprintf("names n=%d style=%d (distinct %d)", n, style, len(data))
			r, root := c17Doc(t, func(w *pdf.Writer) (pdf.Reference, error) { return WriteMap[pdf.Name, NameCodec](w, data) })
			if len(data) == 0 {
				if root != 0 {
					t.Errorf("B2-FAIL empty-map-tree %s: root %v", desc, root)
				}
				continue
			}
			keyOf := func(o pdf.Object) (string, bool) { s, ok := o.(pdf.String); return string(s), ok }
			keys, err := c17Structure(r, root, "Names", true, 0, keyOf, func(a, b string) bool { return a < b })
			if err != nil {
				t.Errorf("B2-FAIL structure %s: %v", desc, err)
				continue
			}
			var want []string
			for k := range data {
				want = append(want, string(k))
			}
			sort.Strings(want)
			if fmt.Sprint(keys) != fmt.Sprint(want) {
				t.Errorf("B2-FAIL keys %s: tree holds %d keys, map %d", desc, len(keys), len(want))
			}
			mem, err1 := ExtractInMemory[pdf.Name, NameCodec](r, root)
			str, err2 := ExtractFromFile[pdf.Name, NameCodec](r, root)
			if err1 != nil || err2 != nil {
				t.Errorf("B2-FAIL extract %s: %v %v", desc, err1, err2)
				continue
			}
			probe := func(k pdf.Name, present bool, val pdf.Object) {
				for name, lookup := range map[string]func(pdf.Name) (pdf.Object, error){"memory": mem.Lookup, "streaming": str.Lookup} {
					got, err := lookup(k)
					if present {
						if err != nil || !pdf.Equal(got, val) {
							t.Errorf("B2-FAIL lookup-present %s %s key=%q: %v %v", desc, name, k, got, err)
						}
					} else if err == nil && got != nil {
						t.Errorf("B2-FAIL lookup-absent %s %s key=%q: found %v", desc, name, k, got)
					}
				}
			}
			for i, k := range want {
				if n > 300 && i%17 != 0 && i != len(want)-1 {
					continue
				}
				probe(pdf.Name(k), true, data[pdf.Name(k)])
				probe(pdf.Name(k+"\x00"), data[pdf.Name(k+"\x00")] != nil, data[pdf.Name(k+"\x00")])
			}
			probe(pdf.Name("\xff\xff\xff"), false, nil)
			if _, has := data[""]; !has {
				probe(pdf.Name(""), false, nil)
			}
			for name, all := range map[string]func(func(pdf.Name, pdf.Object) bool){"memory": mem.All(), "streaming": str.All()} {
				var got []string
				all(func(k pdf.Name, v pdf.Object) bool {
					got = append(got, string(k))
					if !pdf.Equal(v, data[k]) {
						t.Errorf("B2-FAIL enumerate-value %s %s key=%q", desc, name, k)
					}
					return true
				})
				if fmt.Sprint(got) != fmt.Sprint(want) {
					t.Errorf("B2-FAIL enumerate %s %s: %d keys, want %d (ascending, each once)", desc, name, len(got), len(want))
				}
			}
		}
	}
	t.Logf("B2-CASES %d", cases)
}

func TestB2C17NumberTrees(t *testing.T) {
	cases := 0
	extreme := []pdf.Integer{-9223372036854775808, -9223372036854775807, -9007199254740993, -9007199254740992, -9007199254740991, -1, 0, 1, 9007199254740991, 9007199254740992, 9007199254740993, 9223372036854775806, 9223372036854775807}
	for _, n := range []int{0, 1, 64, 65, 129, 4097, 4098, 4130, 5000, -1} {
		cases++
		data := map[pdf.Integer]pdf.Object{}
		for i := 0; i < n; i++ {
			data[pdf.Integer(i*i-1000)] = pdf.Name(fmt.Sprintf("v%d", i))
		}
		if n < 0 {
			// keys beyond the range a float64 represents exactly, and the extremes of int64
			for i, k := range extreme {
				data[k] = pdf.Name(fmt.Sprintf("x%d", i))
			}
		}
		desc := fmt.Sprintf("nums n=%d", n)
		r, root := c17Doc(t, func(w *pdf.Writer) (pdf.Reference, error) { return WriteMap[pdf.Integer, NumCodec](w, data) })
		if n == 0 {
			if root != 0 {
				t.Errorf("B2-FAIL empty-map-tree %s", desc)
			}
			continue
		}
		keyOf := func(o pdf.Object) (string, bool) {
			i, ok := o.(pdf.Integer)
			// order-preserving text form of an int64
			return fmt.Sprintf("%020d", uint64(int64(i))^(1<<63)), ok
		}
		if _, err := c17Structure(r, root, "Nums", true, 0, keyOf, func(a, b string) bool { return a < b }); err != nil {
			t.Errorf("B2-FAIL structure %s: %v", desc, err)
		}
		str, err := ExtractFromFile[pdf.Integer, NumCodec](r, root)
		if err != nil {
			t.Errorf("B2-FAIL extract %s: %v", desc, err)
			continue
		}
		for k, v := range data {
			got, err := str.Lookup(k)
			if err != nil || !pdf.Equal(got, v) {
				t.Errorf("B2-FAIL lookup-present %s key=%d: %v %v", desc, k, got, err)
			}
			if _, has := data[k+1]; !has && k != 9223372036854775807 {
				if got, err := str.Lookup(k + 1); err == nil && got != nil {
					t.Errorf("B2-FAIL lookup-absent %s key=%d", desc, k+1)
				}
			}
		}
		// the in-memory reader agrees, and both enumerate every key once in ascending order
		mem, err := ExtractInMemory[pdf.Integer, NumCodec](r, root)
		if err != nil {
			t.Errorf("B2-FAIL extract %s: %v", desc, err)
			continue
		}
		for name, all := range map[string]func(func(pdf.Integer, pdf.Object) bool){"streaming": str.All(), "memory": mem.All()} {
			count, ordered := 0, true
			var prev pdf.Integer
			for k, v := range all {
				if count > 0 && k <= prev {
					ordered = false
				}
				prev = k
				count++
				if want, ok := data[k]; !ok || !pdf.Equal(v, want) {
					t.Errorf("B2-FAIL enumerate-value %s %s key=%d", desc, name, k)
					break
				}
			}
			if count != len(data) || !ordered {
				t.Errorf("B2-FAIL enumerate %s %s: %d keys, want %d (ascending, each once: %v)", desc, name, count, len(data), ordered)
			}
		}
		for k, v := range data {
			if got, err := mem.Lookup(k); err != nil || !pdf.Equal(got, v) {
				t.Errorf("B2-FAIL lookup-present %s memory key=%d: %v %v", desc, k, got, err)
				break
			}
		}
	}
	t.Logf("B2-CASES %d", cases)
}
