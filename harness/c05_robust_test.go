package pdf

// B2 bounded checks for C05, C19 and C20 (labelled bounded, never counted as proved).

import (
	"bytes"
	"compress/zlib"
	"encoding/hex"
	"errors"
	"fmt"
	"io"
	"regexp"
	"strings"
	"testing"
)

func c05Docs(t *testing.T) []*c02Doc {
	var docs []*c02Doc
	for i, mk := range c02Scenarios() {
		if !b2Thorough() && i%5 != 0 {
			continue
		}
		doc, err := mk()
		if err != nil {
			t.Errorf("B2-FAIL write-error %v", err)
			continue
		}
		if doc.userPwd != "" {
			continue
		}
		docs = append(docs, doc)
	}
	return docs
}

// c05Walk opens data and touches everything reachable through the xref table.
func c05Walk(data io.ReaderAt, size int64, pwd string, mode ReaderErrorHandling) (res map[Reference]string, err error) {
	res = map[Reference]string{}
	opt := &ReaderOptions{ErrorHandling: mode, Password: pwd}
	r, err := NewReader(data, size, opt)
	if err != nil {
		return nil, err
	}
	var firstErr error
	for n := uint32(0); n < 64; n++ {
		entry := r.xref[n]
		if entry == nil {
			continue
		}
		ref := NewReference(n, entry.Generation)
		obj, err := r.Get(ref, true)
		if err != nil {
			res[ref] = "error"
			if firstErr == nil {
				firstErr = err
			}
			continue
		}
		if stm, ok := obj.(*Stream); ok {
			rd, err := DecodeStream(r, nil, stm)
			if err != nil {
				res[ref] = "error"
				if firstErr == nil {
					firstErr = err
				}
				continue
			}
			body, err := io.ReadAll(io.LimitReader(rd, 1<<22))
			if err != nil {
				res[ref] = "error"
				if firstErr == nil {
					firstErr = err
				}
				continue
			}
			res[ref] = fmt.Sprintf("stream %s %x", AsString(stm.Dict), body)
			continue
		}
		res[ref] = AsString(obj)
	}
	return res, firstErr
}

func TestB2C05Mutations(t *testing.T) {
	cases := 0
	for _, doc := range c05Docs(t) {
		stride := 23
		if b2Thorough() {
			stride = 5
		}
		// work bound: the walk fetches at most 64 objects
		bound := c05WorkBound(len(doc.bytes), 64+bytes.Count(doc.bytes, []byte("endobj")))
		for pos := 0; pos < len(doc.bytes); pos += stride {
			for _, repl := range []byte{0x00, 'x', '9', '<', 0xff} {
				mut := append([]byte{}, doc.bytes...)
				if mut[pos] == repl {
					continue
				}
				mut[pos] = repl
				cases++
				func() {
					defer func() {
						if r := recover(); r != nil {
							t.Errorf("B2-FAIL panic %s pos=%d byte=%#x: %v", doc.desc, pos, repl, r)
						}
					}()
					for _, mode := range []ReaderErrorHandling{ErrorHandlingRecover, ErrorHandlingStop} {
						src := &c05Meter{data: mut, limit: 4 * bound}
						c05Walk(src, int64(len(mut)), doc.ownerPwd, mode)
						if src.bytes > bound {
							t.Errorf("B2-FAIL work-walk %s pos=%d byte=%#x mode=%d: %d bytes served for a file of %d bytes (bound %d)", doc.desc, pos, repl, mode, src.bytes, len(mut), bound)
						}
					}
					src := &c05Meter{data: mut, limit: 4 * bound}
					if fi, err := SequentialScan(src, int64(len(mut))); err == nil {
						for _, sec := range fi.Sections {
							for _, o := range sec.Objects {
								fi.Read(o)
							}
						}
						fi.MakeReader(nil)
					}
					if src.bytes > bound {
						t.Errorf("B2-FAIL work-scan %s pos=%d byte=%#x: %d bytes served for a file of %d bytes (bound %d)", doc.desc, pos, repl, src.bytes, len(mut), bound)
					}
				}()
			}
		}
	}
	t.Logf("B2-CASES %d", cases)
}

// ---- C05: work bound ("terminates within a time proportional to the input") ----
//
// Time is not measured.  The work is observed at the byte source: the number of bytes the
// io.ReaderAt hands out during one call.  The bound is linear in the input: a constant number
// of passes over the file plus one block per item (indirect object or cross-reference
// section) in the file.  The meter stops serving bytes at four times the bound, so that a
// call which exceeds it returns quickly.

var errC05Budget = errors.New("c05: work budget exhausted")

type c05Meter struct {
	data  []byte
	bytes int64
	limit int64 // 0 = none
}

func (m *c05Meter) ReadAt(p []byte, off int64) (int, error) {
	if m.limit > 0 && m.bytes > m.limit {
		return 0, errC05Budget
	}
	if off < 0 || off >= int64(len(m.data)) {
		return 0, io.EOF
	}
	n := copy(p, m.data[off:])
	m.bytes += int64(n)
	if n < len(p) {
		return n, io.EOF
	}
	return n, nil
}

func c05WorkBound(size, items int) int64 {
	return 8*int64(size) + 4096*int64(items) + 65536
}

// c05ChainFile is a file with n incremental updates, assembled from the file-structure
// clauses of ISO 32000-1 (7.5.4 cross-reference table, 7.5.6 incremental updates, 7.5.8
// cross-reference streams, 7.5.8.4 hybrid-reference files), optionally with bytes in front of
// the header (offsets count from the '%' of "%PDF-").
type c05ChainFile struct {
	desc    string
	bytes   []byte
	items   int
	secOff  []int64 // offset of every cross-reference section, oldest first
	stmOff  []int64 // offsets of the cross-reference streams named by /XRefStm entries
	prevPos []int   // file position of the 10-digit /Prev value of section i (-1: none)
	stmPos  []int   // the same for /XRefStm
	sample  []Reference
	want    map[Reference]string
}

type c05Ent struct {
	num int
	off int64
}

const (
	c05Classic = iota
	c05XRefStreams
	c05HybridShared
	c05HybridDistinct
	c05Kinds
)

func c05Chain(kind int, pre string, n, m int) *c05ChainFile {
	f := &c05ChainFile{want: map[Reference]string{}}
	f.desc = fmt.Sprintf("chain kind=%d preamble=%d updates=%d compressed=%d", kind, len(pre), n, m)
	var b bytes.Buffer
	b.WriteString("%PDF-1.5\n%\xe2\xe3\xcf\xd3\n")
	obj := func(num int, body string) c05Ent {
		e := c05Ent{num, int64(b.Len())}
		fmt.Fprintf(&b, "%d 0 obj\n%s\nendobj\n", num, body)
		f.items++
		return e
	}
	stream := func(num int, dict string, data []byte) c05Ent {
		e := c05Ent{num, int64(b.Len())}
		fmt.Fprintf(&b, "%d 0 obj\n<< %s /Length %d >>\nstream\n", num, dict, len(data))
		b.Write(data)
		b.WriteString("\nendstream\nendobj\n")
		f.items++
		return e
	}
	runs := func(ents []c05Ent, do func(first, count int)) {
		for i := 0; i < len(ents); {
			j := i
			for j+1 < len(ents) && ents[j+1].num == ents[j].num+1 {
				j++
			}
			do(i, j-i+1)
			i = j + 1
		}
	}
	table := func(ents []c05Ent, withZero bool) {
		b.WriteString("xref\n")
		if withZero {
			b.WriteString("0 1\n0000000000 65535 f \n")
		}
		runs(ents, func(first, count int) {
			fmt.Fprintf(&b, "%d %d\n", ents[first].num, count)
			for _, e := range ents[first : first+count] {
				fmt.Fprintf(&b, "%010d 00000 n \n", e.off)
			}
		})
	}
	trailer := func(size int, prev, stm int64) {
		fmt.Fprintf(&b, "trailer\n<< /Size %d /Root 1 0 R", size)
		pp, sp := -1, -1
		if prev >= 0 {
			b.WriteString(" /Prev ")
			pp = len(pre) + b.Len()
			fmt.Fprintf(&b, "%010d", prev)
		}
		if stm >= 0 {
			b.WriteString(" /XRefStm ")
			sp = len(pre) + b.Len()
			fmt.Fprintf(&b, "%010d", stm)
		}
		b.WriteString(" >>\n")
		f.prevPos = append(f.prevPos, pp)
		f.stmPos = append(f.stmPos, sp)
	}
	// entries of a cross-reference stream with /W [1 4 2]
	entry := func(typ byte, f2 int64, f3 int) []byte {
		return []byte{typ, byte(f2 >> 24), byte(f2 >> 16), byte(f2 >> 8), byte(f2), byte(f3 >> 8), byte(f3)}
	}
	xrefStream := func(num int, ents []c05Ent, withZero bool, size int, root bool, prev int64) c05Ent {
		self := c05Ent{num, int64(b.Len())}
		ents = append(append([]c05Ent{}, ents...), self)
		var data []byte
		index := ""
		if withZero {
			data = append(data, entry(0, 0, 65535)...)
			index = "0 1 "
		}
		runs(ents, func(first, count int) {
			index += fmt.Sprintf("%d %d ", ents[first].num, count)
			for _, e := range ents[first : first+count] {
				data = append(data, entry(1, e.off, 0)...)
			}
		})
		dict := fmt.Sprintf("/Type /XRef /Size %d /W [ 1 4 2 ] /Index [ %s]", size, index)
		if root {
			dict += " /Root 1 0 R"
		}
		pp := -1
		if prev >= 0 {
			dict += " /Prev "
			pp = len(pre) + b.Len() + len(fmt.Sprintf("%d 0 obj\n<< ", num)) + len(dict)
			dict += fmt.Sprintf("%010d", prev)
		}
		if root {
			f.prevPos = append(f.prevPos, pp)
			f.stmPos = append(f.stmPos, -1)
		}
		return stream(num, dict, data)
	}
	startxref := func(off int64) {
		fmt.Fprintf(&b, "startxref\n%d\n%%%%EOF\n", off)
	}
	expect := func(num int, s string) {
		ref := NewReference(uint32(num), 0)
		f.want[ref] = s
		f.sample = append(f.sample, ref)
	}

	base := []c05Ent{
		obj(1, "<< /Type /Catalog /Pages 2 0 R >>"),
		obj(2, "<< /Type /Pages /Kids [ ] /Count 0 >>"),
		obj(3, "<< /Producer (chain) >>"),
		obj(4, "42"),
	}
	expect(4, "42")
	next := 7
	shared := int64(-1)
	if kind == c05HybridShared {
		// m integers in an object stream, described by one cross-reference stream which
		// every trailer of the chain names as its /XRefStm
		var pairs, objs, xd []byte
		for i := 0; i < m; i++ {
			pairs = append(pairs, fmt.Sprintf("%d %d ", 100+i, len(objs))...)
			objs = append(objs, fmt.Sprintf("%d ", 3*i)...)
			xd = append(xd, entry(2, 5, i)...)
		}
		base = append(base, stream(5, fmt.Sprintf("/Type /ObjStm /N %d /First %d", m, len(pairs)), append(pairs, objs...)))
		e6 := stream(6, fmt.Sprintf("/Type /XRef /Size %d /W [ 1 4 2 ] /Index [ 100 %d ]", 100+m, m), xd)
		base = append(base, e6)
		shared = e6.off
		f.stmOff = append(f.stmOff, shared)
		next = 100 + m
		for _, i := range []int{0, m / 2, m - 1} {
			expect(100+i, fmt.Sprint(3*i))
		}
	}
	prev := int64(b.Len())
	f.secOff = append(f.secOff, prev)
	if kind == c05XRefStreams {
		xrefStream(5, base, true, 6, true, -1)
	} else {
		table(base, true)
		trailer(next, -1, shared)
	}
	startxref(prev)
	for i := 0; i < n; i++ {
		num := next + 2*i
		e := obj(num, fmt.Sprintf("<< /U %d >>", i))
		if i < 2 || i == n/2 || i >= n-2 {
			expect(num, AsString(Dict{"U": Integer(i)}))
		}
		var here int64
		switch kind {
		case c05Classic, c05HybridShared:
			here = int64(b.Len())
			table([]c05Ent{e}, false)
			trailer(num+2, prev, shared)
		case c05XRefStreams:
			here = int64(b.Len())
			xrefStream(num+1, []c05Ent{e}, false, num+2, true, prev)
		case c05HybridDistinct:
			xe := xrefStream(num+1, nil, false, num+2, false, -1)
			f.stmOff = append(f.stmOff, xe.off)
			here = int64(b.Len())
			table([]c05Ent{e}, false)
			trailer(num+2, prev, xe.off)
		}
		f.items++
		f.secOff = append(f.secOff, here)
		startxref(here)
		prev = here
	}
	f.items++
	f.bytes = append([]byte(pre), b.Bytes()...)
	return f
}

// c05ChainRun opens data in the given mode, fetches the sample objects, and runs the
// sequential scan over it; it returns the violated work bounds and, when check is set, the
// differences from the values the file defines.
func c05ChainRun(f *c05ChainFile, data []byte, mode ReaderErrorHandling, check bool) (problems []string) {
	bound := c05WorkBound(len(data), f.items)
	defer func() {
		if r := recover(); r != nil {
			problems = append(problems, fmt.Sprintf("panic %v", r))
		}
	}()
	src := &c05Meter{data: data, limit: 4 * bound}
	r, err := NewReader(src, int64(len(data)), &ReaderOptions{ErrorHandling: mode})
	if src.bytes > bound {
		problems = append(problems, fmt.Sprintf("work-open %d bytes served for a file of %d bytes with %d items (bound %d)", src.bytes, len(data), f.items, bound))
	}
	if err != nil {
		if check && !errors.Is(err, errC05Budget) {
			problems = append(problems, fmt.Sprintf("work-baseline open: %s", b2ShortErr(err)))
		}

	} else {
		for _, ref := range f.sample {
			before := src.bytes
			src.limit = before + 4*bound
			obj, err := r.Get(ref, true)
			if d := src.bytes - before; d > bound {
				problems = append(problems, fmt.Sprintf("work-get %v: %d bytes served for a file of %d bytes (bound %d)", ref, d, len(data), bound))
			}
			if check && !errors.Is(err, errC05Budget) && (err != nil || AsString(obj) != f.want[ref]) {
				problems = append(problems, fmt.Sprintf("work-baseline %v: got %s, want %s (%s)", ref, b2Short(obj), f.want[ref], b2ShortErr(err)))
			}
		}
		r.Close()
	}
	src = &c05Meter{data: data, limit: 4 * bound}
	fi, err := SequentialScan(src, int64(len(data)))
	if src.bytes > bound {
		problems = append(problems, fmt.Sprintf("work-scan %d bytes served for a file of %d bytes with %d items (bound %d)", src.bytes, len(data), f.items, bound))
	}
	if err == nil {
		before := src.bytes
		src.limit = before + 4*bound
		for _, sec := range fi.Sections {
			for _, o := range sec.Objects {
				fi.Read(o)
			}
		}
		if d := src.bytes - before; d > bound {
			problems = append(problems, fmt.Sprintf("work-scan-read %d bytes served for a file of %d bytes with %d items (bound %d)", d, len(data), f.items, bound))
		}
		before = src.bytes
		src.limit = before + 4*bound
		fi.MakeReader(&ReaderOptions{ErrorHandling: mode})
		if d := src.bytes - before; d > bound {
			problems = append(problems, fmt.Sprintf("work-scan-open %d bytes served for a file of %d bytes with %d items (bound %d)", d, len(data), f.items, bound))
		}
	} else if check && !errors.Is(err, errC05Budget) {
		problems = append(problems, fmt.Sprintf("work-baseline scan: %s", b2ShortErr(err)))
	}
	return problems
}

// TestB2C05Work: files with long chains of incremental updates (classic tables,
// cross-reference streams, hybrid files whose tables share one /XRefStm or have one each),
// with and without bytes in front of the header; then every /Prev and /XRefStm of a short
// chain rewired to every cross-reference section of the file (cycles, shortcuts, tables read
// as streams and the reverse).  Oracle: the bytes served by the source stay within
// c05WorkBound; the unmodified files open and define the expected objects.
func TestB2C05Work(t *testing.T) {
	cases := 0
	modes := []ReaderErrorHandling{ErrorHandlingRecover, ErrorHandlingStop, ErrorHandlingReport}
	report := func(f *c05ChainFile, what string, problems []string) {
		for i, p := range problems {
			if i == 3 {
				break
			}
			t.Errorf("B2-FAIL %s %s: %s", strings.SplitN(p, " ", 2)[0], f.desc+what, strings.SplitN(p+" ", " ", 2)[1])
		}
	}
	pres := []string{"", "junk\n", strings.Repeat("# bytes in front of the header\n", 32)}
	lengths := []int{1, 16, 128, 1024}
	compressed := 8000
	if b2Thorough() {
		lengths = append(lengths, 4096)
		pres = append(pres, "\n", strings.Repeat("x", 1019))
	}
	for kind := 0; kind < c05Kinds; kind++ {
		for _, pre := range pres {
			for _, n := range lengths {
				f := c05Chain(kind, pre, n, compressed)
				for _, mode := range modes {
					cases++
					report(f, fmt.Sprintf(" mode=%d", mode), c05ChainRun(f, f.bytes, mode, true))
				}
			}
		}
	}
	// rewiring
	for kind := 0; kind < c05Kinds; kind++ {
		for _, pre := range pres[:2] {
			f := c05Chain(kind, pre, 6, 40)
			targets := append(append([]int64{0, int64(len(f.bytes))}, f.secOff...), f.stmOff...)
			if len(targets) > 10 && !b2Thorough() {
				targets = targets[:10]
			}
			for _, fields := range [][]int{f.prevPos, f.stmPos} {
				for i, pos := range fields {
					if pos < 0 {
						continue
					}
					for _, target := range targets {
						mut := append([]byte{}, f.bytes...)
						copy(mut[pos:pos+10], fmt.Sprintf("%010d", target))
						for _, mode := range modes[:2] {
							cases++
							report(f, fmt.Sprintf(" mode=%d section=%d field@%d->%d", mode, i, pos, target), c05ChainRun(f, mut, mode, false))
						}
					}
				}
			}
		}
	}
	t.Logf("B2-CASES %d", cases)
}

var c20Marker = regexp.MustCompile(`(?m)^(\d+) (\d+) obj\b`)

// c20Object is the ground truth about one indirect object of a complete file: where its
// header starts and where its "endobj" ends.
var c20Reported = map[string]bool{}

type c20Object struct {
	ref        Reference
	start, end int
}

func c20Truth(data []byte) []c20Object {
	var truth []c20Object
	for _, m := range c20Marker.FindAllSubmatchIndex(data, -1) {
		var num, gen int
		fmt.Sscanf(string(data[m[2]:m[3]]), "%d", &num)
		fmt.Sscanf(string(data[m[4]:m[5]]), "%d", &gen)
		e := bytes.Index(data[m[0]:], []byte("endobj"))
		if e < 0 {
			continue
		}
		truth = append(truth, c20Object{NewReference(uint32(num), uint16(gen)), m[0], m[0] + e + 6})
	}
	return truth
}

// c20CheckScan scans data (a prefix or a damaged copy of doc.bytes) and requires every object
// of complete to be listed at its true offset, not broken, with the value that was written.
func c20CheckScan(t *testing.T, doc *c02Doc, data []byte, what string, complete []c20Object, streamPhase int) {
	// one line per document, kind of failure and object
	fail := func(kind string, ref Reference, format string, args ...any) {
		key := fmt.Sprint(doc.desc, kind, ref)
		if c20Reported[key] {
			return
		}
		c20Reported[key] = true
		t.Errorf("B2-FAIL "+kind+" "+format, args...)
	}
	fi, err := SequentialScan(bytes.NewReader(data), int64(len(data)))
	if len(complete) == 0 {
		return
	}
	if err != nil {
		fail("scan-fails", 0, "%s %s complete=%d: %v", doc.desc, what, len(complete), err)
		return
	}
	listed := map[int]*FileObject{}
	for _, sec := range fi.Sections {
		for _, o := range sec.Objects {
			listed[int(o.ObjStart)] = o
		}
	}
	for _, g := range complete {
		o := listed[g.start]
		if o == nil || o.Broken || o.Reference != g.ref {
			fail("object-lost", g.ref, "%s %s ref=%v start=%d listed=%v", doc.desc, what, g.ref, g.start, o)
			continue
		}
		if want, ok := doc.objects[g.ref]; ok {
			got, err := fi.Read(o)
			if err != nil || !Equal(got, b2Expect(want)) {
				fail("object-value", g.ref, "%s %s ref=%v want=%s got=%s err=%v", doc.desc, what, g.ref, AsString(want), AsString(got), err)
			}
		}
		for _, st := range doc.streams {
			if st.ref != g.ref || len(st.filters) != 0 || (streamPhase >= 0 && (streamPhase-g.end)%7 != 0) {
				continue
			}
			if len(st.data) >= 1024 && st.data[len(st.data)-1] == '\r' {
				// data ending in a bare CR followed by the writer's LF before endstream reads
				// as a CR LF end-of-line marker when the (indirect) length object is not available:
				// inherently ambiguous, outside what a prefix can give up
				continue
			}
			// an unfiltered stream: the stored bytes are the data (read twice: the second
			// read must not depend on state left by the first)
			for round := 0; round < 2; round++ {
				got, err := fi.Read(o)
				stm, ok := got.(*Stream)
				if err != nil || !ok {
					fail("stream-value", g.ref, "%s %s ref=%v round=%d: %v %v", doc.desc, what, g.ref, round, got, err)
					break
				}
				raw, err := io.ReadAll(stm.NewReader())
				if err != nil || !bytes.Equal(raw, st.data) {
					fail("stream-value", g.ref, "%s %s ref=%v round=%d: %d bytes, want %d (%v)", doc.desc, what, g.ref, round, len(raw), len(st.data), err)
					break
				}
			}
		}
	}
}

// c20Damaged overwrites, one region at a time, the cross-reference data of doc: the offset
// after the last startxref, the head of the last cross-reference section, and everything from
// that section to the end of the file.  Objects which overlap the region are not required.
func c20Damaged(t *testing.T, doc *c02Doc, truth []c20Object) int {
	cases := 0
	data := doc.bytes
	var regions [][2]int
	if sx := bytes.LastIndex(data, []byte("startxref")); sx >= 0 {
		a := sx + len("startxref")
		for a < len(data) && (data[a] < '0' || data[a] > '9') {
			a++
		}
		b := a
		for b < len(data) && data[b] >= '0' && data[b] <= '9' {
			b++
		}
		regions = append(regions, [2]int{a, b})
		if x := bytes.LastIndex(data[:sx], []byte("\nxref")); x >= 0 && (len(truth) == 0 || x > truth[len(truth)-1].start) {
			// a classic table
			regions = append(regions, [2]int{x + 1, min(x+41, sx)}, [2]int{x + 1, len(data)})
		} else if len(truth) > 0 {
			// a cross-reference stream: the middle of its data, and all of it to the end
			last := truth[len(truth)-1]
			if s := bytes.Index(data[last.start:last.end], []byte("stream")); s >= 0 {
				mid := (last.start + s + 8 + last.end - 16) / 2
				regions = append(regions, [2]int{mid, min(mid+40, last.end-16)}, [2]int{last.start + s + 8, len(data)})
			}
		}
	}
	for ri, reg := range regions {
		for _, fill := range []byte{' ', 'x', '7'} {
			if fill == '7' && ri != 0 {
				continue // digits only where digits were
			}
			cases++
			mut := append([]byte{}, data...)
			for k := reg[0]; k < reg[1]; k++ {
				mut[k] = fill
			}
			var complete []c20Object
			for _, g := range truth {
				if g.end <= reg[0] || g.start >= reg[1] {
					complete = append(complete, g)
				}
			}
			c20CheckScan(t, doc, mut, fmt.Sprintf("overwritten=%d..%d fill=%q", reg[0], reg[1], fill), complete, -1)
		}
	}
	return cases
}

// c20NumberDoc is a file written by the Writer in which the object and generation numbers
// have every number of digits up to the largest legal values.
func c20NumberDoc(v Version, human bool, maxNum uint32) (*c02Doc, error) {
	doc := &c02Doc{objects: map[Reference]Object{}, version: v}
	doc.desc = fmt.Sprintf("numbers v=%v human=%v max=%d", v, human, maxNum)
	var buf bytes.Buffer
	w, err := NewWriter(&buf, v, &WriterOptions{HumanReadable: human})
	if err != nil {
		return nil, err
	}
	pages := w.Alloc()
	w.GetMeta().Catalog.Pages = pages
	doc.objects[pages] = Dict{"Type": Name("Pages"), "Kids": Array{}, "Count": Integer(0)}
	if err := w.Put(pages, doc.objects[pages]); err != nil {
		return nil, err
	}
	var nums []uint32
	for p := uint32(10); p <= 10000000; p *= 10 {
		nums = append(nums, p-1, p)
	}
	// the largest number which leaves room for the objects written by Close
	nums = append(nums, 1<<16-1, 1<<16, 1<<24-5, maxNum)
	gens := []uint16{0, 9, 10, 99, 100, 999, 1000, 9999, 10000, 65535}
	last := uint32(1)
	i := 0
	for _, num := range nums {
		if num <= last || num > maxNum {
			continue
		}
		last = num
		ref := NewReference(num, gens[i%len(gens)])
		i++
		if i%3 == 0 {
			data := []byte(fmt.Sprintf("%% stream object %d\n0 0 m 1 1 l S\n", num))
			dict := Dict{"N": Integer(num)}
			sw, err := w.OpenStream(ref, dict)
			if err != nil {
				return nil, fmt.Errorf("OpenStream %v: %w", ref, err)
			}
			if _, err := sw.Write(data); err != nil {
				return nil, err
			}
			if err := sw.Close(); err != nil {
				return nil, err
			}
			doc.streams = append(doc.streams, c02Stream{ref, dict, nil, data})
			continue
		}
		doc.objects[ref] = Dict{"N": Integer(num), "G": Integer(ref.Generation()), "S": String("numbered")}
		if err := w.Put(ref, doc.objects[ref]); err != nil {
			return nil, fmt.Errorf("Put %v: %w", ref, err)
		}
	}
	if err := w.Close(); err != nil {
		return nil, fmt.Errorf("Close: %w", err)
	}
	doc.bytes = buf.Bytes()
	return doc, nil
}

func TestB2C20Prefixes(t *testing.T) {
	cases := 0
	step := 3
	if b2Thorough() {
		step = 1
	}
	for _, doc := range c05Docs(t) {
		if doc.ownerPwd != "" {
			continue
		}
		// ground truth from the complete file: object starts and the end of each "endobj"
		truth := c20Truth(doc.bytes)
		for n := 0; n <= len(doc.bytes); n += step {
			var complete []c20Object
			for _, g := range truth {
				if g.end <= n {
					complete = append(complete, g)
				}
			}
			cases++
			c20CheckScan(t, doc, doc.bytes[:n], fmt.Sprintf("prefix=%d", n), complete, n)
		}
		cases += c20Damaged(t, doc, truth)
	}
	// dedicated case: the length object of a stream lies beyond the truncation point and the
	// data quotes the keyword "endstream" at the start of a line
	{
		cases++
		var buf bytes.Buffer
		w, _ := NewWriter(&buf, V1_7, nil)
		a := w.Alloc()
		w.GetMeta().Catalog.Pages = a
		w.Put(a, Dict{"Type": Name("Pages"), "Kids": Array{}, "Count": Integer(0)})
		ref := w.Alloc()
		data := append(bytes.Repeat([]byte("0 0 m 100 100 l S % filler line\n"), 40), []byte("(the keyword)\nendstream\n% is quoted above\nQ\n")...)
		sw, _ := w.OpenStream(ref, Dict{})
		sw.Write(data)
		sw.Close()
		w.Close()
		all := buf.Bytes()
		// with the length object available (complete file, and xref section overwritten) the
		// stream must be read exactly, on every read
		damaged := append([]byte{}, all...)
		if x := bytes.LastIndex(damaged, []byte("xref")); x > 0 {
			for k := x; k < len(damaged) && k < x+40; k++ {
				damaged[k] = ' '
			}
		}
		for vi, variant := range [][]byte{all, damaged} {
			cases++
			fi, err := SequentialScan(bytes.NewReader(variant), int64(len(variant)))
			if err != nil {
				t.Errorf("B2-FAIL scan-fails quoted-keyword document variant=%d: %v", vi, err)
				continue
			}
			found := false
			for _, sec := range fi.Sections {
				for _, o := range sec.Objects {
					if o.Reference != ref {
						continue
					}
					found = true
					for round := 0; round < 3; round++ {
						got, err := fi.Read(o)
						stm, isStm := got.(*Stream)
						if err != nil || !isStm || o.Broken {
							t.Errorf("B2-FAIL stream-value quoted-keyword document variant=%d round=%d: broken=%v %v", vi, round, o.Broken, err)
							break
						}
						raw, _ := io.ReadAll(stm.NewReader())
						if !bytes.Equal(raw, data) {
							t.Errorf("B2-FAIL stream-value quoted-keyword document variant=%d round=%d: %d bytes, want %d", vi, round, len(raw), len(data))
							break
						}
					}
				}
			}
			if !found {
				t.Errorf("B2-FAIL object-lost quoted-keyword document variant=%d", vi)
			}
		}
		if i := bytes.Index(all, []byte("endstream\nendobj")); i > 0 {
			n := i + len("endstream\nendobj") + 1
			fi, err := SequentialScan(bytes.NewReader(all[:n]), int64(n))
			ok := false
			if err == nil {
				for _, sec := range fi.Sections {
					for _, o := range sec.Objects {
						if o.Reference == ref && !o.Broken {
							if got, err := fi.Read(o); err == nil {
								if stm, isStm := got.(*Stream); isStm {
									raw, _ := io.ReadAll(stm.NewReader())
									ok = bytes.Equal(raw, data)
								}
							}
						}
					}
				}
			}
			if !ok {
				t.Errorf("B2-FAIL quoted-endstream-length-unavailable a %d-byte stream with an indirect /Length is truncated after its endobj (before the length object); its data quotes the keyword at the start of a line: the object is not recovered (%v)", len(data), err)
			}
		} else {
			t.Errorf("B2-FAIL harness: dedicated document has no stream")
		}
	}
	t.Logf("B2-CASES %d", cases)
}

// ---- C19: fault injection on the byte source ----

type c19Source struct {
	data     []byte
	calls    int
	failAt   int  // 1-based index of the first failing call, 0 = never
	onlyOnce bool // fail only that call
	err      error
}

func (s *c19Source) ReadAt(p []byte, off int64) (int, error) {
	s.calls++
	if s.failAt > 0 && (s.calls == s.failAt || (!s.onlyOnce && s.calls > s.failAt)) {
		return 0, s.err
	}
	if off >= int64(len(s.data)) {
		return 0, io.EOF
	}
	n := copy(p, s.data[off:])
	if n < len(p) {
		return n, io.EOF
	}
	return n, nil
}

// c19ReadSweep opens and walks data with the source failing from the k-th ReadAt on, and at
// the k-th ReadAt only, for every k and every error-handling mode.
func c19ReadSweep(t *testing.T, desc string, data []byte, pwd string, check func(map[Reference]string) string) int {
	cases := 0
	injected := errors.New("injected I/O failure")
	base := &c19Source{data: data}
	want, err := c05Walk(base, int64(len(data)), pwd, ErrorHandlingStop)
	if err != nil {
		t.Errorf("B2-FAIL baseline %s: %v", desc, err)
		return 1
	}
	if check != nil {
		if msg := check(want); msg != "" {
			t.Errorf("B2-FAIL baseline %s: %s", desc, msg)
			return 1
		}
	}
	total := base.calls
	for _, mode := range []ReaderErrorHandling{ErrorHandlingStop, ErrorHandlingRecover, ErrorHandlingReport} {
		for _, once := range []bool{false, true} {
			for k := 1; k <= total; k++ {
				cases++
				src := &c19Source{data: data, failAt: k, onlyOnce: once, err: injected}
				got, err := c05Walk(src, int64(len(data)), pwd, mode)
				if src.calls < k {
					continue // the fault was never reached
				}
				if err != nil {
					if !errors.Is(err, injected) || IsMalformed(err) {
						t.Errorf("B2-FAIL misclassified %s mode=%d once=%v k=%d: %v", desc, mode, once, k, err)
					}
				}
				if got == nil {
					if err == nil {
						t.Errorf("B2-FAIL nil-result %s mode=%d once=%v k=%d", desc, mode, once, k)
					}
					continue
				}
				// every object is either what it is without the fault, or an error
				for ref, w := range want {
					g, ok := got[ref]
					if !ok || (g != w && g != "error") {
						key := "different-data"
						if once {
							key = "different-data-once"
						}
						t.Errorf("B2-FAIL %s %s mode=%d once=%v k=%d ref=%v want=%.60s got=%.60s", key, desc, mode, once, k, ref, c19OneLine(w), c19OneLine(g))
					}
				}
			}
		}
	}
	return cases
}

func c19OneLine(s string) string {
	return strings.Join(strings.Fields(s), " ")
}

func TestB2C19ReadFaults(t *testing.T) {
	cases := 0
	for _, doc := range c05Docs(t) {
		cases += c19ReadSweep(t, doc.desc, doc.bytes, doc.ownerPwd, nil)
	}
	t.Logf("B2-CASES %d", cases)
}

// ---- C19: files in which the entries of a stream dictionary that steer the decoding are
// indirect objects (ISO 32000-1 7.3.10: any value may be an indirect reference unless stated
// otherwise; 7.3.8.2 names /Length explicitly).  The Writer of the library never produces
// these, so they are assembled here from the file-structure clauses; the stream data is
// prepared with compress/zlib and the predictor functions of 7.4.4.4 written out below. ----

// c19Hand assembles a file with a classic cross-reference table from object bodies (objs[i]
// is object i+1, generation 0).
func c19Hand(objs []string) []byte {
	var b bytes.Buffer
	b.WriteString("%PDF-1.5\n%\xe2\xe3\xcf\xd3\n")
	off := make([]int, len(objs))
	for i, body := range objs {
		off[i] = b.Len()
		fmt.Fprintf(&b, "%d 0 obj\n%s\nendobj\n", i+1, body)
	}
	x := b.Len()
	fmt.Fprintf(&b, "xref\n0 %d\n0000000000 65535 f \n", len(objs)+1)
	for _, o := range off {
		fmt.Fprintf(&b, "%010d 00000 n \n", o)
	}
	fmt.Fprintf(&b, "trailer\n<< /Size %d /Root 1 0 R >>\nstartxref\n%d\n%%%%EOF\n", len(objs)+1, x)
	return b.Bytes()
}

// c19PNGUp applies PNG prediction with the Up function to every row (7.4.4.4, /Predictor 12).
func c19PNGUp(plain []byte, rowLen int) []byte {
	var out []byte
	prior := make([]byte, rowLen)
	for r := 0; r+rowLen <= len(plain); r += rowLen {
		out = append(out, 2)
		for i := 0; i < rowLen; i++ {
			out = append(out, plain[r+i]-prior[i])
		}
		prior = plain[r : r+rowLen]
	}
	return out
}

// c19TIFF2 applies TIFF predictor 2 to rows of 8-bit samples (horizontal differencing per
// colour component).
func c19TIFF2(plain []byte, colors, columns int) []byte {
	rowLen := colors * columns
	out := append([]byte{}, plain...)
	for r := 0; r+rowLen <= len(plain); r += rowLen {
		for i := rowLen - 1; i >= colors; i-- {
			out[r+i] = plain[r+i] - plain[r+i-colors]
		}
	}
	return out
}

func c19Deflate(data []byte) []byte {
	var z bytes.Buffer
	zw := zlib.NewWriter(&z)
	zw.Write(data)
	zw.Close()
	return z.Bytes()
}

type c19IndirectCase struct {
	name    string
	dict    string   // entries of the stream dictionary of object 3 (without /Length)
	data    []byte   // stored stream data
	helpers []string // objects 4, 5, ...
	// lax: the fault-free walk need not decode to the prepared data.  MakeFilter has no
	// access to the file and ignores indirect values inside a parameter dictionary (the
	// stream is decoded with the default parameters); whether that follows the
	// specification is a question for C04, here only "the same or an error" is required.
	lax bool
}

func c19IndirectCases(plain []byte) []c19IndirectCase {
	png := c19Deflate(c19PNGUp(plain, 8))
	tiff := c19Deflate(c19TIFF2(plain, 4, 2))
	hexed := func(d []byte) []byte { return []byte(strings.ToUpper(hex.EncodeToString(d)) + ">") }
	const pngParms = "<< /Predictor 12 /Columns 8 >>"
	return []c19IndirectCase{
		{"parms-ref", "/Filter /FlateDecode /DecodeParms 4 0 R", png, []string{pngParms}, false},
		{"parms-in-array-ref", "/Filter [ /FlateDecode ] /DecodeParms [ 4 0 R ]", png, []string{pngParms}, false},
		{"filter-ref", "/Filter 4 0 R /DecodeParms " + pngParms, png, []string{"/FlateDecode"}, false},
		{"filter-in-array-ref", "/Filter [ 5 0 R ] /DecodeParms [ 4 0 R ]", png, []string{pngParms, "/FlateDecode"}, false},
		{"columns-ref", "/Filter /FlateDecode /DecodeParms << /Predictor 12 /Columns 4 0 R >>", png, []string{"8"}, true},
		{"predictor-ref", "/Filter /FlateDecode /DecodeParms << /Predictor 4 0 R /Columns 5 0 R >>", png, []string{"12", "8"}, true},
		{"chain-parms-ref", "/Filter [ /ASCIIHexDecode /FlateDecode ] /DecodeParms [ null 4 0 R ]", hexed(png), []string{pngParms}, false},
		{"chain-arrays-ref", "/Filter 5 0 R /DecodeParms 6 0 R", hexed(png), []string{pngParms, "[ /ASCIIHexDecode /FlateDecode ]", "[ null 4 0 R ]"}, false},
		{"tiff-parms-ref", "/Filter /FlateDecode /DecodeParms 4 0 R", tiff, []string{"<< /Predictor 2 /Colors 4 /BitsPerComponent 8 /Columns 2 >>"}, false},
		{"tiff-colors-ref", "/Filter /FlateDecode /DecodeParms 4 0 R", tiff, []string{"<< /Predictor 2 /Colors 5 0 R /Columns 6 0 R >>", "4", "2"}, true},
	}
}

func TestB2C19ReadFaultsIndirect(t *testing.T) {
	cases := 0
	plain := make([]byte, 128)
	for i := range plain {
		plain[i] = byte(i*i + 3*i + 1)
	}
	wantHex := " " + hex.EncodeToString(plain)
	check := func(res map[Reference]string) string {
		got := res[NewReference(3, 0)]
		if !strings.HasPrefix(got, "stream ") || !strings.HasSuffix(got, wantHex) {
			return fmt.Sprintf("object 3 does not decode to the prepared data: %.80s", got)
		}
		return ""
	}
	for _, c := range c19IndirectCases(plain) {
		for _, lengthRef := range []bool{false, true} {
			helpers := append([]string{}, c.helpers...)
			length := fmt.Sprint(len(c.data))
			if lengthRef {
				helpers = append(helpers, length)
				length = fmt.Sprintf("%d 0 R", 3+len(helpers))
			}
			objs := []string{
				"<< /Type /Catalog /Pages 2 0 R >>",
				"<< /Type /Pages /Kids [ ] /Count 0 >>",
				fmt.Sprintf("<< %s /Length %s >>\nstream\n%s\nendstream", c.dict, length, c.data),
			}
			objs = append(objs, helpers...)
			desc := fmt.Sprintf("indirect %s length-ref=%v", c.name, lengthRef)
			ck := check
			if c.lax {
				ck = nil
			}
			cases += c19ReadSweep(t, desc, c19Hand(objs), "", ck)
		}
	}
	t.Logf("B2-CASES %d", cases)
}

type c19Sink struct {
	calls  int
	failAt int
	err    error
	buf    bytes.Buffer
}

func (s *c19Sink) Write(p []byte) (int, error) {
	s.calls++
	if s.failAt > 0 && s.calls >= s.failAt {
		return 0, s.err
	}
	return s.buf.Write(p)
}

// c19SeekSink is a seekable in-memory sink; writes and seeks are counted together
// and the failAt-th operation (and all later ones) fails.
type c19SeekSink struct {
	calls  int
	failAt int
	err    error
	data   []byte
	pos    int64
}

func (s *c19SeekSink) Write(p []byte) (int, error) {
	s.calls++
	if s.failAt > 0 && s.calls >= s.failAt {
		return 0, s.err
	}
	if end := s.pos + int64(len(p)); end > int64(len(s.data)) {
		s.data = append(s.data, make([]byte, end-int64(len(s.data)))...)
	}
	copy(s.data[s.pos:], p)
	s.pos += int64(len(p))
	return len(p), nil
}

func (s *c19SeekSink) Seek(off int64, whence int) (int64, error) {
	s.calls++
	if s.failAt > 0 && s.calls >= s.failAt {
		return s.pos, s.err
	}
	switch whence {
	case io.SeekStart:
		s.pos = off
	case io.SeekCurrent:
		s.pos += off
	case io.SeekEnd:
		s.pos = int64(len(s.data)) + off
	}
	if s.pos < 0 {
		s.pos = 0
		return 0, errors.New("negative position")
	}
	return s.pos, nil
}

// c19OnceSink fails exactly one operation.
type c19OnceSink struct{ c19SeekSink }

func (s *c19OnceSink) Write(p []byte) (int, error) {
	if s.calls+1 == s.failAt {
		s.calls++
		return 0, s.err
	}
	f := s.failAt
	s.failAt = 0
	n, err := s.c19SeekSink.Write(p)
	s.failAt = f
	return n, err
}

func (s *c19OnceSink) Seek(off int64, whence int) (int64, error) {
	if s.calls+1 == s.failAt {
		s.calls++
		return s.pos, s.err
	}
	f := s.failAt
	s.failAt = 0
	n, err := s.c19SeekSink.Seek(off, whence)
	s.failAt = f
	return n, err
}

func TestB2C19WriteFaults(t *testing.T) {
	cases := 0
	injected := errors.New("injected sink failure")
	run := func(sink io.Writer, v Version) error {
		w, err := NewWriter(sink, v, nil)
		if err != nil {
			return err
		}
		var firstErr error
		note := func(err error) {
			if err != nil && firstErr == nil {
				firstErr = err
			}
		}
		a := w.Alloc()
		w.GetMeta().Catalog.Pages = a
		note(w.Put(a, Dict{"Type": Name("Pages"), "Kids": Array{}, "Count": Integer(0)}))
		r := []Reference{w.Alloc(), w.Alloc()}
		note(w.WriteCompressed(r, String("one"), Array{Integer(2)}))
		s := w.Alloc()
		if sw, err := w.OpenStream(s, Dict{}, FilterFlate{}); err != nil {
			note(err)
		} else {
			_, err = sw.Write(c02Data(20000, 0))
			note(err)
			note(sw.Close())
		}
		note(w.Put(w.Alloc(), String(bytes.Repeat([]byte("x"), 9000))))
		// streams long enough that their /Length is patched in on a seekable sink
		for _, n := range []int{3000, 70000} {
			if sw, err := w.OpenStream(w.Alloc(), Dict{}); err != nil {
				note(err)
			} else {
				_, err = sw.Write(c02Data(n, 1))
				note(err)
				note(sw.Close())
			}
		}
		note(w.Close())
		return firstErr
	}
	for _, v := range []Version{V1_4, V1_7} {
		base := &c19Sink{}
		if err := run(base, v); err != nil {
			t.Errorf("B2-FAIL baseline-write: %v", err)
			continue
		}
		for k := 1; k <= base.calls; k++ {
			cases++
			sink := &c19Sink{failAt: k, err: injected}
			err := run(sink, v)
			if err == nil || !errors.Is(err, injected) {
				t.Errorf("B2-FAIL sink-error-lost version=%v k=%d: %v", v, k, err)
			}
		}
		// the same script on a seekable sink (stream lengths are patched in place)
		sbase := &c19SeekSink{}
		if err := run(sbase, v); err != nil {
			t.Errorf("B2-FAIL baseline-write seekable: %v", err)
			continue
		}
		if _, err := c05Walk(bytes.NewReader(sbase.data), int64(len(sbase.data)), "", ErrorHandlingStop); err != nil {
			t.Errorf("B2-FAIL baseline-write seekable: file does not read back: %v", err)
		}
		for k := 1; k <= sbase.calls; k++ {
			cases++
			sink := &c19SeekSink{failAt: k, err: injected}
			err := run(sink, v)
			if err == nil || !errors.Is(err, injected) {
				t.Errorf("B2-FAIL sink-error-lost seekable version=%v k=%d: %v", v, k, err)
			}
		}
		// a single failing operation (later ones succeed) must be reported as well
		for k := 1; k <= sbase.calls; k++ {
			cases++
			sink := &c19OnceSink{c19SeekSink{failAt: k, err: injected}}
			err := run(sink, v)
			if err == nil || !errors.Is(err, injected) {
				t.Errorf("B2-FAIL sink-error-lost seekable-once version=%v k=%d: %v", v, k, err)
			}
		}
	}
	t.Logf("B2-CASES %d", cases)
}

// c19Aligned is a short write script preceded by a filler object of the given size, so that
// the boundaries of the Writer's output buffer (and with them the positions at which the sink
// is called) move through everything the script writes, in particular through the objects
// that Close writes: object stream, catalog, document information dictionary,
// cross-reference section, trailer.
func c19Aligned(sink io.Writer, v Version, human, info bool, filler int) error {
	w, err := NewWriter(sink, v, &WriterOptions{HumanReadable: human})
	if err != nil {
		return err
	}
	var firstErr error
	note := func(err error) {
		if err != nil && firstErr == nil {
			firstErr = err
		}
	}
	note(w.Put(w.Alloc(), String(bytes.Repeat([]byte("f"), filler))))
	a := w.Alloc()
	w.GetMeta().Catalog.Pages = a
	note(w.Put(a, Dict{"Type": Name("Pages"), "Kids": Array{}, "Count": Integer(0)}))
	r := []Reference{w.Alloc(), w.Alloc()}
	note(w.WriteCompressed(r, String("one"), Array{Integer(2)}))
	if sw, err := w.OpenStream(w.Alloc(), Dict{}, FilterASCIIHex{}); err != nil {
		note(err)
	} else {
		_, err = sw.Write(c02Data(150, 0))
		note(err)
		note(sw.Close())
	}
	if info {
		w.GetMeta().Info = &Info{
			Title:    "a title for the document information dictionary",
			Author:   "an author",
			Subject:  "sink failures while the last objects are written",
			Keywords: "buffer, boundary, close",
			Creator:  "c19Aligned",
			Producer: "bounded harness",
			Custom:   map[string]string{"Note": strings.Repeat("custom entry ", 8)},
		}
	}
	w.GetMeta().Trailer = Dict{"VerifNote": String("an entry of the trailer dictionary")}
	note(w.Close())
	return firstErr
}

// TestB2C19WriteFaultsAligned: every index k of a Write or Seek call on the sink, for every
// alignment (in steps) of the written bytes against the Writer's output buffer.
func TestB2C19WriteFaultsAligned(t *testing.T) {
	cases := 0
	injected := errors.New("injected sink failure")
	// neighbouring alignments fail alike: at most a dozen lines are printed
	failures := 0
	fail := func(format string, args ...any) {
		if failures++; failures <= 12 {
			t.Errorf("B2-FAIL "+format, args...)
		}
	}
	step := 8
	humans := []bool{false}
	if b2Thorough() {
		step = 1
		humans = []bool{false, true}
	}
	first := int(c01Seed()-1) % step
	if first < 0 {
		first = 0
	}
	for _, v := range []Version{V1_4, V1_7} {
		for _, human := range humans {
			for _, info := range []bool{true, false} {
				for filler := first; filler < 4096+step; filler += step {
					run := func(sink io.Writer) error { return c19Aligned(sink, v, human, info, filler) }
					desc := fmt.Sprintf("aligned version=%v human=%v info=%v filler=%d", v, human, info, filler)
					base := &c19Sink{}
					if err := run(base); err != nil {
						t.Errorf("B2-FAIL baseline-write %s: %v", desc, err)
						continue
					}
					for k := 1; k <= base.calls; k++ {
						cases++
						if err := run(&c19Sink{failAt: k, err: injected}); err == nil || !errors.Is(err, injected) {
							fail("sink-error-lost %s k=%d: %v", desc, k, err)
						}
					}
					sbase := &c19SeekSink{}
					if err := run(sbase); err != nil {
						t.Errorf("B2-FAIL baseline-write seekable %s: %v", desc, err)
						continue
					}
					for k := 1; k <= sbase.calls; k++ {
						cases += 2
						if err := run(&c19SeekSink{failAt: k, err: injected}); err == nil || !errors.Is(err, injected) {
							fail("sink-error-lost seekable %s k=%d: %v", desc, k, err)
						}
						if err := run(&c19OnceSink{c19SeekSink{failAt: k, err: injected}}); err == nil || !errors.Is(err, injected) {
							fail("sink-error-lost seekable-once %s k=%d: %v", desc, k, err)
						}
					}
				}
			}
		}
	}
	if failures > 12 {
		t.Logf("%d further failures not printed", failures-12)
	}
	t.Logf("B2-CASES %d", cases)
}

// TestB2C20PrefixesNumbers: prefixes and overwritten cross-reference data of files whose
// object numbers run up to 2^24-1 (the largest the Writer accepts) and whose generation
// numbers run up to 65535.  Every prefix (in steps) is taken up to the start of the
// cross-reference section; the section itself, which has one entry per object number, is cut
// at a few places only.
func TestB2C20PrefixesNumbers(t *testing.T) {
	cases := 0
	type spec struct {
		v     Version
		human bool
		max   uint32
	}
	// Close writes the catalog and the cross-reference stream after the last object.  Files
	// with a classic table (before 1.5, and human-readable ones) have 20 bytes per object
	// number and are kept to six digits.
	specs := []spec{{V1_7, false, 1<<24 - 3}, {V1_4, false, 100000}, {V2_0, true, 10000}}
	if b2Thorough() {
		specs = append(specs, spec{V1_5, false, 10000001}, spec{V1_3, true, 100000}, spec{V1_7, true, 1000})
	}
	step := 3
	if b2Thorough() {
		step = 1
	}
	for _, sp := range specs {
		doc, err := c20NumberDoc(sp.v, sp.human, sp.max)
		if err != nil {
			t.Errorf("B2-FAIL write-error numbers v=%v max=%d: %v", sp.v, sp.max, err)
			continue
		}
		truth := c20Truth(doc.bytes)
		if len(truth) < 5 {
			t.Errorf("B2-FAIL harness: %s has %d objects", doc.desc, len(truth))
			continue
		}
		lastObj := truth[len(truth)-1]
		var points []int
		bodyEnd := min(lastObj.start+400, len(doc.bytes))
		for n := int(c01Seed()-1) % step; n <= bodyEnd; n += step {
			points = append(points, n)
		}
		for k := 1; k <= 12; k++ {
			points = append(points, bodyEnd+(len(doc.bytes)-bodyEnd)*k/12)
		}
		points = append(points, lastObj.end-1, lastObj.end, lastObj.end+1)
		for _, n := range points {
			if n < 0 || n > len(doc.bytes) {
				continue
			}
			var complete []c20Object
			for _, g := range truth {
				if g.end <= n {
					complete = append(complete, g)
				}
			}
			cases++
			c20CheckScan(t, doc, doc.bytes[:n], fmt.Sprintf("prefix=%d", n), complete, n)
		}
		cases += c20Damaged(t, doc, truth)
	}
	t.Logf("B2-CASES %d", cases)
}
