package pdf

// B2 bounded checks for C05, C19 and C20 (labelled bounded, never counted as proved).

import (
	"bytes"
	"errors"
	"fmt"
	"io"
	"regexp"
	"testing"
)

func c05Docs(t *testing.T) []*c02Doc {
	var docs []*c02Doc
	for i, mk := range c02Scenarios() {
		if !b2Thorough() && i%5 != 0 {
			continue
		}
		doc, err := mk()
		if err != nil {
			t.Errorf("B2-FAIL write-error %v", err)
			continue
		}
		if doc.userPwd != "" {
			continue
		}
		docs = append(docs, doc)
	}
	return docs
}

// c05Walk opens data and touches everything reachable through the xref table.
func c05Walk(data io.ReaderAt, size int64, pwd string, mode ReaderErrorHandling) (res map[Reference]string, err error) {
	res = map[Reference]string{}
	opt := &ReaderOptions{ErrorHandling: mode, Password: pwd}
	r, err := NewReader(data, size, opt)
	if err != nil {
		return nil, err
	}
	var firstErr error
	for n := uint32(0); n < 64; n++ {
		entry := r.xref[n]
		if entry == nil {
			continue
		}
		ref := NewReference(n, entry.Generation)
		obj, err := r.Get(ref, true)
		if err != nil {
			res[ref] = "error"
			if firstErr == nil {
				firstErr = err
			}
			continue
		}
		if stm, ok := obj.(*Stream); ok {
			rd, err := DecodeStream(r, nil, stm)
			if err != nil {
				res[ref] = "error"
				if firstErr == nil {
					firstErr = err
				}
				continue
			}
			body, err := io.ReadAll(io.LimitReader(rd, 1<<22))
			if err != nil {
				res[ref] = "error"
				if firstErr == nil {
					firstErr = err
				}
				continue
			}
			res[ref] = fmt.Sprintf("stream %s %x", AsString(stm.Dict), body)
			continue
		}
		res[ref] = AsString(obj)
	}
	return res, firstErr
}

func TestB2C05Mutations(t *testing.T) {
	cases := 0
	for _, doc := range c05Docs(t) {
		stride := 23
		if b2Thorough() {
			stride = 5
		}
		for pos := 0; pos < len(doc.bytes); pos += stride {
			for _, repl := range []byte{0x00, 'x', '9', '<', 0xff} {
				mut := append([]byte{}, doc.bytes...)
				if mut[pos] == repl {
					continue
				}
				mut[pos] = repl
				cases++
				func() {
					defer func() {
						if r := recover(); r != nil {
							t.Errorf("B2-FAIL panic %s pos=%d byte=%#x: %v", doc.desc, pos, repl, r)
						}
					}()
					for _, mode := range []ReaderErrorHandling{ErrorHandlingRecover, ErrorHandlingStop} {
						c05Walk(bytes.NewReader(mut), int64(len(mut)), doc.ownerPwd, mode)
					}
					if fi, err := SequentialScan(bytes.NewReader(mut), int64(len(mut))); err == nil {
						for _, sec := range fi.Sections {
							for _, o := range sec.Objects {
								fi.Read(o)
							}
						}
						fi.MakeReader(nil)
					}
				}()
			}
		}
	}
	t.Logf("B2-CASES %d", cases)
}

var c20Marker = regexp.MustCompile(`(?m)^(\d+) (\d+) obj\b`)

func TestB2C20Prefixes(t *testing.T) {
	cases := 0
	for _, doc := range c05Docs(t) {
		if doc.ownerPwd != "" {
			continue
		}
		// ground truth from the complete file: object starts and the end of each "endobj"
		type gt struct {
			ref        Reference
			start, end int
		}
		var truth []gt
		for _, m := range c20Marker.FindAllSubmatchIndex(doc.bytes, -1) {
			var num, gen int
			fmt.Sscanf(string(doc.bytes[m[2]:m[3]]), "%d", &num)
			fmt.Sscanf(string(doc.bytes[m[4]:m[5]]), "%d", &gen)
			e := bytes.Index(doc.bytes[m[0]:], []byte("endobj"))
			if e < 0 {
				continue
			}
			truth = append(truth, gt{NewReference(uint32(num), uint16(gen)), m[0], m[0] + e + 6})
		}
		step := 3
		if b2Thorough() {
			step = 1
		}
		for n := 0; n <= len(doc.bytes); n += step {
			prefix := doc.bytes[:n]
			var complete []gt
			for _, g := range truth {
				if g.end <= n {
					complete = append(complete, g)
				}
			}
			cases++
			fi, err := SequentialScan(bytes.NewReader(prefix), int64(n))
			if len(complete) == 0 {
				continue
			}
			if err != nil {
				t.Errorf("B2-FAIL scan-fails %s prefix=%d complete=%d: %v", doc.desc, n, len(complete), err)
				continue
			}
			listed := map[int]*FileObject{}
			for _, sec := range fi.Sections {
				for _, o := range sec.Objects {
					listed[int(o.ObjStart)] = o
				}
			}
			for _, g := range complete {
				o := listed[g.start]
				if o == nil || o.Broken || o.Reference != g.ref {
					t.Errorf("B2-FAIL object-lost %s prefix=%d ref=%v start=%d listed=%v", doc.desc, n, g.ref, g.start, o)
					continue
				}
				if want, ok := doc.objects[g.ref]; ok {
					got, err := fi.Read(o)
					if err != nil || !Equal(got, b2Expect(want)) {
						t.Errorf("B2-FAIL object-value %s prefix=%d ref=%v want=%s got=%s err=%v", doc.desc, n, g.ref, AsString(want), AsString(got), err)
					}
				}
				for _, st := range doc.streams {
					if st.ref != g.ref || len(st.filters) != 0 || (n-g.end)%7 != 0 {
						continue
					}
					if len(st.data) >= 1024 && st.data[len(st.data)-1] == '\r' {
						// data ending in a bare CR followed by the writer's LF before endstream reads
						// as a CR LF end-of-line marker when the (indirect) length object is not available:
						// inherently ambiguous, outside what a prefix can give up
						continue
					}
					// an unfiltered stream: the stored bytes are the data (read twice: the second
					// read must not depend on state left by the first)
					for round := 0; round < 2; round++ {
						got, err := fi.Read(o)
						stm, ok := got.(*Stream)
						if err != nil || !ok {
							t.Errorf("B2-FAIL stream-value %s prefix=%d ref=%v round=%d: %v %v", doc.desc, n, g.ref, round, got, err)
							break
						}
						raw, err := io.ReadAll(stm.NewReader())
						if err != nil || !bytes.Equal(raw, st.data) {
							t.Errorf("B2-FAIL stream-value %s prefix=%d ref=%v round=%d: %d bytes, want %d (%v)", doc.desc, n, g.ref, round, len(raw), len(st.data), err)
							break
						}
					}
				}
			}
		}
	}
	// dedicated case: the length object of a stream lies beyond the truncation point and the
	// data quotes the keyword "endstream" at the start of a line
	{
		cases++
		var buf bytes.Buffer
		w, _ := NewWriter(&buf, V1_7, nil)
		a := w.Alloc()
		w.GetMeta().Catalog.Pages = a
		w.Put(a, Dict{"Type": Name("Pages"), "Kids": Array{}, "Count": Integer(0)})
		ref := w.Alloc()
		data := append(bytes.Repeat([]byte("0 0 m 100 100 l S % filler line\n"), 40), []byte("(the keyword)\nendstream\n% is quoted above\nQ\n")...)
		sw, _ := w.OpenStream(ref, Dict{})
		sw.Write(data)
		sw.Close()
		w.Close()
		all := buf.Bytes()
		// with the length object available (complete file, and xref section overwritten) the
		// stream must be read exactly, on every read
		damaged := append([]byte{}, all...)
		if x := bytes.LastIndex(damaged, []byte("xref")); x > 0 {
			for k := x; k < len(damaged) && k < x+40; k++ {
				damaged[k] = ' '
			}
		}
		for vi, variant := range [][]byte{all, damaged} {
			cases++
			fi, err := SequentialScan(bytes.NewReader(variant), int64(len(variant)))
			if err != nil {
				t.Errorf("B2-FAIL scan-fails quoted-keyword document variant=%d: %v", vi, err)
				continue
			}
			found := false
			for _, sec := range fi.Sections {
				for _, o := range sec.Objects {
					if o.Reference != ref {
						continue
					}
					found = true
					for round := 0; round < 3; round++ {
						got, err := fi.Read(o)
						stm, isStm := got.(*Stream)
						if err != nil || !isStm || o.Broken {
							t.Errorf("B2-FAIL stream-value quoted-keyword document variant=%d round=%d: broken=%v %v", vi, round, o.Broken, err)
							break
						}
						raw, _ := io.ReadAll(stm.NewReader())
						if !bytes.Equal(raw, data) {
							t.Errorf("B2-FAIL stream-value quoted-keyword document variant=%d round=%d: %d bytes, want %d", vi, round, len(raw), len(data))
							break
						}
					}
				}
			}
			if !found {
				t.Errorf("B2-FAIL object-lost quoted-keyword document variant=%d", vi)
			}
		}
		if i := bytes.Index(all, []byte("endstream\nendobj")); i > 0 {
			n := i + len("endstream\nendobj") + 1
			fi, err := SequentialScan(bytes.NewReader(all[:n]), int64(n))
			ok := false
			if err == nil {
				for _, sec := range fi.Sections {
					for _, o := range sec.Objects {
						if o.Reference == ref && !o.Broken {
							if got, err := fi.Read(o); err == nil {
								if stm, isStm := got.(*Stream); isStm {
									raw, _ := io.ReadAll(stm.NewReader())
									ok = bytes.Equal(raw, data)
								}
							}
						}
					}
				}
			}
			if !ok {
				t.Errorf("B2-FAIL quoted-endstream-length-unavailable a %d-byte stream with an indirect /Length is truncated after its endobj (before the length object); its data quotes the keyword at the start of a line: the object is not recovered (%v)", len(data), err)
			}
		} else {
			t.Errorf("B2-FAIL harness: dedicated document has no stream")
		}
	}
	t.Logf("B2-CASES %d", cases)
}

// ---- C19: fault injection on the byte source ----

type c19Source struct {
	data     []byte
	calls    int
	failAt   int  // 1-based index of the first failing call, 0 = never
	onlyOnce bool // fail only that call
	err      error
}

func (s *c19Source) ReadAt(p []byte, off int64) (int, error) {
	s.calls++
	if s.failAt > 0 && (s.calls == s.failAt || (!s.onlyOnce && s.calls > s.failAt)) {
		return 0, s.err
	}
	if off >= int64(len(s.data)) {
		return 0, io.EOF
	}
	n := copy(p, s.data[off:])
	if n < len(p) {
		return n, io.EOF
	}
	return n, nil
}

func TestB2C19ReadFaults(t *testing.T) {
	cases := 0
	injected := errors.New("injected I/O failure")
	for _, doc := range c05Docs(t) {
		base := &c19Source{data: doc.bytes}
		want, err := c05Walk(base, int64(len(doc.bytes)), doc.ownerPwd, ErrorHandlingStop)
		if err != nil {
			t.Errorf("B2-FAIL baseline %s: %v", doc.desc, err)
			continue
		}
		total := base.calls
		for _, mode := range []ReaderErrorHandling{ErrorHandlingStop, ErrorHandlingRecover, ErrorHandlingReport} {
			for _, once := range []bool{false, true} {
				for k := 1; k <= total; k++ {
					cases++
					src := &c19Source{data: doc.bytes, failAt: k, onlyOnce: once, err: injected}
					got, err := c05Walk(src, int64(len(doc.bytes)), doc.ownerPwd, mode)
					if src.calls < k {
						continue // the fault was never reached
					}
					if err != nil {
						if !errors.Is(err, injected) || IsMalformed(err) {
							t.Errorf("B2-FAIL misclassified %s mode=%d once=%v k=%d: %v", doc.desc, mode, once, k, err)
						}
					}
					if got == nil {
						if err == nil {
							t.Errorf("B2-FAIL nil-result %s mode=%d once=%v k=%d", doc.desc, mode, once, k)
						}
						continue
					}
					// every object is either what it is without the fault, or an error
					for ref, w := range want {
						g, ok := got[ref]
						if !ok || (g != w && g != "error") {
							key := "different-data"
							if once {
								key = "different-data-once"
							}
							t.Errorf("B2-FAIL %s %s mode=%d once=%v k=%d ref=%v want=%.60s got=%.60s", key, doc.desc, mode, once, k, ref, w, g)
						}
					}
				}
			}
		}
	}
	t.Logf("B2-CASES %d", cases)
}

type c19Sink struct {
	calls  int
	failAt int
	err    error
	buf    bytes.Buffer
}

func (s *c19Sink) Write(p []byte) (int, error) {
	s.calls++
	if s.failAt > 0 && s.calls >= s.failAt {
		return 0, s.err
	}
	return s.buf.Write(p)
}

// c19SeekSink is a seekable in-memory sink; writes and seeks are counted together
// and the failAt-th operation (and all later ones) fails.
type c19SeekSink struct {
	calls  int
	failAt int
	err    error
	data   []byte
	pos    int64
}

func (s *c19SeekSink) Write(p []byte) (int, error) {
	s.calls++
	if s.failAt > 0 && s.calls >= s.failAt {
		return 0, s.err
	}
	if end := s.pos + int64(len(p)); end > int64(len(s.data)) {
		s.data = append(s.data, make([]byte, end-int64(len(s.data)))...)
	}
	copy(s.data[s.pos:], p)
	s.pos += int64(len(p))
	return len(p), nil
}

func (s *c19SeekSink) Seek(off int64, whence int) (int64, error) {
	s.calls++
	if s.failAt > 0 && s.calls >= s.failAt {
		return s.pos, s.err
	}
	switch whence {
	case io.SeekStart:
		s.pos = off
	case io.SeekCurrent:
		s.pos += off
	case io.SeekEnd:
		s.pos = int64(len(s.data)) + off
	}
	if s.pos < 0 {
		s.pos = 0
		return 0, errors.New("negative position")
	}
	return s.pos, nil
}

// c19OnceSink fails exactly one operation.
type c19OnceSink struct{ c19SeekSink }

func (s *c19OnceSink) Write(p []byte) (int, error) {
	if s.calls+1 == s.failAt {
		s.calls++
		return 0, s.err
	}
	f := s.failAt
	s.failAt = 0
	n, err := s.c19SeekSink.Write(p)
	s.failAt = f
	return n, err
}

func (s *c19OnceSink) Seek(off int64, whence int) (int64, error) {
	if s.calls+1 == s.failAt {
		s.calls++
		return s.pos, s.err
	}
	f := s.failAt
	s.failAt = 0
	n, err := s.c19SeekSink.Seek(off, whence)
	s.failAt = f
	return n, err
}

func TestB2C19WriteFaults(t *testing.T) {
	cases := 0
	injected := errors.New("injected sink failure")
	run := func(sink io.Writer, v Version) error {
		w, err := NewWriter(sink, v, nil)
		if err != nil {
			return err
		}
		var firstErr error
		note := func(err error) {
			if err != nil && firstErr == nil {
				firstErr = err
			}
		}
		a := w.Alloc()
		w.GetMeta().Catalog.Pages = a
		note(w.Put(a, Dict{"Type": Name("Pages"), "Kids": Array{}, "Count": Integer(0)}))
		r := []Reference{w.Alloc(), w.Alloc()}
		note(w.WriteCompressed(r, String("one"), Array{Integer(2)}))
		s := w.Alloc()
		if sw, err := w.OpenStream(s, Dict{}, FilterFlate{}); err != nil {
			note(err)
		} else {
			_, err = sw.Write(c02Data(20000, 0))
			note(err)
			note(sw.Close())
		}
		note(w.Put(w.Alloc(), String(bytes.Repeat([]byte("x"), 9000))))
		// streams long enough that their /Length is patched in on a seekable sink
		for _, n := range []int{3000, 70000} {
			if sw, err := w.OpenStream(w.Alloc(), Dict{}); err != nil {
				note(err)
			} else {
				_, err = sw.Write(c02Data(n, 1))
				note(err)
				note(sw.Close())
			}
		}
		note(w.Close())
		return firstErr
	}
	for _, v := range []Version{V1_4, V1_7} {
		base := &c19Sink{}
		if err := run(base, v); err != nil {
			t.Errorf("B2-FAIL baseline-write: %v", err)
			continue
		}
		for k := 1; k <= base.calls; k++ {
			cases++
			sink := &c19Sink{failAt: k, err: injected}
			err := run(sink, v)
			if err == nil || !errors.Is(err, injected) {
				t.Errorf("B2-FAIL sink-error-lost version=%v k=%d: %v", v, k, err)
			}
		}
		// the same script on a seekable sink (stream lengths are patched in place)
		sbase := &c19SeekSink{}
		if err := run(sbase, v); err != nil {
			t.Errorf("B2-FAIL baseline-write seekable: %v", err)
			continue
		}
		if _, err := c05Walk(bytes.NewReader(sbase.data), int64(len(sbase.data)), "", ErrorHandlingStop); err != nil {
			t.Errorf("B2-FAIL baseline-write seekable: file does not read back: %v", err)
		}
		for k := 1; k <= sbase.calls; k++ {
			cases++
			sink := &c19SeekSink{failAt: k, err: injected}
			err := run(sink, v)
			if err == nil || !errors.Is(err, injected) {
				t.Errorf("B2-FAIL sink-error-lost seekable version=%v k=%d: %v", v, k, err)
			}
		}
		// a single failing operation (later ones succeed) must be reported as well
		for k := 1; k <= sbase.calls; k++ {
			cases++
			sink := &c19OnceSink{c19SeekSink{failAt: k, err: injected}}
			err := run(sink, v)
			if err == nil || !errors.Is(err, injected) {
				t.Errorf("B2-FAIL sink-error-lost seekable-once version=%v k=%d: %v", v, k, err)
			}
		}
	}
	t.Logf("B2-CASES %d", cases)
}
