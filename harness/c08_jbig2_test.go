package pdf

// B2 bounded checks for C08, JBIG2 part: structurally generated segment sequences (ITU-T T.88 7.2, 7.4)
// for the JBIG2Decode filter (labelled bounded, never counted as proved).

import (
	"bytes"
	"encoding/binary"
	"fmt"
	"io"
	"math/rand"
	"runtime"
	"runtime/debug"
	"strings"
	"sync/atomic"
	"testing"
	"time"

	"seehuhn.de/go/membudget"
)

// JBIG2 segment types (T.88 7.3).
const (
	c08jGenInter  = 36
	c08jGenImm    = 38
	c08jGenImmLL  = 39
	c08jRefInter  = 40
	c08jRefImm    = 42
	c08jRefImmLL  = 43
	c08jPageInfo  = 48
	c08jEndPage   = 49
	c08jEndStripe = 50
	c08jEndFile   = 51
)

// c08jSeg is one segment of an embedded JBIG2 stream.
type c08jSeg struct {
	num     uint32
	typ     byte
	refs    []uint32
	retain  byte   // retain bits (short form only)
	page    uint32 // page association
	page4   bool   // 4-byte page association field
	longRef bool   // long form of the referred-to count even if count <= 4
	unknown bool   // data length 0xFFFFFFFF
	data    []byte
}

// encode writes the segment header (T.88 7.2.2 to 7.2.7) and data.
func (s c08jSeg) encode(buf []byte) []byte {
	buf = binary.BigEndian.AppendUint32(buf, s.num)
	fl := s.typ & 0x3f
	if s.page4 || s.page > 255 {
		fl |= 0x40
	}
	buf = append(buf, fl)
	n := len(s.refs)
	if n <= 4 && !s.longRef {
		buf = append(buf, byte(n)<<5|s.retain&0x1f)
	} else {
		buf = binary.BigEndian.AppendUint32(buf, 7<<29|uint32(n))
		buf = append(buf, make([]byte, (n+1+7)/8)...)
	}
	for _, r := range s.refs {
		switch {
		case s.num <= 256:
			buf = append(buf, byte(r))
		case s.num <= 65536:
			buf = binary.BigEndian.AppendUint16(buf, uint16(r))
		default:
			buf = binary.BigEndian.AppendUint32(buf, r)
		}
	}
	if fl&0x40 != 0 {
		buf = binary.BigEndian.AppendUint32(buf, s.page)
	} else {
		buf = append(buf, byte(s.page))
	}
	if s.unknown {
		buf = binary.BigEndian.AppendUint32(buf, 0xFFFFFFFF)
	} else {
		buf = binary.BigEndian.AppendUint32(buf, uint32(len(s.data)))
	}
	return append(buf, s.data...)
}

func c08jStream(segs []c08jSeg) []byte {
	var buf []byte
	for _, s := range segs {
		buf = s.encode(buf)
	}
	return buf
}

// c08jPage: page information segment data (T.88 7.4.8).
func c08jPage(w, h uint32, flags byte, striping uint16) []byte {
	var b []byte
	b = binary.BigEndian.AppendUint32(b, w)
	b = binary.BigEndian.AppendUint32(b, h)
	b = append(b, make([]byte, 8)...)
	b = append(b, flags)
	return binary.BigEndian.AppendUint16(b, striping)
}

// c08jRegion: region segment information field (T.88 7.4.1).
func c08jRegion(w, h, x, y uint32, comb byte) []byte {
	var b []byte
	b = binary.BigEndian.AppendUint32(b, w)
	b = binary.BigEndian.AppendUint32(b, h)
	b = binary.BigEndian.AppendUint32(b, x)
	b = binary.BigEndian.AppendUint32(b, y)
	return append(b, comb)
}

// c08jGeneric: generic region segment data (T.88 7.4.6): template 0..3, MMR, TPGDON, nominal AT pixels.
func c08jGeneric(w, h, x, y uint32, comb byte, template int, mmr, tpgd bool, body []byte) []byte {
	b := c08jRegion(w, h, x, y, comb)
	fl := byte(template&3) << 1
	if mmr {
		fl |= 1
	}
	if tpgd {
		fl |= 8
	}
	b = append(b, fl)
	if !mmr {
		if template&3 == 0 {
			b = append(b, 3, 0xff, 0xfd, 0xff, 2, 0xfe, 0xfe, 0xfe)
		} else if template&3 == 1 {
			b = append(b, 3, 0xff)
		} else {
			b = append(b, 2, 0xff)
		}
	}
	return append(b, body...)
}

// c08jRefine: generic refinement region segment data (T.88 7.4.7).
func c08jRefine(w, h, x, y uint32, comb byte, template int, tpgr bool, body []byte) []byte {
	b := c08jRegion(w, h, x, y, comb)
	fl := byte(template & 1)
	if tpgr {
		fl |= 2
	}
	b = append(b, fl)
	if template&1 == 0 {
		b = append(b, 0xff, 0xff, 0xff, 0xff)
	}
	return append(b, body...)
}

func c08jBytes(w, h uint32) int64 { return (int64(w) + 7) / 8 * int64(h) }

// c08jBodies: coded data where a real body is hard to produce: empty, a terminated arithmetic stream,
// marker bytes, MMR end-of-block, zeros, random bytes.
func c08jBody(rng *rand.Rand) []byte {
	switch rng.Intn(7) {
	case 0:
		return nil
	case 1:
		return []byte{0x00, 0x00, 0xff, 0xac}
	case 2:
		return []byte{0xff, 0xff, 0xff, 0xff, 0xff, 0xac}
	case 3:
		return []byte{0x00, 0x10, 0x01} // MMR EOFB
	case 4:
		return make([]byte, 1+rng.Intn(8))
	default:
		b := make([]byte, 1+rng.Intn(24))
		rng.Read(b)
		return b
	}
}

// c08jCase is a generated stream with what a straightforward decoder has to allocate for it in total
// (page, one bitmap per region, a copy of the page area for refinements of the page).
type c08jCase struct {
	desc  string
	segs  []c08jSeg
	total int64
}

func (c *c08jCase) add(s c08jSeg) { c.segs = append(c.segs, s) }

// c08jRun checks one case with c08Check.  The allocation criterion of c08Check counts every byte ever
// allocated; it is kept only where the sum of all bitmaps the stream describes stays within the budget
// (above that, c08jLive measures live memory instead).
var c08jReported int

func c08jRun(t *testing.T, c *c08jCase) c08Result {
	body := c08jStream(c.segs)
	res := c08Check(fmt.Sprintf("%s (%d bytes)", c.desc, len(body)), Dict{"Filter": Name("JBIG2Decode")}, body)
	strict := c.total <= c08DocBudget(int64(len(body)))
	for _, f := range res.fails {
		if strings.HasPrefix(f, "alloc ") && !strict {
			continue
		}
		if c08jReported++; c08jReported <= 60 { // (the first 60 are enough; the test has failed)
			t.Errorf("B2-FAIL %s", f)
		} else {
			t.Fail()
		}
	}
	return res
}

// c08jLive decodes body through MakeFilter/Filter.Decode with the documented budget while a sampler
// forces garbage collections and records the largest number of live heap bytes; returns the growth of
// the live heap over its value before the decode.
func c08jLive(body []byte) (peak int64, produced int64, err error, panicked any) {
	old := debug.SetGCPercent(20)
	defer debug.SetGCPercent(old)
	runtime.GC()
	var m runtime.MemStats
	runtime.ReadMemStats(&m)
	base := int64(m.HeapAlloc)
	var stop atomic.Bool
	done := make(chan int64)
	go func() {
		var mx int64
		var ms runtime.MemStats
		for !stop.Load() {
			runtime.GC()
			runtime.ReadMemStats(&ms)
			if v := int64(ms.HeapAlloc) - base; v > mx {
				mx = v
			}
			time.Sleep(time.Millisecond)
		}
		done <- mx
	}()
	func() {
		defer func() {
			if r := recover(); r != nil {
				panicked = r
			}
		}()
		var f Filter
		f, err = MakeFilter("JBIG2Decode", nil)
		if err != nil {
			return
		}
		var r io.ReadCloser
		r, err = f.Decode(V1_7, bytes.NewReader(body), membudget.New(c08DocBudget(int64(len(body)))))
		if err != nil {
			return
		}
		produced, err = io.Copy(io.Discard, r)
		r.Close()
	}()
	stop.Store(true)
	peak = <-done
	return
}

var c08jSizes = [][2]uint32{{1, 1}, {8, 8}, {9, 3}, {64, 64}, {1, 300}, {33, 1}}

// TestB2C08JBIG2Refs: one stored region (intermediate generic, intermediate refinement of the page, or
// an intermediate refinement of an intermediate generic region) referred to by 0..3 refinement regions
// of every type.
func TestB2C08JBIG2Refs(t *testing.T) {
	rng := rand.New(rand.NewSource(c06Seed() + 8001))
	goroutines := runtime.NumGoroutine()
	cases := 0
	var seqs [][]byte
	for k := 0; k <= 3; k++ {
		n := 1
		for i := 0; i < k; i++ {
			n *= 3
		}
		for code := 0; code < n; code++ {
			var seq []byte
			for i, c := 0, code; i < k; i, c = i+1, c/3 {
				seq = append(seq, []byte{c08jRefInter, c08jRefImm, c08jRefImmLL}[c%3])
			}
			seqs = append(seqs, seq)
		}
	}
	pages := [][2]uint32{{1, 1}, {8, 8}, {64, 64}}
	numBases := []uint32{0, 250, 300, 70000}
	decoded := 0
	for kind := 0; kind < 3; kind++ {
		for _, seq := range seqs {
			for si, size := range c08jSizes {
				for _, pg := range pages {
					w, h := size[0], size[1]
					c := &c08jCase{desc: fmt.Sprintf("stored#%d refs%v region %dx%d page %dx%d", kind, seq, w, h, pg[0], pg[1])}
					num := numBases[rng.Intn(len(numBases))]
					next := func() uint32 { num++; return num }
					c.add(c08jSeg{num: next(), typ: c08jPageInfo, page: 1, data: c08jPage(pg[0], pg[1], byte(rng.Intn(2))*4, 0)})
					c.total = c08jBytes(pg[0], pg[1])
					hdr := func(typ byte, refs []uint32, data []byte) c08jSeg {
						return c08jSeg{num: next(), typ: typ, refs: refs, retain: byte(rng.Intn(32)) * byte(rng.Intn(2)), page: 1, page4: rng.Intn(4) == 0, longRef: rng.Intn(6) == 0, data: data}
					}
					var stored uint32
					switch kind {
					case 0:
						s := hdr(c08jGenInter, nil, c08jGeneric(w, h, 0, 0, 0, rng.Intn(4), rng.Intn(4) == 0, rng.Intn(2) == 0, c08jBody(rng)))
						c.add(s)
						stored = s.num
						c.total += c08jBytes(w, h)
					case 1:
						s := hdr(c08jRefInter, nil, c08jRefine(w, h, 0, 0, 0, rng.Intn(2), rng.Intn(2) == 0, c08jBody(rng)))
						c.add(s)
						stored = s.num
						c.total += 2 * c08jBytes(w, h)
					case 2:
						s := hdr(c08jGenInter, nil, c08jGeneric(w, h, 0, 0, 0, rng.Intn(4), false, false, c08jBody(rng)))
						c.add(s)
						s2 := hdr(c08jRefInter, []uint32{s.num}, c08jRefine(w, h, 0, 0, 0, rng.Intn(2), false, c08jBody(rng)))
						c.add(s2)
						stored = s2.num
						if rng.Intn(2) == 0 {
							stored = s.num // the first of the chain is referred to again
						}
						c.total += 2 * c08jBytes(w, h)
					}
					for _, typ := range seq {
						rw, rh := w, h
						if rng.Intn(4) == 0 { // size differs from that of the reference
							o := c08jSizes[(si+1+rng.Intn(len(c08jSizes)-1))%len(c08jSizes)]
							rw, rh = o[0], o[1]
						}
						c.add(hdr(typ, []uint32{stored}, c08jRefine(rw, rh, uint32(rng.Intn(3)), uint32(rng.Intn(3)), byte(rng.Intn(5)), rng.Intn(2), rng.Intn(3) == 0, c08jBody(rng))))
						c.total += c08jBytes(rw, rh)
					}
					if rng.Intn(2) == 0 {
						c.add(c08jSeg{num: next(), typ: c08jEndPage, page: 1})
					}
					cases++
					if res := c08jRun(t, c); res.err == nil {
						decoded++
						if want := c08jBytes(pg[0], pg[1]); res.produced != want {
							t.Errorf("B2-FAIL jbig2-output-size %s: %d bytes produced, page of %dx%d has %d", c.desc, res.produced, pg[0], pg[1], want)
						}
					}
				}
			}
		}
	}
	if decoded < cases/4 {
		t.Errorf("B2-FAIL jbig2-generator only %d of %d well-formed reference structures decode", decoded, cases)
	}
	c08Goroutines(t, goroutines)
	t.Logf("B2-CASES %d (%d decoded without error)", cases, decoded)
}

// TestB2C08JBIG2Graphs: random segment sequences: any of the generic and refinement region types,
// references to earlier, later, missing segments, to itself, to segments without a bitmap, several
// references, wrong page associations, missing, late and repeated page information, unknown page height
// with end-of-stripe segments, unknown data length, end of page and end of file anywhere.
func TestB2C08JBIG2Graphs(t *testing.T) {
	rng := rand.New(rand.NewSource(c06Seed() + 8002))
	goroutines := runtime.NumGoroutine()
	n := 3000
	if b2Thorough() {
		n = 40000
	}
	types := []byte{c08jGenInter, c08jGenInter, c08jGenImm, c08jGenImmLL, c08jRefInter, c08jRefInter, c08jRefImm, c08jRefImm, c08jRefImmLL, c08jEndStripe, c08jEndPage, c08jEndFile, c08jPageInfo, 0, 62}
	decoded := 0
	for i := 0; i < n; i++ {
		c := &c08jCase{desc: fmt.Sprintf("graph#%d", i)}
		hostile := rng.Intn(3) == 0 // else: only earlier region segments are referred to, page associations right
		pw, ph := uint32(1+rng.Intn(70)), uint32(1+rng.Intn(70))
		base := []uint32{0, 0, 0, 254, 65534}[rng.Intn(5)]
		var nums []uint32
		num := base
		stripes := false
		if !(hostile && rng.Intn(6) == 0) {
			num++
			height, striping := ph, uint16(0)
			if rng.Intn(8) == 0 {
				height, striping = 0xFFFFFFFF, 0x8000|uint16(1+rng.Intn(64))
				stripes = true
			}
			c.add(c08jSeg{num: num, typ: c08jPageInfo, page: 1, data: c08jPage(pw, height, byte(rng.Intn(128)), striping)})
			c.total += c08jBytes(pw, ph)
		}
		count := 1 + rng.Intn(8)
		var desc []string
		for j := 0; j < count; j++ {
			num++
			if hostile && rng.Intn(10) == 0 {
				num += uint32(rng.Intn(300))
			}
			typ := types[rng.Intn(len(types)-6)]
			if hostile || rng.Intn(8) == 0 {
				typ = types[rng.Intn(len(types))]
			}
			s := c08jSeg{num: num, typ: typ, page: 1}
			w, h := uint32(1+rng.Intn(70)), uint32(1+rng.Intn(70))
			if rng.Intn(3) == 0 {
				sz := c08jSizes[rng.Intn(len(c08jSizes))]
				w, h = sz[0], sz[1]
			}
			switch typ {
			case c08jGenInter, c08jGenImm, c08jGenImmLL:
				s.data = c08jGeneric(w, h, uint32(rng.Intn(8)), uint32(rng.Intn(8)), byte(rng.Intn(5)), rng.Intn(4), rng.Intn(4) == 0, rng.Intn(3) == 0, c08jBody(rng))
				c.total += c08jBytes(w, h)
			case c08jRefInter, c08jRefImm, c08jRefImmLL:
				if len(nums) > 0 && rng.Intn(5) != 0 {
					r := nums[rng.Intn(len(nums))]
					s.refs = []uint32{r}
					if rng.Intn(3) != 0 { // same size as a stored region usually has
						for _, e := range c.segs {
							if e.num == r && len(e.data) >= 8 && e.typ != c08jPageInfo {
								w, h = binary.BigEndian.Uint32(e.data), binary.BigEndian.Uint32(e.data[4:])
							}
						}
					}
				}
				s.data = c08jRefine(w, h, uint32(rng.Intn(8)), uint32(rng.Intn(8)), byte(rng.Intn(5)), rng.Intn(2), rng.Intn(3) == 0, c08jBody(rng))
				c.total += 2 * c08jBytes(w, h)
			case c08jEndStripe:
				s.data = binary.BigEndian.AppendUint32(nil, uint32(rng.Intn(80)))
			case c08jPageInfo:
				s.data = c08jPage(uint32(rng.Intn(80)), uint32(rng.Intn(80)), byte(rng.Intn(256)), uint16(rng.Intn(1<<16)))
				c.total += c08jBytes(80, 80)
			default:
				s.data = c08jBody(rng)
			}
			if hostile {
				switch rng.Intn(12) {
				case 0:
					s.refs = []uint32{num} // itself
				case 1:
					s.refs = []uint32{num + 1 + uint32(rng.Intn(3))} // later
				case 2:
					s.refs = []uint32{base + 1} // the page information
				case 3:
					s.refs = []uint32{uint32(rng.Intn(1 << 17))}
				case 4:
					for k := rng.Intn(9); k > 0 && len(nums) > 0; k-- {
						s.refs = append(s.refs, nums[rng.Intn(len(nums))])
					}
				case 5:
					s.page = []uint32{0, 2, 255, 256, 1 << 31}[rng.Intn(5)]
				case 6:
					s.unknown = true
				case 7:
					if len(s.data) > 0 {
						s.data = s.data[:rng.Intn(len(s.data))]
					}
				}
			}
			s.page4 = rng.Intn(5) == 0
			s.longRef = rng.Intn(8) == 0
			s.retain = byte(rng.Intn(32)) * byte(rng.Intn(2))
			c.add(s)
			nums = append(nums, num)
			desc = append(desc, fmt.Sprintf("%d:%d%v", s.num, s.typ, s.refs))
		}
		if stripes && rng.Intn(4) != 0 {
			num++
			c.add(c08jSeg{num: num, typ: c08jEndStripe, page: 1, data: binary.BigEndian.AppendUint32(nil, ph-1)})
		}
		c.desc += " " + strings.Join(desc, " ")
		if res := c08jRun(t, c); res.err == nil {
			decoded++
		}
	}
	if decoded < n/10 {
		t.Errorf("B2-FAIL jbig2-generator only %d of %d generated sequences decode", decoded, n)
	}
	c08Goroutines(t, goroutines)
	t.Logf("B2-CASES %d (%d decoded without error)", n, decoded)
}

// TestB2C08JBIG2Budget: n stored regions, each referred to by r refinement regions, with region sizes
// from small up to sizes whose total exceeds the per-stream budget: besides the criteria of c08Check, the
// live heap during the decode (sampled after forced collections) stays within the documented budget
// (plus one half and 1 MiB for what the collector sees late).
func TestB2C08JBIG2Budget(t *testing.T) {
	goroutines := runtime.NumGoroutine()
	cases := 0
	type geom struct{ w, h uint32 }
	// (regions of 16 Mi pixels are left out: three of them take 3 s of CPU time, see TestB2C08Hostile for time)
	geoms := []geom{{1, 1 << 20}, {1, 4 << 20}}
	if b2Thorough() {
		geoms = append(geoms, geom{1, 1 << 16}, geom{64, 1 << 16}, geom{1, 3 << 20}, geom{2048, 2048}, geom{16, 1 << 18}, geom{1, 4<<20 + 1})
	}
	for _, g := range geoms {
		for _, n := range []int{1, 3, 6, 8} {
			for _, r := range []int{0, 1, 2} {
				if !b2Thorough() && !(n == 1 && r == 2 || n == 3 && r == 1 || n == 6 && r < 2) {
					continue
				}
				// Observation (not judged): sequences with more than about 60 Mi region pixels in total
				// run until the decoder's work limit (64 Mi pixels + 4096 per byte) and then take about
				// 3 s of CPU time for a body of some 600 bytes.  The decode time is proportional to the
				// pixels described, so sequences of more than 16 Mi pixels (about 0.8 s) are left out
				// here to keep the 3 s bound of c08Check well clear of the clean tree.
				if int64(n)*int64(1+r)*int64(g.w)*int64(g.h) > 16<<20 {
					continue
				}
				for _, typ := range []byte{c08jRefImm, c08jRefInter} {
					if typ == c08jRefInter && (r == 0 || !b2Thorough() && n != 6) {
						continue
					}
					c := &c08jCase{desc: fmt.Sprintf("budget %d stored regions of %dx%d, each refined %d times by type %d", n, g.w, g.h, r, typ)}
					c.add(c08jSeg{num: 0, typ: c08jPageInfo, page: 1, data: c08jPage(1, 1, 0, 0)})
					num := uint32(0)
					for i := 0; i < n; i++ {
						num++
						st := num
						c.add(c08jSeg{num: st, typ: c08jGenInter, page: 1, data: c08jGeneric(g.w, g.h, 0, 0, 0, 1, false, false, []byte{0, 0, 0xff, 0xac})})
						c.total += c08jBytes(g.w, g.h)
						for k := 0; k < r; k++ {
							num++
							c.add(c08jSeg{num: num, typ: typ, refs: []uint32{st}, page: 1, data: c08jRefine(g.w, g.h, 0, 0, 0, 1, false, []byte{0, 0, 0xff, 0xac})})
							c.total += c08jBytes(g.w, g.h)
						}
					}
					cases++
					res := c08jRun(t, c)
					body := c08jStream(c.segs)
					budget := c08DocBudget(int64(len(body)))
					if c.total <= budget/2 {
						// guard against a vacuous sweep (not part of C08; the decoder may cap single bitmaps)
						if res.err != nil && c08jBytes(g.w, g.h) <= 1<<20 {
							t.Errorf("B2-FAIL jbig2-generator %s: %s although all bitmaps together have %d bytes, budget %d", c.desc, b2ShortErr(res.err), c.total, budget)
						}
						continue
					}
					peak, _, err, p := c08jLive(body)
					if p != nil {
						t.Errorf("B2-FAIL panic %s: %v", c.desc, p)
					}
					if err != nil && !IsMalformed(err) {
						t.Errorf("B2-FAIL error-class %s: %s", c.desc, b2ShortErr(err))
					}
					if peak > budget+budget/2+1<<20 {
						t.Errorf("B2-FAIL live-memory %s: %d bytes live during the decode of %d bytes, documented budget %d (err=%s)", c.desc, peak, len(body), budget, b2ShortErr(err))
					}
				}
			}
		}
	}
	c08Goroutines(t, goroutines)
	t.Logf("B2-CASES %d", cases)
}
