package pdf

// B2 bounded checks for C09 and C10 (labelled bounded, never counted as proved).
// The standard security handler is re-implemented here from ISO 32000-2, 7.6
// (Algorithms 1, 2, 2.A, 2.B, 3-7, 11-13), independently of crypto.go.

import (
	"bytes"
	"compress/zlib"
	"crypto/aes"
	"crypto/cipher"
	"crypto/md5"
	"crypto/rc4"
	"crypto/sha256"
	"crypto/sha512"
	"errors"
	"fmt"
	"io"
	"math/big"
	"os"
	"sort"
	"strings"
	"testing"

	"seehuhn.de/go/xmp"
)

var isoPad = []byte{0x28, 0xBF, 0x4E, 0x5E, 0x4E, 0x75, 0x8A, 0x41, 0x64, 0x00, 0x4E, 0x56, 0xFF, 0xFA, 0x01, 0x08,
	0x2E, 0x2E, 0x00, 0xB6, 0xD0, 0x68, 0x3E, 0x80, 0x2F, 0x0C, 0xA9, 0xFE, 0x64, 0x53, 0x69, 0x7A}

func isoPadPwd(p string) []byte {
	b := append([]byte(p), isoPad...)
	return b[:32]
}

type isoEnc struct {
	V, R, keyBytes int
	O, U, OE, UE   []byte
	Perms          []byte
	P              uint32
	ID0            []byte
	encMeta        bool
	aes            bool
}

func isoRC4(key, data []byte) []byte {
	c, _ := rc4.NewCipher(key)
	out := make([]byte, len(data))
	c.XORKeyStream(out, data)
	return out
}

// Algorithm 2
func (e *isoEnc) fileKeyFromUser(pwd string) []byte {
	h := md5.New()
	h.Write(isoPadPwd(pwd))
	h.Write(e.O[:32])
	h.Write([]byte{byte(e.P), byte(e.P >> 8), byte(e.P >> 16), byte(e.P >> 24)})
	h.Write(e.ID0)
	if e.R >= 4 && !e.encMeta {
		h.Write([]byte{0xff, 0xff, 0xff, 0xff})
	}
	k := h.Sum(nil)
	if e.R >= 3 {
		for i := 0; i < 50; i++ {
			s := md5.Sum(k[:e.keyBytes])
			k = s[:]
		}
	}
	return k[:e.keyBytes]
}

// Algorithms 4 and 5
func (e *isoEnc) computeU(key []byte) []byte {
	if e.R == 2 {
		return isoRC4(key, isoPad)
	}
	h := md5.New()
	h.Write(isoPad)
	h.Write(e.ID0)
	u := isoRC4(key, h.Sum(nil))
	for i := 1; i <= 19; i++ {
		k := make([]byte, len(key))
		for j := range key {
			k[j] = key[j] ^ byte(i)
		}
		u = isoRC4(k, u)
	}
	return u
}

func (e *isoEnc) ownerRC4Key(owner string) []byte {
	s := md5.Sum(isoPadPwd(owner))
	k := s[:]
	if e.R >= 3 {
		for i := 0; i < 50; i++ {
			s = md5.Sum(k)
			k = s[:]
		}
	}
	return k[:e.keyBytes]
}

// Algorithm 3
func (e *isoEnc) computeO(owner, user string) []byte {
	if owner == "" {
		owner = user
	}
	key := e.ownerRC4Key(owner)
	o := isoRC4(key, isoPadPwd(user))
	if e.R >= 3 {
		for i := 1; i <= 19; i++ {
			k := make([]byte, len(key))
			for j := range key {
				k[j] = key[j] ^ byte(i)
			}
			o = isoRC4(k, o)
		}
	}
	return o
}

// Algorithm 2.B
func isoHash2B(pwd, salt, udata []byte) []byte {
	k := sha256.Sum256(append(append(append([]byte{}, pwd...), salt...), udata...))
	K := k[:]
	for round := 0; ; round++ {
		k1 := bytes.Repeat(append(append(append([]byte{}, pwd...), K...), udata...), 64)
		blk, _ := aes.NewCipher(K[:16])
		E := make([]byte, len(k1))
		cipher.NewCBCEncrypter(blk, K[16:32]).CryptBlocks(E, k1)
		mod := new(big.Int).Mod(new(big.Int).SetBytes(E[:16]), big.NewInt(3)).Int64()
		switch mod {
		case 0:
			s := sha256.Sum256(E)
			K = s[:]
		case 1:
			s := sha512.Sum384(E)
			K = s[:]
		default:
			s := sha512.Sum512(E)
			K = s[:]
		}
		// "round number" counts the rounds done so far (qpdf, MuPDF and Adobe agree): after
		// at least 64 rounds stop as soon as the last byte of E is <= rounds - 32
		if done := round + 1; done >= 64 && int(E[len(E)-1]) <= done-32 {
			break
		}
	}
	return K[:32]
}

func isoAESCBCNoPad(key, iv, data []byte, decrypt bool) []byte {
	blk, _ := aes.NewCipher(key)
	out := make([]byte, len(data))
	if decrypt {
		cipher.NewCBCDecrypter(blk, iv).CryptBlocks(out, data)
	} else {
		cipher.NewCBCEncrypter(blk, iv).CryptBlocks(out, data)
	}
	return out
}

// authenticate returns the file key for pwd, trying it as user and as owner password.
func (e *isoEnc) authenticate(pwd string) (key []byte, owner bool, ok bool) {
	if e.R >= 5 {
		p := []byte(pwd)
		if len(p) > 127 {
			p = p[:127]
		}
		if bytes.Equal(isoHash2B(p, e.O[32:40], e.U[:48]), e.O[:32]) {
			k := isoHash2B(p, e.O[40:48], e.U[:48])
			return isoAESCBCNoPad(k, make([]byte, 16), e.OE, true), true, true
		}
		if bytes.Equal(isoHash2B(p, e.U[32:40], nil), e.U[:32]) {
			k := isoHash2B(p, e.U[40:48], nil)
			return isoAESCBCNoPad(k, make([]byte, 16), e.UE, true), false, true
		}
		return nil, false, false
	}
	tryUser := func(user string) ([]byte, bool) {
		k := e.fileKeyFromUser(user)
		u := e.computeU(k)
		if e.R == 2 {
			return k, bytes.Equal(u, e.U[:32])
		}
		return k, bytes.Equal(u[:16], e.U[:16])
	}
	// Algorithm 7
	ok2 := false
	ko := e.ownerRC4Key(pwd)
	u := append([]byte{}, e.O[:32]...)
	if e.R == 2 {
		u = isoRC4(ko, u)
	} else {
		for i := 19; i >= 0; i-- {
			k := make([]byte, len(ko))
			for j := range ko {
				k[j] = ko[j] ^ byte(i)
			}
			u = isoRC4(k, u)
		}
	}
	// u is the padded user password
	{
		h := md5.New()
		h.Write(u)
		h.Write(e.O[:32])
		h.Write([]byte{byte(e.P), byte(e.P >> 8), byte(e.P >> 16), byte(e.P >> 24)})
		h.Write(e.ID0)
		if e.R >= 4 && !e.encMeta {
			h.Write([]byte{0xff, 0xff, 0xff, 0xff})
		}
		k := h.Sum(nil)
		if e.R >= 3 {
			for i := 0; i < 50; i++ {
				s := md5.Sum(k[:e.keyBytes])
				k = s[:]
			}
		}
		k = k[:e.keyBytes]
		cu := e.computeU(k)
		if (e.R == 2 && bytes.Equal(cu, e.U[:32])) || (e.R >= 3 && bytes.Equal(cu[:16], e.U[:16])) {
			key, ok2 = k, true
		}
	}
	if ok2 {
		return key, true, true
	}
	if k, ok := tryUser(pwd); ok {
		return k, false, true
	}
	return nil, false, false
}

// Algorithm 1 / 1.A
func (e *isoEnc) decrypt(key []byte, ref Reference, data []byte) ([]byte, error) {
	k := key
	if e.R < 5 {
		h := md5.New()
		h.Write(key)
		n, g := ref.Number(), ref.Generation()
		h.Write([]byte{byte(n), byte(n >> 8), byte(n >> 16), byte(g), byte(g >> 8)})
		if e.aes {
			h.Write([]byte("sAlT"))
		}
		k = h.Sum(nil)[:min(len(key)+5, 16)]
	}
	if !e.aes {
		return isoRC4(k, data), nil
	}
	if len(data) < 32 || len(data)%16 != 0 {
		return nil, fmt.Errorf("AES data of %d bytes", len(data))
	}
	out := isoAESCBCNoPad(k, data[:16], data[16:], true)
	pad := int(out[len(out)-1])
	if pad < 1 || pad > 16 {
		return nil, errors.New("bad PKCS#7 padding")
	}
	for _, b := range out[len(out)-pad:] {
		if int(b) != pad {
			return nil, errors.New("bad PKCS#7 padding")
		}
	}
	return out[:len(out)-pad], nil
}

func isoParse(data []byte) (*isoEnc, *FileInfo, error) {
	fi, err := SequentialScan(bytes.NewReader(data), int64(len(data)))
	if err != nil {
		return nil, nil, err
	}
	trailer, err := fi.getTrailer()
	if err != nil {
		return nil, nil, err
	}
	var encDict Dict
	switch x := trailer["Encrypt"].(type) {
	case Dict:
		encDict = x
	case Reference:
		obj, err := fi.Read(fi.findObject(x))
		if err != nil {
			return nil, nil, err
		}
		encDict, _ = obj.(Dict)
	}
	if encDict == nil {
		return nil, fi, nil
	}
	e := &isoEnc{encMeta: true}
	geti := func(d Dict, k Name) int { v, _ := d[k].(Integer); return int(v) }
	e.V, e.R = geti(encDict, "V"), geti(encDict, "R")
	e.keyBytes = 5
	if l := geti(encDict, "Length"); l > 0 {
		e.keyBytes = l / 8
	}
	e.P = uint32(int32(geti(encDict, "P")))
	s := func(k Name) []byte { v, _ := encDict[k].(String); return []byte(v) }
	e.O, e.U, e.OE, e.UE, e.Perms = s("O"), s("U"), s("OE"), s("UE"), s("Perms")
	if b, ok := encDict["EncryptMetadata"].(Boolean); ok {
		e.encMeta = bool(b)
	}
	if id, ok := trailer["ID"].(Array); ok && len(id) > 0 {
		v, _ := id[0].(String)
		e.ID0 = []byte(v)
	}
	if e.V >= 4 {
		if cf, ok := encDict["CF"].(Dict); ok {
			if std, ok := cf["StdCF"].(Dict); ok {
				switch std["CFM"] {
				case Name("AESV2"):
					e.aes, e.keyBytes = true, 16
				case Name("AESV3"):
					e.aes, e.keyBytes = true, 32
				case Name("V2"):
					if l := geti(std, "Length"); l > 0 {
						e.keyBytes = l
						if l > 40 {
							e.keyBytes = l / 8
						}
					}
				}
			}
		}
	}
	return e, fi, nil
}

func c09Strings(o Object, f func(String)) {
	switch x := o.(type) {
	case String:
		f(x)
	case Array:
		for _, e := range x {
			c09Strings(e, f)
		}
	case Dict:
		for _, k := range x.SortedKeys() {
			c09Strings(x[k], f)
		}
	}
}

func TestB2C10Independent(t *testing.T) {
	cases := 0
	marker := "plain string"
	for _, v := range []Version{V1_1, V1_3, V1_4, V1_5, V1_6, V1_7, V2_0} {
		for _, pw := range [][2]string{{"user", "owner"}, {"", "owner"}, {"only-user", ""}} {
			cases++
			doc, err := c02Write(v, false, false, pw[0], pw[1], cases)
			if err != nil {
				t.Errorf("B2-FAIL write-error v=%v %q: %v", v, pw, err)
				continue
			}
			desc := doc.desc
			e, fi, err := isoParse(doc.bytes)
			if err != nil || e == nil {
				t.Errorf("B2-FAIL iso-parse %s: %v", desc, err)
				continue
			}
			var key []byte
			for _, p := range pw {
				if p == "" && pw[0] != "" {
					continue
				}
				k, _, ok := e.authenticate(p)
				if !ok {
					t.Errorf("B2-FAIL iso-authenticate %s password=%q R=%d", desc, p, e.R)
					continue
				}
				if key != nil && !bytes.Equal(key, k) {
					t.Errorf("B2-FAIL iso-key-mismatch %s", desc)
				}
				key = k
			}
			if _, _, ok := e.authenticate("wrong"); ok && pw[0] != "" {
				t.Errorf("B2-FAIL iso-wrong-accepted %s", desc)
			}
			if key == nil {
				continue
			}
			if e.R >= 6 {
				blk, _ := aes.NewCipher(key)
				pp := make([]byte, 16)
				blk.Decrypt(pp, e.Perms)
				if string(pp[9:12]) != "adb" || pp[0] != byte(e.P) || pp[1] != byte(e.P>>8) || pp[2] != byte(e.P>>16) || pp[3] != byte(e.P>>24) {
					t.Errorf("B2-FAIL iso-perms %s: %x", desc, pp)
				}
			}
			// no plaintext leaks
			if bytes.Contains(doc.bytes, []byte(marker)) || bytes.Contains(doc.bytes, []byte("twice (written)")) || bytes.Contains(doc.bytes, []byte("BT /F1 12 Tf")) {
				t.Errorf("B2-FAIL plaintext-leak %s", desc)
			}
			// decrypt every string and the unfiltered / Flate streams independently
			ivs := map[string]bool{}
			ciphertexts := map[string]Reference{}
			for ref, want := range doc.objects {
				fo := fi.findObject(ref)
				if fo == nil {
					continue // stored in an object stream: covered through the stream body below
				}
				raw, err := fi.Read(fo)
				if err != nil {
					t.Errorf("B2-FAIL iso-read %s ref=%v: %v", desc, ref, err)
					continue
				}
				var wantStrings, gotStrings []String
				c09Strings(want, func(s String) { wantStrings = append(wantStrings, s) })
				c09Strings(raw, func(s String) { gotStrings = append(gotStrings, s) })
				if len(wantStrings) != len(gotStrings) {
					t.Errorf("B2-FAIL iso-shape %s ref=%v", desc, ref)
					continue
				}
				for i, ct := range gotStrings {
					pt, err := e.decrypt(key, ref, ct)
					if err != nil || !bytes.Equal(pt, wantStrings[i]) {
						t.Errorf("B2-FAIL iso-string %s ref=%v want=%q got=%q err=%v", desc, ref, wantStrings[i], pt, err)
					}
					if e.aes && len(ct) >= 16 {
						iv := string(ct[:16])
						if ivs[iv] {
							t.Errorf("B2-FAIL iv-reuse %s ref=%v", desc, ref)
						}
						ivs[iv] = true
					}
					// (short RC4 ciphertexts of different objects coincide by chance: 1 in 256 per byte)
					if prev, dup := ciphertexts[string(ct)]; dup && prev != ref && len(ct) >= 8 {
						t.Errorf("B2-FAIL equal-ciphertexts %s refs %v %v", desc, prev, ref)
					}
					ciphertexts[string(ct)] = ref
				}
			}
			for _, s := range doc.streams {
				if len(s.filters) > 1 {
					continue
				}
				flate := false
				if len(s.filters) == 1 {
					if f, ok := s.filters[0].(FilterFlate); !ok || f.Predictor > 1 {
						continue
					}
					flate = true
				}
				fo := fi.findObject(s.ref)
				if fo == nil {
					t.Errorf("B2-FAIL iso-stream-missing %s ref=%v", desc, s.ref)
					continue
				}
				raw, err := fi.Read(fo)
				stm, ok := raw.(*Stream)
				if err != nil || !ok {
					t.Errorf("B2-FAIL iso-stream %s ref=%v: %v", desc, s.ref, err)
					continue
				}
				body, err := io.ReadAll(io.NewSectionReader(stm.data, stm.start, stm.length))
				if err != nil {
					t.Errorf("B2-FAIL iso-stream %s ref=%v: %v", desc, s.ref, err)
					continue
				}
				// the strings of the stream dictionary are encrypted under the stream's own key
				{
					var wantStrings, gotStrings []String
					c09Strings(s.dict, func(x String) { wantStrings = append(wantStrings, x) })
					c09Strings(stm.Dict, func(x String) { gotStrings = append(gotStrings, x) })
					if len(wantStrings) != len(gotStrings) {
						t.Errorf("B2-FAIL iso-shape %s stream dictionary ref=%v", desc, s.ref)
					} else {
						for i, ct := range gotStrings {
							pt, err := e.decrypt(key, s.ref, ct)
							if err != nil || !bytes.Equal(pt, wantStrings[i]) {
								t.Errorf("B2-FAIL iso-string %s stream dictionary ref=%v want=%q got=%q err=%v", desc, s.ref, wantStrings[i], pt, err)
							}
						}
					}
				}
				if len(body) == 0 && len(s.data) == 0 {
					continue
				}
				pt, err := e.decrypt(key, s.ref, body)
				if err == nil && flate {
					zr, zerr := zlib.NewReader(bytes.NewReader(pt))
					if zerr != nil {
						err = zerr
					} else {
						pt, err = io.ReadAll(zr)
					}
				}
				if err != nil || !bytes.Equal(pt, s.data) {
					t.Errorf("B2-FAIL iso-stream-data %s ref=%v len(want)=%d len(got)=%d err=%v", desc, s.ref, len(s.data), len(pt), err)
				}
			}
		}
	}
	t.Logf("B2-CASES %d", cases)
}

// TestB2C09LongPasswords: revision 6 passwords are cut at 127 bytes, also in the middle of a
// character; two passwords that differ only in that last byte are different passwords.
func TestB2C09LongPasswords(t *testing.T) {
	cases := 0
	prefix := strings.Repeat("a", 126)
	for _, pair := range [][2]string{{prefix + "\u00e9tail", prefix + "\u0451tail"}, {prefix + "\u00e9", prefix}, {prefix + "xy", prefix + "xz"}, {prefix + "x", prefix + "y"}} {
		cases++
		var buf bytes.Buffer
		w, err := NewWriter(&buf, V2_0, &WriterOptions{UserPassword: pair[0], OwnerPassword: "owner"})
		if err != nil {
			t.Errorf("B2-FAIL long-password setup: %v", err)
			continue
		}
		a := w.Alloc()
		w.GetMeta().Catalog.Pages = a
		w.Put(a, Dict{"Type": Name("Pages"), "Kids": Array{}, "Count": Integer(0)})
		w.Close()
		data := buf.Bytes()
		if _, err := NewReader(bytes.NewReader(data), int64(len(data)), &ReaderOptions{Password: pair[0]}); err != nil {
			t.Errorf("B2-FAIL long-password own password rejected (%d bytes): %v", len(pair[0]), err)
		}
		same := len(pair[0]) >= 127 && len(pair[1]) >= 127 && pair[0][:127] == pair[1][:127]
		_, err = NewReader(bytes.NewReader(data), int64(len(data)), &ReaderOptions{Password: pair[1]})
		if same && err != nil {
			t.Errorf("B2-FAIL long-password passwords equal in their first 127 bytes must both open the file: %v", err)
		}
		if !same && err == nil {
			t.Errorf("B2-FAIL long-password a password that differs within the first 127 bytes (lengths %d, %d) opens the file", len(pair[0]), len(pair[1]))
		}
	}
	t.Logf("B2-CASES %d", cases)
}

func TestB2C09Passwords(t *testing.T) {
	cases := 0
	for _, v := range []Version{V1_1, V1_2, V1_3, V1_4, V1_5, V1_6, V1_7, V2_0} {
		for _, pw := range [][2]string{{"user", "owner"}, {"", "owner"}, {"same", "same"}, {"only-user", ""}, {"üñí", "öwner"}, {"a-rather-long-user-password-beyond-32-bytes-0123456789", "o"}} {
			perms := []Perm{PermAll, 0, PermCopy, PermPrint, PermPrintDegraded, PermAnnotate, PermForms, PermModify, PermAssemble, PermPrint | PermModify}
			if b2Thorough() {
				perms = nil
				for p := Perm(0); p <= PermAll; p++ {
					perms = append(perms, p)
				}
			}
			for _, perm := range perms {
				cases++
				var buf bytes.Buffer
				w, err := NewWriter(&buf, v, &WriterOptions{UserPassword: pw[0], OwnerPassword: pw[1], UserPermissions: perm})
				if err != nil {
					t.Errorf("B2-FAIL writer v=%v: %v", v, err)
					continue
				}
				pages := w.Alloc()
				w.GetMeta().Catalog.Pages = pages
				w.Put(pages, Dict{"Type": Name("Pages"), "Kids": Array{}, "Count": Integer(0)})
				secret := w.Alloc()
				w.Put(secret, Dict{"S": String("the secret string"), "A": Array{String("another one")}})
				// the same String value written three times
				shared := String("a value that is written more than once")
				sh1, sh2 := w.Alloc(), w.Alloc()
				w.Put(sh1, shared)
				w.Put(sh2, Array{shared, shared})
				if string(shared) != "a value that is written more than once" {
					t.Errorf("B2-FAIL caller-value-modified v=%v: %q", v, shared)
				}
				sref := w.Alloc()
				sw, _ := w.OpenStream(sref, Dict{"Note": String("in the stream dict")}, FilterCompress{})
				// an object put while the stream is open (written after it)
				during := w.Alloc()
				w.Put(during, Array{String("put while the stream is open")})
				sw.Write(bytes.Repeat([]byte("secret stream data "), 80))
				sw.Close()
				if err := w.Close(); err != nil {
					t.Errorf("B2-FAIL close v=%v: %v", v, err)
					continue
				}
				data := buf.Bytes()
				desc := fmt.Sprintf("v=%v user=%q owner=%q perm=%07b", v, pw[0], pw[1], perm)
				open := func(p string) (*Reader, error) {
					return NewReader(bytes.NewReader(data), int64(len(data)), &ReaderOptions{Password: p})
				}
				content := func(r *Reader) error {
					obj, err := r.Get(secret, true)
					if err != nil || !Equal(obj, Dict{"S": String("the secret string"), "A": Array{String("another one")}}) {
						return fmt.Errorf("strings: %v %v", obj, err)
					}
					want := String("a value that is written more than once")
					if o1, err := r.Get(sh1, true); err != nil || !Equal(o1, want) {
						return fmt.Errorf("shared string, first copy: %v %v", o1, err)
					}
					if o2, err := r.Get(sh2, true); err != nil || !Equal(o2, Array{want, want}) {
						return fmt.Errorf("shared string, later copies: %v %v", o2, err)
					}
					if obj, err := r.Get(during, true); err != nil || !Equal(obj, Array{String("put while the stream is open")}) {
						return fmt.Errorf("object put during the stream: %v %v", obj, err)
					}
					so, err := r.Get(sref, true)
					stm, ok := so.(*Stream)
					if err != nil || !ok || !Equal(stm.Dict["Note"], String("in the stream dict")) {
						return fmt.Errorf("stream dict: %v %v", so, err)
					}
					rd, err := DecodeStream(r, nil, stm)
					if err != nil {
						return err
					}
					body, err := io.ReadAll(rd)
					if err != nil || !bytes.Equal(body, bytes.Repeat([]byte("secret stream data "), 80)) {
						return fmt.Errorf("stream data: %d bytes, %v", len(body), err)
					}
					return nil
				}
				closure := perm
				if perm&PermPrint != 0 {
					closure |= PermPrintDegraded
				}
				if perm&PermAnnotate != 0 {
					closure |= PermForms
				}
				if perm&PermModify != 0 {
					closure |= PermAssemble
				}
				// user password
				r, err := open(pw[0])
				if err != nil {
					t.Errorf("B2-FAIL user-open %s: %v", desc, err)
				} else {
					if err := content(r); err != nil {
						t.Errorf("B2-FAIL user-content %s: %v", desc, err)
					}
					got := r.GetMeta().Permissions
					ownerToo := pw[0] == pw[1] || (pw[1] == "" && true)
					if !ownerToo && got != closure && !(v <= V1_3 && !perm.canR2()) {
						t.Errorf("B2-FAIL user-permissions %s: got %07b want %07b", desc, got, closure)
					}
				}
				// owner password
				if pw[1] != "" {
					r, err := open(pw[1])
					if err != nil {
						t.Errorf("B2-FAIL owner-open %s: %v", desc, err)
					} else {
						if err := content(r); err != nil {
							t.Errorf("B2-FAIL owner-content %s: %v", desc, err)
						}
						if pw[0] != "" && r.GetMeta().Permissions != PermAll {
							t.Errorf("B2-FAIL owner-permissions %s: %07b", desc, r.GetMeta().Permissions)
						}
					}
				}
				// wrong and missing passwords
				if pw[0] != "" {
					// passwords that differ from both after the standard's preparation
					// (PDFDocEncoding, 32 bytes for revisions below 5)
					ru := []rune(pw[0])
					for _, wrong := range []string{"", "wrong", "x" + pw[0], string(ru[1:]), string(ru[:len(ru)/2])} {
						if wrong == pw[1] {
							continue
						}
						r, err := open(wrong)
						var ae *AuthenticationError
						if err == nil || !errors.As(err, &ae) {
							t.Errorf("B2-FAIL wrong-password-accepted %s password=%q: reader=%v err=%v", desc, wrong, r != nil, err)
						}
					}
				}
			}
		}
	}
	t.Logf("B2-CASES %d", cases)
}

// TestB2C10Hash compares the library's revision 6 password hash (Algorithm 2.B) with the
// independent implementation on 1500 deterministic inputs: the number of rounds depends on
// the data, so single files exercise only a few of the termination cases.
func TestB2C10Hash(t *testing.T) {
	cases := 0
	x := uint32(2463534242)
	next := func() byte {
		x ^= x << 13
		x ^= x >> 17
		x ^= x << 5
		return byte(x >> 7)
	}
	for i := 0; i < 1500; i++ {
		cases++
		pwd := make([]byte, i%41)
		for k := range pwd {
			pwd[k] = next()
		}
		salt := make([]byte, 8)
		for k := range salt {
			salt[k] = next()
		}
		var u []byte
		if i%2 == 1 {
			u = make([]byte, 48)
			for k := range u {
				u[k] = next()
			}
		}
		if got, want := slowHash(pwd, salt, u), isoHash2B(pwd, salt, u); !bytes.Equal(got, want) {
			t.Errorf("B2-FAIL hash-2B input #%d (password %d bytes, user key %d bytes): %x, independent implementation %x", i, len(pwd), len(u), got, want)
			if i > 200 {
				break
			}
		}
	}
	t.Logf("B2-CASES %d", cases)
}

// TestB2C10ForeignPadding: for revisions 3 and 4 only the first 16 bytes of /U are
// significant, the rest is arbitrary padding (Algorithm 5 step f): handlers whose /U carries
// non-zero padding, as other producers write it, must authenticate both passwords.
func TestB2C10ForeignPadding(t *testing.T) {
	cases := 0
	id := []byte("0123456789abcdef")
	for _, cfg := range []struct{ length, V int }{{128, 2}, {128, 4}, {40, 1}} {
		for pad := 0; pad < 4; pad++ {
			cases++
			sec, err := createStdSecHandler(id, "user", "owner", PermAll, cfg.length, cfg.V, false)
			if err != nil {
				t.Errorf("B2-FAIL foreign-padding setup V=%d: %v", cfg.V, err)
				continue
			}
			if sec.R >= 3 {
				for k := 16; k < 32; k++ {
					sec.U[k] = byte(pad * (k + 7))
				}
			}
			for _, pwd := range []string{"user", "owner"} {
				sec.key = nil
				if _, err := sec.authenticate(pwd); err != nil {
					t.Errorf("B2-FAIL foreign-padding V=%d R=%d padding #%d password %q: %v", cfg.V, sec.R, pad, pwd, err)
				}
			}
			sec.key = nil
			if _, err := sec.authenticate("wrong"); err == nil {
				t.Errorf("B2-FAIL foreign-padding V=%d R=%d: wrong password accepted", cfg.V, sec.R)
			}
		}
	}
	t.Logf("B2-CASES %d", cases)
}

// ---------------------------------------------------------------------------------------
// Wider object graphs, option combinations and passwords (C09 and C10), and files encrypted
// by the independent implementation (C10).

// isoPDFDoc encodes a password in PDFDocEncoding (ISO 32000-2, Annex D.2) for the
// characters used in this harness.
func isoPDFDoc(s string) string {
	var b []byte
	for _, r := range s {
		switch {
		case r == '€': // Euro
			b = append(b, 0xA0)
		case r == '•': // bullet
			b = append(b, 0x80)
		case r == 'Ł': // Lslash
			b = append(b, 0x95)
		case (r >= 0x20 && r < 0x7f) || (r >= 0xA1 && r <= 0xFF && r != 0xAD):
			b = append(b, byte(r))
		default:
			panic("isoPDFDoc: character outside the table of the harness")
		}
	}
	return string(b)
}

// isoPrep prepares a password for revision R: PDFDocEncoding for revisions 2-4 (Algorithm 2
// step a), UTF-8 for revision 6 (all passwords used here are fixed points of SASLprep; the
// cut at 127 bytes is made in authenticate / isoNewHandler).
func isoPrep(R int, pwd string) string {
	if R >= 5 {
		return pwd
	}
	return isoPDFDoc(pwd)
}

// Algorithm 1 step a-d: the key of one object
func (e *isoEnc) objKey(key []byte, ref Reference) []byte {
	if e.R >= 5 {
		return key
	}
	h := md5.New()
	h.Write(key)
	n, g := ref.Number(), ref.Generation()
	h.Write([]byte{byte(n), byte(n >> 8), byte(n >> 16), byte(g), byte(g >> 8)})
	if e.aes {
		h.Write([]byte("sAlT"))
	}
	return h.Sum(nil)[:min(len(key)+5, 16)]
}

// encrypt is Algorithm 1 / 1.A in the writing direction; iv is used for AES only.
func (e *isoEnc) encrypt(key []byte, ref Reference, data, iv []byte) []byte {
	k := e.objKey(key, ref)
	if !e.aes {
		return isoRC4(k, data)
	}
	pad := 16 - len(data)%16
	padded := append(append([]byte{}, data...), bytes.Repeat([]byte{byte(pad)}, pad)...)
	return append(append([]byte{}, iv...), isoAESCBCNoPad(k, iv, padded, false)...)
}

// c09Seed returns the seed of the randomised parts (VERIF_SEED, default 1).
func c09Seed() int64 {
	seed := int64(1)
	fmt.Sscanf(os.Getenv("VERIF_SEED"), "%d", &seed)
	return seed
}

// c10Seeds: one family of documents in the quick tier, four in the thorough tier.
func c10Seeds() []int64 {
	seed := c09Seed()
	if b2Thorough() {
		return []int64{seed, seed + 1000, seed + 2000, seed + 3000}
	}
	return []int64{seed}
}

type c10Rand struct{ x uint64 }

func c10NewRand(seed int64, salt int) *c10Rand {
	return &c10Rand{x: uint64(seed)*0x9E3779B97F4A7C15 + uint64(salt)*0xBF58476D1CE4E5B9 + 1}
}

func (r *c10Rand) next() uint64 {
	r.x ^= r.x << 13
	r.x ^= r.x >> 7
	r.x ^= r.x << 17
	return r.x
}

func (r *c10Rand) intn(n int) int { return int((r.next() >> 11) % uint64(n)) }

func (r *c10Rand) bytes(n int) []byte {
	b := make([]byte, n)
	for i := range b {
		b[i] = byte(r.next() >> 23)
	}
	return b
}

// isoNewHandler sets up the Encrypt dictionary entries for a new file (Algorithms 2-5 for
// revisions 2-4, Algorithms 8-10 for revision 6) and returns the file encryption key.
// The passwords must be prepared already.
func isoNewHandler(V, R, keyBytes int, useAES, encMeta bool, user, owner string, P uint32, id0 []byte, rnd *c10Rand) (*isoEnc, []byte) {
	e := &isoEnc{V: V, R: R, keyBytes: keyBytes, aes: useAES, encMeta: encMeta, P: P, ID0: id0}
	if R <= 4 {
		e.O = e.computeO(owner, user)
		key := e.fileKeyFromUser(user)
		e.U = e.computeU(key)
		if R >= 3 {
			e.U = append(e.U[:16:16], rnd.bytes(16)...) // arbitrary padding
		}
		return e, key
	}
	cut := func(s string) []byte {
		if len(s) > 127 {
			s = s[:127]
		}
		return []byte(s)
	}
	if owner == "" {
		owner = user
	}
	key := rnd.bytes(32)
	u, o := cut(user), cut(owner)
	salts := rnd.bytes(32)
	e.U = append(append(isoHash2B(u, salts[0:8], nil), salts[0:8]...), salts[8:16]...)
	e.UE = isoAESCBCNoPad(isoHash2B(u, salts[8:16], nil), make([]byte, 16), key, false)
	e.O = append(append(isoHash2B(o, salts[16:24], e.U), salts[16:24]...), salts[24:32]...)
	e.OE = isoAESCBCNoPad(isoHash2B(o, salts[24:32], e.U), make([]byte, 16), key, false)
	pp := []byte{byte(P), byte(P >> 8), byte(P >> 16), byte(P >> 24), 0xff, 0xff, 0xff, 0xff, 'T', 'a', 'd', 'b'}
	if !encMeta {
		pp[8] = 'F'
	}
	pp = append(pp, rnd.bytes(4)...)
	blk, _ := aes.NewCipher(key)
	e.Perms = make([]byte, 16)
	blk.Encrypt(e.Perms, pp)
	return e, key
}

// isoItem is one indirect object of a file written by the independent implementation.
type isoItem struct {
	ref      Reference
	obj      Object // for streams: the dictionary without /Length
	data     []byte
	isStream bool
	plain    bool // the data is exempt from encryption (metadata with /EncryptMetadata false, /Crypt /Identity)
}

func isoSerialize(b *bytes.Buffer, o Object, encStr func([]byte) []byte) {
	switch x := o.(type) {
	case nil:
		b.WriteString("null")
	case Boolean:
		fmt.Fprintf(b, "%v", bool(x))
	case Integer:
		fmt.Fprintf(b, "%d", int64(x))
	case Name:
		b.WriteString("/" + string(x))
	case String:
		fmt.Fprintf(b, "<%x>", encStr([]byte(x)))
	case Reference:
		fmt.Fprintf(b, "%d %d R", x.Number(), x.Generation())
	case Array:
		b.WriteString("[")
		for i, el := range x {
			if i > 0 {
				b.WriteString(" ")
			}
			isoSerialize(b, el, encStr)
		}
		b.WriteString("]")
	case Dict:
		b.WriteString("<<")
		for _, k := range x.SortedKeys() {
			b.WriteString("/" + string(k) + " ")
			isoSerialize(b, x[k], encStr)
			b.WriteString("\n")
		}
		b.WriteString(">>")
	default:
		panic(fmt.Sprintf("isoSerialize: %T", o))
	}
}

// isoBuild writes a complete file with a classic cross-reference table.
func (e *isoEnc) build(header string, key []byte, items []isoItem, root Reference, id1 []byte, rnd *c10Rand) []byte {
	var b bytes.Buffer
	b.WriteString("%PDF-" + header + "\n%\xe2\xe3\xcf\xd3\n")
	offs := map[uint32]int{}
	gens := map[uint32]uint16{}
	var nums []int
	for _, it := range items {
		offs[it.ref.Number()] = b.Len()
		gens[it.ref.Number()] = it.ref.Generation()
		nums = append(nums, int(it.ref.Number()))
		fmt.Fprintf(&b, "%d %d obj\n", it.ref.Number(), it.ref.Generation())
		encStr := func(s []byte) []byte { return e.encrypt(key, it.ref, s, rnd.bytes(16)) }
		if !it.isStream {
			isoSerialize(&b, it.obj, encStr)
		} else {
			body := it.data
			if !it.plain {
				body = e.encrypt(key, it.ref, it.data, rnd.bytes(16))
			}
			d := Dict{}
			for k, v := range it.obj.(Dict) {
				d[k] = v
			}
			d["Length"] = Integer(len(body))
			isoSerialize(&b, d, encStr)
			b.WriteString("\nstream\n")
			b.Write(body)
			b.WriteString("\nendstream")
		}
		b.WriteString("\nendobj\n")
	}
	sort.Ints(nums)
	xpos := b.Len()
	b.WriteString("xref\n0 1\n0000000000 65535 f\r\n")
	for i := 0; i < len(nums); {
		j := i
		for j+1 < len(nums) && nums[j+1] == nums[j]+1 {
			j++
		}
		fmt.Fprintf(&b, "%d %d\n", nums[i], j-i+1)
		for k := i; k <= j; k++ {
			fmt.Fprintf(&b, "%010d %05d n\r\n", offs[uint32(nums[k])], gens[uint32(nums[k])])
		}
		i = j + 1
	}
	enc := Dict{"Filter": Name("Standard"), "V": Integer(e.V), "R": Integer(e.R), "O": String(e.O), "U": String(e.U), "P": Integer(int32(e.P))}
	if e.V >= 2 {
		enc["Length"] = Integer(e.keyBytes * 8)
	}
	if e.V >= 4 {
		cfm := Name("V2")
		if e.aes {
			cfm = "AESV2"
			if e.V == 5 {
				cfm = "AESV3"
			}
		}
		enc["CF"] = Dict{"StdCF": Dict{"Type": Name("CryptFilter"), "CFM": cfm, "AuthEvent": Name("DocOpen"), "Length": Integer(e.keyBytes)}}
		enc["StmF"], enc["StrF"] = Name("StdCF"), Name("StdCF")
		if !e.encMeta {
			enc["EncryptMetadata"] = Boolean(false)
		}
	}
	if e.R >= 5 {
		enc["OE"], enc["UE"], enc["Perms"] = String(e.OE), String(e.UE), String(e.Perms)
	}
	trailer := Dict{"Size": Integer(nums[len(nums)-1] + 1), "Root": root, "Encrypt": enc, "ID": Array{String(e.ID0), String(id1)}}
	b.WriteString("trailer\n")
	isoSerialize(&b, trailer, func(s []byte) []byte { return s })
	fmt.Fprintf(&b, "\nstartxref\n%d\n%%%%EOF\n", xpos)
	return b.Bytes()
}

const c10MetaNS = "http://ns.adobe.com/pdf/1.3/"

func c10Packet(marker string) *xmp.Packet {
	p := xmp.NewPacket()
	if err := p.SetValue(c10MetaNS, "Keywords", xmp.NewText(marker)); err != nil {
		panic(err)
	}
	return p
}

func c10Keywords(p *xmp.Packet) string {
	if p == nil {
		return "<no packet>"
	}
	v, err := xmp.PacketGetValue[xmp.Text](p, c10MetaNS, "Keywords")
	if err != nil {
		return "<" + err.Error() + ">"
	}
	return v.V
}

// the password pairs of the wide tests; long selects those for revision 6 only
func c10Passwords(v Version) [][2]string {
	pw := [][2]string{{"user", "owner"}, {"", "owner"}, {"only-user", ""},
		{"üñí€", "öwner•Ł"},
		{strings.Repeat("p", 31) + "étail", "a-rather-long-owner-password-beyond-32-bytes-0123456789"}}
	if v >= V2_0 {
		a := func(n int) string { return strings.Repeat("a", n) }
		pw = append(pw,
			[2]string{a(126) + "étail", "owner"},            // 2-byte character across the cut
			[2]string{"user", a(125) + "€zz"},               // 3-byte character, 2 bytes kept
			[2]string{a(126) + "€", a(124) + "\U00020000x"}, // 3-byte, 1 byte kept; 4-byte, 3 kept
			[2]string{a(125) + "é", a(127) + "é"},           // exactly 127 bytes; cut on a boundary
		)
	}
	return pw
}

type c10Stream struct {
	ref      Reference
	dict     Dict
	data     []byte
	identity bool
	flate    bool
}

type c10Doc struct {
	desc     string
	bytes    []byte
	version  Version
	user     string
	owner    string
	perm     Perm
	objects  map[Reference]Object
	order    []Reference
	streams  []c10Stream
	metaMode int // 0: no metadata, 1: encrypted, 2: plain text (/EncryptMetadata false)
}

const c10MetaMarker = "B2META keywords of the document"

// c10Text returns n bytes of recognisable secret text.
func c10Text(n, salt int) []byte {
	s := fmt.Sprintf("SECRET%d:", salt)
	for len(s) < n {
		s += "abcdefghijklmnopqrstuvwxyz"
	}
	return []byte(s[:n])
}

// c10Write writes an encrypted document through the library: strings of every length
// around the AES block size (among them the empty string) in arrays, dictionaries, as
// top-level objects, in stream dictionaries and in compressed objects; streams of such
// lengths; streams exempt from encryption (/Crypt /Identity) with strings in their
// dictionaries; non-zero generations and (if high) an object number beyond 65535; document
// metadata absent, encrypted or in plain text.
func c10Write(v Version, user, owner string, perm Perm, metaMode int, high bool, variant int, seed int64) (*c10Doc, error) {
	rnd := c10NewRand(seed, variant)
	doc := &c10Doc{version: v, user: user, owner: owner, perm: perm, objects: map[Reference]Object{}, metaMode: metaMode}
	doc.desc = fmt.Sprintf("v=%v user=%.12q(%d) owner=%.12q(%d) perm=%07b meta=%d variant=%d", v, user, len(user), owner, len(owner), perm, metaMode, variant)
	// TODO-DEFECT (suspected, belongs to C02 rather than C09/C10): with a cross-reference
	// STREAM a small document holding one object number beyond about 20000 is refused by the
	// library's own Reader ("invalid cross-reference table": the Writer emits all entries up
	// to /Size, they compress to a few hundred bytes, and checkXRefStreamDict allows only
	// 8192 + 32 * (stored length) entries).  The documents with a high object number are
	// therefore written with a classic table (HumanReadable) in every version.
	opt := &WriterOptions{UserPassword: user, OwnerPassword: owner, UserPermissions: perm, HumanReadable: high}
	if metaMode > 0 {
		opt.DocumentMetadata = &MetadataStream{Data: c10Packet(c10MetaMarker), Plaintext: metaMode == 2}
	}
	var buf bytes.Buffer
	w, err := NewWriter(&buf, v, opt)
	if err != nil {
		return nil, fmt.Errorf("NewWriter: %w", err)
	}
	put := func(ref Reference, obj Object) error {
		doc.objects[ref] = obj
		doc.order = append(doc.order, ref)
		return w.Put(ref, obj)
	}
	nsalt := 0
	text := func(n int) String { nsalt++; return String(c10Text(n, nsalt)) }
	stream := func(ref Reference, dict Dict, data []byte, identity, flate, inDict bool) error {
		var filters []Filter
		given := dict
		if identity && inDict {
			// the filter is named by the caller's dictionary already
			given = Dict{"Filter": Name("Crypt")}
			for k, x := range dict {
				given[k] = x
			}
		} else if identity {
			filters = append(filters, FilterCryptIdentity{})
		}
		if flate {
			filters = append(filters, FilterFlate{})
		}
		sw, err := w.OpenStream(ref, given, filters...)
		if err != nil {
			return fmt.Errorf("OpenStream: %w", err)
		}
		if rnd.intn(3) == 0 {
			if err := put(w.Alloc(), Array{text(9 + rnd.intn(30)), String("")}); err != nil {
				return err
			}
		}
		for off := 0; off < len(data); {
			n := min(1+rnd.intn(700), len(data)-off)
			if _, err := sw.Write(data[off : off+n]); err != nil {
				return err
			}
			off += n
		}
		if err := sw.Close(); err != nil {
			return fmt.Errorf("stream close: %w", err)
		}
		doc.streams = append(doc.streams, c10Stream{ref, dict, data, identity, flate})
		return nil
	}
	sdict := func() Dict {
		return Dict{"Note": text(8 + rnd.intn(30)), "Empty": String(""), "Deep": Dict{"A": Array{String(""), text(16)}}}
	}
	gen := func() uint16 {
		return []uint16{1, 255, 256, 65534, uint16(1 + rnd.intn(65534))}[rnd.intn(5)]
	}
	visible := []byte("VISIBLE by request: the data of this stream is exempt from encryption\n")
	if v >= V1_5 && variant%2 == 0 {
		// an exempt stream as the first object of the body
		if err := stream(w.Alloc(), sdict(), visible, true, false, false); err != nil {
			return nil, err
		}
	}
	pages := w.Alloc()
	w.GetMeta().Catalog.Pages = pages
	if err := put(pages, Dict{"Type": Name("Pages"), "Kids": Array{}, "Count": Integer(0)}); err != nil {
		return nil, err
	}
	var arr Array
	for _, n := range []int{0, 1, 15, 16, 17, 31, 32, 33, 47 + rnd.intn(40)} {
		arr = append(arr, text(n))
	}
	if err := put(w.Alloc(), arr); err != nil {
		return nil, err
	}
	if err := put(w.Alloc(), Dict{"E": String(""), "D": Dict{"E2": String(""), "T": text(20)}, "A": Array{String(""), String("x"), Array{String("")}}}); err != nil {
		return nil, err
	}
	if err := put(w.Alloc(), String("")); err != nil {
		return nil, err
	}
	same := String("SECRET the same plaintext in two objects")
	for i := 0; i < 2; i++ {
		if err := put(w.Alloc(), Array{same}); err != nil {
			return nil, err
		}
	}
	for i := 0; i < 3; i++ {
		g := gen()
		if err := put(NewReference(w.Alloc().Number(), g), Dict{"Gen": Integer(g), "S": text(12 + rnd.intn(8)), "E": String("")}); err != nil {
			return nil, err
		}
	}
	// compressed objects (plain objects in versions without object streams)
	cr := []Reference{w.Alloc(), w.Alloc(), w.Alloc()}
	co := []Object{Dict{"S": text(18 + rnd.intn(20))}, String(""), Array{String(""), text(16)}}
	if err := w.WriteCompressed(cr, co...); err != nil {
		return nil, fmt.Errorf("WriteCompressed: %w", err)
	}
	for i, r := range cr {
		doc.objects[r] = co[i]
		doc.order = append(doc.order, r)
	}
	for i, n := range []int{0, 1, 15, 16, 17, 1000 + rnd.intn(100)} {
		ref := w.Alloc()
		if i%2 == 1 {
			ref = NewReference(ref.Number(), gen())
		}
		if err := stream(ref, sdict(), c10Text(n, 100+i), false, i%3 == 2 && v >= V1_2, false); err != nil {
			return nil, err
		}
	}
	if v >= V1_5 {
		if err := stream(NewReference(w.Alloc().Number(), gen()), sdict(), visible, true, false, false); err != nil {
			return nil, err
		}
		if err := stream(w.Alloc(), sdict(), bytes.Repeat(visible, 20), true, true, false); err != nil {
			return nil, err
		}
		if err := stream(w.Alloc(), sdict(), visible[:rnd.intn(len(visible))], true, false, true); err != nil {
			return nil, err
		}
	}
	if high {
		ref := NewReference(uint32(0x10203+rnd.intn(1000)), 0x0405)
		if err := put(ref, Array{text(16), String(""), text(5)}); err != nil {
			return nil, err
		}
		if err := stream(NewReference(ref.Number()+1, 0x0607), sdict(), c10Text(40, 200), false, false, false); err != nil {
			return nil, err
		}
	}
	if err := w.Close(); err != nil {
		return nil, fmt.Errorf("Close: %w", err)
	}
	doc.bytes = buf.Bytes()
	return doc, nil
}

// c10Plan lists the documents of the wide tests.
func c10Plan(f func(v Version, user, owner string, perm Perm, metaMode int, high bool, variant int)) {
	perms := []Perm{PermAll, PermCopy | PermPrint | PermPrintDegraded, 0, PermModify | PermAnnotate, PermForms | PermAssemble | PermCopy}
	variant := 0
	for _, v := range []Version{V1_1, V1_3, V1_4, V1_5, V1_6, V1_7, V2_0} {
		modes := []int{0}
		if v >= V1_4 {
			modes = append(modes, 1)
		}
		if v >= V1_6 {
			modes = append(modes, 2)
		}
		for i, pw := range c10Passwords(v) {
			for k, mode := range modes {
				// every metadata mode with the first two password pairs, one mode with the others
				if !b2Thorough() && i >= 2 && k != (i+variant)%len(modes) {
					continue
				}
				variant++
				f(v, pw[0], pw[1], perms[variant%len(perms)], mode, i == 0 && k == 0, variant)
			}
		}
	}
}

// TestB2C09Graph opens the documents of c10Write with the user password, the owner
// password and wrong passwords and compares every object, stream and the metadata.
func TestB2C09Graph(t *testing.T) {
	cases := 0
	for _, seed := range c10Seeds() {
		c10Plan(func(v Version, user, owner string, perm Perm, metaMode int, high bool, variant int) {
			cases++
			doc, err := c10Write(v, user, owner, perm, metaMode, high, variant, seed)
			if err != nil {
				t.Errorf("B2-FAIL write-error v=%v user=%.12q meta=%d: %v", v, user, metaMode, err)
				return
			}
			desc, data := doc.desc, doc.bytes
			open := func(p string) (*Reader, error) {
				return NewReader(bytes.NewReader(data), int64(len(data)), &ReaderOptions{Password: p})
			}
			content := func(r *Reader) error {
				for _, ref := range doc.order {
					obj, err := r.Get(ref, true)
					if err != nil || !c10Same(obj, doc.objects[ref]) {
						return fmt.Errorf("object %v: %s %v", ref, b2Short(obj), err)
					}
				}
				for _, s := range doc.streams {
					so, err := r.Get(s.ref, true)
					stm, ok := so.(*Stream)
					if err != nil || !ok {
						return fmt.Errorf("stream %v: %T %v", s.ref, so, err)
					}
					for k, want := range s.dict {
						if !c10Same(stm.Dict[k], want) {
							return fmt.Errorf("stream %v dictionary /%s: %s", s.ref, k, b2Short(stm.Dict[k]))
						}
					}
					rd, err := DecodeStream(r, nil, stm)
					if err != nil {
						return fmt.Errorf("stream %v: %v", s.ref, err)
					}
					body, err := io.ReadAll(rd)
					if err != nil || !bytes.Equal(body, s.data) {
						return fmt.Errorf("stream %v data: %d bytes, want %d, %v", s.ref, len(body), len(s.data), err)
					}
				}
				md := r.GetMeta().Catalog.Metadata
				if (md != nil) != (metaMode > 0) {
					return fmt.Errorf("metadata present: %v", md != nil)
				}
				if md != nil && c10Keywords(md.Data) != c10MetaMarker {
					return fmt.Errorf("metadata: %q", c10Keywords(md.Data))
				}
				return nil
			}
			closure := perm
			if perm&PermPrint != 0 {
				closure |= PermPrintDegraded
			}
			if perm&PermAnnotate != 0 {
				closure |= PermForms
			}
			if perm&PermModify != 0 {
				closure |= PermAssemble
			}
			if r, err := open(user); err != nil {
				t.Errorf("B2-FAIL user-open %s: %v", desc, err)
			} else {
				if err := content(r); err != nil {
					t.Errorf("B2-FAIL user-content %s: %v", desc, err)
				}
				if got := r.GetMeta().Permissions; owner != "" && owner != user && user != "" && got != closure {
					t.Errorf("B2-FAIL user-permissions %s: got %07b want %07b", desc, got, closure)
				}
			}
			if owner != "" {
				if r, err := open(owner); err != nil {
					t.Errorf("B2-FAIL owner-open %s: %v", desc, err)
				} else {
					if err := content(r); err != nil {
						t.Errorf("B2-FAIL owner-content %s: %v", desc, err)
					}
					if got := r.GetMeta().Permissions; user != "" && got != PermAll {
						t.Errorf("B2-FAIL owner-permissions %s: %07b", desc, got)
					}
				}
			}
			if user != "" {
				// passwords which differ from both after preparation (32 PDFDocEncoding bytes, 127 UTF-8 bytes)
				cut := 32
				if v >= V2_0 {
					cut = 127
				}
				ru := []rune(user)
				wrongs := []string{"", "wrong", "x" + user, string(ru[1:]), string(ru[:len(ru)-1])}
				if ro := []rune(owner); len(ro) > 1 {
					wrongs = append(wrongs, string(ro[:len(ro)-1]))
				}
				for _, wrong := range wrongs {
					if wrong == owner || wrong == user || len(wrong) >= cut {
						continue
					}
					r, err := open(wrong)
					var ae *AuthenticationError
					if err == nil || !errors.As(err, &ae) {
						t.Errorf("B2-FAIL wrong-password-accepted %s password=%.12q(%d): reader=%v err=%v", desc, wrong, len(wrong), r != nil, err)
					}
				}
				// a password equal to the user password in all the bytes which count
				if pre := isoPrep(map[bool]int{false: 4, true: 6}[v >= V2_0], user); len(pre) >= cut {
					if _, err := open(user + "-more"); err != nil {
						t.Errorf("B2-FAIL password-beyond-cut %s: %v", desc, err)
					}
				}
			}
		})
	}
	t.Logf("B2-CASES %d", cases)
}

// c10Norm returns a copy of o in which empty strings are represented uniformly (the
// properties speak of string values; Equal distinguishes a nil String from an empty one).
func c10Norm(o Object) Object {
	switch x := o.(type) {
	case String:
		if len(x) == 0 {
			return String{}
		}
		return x
	case Array:
		out := make(Array, len(x))
		for i, el := range x {
			out[i] = c10Norm(el)
		}
		return out
	case Dict:
		out := make(Dict, len(x))
		for k, el := range x {
			out[k] = c10Norm(el)
		}
		return out
	}
	return o
}

func c10Same(a, b Object) bool { return Equal(c10Norm(a), c10Norm(b)) }

// isoShortKeyR3 marks the one configuration in which the library knowingly departs from the
// text of the standard (recorded as a finding in /verif/known-findings.txt, kind owner-short-key-r3): in
// Algorithm 3 step (c) / Algorithm 7 step (a) the 50 MD5 rounds of revisions 3 and 4 hash
// the whole 16-byte digest; crypto.go (computeO, authenticateOwner) hashes only its first
// Length/8 bytes ("The spec does not mention the truncation, but this seems to be required
// anyway").  The two agree for 128-bit keys.  For revision 3 with 40..120-bit keys (what the
// Writer produces for PDF 1.1-1.3 when the permissions need revision 3) the owner password of
// a file written by the library is refused by the independent implementation, and the owner
// password of a file written by the independent implementation is refused by the Reader.
func isoShortKeyR3(R, keyBytes int) bool { return R >= 3 && R <= 4 && keyBytes < 16 }

func c10LeadingCrypt(d Dict) bool {
	switch f := d["Filter"].(type) {
	case Name:
		return f == "Crypt"
	case Array:
		return len(f) > 0 && f[0] == Name("Crypt")
	}
	return false
}

func c10Inflate(data []byte) ([]byte, error) {
	zr, err := zlib.NewReader(bytes.NewReader(data))
	if err != nil {
		return nil, err
	}
	return io.ReadAll(zr)
}

// TestB2C10Graph: the independent implementation authenticates both passwords of the
// documents of c10Write (passwords prepared as the standard demands) and decrypts every
// string and stream of EVERY object of the file, with strict checks of the AES format (IV,
// whole blocks, PKCS#7 padding also for empty strings); data exempt from encryption is
// stored as written while the strings of its dictionary are encrypted under the stream's key.
func TestB2C10Graph(t *testing.T) {
	cases := 0
	for _, seed := range c10Seeds() {
		c10Plan(func(v Version, user, owner string, perm Perm, metaMode int, high bool, variant int) {
			cases++
			doc, err := c10Write(v, user, owner, perm, metaMode, high, variant, seed)
			if err != nil {
				t.Errorf("B2-FAIL write-error v=%v user=%.12q meta=%d: %v", v, user, metaMode, err)
				return
			}
			desc := doc.desc
			e, fi, err := isoParse(doc.bytes)
			if err != nil || e == nil {
				t.Errorf("B2-FAIL iso-parse %s: %v", desc, err)
				return
			}
			if e.encMeta != (metaMode != 2) {
				t.Errorf("B2-FAIL iso-encrypt-metadata %s: /EncryptMetadata %v", desc, e.encMeta)
			}
			var key []byte
			for i, p := range []string{user, owner} {
				if p == "" && i == 1 {
					continue
				}
				k, _, ok := e.authenticate(isoPrep(e.R, p))
				if !ok && i == 1 && isoShortKeyR3(e.R, e.keyBytes) {
					// recorded finding (known-findings.txt): see isoShortKeyR3
					t.Errorf("B2-FAIL owner-short-key-r3 %s: the owner password of the written file is refused by Algorithm 7 as printed (R=%d, %d-bit key)", desc, e.R, 8*e.keyBytes)
					continue
				}
				if !ok {
					t.Errorf("B2-FAIL iso-authenticate %s password #%d R=%d", desc, i, e.R)
					continue
				}
				if key != nil && !bytes.Equal(key, k) {
					t.Errorf("B2-FAIL iso-key-mismatch %s", desc)
				}
				key = k
			}
			if _, _, ok := e.authenticate("wrong"); ok && user != "" {
				t.Errorf("B2-FAIL iso-wrong-accepted %s", desc)
			}
			if key == nil {
				return
			}
			if e.R >= 6 {
				blk, _ := aes.NewCipher(key)
				pp := make([]byte, 16)
				blk.Decrypt(pp, e.Perms)
				flag := byte('T')
				if !e.encMeta {
					flag = 'F'
				}
				if string(pp[9:12]) != "adb" || pp[8] != flag || pp[0] != byte(e.P) || pp[1] != byte(e.P>>8) || pp[2] != byte(e.P>>16) || pp[3] != byte(e.P>>24) {
					t.Errorf("B2-FAIL iso-perms %s: %x", desc, pp)
				}
			}
			if bytes.Contains(doc.bytes, []byte("SECRET")) || (metaMode == 1 && bytes.Contains(doc.bytes, []byte("B2META"))) {
				t.Errorf("B2-FAIL plaintext-leak %s", desc)
			}
			if metaMode == 2 && !bytes.Contains(doc.bytes, []byte(c10MetaMarker)) {
				t.Errorf("B2-FAIL plaintext-metadata-not-plain %s", desc)
			}
			known := map[Reference]*c10Stream{}
			for i := range doc.streams {
				known[doc.streams[i].ref] = &doc.streams[i]
			}
			seen := map[Reference]bool{}
			ivs := map[string]bool{}
			ciphertexts := map[string]Reference{}
			var objstms [][]byte
			nfail := 0
			fail := func(format string, a ...any) {
				if nfail++; nfail <= 4 {
					t.Errorf("B2-FAIL "+format, a...)
				}
			}
			noteIV := func(ct []byte, ref Reference) {
				if e.aes && len(ct) >= 16 {
					if ivs[string(ct[:16])] {
						fail("iv-reuse %s ref=%v", desc, ref)
					}
					ivs[string(ct[:16])] = true
				}
			}
			// strs decrypts the strings of one object under the key of ref and compares them with want
			strs := func(ref Reference, raw, want Object, haveWant bool, what string) {
				var ws, gs []String
				c09Strings(raw, func(s String) { gs = append(gs, s) })
				if haveWant {
					c09Strings(want, func(s String) { ws = append(ws, s) })
					if len(ws) != len(gs) {
						fail("iso-shape %s %s ref=%v", desc, what, ref)
						return
					}
				}
				for i, ct := range gs {
					pt, err := e.decrypt(key, ref, ct)
					if err != nil {
						fail("iso-string-format %s %s ref=%v string #%d of %d bytes: %v", desc, what, ref, i, len(ct), err)
						continue
					}
					if e.aes && len(ct) != 16+(len(pt)/16+1)*16 {
						fail("iso-string-format %s %s ref=%v: %d bytes for %d", desc, what, ref, len(ct), len(pt))
					}
					if haveWant && !bytes.Equal(pt, ws[i]) {
						fail("iso-string %s %s ref=%v want=%.20q got=%.20q", desc, what, ref, ws[i], pt)
					}
					noteIV(ct, ref)
					// (short RC4 ciphertexts of different objects coincide by chance: 1 in 256 per byte)
					if prev, dup := ciphertexts[string(ct)]; dup && prev != ref && len(ct) >= 8 {
						fail("equal-ciphertexts %s refs %v %v", desc, prev, ref)
					}
					ciphertexts[string(ct)] = ref
				}
			}
			for _, sect := range fi.Sections {
				for _, fo := range sect.Objects {
					ref := fo.Reference
					raw, err := fi.Read(fo)
					if err != nil {
						fail("iso-read %s ref=%v: %v", desc, ref, err)
						continue
					}
					seen[ref] = true
					stm, isStream := raw.(*Stream)
					if !isStream {
						want, ok := doc.objects[ref]
						strs(ref, raw, want, ok, "object")
						continue
					}
					if stm.Dict["Type"] == Name("XRef") {
						continue // never encrypted (7.5.8.2)
					}
					s := known[ref]
					if s != nil {
						strs(ref, stm.Dict, s.dict, true, "stream dictionary")
					} else {
						strs(ref, stm.Dict, nil, false, "stream dictionary")
					}
					body, err := io.ReadAll(io.NewSectionReader(stm.data, stm.start, stm.length))
					if err != nil {
						fail("iso-stream %s ref=%v: %v", desc, ref, err)
						continue
					}
					isMeta := stm.Dict["Type"] == Name("Metadata")
					exempt := c10LeadingCrypt(stm.Dict) || (isMeta && !e.encMeta)
					if s != nil && s.identity != exempt {
						fail("iso-exemption %s ref=%v: exempt=%v", desc, ref, exempt)
						continue
					}
					pt := body
					if !exempt {
						noteIV(body, ref)
						pt, err = e.decrypt(key, ref, body)
						if err != nil {
							fail("iso-stream-format %s ref=%v (%d bytes): %v", desc, ref, len(body), err)
							continue
						}
					}
					hasFlate := false
					switch f := stm.Dict["Filter"].(type) {
					case Name:
						hasFlate = f == "FlateDecode"
					case Array:
						hasFlate = len(f) > 0 && f[len(f)-1] == Name("FlateDecode")
					}
					if hasFlate && stm.Dict["DecodeParms"] == nil || (hasFlate && exempt) {
						if pt, err = c10Inflate(pt); err != nil {
							fail("iso-stream-inflate %s ref=%v: %v", desc, ref, err)
							continue
						}
					}
					switch {
					case s != nil:
						if s.flate != hasFlate || !bytes.Equal(pt, s.data) {
							fail("iso-stream-data %s ref=%v len(want)=%d len(got)=%d", desc, ref, len(s.data), len(pt))
						}
					case isMeta:
						if !bytes.Contains(pt, []byte(c10MetaMarker)) {
							fail("iso-metadata %s ref=%v: marker missing in %d bytes", desc, ref, len(pt))
						}
					case stm.Dict["Type"] == Name("ObjStm"):
						objstms = append(objstms, pt)
					}
				}
			}
			for _, s := range doc.streams {
				if !seen[s.ref] {
					fail("iso-stream-missing %s ref=%v", desc, s.ref)
				}
			}
			// objects stored in object streams are not encrypted individually
			for _, ref := range doc.order {
				if seen[ref] {
					continue
				}
				if v < V1_5 || len(objstms) == 0 {
					fail("iso-object-missing %s ref=%v", desc, ref)
					continue
				}
				c09Strings(doc.objects[ref], func(s String) {
					found := false
					for _, body := range objstms {
						found = found || bytes.Contains(body, s)
					}
					if !found {
						fail("iso-objstm-string %s ref=%v %.20q", desc, ref, s)
					}
				})
			}
		})
	}
	t.Logf("B2-CASES %d", cases)
}

// TestB2C10Foreign: files encrypted by the independent implementation (all revisions and
// ciphers the reader accepts, /EncryptMetadata on and off, /U with arbitrary padding,
// passwords up to and beyond the preparation limits, non-zero generations, an object number
// beyond 65535, empty strings, an exempt stream with strings in its dictionary) open in
// the Reader with either password and give back every string and stream.
func TestB2C10Foreign(t *testing.T) {
	cases := 0
	seed := c09Seed()
	type config struct {
		header        string
		V, R, keyBits int
		aes, encMeta  bool
	}
	configs := []config{
		{"1.3", 1, 2, 40, false, true},
		{"1.4", 1, 3, 40, false, true},
		{"1.4", 2, 3, 128, false, true},
		{"1.4", 2, 3, 40 + 8*int(seed%11), false, true},
		{"1.5", 4, 4, 128, false, true},
		{"1.5", 4, 4, 128, false, false},
		{"1.6", 4, 4, 128, true, true},
		{"1.7", 4, 4, 128, true, false},
		{"2.0", 5, 6, 256, true, true},
		{"2.0", 5, 6, 256, true, false},
	}
	for ci, cfg := range configs {
		v := V1_7
		if cfg.R >= 5 {
			v = V2_0
		}
		pws := c10Passwords(v)
		for pi, pw := range pws {
			if !b2Thorough() && pi >= 2 && (pi+ci+int(seed))%3 != 0 && len(pw[0])+len(pw[1]) < 200 {
				continue
			}
			cases++
			rnd := c10NewRand(seed, 1000+ci*16+pi)
			// all permissions, or: printing (bits 3, 12) and copying (bit 5) only
			P := uint32(0xFFFFFFFC)
			if (ci+pi)%2 == 1 {
				P = 0xFFFFF0C0 | 1<<2 | 1<<4 | 1<<11
			}
			user, owner := isoPrep(cfg.R, pw[0]), isoPrep(cfg.R, pw[1])
			id0 := rnd.bytes(16)
			e, key := isoNewHandler(cfg.V, cfg.R, cfg.keyBits/8, cfg.aes, cfg.encMeta, user, owner, P, id0, rnd)
			desc := fmt.Sprintf("V=%d R=%d bits=%d aes=%v encMeta=%v user=%.12q(%d) owner=%.12q(%d) P=%08x", cfg.V, cfg.R, cfg.keyBits, cfg.aes, cfg.encMeta, pw[0], len(pw[0]), pw[1], len(pw[1]), P)

			nsalt := 0
			text := func(n int) String { nsalt++; return String(c10Text(n, nsalt)) }
			root, pages, meta := NewReference(1, 0), NewReference(2, 0), NewReference(3, 0)
			var xmpData bytes.Buffer
			if err := c10Packet(c10MetaMarker).Write(&xmpData, nil); err != nil {
				t.Fatalf("xmp: %v", err)
			}
			items := []isoItem{
				{ref: root, obj: Dict{"Type": Name("Catalog"), "Pages": pages, "Metadata": meta}},
				{ref: pages, obj: Dict{"Type": Name("Pages"), "Kids": Array{}, "Count": Integer(0)}},
				{ref: meta, obj: Dict{"Type": Name("Metadata"), "Subtype": Name("XML")}, data: xmpData.Bytes(), isStream: true, plain: cfg.V >= 4 && !cfg.encMeta},
			}
			var arr Array
			for _, n := range []int{0, 1, 15, 16, 17, 31, 32, 33, 47 + rnd.intn(40)} {
				arr = append(arr, text(n))
			}
			items = append(items,
				isoItem{ref: NewReference(4, 0), obj: arr},
				isoItem{ref: NewReference(5, uint16(1+rnd.intn(65534))), obj: Dict{"E": String(""), "D": Dict{"T": text(20), "A": Array{String(""), text(3)}}}},
				isoItem{ref: NewReference(6, 256), obj: String("")},
				isoItem{ref: NewReference(7, 0), obj: Dict{"Note": text(12), "Empty": String("")}, data: c10Text(1000+rnd.intn(64), 50), isStream: true},
				isoItem{ref: NewReference(8, 255), obj: Dict{"Note": text(30)}, data: c10Text([]int{0, 15, 16, 17}[rnd.intn(4)], 51), isStream: true},
				isoItem{ref: NewReference(uint32(0x10203+rnd.intn(1000)), 0x0405), obj: Array{text(16), String("")}},
			)
			if cfg.V >= 4 {
				items = append(items, isoItem{ref: NewReference(9, 0), obj: Dict{"Note": text(21), "Empty": String(""), "Filter": Name("Crypt"), "DecodeParms": Dict{"Type": Name("CryptFilterDecodeParms"), "Name": Name("Identity")}},
					data: []byte("VISIBLE by request\n"), isStream: true, plain: true})
			}
			data := e.build(cfg.header, key, items, root, rnd.bytes(16), rnd)

			// the file must be good by the independent implementation's own reading
			if e2, _, err := isoParse(data); err != nil || e2 == nil {
				t.Errorf("B2-FAIL foreign-selfcheck %s: %v", desc, err)
				continue
			} else if k, _, ok := e2.authenticate(user); !ok || !bytes.Equal(k, key) {
				t.Errorf("B2-FAIL foreign-selfcheck %s: user password", desc)
				continue
			} else if k, isOwner, ok := e2.authenticate(owner); owner != "" && (!ok || !bytes.Equal(k, key) || (!isOwner && user != "")) {
				t.Errorf("B2-FAIL foreign-selfcheck %s: owner password", desc)
				continue
			}

			check := func(r *Reader) error {
				for _, it := range items[3:] {
					obj, err := r.Get(it.ref, true)
					if err != nil {
						return fmt.Errorf("object %v: %v", it.ref, err)
					}
					if !it.isStream {
						if !c10Same(obj, it.obj) {
							return fmt.Errorf("object %v: %s", it.ref, b2Short(obj))
						}
						continue
					}
					stm, ok := obj.(*Stream)
					if !ok {
						return fmt.Errorf("stream %v: %T", it.ref, obj)
					}
					for k, want := range it.obj.(Dict) {
						if !c10Same(stm.Dict[k], want) {
							return fmt.Errorf("stream %v dictionary /%s: %s", it.ref, k, b2Short(stm.Dict[k]))
						}
					}
					rd, err := DecodeStream(r, nil, stm)
					if err != nil {
						return fmt.Errorf("stream %v: %v", it.ref, err)
					}
					body, err := io.ReadAll(rd)
					if err != nil || !bytes.Equal(body, it.data) {
						return fmt.Errorf("stream %v data: %d bytes, want %d, %v", it.ref, len(body), len(it.data), err)
					}
				}
				if md := r.GetMeta().Catalog.Metadata; md == nil || c10Keywords(md.Data) != c10MetaMarker {
					return fmt.Errorf("metadata: %v", md != nil)
				}
				return nil
			}
			open := func(p string) (*Reader, error) {
				return NewReader(bytes.NewReader(data), int64(len(data)), &ReaderOptions{Password: p})
			}
			if r, err := open(pw[0]); err != nil {
				t.Errorf("B2-FAIL foreign-user-open %s: %v", desc, err)
			} else {
				if err := check(r); err != nil {
					t.Errorf("B2-FAIL foreign-user-content %s: %v", desc, err)
				}
				got := r.GetMeta().Permissions
				if pw[1] != "" && pw[1] != pw[0] && pw[0] != "" {
					if got&PermCopy == 0 || got&PermPrint == 0 {
						t.Errorf("B2-FAIL foreign-user-permissions %s: %07b lacks copy or print", desc, got)
					}
					if P != 0xFFFFFFFC && (got&PermModify != 0 || got&PermAnnotate != 0) {
						t.Errorf("B2-FAIL foreign-user-permissions %s: %07b allows modify or annotate", desc, got)
					}
				}
			}
			if pw[1] != "" {
				if r, err := open(pw[1]); err != nil && isoShortKeyR3(cfg.R, cfg.keyBits/8) {
					// recorded finding (known-findings.txt): see isoShortKeyR3
					t.Errorf("B2-FAIL owner-short-key-r3 %s: the owner password of a file encrypted as printed in Algorithm 3 is refused: %v", desc, err)
				} else if err != nil {
					t.Errorf("B2-FAIL foreign-owner-open %s: %v", desc, err)
				} else {
					if err := check(r); err != nil {
						t.Errorf("B2-FAIL foreign-owner-content %s: %v", desc, err)
					}
					if got := r.GetMeta().Permissions; pw[0] != "" && got != PermAll {
						t.Errorf("B2-FAIL foreign-owner-permissions %s: %07b", desc, got)
					}
				}
			}
			if pw[0] != "" {
				ru := []rune(pw[0])
				for _, wrong := range []string{"", "wrong", string(ru[:len(ru)/2]), string(ru[1:])} {
					r, err := open(wrong)
					var ae *AuthenticationError
					if err == nil || !errors.As(err, &ae) {
						t.Errorf("B2-FAIL foreign-wrong-accepted %s password=%.12q: reader=%v err=%v", desc, wrong, r != nil, err)
					}
				}
			}
		}
	}
	t.Logf("B2-CASES %d", cases)
}
