package pdf

// B2 bounded checks for C09 and C10 (labelled bounded, never counted as proved).
// The standard security handler is re-implemented here from ISO 32000-2, 7.6
// (Algorithms 1, 2, 2.A, 2.B, 3-7, 11-13), independently of crypto.go.

import (
	"bytes"
	"compress/zlib"
	"crypto/aes"
	"crypto/cipher"
	"crypto/md5"
	"crypto/rc4"
	"crypto/sha256"
	"crypto/sha512"
	"errors"
	"fmt"
	"io"
	"math/big"
	"strings"
	"testing"
)

var isoPad = []byte{0x28, 0xBF, 0x4E, 0x5E, 0x4E, 0x75, 0x8A, 0x41, 0x64, 0x00, 0x4E, 0x56, 0xFF, 0xFA, 0x01, 0x08,
	0x2E, 0x2E, 0x00, 0xB6, 0xD0, 0x68, 0x3E, 0x80, 0x2F, 0x0C, 0xA9, 0xFE, 0x64, 0x53, 0x69, 0x7A}

func isoPadPwd(p string) []byte {
	b := append([]byte(p), isoPad...)
	return b[:32]
}

type isoEnc struct {
	V, R, keyBytes int
	O, U, OE, UE   []byte
	Perms          []byte
	P              uint32
	ID0            []byte
	encMeta        bool
	aes            bool
}

func isoRC4(key, data []byte) []byte {
	c, _ := rc4.NewCipher(key)
	out := make([]byte, len(data))
	c.XORKeyStream(out, data)
	return out
}

// Algorithm 2
func (e *isoEnc) fileKeyFromUser(pwd string) []byte {
	h := md5.New()
	h.Write(isoPadPwd(pwd))
	h.Write(e.O[:32])
	h.Write([]byte{byte(e.P), byte(e.P >> 8), byte(e.P >> 16), byte(e.P >> 24)})
	h.Write(e.ID0)
	if e.R >= 4 && !e.encMeta {
		h.Write([]byte{0xff, 0xff, 0xff, 0xff})
	}
	k := h.Sum(nil)
	if e.R >= 3 {
		for i := 0; i < 50; i++ {
			s := md5.Sum(k[:e.keyBytes])
			k = s[:]
		}
	}
	return k[:e.keyBytes]
}

// Algorithms 4 and 5
func (e *isoEnc) computeU(key []byte) []byte {
	if e.R == 2 {
		return isoRC4(key, isoPad)
	}
	h := md5.New()
	h.Write(isoPad)
	h.Write(e.ID0)
	u := isoRC4(key, h.Sum(nil))
	for i := 1; i <= 19; i++ {
		k := make([]byte, len(key))
		for j := range key {
			k[j] = key[j] ^ byte(i)
		}
		u = isoRC4(k, u)
	}
	return u
}

func (e *isoEnc) ownerRC4Key(owner string) []byte {
	s := md5.Sum(isoPadPwd(owner))
	k := s[:]
	if e.R >= 3 {
		for i := 0; i < 50; i++ {
			s = md5.Sum(k)
			k = s[:]
		}
	}
	return k[:e.keyBytes]
}

// Algorithm 3
func (e *isoEnc) computeO(owner, user string) []byte {
	if owner == "" {
		owner = user
	}
	key := e.ownerRC4Key(owner)
	o := isoRC4(key, isoPadPwd(user))
	if e.R >= 3 {
		for i := 1; i <= 19; i++ {
			k := make([]byte, len(key))
			for j := range key {
				k[j] = key[j] ^ byte(i)
			}
			o = isoRC4(k, o)
		}
	}
	return o
}

// Algorithm 2.B
func isoHash2B(pwd, salt, udata []byte) []byte {
	k := sha256.Sum256(append(append(append([]byte{}, pwd...), salt...), udata...))
	K := k[:]
	for round := 0; ; round++ {
		k1 := bytes.Repeat(append(append(append([]byte{}, pwd...), K...), udata...), 64)
		blk, _ := aes.NewCipher(K[:16])
		E := make([]byte, len(k1))
		cipher.NewCBCEncrypter(blk, K[16:32]).CryptBlocks(E, k1)
		mod := new(big.Int).Mod(new(big.Int).SetBytes(E[:16]), big.NewInt(3)).Int64()
		switch mod {
		case 0:
			s := sha256.Sum256(E)
			K = s[:]
		case 1:
			s := sha512.Sum384(E)
			K = s[:]
		default:
			s := sha512.Sum512(E)
			K = s[:]
		}
		// "round number" counts the rounds done so far (qpdf, MuPDF and Adobe agree): after
		// at least 64 rounds stop as soon as the last byte of E is <= rounds - 32
		if done := round + 1; done >= 64 && int(E[len(E)-1]) <= done-32 {
			break
		}
	}
	return K[:32]
}

func isoAESCBCNoPad(key, iv, data []byte, decrypt bool) []byte {
	blk, _ := aes.NewCipher(key)
	out := make([]byte, len(data))
	if decrypt {
		cipher.NewCBCDecrypter(blk, iv).CryptBlocks(out, data)
	} else {
		cipher.NewCBCEncrypter(blk, iv).CryptBlocks(out, data)
	}
	return out
}

// authenticate returns the file key for pwd, trying it as user and as owner password.
func (e *isoEnc) authenticate(pwd string) (key []byte, owner bool, ok bool) {
	if e.R >= 5 {
		p := []byte(pwd)
		if len(p) > 127 {
			p = p[:127]
		}
		if bytes.Equal(isoHash2B(p, e.O[32:40], e.U[:48]), e.O[:32]) {
			k := isoHash2B(p, e.O[40:48], e.U[:48])
			return isoAESCBCNoPad(k, make([]byte, 16), e.OE, true), true, true
		}
		if bytes.Equal(isoHash2B(p, e.U[32:40], nil), e.U[:32]) {
			k := isoHash2B(p, e.U[40:48], nil)
			return isoAESCBCNoPad(k, make([]byte, 16), e.UE, true), false, true
		}
		return nil, false, false
	}
	tryUser := func(user string) ([]byte, bool) {
		k := e.fileKeyFromUser(user)
		u := e.computeU(k)
		if e.R == 2 {
			return k, bytes.Equal(u, e.U[:32])
		}
		return k, bytes.Equal(u[:16], e.U[:16])
	}
	// Algorithm 7
	ok2 := false
	ko := e.ownerRC4Key(pwd)
	u := append([]byte{}, e.O[:32]...)
	if e.R == 2 {
		u = isoRC4(ko, u)
	} else {
		for i := 19; i >= 0; i-- {
			k := make([]byte, len(ko))
			for j := range ko {
				k[j] = ko[j] ^ byte(i)
			}
			u = isoRC4(k, u)
		}
	}
	// u is the padded user password
	{
		h := md5.New()
		h.Write(u)
		h.Write(e.O[:32])
		h.Write([]byte{byte(e.P), byte(e.P >> 8), byte(e.P >> 16), byte(e.P >> 24)})
		h.Write(e.ID0)
		if e.R >= 4 && !e.encMeta {
			h.Write([]byte{0xff, 0xff, 0xff, 0xff})
		}
		k := h.Sum(nil)
		if e.R >= 3 {
			for i := 0; i < 50; i++ {
				s := md5.Sum(k[:e.keyBytes])
				k = s[:]
			}
		}
		k = k[:e.keyBytes]
		cu := e.computeU(k)
		if (e.R == 2 && bytes.Equal(cu, e.U[:32])) || (e.R >= 3 && bytes.Equal(cu[:16], e.U[:16])) {
			key, ok2 = k, true
		}
	}
	if ok2 {
		return key, true, true
	}
	if k, ok := tryUser(pwd); ok {
		return k, false, true
	}
	return nil, false, false
}

// Algorithm 1 / 1.A
func (e *isoEnc) decrypt(key []byte, ref Reference, data []byte) ([]byte, error) {
	k := key
	if e.R < 5 {
		h := md5.New()
		h.Write(key)
		n, g := ref.Number(), ref.Generation()
		h.Write([]byte{byte(n), byte(n >> 8), byte(n >> 16), byte(g), byte(g >> 8)})
		if e.aes {
			h.Write([]byte("sAlT"))
		}
		k = h.Sum(nil)[:min(len(key)+5, 16)]
	}
	if !e.aes {
		return isoRC4(k, data), nil
	}
	if len(data) < 32 || len(data)%16 != 0 {
		return nil, fmt.Errorf("AES data of %d bytes", len(data))
	}
	out := isoAESCBCNoPad(k, data[:16], data[16:], true)
	pad := int(out[len(out)-1])
	if pad < 1 || pad > 16 {
		return nil, errors.New("bad PKCS#7 padding")
	}
	for _, b := range out[len(out)-pad:] {
		if int(b) != pad {
			return nil, errors.New("bad PKCS#7 padding")
		}
	}
	return out[:len(out)-pad], nil
}

func isoParse(data []byte) (*isoEnc, *FileInfo, error) {
	fi, err := SequentialScan(bytes.NewReader(data), int64(len(data)))
	if err != nil {
		return nil, nil, err
	}
	trailer, err := fi.getTrailer()
	if err != nil {
		return nil, nil, err
	}
	var encDict Dict
	switch x := trailer["Encrypt"].(type) {
	case Dict:
		encDict = x
	case Reference:
		obj, err := fi.Read(fi.findObject(x))
		if err != nil {
			return nil, nil, err
		}
		encDict, _ = obj.(Dict)
	}
	if encDict == nil {
		return nil, fi, nil
	}
	e := &isoEnc{encMeta: true}
	geti := func(d Dict, k Name) int { v, _ := d[k].(Integer); return int(v) }
	e.V, e.R = geti(encDict, "V"), geti(encDict, "R")
	e.keyBytes = 5
	if l := geti(encDict, "Length"); l > 0 {
		e.keyBytes = l / 8
	}
	e.P = uint32(int32(geti(encDict, "P")))
	s := func(k Name) []byte { v, _ := encDict[k].(String); return []byte(v) }
	e.O, e.U, e.OE, e.UE, e.Perms = s("O"), s("U"), s("OE"), s("UE"), s("Perms")
	if b, ok := encDict["EncryptMetadata"].(Boolean); ok {
		e.encMeta = bool(b)
	}
	if id, ok := trailer["ID"].(Array); ok && len(id) > 0 {
		v, _ := id[0].(String)
		e.ID0 = []byte(v)
	}
	if e.V >= 4 {
		if cf, ok := encDict["CF"].(Dict); ok {
			if std, ok := cf["StdCF"].(Dict); ok {
				switch std["CFM"] {
				case Name("AESV2"):
					e.aes, e.keyBytes = true, 16
				case Name("AESV3"):
					e.aes, e.keyBytes = true, 32
				case Name("V2"):
					if l := geti(std, "Length"); l > 0 {
						e.keyBytes = l
						if l > 40 {
							e.keyBytes = l / 8
						}
					}
				}
			}
		}
	}
	return e, fi, nil
}

func c09Strings(o Object, f func(String)) {
	switch x := o.(type) {
	case String:
		f(x)
	case Array:
		for _, e := range x {
			c09Strings(e, f)
		}
	case Dict:
		for _, k := range x.SortedKeys() {
			c09Strings(x[k], f)
		}
	}
}

func TestB2C10Independent(t *testing.T) {
	cases := 0
	marker := "plain string"
	for _, v := range []Version{V1_1, V1_3, V1_4, V1_5, V1_6, V1_7, V2_0} {
		for _, pw := range [][2]string{{"user", "owner"}, {"", "owner"}, {"only-user", ""}} {
			cases++
			doc, err := c02Write(v, false, false, pw[0], pw[1], cases)
			if err != nil {
				t.Errorf("B2-FAIL write-error v=%v %q: %v", v, pw, err)
				continue
			}
			desc := doc.desc
			e, fi, err := isoParse(doc.bytes)
			if err != nil || e == nil {
				t.Errorf("B2-FAIL iso-parse %s: %v", desc, err)
				continue
			}
			var key []byte
			for _, p := range pw {
				if p == "" && pw[0] != "" {
					continue
				}
				k, _, ok := e.authenticate(p)
				if !ok {
					t.Errorf("B2-FAIL iso-authenticate %s password=%q R=%d", desc, p, e.R)
					continue
				}
				if key != nil && !bytes.Equal(key, k) {
					t.Errorf("B2-FAIL iso-key-mismatch %s", desc)
				}
				key = k
			}
			if _, _, ok := e.authenticate("wrong"); ok && pw[0] != "" {
				t.Errorf("B2-FAIL iso-wrong-accepted %s", desc)
			}
			if key == nil {
				continue
			}
			if e.R >= 6 {
				blk, _ := aes.NewCipher(key)
				pp := make([]byte, 16)
				blk.Decrypt(pp, e.Perms)
				if string(pp[9:12]) != "adb" || pp[0] != byte(e.P) || pp[1] != byte(e.P>>8) || pp[2] != byte(e.P>>16) || pp[3] != byte(e.P>>24) {
					t.Errorf("B2-FAIL iso-perms %s: %x", desc, pp)
				}
			}
			// no plaintext leaks
			if bytes.Contains(doc.bytes, []byte(marker)) || bytes.Contains(doc.bytes, []byte("twice (written)")) || bytes.Contains(doc.bytes, []byte("BT /F1 12 Tf")) {
				t.Errorf("B2-FAIL plaintext-leak %s", desc)
			}
			// decrypt every string and the unfiltered / Flate streams independently
			ivs := map[string]bool{}
			ciphertexts := map[string]Reference{}
			for ref, want := range doc.objects {
				fo := fi.findObject(ref)
				if fo == nil {
					continue // stored in an object stream: covered through the stream body below
				}
				raw, err := fi.Read(fo)
				if err != nil {
					t.Errorf("B2-FAIL iso-read %s ref=%v: %v", desc, ref, err)
					continue
				}
				var wantStrings, gotStrings []String
				c09Strings(want, func(s String) { wantStrings = append(wantStrings, s) })
				c09Strings(raw, func(s String) { gotStrings = append(gotStrings, s) })
				if len(wantStrings) != len(gotStrings) {
					t.Errorf("B2-FAIL iso-shape %s ref=%v", desc, ref)
					continue
				}
				for i, ct := range gotStrings {
					pt, err := e.decrypt(key, ref, ct)
					if err != nil || !bytes.Equal(pt, wantStrings[i]) {
						t.Errorf("B2-FAIL iso-string %s ref=%v want=%q got=%q err=%v", desc, ref, wantStrings[i], pt, err)
					}
					if e.aes && len(ct) >= 16 {
						iv := string(ct[:16])
						if ivs[iv] {
							t.Errorf("B2-FAIL iv-reuse %s ref=%v", desc, ref)
						}
						ivs[iv] = true
					}
					if prev, dup := ciphertexts[string(ct)]; dup && prev != ref && len(ct) > 0 {
						t.Errorf("B2-FAIL equal-ciphertexts %s refs %v %v", desc, prev, ref)
					}
					ciphertexts[string(ct)] = ref
				}
			}
			for _, s := range doc.streams {
				if len(s.filters) > 1 {
					continue
				}
				flate := false
				if len(s.filters) == 1 {
					if f, ok := s.filters[0].(FilterFlate); !ok || f.Predictor > 1 {
						continue
					}
					flate = true
				}
				fo := fi.findObject(s.ref)
				if fo == nil {
					t.Errorf("B2-FAIL iso-stream-missing %s ref=%v", desc, s.ref)
					continue
				}
				raw, err := fi.Read(fo)
				stm, ok := raw.(*Stream)
				if err != nil || !ok {
					t.Errorf("B2-FAIL iso-stream %s ref=%v: %v", desc, s.ref, err)
					continue
				}
				body, err := io.ReadAll(io.NewSectionReader(stm.data, stm.start, stm.length))
				if err != nil {
					t.Errorf("B2-FAIL iso-stream %s ref=%v: %v", desc, s.ref, err)
					continue
				}
				// the strings of the stream dictionary are encrypted under the stream's own key
				{
					var wantStrings, gotStrings []String
					c09Strings(s.dict, func(x String) { wantStrings = append(wantStrings, x) })
					c09Strings(stm.Dict, func(x String) { gotStrings = append(gotStrings, x) })
					if len(wantStrings) != len(gotStrings) {
						t.Errorf("B2-FAIL iso-shape %s stream dictionary ref=%v", desc, s.ref)
					} else {
						for i, ct := range gotStrings {
							pt, err := e.decrypt(key, s.ref, ct)
							if err != nil || !bytes.Equal(pt, wantStrings[i]) {
								t.Errorf("B2-FAIL iso-string %s stream dictionary ref=%v want=%q got=%q err=%v", desc, s.ref, wantStrings[i], pt, err)
							}
						}
					}
				}
				if len(body) == 0 && len(s.data) == 0 {
					continue
				}
				pt, err := e.decrypt(key, s.ref, body)
				if err == nil && flate {
					zr, zerr := zlib.NewReader(bytes.NewReader(pt))
					if zerr != nil {
						err = zerr
					} else {
						pt, err = io.ReadAll(zr)
					}
				}
				if err != nil || !bytes.Equal(pt, s.data) {
					t.Errorf("B2-FAIL iso-stream-data %s ref=%v len(want)=%d len(got)=%d err=%v", desc, s.ref, len(s.data), len(pt), err)
				}
			}
		}
	}
	t.Logf("B2-CASES %d", cases)
}

// TestB2C09LongPasswords: revision 6 passwords are cut at 127 bytes, also in the middle of a
// character; two passwords that differ only in that last byte are different passwords.
func TestB2C09LongPasswords(t *testing.T) {
	cases := 0
	prefix := strings.Repeat("a", 126)
	for _, pair := range [][2]string{{prefix + "\u00e9tail", prefix + "\u0451tail"}, {prefix + "\u00e9", prefix}, {prefix + "xy", prefix + "xz"}, {prefix + "x", prefix + "y"}} {
		cases++
		var buf bytes.Buffer
		w, err := NewWriter(&buf, V2_0, &WriterOptions{UserPassword: pair[0], OwnerPassword: "owner"})
		if err != nil {
			t.Errorf("B2-FAIL long-password setup: %v", err)
			continue
		}
		a := w.Alloc()
		w.GetMeta().Catalog.Pages = a
		w.Put(a, Dict{"Type": Name("Pages"), "Kids": Array{}, "Count": Integer(0)})
		w.Close()
		data := buf.Bytes()
		if _, err := NewReader(bytes.NewReader(data), int64(len(data)), &ReaderOptions{Password: pair[0]}); err != nil {
			t.Errorf("B2-FAIL long-password own password rejected (%d bytes): %v", len(pair[0]), err)
		}
		same := len(pair[0]) >= 127 && len(pair[1]) >= 127 && pair[0][:127] == pair[1][:127]
		_, err = NewReader(bytes.NewReader(data), int64(len(data)), &ReaderOptions{Password: pair[1]})
		if same && err != nil {
			t.Errorf("B2-FAIL long-password passwords equal in their first 127 bytes must both open the file: %v", err)
		}
		if !same && err == nil {
			t.Errorf("B2-FAIL long-password a password that differs within the first 127 bytes (lengths %d, %d) opens the file", len(pair[0]), len(pair[1]))
		}
	}
	t.Logf("B2-CASES %d", cases)
}

func TestB2C09Passwords(t *testing.T) {
	cases := 0
	for _, v := range []Version{V1_1, V1_2, V1_3, V1_4, V1_5, V1_6, V1_7, V2_0} {
		for _, pw := range [][2]string{{"user", "owner"}, {"", "owner"}, {"same", "same"}, {"only-user", ""}, {"üñí", "öwner"}, {"a-rather-long-user-password-beyond-32-bytes-0123456789", "o"}} {
			perms := []Perm{PermAll, 0, PermCopy, PermPrint, PermPrintDegraded, PermAnnotate, PermForms, PermModify, PermAssemble, PermPrint | PermModify}
			if b2Thorough() {
				perms = nil
				for p := Perm(0); p <= PermAll; p++ {
					perms = append(perms, p)
				}
			}
			for _, perm := range perms {
				cases++
				var buf bytes.Buffer
				w, err := NewWriter(&buf, v, &WriterOptions{UserPassword: pw[0], OwnerPassword: pw[1], UserPermissions: perm})
				if err != nil {
					t.Errorf("B2-FAIL writer v=%v: %v", v, err)
					continue
				}
				pages := w.Alloc()
				w.GetMeta().Catalog.Pages = pages
				w.Put(pages, Dict{"Type": Name("Pages"), "Kids": Array{}, "Count": Integer(0)})
				secret := w.Alloc()
				w.Put(secret, Dict{"S": String("the secret string"), "A": Array{String("another one")}})
				// the same String value written three times
				shared := String("a value that is written more than once")
				sh1, sh2 := w.Alloc(), w.Alloc()
				w.Put(sh1, shared)
				w.Put(sh2, Array{shared, shared})
				if string(shared) != "a value that is written more than once" {
					t.Errorf("B2-FAIL caller-value-modified v=%v: %q", v, shared)
				}
				sref := w.Alloc()
				sw, _ := w.OpenStream(sref, Dict{"Note": String("in the stream dict")}, FilterCompress{})
				// an object put while the stream is open (written after it)
				during := w.Alloc()
				w.Put(during, Array{String("put while the stream is open")})
				sw.Write(bytes.Repeat([]byte("secret stream data "), 80))
				sw.Close()
				if err := w.Close(); err != nil {
					t.Errorf("B2-FAIL close v=%v: %v", v, err)
					continue
				}
				data := buf.Bytes()
				desc := fmt.Sprintf("v=%v user=%q owner=%q perm=%07b", v, pw[0], pw[1], perm)
				open := func(p string) (*Reader, error) {
					return NewReader(bytes.NewReader(data), int64(len(data)), &ReaderOptions{Password: p})
				}
				content := func(r *Reader) error {
					obj, err := r.Get(secret, true)
					if err != nil || !Equal(obj, Dict{"S": String("the secret string"), "A": Array{String("another one")}}) {
						return fmt.Errorf("strings: %v %v", obj, err)
					}
					want := String("a value that is written more than once")
					if o1, err := r.Get(sh1, true); err != nil || !Equal(o1, want) {
						return fmt.Errorf("shared string, first copy: %v %v", o1, err)
					}
					if o2, err := r.Get(sh2, true); err != nil || !Equal(o2, Array{want, want}) {
						return fmt.Errorf("shared string, later copies: %v %v", o2, err)
					}
					if obj, err := r.Get(during, true); err != nil || !Equal(obj, Array{String("put while the stream is open")}) {
						return fmt.Errorf("object put during the stream: %v %v", obj, err)
					}
					so, err := r.Get(sref, true)
					stm, ok := so.(*Stream)
					if err != nil || !ok || !Equal(stm.Dict["Note"], String("in the stream dict")) {
						return fmt.Errorf("stream dict: %v %v", so, err)
					}
					rd, err := DecodeStream(r, nil, stm)
					if err != nil {
						return err
					}
					body, err := io.ReadAll(rd)
					if err != nil || !bytes.Equal(body, bytes.Repeat([]byte("secret stream data "), 80)) {
						return fmt.Errorf("stream data: %d bytes, %v", len(body), err)
					}
					return nil
				}
				closure := perm
				if perm&PermPrint != 0 {
					closure |= PermPrintDegraded
				}
				if perm&PermAnnotate != 0 {
					closure |= PermForms
				}
				if perm&PermModify != 0 {
					closure |= PermAssemble
				}
				// user password
				r, err := open(pw[0])
				if err != nil {
					t.Errorf("B2-FAIL user-open %s: %v", desc, err)
				} else {
					if err := content(r); err != nil {
						t.Errorf("B2-FAIL user-content %s: %v", desc, err)
					}
					got := r.GetMeta().Permissions
					ownerToo := pw[0] == pw[1] || (pw[1] == "" && true)
					if !ownerToo && got != closure && !(v <= V1_3 && !perm.canR2()) {
						t.Errorf("B2-FAIL user-permissions %s: got %07b want %07b", desc, got, closure)
					}
				}
				// owner password
				if pw[1] != "" {
					r, err := open(pw[1])
					if err != nil {
						t.Errorf("B2-FAIL owner-open %s: %v", desc, err)
					} else {
						if err := content(r); err != nil {
							t.Errorf("B2-FAIL owner-content %s: %v", desc, err)
						}
						if pw[0] != "" && r.GetMeta().Permissions != PermAll {
							t.Errorf("B2-FAIL owner-permissions %s: %07b", desc, r.GetMeta().Permissions)
						}
					}
				}
				// wrong and missing passwords
				if pw[0] != "" {
					// passwords that differ from both after the standard's preparation
					// (PDFDocEncoding, 32 bytes for revisions below 5)
					ru := []rune(pw[0])
					for _, wrong := range []string{"", "wrong", "x" + pw[0], string(ru[1:]), string(ru[:len(ru)/2])} {
						if wrong == pw[1] {
							continue
						}
						r, err := open(wrong)
						var ae *AuthenticationError
						if err == nil || !errors.As(err, &ae) {
							t.Errorf("B2-FAIL wrong-password-accepted %s password=%q: reader=%v err=%v", desc, wrong, r != nil, err)
						}
					}
				}
			}
		}
	}
	t.Logf("B2-CASES %d", cases)
}

// TestB2C10Hash compares the library's revision 6 password hash (Algorithm 2.B) with the
// independent implementation on 1500 deterministic inputs: the number of rounds depends on
// the data, so single files exercise only a few of the termination cases.
func TestB2C10Hash(t *testing.T) {
	cases := 0
	x := uint32(2463534242)
	next := func() byte {
		x ^= x << 13
		x ^= x >> 17
		x ^= x << 5
		return byte(x >> 7)
	}
	for i := 0; i < 1500; i++ {
		cases++
		pwd := make([]byte, i%41)
		for k := range pwd {
			pwd[k] = next()
		}
		salt := make([]byte, 8)
		for k := range salt {
			salt[k] = next()
		}
		var u []byte
		if i%2 == 1 {
			u = make([]byte, 48)
			for k := range u {
				u[k] = next()
			}
		}
		if got, want := slowHash(pwd, salt, u), isoHash2B(pwd, salt, u); !bytes.Equal(got, want) {
			t.Errorf("B2-FAIL hash-2B input #%d (password %d bytes, user key %d bytes): %x, independent implementation %x", i, len(pwd), len(u), got, want)
			if i > 200 {
				break
			}
		}
	}
	t.Logf("B2-CASES %d", cases)
}

// TestB2C10ForeignPadding: for revisions 3 and 4 only the first 16 bytes of /U are
// significant, the rest is arbitrary padding (Algorithm 5 step f): handlers whose /U carries
// non-zero padding, as other producers write it, must authenticate both passwords.
func TestB2C10ForeignPadding(t *testing.T) {
	cases := 0
	id := []byte("0123456789abcdef")
	for _, cfg := range []struct{ length, V int }{{128, 2}, {128, 4}, {40, 1}} {
		for pad := 0; pad < 4; pad++ {
			cases++
			sec, err := createStdSecHandler(id, "user", "owner", PermAll, cfg.length, cfg.V, false)
			if err != nil {
				t.Errorf("B2-FAIL foreign-padding setup V=%d: %v", cfg.V, err)
				continue
			}
			if sec.R >= 3 {
				for k := 16; k < 32; k++ {
					sec.U[k] = byte(pad * (k + 7))
				}
			}
			for _, pwd := range []string{"user", "owner"} {
				sec.key = nil
				if _, err := sec.authenticate(pwd); err != nil {
					t.Errorf("B2-FAIL foreign-padding V=%d R=%d padding #%d password %q: %v", cfg.V, sec.R, pad, pwd, err)
				}
			}
			sec.key = nil
			if _, err := sec.authenticate("wrong"); err == nil {
				t.Errorf("B2-FAIL foreign-padding V=%d R=%d: wrong password accepted", cfg.V, sec.R)
			}
		}
	}
	t.Logf("B2-CASES %d", cases)
}
