package builder

// B2 bounded check for C15 (labelled bounded): whatever call sequence a Builder accepts
// must serialise to a stream that re-reads as the same operators and is a balanced,
// valid operator sequence for the Builder's PDF version, judged by a fresh
// content.State.  Sequences are random walks over 16 Builder calls (including calls in
// the wrong state and graphics state nesting deeper than 28), run on a fresh Builder,
// on a Builder after Reset and through Build, and produced in several segments (Harvest
// between the calls and before Close, the segments re-read as consecutive content
// streams).  All sequences of up to 4 (thorough: 6) primitive calls, Harvest being one of
// them, are enumerated exhaustively.

import (
	"bytes"
	"fmt"
	"io"
	"math/rand"
	"os"
	"slices"
	"testing"

	"seehuhn.de/go/pdf"
	"seehuhn.de/go/pdf/graphics"
	"seehuhn.de/go/pdf/graphics/content"
)

// c15CrossTextMC counts the accepted sequences with overlapping BT/BMC (see c15Reread).
var c15CrossTextMC int

// c15Reread re-reads the segments as the consecutive content streams of one page.
func c15Reread(v pdf.Version, segs ...*content.Operators) error {
	var data []byte
	ops := &content.Operators{}
	for _, seg := range segs {
		rc, err := seg.RawBytes()
		if err != nil {
			return fmt.Errorf("RawBytes: %w", err)
		}
		d, err := io.ReadAll(rc)
		rc.Close()
		if err != nil {
			return fmt.Errorf("RawBytes read: %w", err)
		}
		data = append(data, d...)
		ops.Ops = append(ops.Ops, seg.Ops...)
	}
	stm := content.NewScanner(func() (io.ReadCloser, error) { return io.NopCloser(bytes.NewReader(data)), nil })
	it := stm.NewIter()
	var got []content.Operator
	for name, args := range it.All() {
		got = append(got, content.Operator{Name: name, Args: slices.Clone(args)})
	}
	if err := it.Err(); err != nil {
		return fmt.Errorf("re-read: %w (%q)", err, data)
	}
	if !(&content.Operators{Ops: got}).Equal(ops) {
		return fmt.Errorf("re-read operators differ from the written ones (%q)", data)
	}
	st := content.NewState(content.Page, &content.Resources{})
	st.Version = v
	for i, op := range got {
		if err := content.CheckOperatorVersion(op.Name, v); err != nil {
			return fmt.Errorf("operator %d (%s) not valid in version %s: %w", i, op.Name, v, err)
		}
		if err := st.ApplyOperator(op.Name, op.Args); err != nil {
			return fmt.Errorf("accepted by the Builder, invalid on re-reading for version %s: operator %d (%s): %w", v, i, op.Name, err)
		}
	}
	if err := st.CanClose(); err != nil {
		return fmt.Errorf("re-read stream is not balanced: %w", err)
	}
	// independent of content.State: q/Q are balanced, and text objects, marked-content
	// sequences and compatibility sections nest properly among themselves and are all closed
	// (ISO 32000-2, 14.6.1: marked content shall be properly nested with text objects)
	depthQ := 0
	pathOpen := false // a path was begun and not yet ended by a painting operator (8.5.3)
	var stack []string
	closers := map[string]string{"ET": "BT", "EMC": "BMC", "EX": "BX"}
	for i, op := range got {
		name := string(op.Name)
		if name == "BDC" {
			name = "BMC"
		}
		switch name {
		case "q":
			depthQ++
		case "Q":
			depthQ--
			if depthQ < 0 {
				return fmt.Errorf("operator %d: Q without q", i)
			}
		case "BT", "BMC", "BX":
			stack = append(stack, name)
		case "ET", "EMC", "EX":
			want := closers[name]
			if len(stack) > 0 && stack[len(stack)-1] == want {
				stack = stack[:len(stack)-1]
				break
			}
			// Recorded finding (known-findings.txt, kind text-mc-overlap): the Builder and content.State accept a text object
			// and a marked-content sequence that overlap without one containing the other
			// (BT BMC ET EMC and BMC BT EMC ET, every version), which ISO 32000-2 14.6.1
			// forbids; State.popNesting removes the innermost frame of the wanted kind
			// wherever it is.  Exactly this case (the opener exists, and only BT/BMC
			// frames lie above it) is counted and reported once under its own failure kind;
			// everything else about the sequence is still checked.
			j := len(stack) - 1
			for j >= 0 && stack[j] != want && want != "BX" && stack[j] != "BX" {
				j--
			}
			if j < 0 || stack[j] != want {
				return fmt.Errorf("operator %d (%s) closes %v: paired operators are not properly nested", i, op.Name, stack)
			}
			c15CrossTextMC++
			stack = append(stack[:j:j], stack[j+1:]...)
		case "m", "re":
			pathOpen = true
		case "S", "s", "f", "F", "f*", "B", "B*", "b", "b*", "n":
			pathOpen = false
		}
	}
	if len(stack) != 0 || depthQ != 0 || pathOpen {
		return fmt.Errorf("re-read stream leaves %v, %d q and path=%v open", stack, depthQ, pathOpen)
	}
	return nil
}

func TestB2C15Builder(t *testing.T) {
	thorough := os.Getenv("VERIF_TIER") == "thorough"
	seed := int64(1)
	fmt.Sscanf(os.Getenv("VERIF_SEED"), "%d", &seed)
	rng := rand.New(rand.NewSource(seed))
	calls := []func(b *Builder){
		func(b *Builder) { b.PushGraphicsState() }, func(b *Builder) { b.PushGraphicsState() },
		func(b *Builder) { b.PopGraphicsState() }, func(b *Builder) { b.PopGraphicsState() },
		func(b *Builder) { b.TextBegin() }, func(b *Builder) { b.TextEnd() },
		func(b *Builder) { b.SetLineWidth(2.5) },
		func(b *Builder) { b.MoveTo(0, 0) }, func(b *Builder) { b.LineTo(10, 10.25) },
		func(b *Builder) { b.Rectangle(1, 2, 30, 40) }, func(b *Builder) { b.ClosePath() },
		func(b *Builder) { b.Stroke() }, func(b *Builder) { b.Fill() }, func(b *Builder) { b.FillAndStroke() },
		func(b *Builder) { b.MoveTo(5, 5); b.LineTo(6, 7); b.Stroke() },
		func(b *Builder) { // 15: nesting deeper than PDF 1.x allows
			for range 29 {
				b.PushGraphicsState()
			}
			for range 29 {
				b.PopGraphicsState()
			}
		},
		func(b *Builder) {
			b.PushGraphicsState()
			b.SetLineWidth(3)
			b.Rectangle(0, 0, 5, 5)
			b.Fill()
			b.PopGraphicsState()
		}, // 16
		func(b *Builder) { b.TextBegin(); b.TextEnd() },                                              // 17
		func(b *Builder) { b.TextBegin(); b.PushGraphicsState(); b.PopGraphicsState(); b.TextEnd() }, // 18: q inside a text object
		func(b *Builder) { b.MarkedContentStart(&graphics.MarkedContent{Tag: "Span"}) },              // 19
		func(b *Builder) { b.MarkedContentEnd() },                                                    // 20
		func(b *Builder) { // 21: properly nested marked content inside a saved state
			b.PushGraphicsState()
			b.MarkedContentStart(&graphics.MarkedContent{Tag: "P"})
			b.Rectangle(0, 0, 1, 1)
			b.Fill()
			b.MarkedContentEnd()
			b.PopGraphicsState()
		},
		func(b *Builder) { // 22: cross-nested: the state is restored inside the marked content
			b.PushGraphicsState()
			b.MarkedContentStart(&graphics.MarkedContent{Tag: "Span"})
			b.PopGraphicsState()
		},
		func(b *Builder) { // 23: cross-nested the other way round
			b.MarkedContentStart(&graphics.MarkedContent{Tag: "Span"})
			b.PushGraphicsState()
			b.MarkedContentEnd()
			b.PopGraphicsState()
		},
		func(b *Builder) { // 24: nesting at the limit
			for range 28 {
				b.PushGraphicsState()
			}
			for range 28 {
				b.PopGraphicsState()
			}
		},
	}
	runs := 300
	if thorough {
		runs = 5000
	}
	cases, accepted := 0, 0
	for run := 0; run < runs; run++ {
		v := []pdf.Version{pdf.V1_4, pdf.V1_7, pdf.V2_0}[run%3]
		// mostly well-formed blocks (indices 14.. are blocks), sometimes a stray call
		blocks := []int{14, 14, 15, 16, 17, 18, 24, 6, 21, 21, 22, 23}
		n := 1 + rng.Intn(6)
		var seq []int
		for i := 0; i < n; i++ {
			if rng.Intn(8) == 0 {
				seq = append(seq, rng.Intn(len(calls)))
			} else {
				seq = append(seq, blocks[rng.Intn(len(blocks))])
			}
		}
		play := func(b *Builder) {
			for _, k := range seq {
				calls[k](b)
			}
			// close what is open so that some sequences are accepted
			for i := 0; i < 3; i++ {
				if b.Err != nil {
					return
				}
				if b.Close() == nil {
					return
				}
				b.Err = nil
				switch i {
				case 0:
					b.TextEnd()
				case 1:
					b.Stroke()
				case 2:
					b.PopGraphicsState()
				}
				if rng.Intn(4) == 0 {
					b.MarkedContentEnd()
				}
			}
		}
		// segmented production: Harvest between the calls and before Close
		playSegs := func(b *Builder) []*content.Operators {
			var segs []*content.Operators
			harvest := func() bool {
				o, err := b.Harvest()
				if err != nil {
					return false
				}
				if len(b.Stream) != 0 {
					t.Errorf("B2-FAIL builder-harvest run=%d calls=%v: accumulator not cleared", run, seq)
				}
				segs = append(segs, o)
				return true
			}
			for _, k := range seq {
				calls[k](b)
				if rng.Intn(3) == 0 && !harvest() {
					return nil
				}
			}
			for i := 0; i < 4; i++ {
				if b.Err != nil {
					return nil
				}
				if rng.Intn(2) == 0 && !harvest() {
					return nil
				}
				if b.Close() == nil {
					if !harvest() {
						return nil
					}
					return segs
				}
				switch i {
				case 0:
					b.TextEnd()
				case 1:
					b.Stroke()
				case 2:
					b.PopGraphicsState()
				}
			}
			return nil
		}
		for mode := 0; mode < 4; mode++ {
			cases++
			desc := fmt.Sprintf("run=%d version=%s mode=%d calls=%v", run, v, mode, seq)
			var ops *content.Operators
			var segs []*content.Operators
			func() {
				defer func() {
					if r := recover(); r != nil {
						t.Errorf("B2-FAIL builder-panic %s: %v", desc, r)
					}
				}()
				b := New(content.Page, nil, v)
				switch mode {
				case 0:
					play(b)
					if b.Err != nil || b.Close() != nil {
						return
					}
					o, err := b.Harvest()
					if err == nil {
						ops = o
					}
				case 1:
					b.PushGraphicsState()
					b.SetLineWidth(1)
					b.PopGraphicsState()
					if _, err := b.Harvest(); err != nil {
						return
					}
					b.Reset()
					play(b)
					if b.Err != nil || b.Close() != nil {
						return
					}
					o, err := b.Harvest()
					if err == nil {
						ops = o
					}
				case 2:
					o := b.Build(func(b *Builder) error {
						play(b)
						return nil
					})
					if b.Err != nil {
						return
					}
					ops = o
				case 3:
					segs = playSegs(b)
				}
			}()
			if ops != nil {
				segs = []*content.Operators{ops}
			}
			if segs == nil {
				continue // rejected by the Builder
			}
			accepted++
			if err := c15Reread(v, segs...); err != nil {
				t.Errorf("B2-FAIL builder-reread %s: %v", desc, err)
			}
		}
	}
	if accepted*5 < cases {
		t.Errorf("B2-FAIL harness: only %d of %d sequences were accepted by the Builder", accepted, cases)
	}

	// small scope, exhaustive: every sequence of up to maxLen primitive calls, Harvest being
	// one of them, followed by Close and a last Harvest.  Whatever is accepted must re-read
	// as a balanced sequence when the harvested segments are put one after the other.
	prim := []struct {
		name string
		f    func(b *Builder, segs *[]*content.Operators)
	}{
		{"q", func(b *Builder, _ *[]*content.Operators) { b.PushGraphicsState() }},
		{"Q", func(b *Builder, _ *[]*content.Operators) { b.PopGraphicsState() }},
		{"BT", func(b *Builder, _ *[]*content.Operators) { b.TextBegin() }},
		{"ET", func(b *Builder, _ *[]*content.Operators) { b.TextEnd() }},
		{"BMC", func(b *Builder, _ *[]*content.Operators) {
			b.MarkedContentStart(&graphics.MarkedContent{Tag: "Span"})
		}},
		{"EMC", func(b *Builder, _ *[]*content.Operators) { b.MarkedContentEnd() }},
		{"re", func(b *Builder, _ *[]*content.Operators) { b.Rectangle(1, 2, 3, 4) }},
		{"S", func(b *Builder, _ *[]*content.Operators) { b.Stroke() }},
		{"w", func(b *Builder, _ *[]*content.Operators) { b.SetLineWidth(2) }},
		{"Harvest", func(b *Builder, segs *[]*content.Operators) {
			if o, err := b.Harvest(); err == nil {
				*segs = append(*segs, o)
			}
		}},
	}
	maxLen := 4
	if thorough {
		maxLen = 6
	}
	smallAccepted := 0
	for length := 1; length <= maxLen; length++ {
		idx := make([]int, length)
		for {
			for _, v := range []pdf.Version{pdf.V1_4, pdf.V1_7, pdf.V2_0} {
				cases++
				var segs []*content.Operators
				b := New(content.Page, nil, v)
				var names []string
				for _, k := range idx {
					prim[k].f(b, &segs)
					names = append(names, prim[k].name)
				}
				if b.Err != nil || b.Close() != nil {
					continue
				}
				if o, err := b.Harvest(); err == nil {
					segs = append(segs, o)
					smallAccepted++
					if err := c15Reread(v, segs...); err != nil {
						t.Errorf("B2-FAIL builder-segments version=%s calls=%v Close: %v", v, names, err)
					}
				}
			}
			k := length - 1
			for k >= 0 {
				idx[k]++
				if idx[k] < len(prim) {
					break
				}
				idx[k] = 0
				k--
			}
			if k < 0 {
				break
			}
		}
	}
	if smallAccepted == 0 {
		t.Errorf("B2-FAIL harness: no enumerated sequence was accepted")
	}
	if c15CrossTextMC > 0 {
		// recorded finding (known-findings.txt, kind text-mc-overlap)
		t.Errorf("B2-FAIL text-mc-overlap %d accepted call sequences produce a text object and a marked-content sequence that overlap without one containing the other (e.g. BT BMC ET EMC), which ISO 32000-2 14.6.1 forbids", c15CrossTextMC)
	}
	t.Logf("accepted %d random, %d enumerated", accepted, smallAccepted)
	t.Logf("B2-CASES %d", cases)
}
