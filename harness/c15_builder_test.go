package builder

// B2 bounded check for C15 (labelled bounded): whatever call sequence a Builder accepts
// must serialise to a stream that re-reads as the same operators and is a balanced,
// valid operator sequence for the Builder's PDF version, judged by a fresh
// content.State.  Sequences are random walks over 16 Builder calls (including calls in
// the wrong state and graphics state nesting deeper than 28), run on a fresh Builder,
// on a Builder after Reset and through Build.

import (
	"bytes"
	"fmt"
	"io"
	"math/rand"
	"os"
	"slices"
	"testing"

	"seehuhn.de/go/pdf"
	"seehuhn.de/go/pdf/graphics"
	"seehuhn.de/go/pdf/graphics/content"
)

func c15Reread(ops *content.Operators, v pdf.Version) error {
	rc, err := ops.RawBytes()
	if err != nil {
		return fmt.Errorf("RawBytes: %w", err)
	}
	data, err := io.ReadAll(rc)
	rc.Close()
	if err != nil {
		return fmt.Errorf("RawBytes read: %w", err)
	}
	stm := content.NewScanner(func() (io.ReadCloser, error) { return io.NopCloser(bytes.NewReader(data)), nil })
	it := stm.NewIter()
	var got []content.Operator
	for name, args := range it.All() {
		got = append(got, content.Operator{Name: name, Args: slices.Clone(args)})
	}
	if err := it.Err(); err != nil {
		return fmt.Errorf("re-read: %w (%q)", err, data)
	}
	if !(&content.Operators{Ops: got}).Equal(ops) {
		return fmt.Errorf("re-read operators differ from the written ones (%q)", data)
	}
	st := content.NewState(content.Page, &content.Resources{})
	st.Version = v
	for i, op := range got {
		if err := content.CheckOperatorVersion(op.Name, v); err != nil {
			return fmt.Errorf("operator %d (%s) not valid in version %s: %w", i, op.Name, v, err)
		}
		if err := st.ApplyOperator(op.Name, op.Args); err != nil {
			return fmt.Errorf("accepted by the Builder, invalid on re-reading for version %s: operator %d (%s): %w", v, i, op.Name, err)
		}
	}
	if err := st.CanClose(); err != nil {
		return fmt.Errorf("re-read stream is not balanced: %w", err)
	}
	// independent of content.State: q/Q are balanced, and text objects, marked-content
	// sequences and compatibility sections nest properly among themselves and are all closed
	// (ISO 32000-2, 14.6.1: marked content shall be properly nested with text objects)
	depthQ := 0
	var stack []string
	closers := map[string]string{"ET": "BT", "EMC": "BMC", "EX": "BX"}
	for i, op := range got {
		name := string(op.Name)
		if name == "BDC" {
			name = "BMC"
		}
		switch name {
		case "q":
			depthQ++
		case "Q":
			depthQ--
			if depthQ < 0 {
				return fmt.Errorf("operator %d: Q without q", i)
			}
		case "BT", "BMC", "BX":
			stack = append(stack, name)
		case "ET", "EMC", "EX":
			if len(stack) == 0 || stack[len(stack)-1] != closers[name] {
				return fmt.Errorf("operator %d (%s) closes %v: paired operators are not properly nested", i, op.Name, stack)
			}
			stack = stack[:len(stack)-1]
		}
	}
	if len(stack) != 0 || depthQ != 0 {
		return fmt.Errorf("re-read stream leaves %v and %d q open", stack, depthQ)
	}
	return nil
}

func TestB2C15Builder(t *testing.T) {
	thorough := os.Getenv("VERIF_TIER") == "thorough"
	seed := int64(1)
	fmt.Sscanf(os.Getenv("VERIF_SEED"), "%d", &seed)
	rng := rand.New(rand.NewSource(seed))
	calls := []func(b *Builder){
		func(b *Builder) { b.PushGraphicsState() }, func(b *Builder) { b.PushGraphicsState() },
		func(b *Builder) { b.PopGraphicsState() }, func(b *Builder) { b.PopGraphicsState() },
		func(b *Builder) { b.TextBegin() }, func(b *Builder) { b.TextEnd() },
		func(b *Builder) { b.SetLineWidth(2.5) },
		func(b *Builder) { b.MoveTo(0, 0) }, func(b *Builder) { b.LineTo(10, 10.25) },
		func(b *Builder) { b.Rectangle(1, 2, 30, 40) }, func(b *Builder) { b.ClosePath() },
		func(b *Builder) { b.Stroke() }, func(b *Builder) { b.Fill() }, func(b *Builder) { b.FillAndStroke() },
		func(b *Builder) { b.MoveTo(5, 5); b.LineTo(6, 7); b.Stroke() },
		func(b *Builder) { // 15: nesting deeper than PDF 1.x allows
			for range 29 {
				b.PushGraphicsState()
			}
			for range 29 {
				b.PopGraphicsState()
			}
		},
		func(b *Builder) {
			b.PushGraphicsState()
			b.SetLineWidth(3)
			b.Rectangle(0, 0, 5, 5)
			b.Fill()
			b.PopGraphicsState()
		}, // 16
		func(b *Builder) { b.TextBegin(); b.TextEnd() },                                              // 17
		func(b *Builder) { b.TextBegin(); b.PushGraphicsState(); b.PopGraphicsState(); b.TextEnd() }, // 18: q inside a text object
		func(b *Builder) { b.MarkedContentStart(&graphics.MarkedContent{Tag: "Span"}) },              // 19
		func(b *Builder) { b.MarkedContentEnd() },                                                    // 20
		func(b *Builder) { // 21: properly nested marked content inside a saved state
			b.PushGraphicsState()
			b.MarkedContentStart(&graphics.MarkedContent{Tag: "P"})
			b.Rectangle(0, 0, 1, 1)
			b.Fill()
			b.MarkedContentEnd()
			b.PopGraphicsState()
		},
		func(b *Builder) { // 22: cross-nested: the state is restored inside the marked content
			b.PushGraphicsState()
			b.MarkedContentStart(&graphics.MarkedContent{Tag: "Span"})
			b.PopGraphicsState()
		},
		func(b *Builder) { // 23: cross-nested the other way round
			b.MarkedContentStart(&graphics.MarkedContent{Tag: "Span"})
			b.PushGraphicsState()
			b.MarkedContentEnd()
			b.PopGraphicsState()
		},
		func(b *Builder) { // 24: nesting at the limit
			for range 28 {
				b.PushGraphicsState()
			}
			for range 28 {
				b.PopGraphicsState()
			}
		},
	}
	runs := 300
	if thorough {
		runs = 5000
	}
	cases, accepted := 0, 0
	for run := 0; run < runs; run++ {
		v := []pdf.Version{pdf.V1_4, pdf.V1_7, pdf.V2_0}[run%3]
		// mostly well-formed blocks (indices 14.. are blocks), sometimes a stray call
		blocks := []int{14, 14, 15, 16, 17, 18, 24, 6, 21, 21, 22, 23}
		n := 1 + rng.Intn(6)
		var seq []int
		for i := 0; i < n; i++ {
			if rng.Intn(8) == 0 {
				seq = append(seq, rng.Intn(len(calls)))
			} else {
				seq = append(seq, blocks[rng.Intn(len(blocks))])
			}
		}
		play := func(b *Builder) {
			for _, k := range seq {
				calls[k](b)
			}
			// close what is open so that some sequences are accepted
			for i := 0; i < 3; i++ {
				if b.Err != nil {
					return
				}
				if b.Close() == nil {
					return
				}
				b.Err = nil
				switch i {
				case 0:
					b.TextEnd()
				case 1:
					b.Stroke()
				case 2:
					b.PopGraphicsState()
				}
				if rng.Intn(4) == 0 {
					b.MarkedContentEnd()
				}
			}
		}
		for mode := 0; mode < 3; mode++ {
			cases++
			desc := fmt.Sprintf("run=%d version=%s mode=%d calls=%v", run, v, mode, seq)
			var ops *content.Operators
			func() {
				defer func() {
					if r := recover(); r != nil {
						t.Errorf("B2-FAIL builder-panic %s: %v", desc, r)
					}
				}()
				b := New(content.Page, nil, v)
				switch mode {
				case 0:
					play(b)
					if b.Err != nil || b.Close() != nil {
						return
					}
					o, err := b.Harvest()
					if err == nil {
						ops = o
					}
				case 1:
					b.PushGraphicsState()
					b.SetLineWidth(1)
					b.PopGraphicsState()
					if _, err := b.Harvest(); err != nil {
						return
					}
					b.Reset()
					play(b)
					if b.Err != nil || b.Close() != nil {
						return
					}
					o, err := b.Harvest()
					if err == nil {
						ops = o
					}
				case 2:
					o := b.Build(func(b *Builder) error {
						play(b)
						return nil
					})
					if b.Err != nil {
						return
					}
					ops = o
				}
			}()
			if ops == nil {
				continue // rejected by the Builder
			}
			accepted++
			if err := c15Reread(ops, v); err != nil {
				t.Errorf("B2-FAIL builder-reread %s: %v", desc, err)
			}
		}
	}
	if accepted*5 < cases {
		t.Errorf("B2-FAIL harness: only %d of %d sequences were accepted by the Builder", accepted, cases)
	}
	t.Logf("accepted %d", accepted)
	t.Logf("B2-CASES %d", cases)
}
