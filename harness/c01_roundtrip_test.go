package pdf

// B2 bounded contract check for C01 (labelled bounded, never counted as proved):
// Format followed by the scanner yields an equal value, for an enumerated domain
// of small objects, under every combination of output options; sequences of
// objects stay separately parseable.  Oracle: the property statement itself.

import (
	"bytes"
	"fmt"
	"math"
	"math/rand"
	"os"
	"syscall"
	"testing"
	"time"
)

// b2Short renders a value for a failure line, shortened (deeply nested values are huge).
func b2Short(v any) string {
	s := fmt.Sprintf("%#v", v)
	if len(s) > 300 {
		s = s[:300] + fmt.Sprintf("...(%d bytes)", len(s))
	}
	return s
}

func b2ShortErr(err error) string {
	if err == nil {
		return "<nil>"
	}
	s := err.Error()
	if len(s) > 200 {
		s = s[:80] + " ... " + s[len(s)-80:]
	}
	return s
}

func b2Thorough() bool { return os.Getenv("VERIF_TIER") == "thorough" }

// b2CPU is the CPU time (user + system) this process has used so far.  Time bounds in the
// harnesses are stated in CPU time, so that a loaded machine does not raise false alarms.
func b2CPU() time.Duration {
	var ru syscall.Rusage
	if err := syscall.Getrusage(syscall.RUSAGE_SELF, &ru); err != nil {
		return 0
	}
	return time.Duration(ru.Utime.Nano() + ru.Stime.Nano())
}

var b2Alphabet = []byte{0x00, '\n', '\r', ' ', '#', '(', ')', '/', '\\', '0', 'A', '<', '>', '[', '%', 0x7f, 0x80, 0xff}

func b2Strings(maxLen int) [][]byte {
	out := [][]byte{{}}
	cur := [][]byte{{}}
	for l := 1; l <= maxLen; l++ {
		var next [][]byte
		for _, s := range cur {
			for _, c := range b2Alphabet {
				t := append(append([]byte{}, s...), c)
				next = append(next, t)
			}
		}
		out = append(out, next...)
		cur = next
	}
	return out
}

func b2Scalars(strLen, nameLen int) []Object {
	var out []Object
	out = append(out, nil, Boolean(true), Boolean(false))
	for _, i := range []int64{0, 1, -1, 9, 10, 127, 65535, math.MaxInt32, math.MinInt32, math.MaxInt64, math.MinInt64} {
		out = append(out, Integer(i))
	}
	for _, r := range []float64{0, 1, -1, 0.5, -0.25, 1e-7, 123456789.125, 1e20, -1e20, 3, 0.1,
		// around the limits of exact and of 64-bit integer representation, and the ends of the range
		9007199254740992, 9007199254740994, -9007199254740992, 9223372036854775807, 9223372036854775808, -9223372036854775808, 9.5e18, -9.5e18, 1e19, 1.8446744073709552e19,
		4294967296, 2147483648, -2147483649, 1e15, 123456.7890625, 1e-5, 0.000001, 1.5e-10, 5e-324, math.MaxFloat64, -math.MaxFloat64, math.SmallestNonzeroFloat64,
		9.100000000000001, 1234.5678901234567, 0.1 + 0.2, math.Pi, 1e21, 1e22, 123456789012345680} {
		out = append(out, Real(r))
	}
	for _, s := range b2Strings(nameLen) {
		out = append(out, Name(s))
	}
	for _, s := range b2Strings(strLen) {
		out = append(out, String(s))
	}
	// strings over a small alphabet of the characters with special meaning, up to length 5:
	// every pattern of balanced and unbalanced parentheses and escapes
	for _, alpha := range [][]byte{{'(', ')', '\\', 'a'}, {'(', ')'}} {
		maxLen := 4
		if len(alpha) == 2 {
			maxLen = 7
		}
		cur := [][]byte{{}}
		for l := 1; l <= maxLen; l++ {
			var next [][]byte
			for _, x := range cur {
				for _, c := range alpha {
					next = append(next, append(append([]byte{}, x...), c))
				}
			}
			if l >= 3 {
				for _, x := range next {
					out = append(out, String(x))
				}
			}
			cur = next
		}
	}
	out = append(out, String("(a) and (b"), String("f(x) = g(y"), String("\\(\\)"), String("a\\"), String("(\r\n)"))
	out = append(out, NewReference(1, 0), NewReference(16777215, 65535), NewReference(7, 3))
	return out
}

func b2Parse(t *testing.T, data []byte, count int) ([]Object, error) {
	s := newScanner(bytes.NewReader(data), nil, nil)
	var res []Object
	for i := 0; i < count; i++ {
		if err := s.SkipWhiteSpace(); err != nil {
			return res, fmt.Errorf("object %d: %v", i, err)
		}
		obj, err := s.ReadObject()
		if err != nil {
			return res, fmt.Errorf("object %d: %v", i, err)
		}
		// "a b R" at top level
		if a, ok := obj.(Integer); ok {
			save := *s
			_ = save
			_ = a
		}
		res = append(res, obj)
	}
	return res, nil
}

// b2ParseOne parses exactly one object, collapsing "a b R" like the readers of composite objects do.
func b2ParseOne(data []byte) (Object, error) {
	wrapped := append(append([]byte("["), data...), ']')
	s := newScanner(bytes.NewReader(wrapped), nil, nil)
	obj, err := s.ReadObject()
	if err != nil {
		return nil, err
	}
	arr, ok := obj.(Array)
	if !ok || len(arr) != 1 {
		return nil, fmt.Errorf("parsed %d objects instead of one: %v", len(arr), obj)
	}
	return arr[0], nil
}

func b2Expect(o Object) Object {
	// a nil array or dictionary is null; nil dictionary entries are absent
	switch x := o.(type) {
	case Array:
		if x == nil {
			return nil
		}
		r := make(Array, len(x))
		for i, e := range x {
			r[i] = b2Expect(e)
		}
		return r
	case Dict:
		if x == nil {
			return nil
		}
		r := Dict{}
		for k, v := range x {
			if v != nil {
				r[k] = b2Expect(v)
			}
		}
		return r
	}
	return o
}

// b2Key classifies a failing value: the two recorded findings get their own keys so
// that any other failure is still reported as a violation.
func b2Key(def string, objs ...Object) string {
	var hasEmptyString, hasNilDict func(o Object) bool
	hasEmptyString = func(o Object) bool {
		switch x := o.(type) {
		case String:
			return x != nil && len(x) == 0
		case Array:
			for _, e := range x {
				if hasEmptyString(e) {
					return true
				}
			}
		case Dict:
			for _, e := range x {
				if hasEmptyString(e) {
					return true
				}
			}
		}
		return false
	}
	hasNilDict = func(o Object) bool {
		switch x := o.(type) {
		case Dict:
			if x == nil {
				return true
			}
			for _, e := range x {
				if hasNilDict(e) {
					return true
				}
			}
		case Array:
			for _, e := range x {
				if hasNilDict(e) {
					return true
				}
			}
		}
		return false
	}
	for _, o := range objs {
		if hasNilDict(o) {
			return "nil-dict"
		}
	}
	for _, o := range objs {
		if hasEmptyString(o) {
			return "empty-string"
		}
	}
	return def
}

var b2Opts = []OutputOptions{0, OptPretty, OptTextStringUtf8, OptDictTypes, OptPretty | OptTextStringUtf8 | OptDictTypes}

func TestB2C01Scalars(t *testing.T) {
	strLen, nameLen := 2, 2
	if b2Thorough() {
		strLen, nameLen = 3, 3
	}
	objs := b2Scalars(strLen, nameLen)
	cases := 0
	for _, opt := range b2Opts {
		for _, o := range objs {
			cases++
			var buf bytes.Buffer
			if err := Format(&buf, opt, o); err != nil {
				t.Errorf("B2-FAIL format-error opt=%d obj=%#v: %v", opt, o, err)
				continue
			}
			first := append([]byte{}, buf.Bytes()...)
			got, err := b2ParseOne(first)
			if err != nil || !Equal(got, b2Expect(o)) {
				t.Errorf("B2-FAIL %s opt=%d obj=%#v text=%q got=%#v err=%v", b2Key("scalar-roundtrip", o), opt, o, first, got, err)
			}
			// determinism
			var buf2 bytes.Buffer
			Format(&buf2, opt, o)
			if !bytes.Equal(first, buf2.Bytes()) {
				t.Errorf("B2-FAIL nondeterministic opt=%d obj=%#v", opt, o)
			}
		}
	}
	t.Logf("B2-CASES %d", cases)
}

func TestB2C01Sequences(t *testing.T) {
	// pairs and triples formatted one after another stay separately parseable
	small := []Object{nil, Boolean(true), Integer(0), Integer(-12), Real(0.5), Real(3), Name("A"), Name(""), Name("a b"), Name("#"), String("x"), String(""), String("("), String("\xff\x00\x80\x81\x82\x83\x84\x85\x86\x87"), NewReference(3, 0),
		Array{}, Array{Integer(1), Integer(2)}, Dict{}, Dict{"K": Integer(1)}, Dict{"K": Name("V")}, Array{Name("N"), String("s")}}
	cases := 0
	for _, opt := range b2Opts {
		for _, a := range small {
			for _, b := range small {
				seqs := [][]Object{{a, b}}
				if b2Thorough() {
					for _, c := range small {
						seqs = append(seqs, []Object{a, b, c})
					}
				}
				for _, seq := range seqs {
					cases++
					var buf bytes.Buffer
					if err := Format(&buf, opt, seq...); err != nil {
						t.Errorf("B2-FAIL format-error opt=%d seq=%#v: %v", opt, seq, err)
						continue
					}
					got, err := b2ParseOne(buf.Bytes())
					_ = got
					// parse as an array body so that references collapse like in a real file
					wrapped := append(append([]byte("["), buf.Bytes()...), ']')
					s := newScanner(bytes.NewReader(wrapped), nil, nil)
					obj, err := s.ReadObject()
					arr, _ := obj.(Array)
					want := Array{}
					for _, o := range seq {
						want = append(want, b2Expect(o))
					}
					if err != nil || !Equal(arr, want) {
						t.Errorf("B2-FAIL %s opt=%d seq=%#v text=%q got=%#v err=%v", b2Key("sequence", seq...), opt, seq, buf.Bytes(), obj, err)
					}
				}
			}
		}
	}
	t.Logf("B2-CASES %d", cases)
}

func TestB2C01Trees(t *testing.T) {
	leaves := []Object{nil, Integer(7), Real(1.5), Name("N"), Name("a/b"), String("s)("), String("\r\n"), NewReference(9, 1), Boolean(false),
		NewReference(16777215, 65535), NewReference(1, 65535), NewReference(16777215, 0), Integer(16777216), Integer(65536)}
	var trees []Object
	for _, a := range leaves {
		for _, b := range leaves {
			trees = append(trees, Array{a, b}, Dict{"A": a, "B": b}, Array{Array{a}, Dict{"X": b}}, Dict{"D": Dict{"E": a}, "F": Array{b, a}})
		}
	}
	trees = append(trees, Array(nil), Dict(nil), Array{Array(nil)}, Dict{"N": nil}, Array{Dict{}}, Array{Array{Array{Array{Integer(1)}}}})
	// nesting up to the documented limit of 256 containers, arrays and dictionaries alternating
	// in every phase, innermost container of either kind
	for _, depth := range []int{100, 253, 254, 255} { // the parse helper adds one enclosing array: 255 here is the limit of 256
		for phase := 0; phase < 2; phase++ {
			var o Object = Integer(depth)
			for d := 0; d < depth; d++ {
				if (d+phase)%2 == 0 {
					o = Array{o}
				} else {
					o = Dict{"K": o}
				}
			}
			trees = append(trees, o)
		}
		var arrs, dicts Object = Array{}, Dict{}
		for d := 1; d < depth; d++ {
			arrs = Array{arrs}
			dicts = Dict{"K": dicts}
		}
		trees = append(trees, arrs, dicts)
	}
	cases := 0
	for _, opt := range b2Opts {
		for _, o := range trees {
			cases++
			var buf bytes.Buffer
			if err := Format(&buf, opt, o); err != nil {
				t.Errorf("B2-FAIL format-error opt=%d obj=%#v: %v", opt, o, err)
				continue
			}
			got, err := b2ParseOne(buf.Bytes())
			if err != nil || !Equal(got, b2Expect(o)) {
				key := b2Key("tree-roundtrip", o)
				t.Errorf("B2-FAIL %s opt=%d obj=%s text=%.300q got=%s err=%s", key, opt, b2Short(o), buf.Bytes(), b2Short(got), b2ShortErr(err))
			}
		}
	}
	t.Logf("B2-CASES %d", cases)
}

// c01Seed returns the seed of the randomised parts (VERIF_SEED, default 1).
func c01Seed() int64 {
	seed := int64(1)
	fmt.Sscanf(os.Getenv("VERIF_SEED"), "%d", &seed)
	return seed
}

// c01AllOpts lists every combination of the five public output options.
func c01AllOpts() []OutputOptions {
	bits := []OutputOptions{OptDictTypes, OptTrimStandardFonts, OptPretty, OptTextStringUtf8, OptContentStream}
	var out []OutputOptions
	for m := 0; m < 1<<len(bits); m++ {
		var o OutputOptions
		for i, b := range bits {
			if m&(1<<i) != 0 {
				o |= b
			}
		}
		out = append(out, o)
	}
	return out
}

// TestB2C01NameThenValue: a name (as a dictionary key, an array element or a top-level
// object) followed by a value of every kind.  The name carries every byte value in
// first, inner and last position; the value starts with every kind of token (regular
// character, sign, period, delimiter).  All 32 option combinations.
func TestB2C01NameThenValue(t *testing.T) {
	var names []Name
	for c := 0; c < 256; c++ {
		b := byte(c)
		names = append(names, Name([]byte{b}), Name([]byte{'K', b}), Name([]byte{b, 'K'}), Name([]byte{'K', b, 'K'}))
	}
	for _, s := range b2Strings(2) {
		names = append(names, Name(s))
	}
	values := []Object{Integer(1), Integer(-1), Real(0.5), Real(-2.5), Real(3), Boolean(true), Boolean(false), NewReference(3, 0),
		Name("V"), Name(""), String("s"), String("\x80\xff"), String("("), Array{}, Array{Integer(1)}, Dict{}, Dict{"I": Integer(1)}, nil, Array(nil)}
	opts := c01AllOpts()
	cases := 0
	fails := 0
	dropNulls := func(o Object) Object {
		d, ok := o.(Dict)
		if !ok {
			return o
		}
		r := Dict{}
		for k, v := range d {
			if v != nil {
				r[k] = v
			}
		}
		return r
	}
	check := func(kind string, opt OutputOptions, text []byte, ferr error, want Object, o Object) {
		cases++
		if ferr != nil {
			t.Errorf("B2-FAIL format-error %s opt=%d obj=%s: %v", kind, opt, b2Short(o), ferr)
			return
		}
		got, err := b2ParseOne(text)
		if err != nil || !Equal(dropNulls(got), want) {
			fails++
			if fails <= 40 {
				t.Errorf("B2-FAIL %s opt=%d obj=%s text=%.200q got=%s err=%s", kind, opt, b2Short(o), text, b2Short(got), b2ShortErr(err))
			}
		}
	}
	for _, opt := range opts {
		for _, name := range names {
			for _, v := range values {
				// an entry with a null value (nil, nil array) is absent or reads as null, which the
				// property treats alike: both sides are compared without their null entries
				d := Dict{name: v, "M": Integer(2)}
				var dbuf bytes.Buffer
				ferr := Format(&dbuf, opt, d)
				check("name-then-value-dict", opt, dbuf.Bytes(), ferr, dropNulls(b2Expect(d)), d)
				a := Array{name, v, name}
				var buf bytes.Buffer
				ferr = Format(&buf, opt, a)
				check("name-then-value-array", opt, buf.Bytes(), ferr, b2Expect(a), a)
				// top level: the parse helper reads the objects as the body of an array
				buf.Reset()
				ferr = Format(&buf, opt, name, v, name)
				check("name-then-value-seq", opt, append(append([]byte("["), buf.Bytes()...), ']'), ferr, b2Expect(a), a)
			}
		}
	}
	if fails > 40 {
		t.Errorf("B2-FAIL name-then-value (%d further failures not listed)", fails-40)
	}
	t.Logf("B2-CASES %d", cases)
}

// c01RandBytes draws a byte string: every byte value can occur, the bytes with a special
// meaning in the syntax are favoured.
func c01RandBytes(rng *rand.Rand, maxLen int) []byte {
	n := rng.Intn(maxLen + 1)
	special := []byte("\x00\t\n\f\r ()<>[]{}/%#\\+-.0129ARnrtbf\x7f\x80\xff")
	out := make([]byte, n)
	for i := range out {
		if rng.Intn(3) == 0 {
			out[i] = byte(rng.Intn(256))
		} else {
			out[i] = special[rng.Intn(len(special))]
		}
	}
	return out
}

func c01RandObject(rng *rand.Rand, depth int) Object {
	k := rng.Intn(12)
	if depth <= 0 && k >= 9 {
		k = rng.Intn(9)
	}
	switch k {
	case 0:
		return nil
	case 1:
		return Boolean(rng.Intn(2) == 0)
	case 2:
		switch rng.Intn(4) {
		case 0:
			return Integer(rng.Intn(21) - 10)
		case 1:
			return Integer(int64(rng.Uint64()))
		case 2:
			return Integer(int64(1)<<uint(rng.Intn(63)) - int64(rng.Intn(3)) + 1)
		default:
			return Integer(-(int64(1)<<uint(rng.Intn(63)) - int64(rng.Intn(3)) + 1))
		}
	case 3:
		switch rng.Intn(4) {
		case 0:
			return Real(float64(rng.Intn(2001)-1000) / 8)
		case 1:
			return Real(float64(rng.Intn(2000001)-1000000) / 1000)
		case 2:
			return Real(math.Ldexp(float64(rng.Int63n(1<<53)), rng.Intn(200)-126) * float64(1-2*rng.Intn(2)))
		default:
			for {
				x := math.Float64frombits(rng.Uint64())
				if !math.IsNaN(x) && !math.IsInf(x, 0) {
					return Real(x)
				}
			}
		}
	case 4, 5:
		return Name(c01RandBytes(rng, 6))
	case 6, 7:
		s := c01RandBytes(rng, 12)
		if len(s) == 0 {
			// the non-nil empty string is a recorded finding (empty-string), enumerated elsewhere
			return String(nil)
		}
		return String(s)
	case 8:
		return NewReference(uint32(rng.Intn(1<<24-1))+1, uint16(rng.Intn(65536)))
	case 9, 10:
		n := rng.Intn(5)
		a := make(Array, n)
		for i := range a {
			a[i] = c01RandObject(rng, depth-1)
		}
		return a
	default:
		n := rng.Intn(5)
		d := Dict{}
		for i := 0; i < n; i++ {
			d[Name(c01RandBytes(rng, 4))] = c01RandObject(rng, depth-1)
		}
		return d
	}
	return nil
}

// TestB2C01Random: random object trees (names and strings over all byte values, integers
// and reals over the whole range) formatted one after another under a random option
// combination.
func TestB2C01Random(t *testing.T) {
	rng := rand.New(rand.NewSource(c01Seed()))
	rounds := 200000
	if b2Thorough() {
		rounds = 1500000
	}
	opts := c01AllOpts()
	fails := 0
	for i := 0; i < rounds; i++ {
		opt := opts[rng.Intn(len(opts))]
		n := 1 + rng.Intn(3)
		seq := make([]Object, n)
		want := Array{}
		for j := range seq {
			seq[j] = c01RandObject(rng, 3)
			want = append(want, b2Expect(seq[j]))
		}
		var buf, buf2 bytes.Buffer
		if err := Format(&buf, opt, seq...); err != nil {
			t.Errorf("B2-FAIL format-error opt=%d seq=%s: %v", opt, b2Short(seq), err)
			continue
		}
		Format(&buf2, opt, seq...)
		if !bytes.Equal(buf.Bytes(), buf2.Bytes()) {
			t.Errorf("B2-FAIL nondeterministic opt=%d seq=%s", opt, b2Short(seq))
		}
		wrapped := append(append([]byte("["), buf.Bytes()...), ']')
		s := newScanner(bytes.NewReader(wrapped), nil, nil)
		obj, err := s.ReadObject()
		if err != nil || !Equal(obj, want) {
			fails++
			if fails <= 20 {
				t.Errorf("B2-FAIL %s opt=%d seq=%s text=%.300q got=%s err=%s", b2Key("random-roundtrip", seq...), opt, b2Short(seq), buf.Bytes(), b2Short(obj), b2ShortErr(err))
			}
		}
	}
	if fails > 20 {
		t.Errorf("B2-FAIL random-roundtrip (%d further failures not listed)", fails-20)
	}
	t.Logf("B2-CASES %d", rounds)
}
