package pagetree

// B2 bounded check for C16 (labelled bounded, never counted as proved): scripted and
// pseudo-random interleavings of appends to the root and to nested ranges; the
// written tree is reopened and compared with a list model of the document.

import (
	"bytes"
	"fmt"
	"math/rand"
	"os"
	"testing"

	"seehuhn.de/go/pdf"
)

type c16Page struct {
	id       int
	mediaBox pdf.Object
	rotate   pdf.Object
	crop     pdf.Object // nil: the page has no /CropBox
	res      pdf.Object
	cb       *int // position reported by NextPageNumber, if a callback was registered
}

type c16Range struct {
	w     *Writer
	pages []*c16Page // pages and sub-ranges in order
	subs  map[int]*c16Range
	order []any // *c16Page or *c16Range
}

func (r *c16Range) flatten(out *[]*c16Page) {
	for _, x := range r.order {
		switch v := x.(type) {
		case *c16Page:
			*out = append(*out, v)
		case *c16Range:
			v.flatten(out)
		}
	}
}

func c16Run(t *testing.T, seed int64, steps int, maxDepth int) {
	rng := rand.New(rand.NewSource(seed))
	var buf bytes.Buffer
	out, err := pdf.NewWriter(&buf, pdf.V1_7, nil)
	if err != nil {
		t.Fatal(err)
	}
	rm := pdf.NewResourceManager(out)
	root := &c16Range{w: NewWriter(out, rm)}
	open := []*c16Range{root}
	depthOf := map[*c16Range]int{root: 0}
	nextID := 0
	boxes := []pdf.Object{pdf.Array{pdf.Integer(0), pdf.Integer(0), pdf.Integer(100), pdf.Integer(200)}, pdf.Array{pdf.Integer(0), pdf.Integer(0), pdf.Integer(595), pdf.Integer(842)}}
	rots := []pdf.Object{nil, pdf.Integer(0), pdf.Integer(90), pdf.Integer(270)}
	crops := []pdf.Object{nil, pdf.Array{pdf.Integer(10), pdf.Integer(10), pdf.Integer(90), pdf.Integer(90)}, pdf.Array{pdf.Integer(10), pdf.Integer(10), pdf.Integer(90), pdf.Integer(90)}, pdf.Array{pdf.Integer(5), pdf.Integer(5), pdf.Integer(50), pdf.Integer(50)}}
	ress := []pdf.Object{pdf.Dict{}, pdf.Dict{"Font": pdf.Dict{"F": pdf.Name("x")}}, pdf.Dict{"ProcSet": pdf.Array{pdf.Name("PDF")}}}
	desc := fmt.Sprintf("seed=%d steps=%d", seed, steps)
	var pendingCb []**int
	for s := 0; s < steps; s++ {
		tgt := open[rng.Intn(len(open))]
		switch op := rng.Intn(10); {
		case op < 7:
			// runs of identical attributes make inheritance hoisting likely
			k := 1 + rng.Intn(20)
			mb, ro, re := boxes[rng.Intn(len(boxes))], rots[rng.Intn(len(rots))], ress[rng.Intn(len(ress))]
			cr := crops[rng.Intn(len(crops))]
			for i := 0; i < k; i++ {
				if rng.Intn(8) == 0 {
					mb, ro, re = boxes[rng.Intn(len(boxes))], rots[rng.Intn(len(rots))], ress[rng.Intn(len(ress))]
				}
				pcr := cr
				if rng.Intn(12) == 0 {
					// a single page inside a run that differs only in having no (or another) crop box
					pcr = crops[rng.Intn(len(crops))]
				}
				p := &c16Page{id: nextID, mediaBox: mb, rotate: ro, crop: pcr, res: re}
				nextID++
				if rng.Intn(5) == 0 {
					pos := -2
					p.cb = &pos
					tgt.w.NextPageNumber(func(n int) { *p.cb = n })
				}
				d := pdf.Dict{"Type": pdf.Name("Page"), "ID": pdf.Integer(p.id), "MediaBox": mb, "Resources": re}
				if ro != nil {
					d["Rotate"] = ro
				}
				if pcr != nil {
					d["CropBox"] = pcr
				}
				if err := tgt.w.AppendPageDict(out.Alloc(), d); err != nil {
					t.Errorf("B2-FAIL append %s: %v", desc, err)
					return
				}
				tgt.order = append(tgt.order, p)
			}
		case op < 9 && depthOf[tgt] < maxDepth:
			sub, err := tgt.w.NewRange()
			if err != nil {
				t.Errorf("B2-FAIL newrange %s: %v", desc, err)
				return
			}
			sr := &c16Range{w: sub}
			tgt.order = append(tgt.order, sr)
			open = append(open, sr)
			depthOf[sr] = depthOf[tgt] + 1
		default:
		}
	}
	_ = pendingCb
	var want []*c16Page
	root.flatten(&want)
	var rootRef pdf.Reference
	func() {
		defer func() {
			if r := recover(); r != nil {
				t.Errorf("B2-FAIL panic %s: %v", desc, r)
			}
		}()
		rootRef, err = root.w.Close()
	}()
	if err != nil {
		if len(want) == 0 {
			return
		}
		t.Errorf("B2-FAIL close %s: %v", desc, err)
		return
	}
	if rootRef == 0 {
		return
	}
	out.GetMeta().Catalog.Pages = rootRef
	if err := rm.Close(); err != nil {
		t.Errorf("B2-FAIL rm-close %s: %v", desc, err)
		return
	}
	if err := out.Close(); err != nil {
		t.Errorf("B2-FAIL writer-close %s: %v", desc, err)
		return
	}
	r, err := pdf.NewReader(bytes.NewReader(buf.Bytes()), int64(buf.Len()), nil)
	if err != nil {
		t.Errorf("B2-FAIL reopen %s: %v", desc, err)
		return
	}
	// independent walk of the tree
	type eff struct{ mb, rot, crop, res pdf.Object }
	var got []int
	var gotEff []eff
	var walk func(ref pdf.Reference, parent pdf.Reference, inh eff, depth int) (int, error)
	walk = func(ref pdf.Reference, parent pdf.Reference, inh eff, depth int) (int, error) {
		if depth > 40 {
			return 0, fmt.Errorf("too deep")
		}
		obj, err := r.Get(ref, true)
		d, ok := obj.(pdf.Dict)
		if err != nil || !ok {
			return 0, fmt.Errorf("node %v: %v %v", ref, obj, err)
		}
		if parent != 0 {
			if p, _ := d["Parent"].(pdf.Reference); p != parent {
				return 0, fmt.Errorf("node %v: /Parent %v, listed by %v", ref, d["Parent"], parent)
			}
		} else if d["Parent"] != nil {
			return 0, fmt.Errorf("root has /Parent")
		}
		if v, ok := d["MediaBox"]; ok {
			inh.mb = v
		}
		if v, ok := d["Rotate"]; ok {
			inh.rot = v
		}
		if v, ok := d["CropBox"]; ok {
			inh.crop = v
		}
		if v, ok := d["Resources"]; ok {
			inh.res = v
		}
		switch d["Type"] {
		case pdf.Name("Page"):
			id, _ := d["ID"].(pdf.Integer)
			got = append(got, int(id))
			gotEff = append(gotEff, inh)
			return 1, nil
		case pdf.Name("Pages"):
			kids, _ := d["Kids"].(pdf.Array)
			if len(kids) > 16 {
				return 0, fmt.Errorf("node %v has %d kids", ref, len(kids))
			}
			total := 0
			for _, k := range kids {
				kr, ok := k.(pdf.Reference)
				if !ok {
					return 0, fmt.Errorf("kid is not a reference")
				}
				n, err := walk(kr, ref, inh, depth+1)
				if err != nil {
					return 0, err
				}
				total += n
			}
			if c, _ := d["Count"].(pdf.Integer); int(c) != total {
				return 0, fmt.Errorf("node %v: /Count %v but %d leaf pages below", ref, d["Count"], total)
			}
			return total, nil
		}
		return 0, fmt.Errorf("node %v has /Type %v", ref, d["Type"])
	}
	if _, err := walk(rootRef, 0, eff{}, 0); err != nil {
		t.Errorf("B2-FAIL tree-structure %s: %v", desc, err)
		return
	}
	if len(got) != len(want) {
		t.Errorf("B2-FAIL page-count %s: %d pages in the tree, %d appended", desc, len(got), len(want))
		return
	}
	for i, p := range want {
		if got[i] != p.id {
			t.Errorf("B2-FAIL page-order %s: position %d holds page %d, expected %d", desc, i, got[i], p.id)
			return
		}
		wantRot := p.rotate
		if wantRot == nil {
			wantRot = pdf.Integer(0)
		}
		gotRot := gotEff[i].rot
		if gotRot == nil {
			gotRot = pdf.Integer(0)
		}
		if !pdf.Equal(gotEff[i].crop, p.crop) {
			t.Errorf("B2-FAIL inherited-attributes %s: page %d at position %d: effective CropBox %v, given %v", desc, p.id, i, pdf.AsString(gotEff[i].crop), pdf.AsString(p.crop))
			return
		}
		if !pdf.Equal(gotEff[i].mb, p.mediaBox) || !pdf.Equal(gotRot, wantRot) || !pdf.Equal(gotEff[i].res, p.res) {
			t.Errorf("B2-FAIL inherited-attributes %s: page %d at position %d: MediaBox %v Rotate %v Resources %v, given %v %v %v", desc, p.id, i,
				pdf.AsString(gotEff[i].mb), gotRot, pdf.AsString(gotEff[i].res), pdf.AsString(p.mediaBox), wantRot, pdf.AsString(p.res))
			return
		}
		if i%5 == 0 || i == len(want)-1 {
			// the library's own page lookup sees the same effective attributes
			_, d, err := GetPage(r, i)
			if err != nil || d["ID"] != pdf.Integer(p.id) {
				t.Errorf("B2-FAIL getpage %s: position %d: %v %v", desc, i, d["ID"], err)
				return
			}
			gr := d["Rotate"]
			if gr == nil {
				gr = pdf.Integer(0)
			}
			if !pdf.Equal(d["MediaBox"], p.mediaBox) || !pdf.Equal(d["CropBox"], p.crop) || !pdf.Equal(gr, wantRot) {
				t.Errorf("B2-FAIL getpage-attributes %s: page %d at position %d: MediaBox %v CropBox %v Rotate %v, given %v %v %v", desc, p.id, i,
					pdf.AsString(d["MediaBox"]), pdf.AsString(d["CropBox"]), gr, pdf.AsString(p.mediaBox), pdf.AsString(p.crop), wantRot)
				return
			}
		}
		if p.cb != nil && *p.cb != i {
			t.Errorf("B2-FAIL page-number-callback %s: page %d is at position %d, callback reported %d", desc, p.id, i, *p.cb)
			return
		}
	}
	n, err := NumPages(r)
	if err != nil || n != len(want) {
		t.Errorf("B2-FAIL numpages %s: %d %v", desc, n, err)
	}
}

func TestB2C16PageTree(t *testing.T) {
	runs := 120
	if os.Getenv("VERIF_TIER") == "thorough" {
		runs = 1200
	}
	seed := int64(1)
	fmt.Sscanf(os.Getenv("VERIF_SEED"), "%d", &seed)
	for i := 0; i < runs; i++ {
		steps := 1 + i%40
		c16Run(t, seed*100000+int64(i), steps, 1+i%4)
	}
	// deterministic corner cases: exact powers of the fan-out
	for _, n := range []int{1, 15, 16, 17, 255, 256, 257} {
		c16Fixed(t, n)
	}
	// a document whose only page was added as a raw dictionary: to the root or to a range, with or
	// without a stale /Parent taken over from another document
	single := 0
	for _, inRange := range []bool{false, true} {
		for _, stale := range []bool{false, true} {
			single++
			var buf bytes.Buffer
			out, _ := pdf.NewWriter(&buf, pdf.V1_7, nil)
			rm := pdf.NewResourceManager(out)
			w := NewWriter(out, rm)
			tgt := w
			if inRange {
				tgt, _ = w.NewRange()
			}
			d := pdf.Dict{"Type": pdf.Name("Page"), "ID": pdf.Integer(7), "MediaBox": pdf.Array{pdf.Integer(0), pdf.Integer(0), pdf.Integer(1), pdf.Integer(1)}}
			if stale {
				d["Parent"] = pdf.NewReference(9999, 0)
			}
			pageRef := out.Alloc()
			tgt.AppendPageDict(pageRef, d)
			ref, err := w.Close()
			if err != nil {
				t.Errorf("B2-FAIL close single page range=%v stale=%v: %v", inRange, stale, err)
				continue
			}
			out.GetMeta().Catalog.Pages = ref
			rm.Close()
			out.Close()
			r, err := pdf.NewReader(bytes.NewReader(buf.Bytes()), int64(buf.Len()), nil)
			if err != nil {
				t.Errorf("B2-FAIL reopen single page: %v", err)
				continue
			}
			obj, _ := r.Get(pageRef, true)
			pd, _ := obj.(pdf.Dict)
			parent, _ := pd["Parent"].(pdf.Reference)
			po, _ := r.Get(parent, true)
			pdict, _ := po.(pdf.Dict)
			kids, _ := pdict["Kids"].(pdf.Array)
			if parent == 0 || len(kids) != 1 || kids[0] != pdf.Object(pageRef) || pdict["Count"] != pdf.Integer(1) {
				t.Errorf("B2-FAIL tree-structure single page range=%v stale=%v: page /Parent %v, that node: %v", inRange, stale, pd["Parent"], pdf.AsString(pdict))
			}
		}
	}
	t.Logf("B2-CASES %d", runs+7+single)
}

func c16Fixed(t *testing.T, n int) {
	c16Run(t, int64(-n), 0, 0)
	var buf bytes.Buffer
	out, _ := pdf.NewWriter(&buf, pdf.V1_7, nil)
	rm := pdf.NewResourceManager(out)
	w := NewWriter(out, rm)
	for i := 0; i < n; i++ {
		w.AppendPageDict(out.Alloc(), pdf.Dict{"Type": pdf.Name("Page"), "ID": pdf.Integer(i), "MediaBox": pdf.Array{pdf.Integer(0), pdf.Integer(0), pdf.Integer(1), pdf.Integer(1)}})
	}
	ref, err := w.Close()
	if err != nil {
		t.Errorf("B2-FAIL close n=%d: %v", n, err)
		return
	}
	out.GetMeta().Catalog.Pages = ref
	rm.Close()
	out.Close()
	r, err := pdf.NewReader(bytes.NewReader(buf.Bytes()), int64(buf.Len()), nil)
	if err != nil {
		t.Errorf("B2-FAIL reopen n=%d: %v", n, err)
		return
	}
	for _, k := range []int{0, n / 2, n - 1} {
		_, d, err := GetPage(r, k)
		if err != nil || d["ID"] != pdf.Integer(k) {
			t.Errorf("B2-FAIL getpage n=%d k=%d: %v %v", n, k, d["ID"], err)
		}
	}
}
