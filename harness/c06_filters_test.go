package pdf

// B2 bounded checks for C06, C07 and C08 (labelled bounded, never counted as proved).

import (
	"bytes"
	"compress/lzw"
	"compress/zlib"
	"fmt"
	"golang.org/x/image/ccitt"
	"io"
	"strings"
	"testing"
	"time"

	"seehuhn.de/go/membudget"
	"seehuhn.de/go/pdf/internal/limits"
)

type c06Sink struct{ bytes.Buffer }

func (c *c06Sink) Close() error { return nil }

func c06Encode(f Filter, v Version, data []byte, chunk int) ([]byte, error) {
	sink := &c06Sink{}
	w, err := f.Encode(v, sink)
	if err != nil {
		return nil, err
	}
	for off := 0; off < len(data); {
		n := chunk
		if chunk <= 0 {
			n = 1 + (off*13)%97
		}
		if off+n > len(data) {
			n = len(data) - off
		}
		if _, err := w.Write(data[off : off+n]); err != nil {
			return nil, err
		}
		off += n
	}
	if err := w.Close(); err != nil {
		return nil, err
	}
	return sink.Bytes(), nil
}

func c06Decode(f Filter, v Version, enc []byte, chunk int) ([]byte, error) {
	budget := membudget.New(limits.StreamBudget(int64(len(enc))))
	r, err := f.Decode(v, bytes.NewReader(enc), budget)
	if err != nil {
		return nil, err
	}
	defer r.Close()
	if chunk <= 0 {
		return io.ReadAll(r)
	}
	var out []byte
	buf := make([]byte, chunk)
	for {
		n, err := r.Read(buf)
		out = append(out, buf[:n]...)
		if err == io.EOF {
			return out, nil
		}
		if err != nil {
			return out, err
		}
		if len(out) > 1<<24 {
			return out, fmt.Errorf("runaway output")
		}
	}
}

func c06Filters() []Filter {
	fs := []Filter{FilterASCII85{}, FilterASCIIHex{}, FilterRunLength{}, FilterFlate{}, FilterLZW{}, FilterLZW{OffByOne: true}, FilterCompress{}}
	for _, p := range []FlatePredictor{FlatePredictorTIFF, FlatePredictorPNGNone, FlatePredictorPNGSub, FlatePredictorPNGUp, FlatePredictorPNGAverage, FlatePredictorPNGPaeth, FlatePredictorPNGOptimum} {
		for _, geo := range [][3]int{{1, 8, 6}, {3, 8, 4}, {1, 1, 16}, {1, 4, 6}, {2, 16, 3}, {4, 2, 5}, {3, 4, 5}, {5, 2, 3}, {9, 1, 4}, {256, 8, 2}, {60, 8, 1}, {255, 1, 3}} {
			if geo[0] > 60 && p == FlatePredictorTIFF {
				continue // TIFF predictor: at most 60 colour components
			}
			fs = append(fs, FilterFlate{Predictor: p, Colors: geo[0], BitsPerComponent: geo[1], Columns: geo[2]})
			if p == FlatePredictorPNGUp || p == FlatePredictorTIFF {
				fs = append(fs, FilterLZW{Predictor: p, Colors: geo[0], BitsPerComponent: geo[1], Columns: geo[2], OffByOne: true})
				fs = append(fs, FilterLZW{Predictor: p, Colors: geo[0], BitsPerComponent: geo[1], Columns: geo[2]})
			}
		}
	}
	return fs
}

func c06RowBytes(f Filter) int {
	switch x := f.(type) {
	case FilterFlate:
		if x.Predictor > 1 {
			return (x.Colors*x.BitsPerComponent*x.Columns + 7) / 8
		}
	case FilterLZW:
		if x.Predictor > 1 {
			return (x.Colors*x.BitsPerComponent*x.Columns + 7) / 8
		}
	}
	return 1
}

func c06Inputs(row int) [][]byte {
	var out [][]byte
	for _, n := range []int{0, 1, 2, 3, 4, 5, 127, 128, 129, 130, 255, 256, 257, 1000, 4096, 5000} {
		n = (n / row) * row
		x := uint32(2463534242 + n)
		for kind := 0; kind < 5; kind++ {
			d := make([]byte, n)
			for i := range d {
				switch kind {
				case 4:
					// noise: exercises ties and every branch of the predictors
					x ^= x << 13
					x ^= x >> 17
					x ^= x << 5
					d[i] = byte(x >> 9)
				case 0:
					d[i] = byte(i*31 + i/7)
				case 1:
					d[i] = 0
				case 2:
					d[i] = byte((i / 5) % 3 * 100)
				case 3:
					d[i] = byte(255 - i%256)
				}
			}
			out = append(out, d)
		}
	}
	return out
}

func TestB2C06RoundTrip(t *testing.T) {
	cases := 0
	for _, v := range []Version{V1_2, V1_5, V1_7, V2_0} {
		for fi, f := range c06Filters() {
			name, parms, err := f.Info(v)
			if err != nil {
				continue // not available at this version
			}
			f2, err := MakeFilter(name, parms)
			if err != nil {
				t.Errorf("B2-FAIL makefilter %T%+v v=%v: %v", f, f, v, err)
				continue
			}
			// Info followed by MakeFilter reproduces the effective parameters
			n2, p2, err := f2.Info(v)
			if err != nil || n2 != name || !Equal(p2, parms) {
				t.Errorf("B2-FAIL params %T%+v v=%v: %v %v -> %v %v (%v)", f, f, v, name, AsString(parms), n2, AsString(p2), err)
			}
			for di, data := range c06Inputs(c06RowBytes(f)) {
				if !b2Thorough() && (di+fi)%3 != 0 {
					continue
				}
				for _, chunk := range []int{0, 1, 7} {
					cases++
					enc, err := c06Encode(f, v, data, chunk)
					if err != nil {
						t.Errorf("B2-FAIL encode %T%+v v=%v len=%d: %v", f, f, v, len(data), err)
						continue
					}
					dec, err := c06Decode(f2, v, enc, chunk)
					if err != nil || !bytes.Equal(dec, data) {
						t.Errorf("B2-FAIL roundtrip %T%+v v=%v len=%d chunk=%d: got %d bytes, err=%v", f, f, v, len(data), chunk, len(dec), err)
					}
				}
			}
		}
	}
	// LZW: every length up to 2300 of incompressible data, so that the last code falls on
	// every position relative to the 9/10/11/12-bit width switches
	noise := make([]byte, 2300)
	x := uint32(2463534242)
	for i := range noise {
		x ^= x << 13
		x ^= x >> 17
		x ^= x << 5
		noise[i] = byte(x >> 11)
	}
	for _, f := range []Filter{FilterLZW{}, FilterLZW{OffByOne: true}} {
		step := 1
		for n := 0; n <= len(noise); n += step {
			cases++
			enc, err := c06Encode(f, V1_7, noise[:n], 0)
			if err != nil {
				t.Errorf("B2-FAIL encode %T%+v len=%d: %v", f, f, n, err)
				continue
			}
			dec, err := c06Decode(f, V1_7, enc, 0)
			if err != nil || !bytes.Equal(dec, noise[:n]) {
				t.Errorf("B2-FAIL roundtrip %T%+v noise len=%d: got %d bytes, err=%v", f, f, n, len(dec), err)
			}
		}
	}
	t.Logf("B2-CASES %d", cases)
}

// ---- C07: independent codecs written from the standards ----

func refASCIIHexDecode(s []byte) ([]byte, error) {
	var out []byte
	hi := -1
	for _, c := range s {
		var d int
		switch {
		case c >= '0' && c <= '9':
			d = int(c - '0')
		case c >= 'a' && c <= 'f':
			d = int(c-'a') + 10
		case c >= 'A' && c <= 'F':
			d = int(c-'A') + 10
		case c == '>':
			if hi >= 0 {
				out = append(out, byte(hi<<4))
			}
			return out, nil
		case c == 0 || c == 9 || c == 10 || c == 12 || c == 13 || c == 32:
			continue
		default:
			return nil, fmt.Errorf("bad hex char %q", c)
		}
		if hi < 0 {
			hi = d
		} else {
			out = append(out, byte(hi<<4|d))
			hi = -1
		}
	}
	return nil, fmt.Errorf("no EOD")
}

func refASCII85Decode(s []byte) ([]byte, error) {
	var out []byte
	var grp []uint32
	flush := func(final bool) error {
		n := len(grp)
		if n == 0 {
			return nil
		}
		if n == 1 {
			return fmt.Errorf("single digit group")
		}
		for len(grp) < 5 {
			grp = append(grp, 84)
		}
		var v uint64
		for _, d := range grp {
			v = v*85 + uint64(d)
		}
		if v > 0xffffffff {
			return fmt.Errorf("group overflow")
		}
		b := []byte{byte(v >> 24), byte(v >> 16), byte(v >> 8), byte(v)}
		out = append(out, b[:n-1]...)
		grp = grp[:0]
		return nil
	}
	for i := 0; i < len(s); i++ {
		c := s[i]
		switch {
		case c == '~':
			if i+1 < len(s) && s[i+1] == '>' {
				return out, flush(true)
			}
			return nil, fmt.Errorf("bad EOD")
		case c == 'z':
			if len(grp) != 0 {
				return nil, fmt.Errorf("z inside group")
			}
			out = append(out, 0, 0, 0, 0)
		case c >= '!' && c <= 'u':
			grp = append(grp, uint32(c-'!'))
			if len(grp) == 5 {
				if err := flush(false); err != nil {
					return nil, err
				}
			}
		case c == 0 || c == 9 || c == 10 || c == 12 || c == 13 || c == 32:
		default:
			return nil, fmt.Errorf("bad char %q", c)
		}
	}
	return nil, fmt.Errorf("no EOD")
}

func refRunLengthDecode(s []byte) ([]byte, error) {
	var out []byte
	for i := 0; i < len(s); {
		l := int(s[i])
		i++
		switch {
		case l == 128:
			return out, nil
		case l < 128:
			if i+l+1 > len(s) {
				return nil, fmt.Errorf("truncated literal")
			}
			out = append(out, s[i:i+l+1]...)
			i += l + 1
		default:
			if i >= len(s) {
				return nil, fmt.Errorf("truncated run")
			}
			out = append(out, bytes.Repeat(s[i:i+1], 257-l)...)
			i++
		}
	}
	return nil, fmt.Errorf("no EOD")
}

// refLZWDecode: PDF LZW (ISO 32000-2, 7.4.4), MSB first, codes 256 = clear, 257 = EOD.
func refLZWDecode(s []byte, early int) ([]byte, error) {
	var out []byte
	type entry []byte
	var table []entry
	reset := func() {
		table = table[:0]
		for i := 0; i < 256; i++ {
			table = append(table, entry{byte(i)})
		}
		table = append(table, nil, nil)
	}
	reset()
	width := 9
	var acc uint32
	bits := 0
	pos := 0
	var prev entry
	for {
		for bits < width {
			if pos >= len(s) {
				return out, fmt.Errorf("no EOD")
			}
			acc = acc<<8 | uint32(s[pos])
			pos++
			bits += 8
		}
		code := int(acc >> (bits - width) & (1<<width - 1))
		bits -= width
		switch {
		case code == 256:
			reset()
			width = 9
			prev = nil
			continue
		case code == 257:
			return out, nil
		}
		var cur entry
		if code < len(table) {
			cur = table[code]
			if cur == nil {
				return out, fmt.Errorf("bad code")
			}
		} else if code == len(table) && prev != nil {
			cur = append(append(entry{}, prev...), prev[0])
		} else {
			return out, fmt.Errorf("code %d out of range %d", code, len(table))
		}
		out = append(out, cur...)
		if prev != nil && len(table) < 4096 {
			table = append(table, append(append(entry{}, prev...), cur[0]))
		}
		prev = cur
		switch {
		case len(table)+early >= 4096:
			width = 12
		case len(table)+early >= 2048:
			width = 12
		case len(table)+early >= 1024:
			width = 11
		case len(table)+early >= 512:
			width = 10
		default:
			width = 9
		}
	}
}

func refPaeth(a, b, c int) int {
	p := a + b - c
	pa, pb, pc := p-a, p-b, p-c
	if pa < 0 {
		pa = -pa
	}
	if pb < 0 {
		pb = -pb
	}
	if pc < 0 {
		pc = -pc
	}
	if pa <= pb && pa <= pc {
		return a
	}
	if pb <= pc {
		return b
	}
	return c
}

// refPNGUnpredict: PNG filters 0-4 per row (RFC 2083), bpp = bytes per complete pixel, at least 1.
func refPNGUnpredict(s []byte, rowBytes, bpp int) ([]byte, error) {
	if len(s)%(rowBytes+1) != 0 {
		return nil, fmt.Errorf("partial row")
	}
	prev := make([]byte, rowBytes)
	var out []byte
	for off := 0; off < len(s); off += rowBytes + 1 {
		ft := s[off]
		row := append([]byte{}, s[off+1:off+1+rowBytes]...)
		for i := range row {
			a, b, c := 0, int(prev[i]), 0
			if i >= bpp {
				a, c = int(row[i-bpp]), int(prev[i-bpp])
			}
			switch ft {
			case 0:
			case 1:
				row[i] += byte(a)
			case 2:
				row[i] += byte(b)
			case 3:
				row[i] += byte((a + b) / 2)
			case 4:
				row[i] += byte(refPaeth(a, b, c))
			default:
				return nil, fmt.Errorf("bad filter type %d", ft)
			}
		}
		out = append(out, row...)
		prev = row
	}
	return out, nil
}

func TestB2C07Independent(t *testing.T) {
	cases := 0
	v := V1_7
	for di, data := range c06Inputs(1) {
		if !b2Thorough() && di%2 == 1 {
			continue
		}
		// library encoder -> independent decoder
		check := func(name string, f Filter, dec func([]byte) ([]byte, error)) {
			cases++
			enc, err := c06Encode(f, v, data, 0)
			if err != nil {
				t.Errorf("B2-FAIL encode-%s len=%d: %v", name, len(data), err)
				return
			}
			got, err := dec(enc)
			if err != nil || !bytes.Equal(got, data) {
				t.Errorf("B2-FAIL independent-decoder-%s len=%d: %d bytes, err=%v", name, len(data), len(got), err)
			}
		}
		check("asciihex", FilterASCIIHex{}, refASCIIHexDecode)
		check("ascii85", FilterASCII85{}, refASCII85Decode)
		check("runlength", FilterRunLength{}, refRunLengthDecode)
		check("lzw-early1", FilterLZW{OffByOne: true}, func(b []byte) ([]byte, error) { return refLZWDecode(b, 1) })
		check("lzw-early0", FilterLZW{}, func(b []byte) ([]byte, error) { return refLZWDecode(b, 0) })
		check("flate", FilterFlate{}, func(b []byte) ([]byte, error) {
			r, err := zlib.NewReader(bytes.NewReader(b))
			if err != nil {
				return nil, err
			}
			return io.ReadAll(r)
		})
		for _, p := range []FlatePredictor{FlatePredictorPNGNone, FlatePredictorPNGSub, FlatePredictorPNGUp, FlatePredictorPNGAverage, FlatePredictorPNGPaeth, FlatePredictorPNGOptimum} {
			for _, geo := range [][3]int{{1, 8, 5}, {3, 8, 2}, {2, 16, 1}, {1, 4, 4}, {3, 4, 4}, {5, 2, 4}, {9, 1, 8}, {1, 1, 8}} {
				row := (geo[0]*geo[1]*geo[2] + 7) / 8
				if len(data)%row != 0 {
					continue
				}
				// PNG: "bpp is the number of bytes per complete pixel, rounding up to one"
				bpp := (geo[0]*geo[1] + 7) / 8
				check(fmt.Sprintf("png%d-%v", p, geo), FilterFlate{Predictor: p, Colors: geo[0], BitsPerComponent: geo[1], Columns: geo[2]}, func(b []byte) ([]byte, error) {
					r, err := zlib.NewReader(bytes.NewReader(b))
					if err != nil {
						return nil, err
					}
					raw, err := io.ReadAll(r)
					if err != nil {
						return nil, err
					}
					return refPNGUnpredict(raw, row, bpp)
				})
			}
		}
		// independent encoder -> library decoder
		back := func(name string, f Filter, enc []byte) {
			cases++
			got, err := c06Decode(f, v, enc, 0)
			if err != nil || !bytes.Equal(got, data) {
				t.Errorf("B2-FAIL independent-encoder-%s len=%d: %d bytes, err=%v", name, len(data), len(got), err)
			}
		}
		// upper-case hex with white space everywhere
		var hx strings.Builder
		for i, b := range data {
			fmt.Fprintf(&hx, "%02X", b)
			if i%3 == 0 {
				hx.WriteString(" \n")
			}
		}
		back("asciihex", FilterASCIIHex{}, []byte(hx.String()+" >"))
		if len(data)%2 == 1 || len(data) == 0 {
			// odd number of digits: the last digit is padded with 0
			h := fmt.Sprintf("%X", data)
			if len(data) > 0 && data[len(data)-1]&0x0f == 0 {
				back("asciihex-odd", FilterASCIIHex{}, []byte(h[:len(h)-1]+">"))
			}
		}
		// ASCII85 with z for zero groups and white space
		var a85 bytes.Buffer
		for off := 0; off < len(data); off += 4 {
			n := min(4, len(data)-off)
			var v uint32
			for k := 0; k < 4; k++ {
				v <<= 8
				if k < n {
					v |= uint32(data[off+k])
				}
			}
			if v == 0 && n == 4 {
				a85.WriteString("z\n")
				continue
			}
			var d [5]byte
			for k := 4; k >= 0; k-- {
				d[k] = byte(v%85) + '!'
				v /= 85
			}
			a85.Write(d[:n+1])
			a85.WriteByte(' ')
		}
		a85.WriteString("~>")
		back("ascii85", FilterASCII85{}, a85.Bytes())
		// RunLength: alternate packet kinds, maximal runs
		var rl bytes.Buffer
		for off := 0; off < len(data); {
			j := off
			for j < len(data) && j-off < 128 && data[j] == data[off] {
				j++
			}
			if j-off >= 2 {
				rl.WriteByte(byte(257 - (j - off)))
				rl.WriteByte(data[off])
				off = j
				continue
			}
			n := min(128, len(data)-off)
			if off%3 == 0 {
				n = 1
			}
			rl.WriteByte(byte(n - 1))
			rl.Write(data[off : off+n])
			off += n
		}
		rl.WriteByte(128)
		back("runlength", FilterRunLength{}, rl.Bytes())
		// LZW without early change: Go's compress/lzw (MSB, 8 bit) is the GIF/PDF EarlyChange=0 variant
		var lz bytes.Buffer
		lw := lzw.NewWriter(&lz, lzw.MSB, 8)
		lw.Write(data)
		lw.Close()
		back("lzw-early0", FilterLZW{}, lz.Bytes())
		var zb bytes.Buffer
		zw := zlib.NewWriter(&zb)
		zw.Write(data)
		zw.Close()
		back("flate", FilterFlate{}, zb.Bytes())
	}
	// LZW at every length of incompressible data (the final code at every position
	// relative to the code width switches), both directions
	noise := make([]byte, 2300)
	x := uint32(88172645)
	for i := range noise {
		x ^= x << 13
		x ^= x >> 17
		x ^= x << 5
		noise[i] = byte(x >> 9)
	}
	for n := 0; n <= len(noise); n++ {
		for early, f := range []Filter{FilterLZW{}, FilterLZW{OffByOne: true}} {
			cases++
			enc, err := c06Encode(f, v, noise[:n], 0)
			if err != nil {
				t.Errorf("B2-FAIL encode-lzw-early%d noise len=%d: %v", early, n, err)
				continue
			}
			got, err := refLZWDecode(enc, early)
			if err != nil || !bytes.Equal(got, noise[:n]) {
				t.Errorf("B2-FAIL independent-decoder-lzw-early%d noise len=%d: %d bytes, err=%v", early, n, len(got), err)
			}
		}
		if n%3 == 0 {
			cases++
			var lz bytes.Buffer
			lw := lzw.NewWriter(&lz, lzw.MSB, 8)
			lw.Write(noise[:n])
			lw.Close()
			got, err := c06Decode(FilterLZW{}, v, lz.Bytes(), 0)
			if err != nil || !bytes.Equal(got, noise[:n]) {
				t.Errorf("B2-FAIL independent-encoder-lzw-early0 noise len=%d: %d bytes, err=%v", n, len(got), err)
			}
		}
	}
	t.Logf("B2-CASES %d", cases)
}

// ---- CCITTFax (C06 round trip, C07 against golang.org/x/image/ccitt) ----

// c06CCITTRow builds one scan line from run lengths, starting with white (1 = white).
func c06CCITTRow(width int, runs ...int) []byte {
	row := make([]byte, (width+7)/8)
	x, white := 0, true
	for _, n := range runs {
		for i := 0; i < n && x < width; i++ {
			if white {
				row[x/8] |= 0x80 >> (x % 8)
			}
			x++
		}
		white = !white
	}
	return row
}

type c06CCITTImage struct {
	name  string
	width int
	rows  [][]int
}

func c06CCITTImages() []c06CCITTImage {
	return []c06CCITTImage{
		{"tiny", 8, [][]int{{8}, {0, 8}, {3, 2, 3}, {1, 1, 1, 1, 1, 1, 1, 1}}},
		{"w24", 24, [][]int{{24}, {24}, {0, 24}, {5, 7, 12}}},
		{"a4", 1728, [][]int{{1728}, {1728}, {100, 28, 1600}, {0, 1728}, {0, 1728}, {864, 864}, {63, 1, 64, 1600}}},
		{"wide", 6000, [][]int{{2559, 1, 2560, 880}, {2600, 800, 2600}, {3000, 3000}, {5183, 817}, {5184, 816}, {6000}}},
		{"a3-600dpi", 7016, [][]int{{100, 50, 6866}, {7016}, {7016}, {16, 7000}}},
		// blank rows whose only run ends in an extended make-up code (1792..2560) plus terminating code 0
		{"w1792", 1792, [][]int{{1792}, {1792}, {0, 1792}, {0, 1792}, {896, 896}}},
		{"w2560", 2560, [][]int{{2560}, {2560}, {0, 2560}, {100, 2460}}},
		{"w4352", 4352, [][]int{{4352}, {4352}, {0, 4352}, {1792, 2560}}},
	}
}

func TestB2C06CCITT(t *testing.T) {
	cases := 0
	for _, img := range c06CCITTImages() {
		var data []byte
		for _, runs := range img.rows {
			data = append(data, c06CCITTRow(img.width, runs...)...)
		}
		for _, f := range []FilterCCITTFax{
			{K: 0, Columns: img.width}, {K: 0, Columns: img.width, EndOfLine: true}, {K: -1, Columns: img.width},
			{K: 0, Columns: img.width, BlackIs1: true}, {K: -1, Columns: img.width, Rows: len(img.rows)}, {K: 4, Columns: img.width, EndOfLine: true}, {K: 4, Columns: img.width},
			{K: 0, Columns: img.width, EncodedByteAlign: true}, {K: -1, Columns: img.width, EncodedByteAlign: true}, {K: 0, Columns: img.width, EncodedByteAlign: true, EndOfLine: true}, {K: 4, Columns: img.width, EncodedByteAlign: true, EndOfLine: true},
		} {
			cases++
			desc := fmt.Sprintf("%s %+v", img.name, f)
			var enc, dec []byte
			var err error
			func() {
				defer func() {
					if r := recover(); r != nil {
						err = fmt.Errorf("panic: %v", r)
					}
				}()
				enc, err = c06Encode(f, V1_7, data, 0)
			}()
			if err != nil {
				t.Errorf("B2-FAIL ccitt-encode %s: %v", desc, err)
				continue
			}
			name, parms, err := f.Info(V1_7)
			if err != nil {
				t.Errorf("B2-FAIL ccitt-info %s: %v", desc, err)
				continue
			}
			f2, err := MakeFilter(name, parms)
			if err != nil {
				t.Errorf("B2-FAIL ccitt-makefilter %s: %v", desc, err)
				continue
			}
			dec, err = c06Decode(f2, V1_7, enc, 0)
			if err != nil || !bytes.Equal(dec, data) {
				key := "ccitt-roundtrip"
				if f.K == 0 {
					key = "ccitt-roundtrip-g3-1d"
				}
				if f.EncodedByteAlign {
					key = "ccitt-roundtrip-bytealign"
				}
				t.Errorf("B2-FAIL %s %s: %d bytes, want %d, err=%v", key, desc, len(dec), len(data), err)
			}
		}
	}
	t.Logf("B2-CASES %d", cases)
}

func TestB2C07CCITT(t *testing.T) {
	cases := 0
	for _, img := range c06CCITTImages() {
		var data []byte
		for _, runs := range img.rows {
			data = append(data, c06CCITTRow(img.width, runs...)...)
		}
		for _, k := range []int{0, -1} {
			cases++
			f := FilterCCITTFax{K: k, Columns: img.width, EndOfLine: k == 0}
			sf := ccitt.Group4
			if k == 0 {
				sf = ccitt.Group3 // x/image expects EOL codes in Group 3 data
			}
			var enc []byte
			var err error
			func() {
				defer func() {
					if r := recover(); r != nil {
						err = fmt.Errorf("panic: %v", r)
					}
				}()
				enc, err = c06Encode(f, V1_7, data, 0)
			}()
			if err != nil {
				t.Errorf("B2-FAIL encode-ccitt %s K=%d: %v", img.name, k, err)
				continue
			}
			r := ccitt.NewReader(bytes.NewReader(enc), ccitt.MSB, sf, img.width, len(img.rows), nil)
			got, err := io.ReadAll(r)
			if err != nil || !bytes.Equal(got, data) {
				t.Errorf("B2-FAIL independent-decoder-ccitt %s K=%d: %d bytes, want %d, err=%v", img.name, k, len(got), len(data), err)
			}
		}
	}
	t.Logf("B2-CASES %d", cases)
}

// ---- C08: hostile stream bodies ----

type c08Getter struct{ meta MetaInfo }

func (g *c08Getter) GetMeta() *MetaInfo                  { return &g.meta }
func (g *c08Getter) Get(Reference, bool) (Native, error) { return nil, nil }

func TestB2C08Hostile(t *testing.T) {
	cases := 0
	names := []Name{"ASCII85Decode", "ASCIIHexDecode", "RunLengthDecode", "FlateDecode", "LZWDecode", "CCITTFaxDecode", "DCTDecode", "JBIG2Decode"}
	dicts := []Dict{nil, {}, {"Predictor": Integer(12), "Columns": Integer(4)}, {"Predictor": Integer(2), "Columns": Integer(3), "Colors": Integer(3), "BitsPerComponent": Integer(4)},
		{"Predictor": Integer(15), "Columns": Integer(1 << 30), "Colors": Integer(1 << 20), "BitsPerComponent": Integer(16)}, {"Columns": Integer(-1), "Rows": Integer(-5), "K": Integer(-1)},
		{"Columns": Integer(100000), "Rows": Integer(100000), "K": Integer(0)}, {"Columns": Integer(1048576), "Rows": Integer(65536), "K": Integer(-1)}, {"Columns": Integer(1048576), "Rows": Integer(129), "K": Integer(-1)}, {"EarlyChange": Integer(0)}, {"Predictor": Name("x"), "Columns": String("y")}}
	var bodies [][]byte
	seedData := c02Data(600, 0)
	for _, f := range []Filter{FilterASCII85{}, FilterASCIIHex{}, FilterRunLength{}, FilterFlate{}, FilterLZW{OffByOne: true}, FilterFlate{Predictor: FlatePredictorPNGUp, Columns: 4}} {
		enc, _ := c06Encode(f, V1_7, seedData, 0)
		bodies = append(bodies, enc)
		for _, cut := range []int{1, 2, len(enc) / 2, len(enc) - 1} {
			if cut > 0 && cut < len(enc) {
				bodies = append(bodies, enc[:cut])
			}
		}
		for k := 0; k < len(enc); k += 1 + len(enc)/25 {
			m := append([]byte{}, enc...)
			m[k] ^= 0x5a
			bodies = append(bodies, m)
		}
	}
	// LZW: the code table filled without a clear code, then every interesting code value
	for _, early := range []int{0, 1} {
		for _, last := range []int{4095, 4094, 4093, 4096 - 2 - early, 258, 2000} {
			var out []byte
			var acc uint32
			nb := uint(0)
			width, hi, overflow := uint(9), 257, 512
			emit := func(code int) {
				acc |= uint32(code) << (32 - width - nb)
				nb += width
				for nb >= 8 {
					out = append(out, byte(acc>>24))
					acc <<= 8
					nb -= 8
				}
				hi++
				if hi+early >= overflow {
					if width >= 12 {
						hi--
					} else {
						width++
						overflow <<= 1
					}
				}
			}
			for i := 0; i < 3900; i++ {
				emit((i * 7) % 256)
			}
			emit(last)
			emit(last)
			emit(257)
			if nb > 0 {
				out = append(out, byte(acc>>24))
			}
			bodies = append(bodies, out)
		}
	}
	// DCT: progressive JPEGs of 1024x1024 pixels whose 2000 scans consist of end-of-band runs
	// only (14 bytes per scan, every scan walks over all 16384 blocks): first-pass AC scans
	// and refinement scans
	for _, ahal := range []byte{0x00, 0x10} {
		var b bytes.Buffer
		w := func(p ...byte) { b.Write(p) }
		dim := 1024
		w(0xFF, 0xD8, 0xFF, 0xDB, 0x00, 0x43, 0x00)
		for range 64 {
			w(0x01)
		}
		w(0xFF, 0xC2, 0x00, 0x0B, 0x08, byte(dim>>8), byte(dim), byte(dim>>8), byte(dim), 0x01, 0x01, 0x11, 0x00)
		w(0xFF, 0xC4, 0x00, 0x15, 0x10)
		counts := [16]byte{}
		counts[1] = 2
		w(counts[:]...)
		w(0xE0, 0x00)
		for range 2000 {
			w(0xFF, 0xDA, 0x00, 0x08, 0x01, 0x01, 0x00, 0x01, 0x3F, ahal, 0x00, 0x00, 0x00, 0x00)
		}
		w(0xFF, 0xD9)
		bodies = append(bodies, b.Bytes())
	}
	bodies = append(bodies, bytes.Repeat([]byte{0xff}, 2048))
	bodies = append(bodies, nil, []byte{0}, bytes.Repeat([]byte{0xff}, 300), bytes.Repeat([]byte{0x80, 0x00}, 200), []byte("~>"), []byte(">"), bytes.Repeat([]byte{0x00, 0x10, 0x01}, 100))
	for _, name := range names {
		for _, d := range dicts {
			f, err := MakeFilter(name, d)
			if err != nil {
				if !IsMalformed(err) {
					t.Errorf("B2-FAIL makefilter-class %s %v: %v", name, AsString(d), err)
				}
				continue
			}
			for bi, body := range bodies {
				if !b2Thorough() && bi%2 == 1 && len(body) < 4000 {
					continue
				}
				cases++
				started := time.Now()
				produced := int64(0)
				func() {
					defer func() {
						if r := recover(); r != nil {
							t.Errorf("B2-FAIL panic %s %s body#%d: %v", name, AsString(d), bi, r)
						}
						// time bound for decodes that produce little output (large images legitimately
						// take longer, and the machine may be loaded)
						if el := time.Since(started); el > 3*time.Second && produced < 4<<20 {
							t.Errorf("B2-FAIL slow %s %s body#%d (%d bytes): %v", name, AsString(d), bi, len(body), el)
						}
					}()
					stm := &Stream{Dict: Dict{"Filter": name}, data: bytes.NewReader(body), length: int64(len(body))}
					if d != nil {
						stm.Dict["DecodeParms"] = d
					}
					_ = f
					r, err := DecodeStream(&c08Getter{meta: MetaInfo{Version: V1_7}}, nil, stm)
					if err != nil {
						if !IsMalformed(err) {
							t.Errorf("B2-FAIL error-class %s %s body#%d: %v", name, AsString(d), bi, err)
						}
						return
					}
					n, err := io.Copy(io.Discard, io.LimitReader(r, 1<<26))
					produced = n
					if n >= 1<<26 {
						t.Errorf("B2-FAIL unbounded-output %s %s body#%d", name, AsString(d), bi)
					}
					if err != nil && !IsMalformed(err) {
						t.Errorf("B2-FAIL error-class %s %s body#%d: %v", name, AsString(d), bi, err)
					}
				}()
			}
		}
	}
	t.Logf("B2-CASES %d", cases)
}
