package pdf

// B2 bounded checks for C06, C07 and C08 (labelled bounded, never counted as proved).

import (
	"bytes"
	"compress/lzw"
	"compress/zlib"
	stdascii85 "encoding/ascii85"
	"fmt"
	"golang.org/x/image/ccitt"
	tifflzw "golang.org/x/image/tiff/lzw"
	"io"
	"math"
	"math/rand"
	"os"
	"os/exec"
	"runtime"
	"strconv"
	"strings"
	"testing"
	"testing/iotest"
	"time"

	"seehuhn.de/go/membudget"
	"seehuhn.de/go/pdf/internal/limits"
)

func c06Seed() int64 {
	seed := int64(1)
	fmt.Sscanf(os.Getenv("VERIF_SEED"), "%d", &seed)
	return seed
}

type c06Sink struct{ bytes.Buffer }

func (c *c06Sink) Close() error { return nil }

func c06Encode(f Filter, v Version, data []byte, chunk int) ([]byte, error) {
	sink := &c06Sink{}
	w, err := f.Encode(v, sink)
	if err != nil {
		return nil, err
	}
	for off := 0; off < len(data); {
		n := chunk
		if chunk <= 0 {
			n = 1 + (off*13)%97
		}
		if off+n > len(data) {
			n = len(data) - off
		}
		if _, err := w.Write(data[off : off+n]); err != nil {
			return nil, err
		}
		off += n
	}
	if err := w.Close(); err != nil {
		return nil, err
	}
	return sink.Bytes(), nil
}

func c06Decode(f Filter, v Version, enc []byte, chunk int) ([]byte, error) {
	budget := membudget.New(limits.StreamBudget(int64(len(enc))))
	r, err := f.Decode(v, bytes.NewReader(enc), budget)
	if err != nil {
		return nil, err
	}
	defer r.Close()
	if chunk <= 0 {
		return io.ReadAll(r)
	}
	var out []byte
	buf := make([]byte, chunk)
	for {
		n, err := r.Read(buf)
		out = append(out, buf[:n]...)
		if err == io.EOF {
			return out, nil
		}
		if err != nil {
			return out, err
		}
		if len(out) > 1<<24 {
			return out, fmt.Errorf("runaway output")
		}
	}
}

func c06Filters() []Filter {
	fs := []Filter{FilterASCII85{}, FilterASCIIHex{}, FilterRunLength{}, FilterFlate{}, FilterLZW{}, FilterLZW{OffByOne: true}, FilterCompress{}}
	for _, p := range []FlatePredictor{FlatePredictorTIFF, FlatePredictorPNGNone, FlatePredictorPNGSub, FlatePredictorPNGUp, FlatePredictorPNGAverage, FlatePredictorPNGPaeth, FlatePredictorPNGOptimum} {
		for _, geo := range [][3]int{{1, 8, 6}, {3, 8, 4}, {1, 1, 16}, {1, 4, 6}, {2, 16, 3}, {4, 2, 5}, {3, 4, 5}, {5, 2, 3}, {9, 1, 4}, {256, 8, 2}, {60, 8, 1}, {255, 1, 3}} {
			if geo[0] > 60 && p == FlatePredictorTIFF {
				continue // TIFF predictor: at most 60 colour components
			}
			fs = append(fs, FilterFlate{Predictor: p, Colors: geo[0], BitsPerComponent: geo[1], Columns: geo[2]})
			if p == FlatePredictorPNGUp || p == FlatePredictorTIFF {
				fs = append(fs, FilterLZW{Predictor: p, Colors: geo[0], BitsPerComponent: geo[1], Columns: geo[2], OffByOne: true})
				fs = append(fs, FilterLZW{Predictor: p, Colors: geo[0], BitsPerComponent: geo[1], Columns: geo[2]})
			}
		}
	}
	return fs
}

func c06RowBytes(f Filter) int {
	switch x := f.(type) {
	case FilterFlate:
		if x.Predictor > 1 {
			return (x.Colors*x.BitsPerComponent*x.Columns + 7) / 8
		}
	case FilterLZW:
		if x.Predictor > 1 {
			return (x.Colors*x.BitsPerComponent*x.Columns + 7) / 8
		}
	}
	return 1
}

func c06Inputs(row int) [][]byte {
	var out [][]byte
	for _, n := range []int{0, 1, 2, 3, 4, 5, 127, 128, 129, 130, 255, 256, 257, 1000, 4096, 5000} {
		n = (n / row) * row
		x := uint32(2463534242 + n)
		for kind := 0; kind < 5; kind++ {
			d := make([]byte, n)
			for i := range d {
				switch kind {
				case 4:
					// noise: exercises ties and every branch of the predictors
					x ^= x << 13
					x ^= x >> 17
					x ^= x << 5
					d[i] = byte(x >> 9)
				case 0:
					d[i] = byte(i*31 + i/7)
				case 1:
					d[i] = 0
				case 2:
					d[i] = byte((i / 5) % 3 * 100)
				case 3:
					d[i] = byte(255 - i%256)
				}
			}
			out = append(out, d)
		}
	}
	return out
}

func TestB2C06RoundTrip(t *testing.T) {
	cases := 0
	for _, v := range []Version{V1_2, V1_5, V1_7, V2_0} {
		for fi, f := range c06Filters() {
			name, parms, err := f.Info(v)
			if err != nil {
				continue // not available at this version
			}
			f2, err := MakeFilter(name, parms)
			if err != nil {
				t.Errorf("B2-FAIL makefilter %T%+v v=%v: %v", f, f, v, err)
				continue
			}
			// Info followed by MakeFilter reproduces the effective parameters
			n2, p2, err := f2.Info(v)
			if err != nil || n2 != name || !Equal(p2, parms) {
				t.Errorf("B2-FAIL params %T%+v v=%v: %v %v -> %v %v (%v)", f, f, v, name, AsString(parms), n2, AsString(p2), err)
			}
			for di, data := range c06Inputs(c06RowBytes(f)) {
				if !b2Thorough() && (di+fi)%3 != 0 {
					continue
				}
				for _, chunk := range []int{0, 1, 7} {
					cases++
					enc, err := c06Encode(f, v, data, chunk)
					if err != nil {
						t.Errorf("B2-FAIL encode %T%+v v=%v len=%d: %v", f, f, v, len(data), err)
						continue
					}
					dec, err := c06Decode(f2, v, enc, chunk)
					if err != nil || !bytes.Equal(dec, data) {
						t.Errorf("B2-FAIL roundtrip %T%+v v=%v len=%d chunk=%d: got %d bytes, err=%v", f, f, v, len(data), chunk, len(dec), err)
					}
				}
			}
		}
	}
	// LZW: every length up to 2300 of incompressible data, so that the last code falls on
	// every position relative to the 9/10/11/12-bit width switches
	noise := make([]byte, 2300)
	x := uint32(2463534242)
	for i := range noise {
		x ^= x << 13
		x ^= x >> 17
		x ^= x << 5
		noise[i] = byte(x >> 11)
	}
	for _, f := range []Filter{FilterLZW{}, FilterLZW{OffByOne: true}} {
		step := 1
		for n := 0; n <= len(noise); n += step {
			cases++
			enc, err := c06Encode(f, V1_7, noise[:n], 0)
			if err != nil {
				t.Errorf("B2-FAIL encode %T%+v len=%d: %v", f, f, n, err)
				continue
			}
			dec, err := c06Decode(f, V1_7, enc, 0)
			if err != nil || !bytes.Equal(dec, noise[:n]) {
				t.Errorf("B2-FAIL roundtrip %T%+v noise len=%d: got %d bytes, err=%v", f, f, n, len(dec), err)
			}
		}
	}
	// long periodic inputs (see c06LongInputs): the dictionary coders reach their longest entries,
	// the table-full clear code and their largest pending output only here
	type longCase struct {
		f Filter
		v Version
	}
	longFilters := []longCase{{FilterLZW{}, V1_7}, {FilterLZW{OffByOne: true}, V1_7}, {FilterCompress{}, V1_1}, {FilterCompress{}, V1_7},
		{FilterLZW{Predictor: FlatePredictorPNGUp, Colors: 1, BitsPerComponent: 8, Columns: 512, OffByOne: true}, V1_7}, {FilterLZW{Predictor: FlatePredictorTIFF, Colors: 3, BitsPerComponent: 8, Columns: 256}, V1_7},
		{FilterFlate{}, V1_7}, {FilterRunLength{}, V1_7}}
	readChunks := []int{0}
	if b2Thorough() {
		readChunks = []int{0, 1021, 1 << 16}
	}
	for di, data := range c06LongInputs(c06Seed(), b2Thorough()) {
		for fi, lc := range longFilters {
			f, v := lc.f, lc.v
			name, parms, err := f.Info(v)
			if err != nil {
				t.Errorf("B2-FAIL info %T%+v v=%v: %v", f, f, v, err)
				continue
			}
			f2, err := MakeFilter(name, parms)
			if err != nil {
				t.Errorf("B2-FAIL makefilter %T%+v v=%v: %v", f, f, v, err)
				continue
			}
			d := data[:len(data)/c06RowBytes(f)*c06RowBytes(f)]
			wchunk := 1 << 15
			if (di+fi)%4 == 0 {
				wchunk = 0
			}
			enc, err := c06Encode(f, v, d, wchunk)
			if err != nil {
				t.Errorf("B2-FAIL encode %T%+v v=%v long#%d len=%d: %v", f, f, v, di, len(d), err)
				continue
			}
			for _, chunk := range readChunks {
				cases++
				dec, err := c06Decode(f2, v, enc, chunk)
				if err != nil || !bytes.Equal(dec, d) {
					t.Errorf("B2-FAIL roundtrip %T%+v v=%v long#%d len=%d chunk=%d: got %d bytes, first difference at %d, err=%v", f, f, v, di, len(d), chunk, len(dec), c06FirstDiff(dec, d), err)
				}
			}
		}
	}
	t.Logf("B2-CASES %d", cases)
}

func c06FirstDiff(a, b []byte) int {
	n := min(len(a), len(b))
	for i := 0; i < n; i++ {
		if a[i] != b[i] {
			return i
		}
	}
	if len(a) != len(b) {
		return n
	}
	return -1
}

// c06LongInputs returns inputs of 8 to 9 MiB with a short period.  On such data an LZW dictionary entry
// is one byte longer than the one before, so that a 4096-entry table ends with entries of about 3840
// bytes after roughly 7.4 MiB (no shorter input gets there), the table fills up and is cleared, and
// the decoder's pending output is as large as it can become.
func c06LongInputs(seed int64, thorough bool) [][]byte {
	rng := rand.New(rand.NewSource(seed))
	n := 8<<20 + rng.Intn(1<<20)
	b := byte(rng.Intn(256))
	noise := make([]byte, 1<<16)
	rng.Read(noise)
	periodic := func(p int) []byte {
		d := make([]byte, n+p)
		for i := range d {
			d[i] = b + byte(i%p)*37
		}
		return d
	}
	// one byte repeated; period 2; a run, noise, and the same run again (codes of every length
	// meet a partially filled output buffer)
	out := [][]byte{periodic(1), periodic(2)}
	mixed := periodic(1)
	for off := 1 << 20; off+len(noise) < len(mixed); off += 5<<19 + rng.Intn(1<<16) {
		copy(mixed[off:], noise[:1+rng.Intn(len(noise))])
	}
	out = append(out, mixed)
	if thorough {
		out = append(out, periodic(3), periodic(255), periodic(256), periodic(1+rng.Intn(4000)))
	}
	return out
}

// ---- C07: independent codecs written from the standards ----

func refASCIIHexDecode(s []byte) ([]byte, error) {
	var out []byte
	hi := -1
	for _, c := range s {
		var d int
		switch {
		case c >= '0' && c <= '9':
			d = int(c - '0')
		case c >= 'a' && c <= 'f':
			d = int(c-'a') + 10
		case c >= 'A' && c <= 'F':
			d = int(c-'A') + 10
		case c == '>':
			if hi >= 0 {
				out = append(out, byte(hi<<4))
			}
			return out, nil
		case c == 0 || c == 9 || c == 10 || c == 12 || c == 13 || c == 32:
			continue
		default:
			return nil, fmt.Errorf("bad hex char %q", c)
		}
		if hi < 0 {
			hi = d
		} else {
			out = append(out, byte(hi<<4|d))
			hi = -1
		}
	}
	return nil, fmt.Errorf("no EOD")
}

func refASCII85Decode(s []byte) ([]byte, error) {
	var out []byte
	var grp []uint32
	flush := func(final bool) error {
		n := len(grp)
		if n == 0 {
			return nil
		}
		if n == 1 {
			return fmt.Errorf("single digit group")
		}
		for len(grp) < 5 {
			grp = append(grp, 84)
		}
		var v uint64
		for _, d := range grp {
			v = v*85 + uint64(d)
		}
		if v > 0xffffffff {
			return fmt.Errorf("group overflow")
		}
		b := []byte{byte(v >> 24), byte(v >> 16), byte(v >> 8), byte(v)}
		out = append(out, b[:n-1]...)
		grp = grp[:0]
		return nil
	}
	for i := 0; i < len(s); i++ {
		c := s[i]
		switch {
		case c == '~':
			if i+1 < len(s) && s[i+1] == '>' {
				return out, flush(true)
			}
			return nil, fmt.Errorf("bad EOD")
		case c == 'z':
			if len(grp) != 0 {
				return nil, fmt.Errorf("z inside group")
			}
			out = append(out, 0, 0, 0, 0)
		case c >= '!' && c <= 'u':
			grp = append(grp, uint32(c-'!'))
			if len(grp) == 5 {
				if err := flush(false); err != nil {
					return nil, err
				}
			}
		case c == 0 || c == 9 || c == 10 || c == 12 || c == 13 || c == 32:
		default:
			return nil, fmt.Errorf("bad char %q", c)
		}
	}
	return nil, fmt.Errorf("no EOD")
}

func refRunLengthDecode(s []byte) ([]byte, error) {
	var out []byte
	for i := 0; i < len(s); {
		l := int(s[i])
		i++
		switch {
		case l == 128:
			return out, nil
		case l < 128:
			if i+l+1 > len(s) {
				return nil, fmt.Errorf("truncated literal")
			}
			out = append(out, s[i:i+l+1]...)
			i += l + 1
		default:
			if i >= len(s) {
				return nil, fmt.Errorf("truncated run")
			}
			out = append(out, bytes.Repeat(s[i:i+1], 257-l)...)
			i++
		}
	}
	return nil, fmt.Errorf("no EOD")
}

// refLZWDecode: PDF LZW (ISO 32000-2, 7.4.4), MSB first, codes 256 = clear, 257 = EOD.
func refLZWDecode(s []byte, early int) ([]byte, error) {
	var out []byte
	type entry []byte
	var table []entry
	reset := func() {
		table = table[:0]
		for i := 0; i < 256; i++ {
			table = append(table, entry{byte(i)})
		}
		table = append(table, nil, nil)
	}
	reset()
	width := 9
	var acc uint32
	bits := 0
	pos := 0
	var prev entry
	for {
		for bits < width {
			if pos >= len(s) {
				return out, fmt.Errorf("no EOD")
			}
			acc = acc<<8 | uint32(s[pos])
			pos++
			bits += 8
		}
		code := int(acc >> (bits - width) & (1<<width - 1))
		bits -= width
		switch {
		case code == 256:
			reset()
			width = 9
			prev = nil
			continue
		case code == 257:
			return out, nil
		}
		var cur entry
		if code < len(table) {
			cur = table[code]
			if cur == nil {
				return out, fmt.Errorf("bad code")
			}
		} else if code == len(table) && prev != nil {
			cur = append(append(entry{}, prev...), prev[0])
		} else {
			return out, fmt.Errorf("code %d out of range %d", code, len(table))
		}
		out = append(out, cur...)
		if prev != nil && len(table) < 4096 {
			table = append(table, append(append(entry{}, prev...), cur[0]))
		}
		prev = cur
		switch {
		case len(table)+early >= 4096:
			width = 12
		case len(table)+early >= 2048:
			width = 12
		case len(table)+early >= 1024:
			width = 11
		case len(table)+early >= 512:
			width = 10
		default:
			width = 9
		}
	}
}

func refPaeth(a, b, c int) int {
	p := a + b - c
	pa, pb, pc := p-a, p-b, p-c
	if pa < 0 {
		pa = -pa
	}
	if pb < 0 {
		pb = -pb
	}
	if pc < 0 {
		pc = -pc
	}
	if pa <= pb && pa <= pc {
		return a
	}
	if pb <= pc {
		return b
	}
	return c
}

// refPNGUnpredict: PNG filters 0-4 per row (RFC 2083), bpp = bytes per complete pixel, at least 1.
func refPNGUnpredict(s []byte, rowBytes, bpp int) ([]byte, error) {
	if len(s)%(rowBytes+1) != 0 {
		return nil, fmt.Errorf("partial row")
	}
	prev := make([]byte, rowBytes)
	var out []byte
	for off := 0; off < len(s); off += rowBytes + 1 {
		ft := s[off]
		row := append([]byte{}, s[off+1:off+1+rowBytes]...)
		for i := range row {
			a, b, c := 0, int(prev[i]), 0
			if i >= bpp {
				a, c = int(row[i-bpp]), int(prev[i-bpp])
			}
			switch ft {
			case 0:
			case 1:
				row[i] += byte(a)
			case 2:
				row[i] += byte(b)
			case 3:
				row[i] += byte((a + b) / 2)
			case 4:
				row[i] += byte(refPaeth(a, b, c))
			default:
				return nil, fmt.Errorf("bad filter type %d", ft)
			}
		}
		out = append(out, row...)
		prev = row
	}
	return out, nil
}

func TestB2C07Independent(t *testing.T) {
	cases := 0
	v := V1_7
	for di, data := range c06Inputs(1) {
		if !b2Thorough() && di%2 == 1 {
			continue
		}
		// library encoder -> independent decoder
		check := func(name string, f Filter, dec func([]byte) ([]byte, error)) {
			cases++
			enc, err := c06Encode(f, v, data, 0)
			if err != nil {
				t.Errorf("B2-FAIL encode-%s len=%d: %v", name, len(data), err)
				return
			}
			got, err := dec(enc)
			if err != nil || !bytes.Equal(got, data) {
				t.Errorf("B2-FAIL independent-decoder-%s len=%d: %d bytes, err=%v", name, len(data), len(got), err)
			}
		}
		check("asciihex", FilterASCIIHex{}, refASCIIHexDecode)
		check("ascii85", FilterASCII85{}, refASCII85Decode)
		check("runlength", FilterRunLength{}, refRunLengthDecode)
		check("lzw-early1", FilterLZW{OffByOne: true}, func(b []byte) ([]byte, error) { return refLZWDecode(b, 1) })
		check("lzw-early0", FilterLZW{}, func(b []byte) ([]byte, error) { return refLZWDecode(b, 0) })
		// TIFF's LZW is the variant with the early width change
		check("lzw-early1-tiff", FilterLZW{OffByOne: true}, func(b []byte) ([]byte, error) {
			return io.ReadAll(tifflzw.NewReader(bytes.NewReader(b), tifflzw.MSB, 8))
		})
		check("flate", FilterFlate{}, func(b []byte) ([]byte, error) {
			r, err := zlib.NewReader(bytes.NewReader(b))
			if err != nil {
				return nil, err
			}
			return io.ReadAll(r)
		})
		for _, p := range []FlatePredictor{FlatePredictorPNGNone, FlatePredictorPNGSub, FlatePredictorPNGUp, FlatePredictorPNGAverage, FlatePredictorPNGPaeth, FlatePredictorPNGOptimum} {
			for _, geo := range [][3]int{{1, 8, 5}, {3, 8, 2}, {2, 16, 1}, {1, 4, 4}, {3, 4, 4}, {5, 2, 4}, {9, 1, 8}, {1, 1, 8}} {
				row := (geo[0]*geo[1]*geo[2] + 7) / 8
				if len(data)%row != 0 {
					continue
				}
				// PNG: "bpp is the number of bytes per complete pixel, rounding up to one"
				bpp := (geo[0]*geo[1] + 7) / 8
				check(fmt.Sprintf("png%d-%v", p, geo), FilterFlate{Predictor: p, Colors: geo[0], BitsPerComponent: geo[1], Columns: geo[2]}, func(b []byte) ([]byte, error) {
					r, err := zlib.NewReader(bytes.NewReader(b))
					if err != nil {
						return nil, err
					}
					raw, err := io.ReadAll(r)
					if err != nil {
						return nil, err
					}
					return refPNGUnpredict(raw, row, bpp)
				})
			}
		}
		// independent encoder -> library decoder
		// the caller of the library's decoder may read with any buffer size, and the encoded data may
		// arrive in pieces of any size
		back := func(name string, f Filter, enc []byte) {
			for _, mode := range c07ReadModes {
				cases++
				got, err := c07Decode(f, v, enc, mode)
				if err != nil || !bytes.Equal(got, data) {
					t.Errorf("B2-FAIL independent-encoder-%s len=%d read=%d src=%d: %d bytes, err=%v", name, len(data), mode.read, mode.src, len(got), err)
				}
			}
		}
		// upper-case hex with white space everywhere
		var hx strings.Builder
		for i, b := range data {
			fmt.Fprintf(&hx, "%02X", b)
			if i%3 == 0 {
				hx.WriteString(" \n")
			}
		}
		back("asciihex", FilterASCIIHex{}, []byte(hx.String()+" >"))
		if len(data)%2 == 1 || len(data) == 0 {
			// odd number of digits: the last digit is padded with 0
			h := fmt.Sprintf("%X", data)
			if len(data) > 0 && data[len(data)-1]&0x0f == 0 {
				back("asciihex-odd", FilterASCIIHex{}, []byte(h[:len(h)-1]+">"))
			}
		}
		// ASCII85 with z for zero groups and white space
		var a85 bytes.Buffer
		for off := 0; off < len(data); off += 4 {
			n := min(4, len(data)-off)
			var v uint32
			for k := 0; k < 4; k++ {
				v <<= 8
				if k < n {
					v |= uint32(data[off+k])
				}
			}
			if v == 0 && n == 4 {
				a85.WriteString("z\n")
				continue
			}
			var d [5]byte
			for k := 4; k >= 0; k-- {
				d[k] = byte(v%85) + '!'
				v /= 85
			}
			a85.Write(d[:n+1])
			a85.WriteByte(' ')
		}
		a85.WriteString("~>")
		back("ascii85", FilterASCII85{}, a85.Bytes())
		// Go's encoding/ascii85 (no white space, z for zero groups) followed by the PDF end marker
		std85 := make([]byte, stdascii85.MaxEncodedLen(len(data)))
		std85 = std85[:stdascii85.Encode(std85, data)]
		back("ascii85-std", FilterASCII85{}, append(std85, '~', '>'))
		// RunLength: alternate packet kinds, maximal runs
		var rl bytes.Buffer
		for off := 0; off < len(data); {
			j := off
			for j < len(data) && j-off < 128 && data[j] == data[off] {
				j++
			}
			if j-off >= 2 {
				rl.WriteByte(byte(257 - (j - off)))
				rl.WriteByte(data[off])
				off = j
				continue
			}
			n := min(128, len(data)-off)
			if off%3 == 0 {
				n = 1
			}
			rl.WriteByte(byte(n - 1))
			rl.Write(data[off : off+n])
			off += n
		}
		rl.WriteByte(128)
		back("runlength", FilterRunLength{}, rl.Bytes())
		// LZW without early change: Go's compress/lzw (MSB, 8 bit) is the GIF/PDF EarlyChange=0 variant
		var lz bytes.Buffer
		lw := lzw.NewWriter(&lz, lzw.MSB, 8)
		lw.Write(data)
		lw.Close()
		back("lzw-early0", FilterLZW{}, lz.Bytes())
		var zb bytes.Buffer
		zw := zlib.NewWriter(&zb)
		zw.Write(data)
		zw.Close()
		back("flate", FilterFlate{}, zb.Bytes())
	}
	// LZW at every length of incompressible data (the final code at every position
	// relative to the code width switches), both directions
	noise := make([]byte, 2300)
	x := uint32(88172645)
	for i := range noise {
		x ^= x << 13
		x ^= x >> 17
		x ^= x << 5
		noise[i] = byte(x >> 9)
	}
	for n := 0; n <= len(noise); n++ {
		for early, f := range []Filter{FilterLZW{}, FilterLZW{OffByOne: true}} {
			cases++
			enc, err := c06Encode(f, v, noise[:n], 0)
			if err != nil {
				t.Errorf("B2-FAIL encode-lzw-early%d noise len=%d: %v", early, n, err)
				continue
			}
			got, err := refLZWDecode(enc, early)
			if err != nil || !bytes.Equal(got, noise[:n]) {
				t.Errorf("B2-FAIL independent-decoder-lzw-early%d noise len=%d: %d bytes, err=%v", early, n, len(got), err)
			}
		}
		if n%3 == 0 {
			cases++
			var lz bytes.Buffer
			lw := lzw.NewWriter(&lz, lzw.MSB, 8)
			lw.Write(noise[:n])
			lw.Close()
			got, err := c06Decode(FilterLZW{}, v, lz.Bytes(), 0)
			if err != nil || !bytes.Equal(got, noise[:n]) {
				t.Errorf("B2-FAIL independent-encoder-lzw-early0 noise len=%d: %d bytes, err=%v", n, len(got), err)
			}
		}
	}
	// LZW on long periodic inputs (longest dictionary entries, full table), both directions
	for di, data := range c06LongInputs(c06Seed(), b2Thorough()) {
		for early, f := range []Filter{FilterLZW{}, FilterLZW{OffByOne: true}} {
			cases++
			enc, err := c06Encode(f, v, data, 1<<15)
			if err != nil {
				t.Errorf("B2-FAIL encode-lzw-early%d long#%d: %v", early, di, err)
				continue
			}
			got, err := refLZWDecode(enc, early)
			if err != nil || !bytes.Equal(got, data) {
				t.Errorf("B2-FAIL independent-decoder-lzw-early%d long#%d len=%d: %d bytes, err=%v", early, di, len(data), len(got), err)
			}
		}
		cases++
		var lz bytes.Buffer
		lw := lzw.NewWriter(&lz, lzw.MSB, 8)
		lw.Write(data)
		lw.Close()
		got, err := c06Decode(FilterLZW{}, v, lz.Bytes(), 0)
		if err != nil || !bytes.Equal(got, data) {
			t.Errorf("B2-FAIL independent-encoder-lzw-early0 long#%d len=%d: %d bytes, first difference at %d, err=%v", di, len(data), len(got), c06FirstDiff(got, data), err)
		}
	}
	t.Logf("B2-CASES %d", cases)
}

// c07ReadMode: size of the caller's read buffer (0: io.ReadAll) and of the pieces in which the
// encoded data reaches the decoder (0: all at once, 1: one byte per Read, n: at most n bytes).
type c07ReadMode struct{ read, src int }

var c07ReadModes = []c07ReadMode{{0, 0}, {1, 0}, {2, 0}, {3, 0}, {5, 0}, {7, 0}, {0, 1}, {1, 1}, {3, 5}, {4, 3}}

type c07PieceReader struct {
	r io.Reader
	n int
}

func (p *c07PieceReader) Read(b []byte) (int, error) {
	if len(b) > p.n {
		b = b[:p.n]
	}
	return p.r.Read(b)
}

func c07Decode(f Filter, v Version, enc []byte, mode c07ReadMode) ([]byte, error) {
	var src io.Reader = bytes.NewReader(enc)
	switch {
	case mode.src == 1:
		src = iotest.OneByteReader(src)
	case mode.src > 1:
		src = &c07PieceReader{src, mode.src}
	}
	budget := membudget.New(limits.StreamBudget(int64(len(enc))))
	r, err := f.Decode(v, src, budget)
	if err != nil {
		return nil, err
	}
	defer r.Close()
	if mode.read <= 0 {
		return io.ReadAll(r)
	}
	var out []byte
	buf := make([]byte, mode.read)
	for idle := 0; idle < 100; {
		n, err := r.Read(buf)
		out = append(out, buf[:n]...)
		if err == io.EOF {
			return out, nil
		}
		if err != nil {
			return out, err
		}
		if n == 0 {
			idle++
		} else {
			idle = 0
		}
		if len(out) > 1<<24 {
			return out, fmt.Errorf("runaway output")
		}
	}
	return out, fmt.Errorf("100 reads without data or error")
}

// ---- CCITTFax (C06 round trip, C07 against golang.org/x/image/ccitt) ----

// c06CCITTRow builds one scan line from run lengths, starting with white (1 = white).
func c06CCITTRow(width int, runs ...int) []byte {
	row := make([]byte, (width+7)/8)
	x, white := 0, true
	for _, n := range runs {
		for i := 0; i < n && x < width; i++ {
			if white {
				row[x/8] |= 0x80 >> (x % 8)
			}
			x++
		}
		white = !white
	}
	return row
}

type c06CCITTImage struct {
	name  string
	width int
	rows  [][]int
}

func c06CCITTImages() []c06CCITTImage {
	return []c06CCITTImage{
		{"tiny", 8, [][]int{{8}, {0, 8}, {3, 2, 3}, {1, 1, 1, 1, 1, 1, 1, 1}}},
		{"w24", 24, [][]int{{24}, {24}, {0, 24}, {5, 7, 12}}},
		{"a4", 1728, [][]int{{1728}, {1728}, {100, 28, 1600}, {0, 1728}, {0, 1728}, {864, 864}, {63, 1, 64, 1600}}},
		{"wide", 6000, [][]int{{2559, 1, 2560, 880}, {2600, 800, 2600}, {3000, 3000}, {5183, 817}, {5184, 816}, {6000}}},
		{"a3-600dpi", 7016, [][]int{{100, 50, 6866}, {7016}, {7016}, {16, 7000}}},
		// blank rows whose only run ends in an extended make-up code (1792..2560) plus terminating code 0
		{"w1792", 1792, [][]int{{1792}, {1792}, {0, 1792}, {0, 1792}, {896, 896}}},
		{"w2560", 2560, [][]int{{2560}, {2560}, {0, 2560}, {100, 2460}}},
		{"w4352", 4352, [][]int{{4352}, {4352}, {0, 4352}, {1792, 2560}}},
	}
}

func TestB2C06CCITT(t *testing.T) {
	cases := 0
	for _, img := range c06CCITTImages() {
		var data []byte
		for _, runs := range img.rows {
			data = append(data, c06CCITTRow(img.width, runs...)...)
		}
		for _, f := range []FilterCCITTFax{
			{K: 0, Columns: img.width}, {K: 0, Columns: img.width, EndOfLine: true}, {K: -1, Columns: img.width},
			{K: 0, Columns: img.width, BlackIs1: true}, {K: -1, Columns: img.width, Rows: len(img.rows)}, {K: 4, Columns: img.width, EndOfLine: true}, {K: 4, Columns: img.width},
			{K: 0, Columns: img.width, EncodedByteAlign: true}, {K: -1, Columns: img.width, EncodedByteAlign: true}, {K: 0, Columns: img.width, EncodedByteAlign: true, EndOfLine: true}, {K: 4, Columns: img.width, EncodedByteAlign: true, EndOfLine: true},
		} {
			cases++
			desc := fmt.Sprintf("%s %+v", img.name, f)
			var enc, dec []byte
			var err error
			func() {
				defer func() {
					if r := recover(); r != nil {
						err = fmt.Errorf("panic: %v", r)
					}
				}()
				enc, err = c06Encode(f, V1_7, data, 0)
			}()
			if err != nil {
				t.Errorf("B2-FAIL ccitt-encode %s: %v", desc, err)
				continue
			}
			name, parms, err := f.Info(V1_7)
			if err != nil {
				t.Errorf("B2-FAIL ccitt-info %s: %v", desc, err)
				continue
			}
			f2, err := MakeFilter(name, parms)
			if err != nil {
				t.Errorf("B2-FAIL ccitt-makefilter %s: %v", desc, err)
				continue
			}
			dec, err = c06Decode(f2, V1_7, enc, 0)
			if err != nil || !bytes.Equal(dec, data) {
				key := "ccitt-roundtrip"
				if f.K == 0 {
					key = "ccitt-roundtrip-g3-1d"
				}
				if f.EncodedByteAlign {
					key = "ccitt-roundtrip-bytealign"
				}
				t.Errorf("B2-FAIL %s %s: %d bytes, want %d, err=%v", key, desc, len(dec), len(data), err)
			}
		}
	}
	t.Logf("B2-CASES %d", cases)
}

func TestB2C07CCITT(t *testing.T) {
	cases := 0
	encode := func(f FilterCCITTFax, data []byte) (enc []byte, err error) {
		defer func() {
			if r := recover(); r != nil {
				err = fmt.Errorf("panic: %v", r)
			}
		}()
		return c06Encode(f, V1_7, data, 0)
	}
	for _, img := range c06CCITTImages() {
		var data []byte
		for _, runs := range img.rows {
			data = append(data, c06CCITTRow(img.width, runs...)...)
		}
		// the complementary image: every pixel bit flipped, the padding bits of each row kept
		inv := make([]byte, len(data))
		rowBytes := (img.width + 7) / 8
		for i := range data {
			inv[i] = ^data[i]
			if i%rowBytes == rowBytes-1 && img.width%8 != 0 {
				inv[i] &= 0xff << (8 - img.width%8)
			}
		}
		for _, k := range []int{0, -1} {
			// Group 3 one-dimensional with EOL codes (the form x/image reads) and Group 4; either
			// pixel polarity; rows starting on byte boundaries (Group 4 only: for Group 3, T.4 aligns
			// the end of the EOL code, PDF the start of the row)
			for _, blackIs1 := range []bool{false, true} {
				for _, align := range []bool{false, true} {
					if align && k == 0 {
						continue
					}
					cases++
					f := FilterCCITTFax{K: k, Columns: img.width, EndOfLine: k == 0, BlackIs1: blackIs1, EncodedByteAlign: align}
					desc := fmt.Sprintf("%s K=%d BlackIs1=%v Align=%v", img.name, k, blackIs1, align)
					sf := ccitt.Group4
					if k == 0 {
						sf = ccitt.Group3 // x/image expects EOL codes in Group 3 data
					}
					enc, err := encode(f, data)
					if err != nil {
						t.Errorf("B2-FAIL encode-ccitt %s: %v", desc, err)
						continue
					}
					// x/image: without Invert a 0 bit is black (the PDF default), with Invert a 1 bit
					r := ccitt.NewReader(bytes.NewReader(enc), ccitt.MSB, sf, img.width, len(img.rows), &ccitt.Options{Invert: blackIs1, Align: align})
					got, err := io.ReadAll(r)
					if err != nil || !bytes.Equal(got, data) {
						t.Errorf("B2-FAIL independent-decoder-ccitt %s: %d bytes, want %d, first difference at %d, err=%v", desc, len(got), len(data), c06FirstDiff(got, data), err)
					}
					// BlackIs1 only says which bit value is black (ISO 32000 table 11): the code stream of
					// an image is that of the complementary bits under the opposite setting
					if blackIs1 {
						f0 := f
						f0.BlackIs1 = false
						cases++
						enc0, err := encode(f0, inv)
						if err != nil || !bytes.Equal(enc0, enc) {
							t.Errorf("B2-FAIL ccitt-polarity %s: code stream differs from that of the complementary image with BlackIs1=false (%d and %d bytes, first difference at %d, err=%v)", desc, len(enc), len(enc0), c06FirstDiff(enc, enc0), err)
						}
					}
				}
			}
		}
	}
	t.Logf("B2-CASES %d", cases)
}

// ---- C08: hostile stream bodies ----

type c08Getter struct{ meta MetaInfo }

func (g *c08Getter) GetMeta() *MetaInfo                  { return &g.meta }
func (g *c08Getter) Get(Reference, bool) (Native, error) { return nil, nil }

// c08DocBudget is the per-stream budget as documented (internal/limits, StreamBudget): 8 MiB plus
// 1024 bytes per byte of raw data, the proportional part capped at 256 MiB.
func c08DocBudget(rawLen int64) int64 {
	if rawLen < 0 {
		rawLen = 0
	}
	if rawLen > (256<<20)/1024 {
		return 8<<20 + 256<<20
	}
	return 8<<20 + 1024*rawLen
}

type c08Result struct {
	fails    []string // violations of C08, "<kind> <details>"
	produced int64
	err      error
	excess   float64 // bytes allocated (less twice the output) relative to the documented budget
}

// c08Check builds the decoder for a stream dictionary and body through DecodeStream, reads it to the end
// (at most 64 MiB) and closes it.  Violations: a panic, an error that is not a malformed-file error,
// 64 MiB of output or more, more than 3 s for less than 4 MiB of output, and more bytes allocated
// (runtime.MemStats.TotalAlloc) than the documented budget for the raw length plus twice the output.
func c08Check(desc string, sd Dict, body []byte) (res c08Result) {
	fail := func(kind string, format string, args ...any) {
		res.fails = append(res.fails, strings.Join(strings.Fields(kind+" "+desc+": "+fmt.Sprintf(format, args...)), " "))
	}
	var m0, m1 runtime.MemStats
	runtime.ReadMemStats(&m0)
	started := b2CPU()
	func() {
		defer func() {
			if r := recover(); r != nil {
				fail("panic", "%v", r)
				res.err = fmt.Errorf("panic: %v", r)
			}
		}()
		stm := &Stream{Dict: sd, data: bytes.NewReader(body), length: int64(len(body))}
		r, err := DecodeStream(&c08Getter{meta: MetaInfo{Version: V1_7}}, nil, stm)
		if err != nil {
			res.err = err
			if !IsMalformed(err) {
				fail("error-class", "%v", b2ShortErr(err))
			}
			return
		}
		n, err := io.Copy(io.Discard, io.LimitReader(r, 1<<26))
		res.produced, res.err = n, err
		if n >= 1<<26 {
			fail("unbounded-output", "%d bytes and more", n)
		}
		if err != nil && !IsMalformed(err) {
			fail("error-class", "%v", b2ShortErr(err))
		}
		r.Close() // the error of Close is not classified by the property
	}()
	// time bound (CPU time of this process, so that a loaded machine does not matter) for decodes
	// that produce little output (large images legitimately take longer)
	if el := b2CPU() - started; el > c08SlowLimit() && res.produced < 4<<20 {
		fail("slow", "%v of CPU time", el)
	}
	runtime.ReadMemStats(&m1)
	alloc := int64(m1.TotalAlloc-m0.TotalAlloc) - 2*res.produced
	budget := c08DocBudget(int64(len(body)))
	res.excess = float64(alloc) / float64(budget)
	if alloc > budget+1<<20 {
		fail("alloc", "%d bytes allocated, %d produced, documented budget %d", m1.TotalAlloc-m0.TotalAlloc, res.produced, budget)
	}
	return res
}

// c08Goroutines: helper goroutines of closed readers must be gone (they finish asynchronously).
func c08Goroutines(t *testing.T, before int) {
	for i := 0; i < 400 && runtime.NumGoroutine() > before; i++ {
		time.Sleep(50 * time.Millisecond)
	}
	if n := runtime.NumGoroutine(); n > before {
		t.Errorf("B2-FAIL goroutine-leak %d goroutines before, %d after all readers were closed", before, n)
	}
}

func TestB2C08Hostile(t *testing.T) {
	cases := 0
	worst := 0.0
	goroutines := runtime.NumGoroutine()
	names := []Name{"ASCII85Decode", "ASCIIHexDecode", "RunLengthDecode", "FlateDecode", "LZWDecode", "CCITTFaxDecode", "DCTDecode", "JBIG2Decode"}
	dicts := []Dict{nil, {}, {"Predictor": Integer(12), "Columns": Integer(4)}, {"Predictor": Integer(2), "Columns": Integer(3), "Colors": Integer(3), "BitsPerComponent": Integer(4)},
		{"Predictor": Integer(15), "Columns": Integer(1 << 30), "Colors": Integer(1 << 20), "BitsPerComponent": Integer(16)}, {"Columns": Integer(-1), "Rows": Integer(-5), "K": Integer(-1)},
		{"Columns": Integer(100000), "Rows": Integer(100000), "K": Integer(0)}, {"Columns": Integer(1048576), "Rows": Integer(65536), "K": Integer(-1)}, {"Columns": Integer(1048576), "Rows": Integer(129), "K": Integer(-1)}, {"EarlyChange": Integer(0)}, {"Predictor": Name("x"), "Columns": String("y")}}
	var bodies [][]byte
	seedData := c02Data(600, 0)
	for _, f := range []Filter{FilterASCII85{}, FilterASCIIHex{}, FilterRunLength{}, FilterFlate{}, FilterLZW{OffByOne: true}, FilterFlate{Predictor: FlatePredictorPNGUp, Columns: 4}} {
		enc, _ := c06Encode(f, V1_7, seedData, 0)
		bodies = append(bodies, enc)
		for _, cut := range []int{1, 2, len(enc) / 2, len(enc) - 1} {
			if cut > 0 && cut < len(enc) {
				bodies = append(bodies, enc[:cut])
			}
		}
		for k := 0; k < len(enc); k += 1 + len(enc)/25 {
			m := append([]byte{}, enc...)
			m[k] ^= 0x5a
			bodies = append(bodies, m)
		}
	}
	// LZW: the code table filled without a clear code, then every interesting code value
	for _, early := range []int{0, 1} {
		for _, last := range []int{4095, 4094, 4093, 4096 - 2 - early, 258, 2000} {
			var out []byte
			var acc uint32
			nb := uint(0)
			width, hi, overflow := uint(9), 257, 512
			emit := func(code int) {
				acc |= uint32(code) << (32 - width - nb)
				nb += width
				for nb >= 8 {
					out = append(out, byte(acc>>24))
					acc <<= 8
					nb -= 8
				}
				hi++
				if hi+early >= overflow {
					if width >= 12 {
						hi--
					} else {
						width++
						overflow <<= 1
					}
				}
			}
			for i := 0; i < 3900; i++ {
				emit((i * 7) % 256)
			}
			emit(last)
			emit(last)
			emit(257)
			if nb > 0 {
				out = append(out, byte(acc>>24))
			}
			bodies = append(bodies, out)
		}
	}
	// DCT: progressive JPEGs of 1024x1024 pixels whose 2000 scans consist of end-of-band runs
	// only (14 bytes per scan, every scan walks over all 16384 blocks): first-pass AC scans
	// and refinement scans
	for _, ahal := range []byte{0x00, 0x10} {
		var b bytes.Buffer
		w := func(p ...byte) { b.Write(p) }
		dim := 1024
		w(0xFF, 0xD8, 0xFF, 0xDB, 0x00, 0x43, 0x00)
		for range 64 {
			w(0x01)
		}
		w(0xFF, 0xC2, 0x00, 0x0B, 0x08, byte(dim>>8), byte(dim), byte(dim>>8), byte(dim), 0x01, 0x01, 0x11, 0x00)
		w(0xFF, 0xC4, 0x00, 0x15, 0x10)
		counts := [16]byte{}
		counts[1] = 2
		w(counts[:]...)
		w(0xE0, 0x00)
		for range 2000 {
			w(0xFF, 0xDA, 0x00, 0x08, 0x01, 0x01, 0x00, 0x01, 0x3F, ahal, 0x00, 0x00, 0x00, 0x00)
		}
		w(0xFF, 0xD9)
		bodies = append(bodies, b.Bytes())
	}
	bodies = append(bodies, bytes.Repeat([]byte{0xff}, 2048))
	bodies = append(bodies, nil, []byte{0}, bytes.Repeat([]byte{0xff}, 300), bytes.Repeat([]byte{0x80, 0x00}, 200), []byte("~>"), []byte(">"), bytes.Repeat([]byte{0x00, 0x10, 0x01}, 100))
	for _, name := range names {
		for _, d := range dicts {
			f, err := MakeFilter(name, d)
			if err != nil {
				if !IsMalformed(err) {
					t.Errorf("B2-FAIL makefilter-class %s %v: %v", name, AsString(d), err)
				}
				continue
			}
			_ = f
			for bi, body := range bodies {
				if !b2Thorough() && bi%2 == 1 && len(body) < 4000 {
					continue
				}
				cases++
				sd := Dict{"Filter": name}
				if d != nil {
					sd["DecodeParms"] = d
				}
				res := c08Check(fmt.Sprintf("%s %s body#%d (%d bytes)", name, AsString(d), bi, len(body)), sd, body)
				for _, f := range res.fails {
					t.Errorf("B2-FAIL %s", f)
				}
				worst = max(worst, res.excess)
			}
		}
	}
	c08Goroutines(t, goroutines)
	t.Logf("largest allocation relative to the documented budget: %.3f", worst)
	t.Logf("B2-CASES %d", cases)
}

// ---- C08: filter chains up to and beyond the cap of eight entries; /Filter and /DecodeParms of any type ----

func TestB2C08Chains(t *testing.T) {
	cases := 0
	goroutines := runtime.NumGoroutine()
	g := &c08Getter{meta: MetaInfo{Version: V1_7}}
	data := c02Data(300, 0)
	cycles := [][]Filter{
		{FilterASCIIHex{}},
		{FilterASCIIHex{}, FilterASCII85{}, FilterRunLength{}, FilterFlate{}, FilterLZW{OffByOne: true}},
		{FilterFlate{}, FilterLZW{}},
		{FilterRunLength{}, FilterFlate{Predictor: FlatePredictorPNGUp, Columns: 4}},
	}
	lengths := []int{0, 1, 2, 3, 4, 5, 6, 7, 8, 9, 10, 11, 12, 15, 16, 17, 31, 32, 33, 100, 1000}
	for ci, cycle := range cycles {
		for _, n := range lengths {
			names, own, dicts := make(Array, n), make(Array, n), make(Array, n)
			chain := make([]Filter, n)
			plain := true
			for i := range chain {
				chain[i] = cycle[i%len(cycle)]
				name, parms, err := chain[i].Info(V1_7)
				if err != nil {
					t.Fatalf("Info: %v", err)
				}
				names[i], dicts[i] = name, Dict{}
				if parms != nil {
					own[i], dicts[i] = parms, parms
					plain = false
				}
			}
			// the body: the data encoded by the last 12 filters at most (a longer chain must be refused
			// before anything is read)
			body := data
			for i := n - 1; i >= max(0, n-12); i-- {
				enc, err := c06Encode(chain[i], V1_7, body, 0)
				if err != nil {
					t.Fatalf("encode: %v", err)
				}
				body = enc
			}
			var sds []Dict
			sds = append(sds, Dict{"Filter": names, "DecodeParms": own}, Dict{"Filter": names, "DecodeParms": dicts})
			if plain {
				sds = append(sds, Dict{"Filter": names}, Dict{"Filter": names, "DecodeParms": own[:n/2]})
			} else if own[n-1] == nil {
				sds = append(sds, Dict{"Filter": names, "DecodeParms": own[:n-1]})
			}
			if n == 1 {
				sds = append(sds, Dict{"Filter": names[0], "DecodeParms": own[0]})
			}
			for si, sd := range sds {
				cases++
				desc := fmt.Sprintf("cycle#%d length %d dict#%d", ci, n, si)
				fs, err := GetFilters(g, nil, sd)
				switch {
				case n <= 8 && (err != nil || len(fs) != n):
					t.Errorf("B2-FAIL chain-decode %s: GetFilters gives %d filters, err=%v", desc, len(fs), b2ShortErr(err))
				case n > 8 && err == nil:
					t.Errorf("B2-FAIL chain-cap %s: GetFilters accepts %d filters, the cap is 8", desc, len(fs))
				case n > 8 && !IsMalformed(err):
					t.Errorf("B2-FAIL error-class %s: GetFilters: %v", desc, b2ShortErr(err))
				}
				var got []byte
				stm := &Stream{Dict: sd, data: bytes.NewReader(body), length: int64(len(body))}
				r, err := DecodeStream(g, nil, stm)
				if err == nil {
					got, err = io.ReadAll(io.LimitReader(r, 1<<24))
					r.Close()
					if n > 8 {
						t.Errorf("B2-FAIL chain-cap %s: DecodeStream builds %d decoders (%d bytes read, err=%v), the cap is 8", desc, n, len(got), b2ShortErr(err))
						continue
					}
				}
				switch {
				case n <= 8 && (err != nil || !bytes.Equal(got, data)):
					t.Errorf("B2-FAIL chain-decode %s: %d bytes, want %d, err=%v", desc, len(got), len(data), b2ShortErr(err))
				case n > 8 && !IsMalformed(err):
					t.Errorf("B2-FAIL error-class %s: DecodeStream: %v", desc, b2ShortErr(err))
				}
			}
			// damaged bodies under chains of every admissible length
			if n >= 2 && n <= 8 {
				sd := Dict{"Filter": names, "DecodeParms": own}
				var hostile [][]byte
				for _, cut := range []int{0, 1, len(body) / 2, len(body) - 1} {
					hostile = append(hostile, body[:cut])
				}
				for k := 0; k < len(body); k += 1 + len(body)/12 {
					m := append([]byte{}, body...)
					m[k] ^= 0x5a
					hostile = append(hostile, m)
				}
				for hi, hb := range hostile {
					cases++
					res := c08Check(fmt.Sprintf("cycle#%d length %d damaged#%d", ci, n, hi), sd, hb)
					for _, f := range res.fails {
						t.Errorf("B2-FAIL %s", f)
					}
				}
			}
		}
	}
	// /Filter and /DecodeParms of any type
	skipped := 0
	hexBody := []byte("48656C6C6F>")
	odd := []Object{Integer(5), Real(1.5), Boolean(true), String("x"), Name("ASCIIHexDecode"), Array{}, Array{Integer(1)}, Array{nil, nil}, Array{Dict{}, Dict{}, Dict{}}, Array{String("y"), Name("z")},
		Dict{}, Dict{"Predictor": Integer(12)}, Array{Array{Dict{}}}, Reference(0), NewReference(7, 0)}
	filters := []Object{nil, Name("ASCIIHexDecode"), Name("FlateDecode"), Name("NoSuchFilter"), Name(""), Array{Name("ASCIIHexDecode")}, Array{Name("ASCIIHexDecode"), Name("ASCIIHexDecode")},
		Integer(3), String("ASCIIHexDecode"), Dict{}, Array{Integer(1)}, Array{String("ASCIIHexDecode")}, Array{Array{Name("ASCIIHexDecode")}}, Array{nil}, Array{Name("ASCIIHexDecode"), nil}, Array{Dict{}},
		Array{Name("ASCIIHexDecode"), Name("NoSuchFilter")}, Array{Name("Crypt")}, Array{Name("ASCIIHexDecode"), Name("Crypt")}, Boolean(false), Real(2), NewReference(9, 0)}
	for fi, fo := range filters {
		for pi, po := range append([]Object{nil}, odd...) {
			cases++
			sd := Dict{}
			if fo != nil {
				sd["Filter"] = fo
			}
			if po != nil {
				sd["DecodeParms"] = po
			}
			res := c08Check(fmt.Sprintf("filter#%d %s parms#%d %s", fi, b2Short(fo), pi, b2Short(po)), sd, hexBody)
			for _, f := range res.fails {
				// (GetFilters used to report wrongly typed /Filter entries and /DecodeParms values
				// with errors that are not malformed-file errors: repaired by fix d844fc8.)
				t.Errorf("B2-FAIL %s", f)
			}
		}
	}
	c08Goroutines(t, goroutines)
	_ = skipped
	t.Logf("B2-CASES %d", cases)
}

// c08FilterWellTyped: absent, a name, or an array of names (references resolve to null in this harness).
func c08FilterWellTyped(fo Object) bool {
	switch x := fo.(type) {
	case nil, Name:
		return true
	case Array:
		for _, e := range x {
			if _, ok := e.(Name); !ok {
				return false
			}
		}
		return true
	}
	return false
}

// c08ParmsWellTyped: absent or null; a dictionary beside a single filter name; an array of
// dictionaries and nulls beside an array of names.
func c08ParmsWellTyped(fo, po Object) bool {
	switch x := po.(type) {
	case nil, Reference:
		return true
	case Dict:
		_, ok := fo.(Name)
		return ok || fo == nil
	case Array:
		if _, ok := fo.(Array); !ok && fo != nil {
			return false
		}
		for _, e := range x {
			switch e.(type) {
			case nil, Dict, Reference:
			default:
				return false
			}
		}
		return true
	}
	return false
}

// ---- C08: the budget as a function of the raw length, and what decoders allocate under it ----

// c08JPEG assembles a JPEG stream: SOI, COM segments of pad bytes in total (0: none), an optional Adobe
// APP14 segment, a quantisation table of ones, the frame header, Huffman tables (DC 0 and AC 0, each
// with the single code "0" for the symbol 0: DC difference 0, end of block) unless noTables, then the
// scans, each followed by data zero bytes (every block is one or two zero bits), and EOI.
type c08JPEG struct {
	sof      byte   // 0xC0 baseline, 0xC1 extended sequential, 0xC2 progressive
	w, h     int    // frame dimensions
	hv       []byte // sampling factors (H<<4 | V) per component
	adobe    int    // transform value of the APP14 segment, -1: no such segment
	split    bool   // one scan per component instead of interleaved scans
	noTables bool
	pad      int
	data     int
}

func (j c08JPEG) build() []byte {
	var b bytes.Buffer
	w := func(p ...byte) { b.Write(p) }
	w(0xFF, 0xD8)
	for pad := j.pad; pad > 0; {
		seg := min(pad, 2+0xFFFF)
		if r := pad - seg; r > 0 && r < 4 {
			seg -= 4
		}
		seg = max(seg, 4)
		w(0xFF, 0xFE, byte((seg-2)>>8), byte(seg-2))
		b.Write(make([]byte, seg-4))
		pad -= seg
	}
	if j.adobe >= 0 {
		w(0xFF, 0xEE, 0x00, 0x0E, 'A', 'd', 'o', 'b', 'e', 0x00, 0x64, 0x00, 0x00, 0x00, 0x00, byte(j.adobe))
	}
	w(0xFF, 0xDB, 0x00, 0x43, 0x00)
	for range 64 {
		w(0x01)
	}
	n := len(j.hv)
	w(0xFF, j.sof, 0x00, byte(8+3*n), 0x08, byte(j.h>>8), byte(j.h), byte(j.w>>8), byte(j.w), byte(n))
	for i, hv := range j.hv {
		w(byte(i+1), hv, 0x00)
	}
	if !j.noTables {
		w(0xFF, 0xC4, 0x00, 0x26)
		for _, tcth := range []byte{0x00, 0x10} {
			w(tcth, 0x01)
			b.Write(make([]byte, 15))
			w(0x00)
		}
	}
	scan := func(comps []int, ss, se byte) {
		w(0xFF, 0xDA, 0x00, byte(6+2*len(comps)), byte(len(comps)))
		for _, c := range comps {
			w(byte(c+1), 0x00)
		}
		w(ss, se, 0x00)
		b.Write(make([]byte, j.data))
	}
	var all []int
	for i := range j.hv {
		all = append(all, i)
	}
	first := [][]int{all}
	if j.split {
		first = nil
		for i := range j.hv {
			first = append(first, []int{i})
		}
	}
	if j.sof == 0xC2 {
		for _, comps := range first {
			scan(comps, 0, 0)
		}
		for i := range j.hv {
			scan([]int{i}, 1, 63)
		}
	} else {
		for _, comps := range first {
			scan(comps, 0, 63)
		}
	}
	w(0xFF, 0xD9)
	return b.Bytes()
}

func TestB2C08Budget(t *testing.T) {
	cases := 0
	goroutines := runtime.NumGoroutine()
	// the derivation: as documented, hence never above 264 MiB and monotone in the raw length
	lens := []int64{math.MinInt64, -1, 0, 1, 2, 1023, 1024, 8191, 8192, 8193, 1<<18 - 1, 1 << 18, 1<<18 + 1, 1<<18 + 2, 300000, 1 << 19, 1 << 20, 1 << 24, 1<<28 - 1, 1 << 28, 1<<28 + 1, 1 << 32, 1 << 40,
		math.MaxInt64/1024 - 1, math.MaxInt64 / 1024, math.MaxInt64/1024 + 1, 1 << 62, math.MaxInt64 - 1, math.MaxInt64}
	rng := rand.New(rand.NewSource(c06Seed()))
	for range 200 {
		lens = append(lens, rng.Int63n(1<<uint(1+rng.Intn(62))))
	}
	for i, n := range lens {
		cases++
		got := limits.StreamBudget(n)
		if want := c08DocBudget(n); got != want {
			t.Errorf("B2-FAIL budget-derivation StreamBudget(%d) = %d, documented 8 MiB + min(1024 x length, 256 MiB) = %d", n, got, want)
		}
		if i > 0 && (n >= lens[i-1]) != (got >= limits.StreamBudget(lens[i-1])) && got != limits.StreamBudget(lens[i-1]) {
			t.Errorf("B2-FAIL budget-derivation StreamBudget is not monotone at %d and %d", lens[i-1], n)
		}
	}
	// decoders whose headers or parameters claim large dimensions, on raw data of lengths on both
	// sides of 256 KiB (where the proportional part of the budget reaches its cap)
	worst := 0.0
	rawLens := []int{1 << 10, 200 << 10, 1 << 18, 1<<18 + 1, 320 << 10, 1 << 20, 3 << 20}
	if !b2Thorough() {
		rawLens = []int{1 << 10, 1<<18 + 1, 1 << 20, 3 << 20}
	}
	noise := make([]byte, 4<<20)
	rng.Read(noise)
	var zb bytes.Buffer
	zw := zlib.NewWriter(&zb)
	zw.Write(noise)
	zw.Close()
	type claim struct {
		desc string
		sd   Dict
		body func(rawLen int) []byte
	}
	var claims []claim
	for _, fr := range []c08JPEG{
		{sof: 0xC2, w: 8720, h: 8720, hv: []byte{0x11}}, {sof: 0xC2, w: 8720, h: 8720, hv: []byte{0x11, 0x11, 0x11}}, {sof: 0xC2, w: 8000, h: 8000, hv: []byte{0x11, 0x11, 0x11, 0x11}},
		{sof: 0xC2, w: 65535, h: 2040, hv: []byte{0x22, 0x11, 0x11}}, {sof: 0xC2, w: 1200, h: 65535, hv: []byte{0x11, 0x11, 0x11}, split: true}, {sof: 0xC2, w: 4096, h: 4096, hv: []byte{0x22, 0x11, 0x11}},
		{sof: 0xC0, w: 8720, h: 8720, hv: []byte{0x11, 0x11, 0x11}, split: true}, {sof: 0xC0, w: 8000, h: 8000, hv: []byte{0x22, 0x11, 0x11, 0x22}, split: true}, {sof: 0xC0, w: 65535, h: 2040, hv: []byte{0x11}},
		{sof: 0xC1, w: 65535, h: 1360, hv: []byte{0x11, 0x11, 0x11}, split: true},
	} {
		fr.adobe, fr.noTables, fr.data = -1, true, 4
		claims = append(claims, claim{fmt.Sprintf("DCT SOF%d %dx%dx%d split=%v", fr.sof&15, fr.w, fr.h, len(fr.hv), fr.split), Dict{"Filter": Name("DCTDecode")}, func(rawLen int) []byte {
			fr.pad = 0
			fr.pad = max(0, rawLen-len(fr.build()))
			return fr.build()
		}})
	}
	for _, name := range []Name{"FlateDecode", "LZWDecode"} {
		for _, d := range []Dict{
			{"Predictor": Integer(15), "Columns": Integer(1 << 20), "Colors": Integer(4), "BitsPerComponent": Integer(16)},
			{"Predictor": Integer(15), "Columns": Integer(1 << 20), "Colors": Integer(32), "BitsPerComponent": Integer(16)},
			{"Predictor": Integer(12), "Columns": Integer(1 << 20), "Colors": Integer(60), "BitsPerComponent": Integer(16)},
			{"Predictor": Integer(2), "Columns": Integer(1 << 20), "Colors": Integer(60), "BitsPerComponent": Integer(16)},
			{"Predictor": Integer(2), "Columns": Integer(1 << 20), "Colors": Integer(1 << 20), "BitsPerComponent": Integer(16)},
			{"Predictor": Integer(10), "Columns": Integer(1 << 20), "Colors": Integer(math.MaxInt32), "BitsPerComponent": Integer(8)},
		} {
			claims = append(claims, claim{fmt.Sprintf("%s %s", name, AsString(d)), Dict{"Filter": name, "DecodeParms": d}, func(rawLen int) []byte {
				if name == "FlateDecode" {
					// a valid zlib stream of incompressible data, cut or followed by further bytes
					return append(append([]byte{}, zb.Bytes()...), noise...)[:rawLen]
				}
				return noise[:rawLen]
			}})
		}
	}
	for _, d := range []Dict{{"Columns": Integer(1 << 20), "K": Integer(-1)}, {"Columns": Integer(1 << 20), "K": Integer(0), "Rows": Integer(1 << 20)}, {"Columns": Integer(1 << 30), "K": Integer(4), "EncodedByteAlign": Boolean(true)}} {
		claims = append(claims, claim{"CCITTFaxDecode " + AsString(d), Dict{"Filter": Name("CCITTFaxDecode"), "DecodeParms": d}, func(rawLen int) []byte {
			return bytes.Repeat([]byte{0x00, 0x10, 0x01, 0x36, 0xff, 0x80, 0x4c}, rawLen/7+1)[:rawLen]
		}})
	}
	// JBIG2 (embedded organisation): page information segments claiming large pages, then filler
	for _, dim := range [][2]uint32{{65535, 65535}, {1 << 20, 1 << 12}, {23170, 23170}, {1 << 31, 1}} {
		claims = append(claims, claim{fmt.Sprintf("JBIG2 page %dx%d", dim[0], dim[1]), Dict{"Filter": Name("JBIG2Decode")}, func(rawLen int) []byte {
			b := []byte{0, 0, 0, 0, 48, 0, 1, 0, 0, 0, 19,
				byte(dim[0] >> 24), byte(dim[0] >> 16), byte(dim[0] >> 8), byte(dim[0]), byte(dim[1] >> 24), byte(dim[1] >> 16), byte(dim[1] >> 8), byte(dim[1]),
				0, 0, 0, 0, 0, 0, 0, 0, 0, 0, 0}
			// an extension segment (type 62) carrying the filler
			fill := max(0, rawLen-len(b)-11)
			b = append(b, 0, 0, 0, 1, 62, 0, 1, byte(fill>>24), byte(fill>>16), byte(fill>>8), byte(fill))
			return append(b, make([]byte, fill)...)
		}})
	}
	for _, cl := range claims {
		for _, rawLen := range rawLens {
			cases++
			body := cl.body(rawLen)
			res := c08Check(fmt.Sprintf("%s raw length %d", cl.desc, len(body)), cl.sd, body)
			for _, f := range res.fails {
				t.Errorf("B2-FAIL %s", f)
			}
			worst = max(worst, res.excess)
		}
	}
	c08Goroutines(t, goroutines)
	t.Logf("largest allocation relative to the documented budget: %.3f", worst)
	t.Logf("B2-CASES %d", cases)
}

// ---- C08: JPEG frames of every component count and sampling combination, with complete scans ----

type c08FrameCase struct {
	j  c08JPEG
	ct int // /ColorTransform in the decode parameters, -1: absent
}

func (c c08FrameCase) String() string {
	return fmt.Sprintf("SOF%d %dx%d hv=%x adobe=%d split=%v ColorTransform=%d", c.j.sof&15, c.j.w, c.j.h, c.j.hv, c.j.adobe, c.j.split, c.ct)
}

func c08FrameCases() []c08FrameCase {
	rng := rand.New(rand.NewSource(c06Seed()))
	sizes := [][2]int{{16, 16}, {1 + rng.Intn(70), 1 + rng.Intn(70)}}
	factors := []byte{0x11, 0x12, 0x21, 0x22, 0x14, 0x41, 0x24, 0x42, 0x44}
	var hvs [][]byte
	for _, a := range append(factors, 0x13, 0x31, 0x10, 0x01, 0x55) {
		hvs = append(hvs, []byte{a})
		for _, b := range []byte{0x11, 0x22} {
			hvs = append(hvs, []byte{a, b})
		}
	}
	for _, a := range factors {
		for _, b := range factors {
			for _, c := range factors {
				hvs = append(hvs, []byte{a, b, c})
			}
		}
	}
	// four components: every combination of 1 and 2, and (thorough tier) of 1, 2 and 4
	four := factors[:4]
	if b2Thorough() {
		four = factors
	}
	for _, a := range four {
		for _, b := range four {
			for _, c := range four {
				for _, d := range four {
					hvs = append(hvs, []byte{a, b, c, d})
				}
			}
		}
	}
	hvs = append(hvs, []byte{0x11, 0x11, 0x11, 0x11, 0x11}, []byte{0x22, 0x11, 0x11, 0x13}, []byte{0x22, 0x11, 0x31, 0x22}, []byte{})
	var out []c08FrameCase
	for hi, hv := range hvs {
		for si, size := range sizes {
			for vi, variant := range []struct {
				sof   byte
				split bool
			}{{0xC0, false}, {0xC0, true}, {0xC2, false}, {0xC2, true}, {0xC1, false}} {
				if variant.sof == 0xC1 && (hi+si)%4 != 0 {
					continue
				}
				adobes := []int{-1}
				switch len(hv) {
				case 3:
					adobes = []int{-1, []int{0, 1}[(hi+vi)%2]}
				case 4:
					adobes = []int{-1, 0, 2}
				}
				for _, adobe := range adobes {
					k := hi + si + vi + adobe
					out = append(out, c08FrameCase{c08JPEG{sof: variant.sof, w: size[0], h: size[1], hv: hv, adobe: adobe, split: variant.split, data: 160}, k%3 - 1})
				}
			}
		}
	}
	return out
}

// TestB2C08DCTFrames decodes the frames in a child process (this test binary, started again with
// VERIF_C08_CHILD set to the index of the first case), because a panic in a decoder's helper goroutine
// cannot be recovered: it ends the process.  The child prints the index of each case before running
// it; when the child dies the parent reports the case as a panic and starts another child behind it.
func TestB2C08DCTFrames(t *testing.T) {
	all := c08FrameCases()
	if s := os.Getenv("VERIF_C08_CHILD"); s != "" {
		start, _ := strconv.Atoi(s)
		goroutines := runtime.NumGoroutine()
		for i := start; i < len(all); i++ {
			c := all[i]
			fmt.Fprintf(os.Stdout, "\nC08CHILD BEGIN %d\n", i)
			sd := Dict{"Filter": Name("DCTDecode")}
			if c.ct >= 0 {
				sd["DecodeParms"] = Dict{"ColorTransform": Integer(c.ct)}
			}
			res := c08Check(fmt.Sprintf("frame#%d %v", i, c), sd, c.j.build())
			// the output of a format with intrinsic dimensions: one byte per pixel and component,
			// all of them if there was no error
			size := int64(c.j.w * c.j.h * len(c.j.hv))
			if res.produced > size || (res.err == nil && res.produced != size) {
				res.fails = append(res.fails, fmt.Sprintf("dct-output frame#%d %v: %d bytes, image has %d, err=%v", i, c, res.produced, size, b2ShortErr(res.err)))
			}
			for _, f := range res.fails {
				fmt.Fprintf(os.Stdout, "\nC08CHILD FAIL %s\n", strings.ReplaceAll(f, "\n", " "))
			}
		}
		for i := 0; i < 400 && runtime.NumGoroutine() > goroutines; i++ {
			time.Sleep(50 * time.Millisecond)
		}
		if n := runtime.NumGoroutine(); n > goroutines {
			fmt.Fprintf(os.Stdout, "\nC08CHILD FAIL goroutine-leak %d goroutines before, %d after all readers were closed\n", goroutines, n)
		}
		fmt.Fprintf(os.Stdout, "\nC08CHILD DONE\n")
		return
	}
	exe, err := os.Executable()
	if err != nil {
		t.Fatalf("B2-FAIL harness cannot find the test binary: %v", err)
	}
	crashes := 0
	for start := 0; start < len(all); {
		cmd := exec.Command(exe, "-test.run", "^TestB2C08DCTFrames$", "-test.timeout", "500s")
		cmd.Env = append(os.Environ(), "VERIF_C08_CHILD="+strconv.Itoa(start))
		out, runErr := cmd.CombinedOutput()
		last, done := -1, false
		lines := strings.Split(string(out), "\n")
		for _, l := range lines {
			switch {
			case strings.HasPrefix(l, "C08CHILD BEGIN "):
				last, _ = strconv.Atoi(strings.TrimPrefix(l, "C08CHILD BEGIN "))
			case strings.HasPrefix(l, "C08CHILD FAIL "):
				t.Errorf("B2-FAIL %s", strings.TrimPrefix(l, "C08CHILD FAIL "))
			case l == "C08CHILD DONE":
				done = true
			}
		}
		if done {
			break
		}
		if last < start {
			t.Fatalf("B2-FAIL harness child process did not run any case from %d on: %v: %s", start, runErr, b2Short(string(out)))
		}
		// the child died in case last
		why := "no output"
		for _, l := range lines {
			if strings.HasPrefix(l, "panic:") || strings.HasPrefix(l, "fatal error:") || strings.Contains(l, "test timed out") {
				why = l
				break
			}
		}
		t.Errorf("B2-FAIL panic frame#%d %v: the process died (%v): %s", last, all[last], runErr, why)
		crashes++
		if crashes >= 8 {
			t.Errorf("B2-FAIL panic frames: stopped after %d crashes, %d of %d cases not run", crashes, len(all)-last-1, len(all))
			break
		}
		start = last + 1
	}
	t.Logf("B2-CASES %d", len(all))
}

// c08SlowLimit is the CPU-time bound for decodes with little output: 3 s, or VERIF_SLOW_MS
// milliseconds (a development aid for measuring the margin of the clean tree).
func c08SlowLimit() time.Duration {
	if v, err := strconv.Atoi(os.Getenv("VERIF_SLOW_MS")); err == nil && v > 0 {
		return time.Duration(v) * time.Millisecond
	}
	return 3 * time.Second
}
