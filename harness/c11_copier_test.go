package pdf

// B2 bounded check for C11 (labelled bounded, never counted as proved): object graphs
// with sharing, cycles, empty containers, null entries and streams are copied
// between differently encrypted files; the copy must be isomorphic to the source.

import (
	"bytes"
	"compress/lzw"
	"compress/zlib"
	"fmt"
	"io"
	"maps"
	"math/rand"
	"os"
	"regexp"
	"sort"
	"strconv"
	"testing"
)

type c11Graph struct {
	root Reference
}

func c11Source(t *testing.T, v Version, user string) ([]byte, Reference, error) {
	var buf bytes.Buffer
	w, err := NewWriter(&buf, v, &WriterOptions{UserPassword: user, OwnerPassword: user})
	if err != nil {
		return nil, 0, err
	}
	pages := w.Alloc()
	w.GetMeta().Catalog.Pages = pages
	if err := w.Put(pages, Dict{"Type": Name("Pages"), "Kids": Array{}, "Count": Integer(0)}); err != nil {
		return nil, 0, err
	}
	root, a, b, c, s1, s2, leaf := w.Alloc(), w.Alloc(), w.Alloc(), w.Alloc(), w.Alloc(), w.Alloc(), w.Alloc()
	missing := w.Alloc()
	s3, s4, globals, cryptName := w.Alloc(), w.Alloc(), w.Alloc(), w.Alloc()
	packed, packed2 := w.Alloc(), w.Alloc()
	must := func(err error) {
		if err != nil {
			t.Fatalf("harness: %v", err)
		}
	}
	must(w.Put(leaf, String("shared leaf \x00\xff")))
	must(w.Put(root, Dict{"A": a, "B": b, "Again": a, "Empty": Array{}, "EmptyD": Dict{}, "Null": nil, "Nested": Array{nil, Array{}, Dict{"X": nil}, leaf, Integer(-1), Real(0.5), Name("n m"), Boolean(true)}, "S1": s1, "S2": s2, "S3": s3, "S4": s4, "Missing": missing, "Direct": String("a direct string in the root dictionary"), "Strs": Array{String("one"), String("two \x00\xff")}, "Packed": packed}))
	// objects stored in an object stream (where the version has them)
	must(w.WriteCompressed([]Reference{packed, packed2}, Dict{"InObjStm": Boolean(true), "Next": packed2, "S": String("compressed")}, Array{leaf, Integer(5)}))
	must(w.Put(a, Array{b, c, leaf, a})) // cycle through a itself
	must(w.Put(b, Dict{"Back": root, "C": c, "Leaf": leaf}))
	must(w.Put(c, Array{Array{Array{leaf}}, String(""), Name("")}))
	sw, err := w.OpenStream(s1, Dict{"Ref": leaf, "Desc": String("a string in a stream dictionary"), "Params": Dict{"ModDate": String("D:20200101"), "CheckSum": String("\x00\x01\xfe\xff")}}, FilterFlate{})
	must(err)
	sw.Write(bytes.Repeat([]byte("stream one "), 300))
	must(sw.Close())
	sw, err = w.OpenStream(s2, Dict{"Other": s1}, FilterASCII85{}, FilterLZW{})
	must(err)
	sw.Write([]byte("two\n"))
	must(sw.Close())
	// a stream whose /DecodeParms holds an indirect reference (as JBIG2 images do)
	must(w.Put(cryptName, Name("Crypt")))
	sw, err = w.OpenStream(globals, Dict{}, FilterFlate{})
	must(err)
	sw.Write([]byte("globals segment data"))
	must(sw.Close())
	sw, err = w.OpenStream(s3, Dict{"Filter": Name("JBIG2Decode"), "DecodeParms": Dict{"JBIG2Globals": globals, "Extra": Array{leaf}}})
	must(err)
	sw.Write([]byte("not really JBIG2 data"))
	must(sw.Close())
	// a stream that opts out of encryption with an Identity crypt filter
	if v >= V1_5 {
		sw, err = w.OpenStream(s4, Dict{"Type": Name("Quir:Test")}, FilterCryptIdentity{}, FilterFlate{})
		must(err)
		sw.Write(bytes.Repeat([]byte("stored as plaintext "), 60))
		must(sw.Close())
	}
	must(w.Close())
	data := buf.Bytes()
	if user != "" && v >= V1_5 {
		// the first element of the /Filter array becomes an indirect reference to the name
		// /Crypt (same width, so no offset changes)
		direct := []byte("/Filter[/Crypt/FlateDecode]")
		indirect := []byte(fmt.Sprintf("/Filter[%-6s/FlateDecode]", fmt.Sprintf("%d %d R", cryptName.Number(), cryptName.Generation())))
		if len(direct) == len(indirect) && bytes.Count(data, direct) == 1 {
			data = bytes.Replace(data, direct, indirect, 1)
		} else {
			t.Errorf("B2-FAIL harness: cannot patch the /Filter array of the identity-crypt stream")
		}
	}
	return data, root, nil
}

// c11Iso walks both graphs in lock step.
type c11Iso struct {
	t        *testing.T
	src, dst Getter
	fwd      map[Reference]Reference
	bwd      map[Reference]Reference
	desc     string
	fails    int
	quiet    int // show this many failures fewer than the usual 8
}

func (m *c11Iso) fail(key, format string, a ...any) {
	m.fails++
	if m.fails <= 8-m.quiet {
		m.t.Errorf("B2-FAIL %s %s: %s", key, m.desc, fmt.Sprintf(format, a...))
	}
}

func (m *c11Iso) cmp(path string, a, b Object, depth int) {
	if depth > 40 {
		return
	}
	ra, aIsRef := a.(Reference)
	rb, bIsRef := b.(Reference)
	if aIsRef != bIsRef {
		m.fail("shape", "%s: reference vs direct (%v / %v)", path, a, b)
		return
	}
	if aIsRef {
		if prev, seen := m.fwd[ra]; seen {
			if prev != rb {
				m.fail("sharing", "%s: source %v copied to both %v and %v", path, ra, prev, rb)
			}
			return
		}
		if prev, seen := m.bwd[rb]; seen && prev != ra {
			m.fail("sharing", "%s: target %v stands for both %v and %v", path, rb, prev, ra)
			return
		}
		m.fwd[ra], m.bwd[rb] = rb, ra
		va, ea := m.src.Get(ra, true)
		vb, eb := m.dst.Get(rb, true)
		if ea != nil || eb != nil {
			m.fail("get", "%s: %v / %v", path, ea, eb)
			return
		}
		m.cmp(path+"*", va, vb, depth+1)
		return
	}
	switch x := a.(type) {
	case nil:
		if b != nil {
			m.fail("null", "%s: null became %#v", path, b)
		}
	case Array:
		y, ok := b.(Array)
		if !ok || (x == nil) != (y == nil) || len(x) != len(y) {
			m.fail("array", "%s: %#v became %#v", path, a, b)
			return
		}
		for i := range x {
			m.cmp(fmt.Sprintf("%s[%d]", path, i), x[i], y[i], depth+1)
		}
	case Dict:
		y, ok := b.(Dict)
		if !ok || len(x) != len(y) {
			m.fail("dict", "%s: keys differ: %v / %v", path, x.SortedKeys(), fmt.Sprint(b))
			return
		}
		for k, v := range x {
			w, exists := y[k]
			if !exists {
				m.fail("dict", "%s: key %s lost", path, k)
				continue
			}
			m.cmp(path+"/"+string(k), v, w, depth+1)
		}
	case *Stream:
		y, ok := b.(*Stream)
		if !ok {
			m.fail("stream", "%s: stream became %#v", path, b)
			return
		}
		dx, dy := Dict{}, Dict{}
		for k, v := range x.Dict {
			if k != "Length" {
				dx[k] = v
			}
		}
		for k, v := range y.Dict {
			if k != "Length" {
				dy[k] = v
			}
		}
		// the copier may inline references in /Filter and /DecodeParms at the top and at the
		// array-element level (documented); compare those entries after resolving both sides
		inline := c11Resolved
		for _, k := range []Name{"Filter", "DecodeParms"} {
			if v, ok := dx[k]; ok {
				dx[k] = inline(m.src, v)
			}
			if v, ok := dy[k]; ok {
				dy[k] = inline(m.dst, v)
			}
			// an entry which resolves to null is the same as no entry (7.3.7)
			if dx[k] == nil {
				delete(dx, k)
			}
			if dy[k] == nil {
				delete(dy, k)
			}
		}
		m.cmp(path+"<dict>", dx, dy, depth+1)
		ra, ea := DecodeStream(m.src, nil, x)
		rb, eb := DecodeStream(m.dst, nil, y)
		if ea != nil && eb != nil {
			// not decodable on either side (the pseudo JBIG2 stream): compare the stored bytes
			ra, ea = RawStreamReader(m.src, x)
			rb, eb = RawStreamReader(m.dst, y)
		}
		if ea != nil || eb != nil {
			m.fail("stream", "%s: decode %v / %v", path, ea, eb)
			return
		}
		da, _ := io.ReadAll(ra)
		db, _ := io.ReadAll(rb)
		if !bytes.Equal(da, db) {
			m.fail("stream", "%s: data differs (%d / %d bytes)", path, len(da), len(db))
		}
	case String:
		// nil and empty strings are the same PDF string (see the recorded C01 finding)
		if y, ok := b.(String); !ok || !bytes.Equal(x, y) {
			m.fail("scalar", "%s: %#v became %#v", path, a, b)
		}
	default:
		if !Equal(a, b) {
			m.fail("scalar", "%s: %#v became %#v", path, a, b)
		}
	}
}

func TestB2C11Copier(t *testing.T) {
	cases := 0
	type enc struct {
		v   Version
		pwd string
	}
	encs := []enc{{V1_7, ""}, {V1_4, "secret"}, {V1_6, "aes128"}, {V2_0, "other"}}
	for _, se := range encs {
		for _, de := range encs {
			cases++
			desc := fmt.Sprintf("src=%v/%q dst=%v/%q", se.v, se.pwd, de.v, de.pwd)
			data, root, err := c11Source(t, se.v, se.pwd)
			if err != nil {
				t.Errorf("B2-FAIL source %s: %v", desc, err)
				continue
			}
			var ro *ReaderOptions
			if se.pwd != "" {
				ro = &ReaderOptions{Password: se.pwd}
			}
			src, err := NewReader(bytes.NewReader(data), int64(len(data)), ro)
			if err != nil {
				t.Errorf("B2-FAIL source-open %s: %v", desc, err)
				continue
			}
			var out bytes.Buffer
			w, err := NewWriter(&out, de.v, &WriterOptions{UserPassword: de.pwd, OwnerPassword: de.pwd})
			if err != nil {
				t.Errorf("B2-FAIL target %s: %v", desc, err)
				continue
			}
			pages := w.Alloc()
			w.GetMeta().Catalog.Pages = pages
			w.Put(pages, Dict{"Type": Name("Pages"), "Kids": Array{}, "Count": Integer(0)})
			cp := NewCopier(w, src)
			var copied Object
			func() {
				defer func() {
					if r := recover(); r != nil {
						t.Errorf("B2-FAIL panic %s: %v", desc, r)
					}
				}()
				copied, err = cp.Copy(root)
			}()
			if err != nil || copied == nil {
				t.Errorf("B2-FAIL copy %s: %v", desc, err)
				continue
			}
			again, err := cp.CopyReference(root)
			if err != nil || again != copied {
				t.Errorf("B2-FAIL memo %s: second copy gives %v, first %v (%v)", desc, again, copied, err)
			}
			// Redirect after a copy: later copies of objects that refer to the redirected
			// reference point to the replacement, and copying the reference itself yields it
			replacement := w.Alloc()
			w.Put(replacement, Dict{"Replacement": Boolean(true)})
			cp.Redirect(root, replacement)
			if got, err := cp.CopyReference(root); err != nil || got != replacement {
				t.Errorf("B2-FAIL redirect %s: CopyReference after Redirect gives %v, want %v (%v)", desc, got, replacement, err)
			}
			if got, err := cp.Copy(Array{root}); err != nil || !Equal(got, Array{replacement}) {
				t.Errorf("B2-FAIL redirect %s: a later copy refers to %v, want %v (%v)", desc, got, replacement, err)
			}
			cp.Redirect(root, again)
			// one in-memory source value copied and written twice: writing the first copy must
			// not change the source value (nor, through it, the second copy)
			var twice []Reference
			if ro, err := src.Get(root, true); err == nil {
				if rd, ok := ro.(Dict); ok {
					for k := 0; k < 2; k++ {
						c, err := cp.Copy(Array{rd["Direct"], rd["Strs"]})
						if err != nil {
							t.Errorf("B2-FAIL copy %s: in-memory value: %v", desc, err)
							break
						}
						r := w.Alloc()
						w.Put(r, c)
						twice = append(twice, r)
					}
				}
			}
			if err := w.Close(); err != nil {
				t.Errorf("B2-FAIL close %s: %v", desc, err)
				continue
			}
			var do *ReaderOptions
			if de.pwd != "" {
				do = &ReaderOptions{Password: de.pwd}
			}
			dst, err := NewReader(bytes.NewReader(out.Bytes()), int64(out.Len()), do)
			if err != nil {
				t.Errorf("B2-FAIL target-open %s: %v", desc, err)
				continue
			}
			iso := &c11Iso{t: t, src: src, dst: dst, fwd: map[Reference]Reference{}, bwd: map[Reference]Reference{}, desc: desc}
			iso.cmp("root", root, copied, 0)
			if len(twice) == 2 {
				o1, e1 := dst.Get(twice[0], true)
				o2, e2 := dst.Get(twice[1], true)
				iso2 := &c11Iso{t: t, src: dst, dst: dst, fwd: map[Reference]Reference{}, bwd: map[Reference]Reference{}, desc: desc + " (value copied twice)"}
				if e1 != nil || e2 != nil {
					t.Errorf("B2-FAIL get %s: value copied twice: %v %v", desc, e1, e2)
				} else {
					iso2.cmp("twice", o1, o2, 0)
				}
			}
		}
	}
	t.Logf("B2-CASES %d", cases)
}

// ---------------------------------------------------------------------------------------
// Second part: streams.  The quantifier of C11 ranges over streams with filters and
// indirect /Length, /Filter and /DecodeParms, and over target files; the graph above holds
// four small streams written by the library's own writer into a sequential target.  Here
// the source streams are assembled by the harness: the payload is known, the encoded form
// is produced by encoders that do not belong to the library (compress/zlib, compress/lzw,
// and ASCIIHex, ASCII85, RunLength and the PNG/TIFF predictors written out below), and the
// unencrypted source file is written byte by byte.  After the copy, every stream must
// (1) decode to the payload, (2) carry /Filter and /DecodeParms entries that resolve to the
// filter chain of the case, entry by entry (a null entry of /DecodeParms is the parameter
// of the filter at the same index, PDF 7.3.8.2 table 5), (3) occupy in the target file
// exactly /Length bytes between "stream" EOL and EOL "endstream" (PDF 7.3.8.1), and (4) be
// isomorphic to the source by the lock-step walk above.

func c11Env() (thorough bool, seed int64) {
	thorough = os.Getenv("VERIF_TIER") == "thorough"
	seed = 1
	fmt.Sscanf(os.Getenv("VERIF_SEED"), "%d", &seed)
	return thorough, seed
}

// c11MemFile is a seekable in-memory file (what os.File offers to the Writer).
type c11MemFile struct {
	data []byte
	pos  int64
}

func (f *c11MemFile) Write(p []byte) (int, error) {
	end := f.pos + int64(len(p))
	if end > int64(len(f.data)) {
		f.data = append(f.data, make([]byte, end-int64(len(f.data)))...)
	}
	copy(f.data[f.pos:], p)
	f.pos = end
	return len(p), nil
}

func (f *c11MemFile) Read(p []byte) (int, error) {
	if f.pos >= int64(len(f.data)) {
		return 0, io.EOF
	}
	n := copy(p, f.data[f.pos:])
	f.pos += int64(n)
	return n, nil
}

func (f *c11MemFile) ReadAt(p []byte, off int64) (int, error) {
	if off >= int64(len(f.data)) {
		return 0, io.EOF
	}
	n := copy(p, f.data[off:])
	if n < len(p) {
		return n, io.EOF
	}
	return n, nil
}

func (f *c11MemFile) Seek(off int64, whence int) (int64, error) {
	switch whence {
	case io.SeekCurrent:
		off += f.pos
	case io.SeekEnd:
		off += int64(len(f.data))
	}
	if off < 0 {
		return 0, fmt.Errorf("negative position")
	}
	f.pos = off
	return off, nil
}

// c11Sequential offers Write only (a pipe, a network connection, a hash).
type c11Sequential struct{ buf bytes.Buffer }

func (s *c11Sequential) Write(p []byte) (int, error) { return s.buf.Write(p) }

// how the parameters of one filter are written in the source
const (
	c11PNull    = iota // the entry is null
	c11PMissing        // the entry is a reference to an object the file does not define
	c11PRefNull        // the entry is a reference to an object whose value is null
	c11PDirect         // the entry is a dictionary
	c11PRef            // the entry is a reference to a dictionary
)

type c11Filt struct {
	name  Name
	parms Dict
	how   int
}

// bits of c11Stm.style
const (
	c11FilterIndirect = 1 << iota // /Filter is a reference to the name or array
	c11FilterElemsInd             // the elements of the /Filter array are references to names
	c11ParmsIndirect              // /DecodeParms is a reference
	c11Flat                       // one filter: /Filter is a name, /DecodeParms a dictionary
	c11LengthIndirect             // /Length is a reference
	c11OmitNullParms              // no /DecodeParms key when no filter has parameters
	c11LengthBefore               // the length object precedes the stream in the file
	c11CRLF                       // "stream" is followed by CR LF
)

type c11Stm struct {
	chain   []c11Filt
	style   int
	payload []byte

	encoded   []byte
	ref       Reference
	expFilter Object // nil: no /Filter entry
	expParms  Object // nil: no /DecodeParms entry
}

// ---- encoders, written from ISO 32000 7.4 ----

func c11EncHex(data []byte) []byte {
	const digits = "0123456789abcdefABCDEF"
	out := make([]byte, 0, 2*len(data)+1)
	for i, b := range data {
		hi, lo := int(b>>4), int(b&15)
		if i%2 == 1 && hi >= 10 {
			hi += 6 // upper-case digit
		}
		out = append(out, digits[hi], digits[lo])
	}
	return append(out, '>')
}

func c11Enc85(data []byte) []byte {
	var out []byte
	for i := 0; i < len(data); i += 4 {
		n := len(data) - i
		if n > 4 {
			n = 4
		}
		var v uint32
		for j := 0; j < 4; j++ {
			v <<= 8
			if j < n {
				v |= uint32(data[i+j])
			}
		}
		if n == 4 && v == 0 {
			out = append(out, 'z')
			continue
		}
		var c [5]byte
		for j := 4; j >= 0; j-- {
			c[j] = byte(v%85) + '!'
			v /= 85
		}
		out = append(out, c[:n+1]...)
		if len(out)%61 == 0 {
			out = append(out, '\n') // white space is ignored
		}
	}
	return append(out, '~', '>')
}

func c11EncRL(data []byte) []byte {
	var out []byte
	for i := 0; i < len(data); {
		run := 1
		for i+run < len(data) && run < 128 && data[i+run] == data[i] {
			run++
		}
		if run >= 2 {
			out = append(out, byte(257-run), data[i])
			i += run
			continue
		}
		j := i + 1
		for j < len(data) && j-i < 128 && !(j+1 < len(data) && data[j] == data[j+1]) {
			j++
		}
		out = append(out, byte(j-i-1))
		out = append(out, data[i:j]...)
		i = j
	}
	return append(out, 128)
}

func c11EncFlate(data []byte) []byte {
	var buf bytes.Buffer
	zw := zlib.NewWriter(&buf)
	zw.Write(data)
	zw.Close()
	return buf.Bytes()
}

// c11EncLZW is LZW with /EarlyChange 0 (code lengths grow as late as possible), the
// variant compress/lzw implements: 8-bit literals, MSB first, clear = 256, EOD = 257.
func c11EncLZW(data []byte) []byte {
	var buf bytes.Buffer
	lw := lzw.NewWriter(&buf, lzw.MSB, 8)
	lw.Write(data)
	lw.Close()
	return buf.Bytes()
}

// c11Predict applies the predictor of 7.4.4.4 (Colors 1, BitsPerComponent 8).
func c11Predict(data []byte, parms Dict) []byte {
	p, _ := parms["Predictor"].(Integer)
	if p <= 1 {
		return data
	}
	cols := int(parms["Columns"].(Integer))
	if len(data)%cols != 0 {
		panic("harness: payload is not a whole number of rows")
	}
	var out []byte
	for r := 0; r*cols < len(data); r++ {
		row := data[r*cols : (r+1)*cols]
		var prev []byte
		if r > 0 {
			prev = data[(r-1)*cols : r*cols]
		} else {
			prev = make([]byte, cols)
		}
		if p == 2 { // TIFF: difference to the left neighbour
			for j, b := range row {
				if j > 0 {
					b -= row[j-1]
				}
				out = append(out, b)
			}
			continue
		}
		tag := int(p) - 10
		if p == 15 {
			tag = r % 5 // the tag byte of each row decides
		}
		out = append(out, byte(tag))
		for j, b := range row {
			var left, up, upLeft int
			if j > 0 {
				left = int(row[j-1])
				upLeft = int(prev[j-1])
			}
			up = int(prev[j])
			switch tag {
			case 1:
				b -= byte(left)
			case 2:
				b -= byte(up)
			case 3:
				b -= byte((left + up) / 2)
			case 4:
				pa, pb, pc := up-upLeft, left-upLeft, left+up-2*upLeft
				if pa < 0 {
					pa = -pa
				}
				if pb < 0 {
					pb = -pb
				}
				if pc < 0 {
					pc = -pc
				}
				switch {
				case pa <= pb && pa <= pc:
					b -= byte(left)
				case pb <= pc:
					b -= byte(up)
				default:
					b -= byte(upLeft)
				}
			}
			out = append(out, b)
		}
	}
	return out
}

func c11Encode(chain []c11Filt, payload []byte) []byte {
	data := payload
	for i := len(chain) - 1; i >= 0; i-- {
		f := chain[i]
		switch f.name {
		case "ASCIIHexDecode":
			data = c11EncHex(data)
		case "ASCII85Decode":
			data = c11Enc85(data)
		case "RunLengthDecode":
			data = c11EncRL(data)
		case "FlateDecode":
			data = c11EncFlate(c11Predict(data, f.parms))
		case "LZWDecode":
			if f.parms["EarlyChange"] != Integer(0) {
				panic("harness: only /EarlyChange 0 has an independent encoder")
			}
			data = c11EncLZW(c11Predict(data, f.parms))
		default:
			panic("harness: no encoder for " + string(f.name))
		}
	}
	return data
}

// c11Text writes an object in PDF syntax (names here need no escapes).
func c11Text(o Object) string {
	switch x := o.(type) {
	case nil:
		return "null"
	case Name:
		return "/" + string(x)
	case Integer:
		return strconv.FormatInt(int64(x), 10)
	case Boolean:
		return strconv.FormatBool(bool(x))
	case Reference:
		return fmt.Sprintf("%d %d R", x.Number(), x.Generation())
	case Array:
		s := "["
		for i, e := range x {
			if i > 0 {
				s += " "
			}
			s += c11Text(e)
		}
		return s + "]"
	case Dict:
		keys := make([]string, 0, len(x))
		for k := range x {
			keys = append(keys, string(k))
		}
		sort.Strings(keys)
		s := "<<"
		for _, k := range keys {
			s += "/" + k + " " + c11Text(x[Name(k)])
		}
		return s + ">>"
	}
	panic(fmt.Sprintf("harness: c11Text(%T)", o))
}

// c11Sink receives the objects of a source file.
type c11Sink interface {
	alloc() Reference
	missing() Reference // a reference which will resolve to null
	put(r Reference, o Object)
	stream(r Reference, d Dict, data []byte, style int)
	null() Object // a null entry of a /Filter or /DecodeParms array
	allowIndirect() bool
}

// c11Hand writes an unencrypted PDF 1.7 file with a classic cross-reference table.
type c11Hand struct {
	body  bytes.Buffer
	off   map[uint32]int
	next  uint32
	nMiss int
}

func c11NewHand() *c11Hand {
	h := &c11Hand{off: map[uint32]int{}, next: 1}
	h.body.WriteString("%PDF-1.7\n%\xe2\xe3\xcf\xd3\n")
	return h
}

func (h *c11Hand) alloc() Reference {
	h.next++
	return NewReference(h.next-1, 0)
}

func (h *c11Hand) missing() Reference {
	h.nMiss++
	if h.nMiss%2 == 0 {
		return NewReference(900000+uint32(h.nMiss), 0) // beyond /Size
	}
	return h.alloc() // stays a free entry of the table
}

func (h *c11Hand) null() Object        { return nil }
func (h *c11Hand) allowIndirect() bool { return true }

func (h *c11Hand) put(r Reference, o Object) {
	h.off[r.Number()] = h.body.Len()
	fmt.Fprintf(&h.body, "%d 0 obj\n%s\nendobj\n", r.Number(), c11Text(o))
}

func (h *c11Hand) stream(r Reference, d Dict, data []byte, style int) {
	d = maps.Clone(d)
	d["Length"] = Integer(len(data))
	var lenRef Reference
	if style&c11LengthIndirect != 0 {
		lenRef = h.alloc()
		d["Length"] = lenRef
		if style&c11LengthBefore != 0 {
			h.put(lenRef, Integer(len(data)))
		}
	}
	eol := "\n"
	if style&c11CRLF != 0 {
		eol = "\r\n"
	}
	h.off[r.Number()] = h.body.Len()
	fmt.Fprintf(&h.body, "%d 0 obj\n%s\nstream%s", r.Number(), c11Text(d), eol)
	h.body.Write(data)
	h.body.WriteString(eol + "endstream\nendobj\n")
	if style&c11LengthIndirect != 0 && style&c11LengthBefore == 0 {
		h.put(lenRef, Integer(len(data)))
	}
}

func (h *c11Hand) finish(catalog Reference) []byte {
	xref := h.body.Len()
	fmt.Fprintf(&h.body, "xref\n0 %d\n0000000000 65535 f \n", h.next)
	for n := uint32(1); n < h.next; n++ {
		if off, ok := h.off[n]; ok {
			fmt.Fprintf(&h.body, "%010d 00000 n \n", off)
		} else {
			h.body.WriteString("0000000000 00001 f \n")
		}
	}
	fmt.Fprintf(&h.body, "trailer\n<</Size %d/Root %s>>\nstartxref\n%d\n%%%%EOF\n", h.next, c11Text(catalog), xref)
	return h.body.Bytes()
}

// c11Lib writes the source with the library's writer (needed for encrypted sources).  Null
// entries of /Filter-related arrays are written as the name /XNUL and become " null" in the
// finished file, so that the source does not depend on what the writer does with them;
// references in those entries would be inlined by the writer, so there are none.
type c11Lib struct {
	t     *testing.T
	w     *Writer
	nulls int
}

func (l *c11Lib) alloc() Reference    { return l.w.Alloc() }
func (l *c11Lib) missing() Reference  { return l.w.Alloc() }
func (l *c11Lib) allowIndirect() bool { return false }
func (l *c11Lib) null() Object        { return Name("XNUL") }

func (l *c11Lib) put(r Reference, o Object) {
	if err := l.w.Put(r, o); err != nil {
		l.t.Fatalf("harness: %v", err)
	}
}

func (l *c11Lib) stream(r Reference, d Dict, data []byte, style int) {
	if dp, ok := d["DecodeParms"].(Array); ok {
		for _, e := range dp {
			if e == Name("XNUL") {
				l.nulls++
			}
		}
	}
	sw, err := l.w.OpenStream(r, d)
	if err == nil {
		_, err = sw.Write(data)
	}
	if err == nil {
		err = sw.Close()
	}
	if err != nil {
		l.t.Fatalf("harness: %v", err)
	}
}

// c11BuildStreams writes the cases into the sink and records, for each, what its /Filter
// and /DecodeParms entries must resolve to.  Stream 2k and 2k+1 refer to each other from
// their dictionaries (a cycle through stream dictionaries).
func c11BuildStreams(sink c11Sink, cases []*c11Stm) {
	for _, c := range cases {
		c.ref = sink.alloc()
	}
	for i, c := range cases {
		style := c.style
		if !sink.allowIndirect() {
			style &^= c11FilterIndirect | c11FilterElemsInd | c11ParmsIndirect
		}
		if len(c.chain) != 1 {
			style &^= c11Flat
		}
		d := Dict{"Idx": Integer(i), "Kind": Name("Quir:C11")}
		if j := i ^ 1; j < len(cases) {
			d["Buddy"] = cases[j].ref
		}
		c.expFilter, c.expParms = nil, nil
		if len(c.chain) > 0 {
			names, expNames := Array{}, Array{}
			parms, expParms := Array{}, Array{}
			allNull := true
			for _, f := range c.chain {
				how := f.how
				if !sink.allowIndirect() {
					how = map[int]int{c11PNull: c11PNull, c11PMissing: c11PNull, c11PRefNull: c11PNull, c11PDirect: c11PDirect, c11PRef: c11PDirect}[how]
				}
				expNames = append(expNames, f.name)
				if style&c11FilterElemsInd != 0 && style&c11Flat == 0 {
					r := sink.alloc()
					sink.put(r, f.name)
					names = append(names, r)
				} else {
					names = append(names, f.name)
				}
				if how != c11PNull {
					allNull = false
				}
				switch how {
				case c11PNull:
					parms, expParms = append(parms, sink.null()), append(expParms, nil)
				case c11PMissing:
					parms, expParms = append(parms, sink.missing()), append(expParms, nil)
				case c11PRefNull:
					r := sink.alloc()
					sink.put(r, nil)
					parms, expParms = append(parms, r), append(expParms, nil)
				case c11PDirect:
					parms, expParms = append(parms, f.parms), append(expParms, f.parms)
				case c11PRef:
					r := sink.alloc()
					sink.put(r, f.parms)
					parms, expParms = append(parms, r), append(expParms, f.parms)
				}
			}
			var filter, dp Object = names, parms
			c.expFilter, c.expParms = expNames, expParms
			omit := allNull && style&c11OmitNullParms != 0
			if style&c11Flat != 0 {
				filter, c.expFilter = c.chain[0].name, c.chain[0].name
				dp, c.expParms = parms[0], expParms[0]
				omit = allNull // "/DecodeParms null" is the same as no entry
			}
			if style&c11FilterIndirect != 0 {
				r := sink.alloc()
				sink.put(r, filter)
				filter = r
			}
			d["Filter"] = filter
			if omit {
				c.expParms = nil
			} else {
				if style&c11ParmsIndirect != 0 {
					r := sink.alloc()
					sink.put(r, dp)
					dp = r
				}
				d["DecodeParms"] = dp
			}
		}
		c.encoded = c11Encode(c.chain, c.payload)
		sink.stream(c.ref, d, c.encoded, style)
	}
}

// c11Same compares two objects built from null, names, integers, arrays and dictionaries.
func c11Same(a, b Object) bool {
	switch x := a.(type) {
	case nil:
		return b == nil
	case Array:
		y, ok := b.(Array)
		if !ok || len(x) != len(y) {
			return false
		}
		for i := range x {
			if !c11Same(x[i], y[i]) {
				return false
			}
		}
		return true
	case Dict:
		y, ok := b.(Dict)
		if !ok || len(x) != len(y) {
			return false
		}
		for k, v := range x {
			w, ok := y[k]
			if !ok || !c11Same(v, w) {
				return false
			}
		}
		return true
	case Name:
		y, ok := b.(Name)
		return ok && x == y
	case Integer:
		y, ok := b.(Integer)
		return ok && x == y
	}
	return false
}

// c11Resolved follows references at the top and at the array-element level (an indirect
// object may itself be a reference; such chains are followed).
func c11Resolved(g Getter, v Object) Object {
	deref := func(v Object) Object {
		for k := 0; k < 8; k++ {
			r, ok := v.(Reference)
			if !ok {
				break
			}
			v, _ = g.Get(r, true)
		}
		return v
	}
	v = deref(v)
	if arr, ok := v.(Array); ok {
		out := make(Array, len(arr))
		for i, e := range arr {
			out[i] = deref(e)
		}
		return out
	}
	return v
}

var c11LengthRe = regexp.MustCompile(`/Length\s+(\d+)(?:\s+(\d+)\s+R)?`)
var c11StreamRe = regexp.MustCompile(`^\s*stream(\r\n|\n)`)

// c11Extent finds the stream object in the file text and checks 7.3.8.1: /Length (direct or
// through a reference) counts the bytes between the end-of-line after "stream" and the
// end-of-line before "endstream".  It returns the data so delimited.  ok is false when the
// file text cannot be interpreted without a full parser (nothing is reported then).
func c11Extent(file []byte, ref Reference) (data []byte, problem string, ok bool) {
	find := func(r string) int {
		hdr := []byte("\n" + r + " obj\n")
		if bytes.Count(file, hdr) != 1 {
			return -1
		}
		return bytes.Index(file, hdr) + len(hdr)
	}
	p := find(fmt.Sprintf("%d %d", ref.Number(), ref.Generation()))
	if p < 0 || !bytes.HasPrefix(file[p:], []byte("<<")) {
		return nil, "", false
	}
	depth, q := 0, p
	for q+1 < len(file) {
		if file[q] == '<' && file[q+1] == '<' {
			depth++
			q += 2
		} else if file[q] == '>' && file[q+1] == '>' {
			depth--
			q += 2
			if depth == 0 {
				break
			}
		} else {
			q++
		}
	}
	if depth != 0 {
		return nil, "", false
	}
	m := c11LengthRe.FindSubmatch(file[p:q])
	if m == nil {
		return nil, "no /Length in the stream dictionary", true
	}
	n, _ := strconv.Atoi(string(m[1]))
	if m[2] != nil {
		lp := find(string(m[1]) + " " + string(m[2]))
		if lp < 0 {
			return nil, fmt.Sprintf("/Length %s %s R: no such object at the start of a line", m[1], m[2]), true
		}
		end := lp
		for end < len(file) && file[end] >= '0' && file[end] <= '9' {
			end++
		}
		var err error
		if n, err = strconv.Atoi(string(file[lp:end])); err != nil {
			return nil, fmt.Sprintf("/Length %s %s R is not an integer", m[1], m[2]), true
		}
	}
	s := c11StreamRe.Find(file[q:])
	if s == nil {
		return nil, "no stream keyword after the dictionary", true
	}
	start := q + len(s)
	if start+n > len(file) {
		return nil, fmt.Sprintf("/Length %d reaches beyond the end of the file", n), true
	}
	rest := file[start+n:]
	for _, eol := range []string{"\r\n", "\n", "\r", ""} {
		if bytes.HasPrefix(rest, []byte(eol+"endstream")) {
			return file[start : start+n], "", true
		}
	}
	if len(rest) > 12 {
		rest = rest[:12]
	}
	return nil, fmt.Sprintf("/Length %d: followed by %q, not endstream", n, rest), true
}

func c11Payload(rng *rand.Rand, n int) []byte {
	out := make([]byte, n)
	for i := 0; i < n; {
		switch rng.Intn(3) {
		case 0: // noise
			for k := rng.Intn(40) + 1; k > 0 && i < n; k-- {
				out[i] = byte(rng.Intn(256))
				i++
			}
		case 1: // a run
			b := byte(rng.Intn(256))
			for k := rng.Intn(300) + 1; k > 0 && i < n; k-- {
				out[i] = b
				i++
			}
		default: // text, with the words a careless reader would stop at
			for _, b := range []byte("endstream\nendobj\n8388000 0 obj\n<</Length 5>>stream\r\n") {
				if i < n {
					out[i] = b
					i++
				}
			}
		}
	}
	return out
}

func c11StreamCases(thorough bool, seed int64) []*c11Stm {
	rng := rand.New(rand.NewSource(seed))
	pred := func(p, cols int) Dict { return Dict{"Predictor": Integer(p), "Columns": Integer(cols)} }
	ec0 := Dict{"EarlyChange": Integer(0)}
	const N, M, RN, D, R = c11PNull, c11PMissing, c11PRefNull, c11PDirect, c11PRef
	// a predictor in front of another filter sees data of any length, so it has one column
	chains := [][]c11Filt{
		{{"FlateDecode", nil, N}},
		{{"FlateDecode", pred(12, 4), D}},
		{{"FlateDecode", pred(15, 10), R}},
		{{"LZWDecode", ec0, R}},
		{{"ASCIIHexDecode", nil, N}},
		{{"RunLengthDecode", nil, RN}},
		{{"ASCIIHexDecode", nil, N}, {"FlateDecode", pred(12, 4), D}},
		{{"ASCIIHexDecode", nil, M}, {"FlateDecode", pred(2, 5), R}},
		{{"ASCII85Decode", Dict{}, D}, {"LZWDecode", ec0, D}},
		{{"FlateDecode", pred(12, 1), D}, {"ASCIIHexDecode", nil, N}},
		{{"FlateDecode", pred(14, 1), R}, {"RunLengthDecode", nil, M}},
		{{"ASCIIHexDecode", nil, RN}, {"RunLengthDecode", nil, M}},
		{{"ASCII85Decode", nil, N}, {"RunLengthDecode", nil, N}},
		{{"FlateDecode", pred(12, 1), D}, {"FlateDecode", pred(2, 4), D}},
		{{"FlateDecode", Dict{}, D}, {"LZWDecode", pred(14, 5), D}},
		{{"RunLengthDecode", nil, N}, {"LZWDecode", ec0, R}, {"FlateDecode", nil, RN}},
		{{"ASCII85Decode", nil, N}, {"RunLengthDecode", nil, N}, {"FlateDecode", pred(15, 10), D}},
		{{"ASCII85Decode", nil, M}, {"FlateDecode", pred(13, 1), D}, {"RunLengthDecode", nil, N}},
		{{"ASCIIHexDecode", nil, N}, {"ASCII85Decode", nil, RN}, {"LZWDecode", ec0, D}, {"FlateDecode", pred(12, 10), R}},
	}
	// the LZW filter of chain 14 needs /EarlyChange 0 as well
	chains[14][1].parms["EarlyChange"] = Integer(0)
	sizes := []int{40, 700, 5000}
	rounds := 1
	if thorough {
		sizes = []int{0, 20, 40, 700, 1020, 5000, 40000}
		rounds = 4
	}
	var cases []*c11Stm
	for round := 0; round < rounds; round++ {
		for _, chain := range chains {
			for _, n := range sizes {
				cases = append(cases, &c11Stm{chain: chain, style: rng.Intn(256), payload: c11Payload(rng, n)})
			}
		}
	}
	// stored sizes around the writer's look-ahead (1024 bytes), the cipher block (16 bytes;
	// AES adds an initialisation vector and 1 to 16 bytes of padding) and the copy buffer
	raw := []int{0, 1, 15, 16, 17, 975, 976, 991, 992, 1007, 1008, 1022, 1023, 1024, 1025, 1039, 1040, 2048, 3000, 32767, 32768, 32769, 70000}
	hex := []int{487, 488, 495, 496, 503, 504, 511, 512}
	if thorough {
		raw = raw[:0]
		for n := 0; n <= 40; n++ {
			raw = append(raw, n)
		}
		for n := 940; n <= 1100; n++ {
			raw = append(raw, n)
		}
		raw = append(raw, 2047, 2048, 2049, 4095, 4096, 4097, 32767, 32768, 32769, 32784, 65535, 65536, 65537, 70000, 1<<20+3)
		hex = hex[:0]
		for n := 470; n <= 530; n++ {
			hex = append(hex, n)
		}
	}
	for _, n := range raw {
		cases = append(cases, &c11Stm{style: rng.Intn(256), payload: c11Payload(rng, n)})
	}
	for _, n := range hex {
		cases = append(cases, &c11Stm{chain: chains[4], style: rng.Intn(256), payload: c11Payload(rng, n)})
	}
	return cases
}

func TestB2C11Streams(t *testing.T) {
	thorough, seed := c11Env()
	cases := c11StreamCases(thorough, seed)
	type enc struct {
		v   Version
		pwd string
	}
	encs := []enc{{V1_7, ""}, {V1_4, "secret"}, {V1_6, "aes128"}, {V2_0, "other"}}
	n, fails, extents := 0, 0, 0
	fail := func(kind, format string, a ...any) {
		fails++
		if fails <= 25 {
			t.Errorf("B2-FAIL %s %s", kind, fmt.Sprintf(format, a...))
		}
	}
	// source 0 is written by hand; the others by the library's writer
	for si := 0; si <= len(encs); si++ {
		var data []byte
		var ro *ReaderOptions
		sdesc := "src=hand"
		if si == 0 {
			h := c11NewHand()
			cat, pages := h.alloc(), h.alloc()
			h.put(cat, Dict{"Type": Name("Catalog"), "Pages": pages})
			h.put(pages, Dict{"Type": Name("Pages"), "Kids": Array{}, "Count": Integer(0)})
			c11BuildStreams(h, cases)
			data = h.finish(cat)
		} else {
			se := encs[si-1]
			sdesc = fmt.Sprintf("src=%v/%q", se.v, se.pwd)
			f := &c11MemFile{}
			w, err := NewWriter(f, se.v, &WriterOptions{UserPassword: se.pwd, OwnerPassword: se.pwd})
			if err != nil {
				t.Fatalf("harness: %v", err)
			}
			pages := w.Alloc()
			w.GetMeta().Catalog.Pages = pages
			w.Put(pages, Dict{"Type": Name("Pages"), "Kids": Array{}, "Count": Integer(0)})
			l := &c11Lib{t: t, w: w}
			c11BuildStreams(l, cases)
			if err := w.Close(); err != nil {
				t.Fatalf("harness: %v", err)
			}
			if bytes.Count(f.data, []byte("/XNUL")) != l.nulls {
				t.Errorf("B2-FAIL harness %s: cannot patch the null entries", sdesc)
				continue
			}
			data = bytes.ReplaceAll(f.data, []byte("/XNUL"), []byte(" null"))
			if se.pwd != "" {
				ro = &ReaderOptions{Password: se.pwd}
			}
		}
		src, err := NewReader(bytes.NewReader(data), int64(len(data)), ro)
		if err != nil {
			fail("source-open", "%s: %v", sdesc, err)
			continue
		}
		// the source must say what the harness meant (otherwise the case tests nothing)
		srcOK := make([]bool, len(cases))
		for i, c := range cases {
			got, err := c11ReadStream(src, c.ref)
			if err != nil || !bytes.Equal(got, c.payload) {
				fail("source-decode", "%s stream %d %s: %d bytes, want %d (%v)", sdesc, i, c11ChainText(c), len(got), len(c.payload), err)
				continue
			}
			srcOK[i] = true
		}
		for di, de := range encs {
			for seekable := 0; seekable < 2; seekable++ {
				desc := fmt.Sprintf("%s dst=%v/%q seekable=%d", sdesc, de.v, de.pwd, seekable)
				mode := (si + 2*di + seekable) % 4
				mem, seq := &c11MemFile{}, &c11Sequential{}
				var out io.Writer = seq
				if seekable == 1 {
					out = mem
				}
				w, err := NewWriter(out, de.v, &WriterOptions{UserPassword: de.pwd, OwnerPassword: de.pwd})
				if err != nil {
					fail("target", "%s: %v", desc, err)
					continue
				}
				pages := w.Alloc()
				w.GetMeta().Catalog.Pages = pages
				w.Put(pages, Dict{"Type": Name("Pages"), "Kids": Array{}, "Count": Integer(0)})
				cp := NewCopier(w, src)
				dstRefs := make([]Reference, len(cases))
				second := map[int]Reference{} // streams copied a second time as direct objects
				var cerr error
				func() {
					defer func() {
						if r := recover(); r != nil {
							cerr = fmt.Errorf("panic: %v", r)
						}
					}()
					switch mode {
					case 0: // one CopyReference per stream
						for i, c := range cases {
							if dstRefs[i], cerr = cp.CopyReference(c.ref); cerr != nil {
								return
							}
						}
					case 1: // one Copy of an array of references
						arr := make(Array, len(cases))
						for i, c := range cases {
							arr[i] = c.ref
						}
						var res Native
						if res, cerr = cp.Copy(arr); cerr != nil {
							return
						}
						ra, _ := res.(Array)
						if len(ra) != len(cases) {
							cerr = fmt.Errorf("Copy(array of %d) gives %d elements", len(cases), len(ra))
							return
						}
						for i := range ra {
							dstRefs[i], _ = ra[i].(Reference)
						}
					case 2: // in reverse, through Copy
						for i := len(cases) - 1; i >= 0; i-- {
							var res Native
							if res, cerr = cp.Copy(cases[i].ref); cerr != nil {
								return
							}
							dstRefs[i], _ = res.(Reference)
						}
					case 3: // every third stream is first copied as a direct object and written by the caller
						for i, c := range cases {
							if i%3 == 0 {
								obj, err := src.Get(c.ref, true)
								if err != nil {
									cerr = err
									return
								}
								res, err := cp.Copy(obj)
								if err != nil {
									cerr = err
									return
								}
								if _, isStream := res.(*Stream); !isStream {
									cerr = fmt.Errorf("Copy(stream) gives %T", res)
									return
								}
								r := w.Alloc()
								if cerr = w.Put(r, res); cerr != nil {
									return
								}
								second[i] = r
							}
							if dstRefs[i], cerr = cp.CopyReference(c.ref); cerr != nil {
								return
							}
						}
					}
					for i, c := range cases {
						if again, err := cp.CopyReference(c.ref); err != nil || again != dstRefs[i] {
							cerr = fmt.Errorf("stream %d: second CopyReference gives %v, first %v (%v)", i, again, dstRefs[i], err)
							return
						}
					}
				}()
				if cerr != nil {
					fail("copy", "%s mode %d: %v", desc, mode, cerr)
					continue
				}
				if err := w.Close(); err != nil {
					fail("close", "%s: %v", desc, err)
					continue
				}
				file := seq.buf.Bytes()
				if seekable == 1 {
					file = mem.data
				}
				var do *ReaderOptions
				if de.pwd != "" {
					do = &ReaderOptions{Password: de.pwd}
				}
				dst, err := NewReader(bytes.NewReader(file), int64(len(file)), do)
				if err != nil {
					fail("target-open", "%s: %v", desc, err)
					continue
				}
				check := func(i int, r Reference, what string) {
					c := cases[i]
					n++
					cd := fmt.Sprintf("%s %s %d (%d bytes, %d stored) %s", desc, what, i, len(c.payload), len(c.encoded), c11ChainText(c))
					obj, err := dst.Get(r, true)
					stm, isStream := obj.(*Stream)
					if err != nil || !isStream {
						fail("stream", "%s: copy is %T (%v)", cd, obj, err)
						return
					}
					got, err := c11ReadStream(dst, r)
					if err != nil || !bytes.Equal(got, c.payload) {
						fail("stream-data", "%s: decodes to %d bytes, differs at %d (%v)", cd, len(got), c11FirstDiff(got, c.payload), err)
					}
					for _, e := range []struct {
						key Name
						exp Object
					}{{"Filter", c.expFilter}, {"DecodeParms", c.expParms}} {
						have := c11Resolved(dst, stm.Dict[e.key])
						if !c11Same(e.exp, have) {
							fail("filter-entries", "%s: /%s resolves to %s, want %s", cd, e.key, c11Show(have), c11Show(e.exp))
						}
					}
					if v := stm.Dict["Idx"]; v != Integer(i) {
						fail("scalar", "%s: /Idx became %v", cd, v)
					}
					stored, problem, ok := c11Extent(file, r)
					if ok {
						extents++
					}
					if ok && problem != "" {
						fail("length", "%s: %s", cd, problem)
					} else if ok && de.pwd == "" && len(c.chain) == 0 && !bytes.Equal(stored, c.payload) {
						fail("stored-data", "%s: the %d bytes delimited by /Length differ from the data at %d", cd, len(stored), c11FirstDiff(stored, c.payload))
					}
				}
				for i := range cases {
					if !srcOK[i] {
						continue
					}
					check(i, dstRefs[i], "stream")
					if r, ok := second[i]; ok {
						check(i, r, "direct-stream")
					}
				}
				sa, da := make(Array, len(cases)), make(Array, len(cases))
				for i, c := range cases {
					sa[i], da[i] = c.ref, dstRefs[i]
				}
				iso := &c11Iso{t: t, src: src, dst: dst, fwd: map[Reference]Reference{}, bwd: map[Reference]Reference{}, desc: desc, quiet: 6}
				iso.cmp("streams", sa, da, 0)
			}
		}
	}
	if fails > 25 {
		t.Errorf("B2-FAIL more %d further failures not shown", fails-25)
	}
	if extents < n*9/10 {
		t.Errorf("B2-FAIL harness the extent of only %d of %d copied streams could be checked in the file text", extents, n)
	}
	t.Logf("B2-CASES %d", n)
}

func c11ReadStream(g Getter, r Reference) ([]byte, error) {
	obj, err := g.Get(r, true)
	if err != nil {
		return nil, err
	}
	stm, ok := obj.(*Stream)
	if !ok {
		return nil, fmt.Errorf("%T, not a stream", obj)
	}
	rd, err := DecodeStream(g, nil, stm)
	if err != nil {
		return nil, err
	}
	defer rd.Close()
	return io.ReadAll(rd)
}

func c11FirstDiff(a, b []byte) int {
	for i := 0; i < len(a) && i < len(b); i++ {
		if a[i] != b[i] {
			return i
		}
	}
	if len(a) < len(b) {
		return len(a)
	}
	return len(b)
}

func c11Show(o Object) string {
	if o == nil {
		return "(none)"
	}
	defer func() { recover() }()
	s := c11Text(o)
	if len(s) > 90 {
		s = s[:90] + "..."
	}
	return s
}

func c11ChainText(c *c11Stm) string {
	s := "["
	for i, f := range c.chain {
		if i > 0 {
			s += " "
		}
		s += string(f.name[:len(f.name)-6]) + ":" + "nmrDR"[f.how:f.how+1]
	}
	return fmt.Sprintf("%s] style %#x", s, c.style)
}
