package pdf

// B2 bounded check for C11 (labelled bounded, never counted as proved): object graphs
// with sharing, cycles, empty containers, null entries and streams are copied
// between differently encrypted files; the copy must be isomorphic to the source.

import (
	"bytes"
	"fmt"
	"io"
	"testing"
)

type c11Graph struct {
	root Reference
}

func c11Source(t *testing.T, v Version, user string) ([]byte, Reference, error) {
	var buf bytes.Buffer
	w, err := NewWriter(&buf, v, &WriterOptions{UserPassword: user, OwnerPassword: user})
	if err != nil {
		return nil, 0, err
	}
	pages := w.Alloc()
	w.GetMeta().Catalog.Pages = pages
	if err := w.Put(pages, Dict{"Type": Name("Pages"), "Kids": Array{}, "Count": Integer(0)}); err != nil {
		return nil, 0, err
	}
	root, a, b, c, s1, s2, leaf := w.Alloc(), w.Alloc(), w.Alloc(), w.Alloc(), w.Alloc(), w.Alloc(), w.Alloc()
	missing := w.Alloc()
	s3, s4, globals, cryptName := w.Alloc(), w.Alloc(), w.Alloc(), w.Alloc()
	packed, packed2 := w.Alloc(), w.Alloc()
	must := func(err error) {
		if err != nil {
			t.Fatalf("harness: %v", err)
		}
	}
	must(w.Put(leaf, String("shared leaf \x00\xff")))
	must(w.Put(root, Dict{"A": a, "B": b, "Again": a, "Empty": Array{}, "EmptyD": Dict{}, "Null": nil, "Nested": Array{nil, Array{}, Dict{"X": nil}, leaf, Integer(-1), Real(0.5), Name("n m"), Boolean(true)}, "S1": s1, "S2": s2, "S3": s3, "S4": s4, "Missing": missing, "Direct": String("a direct string in the root dictionary"), "Strs": Array{String("one"), String("two \x00\xff")}, "Packed": packed}))
	// objects stored in an object stream (where the version has them)
	must(w.WriteCompressed([]Reference{packed, packed2}, Dict{"InObjStm": Boolean(true), "Next": packed2, "S": String("compressed")}, Array{leaf, Integer(5)}))
	must(w.Put(a, Array{b, c, leaf, a})) // cycle through a itself
	must(w.Put(b, Dict{"Back": root, "C": c, "Leaf": leaf}))
	must(w.Put(c, Array{Array{Array{leaf}}, String(""), Name("")}))
	sw, err := w.OpenStream(s1, Dict{"Ref": leaf, "Desc": String("a string in a stream dictionary"), "Params": Dict{"ModDate": String("D:20200101"), "CheckSum": String("\x00\x01\xfe\xff")}}, FilterFlate{})
	must(err)
	sw.Write(bytes.Repeat([]byte("stream one "), 300))
	must(sw.Close())
	sw, err = w.OpenStream(s2, Dict{"Other": s1}, FilterASCII85{}, FilterLZW{})
	must(err)
	sw.Write([]byte("two\n"))
	must(sw.Close())
	// a stream whose /DecodeParms holds an indirect reference (as JBIG2 images do)
	must(w.Put(cryptName, Name("Crypt")))
	sw, err = w.OpenStream(globals, Dict{}, FilterFlate{})
	must(err)
	sw.Write([]byte("globals segment data"))
	must(sw.Close())
	sw, err = w.OpenStream(s3, Dict{"Filter": Name("JBIG2Decode"), "DecodeParms": Dict{"JBIG2Globals": globals, "Extra": Array{leaf}}})
	must(err)
	sw.Write([]byte("not really JBIG2 data"))
	must(sw.Close())
	// a stream that opts out of encryption with an Identity crypt filter
	if v >= V1_5 {
		sw, err = w.OpenStream(s4, Dict{"Type": Name("Quir:Test")}, FilterCryptIdentity{}, FilterFlate{})
		must(err)
		sw.Write(bytes.Repeat([]byte("stored as plaintext "), 60))
		must(sw.Close())
	}
	must(w.Close())
	data := buf.Bytes()
	if user != "" && v >= V1_5 {
		// the first element of the /Filter array becomes an indirect reference to the name
		// /Crypt (same width, so no offset changes)
		direct := []byte("/Filter[/Crypt/FlateDecode]")
		indirect := []byte(fmt.Sprintf("/Filter[%-6s/FlateDecode]", fmt.Sprintf("%d %d R", cryptName.Number(), cryptName.Generation())))
		if len(direct) == len(indirect) && bytes.Count(data, direct) == 1 {
			data = bytes.Replace(data, direct, indirect, 1)
		} else {
			t.Errorf("B2-FAIL harness: cannot patch the /Filter array of the identity-crypt stream")
		}
	}
	return data, root, nil
}

// c11Iso walks both graphs in lock step.
type c11Iso struct {
	t        *testing.T
	src, dst Getter
	fwd      map[Reference]Reference
	bwd      map[Reference]Reference
	desc     string
	fails    int
}

func (m *c11Iso) fail(key, format string, a ...any) {
	m.fails++
	if m.fails <= 8 {
		m.t.Errorf("B2-FAIL %s %s: %s", key, m.desc, fmt.Sprintf(format, a...))
	}
}

func (m *c11Iso) cmp(path string, a, b Object, depth int) {
	if depth > 40 {
		return
	}
	ra, aIsRef := a.(Reference)
	rb, bIsRef := b.(Reference)
	if aIsRef != bIsRef {
		m.fail("shape", "%s: reference vs direct (%v / %v)", path, a, b)
		return
	}
	if aIsRef {
		if prev, seen := m.fwd[ra]; seen {
			if prev != rb {
				m.fail("sharing", "%s: source %v copied to both %v and %v", path, ra, prev, rb)
			}
			return
		}
		if prev, seen := m.bwd[rb]; seen && prev != ra {
			m.fail("sharing", "%s: target %v stands for both %v and %v", path, rb, prev, ra)
			return
		}
		m.fwd[ra], m.bwd[rb] = rb, ra
		va, ea := m.src.Get(ra, true)
		vb, eb := m.dst.Get(rb, true)
		if ea != nil || eb != nil {
			m.fail("get", "%s: %v / %v", path, ea, eb)
			return
		}
		m.cmp(path+"*", va, vb, depth+1)
		return
	}
	switch x := a.(type) {
	case nil:
		if b != nil {
			m.fail("null", "%s: null became %#v", path, b)
		}
	case Array:
		y, ok := b.(Array)
		if !ok || (x == nil) != (y == nil) || len(x) != len(y) {
			m.fail("array", "%s: %#v became %#v", path, a, b)
			return
		}
		for i := range x {
			m.cmp(fmt.Sprintf("%s[%d]", path, i), x[i], y[i], depth+1)
		}
	case Dict:
		y, ok := b.(Dict)
		if !ok || len(x) != len(y) {
			m.fail("dict", "%s: keys differ: %v / %v", path, x.SortedKeys(), fmt.Sprint(b))
			return
		}
		for k, v := range x {
			w, exists := y[k]
			if !exists {
				m.fail("dict", "%s: key %s lost", path, k)
				continue
			}
			m.cmp(path+"/"+string(k), v, w, depth+1)
		}
	case *Stream:
		y, ok := b.(*Stream)
		if !ok {
			m.fail("stream", "%s: stream became %#v", path, b)
			return
		}
		dx, dy := Dict{}, Dict{}
		for k, v := range x.Dict {
			if k != "Length" {
				dx[k] = v
			}
		}
		for k, v := range y.Dict {
			if k != "Length" {
				dy[k] = v
			}
		}
		// the copier may inline references in /Filter and /DecodeParms at the top and at the
		// array-element level (documented); compare those entries after resolving both sides
		inline := func(g Getter, v Object) Object {
			if r, ok := v.(Reference); ok {
				v, _ = g.Get(r, true)
			}
			if arr, ok := v.(Array); ok {
				out := make(Array, len(arr))
				for i, e := range arr {
					if r, ok := e.(Reference); ok {
						e, _ = g.Get(r, true)
					}
					out[i] = e
				}
				return out
			}
			return v
		}
		for _, k := range []Name{"Filter", "DecodeParms"} {
			if v, ok := dx[k]; ok {
				dx[k] = inline(m.src, v)
			}
			if v, ok := dy[k]; ok {
				dy[k] = inline(m.dst, v)
			}
		}
		m.cmp(path+"<dict>", dx, dy, depth+1)
		ra, ea := DecodeStream(m.src, nil, x)
		rb, eb := DecodeStream(m.dst, nil, y)
		if ea != nil && eb != nil {
			// not decodable on either side (the pseudo JBIG2 stream): compare the stored bytes
			ra, ea = RawStreamReader(m.src, x)
			rb, eb = RawStreamReader(m.dst, y)
		}
		if ea != nil || eb != nil {
			m.fail("stream", "%s: decode %v / %v", path, ea, eb)
			return
		}
		da, _ := io.ReadAll(ra)
		db, _ := io.ReadAll(rb)
		if !bytes.Equal(da, db) {
			m.fail("stream", "%s: data differs (%d / %d bytes)", path, len(da), len(db))
		}
	case String:
		// nil and empty strings are the same PDF string (see the recorded C01 finding)
		if y, ok := b.(String); !ok || !bytes.Equal(x, y) {
			m.fail("scalar", "%s: %#v became %#v", path, a, b)
		}
	default:
		if !Equal(a, b) {
			m.fail("scalar", "%s: %#v became %#v", path, a, b)
		}
	}
}

func TestB2C11Copier(t *testing.T) {
	cases := 0
	type enc struct {
		v   Version
		pwd string
	}
	encs := []enc{{V1_7, ""}, {V1_4, "secret"}, {V1_6, "aes128"}, {V2_0, "other"}}
	for _, se := range encs {
		for _, de := range encs {
			cases++
			desc := fmt.Sprintf("src=%v/%q dst=%v/%q", se.v, se.pwd, de.v, de.pwd)
			data, root, err := c11Source(t, se.v, se.pwd)
			if err != nil {
				t.Errorf("B2-FAIL source %s: %v", desc, err)
				continue
			}
			var ro *ReaderOptions
			if se.pwd != "" {
				ro = &ReaderOptions{Password: se.pwd}
			}
			src, err := NewReader(bytes.NewReader(data), int64(len(data)), ro)
			if err != nil {
				t.Errorf("B2-FAIL source-open %s: %v", desc, err)
				continue
			}
			var out bytes.Buffer
			w, err := NewWriter(&out, de.v, &WriterOptions{UserPassword: de.pwd, OwnerPassword: de.pwd})
			if err != nil {
				t.Errorf("B2-FAIL target %s: %v", desc, err)
				continue
			}
			pages := w.Alloc()
			w.GetMeta().Catalog.Pages = pages
			w.Put(pages, Dict{"Type": Name("Pages"), "Kids": Array{}, "Count": Integer(0)})
			cp := NewCopier(w, src)
			var copied Object
			func() {
				defer func() {
					if r := recover(); r != nil {
						t.Errorf("B2-FAIL panic %s: %v", desc, r)
					}
				}()
				copied, err = cp.Copy(root)
			}()
			if err != nil || copied == nil {
				t.Errorf("B2-FAIL copy %s: %v", desc, err)
				continue
			}
			again, err := cp.CopyReference(root)
			if err != nil || again != copied {
				t.Errorf("B2-FAIL memo %s: second copy gives %v, first %v (%v)", desc, again, copied, err)
			}
			// Redirect after a copy: later copies of objects that refer to the redirected
			// reference point to the replacement, and copying the reference itself yields it
			replacement := w.Alloc()
			w.Put(replacement, Dict{"Replacement": Boolean(true)})
			cp.Redirect(root, replacement)
			if got, err := cp.CopyReference(root); err != nil || got != replacement {
				t.Errorf("B2-FAIL redirect %s: CopyReference after Redirect gives %v, want %v (%v)", desc, got, replacement, err)
			}
			if got, err := cp.Copy(Array{root}); err != nil || !Equal(got, Array{replacement}) {
				t.Errorf("B2-FAIL redirect %s: a later copy refers to %v, want %v (%v)", desc, got, replacement, err)
			}
			cp.Redirect(root, again)
			// one in-memory source value copied and written twice: writing the first copy must
			// not change the source value (nor, through it, the second copy)
			var twice []Reference
			if ro, err := src.Get(root, true); err == nil {
				if rd, ok := ro.(Dict); ok {
					for k := 0; k < 2; k++ {
						c, err := cp.Copy(Array{rd["Direct"], rd["Strs"]})
						if err != nil {
							t.Errorf("B2-FAIL copy %s: in-memory value: %v", desc, err)
							break
						}
						r := w.Alloc()
						w.Put(r, c)
						twice = append(twice, r)
					}
				}
			}
			if err := w.Close(); err != nil {
				t.Errorf("B2-FAIL close %s: %v", desc, err)
				continue
			}
			var do *ReaderOptions
			if de.pwd != "" {
				do = &ReaderOptions{Password: de.pwd}
			}
			dst, err := NewReader(bytes.NewReader(out.Bytes()), int64(out.Len()), do)
			if err != nil {
				t.Errorf("B2-FAIL target-open %s: %v", desc, err)
				continue
			}
			iso := &c11Iso{t: t, src: src, dst: dst, fwd: map[Reference]Reference{}, bwd: map[Reference]Reference{}, desc: desc}
			iso.cmp("root", root, copied, 0)
			if len(twice) == 2 {
				o1, e1 := dst.Get(twice[0], true)
				o2, e2 := dst.Get(twice[1], true)
				iso2 := &c11Iso{t: t, src: dst, dst: dst, fwd: map[Reference]Reference{}, bwd: map[Reference]Reference{}, desc: desc + " (value copied twice)"}
				if e1 != nil || e2 != nil {
					t.Errorf("B2-FAIL get %s: value copied twice: %v %v", desc, e1, e2)
				} else {
					iso2.cmp("twice", o1, o2, 0)
				}
			}
		}
	}
	t.Logf("B2-CASES %d", cases)
}
