package pdf

// B2 bounded check for C05 (labelled bounded): reference rewiring.  One hand-built
// file with a cross-reference stream, two object streams (one extending the other),
// ordinary streams and a small page tree has 16 "slots" that hold a value needed to
// open or walk something (/Length, /Filter, /DecodeParms, /N, /First, /Extends,
// /Prev, /Kids, /Parent, ...).  Every slot is pointed in turn at every object of the
// file (itself, its container, an object inside an object stream, the xref stream, a
// free and an absent object); opening and walking the result must terminate without
// panic and without deep recursion.

import (
	"bytes"
	"fmt"
	"runtime/debug"
	"testing"
	"time"
)

type c05Obj struct {
	num   uint32
	inStm uint32 // 0 = top level
	text  string // body; %s placeholders are slots
	data  string // stream data ("" = not a stream)
	slots []string
}

// c05Rewired builds the file; slot is the index of the overridden slot (-1: none).
func c05Rewired(slot int, value string) ([]byte, int) {
	objs := []c05Obj{
		{num: 1, text: "<< /Type /Catalog /Pages %s /Names 11 0 R >>", slots: []string{"2 0 R"}},
		{num: 2, text: "<< /Type /Pages /Kids [%s] /Count %s >>", slots: []string{"3 0 R", "1"}},
		{num: 3, inStm: 7, text: "<< /Type /Page /Parent %s /Contents 5 0 R >>", slots: []string{"2 0 R"}},
		{num: 4, text: "/ASCIIHexDecode"},
		{num: 5, text: "<< /Length %s /Filter %s /DecodeParms %s >>", data: "71 0a 51 0a>", slots: []string{"6 0 R", "4 0 R", "null"}},
		{num: 6, text: "12"},
		{num: 7, text: "<< /Type /ObjStm /N %s /First %s /Extends %s /Filter %s /DecodeParms %s /Length %s >>", slots: []string{"@n", "@first", "8 0 R", "null", "null", "@len"}},
		{num: 8, text: "<< /Type /ObjStm /N @n /First @first /Extends %s /Length %s >>", slots: []string{"null", "@len"}},
		{num: 9, inStm: 8, text: "<< /Limits [(a) (b)] /Names [(a) 6 0 R (b) 4 0 R] >>"},
		{num: 11, text: "<< /Dests << /Kids [%s] >> >>", slots: []string{"9 0 R"}},
	}
	// object 10 is the xref stream, object 12 is free, object 13 absent
	n := 0
	for i := range objs {
		o := &objs[i]
		args := make([]any, len(o.slots))
		for k, def := range o.slots {
			if n == slot {
				def = value
			}
			args[k] = def
			n++
		}
		o.text = fmt.Sprintf(o.text, args...)
	}
	stmBody := func(stm uint32) (string, int, int) {
		var head, body bytes.Buffer
		cnt := 0
		for _, o := range objs {
			if o.inStm == stm {
				fmt.Fprintf(&head, "%d %d ", o.num, body.Len())
				body.WriteString(o.text + " ")
				cnt++
			}
		}
		return head.String() + body.String(), head.Len(), cnt
	}
	var b bytes.Buffer
	b.WriteString("%PDF-1.7\n%\xe2\xe3\xcf\xd3\n")
	off := map[uint32]int{}
	for _, o := range objs {
		if o.inStm != 0 {
			continue
		}
		off[o.num] = b.Len()
		data := o.data
		text := o.text
		if o.num == 7 || o.num == 8 {
			var first, cnt int
			data, first, cnt = stmBody(o.num)
			text = string(bytes.ReplaceAll([]byte(text), []byte("@n"), []byte(fmt.Sprint(cnt))))
			text = string(bytes.ReplaceAll([]byte(text), []byte("@first"), []byte(fmt.Sprint(first))))
		}
		text = string(bytes.ReplaceAll([]byte(text), []byte("@len"), []byte(fmt.Sprint(len(data)))))
		fmt.Fprintf(&b, "%d 0 obj\n%s\n", o.num, text)
		if data != "" {
			fmt.Fprintf(&b, "stream\n%s\nendstream\n", data)
		}
		b.WriteString("endobj\n")
	}
	off[10] = b.Len()
	var x bytes.Buffer
	idx := map[uint32]int{}
	cnt := map[uint32]int{}
	for _, o := range objs {
		if o.inStm != 0 {
			idx[o.num] = cnt[o.inStm]
			cnt[o.inStm]++
		}
	}
	for num := uint32(0); num < 13; num++ {
		switch {
		case num == 0 || num == 12:
			x.Write([]byte{0, 0, 0, 255})
		case off[num] != 0:
			x.Write([]byte{1, byte(off[num] >> 8), byte(off[num]), 0})
		default:
			var stm uint32
			for _, o := range objs {
				if o.num == num {
					stm = o.inStm
				}
			}
			x.Write([]byte{2, 0, byte(stm), byte(idx[num])})
		}
	}
	xslots := []string{"13", "null", "null", fmt.Sprint(x.Len())} // /Size /Prev /Filter /Length
	for k := range xslots {
		if n == slot {
			xslots[k] = value
		}
		n++
	}
	fmt.Fprintf(&b, "10 0 obj\n<< /Type /XRef /Size %s /W [1 2 1] /Root 1 0 R /Prev %s /Filter %s /Length %s >>\nstream\n", xslots[0], xslots[1], xslots[2], xslots[3])
	b.Write(x.Bytes())
	b.WriteString("\nendstream\nendobj\n")
	fmt.Fprintf(&b, "startxref\n%d\n%%%%EOF\n", off[10])
	return b.Bytes(), n
}

func TestB2C05Rewire(t *testing.T) {
	defer debug.SetMaxStack(debug.SetMaxStack(48 << 20))
	base, nslots := c05Rewired(-1, "")
	want, err := c05Walk(bytes.NewReader(base), int64(len(base)), "", ErrorHandlingStop)
	if err != nil || want[NewReference(3, 0)] == "" || want[NewReference(6, 0)] != "12" || len(want) != 13 {
		t.Fatalf("harness: base file does not read as intended: %v %v", err, want)
	}
	cases := 0
	values := []string{}
	for num := 0; num <= 13; num++ {
		values = append(values, fmt.Sprintf("%d 0 R", num))
	}
	values = append(values, "7 1 R", "-1", "0", "99999999999", "[7 0 R]", fmt.Sprint(len(base)-60))
	for slot := 0; slot < nslots; slot++ {
		for _, v := range values {
			data, _ := c05Rewired(slot, v)
			cases++
			desc := fmt.Sprintf("slot=%d value=%q", slot, v)
			start := b2CPU()
			func() {
				defer func() {
					if r := recover(); r != nil {
						t.Errorf("B2-FAIL panic rewire %s: %v", desc, r)
					}
				}()
				for _, mode := range []ReaderErrorHandling{ErrorHandlingRecover, ErrorHandlingReport, ErrorHandlingStop} {
					c05Walk(bytes.NewReader(data), int64(len(data)), "", mode)
				}
				if fi, err := SequentialScan(bytes.NewReader(data), int64(len(data))); err == nil {
					for _, sec := range fi.Sections {
						for _, o := range sec.Objects {
							fi.Read(o)
						}
					}
					fi.MakeReader(nil)
				}
			}()
			if d := b2CPU() - start; d > 5*time.Second {
				t.Errorf("B2-FAIL slow rewire %s: %v of CPU time for a %d byte file", desc, d, len(data))
			}
		}
	}
	t.Logf("B2-CASES %d", cases)
}
