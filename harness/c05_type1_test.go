package type1glyphs

// C05, "leaves no goroutine running": FromStream feeds the font program to the Type 1 parser
// through a pipe from a helper goroutine.  Font programs that the parser gives up on early
// (garbage, truncated fonts, fonts followed by trailing data) must not leave that goroutine
// behind.

import (
	"bytes"
	"io"
	"runtime"
	"testing"
	"time"

	"seehuhn.de/go/pdf/font/glyphdata"
)

func TestB2C05Type1Leak(t *testing.T) {
	bodies := map[string][]byte{
		"empty":         nil,
		"short garbage": []byte("not a font"),
		"long garbage":  bytes.Repeat([]byte("this is not a Type 1 font program\n"), 4000),
		"header only":   append([]byte("%!PS-AdobeFont-1.0: X 001.000\n"), bytes.Repeat([]byte("% filler line\n"), 20000)...),
		"binary":        bytes.Repeat([]byte{0x80, 0x01, 0xff, 0x00, 0x10, 0x00}, 30000),
	}
	cases := 0
	for name, body := range bodies {
		for _, failWrite := range []bool{false, true} {
			base := runtime.NumGoroutine()
			for i := 0; i < 5; i++ {
				s := &glyphdata.Stream{
					Type: glyphdata.Type1,
					WriteTo: func(w io.Writer, l *glyphdata.Lengths) error {
						for off := 0; off < len(body); off += 1000 {
							end := min(off+1000, len(body))
							if _, err := w.Write(body[off:end]); err != nil {
								return err
							}
						}
						if failWrite {
							return io.ErrUnexpectedEOF
						}
						return nil
					},
				}
				FromStream(s)
			}
			n := runtime.NumGoroutine()
			for i := 0; i < 2000 && n > base; i++ {
				time.Sleep(5 * time.Millisecond)
				n = runtime.NumGoroutine()
			}
			if n > base {
				t.Errorf("B2-FAIL goroutine-leak FromStream on %s (source error %v): %d goroutines before, %d after", name, failWrite, base, n)
			}
			cases++
		}
	}
	t.Logf("B2-CASES %d", cases)
}
