package charcode

// B2 bounded check for C12 (labelled bounded, never counted as proved): codecs are
// built from every set of up to 2 (3 in the thorough tier) code space ranges whose
// bounds are drawn from a boundary alphabet, and compared with an executable
// rendering of the specification (ISO 32000-2, 9.7.6.3) on every test sequence.

import (
	"bytes"
	"fmt"
	"os"
	"testing"
)

func specDecode(csr CodeSpaceRange, s []byte) (consumed int, valid bool) {
	if len(s) == 0 {
		return 0, false
	}
	for _, r := range csr {
		if len(s) < len(r.Low) {
			continue
		}
		ok := true
		for i := range r.Low {
			if s[i] < r.Low[i] || s[i] > r.High[i] {
				ok = false
				break
			}
		}
		if ok {
			return len(r.Low), true
		}
	}
	// invalid: the range sharing the longest prefix decides, the shortest such range
	best, bestLen := -1, 0
	for _, r := range csr {
		k := 0
		for k < len(r.Low) && k < len(s) && s[k] >= r.Low[k] && s[k] <= r.High[k] {
			k++
		}
		if k > best || (k == best && len(r.Low) < bestLen) {
			best, bestLen = k, len(r.Low)
		}
	}
	if bestLen > len(s) {
		bestLen = len(s)
	}
	if bestLen < 1 {
		bestLen = 1
	}
	return bestLen, false
}

func prefixFree(csr CodeSpaceRange) bool {
	// no code of one range is a prefix of a code of another: for ranges of different
	// length, the shorter box must not intersect the prefix box of the longer one;
	// equal-length boxes must be disjoint
	for i, a := range csr {
		for j, b := range csr {
			if i >= j {
				continue
			}
			n := len(a.Low)
			if len(b.Low) < n {
				n = len(b.Low)
			}
			overlap := true
			for k := 0; k < n; k++ {
				if a.High[k] < b.Low[k] || b.High[k] < a.Low[k] {
					overlap = false
					break
				}
			}
			if overlap {
				return false
			}
		}
	}
	return true
}

func TestB2C12Codec(t *testing.T) {
	thorough := os.Getenv("VERIF_TIER") == "thorough"
	alphabet := []byte{0x00, 0x01, 0x7f, 0x80, 0xfe, 0xff}
	var ranges []Range
	var gen func(prefixLo, prefixHi []byte, n int)
	gen = func(lo, hi []byte, n int) {
		if n == 0 {
			ranges = append(ranges, Range{Low: append([]byte{}, lo...), High: append([]byte{}, hi...)})
			return
		}
		for _, a := range alphabet {
			for _, b := range alphabet {
				if a <= b {
					gen(append(lo, a), append(hi, b), n-1)
				}
			}
		}
	}
	maxLen := 2
	if thorough {
		maxLen = 3
	}
	for n := 1; n <= maxLen; n++ {
		gen(nil, nil, n)
	}
	// a few longer ranges
	ranges = append(ranges,
		Range{Low: []byte{0x81, 0x40, 0x00}, High: []byte{0x9f, 0xfc, 0xff}},
		Range{Low: []byte{0xf0, 0x80, 0x80, 0x80}, High: []byte{0xf4, 0xbf, 0xbf, 0xbf}},
		Range{Low: []byte{0x00, 0x00, 0x00, 0x00}, High: []byte{0x00, 0xff, 0xff, 0xff}},
		Range{Low: []byte{0x01, 0x10}, High: []byte{0x01, 0x7f}},
		Range{Low: []byte{0x00, 0x00}, High: []byte{0x00, 0x7f}})
	var sets []CodeSpaceRange
	for i, a := range ranges {
		sets = append(sets, CodeSpaceRange{a})
		step := 7
		if thorough {
			// with 3-byte ranges there are about 9700 ranges: every 1009th pair (a prime, so
			// that the partners vary) keeps the run below a minute
			step = 1009
		}
		for j := i + 1; j < len(ranges); j += step {
			csr := CodeSpaceRange{a, ranges[j]}
			if prefixFree(csr) {
				sets = append(sets, csr)
			}
		}
	}
	// many lead bytes with distinct trail ranges: a lookup tree of more than 64 nodes
	var many CodeSpaceRange
	for i := 0; i < 30; i++ {
		many = append(many, Range{Low: []byte{byte(0x81 + i), byte(0x40 + i)}, High: []byte{byte(0x81 + i), byte(0x50 + 2*i)}})
	}
	sets = append(sets, many, append(CodeSpaceRange{{[]byte{0x00}, []byte{0x7f}}}, many...))
	// only 4-byte codes
	sets = append(sets, CodeSpaceRange{{[]byte{0x00, 0x00, 0x00, 0x00}, []byte{0x10, 0xff, 0xff, 0xff}}}, CodeSpaceRange{{[]byte{0x20, 0x20, 0x20, 0x20}, []byte{0x7e, 0x7e, 0x7e, 0x7e}}})
	sets = append(sets, UTF8, UCS2, Simple,
		CodeSpaceRange{{[]byte{0x00, 0x00}, []byte{0x00, 0x7f}}, {[]byte{0x01, 0x10}, []byte{0x01, 0x7f}}},
		CodeSpaceRange{{[]byte{0x00}, []byte{0x80}}, {[]byte{0x81, 0x40}, []byte{0x9f, 0xfc}}, {[]byte{0xa0}, []byte{0xdf}}, {[]byte{0xe0, 0x40}, []byte{0xfc, 0xfc}}})
	cases := 0
	probes := []byte{0x00, 0x01, 0x02, 0x05, 0x0f, 0x10, 0x7e, 0x7f, 0x80, 0x81, 0xfd, 0xfe, 0xff, 0x8b, 0x4a, 0x9e, 0x21}
	for _, csr := range sets {
		codec, err := NewCodec(csr)
		if err != nil {
			t.Errorf("B2-FAIL newcodec %v: %v", csr, err)
			continue
		}
		// the representation invariant the deductive contract of Decode assumes (codecOK)
		if len(codec.nodes) < 1 || len(codec.nodes) > 65000 {
			t.Errorf("B2-FAIL invariant %v: %d nodes", fmtCSR(csr), len(codec.nodes))
		}
		for i, nd := range codec.nodes {
			if !(nd.bound == 255 || i+1 < len(codec.nodes)) || !(int(nd.child) < len(codec.nodes) || nd.child >= 65532) {
				t.Errorf("B2-FAIL invariant %v: node %d = %+v of %d", fmtCSR(csr), i, nd, len(codec.nodes))
			}
		}
		if got := codec.CodeSpaceRange(); !got.Equivalent(csr) {
			t.Errorf("B2-FAIL reported-ranges built from %v reports %v", csr, got)
		}
		var seqs [][]byte
		var build func(cur []byte, n int)
		build = func(cur []byte, n int) {
			seqs = append(seqs, append([]byte{}, cur...))
			if n == 0 {
				return
			}
			for _, b := range probes {
				build(append(cur, b), n-1)
			}
		}
		depth := 2
		for _, r := range csr {
			if len(r.Low) > depth {
				depth = len(r.Low)
			}
		}
		if depth > 3 && !thorough {
			depth = 3
		}
		build(nil, depth)
		// full-length probes for the longest codes (the enumeration above stops at 3 bytes in
		// the quick tier)
		seqs = append(seqs, []byte{0x01, 0x02, 0x03, 0x04}, []byte{0x80, 0x11, 0x22, 0x33}, []byte{0x80, 0x20, 0x20, 0x20, 0x20}, []byte{0xff, 0xfe, 0xfd, 0xfc, 0xfb},
			[]byte{0x00, 0x7f, 0x80, 0x01}, []byte{0x8b, 0x4a, 0x00}, []byte{0x9e, 0x21, 0x7f, 0x00})
		for _, s := range seqs {
			cases++
			wantN, wantValid := specDecode(csr, s)
			var code Code
			var n int
			var valid bool
			func() {
				defer func() {
					if r := recover(); r != nil {
						t.Errorf("B2-FAIL panic %v input=%x: %v", csr, s, r)
					}
				}()
				code, n, valid = codec.Decode(s)
			}()
			if len(s) == 0 {
				if n != 0 || valid {
					t.Errorf("B2-FAIL empty-input %v: consumed=%d valid=%v", csr, n, valid)
				}
				continue
			}
			if valid != wantValid || n != wantN {
				key := "decode"
				if valid && !wantValid {
					key = "accepts-invalid"
				}
				t.Errorf("B2-FAIL %s ranges=%v input=%x: consumed=%d valid=%v, specification: consumed=%d valid=%v", key, fmtCSR(csr), s, n, valid, wantN, wantValid)
				continue
			}
			if n < 1 || n > len(s) {
				t.Errorf("B2-FAIL consumed-range ranges=%v input=%x: consumed=%d", fmtCSR(csr), s, n)
				continue
			}
			back := codec.AppendCode(nil, code)
			longest := 0
			for _, r := range csr {
				longest = max(longest, len(r.Low))
			}
			if (valid || len(s) >= longest) && !bytes.Equal(back, s[:n]) {
				// decoding then re-encoding reproduces the consumed bytes, for valid codes and for
				// invalid ones that were not cut short by the end of the input
				t.Errorf("B2-FAIL reencode ranges=%v input=%x code=%x valid=%v: %x", fmtCSR(csr), s, code, valid, back)
			}
			if valid {
				c2, n2, v2 := codec.Decode(back)
				if c2 != code || n2 != n || !v2 {
					t.Errorf("B2-FAIL redecode ranges=%v code=%x", fmtCSR(csr), code)
				}
			}
		}
	}
	t.Logf("B2-CASES %d", cases)
}

func fmtCSR(csr CodeSpaceRange) string {
	s := ""
	for _, r := range csr {
		s += fmt.Sprintf("<%x>-<%x> ", r.Low, r.High)
	}
	return s
}
