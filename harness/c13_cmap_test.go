package cmap

// B2 bounded check for C13 (labelled bounded, never counted as proved): CMaps and
// ToUnicode CMaps are built from enumerated and pseudo-random maps over 1- and
// 2-byte and mixed code spaces, queried for every code, embedded into a PDF file,
// extracted again and compared (code space, every lookup, enumeration), with and
// without a parent (usecmap) chain.

import (
	"fmt"
	"math/rand"
	"os"
	"sort"
	"testing"

	"seehuhn.de/go/pdf"
	"seehuhn.de/go/pdf/font/charcode"
	"seehuhn.de/go/pdf/internal/debug/memfile"
	"seehuhn.de/go/postscript/cid"
)

func c13Codes(csr charcode.CodeSpaceRange, codec *charcode.Codec) [][]byte {
	var out [][]byte
	for _, r := range csr {
		n := len(r.Low)
		var gen func(prefix []byte, k int)
		gen = func(prefix []byte, k int) {
			if k == n {
				out = append(out, append([]byte{}, prefix...))
				return
			}
			lo, hi := int(r.Low[k]), int(r.High[k])
			step := 1
			if k < n-1 && hi-lo > 6 {
				step = (hi - lo) / 5
			}
			for b := lo; b <= hi; b += step {
				gen(append(prefix, byte(b)), k+1)
			}
			if (hi-lo)%step != 0 {
				gen(append(prefix, byte(hi)), k+1)
			}
		}
		gen(nil, 0)
	}
	return out
}

func TestB2C13CMaps(t *testing.T) {
	thorough := os.Getenv("VERIF_TIER") == "thorough"
	seed := int64(1)
	fmt.Sscanf(os.Getenv("VERIF_SEED"), "%d", &seed)
	rng := rand.New(rand.NewSource(seed))
	spaces := []charcode.CodeSpaceRange{
		charcode.Simple, charcode.UCS2,
		{{Low: []byte{0x00}, High: []byte{0x7f}}, {Low: []byte{0x80, 0x40}, High: []byte{0x9f, 0xfc}}},
		{{Low: []byte{0x20, 0x00}, High: []byte{0x21, 0xff}}},
		// ranges whose sub-trees differ only in where the invalid gaps lie
		{{Low: []byte{0x01, 0x0a}, High: []byte{0x01, 0x14}}, {Low: []byte{0x02, 0x00}, High: []byte{0x02, 0x14}}},
		{{Low: []byte{0x00}, High: []byte{0x7f}}, {Low: []byte{0x81, 0x40}, High: []byte{0x9f, 0xfc}}, {Low: []byte{0xe0, 0x80}, High: []byte{0xef, 0xfc}}},
	}
	rounds := 12
	if thorough {
		rounds = 80
	}
	cases := 0
	ros := &cid.SystemInfo{Registry: "Test", Ordering: "Harness", Supplement: 0}
	for si, csr := range spaces {
		codec, err := charcode.NewCodec(csr)
		if err != nil {
			t.Fatal(err)
		}
		codes := c13Codes(csr, codec)
		for round := 0; round < rounds; round++ {
			cases++
			desc := fmt.Sprintf("space=%d round=%d", si, round)
			// the map: runs of consecutive codes with consecutive values (range compression),
			// broken runs, isolated codes, repeated values
			data := map[charcode.Code]cid.CID{}
			text := map[charcode.Code]string{}
			nRuns := 1 + rng.Intn(6)
			for i := 0; i < nRuns; i++ {
				start := rng.Intn(len(codes))
				length := 1 + rng.Intn(40)
				val := cid.CID(rng.Intn(60000))
				for j := 0; j < length && start+j < len(codes); j++ {
					c, _, valid := codec.Decode(codes[start+j])
					if !valid {
						continue
					}
					if rng.Intn(12) == 0 {
						val += cid.CID(rng.Intn(3))
					}
					data[c] = val
					switch rng.Intn(5) {
					case 0:
						text[c] = string(rune(0x41 + int(val)%1000))
					case 1:
						text[c] = "ffi"[:1+int(val)%3]
					case 2:
						text[c] = string([]rune{rune(0x10000 + int(val)%500)})
					default:
						text[c] = string(rune(0x3000 + int(val)%5000))
					}
					val++
				}
			}
			var parent *File
			if round%3 == 2 {
				parent = &File{Name: "HarnessParent", ROS: ros}
				pdata := map[charcode.Code]cid.CID{}
				for c, v := range data {
					switch rng.Intn(3) {
					case 0:
						pdata[c] = v
					case 1:
						pdata[c] = v + 7
					}
				}
				parent.SetMapping(codec, pdata)
			}
			f := &File{Name: "Harness", ROS: ros, Parent: parent}
			f.SetMapping(codec, data)
			if !f.CodeSpaceRange.Equivalent(csr) {
				t.Errorf("B2-FAIL codespace %s", desc)
			}
			check := func(g *File, what string) {
				for _, code := range codes {
					c, _, valid := codec.Decode(code)
					if !valid {
						continue
					}
					want, ok := data[c]
					got := g.LookupCID(code)
					if ok && got != want {
						t.Errorf("B2-FAIL %s-lookup %s code=%x: got %d want %d", what, desc, code, got, want)
						return
					}
					if !ok && parent == nil && got != 0 {
						t.Errorf("B2-FAIL %s-lookup-unmapped %s code=%x: got %d", what, desc, code, got)
						return
					}
				}
				seen := map[charcode.Code]cid.CID{}
				for c, v := range g.All(codec) {
					seen[c] = v
				}
				for c, v := range data {
					if seen[c] != v {
						t.Errorf("B2-FAIL %s-enumeration %s code=%x: enumerated %d, lookup value %d", what, desc, c, seen[c], v)
						return
					}
				}
			}
			check(f, "built")
			// embed and extract
			w, _ := memfile.NewPDFWriter(pdf.V2_0, nil)
			rm := pdf.NewResourceManager(w)
			ref, err := rm.Embed(f)
			if err != nil {
				t.Errorf("B2-FAIL embed %s: %v", desc, err)
				continue
			}
			if err := rm.Close(); err != nil {
				t.Errorf("B2-FAIL embed-close %s: %v", desc, err)
				continue
			}
			g, err := Extract(pdf.NewCursor(w), ref, false)
			if err != nil {
				t.Errorf("B2-FAIL extract %s: %v", desc, err)
				continue
			}
			if !g.CodeSpaceRange.Equivalent(csr) {
				t.Errorf("B2-FAIL extracted-codespace %s: %v", desc, g.CodeSpaceRange)
			}
			if (g.Parent != nil) != (parent != nil) {
				t.Errorf("B2-FAIL extracted-parent %s", desc)
			}
			check(g, "extracted")

			// ToUnicode
			tu, err := NewToUnicodeFile(csr, text)
			if err != nil {
				t.Errorf("B2-FAIL tounicode-new %s: %v", desc, err)
				continue
			}
			checkTU := func(h *ToUnicodeFile, what string) {
				for _, code := range codes {
					c, _, valid := codec.Decode(code)
					if !valid {
						continue
					}
					want, ok := text[c]
					got, found := h.Lookup(code)
					if ok != found || (ok && got != want) {
						t.Errorf("B2-FAIL %s-tounicode-lookup %s code=%x: got %q %v want %q %v", what, desc, code, got, found, want, ok)
						return
					}
				}
				var keys []int
				seen := map[charcode.Code]string{}
				for c, s := range h.All(codec) {
					seen[c] = s
					keys = append(keys, int(c))
				}
				if len(seen) != len(text) {
					t.Errorf("B2-FAIL %s-tounicode-enumeration %s: %d entries, want %d", what, desc, len(seen), len(text))
					return
				}
				for c, s := range text {
					if seen[c] != s {
						t.Errorf("B2-FAIL %s-tounicode-enumeration %s code=%x: %q want %q", what, desc, c, seen[c], s)
						return
					}
				}
				_ = sort.Ints
			}
			checkTU(tu, "built")
			w2, _ := memfile.NewPDFWriter(pdf.V2_0, nil)
			rm2 := pdf.NewResourceManager(w2)
			tref, err := rm2.Embed(tu)
			if err != nil {
				if len(text) == 0 {
					continue
				}
				t.Errorf("B2-FAIL tounicode-embed %s: %v", desc, err)
				continue
			}
			rm2.Close()
			tu2, err := pdf.Decode(pdf.NewCursor(w2), tref, ExtractToUnicode)
			if err != nil || tu2 == nil {
				t.Errorf("B2-FAIL tounicode-extract %s: %v", desc, err)
				continue
			}
			if !tu2.CodeSpaceRange.Equivalent(csr) {
				t.Errorf("B2-FAIL tounicode-extracted-codespace %s", desc)
			}
			checkTU(tu2, "extracted")
		}
	}
	t.Logf("B2-CASES %d", cases)
}

// TestB2C13Chains: parent (usecmap) chains of depth 1..5, with named and unnamed ancestors,
// for CID CMaps and ToUnicode CMaps; every level defines some codes of its own and overrides
// some of its parent's.  Lookups and enumeration must see the whole chain, before and after
// Embed/Extract.  Also notdef ranges wider than 2^31 codes.
func TestB2C13Chains(t *testing.T) {
	cases := 0
	ros := &cid.SystemInfo{Registry: "Test", Ordering: "Harness", Supplement: 0}
	csr := charcode.UCS2
	codec, _ := charcode.NewCodec(csr)
	codeOf := func(hi, lo byte) ([]byte, charcode.Code) {
		b := []byte{hi, lo}
		c, _, _ := codec.Decode(b)
		return b, c
	}
	for depth := 1; depth <= 5; depth++ {
		for _, named := range []bool{true, false} {
			cases++
			desc := fmt.Sprintf("depth=%d named=%v", depth, named)
			// level l (0 = oldest ancestor) defines codes <l0 00..0b> and overrides <00 00..03>
			want := map[charcode.Code]cid.CID{}
			wantText := map[charcode.Code]string{}
			var chain *File
			var tchain *ToUnicodeFile
			for l := 0; l < depth; l++ {
				data := map[charcode.Code]cid.CID{}
				text := map[charcode.Code]string{}
				for k := 0; k < 12; k++ {
					_, c := codeOf(byte(0x10*(l+1)), byte(k))
					data[c] = cid.CID(1000*l + k + 1)
					text[c] = string(rune(0x4e00 + 100*l + k))
				}
				for k := 0; k < 4; k++ {
					_, c := codeOf(0, byte(k))
					data[c] = cid.CID(7000 + 10*l + k)
					text[c] = string([]rune{rune(0x1f600 + 16*l + k), 'x'})
				}
				for c, v := range data {
					want[c] = v
				}
				for c, v := range text {
					wantText[c] = v
				}
				f := &File{ROS: ros, Parent: chain}
				if named || l == depth-1 {
					f.Name = fmt.Sprintf("HarnessLevel%d", l)
				}
				f.SetMapping(codec, data)
				chain = f
				tu, err := NewToUnicodeFile(csr, text)
				if err != nil {
					t.Fatalf("harness: %v", err)
				}
				tu.Parent = tchain
				tchain = tu
			}
			check := func(g *File, what string) {
				n := 0
				for p := g; p != nil; p = p.Parent {
					n++
				}
				if n != depth {
					t.Errorf("B2-FAIL %s-chain-depth %s: %d levels", what, desc, n)
				}
				for c, v := range want {
					code := codec.AppendCode(nil, c)
					if got := g.LookupCID(code); got != v {
						t.Errorf("B2-FAIL %s-chain-lookup %s code=%x: got %d want %d", what, desc, code, got, v)
						return
					}
				}
				seen := map[charcode.Code]cid.CID{}
				for c, v := range g.All(codec) {
					seen[c] = v
				}
				if len(seen) != len(want) {
					t.Errorf("B2-FAIL %s-chain-enumeration %s: %d entries, want %d", what, desc, len(seen), len(want))
					return
				}
				for c, v := range want {
					if seen[c] != v {
						t.Errorf("B2-FAIL %s-chain-enumeration %s code=%x: %d want %d", what, desc, c, seen[c], v)
						return
					}
				}
			}
			check(chain, "built")
			for _, ver := range []pdf.Version{pdf.V1_7, pdf.V2_0} {
				w, _ := memfile.NewPDFWriter(ver, nil)
				rm := pdf.NewResourceManager(w)
				ref, err := rm.Embed(chain)
				if err != nil {
					t.Errorf("B2-FAIL chain-embed %s: %v", desc, err)
					continue
				}
				rm.Close()
				g, err := Extract(pdf.NewCursor(w), ref, false)
				if err != nil {
					t.Errorf("B2-FAIL chain-extract %s: %v", desc, err)
					continue
				}
				check(g, "extracted")
			}
			checkTU := func(h *ToUnicodeFile, what string) {
				for c, v := range wantText {
					code := codec.AppendCode(nil, c)
					if got, ok := h.Lookup(code); !ok || got != v {
						t.Errorf("B2-FAIL %s-tounicode-chain-lookup %s code=%x: got %q %v want %q", what, desc, code, got, ok, v)
						return
					}
				}
				seen := map[charcode.Code]string{}
				for c, v := range h.All(codec) {
					seen[c] = v
				}
				if len(seen) != len(wantText) {
					t.Errorf("B2-FAIL %s-tounicode-chain-enumeration %s: %d entries, lookup answers %d codes", what, desc, len(seen), len(wantText))
					return
				}
				for c, v := range wantText {
					if seen[c] != v {
						t.Errorf("B2-FAIL %s-tounicode-chain-enumeration %s code=%x: %q want %q", what, desc, c, seen[c], v)
						return
					}
				}
			}
			if named {
				checkTU(tchain, "built")
				w, _ := memfile.NewPDFWriter(pdf.V2_0, nil)
				rm := pdf.NewResourceManager(w)
				ref, err := rm.Embed(tchain)
				if err != nil {
					t.Errorf("B2-FAIL tounicode-chain-embed %s: %v", desc, err)
					continue
				}
				rm.Close()
				h, err := pdf.Decode(pdf.NewCursor(w), ref, ExtractToUnicode)
				if err != nil || h == nil {
					t.Errorf("B2-FAIL tounicode-chain-extract %s: %v", desc, err)
					continue
				}
				checkTU(h, "extracted")
			}
		}
	}
	// notdef ranges: also ranges with more than 2^31 codes
	for _, nr := range []Range{
		{First: []byte{0, 0, 0, 0}, Last: []byte{0xff, 0xff, 0xff, 0xff}, Value: 1},
		{First: []byte{0x40, 0, 0, 0}, Last: []byte{0xc0, 0xff, 0xff, 0xff}, Value: 5},
		{First: []byte{0, 0, 0, 0}, Last: []byte{0, 0, 0xff, 0xff}, Value: 9},
	} {
		cases++
		csr4 := charcode.CodeSpaceRange{{Low: []byte{0, 0, 0, 0}, High: []byte{0xff, 0xff, 0xff, 0xff}}}
		f := &File{Name: "HarnessNotdef", ROS: ros, CodeSpaceRange: csr4, NotdefRanges: []Range{nr},
			CIDRanges: []Range{{First: []byte{0x50, 0, 0, 0x10}, Last: []byte{0x50, 0, 0, 0x20}, Value: 100}}}
		probe := func(g *File, what string) {
			for _, code := range [][]byte{{0, 0, 0, 0}, {0x40, 0, 0, 0}, {0x7f, 0xff, 0xff, 0xff}, {0x80, 0, 0, 0}, {0xc0, 0xff, 0xff, 0xff}, {0xc1, 0, 0, 0}, {0xff, 0xff, 0xff, 0xff}, {0, 0, 0xff, 0xff}, {0, 1, 0, 0}, {0x50, 0, 0, 0x18}} {
				want := cid.CID(0)
				in := true
				for i := range code {
					if code[i] < nr.First[i] || code[i] > nr.Last[i] {
						in = false
					}
				}
				if in {
					want = nr.Value
				}
				if code[0] == 0x50 && code[3] == 0x18 {
					want = 108
				}
				if got := g.LookupCID(code); got != want {
					t.Errorf("B2-FAIL %s-notdef-lookup range=%v code=%x: got %d want %d", what, nr, code, got, want)
				}
			}
		}
		probe(f, "built")
		w, _ := memfile.NewPDFWriter(pdf.V2_0, nil)
		rm := pdf.NewResourceManager(w)
		ref, err := rm.Embed(f)
		if err != nil {
			t.Errorf("B2-FAIL notdef-embed %v: %v", nr, err)
			continue
		}
		rm.Close()
		g, err := Extract(pdf.NewCursor(w), ref, false)
		if err != nil {
			t.Errorf("B2-FAIL notdef-extract %v: %v", nr, err)
			continue
		}
		probe(g, "extracted")
	}
	t.Logf("B2-CASES %d", cases)
}
