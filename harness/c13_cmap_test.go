package cmap

// B2 bounded check for C13 (labelled bounded, never counted as proved): CMaps and
// ToUnicode CMaps are built from enumerated and pseudo-random maps over 1- and
// 2-byte and mixed code spaces, queried for every code, embedded into a PDF file,
// extracted again and compared (code space, every lookup, enumeration), with and
// without a parent (usecmap) chain.  Maps contain explicit CID 0 and empty text
// (also as overrides of a parent's entry), notdef ranges and singles; output is
// written compressed and pretty, as PDF 1.7 and 2.0, in both writing modes.
// TestB2C13Rect builds the structural form directly: cidrange/bfrange entries that
// are rectangles over 2..4 bytes (the shape an extracted CMap may have), where
// enumeration, lookup and CodeForText must agree with each other and survive the
// round trip.

import (
	"fmt"
	"math/rand"
	"os"
	"sort"
	"testing"

	"seehuhn.de/go/pdf"
	"seehuhn.de/go/pdf/font"
	"seehuhn.de/go/pdf/font/charcode"
	"seehuhn.de/go/pdf/internal/debug/memfile"
	"seehuhn.de/go/postscript/cid"
)

func c13Codes(csr charcode.CodeSpaceRange, codec *charcode.Codec) [][]byte {
	var out [][]byte
	for _, r := range csr {
		n := len(r.Low)
		var gen func(prefix []byte, k int)
		gen = func(prefix []byte, k int) {
			if k == n {
				out = append(out, append([]byte{}, prefix...))
				return
			}
			lo, hi := int(r.Low[k]), int(r.High[k])
			step := 1
			if k < n-1 && hi-lo > 6 {
				step = (hi - lo) / 5
			}
			for b := lo; b <= hi; b += step {
				gen(append(prefix, byte(b)), k+1)
			}
			if (hi-lo)%step != 0 {
				gen(append(prefix, byte(hi)), k+1)
			}
		}
		gen(nil, 0)
	}
	return out
}

func TestB2C13CMaps(t *testing.T) {
	thorough := os.Getenv("VERIF_TIER") == "thorough"
	seed := int64(1)
	fmt.Sscanf(os.Getenv("VERIF_SEED"), "%d", &seed)
	rng := rand.New(rand.NewSource(seed))
	spaces := []charcode.CodeSpaceRange{
		charcode.Simple, charcode.UCS2,
		{{Low: []byte{0x00}, High: []byte{0x7f}}, {Low: []byte{0x80, 0x40}, High: []byte{0x9f, 0xfc}}},
		{{Low: []byte{0x20, 0x00}, High: []byte{0x21, 0xff}}},
		// ranges whose sub-trees differ only in where the invalid gaps lie
		{{Low: []byte{0x01, 0x0a}, High: []byte{0x01, 0x14}}, {Low: []byte{0x02, 0x00}, High: []byte{0x02, 0x14}}},
		{{Low: []byte{0x00}, High: []byte{0x7f}}, {Low: []byte{0x81, 0x40}, High: []byte{0x9f, 0xfc}}, {Low: []byte{0xe0, 0x80}, High: []byte{0xef, 0xfc}}},
	}
	rounds := 12
	if thorough {
		rounds = 80
	}
	cases := 0
	ros := &cid.SystemInfo{Registry: "Test", Ordering: "Harness", Supplement: 0}
	for si, csr := range spaces {
		codec, err := charcode.NewCodec(csr)
		if err != nil {
			t.Fatal(err)
		}
		codes := c13Codes(csr, codec)
		for round := 0; round < rounds; round++ {
			cases++
			desc := fmt.Sprintf("space=%d round=%d", si, round)
			// the map: runs of consecutive codes with consecutive values (range compression),
			// broken runs, isolated codes, repeated values
			data := map[charcode.Code]cid.CID{}
			text := map[charcode.Code]string{}
			nRuns := 1 + rng.Intn(6)
			for i := 0; i < nRuns; i++ {
				start := rng.Intn(len(codes))
				length := 1 + rng.Intn(40)
				val := cid.CID(rng.Intn(60000))
				// a run either keeps one kind of text (consecutive values: the
				// one-element "increment the last rune" form) or mixes kinds
				fixedKind := -1
				if rng.Intn(3) == 0 {
					fixedKind = rng.Intn(c13TextKinds)
				}
				zeroRun := rng.Intn(12) == 0
				for j := 0; j < length && start+j < len(codes); j++ {
					c, _, valid := codec.Decode(codes[start+j])
					if !valid {
						continue
					}
					if rng.Intn(12) == 0 {
						val += cid.CID(rng.Intn(3))
					}
					data[c] = val
					if zeroRun || rng.Intn(10) == 0 {
						data[c] = 0 // explicitly mapped to CID 0
					}
					kind := fixedKind
					if kind < 0 {
						kind = rng.Intn(c13TextKinds)
					}
					text[c] = c13Text(kind, int(val))
					val++
				}
			}
			var parent *File
			pdata := map[charcode.Code]cid.CID{}
			if round%3 == 2 {
				parent = &File{Name: "HarnessParent", ROS: ros}
				for c, v := range data {
					switch rng.Intn(3) {
					case 0:
						pdata[c] = v
					case 1:
						pdata[c] = v + 7
					}
				}
				// codes only the parent maps
				for i := rng.Intn(8); i > 0; i-- {
					c, _, valid := codec.Decode(codes[rng.Intn(len(codes))])
					if _, mapped := data[c]; valid && !mapped {
						pdata[c] = cid.CID(1 + rng.Intn(60000))
					}
				}
				parent.SetMapping(codec, pdata)
			}
			// notdef entries: a rectangle inside the first code space range and one single
			var notdefRanges []Range
			var notdefSingles []Single
			withNotdef := round%4 == 1
			if withNotdef && parent != nil && !c13CheckChildNotdefWithParent {
				withNotdef = false
			}
			if withNotdef {
				nr := c13RandRect(rng, csr[:1], 1<<30, false)
				notdefRanges = []Range{{First: nr.first, Last: nr.last, Value: cid.CID(1 + rng.Intn(50))}}
				notdefSingles = []Single{{Code: codes[rng.Intn(len(codes))], Value: cid.CID(100 + rng.Intn(50))}}
			}
			wantUnmapped := func(code []byte, c charcode.Code) cid.CID {
				if v, ok := pdata[c]; ok && v != 0 {
					return v
				}
				for _, s := range notdefSingles {
					if string(s.Code) == string(code) {
						return s.Value
					}
				}
				for _, r := range notdefRanges {
					if (c13Rect{r.First, r.Last}).contains(code) {
						return r.Value
					}
				}
				return 0
			}
			ver, wopt, wmode := c13Variant(round)
			f := &File{Name: "Harness", ROS: ros, Parent: parent, WMode: wmode,
				NotdefRanges: notdefRanges, NotdefSingles: notdefSingles}
			f.SetMapping(codec, data)
			if !f.CodeSpaceRange.Equivalent(csr) {
				t.Errorf("B2-FAIL codespace %s", desc)
			}
			check := func(g *File, what string) {
				for _, code := range codes {
					c, _, valid := codec.Decode(code)
					if !valid {
						continue
					}
					want, ok := data[c]
					got := g.LookupCID(code)
					if ok && got != want {
						t.Errorf("B2-FAIL %s-lookup %s code=%x: got %d want %d", what, desc, code, got, want)
						return
					}
					if !ok && got != wantUnmapped(code, c) {
						t.Errorf("B2-FAIL %s-lookup-unmapped %s code=%x: got %d want %d", what, desc, code, got, wantUnmapped(code, c))
						return
					}
				}
				seen := map[charcode.Code]cid.CID{}
				for c, v := range g.All(codec) {
					seen[c] = v
				}
				// enumeration and lookup agree, in both directions
				for c, v := range seen {
					code := codec.AppendCode(nil, c)
					if got := g.LookupCID(code); got != v {
						t.Errorf("B2-FAIL %s-enumeration-vs-lookup %s code=%x: enumerated %d, lookup %d", what, desc, code, v, got)
						return
					}
				}
				for c, v := range data {
					if seen[c] != v {
						t.Errorf("B2-FAIL %s-enumeration %s code=%x: enumerated %d, lookup value %d", what, desc, c, seen[c], v)
						return
					}
				}
			}
			check(f, "built")
			// embed and extract
			w, _ := memfile.NewPDFWriter(ver, wopt)
			rm := pdf.NewResourceManager(w)
			ref, err := rm.Embed(f)
			if err != nil {
				t.Errorf("B2-FAIL embed %s: %v", desc, err)
				continue
			}
			if err := rm.Close(); err != nil {
				t.Errorf("B2-FAIL embed-close %s: %v", desc, err)
				continue
			}
			g, err := Extract(pdf.NewCursor(w), ref, false)
			if err != nil {
				t.Errorf("B2-FAIL extract %s: %v", desc, err)
				continue
			}
			if !g.CodeSpaceRange.Equivalent(csr) {
				t.Errorf("B2-FAIL extracted-codespace %s: %v", desc, g.CodeSpaceRange)
			}
			if (g.Parent != nil) != (parent != nil) {
				t.Errorf("B2-FAIL extracted-parent %s", desc)
			}
			if g.WMode != wmode {
				t.Errorf("B2-FAIL extracted-wmode %s: %v want %v", desc, g.WMode, wmode)
			}
			check(g, "extracted")

			// ToUnicode
			tu, err := NewToUnicodeFile(csr, text)
			if err != nil {
				t.Errorf("B2-FAIL tounicode-new %s: %v", desc, err)
				continue
			}
			checkTU := func(h *ToUnicodeFile, what string) {
				for _, code := range codes {
					c, _, valid := codec.Decode(code)
					if !valid {
						continue
					}
					want, ok := text[c]
					got, found := h.Lookup(code)
					if ok != found || (ok && got != want) {
						t.Errorf("B2-FAIL %s-tounicode-lookup %s code=%x: got %q %v want %q %v", what, desc, code, got, found, want, ok)
						return
					}
				}
				seen := map[charcode.Code]string{}
				for c, s := range h.All(codec) {
					seen[c] = s
				}
				if len(seen) != len(text) {
					t.Errorf("B2-FAIL %s-tounicode-enumeration %s: %d entries, want %d", what, desc, len(seen), len(text))
					return
				}
				for c, s := range text {
					if seen[c] != s {
						t.Errorf("B2-FAIL %s-tounicode-enumeration %s code=%x: %q want %q", what, desc, c, seen[c], s)
						return
					}
				}
			}
			checkTU(tu, "built")
			w2, _ := memfile.NewPDFWriter(ver, wopt)
			rm2 := pdf.NewResourceManager(w2)
			tref, err := rm2.Embed(tu)
			if err != nil {
				if len(text) == 0 {
					continue
				}
				t.Errorf("B2-FAIL tounicode-embed %s: %v", desc, err)
				continue
			}
			rm2.Close()
			tu2, err := pdf.Decode(pdf.NewCursor(w2), tref, ExtractToUnicode)
			if err != nil || tu2 == nil {
				t.Errorf("B2-FAIL tounicode-extract %s: %v", desc, err)
				continue
			}
			if !tu2.CodeSpaceRange.Equivalent(csr) {
				t.Errorf("B2-FAIL tounicode-extracted-codespace %s", desc)
			}
			checkTU(tu2, "extracted")
		}
	}
	t.Logf("B2-CASES %d", cases)
}

// TestB2C13Chains: parent (usecmap) chains of depth 1..5, with named and unnamed ancestors,
// for CID CMaps and ToUnicode CMaps; every level defines some codes of its own and overrides
// some of its parent's.  Lookups and enumeration must see the whole chain, before and after
// Embed/Extract.  Also notdef ranges wider than 2^31 codes.
func TestB2C13Chains(t *testing.T) {
	cases := 0
	ros := &cid.SystemInfo{Registry: "Test", Ordering: "Harness", Supplement: 0}
	csr := charcode.UCS2
	codec, _ := charcode.NewCodec(csr)
	codeOf := func(hi, lo byte) ([]byte, charcode.Code) {
		b := []byte{hi, lo}
		c, _, _ := codec.Decode(b)
		return b, c
	}
	for depth := 1; depth <= 5; depth++ {
		for _, named := range []bool{true, false} {
			cases++
			desc := fmt.Sprintf("depth=%d named=%v", depth, named)
			// level l (0 = oldest ancestor) defines codes <l0 00..0b> and overrides <00 00..03>
			want := map[charcode.Code]cid.CID{}
			wantText := map[charcode.Code]string{}
			var chain *File
			var tchain *ToUnicodeFile
			for l := 0; l < depth; l++ {
				data := map[charcode.Code]cid.CID{}
				text := map[charcode.Code]string{}
				for k := 0; k < 12; k++ {
					_, c := codeOf(byte(0x10*(l+1)), byte(k))
					data[c] = cid.CID(1000*l + k + 1)
					text[c] = string(rune(0x4e00 + 100*l + k))
				}
				for k := 0; k < 4; k++ {
					_, c := codeOf(0, byte(k))
					data[c] = cid.CID(7000 + 10*l + k)
					text[c] = string([]rune{rune(0x1f600 + 16*l + k), 'x'})
				}
				if l > 0 {
					// takes one of its parent's codes away (CID 0, empty text) and
					// repeats another one unchanged
					_, c := codeOf(byte(0x10*l), 5)
					data[c] = 0
					text[c] = ""
					_, c = codeOf(byte(0x10*l), 6)
					data[c] = want[c]
					text[c] = wantText[c]
				}
				for c, v := range data {
					want[c] = v
				}
				for c, v := range text {
					wantText[c] = v
				}
				f := &File{ROS: ros, Parent: chain}
				if named || l == depth-1 {
					f.Name = fmt.Sprintf("HarnessLevel%d", l)
				}
				f.SetMapping(codec, data)
				chain = f
				tu, err := NewToUnicodeFile(csr, text)
				if err != nil {
					t.Fatalf("harness: %v", err)
				}
				tu.Parent = tchain
				tchain = tu
			}
			check := func(g *File, what string) {
				n := 0
				for p := g; p != nil; p = p.Parent {
					n++
				}
				if n != depth {
					t.Errorf("B2-FAIL %s-chain-depth %s: %d levels", what, desc, n)
				}
				for c, v := range want {
					code := codec.AppendCode(nil, c)
					if got := g.LookupCID(code); got != v {
						t.Errorf("B2-FAIL %s-chain-lookup %s code=%x: got %d want %d", what, desc, code, got, v)
						return
					}
				}
				seen := map[charcode.Code]cid.CID{}
				for c, v := range g.All(codec) {
					seen[c] = v
				}
				if len(seen) != len(want) {
					t.Errorf("B2-FAIL %s-chain-enumeration %s: %d entries, want %d", what, desc, len(seen), len(want))
					return
				}
				for c, v := range want {
					if seen[c] != v {
						t.Errorf("B2-FAIL %s-chain-enumeration %s code=%x: %d want %d", what, desc, c, seen[c], v)
						return
					}
				}
			}
			check(chain, "built")
			for _, ver := range []pdf.Version{pdf.V1_7, pdf.V2_0} {
				w, _ := memfile.NewPDFWriter(ver, nil)
				rm := pdf.NewResourceManager(w)
				ref, err := rm.Embed(chain)
				if err != nil {
					t.Errorf("B2-FAIL chain-embed %s: %v", desc, err)
					continue
				}
				rm.Close()
				g, err := Extract(pdf.NewCursor(w), ref, false)
				if err != nil {
					t.Errorf("B2-FAIL chain-extract %s: %v", desc, err)
					continue
				}
				check(g, "extracted")
			}
			checkTU := func(h *ToUnicodeFile, what string) {
				for c, v := range wantText {
					code := codec.AppendCode(nil, c)
					if got, ok := h.Lookup(code); !ok || got != v {
						t.Errorf("B2-FAIL %s-tounicode-chain-lookup %s code=%x: got %q %v want %q", what, desc, code, got, ok, v)
						return
					}
				}
				seen := map[charcode.Code]string{}
				for c, v := range h.All(codec) {
					seen[c] = v
				}
				if len(seen) != len(wantText) {
					t.Errorf("B2-FAIL %s-tounicode-chain-enumeration %s: %d entries, lookup answers %d codes", what, desc, len(seen), len(wantText))
					return
				}
				for c, v := range wantText {
					if seen[c] != v {
						t.Errorf("B2-FAIL %s-tounicode-chain-enumeration %s code=%x: %q want %q", what, desc, c, seen[c], v)
						return
					}
				}
			}
			if named {
				checkTU(tchain, "built")
				w, _ := memfile.NewPDFWriter(pdf.V2_0, nil)
				rm := pdf.NewResourceManager(w)
				ref, err := rm.Embed(tchain)
				if err != nil {
					t.Errorf("B2-FAIL tounicode-chain-embed %s: %v", desc, err)
					continue
				}
				rm.Close()
				h, err := pdf.Decode(pdf.NewCursor(w), ref, ExtractToUnicode)
				if err != nil || h == nil {
					t.Errorf("B2-FAIL tounicode-chain-extract %s: %v", desc, err)
					continue
				}
				checkTU(h, "extracted")
			}
		}
	}
	// notdef ranges: also ranges with more than 2^31 codes
	for _, nr := range []Range{
		{First: []byte{0, 0, 0, 0}, Last: []byte{0xff, 0xff, 0xff, 0xff}, Value: 1},
		{First: []byte{0x40, 0, 0, 0}, Last: []byte{0xc0, 0xff, 0xff, 0xff}, Value: 5},
		{First: []byte{0, 0, 0, 0}, Last: []byte{0, 0, 0xff, 0xff}, Value: 9},
	} {
		cases++
		csr4 := charcode.CodeSpaceRange{{Low: []byte{0, 0, 0, 0}, High: []byte{0xff, 0xff, 0xff, 0xff}}}
		f := &File{Name: "HarnessNotdef", ROS: ros, CodeSpaceRange: csr4, NotdefRanges: []Range{nr},
			CIDRanges: []Range{{First: []byte{0x50, 0, 0, 0x10}, Last: []byte{0x50, 0, 0, 0x20}, Value: 100}}}
		probe := func(g *File, what string) {
			for _, code := range [][]byte{{0, 0, 0, 0}, {0x40, 0, 0, 0}, {0x7f, 0xff, 0xff, 0xff}, {0x80, 0, 0, 0}, {0xc0, 0xff, 0xff, 0xff}, {0xc1, 0, 0, 0}, {0xff, 0xff, 0xff, 0xff}, {0, 0, 0xff, 0xff}, {0, 1, 0, 0}, {0x50, 0, 0, 0x18}} {
				want := cid.CID(0)
				in := true
				for i := range code {
					if code[i] < nr.First[i] || code[i] > nr.Last[i] {
						in = false
					}
				}
				if in {
					want = nr.Value
				}
				if code[0] == 0x50 && code[3] == 0x18 {
					want = 108
				}
				if got := g.LookupCID(code); got != want {
					t.Errorf("B2-FAIL %s-notdef-lookup range=%v code=%x: got %d want %d", what, nr, code, got, want)
				}
			}
		}
		probe(f, "built")
		w, _ := memfile.NewPDFWriter(pdf.V2_0, nil)
		rm := pdf.NewResourceManager(w)
		ref, err := rm.Embed(f)
		if err != nil {
			t.Errorf("B2-FAIL notdef-embed %v: %v", nr, err)
			continue
		}
		rm.Close()
		g, err := Extract(pdf.NewCursor(w), ref, false)
		if err != nil {
			t.Errorf("B2-FAIL notdef-extract %v: %v", nr, err)
			continue
		}
		probe(g, "extracted")
	}
	t.Logf("B2-CASES %d", cases)
}

// c13CheckChildNotdefWithParent: notdef entries of a CMap that also has a parent.
// (repaired, see known-findings.txt): File.LookupCID handed an unmapped code to Parent.LookupCID and never
// consults the child's own NotdefSingles/NotdefRanges (child notdefrange 00..ff -> 7,
// code unmapped in child and parent: LookupCID gives 0, LookupNotdefCID gives 7, and 7
// without the parent).
const c13CheckChildNotdefWithParent = true

const c13TextKinds = 8

var c13BoundaryTexts = []string{"\uD7FF", "\uE000", "\uFFFD", "\uFFFF", "\U00010000", "\U0010FFFF", "\u0000", "a\u0000", "\u00FF", "\U0001F3FF"}

// c13Text: the texts of the maps: single BMP runes, prefixes of a ligature expansion,
// astral runes, the empty string (a code that is mapped, but contributes no text),
// multi-rune strings whose last rune counts up, values next to the UTF-16 boundaries.
func c13Text(kind, val int) string {
	switch kind {
	case 0:
		return string(rune(0x41 + val%1000))
	case 1:
		return "ffi"[:1+val%3]
	case 2:
		return string([]rune{rune(0x10000 + val%500)})
	case 3:
		return ""
	case 4:
		return string([]rune{'x', rune(0x1F600 + val%300)})
	case 5:
		return c13BoundaryTexts[val%len(c13BoundaryTexts)]
	case 6:
		return string([]rune{rune(0x2F800 + val%200), 0x301, rune(0xF0 + val%32)})
	default:
		return string(rune(0x3000 + val%5000))
	}
}

// c13Variant: output version, pretty or compressed output, writing mode.
func c13Variant(k int) (pdf.Version, *pdf.WriterOptions, font.WritingMode) {
	ver := pdf.V2_0
	if k%4 >= 2 {
		ver = pdf.V1_7
	}
	var opt *pdf.WriterOptions
	if k%2 == 1 {
		opt = &pdf.WriterOptions{HumanReadable: true}
	}
	wmode := font.Horizontal
	if k%5 >= 3 {
		wmode = font.Vertical
	}
	return ver, opt, wmode
}

// c13Rect is the set of codes of a cidrange/bfrange/notdefrange entry: every byte
// varies between first[i] and last[i].
type c13Rect struct{ first, last []byte }

func (r c13Rect) contains(code []byte) bool {
	if len(code) != len(r.first) {
		return false
	}
	for i, b := range code {
		if b < r.first[i] || b > r.last[i] {
			return false
		}
	}
	return true
}

func (r c13Rect) meets(o c13Rect) bool {
	if len(r.first) != len(o.first) {
		return false
	}
	for i := range r.first {
		if r.last[i] < o.first[i] || o.last[i] < r.first[i] {
			return false
		}
	}
	return true
}

// codes lists the codes of the rectangle in ascending order (nested loops, first byte outermost).
func (r c13Rect) codes() [][]byte {
	var out [][]byte
	var gen func(prefix []byte)
	gen = func(prefix []byte) {
		k := len(prefix)
		if k == len(r.first) {
			out = append(out, append([]byte{}, prefix...))
			return
		}
		for b := int(r.first[k]); b <= int(r.last[k]); b++ {
			gen(append(prefix, byte(b)))
		}
	}
	gen(nil)
	return out
}

func (r c13Rect) lastByteOnly() bool {
	n := len(r.first)
	return string(r.first[:n-1]) == string(r.last[:n-1])
}

// c13RandRect draws a rectangle inside one of the given ranges with at most maxCodes
// codes; bounds coincide with the bounds of the range in about half of the positions.
// With carry, a byte other than the last one varies (if the range allows it).
func c13RandRect(rng *rand.Rand, within charcode.CodeSpaceRange, maxCodes int, carry bool) c13Rect {
	r := within[rng.Intn(len(within))]
	n := len(r.Low)
	first, last := make([]byte, n), make([]byte, n)
	budget := maxCodes
	carryPos := -1
	if carry && n > 1 {
		carryPos = rng.Intn(n - 1)
	}
	for i := n - 1; i >= 0; i-- {
		avail := int(r.High[i]) - int(r.Low[i]) + 1
		lim := avail
		if i == n-1 {
			lim = min(lim, 96)
		} else {
			lim = min(lim, 4)
		}
		lim = max(1, min(lim, budget))
		span := 1 + rng.Intn(lim)
		if i != n-1 && i != carryPos && rng.Intn(2) == 0 {
			span = 1
		}
		if i == carryPos && span == 1 && avail > 1 {
			span = 2
		}
		budget /= span
		var lo int
		switch rng.Intn(4) {
		case 0:
			lo = int(r.Low[i])
		case 1:
			lo = int(r.High[i]) - span + 1
		default:
			lo = int(r.Low[i]) + rng.Intn(avail-span+1)
		}
		first[i], last[i] = byte(lo), byte(lo+span-1)
	}
	return c13Rect{first, last}
}

// c13Neighbours: the codes one step outside the rectangle in each byte position.
func (r c13Rect) neighbours() [][]byte {
	var out [][]byte
	for i := range r.first {
		if r.first[i] > 0 {
			c := append([]byte{}, r.first...)
			c[i]--
			out = append(out, c)
			c = append([]byte{}, r.last...)
			c[i] = r.first[i] - 1
			out = append(out, c)
		}
		if r.last[i] < 0xff {
			c := append([]byte{}, r.last...)
			c[i]++
			out = append(out, c)
			c = append([]byte{}, r.first...)
			c[i] = r.last[i] + 1
			out = append(out, c)
		}
	}
	return out
}

func c13CodeLess(a, b []byte) bool {
	if len(a) != len(b) {
		return len(a) < len(b)
	}
	return string(a) < string(b)
}

// c13Level is one CMap of a chain in structural form: disjoint rectangles and singles.
type c13Level struct {
	rects   []c13Rect
	singles [][]byte
}

func (l *c13Level) covers(code []byte) bool {
	for _, r := range l.rects {
		if r.contains(code) {
			return true
		}
	}
	for _, s := range l.singles {
		if string(s) == string(code) {
			return true
		}
	}
	return false
}

func c13RandLevel(rng *rand.Rand, csr, wide charcode.CodeSpaceRange, carryFirst bool) *c13Level {
	l := &c13Level{}
	nRects := 1 + rng.Intn(4)
	for i := 0; i < nRects; i++ {
		for try := 0; try < 20; try++ {
			from := csr
			if wide != nil && rng.Intn(3) == 0 {
				from = wide
			}
			r := c13RandRect(rng, from, 1500, (i == 0 && carryFirst) || rng.Intn(2) == 0)
			ok := true
			for _, o := range l.rects {
				if r.meets(o) {
					ok = false
				}
			}
			if ok {
				l.rects = append(l.rects, r)
				break
			}
		}
	}
	for i := rng.Intn(6); i > 0; i-- {
		s := c13RandRect(rng, csr, 1, false).first
		if rng.Intn(2) == 0 && len(l.rects) > 0 {
			// next to a rectangle
			nb := l.rects[rng.Intn(len(l.rects))].neighbours()
			if len(nb) > 0 {
				s = nb[rng.Intn(len(nb))]
			}
		}
		if !l.covers(s) {
			l.singles = append(l.singles, s)
		}
	}
	return l
}

// TestB2C13Rect: CMaps and ToUnicode CMaps given in structural form (the form an
// extracted file has): cidrange/bfrange entries are rectangles over 2..4 bytes whose
// lower bytes start and end anywhere, entries of one file do not overlap, a parent may
// be shadowed.  Enumeration and lookup must agree in both directions, the enumeration
// lists exactly the codes of the entries that lie in the code space, the first code of
// an entry has the entry's value, entries that vary only in the last byte count up,
// codes one step outside an entry are unmapped, CodeForText gives the smallest code
// whose lookup is the text; all of it again after Embed/Extract, where every lookup
// and the enumeration must be the same as before.
func TestB2C13Rect(t *testing.T) {
	thorough := os.Getenv("VERIF_TIER") == "thorough"
	seed := int64(1)
	fmt.Sscanf(os.Getenv("VERIF_SEED"), "%d", &seed)
	rng := rand.New(rand.NewSource(seed + 1000))
	full := func(n int) charcode.Range {
		lo, hi := make([]byte, n), make([]byte, n)
		for i := range hi {
			hi[i] = 0xff
		}
		return charcode.Range{Low: lo, High: hi}
	}
	spaces := []charcode.CodeSpaceRange{
		charcode.UCS2,
		{{Low: []byte{0x20, 0x20}, High: []byte{0x7e, 0xfe}}},
		{full(3)},
		{full(4)},
		// EUC-like: 1, 2 and 3 bytes
		{{Low: []byte{0x00}, High: []byte{0x80}}, {Low: []byte{0xa1, 0xa1}, High: []byte{0xfe, 0xfe}}, {Low: []byte{0x8e, 0xa1, 0xa1}, High: []byte{0x8e, 0xb0, 0xfe}}},
		// GB18030-like: 1, 2 and 4 bytes
		{{Low: []byte{0x00}, High: []byte{0x80}}, {Low: []byte{0x81, 0x40}, High: []byte{0xfe, 0xfe}}, {Low: []byte{0x81, 0x30, 0x81, 0x30}, High: []byte{0xfe, 0x39, 0xfe, 0x39}}},
	}
	rounds := 30
	if thorough {
		rounds = 300
	}
	ros := &cid.SystemInfo{Registry: "Test", Ordering: "Harness", Supplement: 0}
	cases := 0
	for si, csr := range spaces {
		codec, err := charcode.NewCodec(csr)
		if err != nil {
			t.Fatal(err)
		}
		valid := func(code []byte) (charcode.Code, bool) {
			c, k, ok := codec.Decode(code)
			return c, ok && k == len(code)
		}
		// rectangles that stick out of the code space: same lengths, all byte values
		var wide charcode.CodeSpaceRange
		for _, r := range csr {
			wide = append(wide, full(len(r.Low)))
		}
		for round := 0; round < rounds; round++ {
			cases++
			desc := fmt.Sprintf("space=%d round=%d", si, round)
			ver, wopt, wmode := c13Variant(round)
			useWide := wide
			if round%4 != 3 {
				useWide = nil
			}
			depth := 1
			if round%3 == 2 {
				depth = 2 + rng.Intn(2)
			}
			var levels []*c13Level // oldest ancestor first
			var chain *File
			var tchain *ToUnicodeFile
			type rectVal struct {
				r     c13Rect
				value cid.CID
				texts []string
			}
			var topRects []rectVal
			for l := 0; l < depth; l++ {
				lev := c13RandLevel(rng, csr, useWide, l == depth-1)
				levels = append(levels, lev)
				f := &File{ROS: ros, CodeSpaceRange: csr, Parent: chain, WMode: wmode}
				if l == depth-1 || rng.Intn(2) == 0 {
					f.Name = fmt.Sprintf("HarnessRect%d", l)
				}
				tu := &ToUnicodeFile{CodeSpaceRange: csr, Parent: tchain}
				topRects = topRects[:0]
				for _, r := range lev.rects {
					v := cid.CID(rng.Intn(60000))
					if rng.Intn(8) == 0 {
						v = 0
					}
					f.CIDRanges = append(f.CIDRanges, Range{First: r.first, Last: r.last, Value: v})
					var texts []string
					n := len(r.codes())
					if n <= 80 && rng.Intn(2) == 0 {
						// one value per code
						for j := 0; j < n; j++ {
							texts = append(texts, c13Text(rng.Intn(c13TextKinds), rng.Intn(60000)))
						}
					} else {
						texts = []string{c13Text(rng.Intn(c13TextKinds), rng.Intn(60000))}
					}
					tu.Ranges = append(tu.Ranges, ToUnicodeRange{First: r.first, Last: r.last, Values: texts})
					topRects = append(topRects, rectVal{r, v, texts})
				}
				for _, s := range lev.singles {
					v := cid.CID(rng.Intn(60000))
					if rng.Intn(6) == 0 {
						v = 0
					}
					f.CIDSingles = append(f.CIDSingles, Single{Code: s, Value: v})
					tu.Singles = append(tu.Singles, ToUnicodeSingle{Code: s, Value: c13Text(rng.Intn(c13TextKinds), rng.Intn(60000))})
				}
				chain, tchain = f, tu
			}
			// the codes of all entries of the chain, and which of them are codes of the code space
			union := map[string]bool{}
			allInside := true
			for _, lev := range levels {
				for _, r := range lev.rects {
					for _, code := range r.codes() {
						union[string(code)] = true
					}
				}
				for _, s := range lev.singles {
					union[string(s)] = true
				}
			}
			var unionCodes [][]byte
			nValid := 0
			for k := range union {
				unionCodes = append(unionCodes, []byte(k))
				if _, ok := valid([]byte(k)); ok {
					nValid++
				} else {
					allInside = false
				}
			}
			sort.Slice(unionCodes, func(i, j int) bool { return c13CodeLess(unionCodes[i], unionCodes[j]) })
			var outside [][]byte
			for _, lev := range levels {
				for _, r := range lev.rects {
				nb:
					for _, code := range r.neighbours() {
						for _, l2 := range levels {
							if l2.covers(code) {
								continue nb
							}
						}
						outside = append(outside, code)
					}
				}
			}
			top := levels[depth-1]

			checkCID := func(g *File, what string) map[charcode.Code]cid.CID {
				seen := map[charcode.Code]cid.CID{}
				for c, v := range g.All(codec) {
					seen[c] = v
				}
				if len(seen) != nValid {
					t.Errorf("B2-FAIL %s-rect-enumeration %s: %d codes enumerated, the entries hold %d", what, desc, len(seen), nValid)
					return seen
				}
				for _, code := range unionCodes {
					c, ok := valid(code)
					if !ok {
						continue
					}
					v, present := seen[c]
					if !present {
						t.Errorf("B2-FAIL %s-rect-enumeration %s code=%x: not enumerated", what, desc, code)
						return seen
					}
					if got := g.LookupCID(code); got != v {
						t.Errorf("B2-FAIL %s-rect-enumeration-vs-lookup %s code=%x: enumerated %d, lookup %d", what, desc, code, v, got)
						return seen
					}
				}
				for _, rv := range topRects {
					codes := rv.r.codes()
					if got := g.LookupCID(codes[0]); got != rv.value {
						t.Errorf("B2-FAIL %s-rect-first %s code=%x: got %d want %d", what, desc, codes[0], got, rv.value)
						return seen
					}
					if rv.r.lastByteOnly() {
						for j, code := range codes {
							if got := g.LookupCID(code); got != rv.value+cid.CID(j) {
								t.Errorf("B2-FAIL %s-rect-lookup %s code=%x: got %d want %d", what, desc, code, got, rv.value+cid.CID(j))
								return seen
							}
						}
					}
				}
				for i, s := range top.singles {
					if got := g.LookupCID(s); got != chain.CIDSingles[i].Value {
						t.Errorf("B2-FAIL %s-rect-single %s code=%x: got %d want %d", what, desc, s, got, chain.CIDSingles[i].Value)
						return seen
					}
				}
				for _, code := range outside {
					if got := g.LookupCID(code); got != 0 {
						t.Errorf("B2-FAIL %s-rect-outside %s code=%x: got %d for a code outside every entry", what, desc, code, got)
						return seen
					}
				}
				return seen
			}
			seenBuilt := checkCID(chain, "built")
			w, _ := memfile.NewPDFWriter(ver, wopt)
			rm := pdf.NewResourceManager(w)
			ref, err := rm.Embed(chain)
			if err == nil {
				err = rm.Close()
			}
			if err != nil {
				t.Errorf("B2-FAIL rect-embed %s: %v", desc, err)
				continue
			}
			g, err := Extract(pdf.NewCursor(w), ref, false)
			if err != nil {
				t.Errorf("B2-FAIL rect-extract %s: %v", desc, err)
				continue
			}
			n := 0
			for p := g; p != nil; p = p.Parent {
				n++
				if !p.CodeSpaceRange.Equivalent(csr) {
					t.Errorf("B2-FAIL extracted-rect-codespace %s level %d", desc, n)
				}
			}
			if n != depth || g.WMode != wmode {
				t.Errorf("B2-FAIL extracted-rect-shape %s: depth %d want %d, wmode %v want %v", desc, n, depth, g.WMode, wmode)
				continue
			}
			seenExtracted := checkCID(g, "extracted")
			if len(seenExtracted) != len(seenBuilt) {
				t.Errorf("B2-FAIL extracted-rect-enumeration %s: %d entries, %d before", desc, len(seenExtracted), len(seenBuilt))
			}
			for c, v := range seenBuilt {
				if seenExtracted[c] != v {
					t.Errorf("B2-FAIL extracted-rect-enumeration %s code=%x: %d, before %d", desc, c, seenExtracted[c], v)
					break
				}
			}
			for _, list := range [][][]byte{unionCodes, outside} {
				for _, code := range list {
					if a, b := chain.LookupCID(code), g.LookupCID(code); a != b {
						t.Errorf("B2-FAIL extracted-rect-lookup %s code=%x: %d, before %d", desc, code, b, a)
						break
					}
				}
			}

			// the ToUnicode CMap with the same entries
			checkTU := func(h *ToUnicodeFile, what string) map[charcode.Code]string {
				seen := map[charcode.Code]string{}
				for c, s := range h.All(codec) {
					seen[c] = s
				}
				if len(seen) != nValid {
					t.Errorf("B2-FAIL %s-tounicode-rect-enumeration %s: %d codes enumerated, the entries hold %d", what, desc, len(seen), nValid)
					return seen
				}
				smallest := map[string][]byte{}
				var texts []string
				for _, code := range unionCodes {
					got, found := h.Lookup(code)
					if !found {
						t.Errorf("B2-FAIL %s-tounicode-rect-lookup %s code=%x: not found", what, desc, code)
						return seen
					}
					if _, ok := smallest[got]; !ok {
						smallest[got] = code // unionCodes is sorted
						texts = append(texts, got)
					}
					c, ok := valid(code)
					if !ok {
						continue
					}
					s, present := seen[c]
					if !present || s != got {
						t.Errorf("B2-FAIL %s-tounicode-rect-enumeration-vs-lookup %s code=%x: enumerated %q %v, lookup %q", what, desc, code, s, present, got)
						return seen
					}
				}
				for _, rv := range topRects {
					codes := rv.r.codes()
					for j, code := range codes {
						var want string
						switch {
						case j < len(rv.texts) && (j == 0 || len(rv.texts) == len(codes)):
							want = rv.texts[j]
						case rv.r.lastByteOnly():
							// "a one-element Values list means: increment the last rune"
							rr := []rune(rv.texts[0])
							if len(rr) > 0 {
								x := rr[len(rr)-1] + rune(j)
								if x > 0x10ffff || (x >= 0xd800 && x < 0xe000) {
									continue
								}
								rr[len(rr)-1] = x
							}
							want = string(rr)
						default:
							continue
						}
						if got, found := h.Lookup(code); !found || got != want {
							t.Errorf("B2-FAIL %s-tounicode-rect-lookup %s code=%x: got %q %v want %q", what, desc, code, got, found, want)
							return seen
						}
					}
				}
				for i, s := range top.singles {
					if got, found := h.Lookup(s); !found || got != tchain.Singles[i].Value {
						t.Errorf("B2-FAIL %s-tounicode-rect-single %s code=%x: got %q %v want %q", what, desc, s, got, found, tchain.Singles[i].Value)
						return seen
					}
				}
				for _, code := range outside {
					if got, found := h.Lookup(code); found {
						t.Errorf("B2-FAIL %s-tounicode-rect-outside %s code=%x: got %q for a code outside every entry", what, desc, code, got)
						return seen
					}
				}
				if allInside {
					step := 1 + len(texts)/25
					for i := 0; i < len(texts); i += step {
						code, found := h.CodeForText(texts[i])
						if !found || string(code) != string(smallest[texts[i]]) {
							t.Errorf("B2-FAIL %s-tounicode-codefortext %s text=%q: got %x %v, smallest code with that lookup %x", what, desc, texts[i], code, found, smallest[texts[i]])
							return seen
						}
					}
					if code, found := h.CodeForText("\u2603 no such text"); found {
						t.Errorf("B2-FAIL %s-tounicode-codefortext %s: code %x for a text that no code has", what, desc, code)
					}
				}
				return seen
			}
			tuBuilt := checkTU(tchain, "built")
			w2, _ := memfile.NewPDFWriter(ver, wopt)
			rm2 := pdf.NewResourceManager(w2)
			tref, err := rm2.Embed(tchain)
			if err == nil {
				err = rm2.Close()
			}
			if err != nil {
				t.Errorf("B2-FAIL tounicode-rect-embed %s: %v", desc, err)
				continue
			}
			h, err := pdf.Decode(pdf.NewCursor(w2), tref, ExtractToUnicode)
			if err != nil || h == nil {
				t.Errorf("B2-FAIL tounicode-rect-extract %s: %v", desc, err)
				continue
			}
			n = 0
			for p := h; p != nil; p = p.Parent {
				n++
				if !p.CodeSpaceRange.Equivalent(csr) {
					t.Errorf("B2-FAIL extracted-tounicode-rect-codespace %s level %d", desc, n)
				}
			}
			if n != depth {
				t.Errorf("B2-FAIL extracted-tounicode-rect-shape %s: depth %d want %d", desc, n, depth)
				continue
			}
			tuExtracted := checkTU(h, "extracted")
			if len(tuExtracted) != len(tuBuilt) {
				t.Errorf("B2-FAIL extracted-tounicode-rect-enumeration %s: %d entries, %d before", desc, len(tuExtracted), len(tuBuilt))
			}
			for c, v := range tuBuilt {
				if got, ok := tuExtracted[c]; !ok || got != v {
					t.Errorf("B2-FAIL extracted-tounicode-rect-enumeration %s code=%x: %q %v, before %q", desc, c, got, ok, v)
					break
				}
			}
			for _, code := range unionCodes {
				a, aok := tchain.Lookup(code)
				b, bok := h.Lookup(code)
				if a != b || aok != bok {
					t.Errorf("B2-FAIL extracted-tounicode-rect-lookup %s code=%x: %q %v, before %q %v", desc, code, b, bok, a, aok)
					break
				}
			}
		}
	}
	t.Logf("B2-CASES %d", cases)
}
