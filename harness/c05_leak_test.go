package pdf

// Bounded check for the "leaves no goroutine running" clause of C05 and the "releases any
// helper goroutine once the reader is closed" clause of C08.  The only filter with a helper
// goroutine is DCTDecode; the files below put it wherever a stream can occur (cross-reference
// stream, object stream, ordinary stream, every position of a filter chain) and then open,
// read, abandon half-way, hit size limits and fail in every way the harness can arrange.
// After every scenario the number of goroutines must be back at its starting value.

import (
	"bytes"
	"fmt"
	"image"
	"image/jpeg"
	"io"
	"os"
	"runtime"
	"testing"
	"time"
)

func c05LeakJPEG(t *testing.T, side int) []byte {
	img := image.NewGray(image.Rect(0, 0, side, side))
	for i := range img.Pix {
		img.Pix[i] = uint8(i*7 + i/side)
	}
	var jb bytes.Buffer
	if err := jpeg.Encode(&jb, img, nil); err != nil {
		t.Fatal(err)
	}
	return jb.Bytes()
}

// c05LeakSettle waits for goroutines that are on their way out and returns the count.
func c05LeakSettle(base int) int {
	n := runtime.NumGoroutine()
	for i := 0; i < 2000 && n > base; i++ {
		time.Sleep(5 * time.Millisecond)
		n = runtime.NumGoroutine()
	}
	return n
}

// c05LeakBase is the number of goroutines before a scenario (stragglers of the previous one
// have been waited for by c05LeakSettle already).
func c05LeakBase() int {
	return runtime.NumGoroutine()
}

type c05LeakFile struct {
	desc string
	data []byte
	ref  Reference // the stream (or compressed object) to fetch
}

// c05LeakFiles builds hand-written files; body is the JPEG.
func c05LeakFiles(t *testing.T, body []byte) []c05LeakFile {
	var res []c05LeakFile
	classic := func(desc, dictExtra string) {
		var f bytes.Buffer
		f.WriteString("%PDF-1.7\n")
		o1 := f.Len()
		f.WriteString("1 0 obj\n<</Type/Catalog/Pages 2 0 R>>\nendobj\n")
		o2 := f.Len()
		f.WriteString("2 0 obj\n<</Type/Pages/Kids[]/Count 0>>\nendobj\n")
		o3 := f.Len()
		fmt.Fprintf(&f, "3 0 obj\n<<%s/Length %d>>\nstream\n", dictExtra, len(body))
		f.Write(body)
		f.WriteString("\nendstream\nendobj\n")
		xr := f.Len()
		fmt.Fprintf(&f, "xref\n0 4\n0000000000 65535 f \n%010d 00000 n \n%010d 00000 n \n%010d 00000 n \ntrailer\n<</Size 4/Root 1 0 R>>\nstartxref\n%d\n%%%%EOF\n", o1, o2, o3, xr)
		res = append(res, c05LeakFile{desc, f.Bytes(), NewReference(3, 0)})
	}
	second := []string{"ASCIIHexDecode", "ASCII85Decode", "RunLengthDecode", "LZWDecode", "FlateDecode",
		"CCITTFaxDecode", "JBIG2Decode", "DCTDecode", "JPXDecode", "Crypt", "NoSuchFilter"}
	classic("DCT alone", "/Filter/DCTDecode")
	for _, s := range second {
		classic("DCT then "+s, "/Filter[/DCTDecode/"+s+"]")
		classic(s+" then DCT", "/Filter[/"+s+"/DCTDecode]")
		classic("DCT, "+s+", DCT", "/Filter[/DCTDecode/"+s+"/DCTDecode]")
	}
	for _, parms := range []string{
		"[null<</Predictor 12/Columns 4>>]", "[null<</Predictor 99>>]", "[null<</Predictor 2/Colors 77>>]",
		"[null<</Columns -3>>]", "[<</ColorTransform 1>><</Predictor 15/Columns 100000000>>]", "[null 7]", "7",
	} {
		for _, s := range []string{"FlateDecode", "LZWDecode", "CCITTFaxDecode"} {
			classic("DCT then "+s+" with "+parms, "/Filter[/DCTDecode/"+s+"]/DecodeParms"+parms)
		}
	}
	classic("nine filters", "/Filter[/DCTDecode/ASCIIHexDecode/ASCIIHexDecode/ASCIIHexDecode/ASCIIHexDecode/ASCIIHexDecode/ASCIIHexDecode/ASCIIHexDecode/ASCIIHexDecode]")

	// the JPEG as the body of the cross-reference stream
	for _, extra := range []string{"", "/DecodeParms<</Predictor 12/Columns 4>>"} {
		var f bytes.Buffer
		f.WriteString("%PDF-1.7\n1 0 obj\n<</Type/Catalog/Pages 2 0 R>>\nendobj\n2 0 obj\n<</Type/Pages/Kids[]/Count 0>>\nendobj\n")
		off := f.Len()
		fmt.Fprintf(&f, "3 0 obj\n<</Type/XRef/Size 4/W[1 2 1]/Root 1 0 R/Filter/DCTDecode%s/Length %d>>\nstream\n", extra, len(body))
		f.Write(body)
		fmt.Fprintf(&f, "\nendstream\nendobj\nstartxref\n%d\n%%%%EOF\n", off)
		res = append(res, c05LeakFile{"xref stream through DCT" + extra, f.Bytes(), NewReference(1, 0)})
	}

	// the JPEG as the body of an object stream
	for _, first := range []int{4, 0, 100000} {
		var f bytes.Buffer
		offs := map[int]int{}
		f.WriteString("%PDF-1.7\n")
		offs[1] = f.Len()
		f.WriteString("1 0 obj\n<</Type/Catalog/Pages 2 0 R>>\nendobj\n")
		offs[2] = f.Len()
		f.WriteString("2 0 obj\n<</Type/Pages/Kids[]/Count 0>>\nendobj\n")
		offs[3] = f.Len()
		fmt.Fprintf(&f, "3 0 obj\n<</Type/ObjStm/N 1/First %d/Filter/DCTDecode/Length %d>>\nstream\n", first, len(body))
		f.Write(body)
		f.WriteString("\nendstream\nendobj\n")
		offs[5] = f.Len()
		var x bytes.Buffer
		ent := func(tp byte, a int, b byte) { x.Write([]byte{tp, byte(a >> 8), byte(a), b}) }
		ent(0, 0, 255)
		ent(1, offs[1], 0)
		ent(1, offs[2], 0)
		ent(1, offs[3], 0)
		ent(2, 3, 0)
		ent(1, offs[5], 0)
		fmt.Fprintf(&f, "5 0 obj\n<</Type/XRef/Size 6/W[1 2 1]/Root 1 0 R/Length %d>>\nstream\n", x.Len())
		f.Write(x.Bytes())
		fmt.Fprintf(&f, "\nendstream\nendobj\nstartxref\n%d\n%%%%EOF\n", offs[5])
		res = append(res, c05LeakFile{fmt.Sprintf("object stream through DCT, /First %d", first), f.Bytes(), NewReference(4, 0)})
	}
	return res
}

func TestB2C05Leak(t *testing.T) {
	sides := []int{64, 300}
	if b2Thorough() {
		sides = []int{8, 64, 65, 300, 1000}
	}
	cases := 0
	for _, side := range sides {
		body := c05LeakJPEG(t, side)
		for _, lf := range c05LeakFiles(t, body) {
			for _, mode := range []ReaderErrorHandling{ErrorHandlingRecover, ErrorHandlingReport, ErrorHandlingStop} {
				base := c05LeakBase()
				func() {
					opt := &ReaderOptions{ErrorHandling: mode}
					r, err := NewReader(bytes.NewReader(lf.data), int64(len(lf.data)), opt)
					if err != nil {
						return
					}
					defer r.Close()
					for round := 0; round < 3; round++ {
						obj, err := r.Get(lf.ref, true)
						if err != nil {
							continue
						}
						stm, ok := obj.(*Stream)
						if !ok {
							continue
						}
						// (a) read a little, then close
						if rd, err := DecodeStream(r, nil, stm); err == nil {
							io.ReadFull(rd, make([]byte, 10))
							rd.Close()
						}
						// (b) drain, then close
						if rd, err := DecodeStream(r, nil, stm); err == nil {
							io.Copy(io.Discard, rd)
							rd.Close()
						}
						// (c) close at once
						if rd, err := DecodeStream(r, nil, stm); err == nil {
							rd.Close()
						}
						// (d) size limits below, at and above the decoded size
						for _, lim := range []int64{0, 1, int64(side*side) - 1, int64(side * side), 1 << 24} {
							ReadAll(r, nil, stm, lim)
						}
						// (e) the raw reader
						if rd, err := RawStreamReader(r, stm); err == nil {
							io.ReadFull(rd, make([]byte, 10))
							rd.Close()
						}
					}
				}()
				if n := c05LeakSettle(base); n > base {
					t.Errorf("B2-FAIL goroutine-leak %s (image %dx%d, mode %d): %d goroutines before, %d after everything was closed", lf.desc, side, side, mode, base, n)
				}
				cases++
			}
		}
	}
	// sequential scan over the same bytes
	for _, lf := range c05LeakFiles(t, c05LeakJPEG(t, 300)) {
		base := c05LeakBase()
		if info, err := SequentialScan(bytes.NewReader(lf.data), int64(len(lf.data))); err == nil {
			if r, err := info.MakeReader(nil); err == nil {
				if obj, err := r.Get(lf.ref, true); err == nil {
					if stm, ok := obj.(*Stream); ok {
						ReadAll(r, nil, stm, 5)
					}
				}
				r.Close()
			}
		}
		if n := c05LeakSettle(base); n > base {
			t.Errorf("B2-FAIL goroutine-leak sequential scan, %s: %d goroutines before, %d after", lf.desc, base, n)
		}
		cases++
	}
	_ = os.Getenv
	t.Logf("B2-CASES %d", cases)
}
