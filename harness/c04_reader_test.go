package pdf

// B2 bounded checks for C04 (labelled bounded, never counted as proved): files and
// tokens are serialised by hand (not by the library's Writer) in many conforming
// ways; the oracle is the document they describe.

import (
	"bytes"
	"compress/zlib"
	"fmt"
	"io"
	"math/rand"
	"sort"
	"strings"
	"testing"
)

func TestB2C04Tokens(t *testing.T) {
	type tc struct {
		text string
		want Object
	}
	var cases []tc
	// white space and comments between tokens
	for _, ws := range []string{" ", "\x00", "\t", "\n", "\r", "\f", "\r\n", " %c\n", "%a\r%b\n ", "  \n\n"} {
		cases = append(cases,
			tc{"[1" + ws + "2]", Array{Integer(1), Integer(2)}},
			tc{"[/A" + ws + "/B]", Array{Name("A"), Name("B")}},
			tc{"<</K" + ws + "(v)" + ws + ">>", Dict{"K": String("v")}},
			tc{"[" + ws + "true" + ws + "null" + ws + "]", Array{Boolean(true), nil}},
			tc{"[3" + ws + "0" + ws + "R]", Array{NewReference(3, 0)}},
			tc{"<</A" + ws + "3" + ws + "1" + ws + "R/B" + ws + "4>>", Dict{"A": NewReference(3, 1), "B": Integer(4)}},
		)
	}
	// names
	cases = append(cases,
		tc{"/A#20B", Name("A B")}, tc{"/#23", Name("#")}, tc{"/A#42", Name("AB")}, tc{"/a#2fb", Name("a/b")}, tc{"/a#2Fb", Name("a/b")},
		tc{"/", Name("")}, tc{"/A#", Name("A#")}, tc{"/A#4", Name("A#4")}, tc{"/A#zz", Name("A#zz")}, tc{"/ä", Name("ä")}, tc{"/1.5", Name("1.5")},
		tc{"[/A#42/B]", Array{Name("AB"), Name("B")}}, tc{"[/A#42]", Array{Name("AB")}},
	)
	// literal strings
	cases = append(cases,
		tc{"(a(b)c)", String("a(b)c")}, tc{`(a\(b)`, String("a(b")}, tc{`(a\)b)`, String("a)b")}, tc{`(\n\r\t\b\f\\)`, String("\n\r\t\b\f\\")},
		tc{`(\101\1012\7)`, String("AA2\x07")}, tc{`(\0053)`, String("\x053")}, tc{`(\53)`, String("+")}, tc{`(\5)`, String("\x05")}, tc{`(\400)`, String("\x00")},
		tc{"(a\\\nb)", String("ab")}, tc{"(a\\\r\nb)", String("ab")}, tc{"(a\\\rb)", String("ab")},
		tc{"(a\rb)", String("a\nb")}, tc{"(a\r\nb)", String("a\nb")}, tc{"(a\nb)", String("a\nb")}, tc{`(\q)`, String("q")}, tc{"()", String(nil)},
		tc{"(((())))", String("((()))")},
	)
	// hex strings
	cases = append(cases,
		tc{"<4142>", String("AB")}, tc{"<41 42>", String("AB")}, tc{"<4 1\n4\r2>", String("AB")}, tc{"<414>", String("A@")}, tc{"<aBcD>", String("\xab\xcd")}, tc{"<>", String(nil)},
	)
	// numbers
	cases = append(cases,
		tc{"[1 -1 +1 0 007 1. .5 -.5 +.5 4.50 -0]", Array{Integer(1), Integer(-1), Integer(1), Integer(0), Integer(7), Real(1), Real(.5), Real(-.5), Real(.5), Real(4.5), Integer(0)}},
		tc{"[9223372036854775807 -9223372036854775808]", Array{Integer(9223372036854775807), Integer(-9223372036854775808)}},
	)
	// nesting and adjacency without white space
	cases = append(cases,
		tc{"[[1][2]<</A[3]>>(s)<41>/N]", Array{Array{Integer(1)}, Array{Integer(2)}, Dict{"A": Array{Integer(3)}}, String("s"), String("A"), Name("N")}},
		tc{"<</A<</B<</C/D>>>>>>", Dict{"A": Dict{"B": Dict{"C": Name("D")}}}},
		tc{"<</A<41>>>", Dict{"A": String("A")}},
		tc{"[1 2 R 3]", Array{NewReference(1, 2), Integer(3)}}, tc{"[1 2 3 R]", Array{Integer(1), NewReference(2, 3)}},
		tc{"<</A null/B 1>>", Dict{"A": nil, "B": Integer(1)}},
	)
	n := 0
	for _, c := range cases {
		// the text is also padded so that it crosses the scanner's 1024-byte buffer at every offset of interest
		pads := []int{0}
		if b2Thorough() {
			for p := 1024 - len(c.text) - 2; p <= 1024+1; p++ {
				if p > 0 {
					pads = append(pads, p)
				}
			}
		} else {
			for _, p := range []int{1024 - len(c.text), 1024 - len(c.text)/2 - 1, 1022, 1023} {
				if p > 0 {
					pads = append(pads, p)
				}
			}
		}
		for _, pad := range pads {
			n++
			text := strings.Repeat(" ", pad) + c.text
			s := newScanner(strings.NewReader(text), nil, nil)
			if err := s.SkipWhiteSpace(); err != nil {
				t.Errorf("B2-FAIL token-ws %q: %v", c.text, err)
				continue
			}
			got, err := s.ReadObject()
			if err != nil || !Equal(got, c.want) {
				key := b2Key("token", c.want)
				t.Errorf("B2-FAIL %s text=%q pad=%d want=%#v got=%#v err=%v", key, c.text, pad, c.want, got, err)
			}
		}
	}
	t.Logf("B2-CASES %d", n)
}

// ---- whole files ----

type c04Rev struct {
	objs     map[uint32]string // object number -> body text (generation 0 unless gens says otherwise)
	gens     map[uint32]uint16
	free     []uint32
	xrefStm  bool   // write the section as a cross-reference stream
	w        [3]int // field widths for the stream
	split    bool   // classic table: one subsection per run, numbers in ascending order; stream: /Index
	trailer  string // extra trailer entries
	hybridTo bool   // classic table that also carries /XRefStm (hybrid), hiding odd objects in the stream
}

type c04File struct {
	data []byte
	want map[Reference]string // expected AsString of the object, "" = null
	last string               // expected trailer marker
}

func c04Build(preamble, eol string, revs []c04Rev) *c04File {
	var b bytes.Buffer
	b.WriteString(preamble)
	hdr := b.Len()
	b.WriteString("%PDF-1.7" + eol + "%\xe2\xe3\xcf\xd3" + eol)
	state := map[uint32]string{}
	gen := map[uint32]uint16{}
	prev := -1
	maxNum := uint32(0)
	for ri, rev := range revs {
		type ent struct {
			kind byte
			pos  int
			gen  uint16
		}
		ents := map[uint32]ent{}
		nums := []uint32{}
		for n := range rev.objs {
			nums = append(nums, n)
		}
		sort.Slice(nums, func(i, j int) bool { return nums[i] < nums[j] })
		for _, n := range nums {
			g := rev.gens[n]
			ents[n] = ent{'n', b.Len() - hdr, g}
			fmt.Fprintf(&b, "%d %d obj%s%s%sendobj%s", n, g, eol, rev.objs[n], eol, eol)
			state[n] = rev.objs[n]
			gen[n] = g
			if n > maxNum {
				maxNum = n
			}
		}
		for _, n := range rev.free {
			ents[n] = ent{'f', 0, gen[n] + 1}
			delete(state, n)
			gen[n] = gen[n] + 1
			if n > maxNum {
				maxNum = n
			}
		}
		if ri == 0 {
			ents[0] = ent{'f', 0, 65535}
		}
		all := []uint32{}
		for n := range ents {
			all = append(all, n)
		}
		sort.Slice(all, func(i, j int) bool { return all[i] < all[j] })
		size := maxNum + 1
		xrefPos := b.Len() - hdr
		trailer := fmt.Sprintf("/Size %d /Root 1 0 R /Rev %d %s", size, ri, rev.trailer)
		if prev >= 0 {
			trailer += fmt.Sprintf(" /Prev %d", prev)
		}
		if rev.xrefStm {
			num := size
			size++
			trailer = fmt.Sprintf("/Size %d /Root 1 0 R /Rev %d %s", size, ri, rev.trailer)
			if prev >= 0 {
				trailer += fmt.Sprintf(" /Prev %d", prev)
			}
			ents[num] = ent{'n', xrefPos, 0}
			all = append(all, num)
			state[num] = "<xref stream>"
			w := rev.w
			var rows bytes.Buffer
			field := func(v int, width int) {
				for k := width - 1; k >= 0; k-- {
					rows.WriteByte(byte(v >> (8 * k)))
				}
			}
			var index []string
			emit := func(n uint32) {
				e := ents[n]
				tp := 1
				if e.kind == 'f' {
					tp = 0
				}
				field(tp, w[0])
				field(e.pos, w[1])
				field(int(e.gen), w[2])
			}
			if rev.split {
				// one /Index pair per run of consecutive numbers
				for i := 0; i < len(all); {
					j := i
					for j+1 < len(all) && all[j+1] == all[j]+1 {
						j++
					}
					index = append(index, fmt.Sprintf("%d %d", all[i], j-i+1))
					for k := i; k <= j; k++ {
						emit(all[k])
					}
					i = j + 1
				}
			} else {
				for n := uint32(0); n < size; n++ {
					if _, ok := ents[n]; !ok {
						ents[n] = ent{'f', 0, 0}
						if old, ok := state[n]; ok {
							_ = old
						}
					}
				}
				// without /Index every number below /Size needs a row: numbers not touched by this
				// revision repeat their previous entry, so we only use this form in the first revision
				for n := uint32(0); n < size; n++ {
					emit(n)
				}
			}
			var z bytes.Buffer
			zw := zlib.NewWriter(&z)
			zw.Write(rows.Bytes())
			zw.Close()
			idx := ""
			if rev.split {
				idx = "/Index [" + strings.Join(index, " ") + "]"
			}
			fmt.Fprintf(&b, "%d 0 obj%s<</Type/XRef %s /W [%d %d %d] %s /Filter/FlateDecode /Length %d>>%sstream\n", num, eol, trailer, w[0], w[1], w[2], idx, z.Len(), eol)
			b.Write(z.Bytes())
			b.WriteString(eol + "endstream" + eol + "endobj" + eol)
			maxNum = num
		} else {
			if rev.hybridTo {
				// hybrid file: objects with numbers >= 5 are listed only in a cross-reference
				// stream that the classic trailer points to with /XRefStm
				num := size
				size++
				trailer = fmt.Sprintf("/Size %d /Root 1 0 R /Rev %d %s", size, ri, rev.trailer)
				if prev >= 0 {
					trailer += fmt.Sprintf(" /Prev %d", prev)
				}
				var rows bytes.Buffer
				var index []string
				var visible []uint32
				for _, n := range all {
					if n < 5 {
						visible = append(visible, n)
						continue
					}
					e := ents[n]
					tp := byte(1)
					if e.kind == 'f' {
						tp = 0
					}
					rows.Write([]byte{tp, byte(e.pos >> 16), byte(e.pos >> 8), byte(e.pos), byte(e.gen)})
					index = append(index, fmt.Sprintf("%d 1", n))
				}
				stmPos := b.Len() - hdr
				fmt.Fprintf(&b, "%d 0 obj%s<</Type/XRef /Size %d /W [1 3 1] /Index [%s] /Length %d>>%sstream\n", num, eol, size, strings.Join(index, " "), rows.Len(), eol)
				b.Write(rows.Bytes())
				b.WriteString(eol + "endstream" + eol + "endobj" + eol)
				ents[num] = ent{'n', stmPos, 0}
				visible = append(visible, num)
				state[num] = "<xref stream>"
				maxNum = num
				all = visible
				sort.Slice(all, func(i, j int) bool { return all[i] < all[j] })
				trailer += fmt.Sprintf(" /XRefStm %d", stmPos)
				xrefPos = b.Len() - hdr
			}
			b.WriteString("xref" + eol)
			line := func(n uint32) {
				e := ents[n]
				if e.kind == 'n' {
					fmt.Fprintf(&b, "%010d %05d n\r\n", e.pos, e.gen)
				} else {
					fmt.Fprintf(&b, "%010d %05d f\r\n", 0, e.gen)
				}
			}
			for i := 0; i < len(all); {
				j := i
				for j+1 < len(all) && all[j+1] == all[j]+1 {
					j++
				}
				fmt.Fprintf(&b, "%d %d%s", all[i], j-i+1, eol)
				for k := i; k <= j; k++ {
					line(all[k])
				}
				i = j + 1
			}
			fmt.Fprintf(&b, "trailer%s<<%s>>%s", eol, trailer, eol)
		}
		fmt.Fprintf(&b, "startxref%s%d%s%%%%EOF%s", eol, xrefPos, eol, eol)
		prev = xrefPos
	}
	f := &c04File{data: b.Bytes(), want: map[Reference]string{}}
	for n := uint32(1); n <= maxNum+1; n++ {
		if state[n] == "<xref stream>" {
			continue
		}
		if body, ok := state[n]; ok {
			f.want[NewReference(n, gen[n])] = body
			f.want[NewReference(n, gen[n]+1)] = "" // generation mismatch
		} else {
			f.want[NewReference(n, gen[n])] = ""
			if gen[n] > 0 {
				// the generation the object had before it was freed reads as null, too
				f.want[NewReference(n, gen[n]-1)] = ""
			}
		}
	}
	f.last = fmt.Sprintf("%d", len(revs)-1)
	return f
}

func c04Check(t *testing.T, desc string, f *c04File) {
	r, err := NewReader(bytes.NewReader(f.data), int64(len(f.data)), nil)
	if err != nil {
		t.Errorf("B2-FAIL file-open %s: %v", desc, err)
		return
	}
	for ref, body := range f.want {
		got, err := r.Get(ref, true)
		if err != nil {
			t.Errorf("B2-FAIL file-get %s ref=%v: %v", desc, ref, err)
			continue
		}
		if body == "" {
			if got != nil {
				t.Errorf("B2-FAIL file-null %s ref=%v got=%#v", desc, ref, got)
			}
			continue
		}
		if i := strings.Index(body, "\nstream"); i >= 0 {
			body = body[:i]
		}
		s := newScanner(strings.NewReader(body), nil, nil)
		want, perr := s.ReadObject()
		if perr != nil {
			t.Fatalf("harness: cannot parse expected body %q: %v", body, perr)
		}
		if stm, ok := got.(*Stream); ok {
			got = stm.Dict
			if d, ok := want.(Dict); ok {
				delete(d, "Length")
			}
		}
		if !Equal(got, want) {
			t.Errorf("B2-FAIL file-value %s ref=%v want=%s got=%#v", desc, ref, body, got)
		}
	}
}

func TestB2C04Files(t *testing.T) {
	cat := "<</Type/Catalog/Pages 2 0 R>>"
	pages := "<</Type/Pages/Kids[]/Count 0>>"
	base := map[uint32]string{1: cat, 2: pages, 3: "(three)", 4: "[4 4]", 5: "<</Five 5>>", 7: "/Seven"}
	n := 0
	for _, pre := range []string{"", "x", "HTTP/1.1 200 OK\r\n\r\n", strings.Repeat("junk\n", 150)} {
		for _, eol := range []string{"\n", "\r\n", "\r"} {
			for variant := 0; variant < 11; variant++ {
				var revs []c04Rev
				switch variant {
				case 0:
					revs = []c04Rev{{objs: base}}
				case 1:
					revs = []c04Rev{{objs: base, xrefStm: true, w: [3]int{1, 2, 1}}}
				case 2:
					revs = []c04Rev{{objs: base, xrefStm: true, w: [3]int{1, 3, 2}, split: true}}
				case 3:
					revs = []c04Rev{{objs: base}, {objs: map[uint32]string{3: "(three, second)", 9: "9"}, free: []uint32{4}}}
				case 4:
					revs = []c04Rev{{objs: base}, {objs: map[uint32]string{3: "(3b)"}}, {objs: map[uint32]string{3: "(3c)", 5: "null"}, free: []uint32{7}}}
				case 5:
					revs = []c04Rev{{objs: base, xrefStm: true, w: [3]int{1, 2, 2}, split: true}, {objs: map[uint32]string{4: "(4b)", 10: "true"}, xrefStm: true, w: [3]int{0, 4, 0}, split: true}}
				case 6:
					revs = []c04Rev{{objs: base}, {objs: map[uint32]string{4: "(revived)"}, gens: map[uint32]uint16{4: 0}, free: nil}, {free: []uint32{4}}, {objs: map[uint32]string{4: "(again)"}, gens: map[uint32]uint16{4: 1}}}
				case 8:
					revs = []c04Rev{{objs: base, hybridTo: true}}
				case 9:
					revs = []c04Rev{{objs: base}, {objs: map[uint32]string{3: "(3 hybrid)", 7: "(7 hidden)", 12: "12"}, hybridTo: true}}
				case 10:
					// an object with generation 65534 is freed by a cross-reference stream: the free
					// entry carries generation 65535
					revs = []c04Rev{{objs: base, gens: map[uint32]uint16{7: 65534}, xrefStm: true, w: [3]int{1, 2, 2}}, {free: []uint32{7}, xrefStm: true, w: [3]int{1, 2, 2}, split: true}}
				case 7:
					// streams whose /Length is missing, wrong or an unresolvable reference
					revs = []c04Rev{{objs: map[uint32]string{1: cat, 2: pages,
						3:  "<</S 1>>\nstream\nabc\ndef\nendstream",
						4:  "<</S 2/Length 999>>\nstream\nabc\r\nendstream",
						5:  "<</S 3/Length 77 0 R>>\nstream\nabcendstream xyz\nendstream",
						6:  "<</S 4/Length 2>>\nstream\nabcdef\nendstream",
						8:  "<</S 5/Length 0>>\nstream\nendstream",
						9:  "(after the empty stream)",
						10: "<</S 6/Length 0>>\nstream\n\nendstream"}}}
				}
				n++
				f := c04Build(pre, eol, revs)
				desc := fmt.Sprintf("pre=%d eol=%q variant=%d", len(pre), eol, variant)
				c04Check(t, desc, f)
				if variant == 7 {
					c04StreamData(t, desc, f)
				}
			}
		}
	}
	t.Logf("B2-CASES %d", n)
}

func c04StreamData(t *testing.T, desc string, f *c04File) {
	r, err := NewReader(bytes.NewReader(f.data), int64(len(f.data)), nil)
	if err != nil {
		return
	}
	want := map[uint32]string{3: "abc\ndef", 4: "abc", 5: "abcendstream xyz", 6: "abcdef", 8: "", 10: ""}
	for n, w := range want {
		obj, err := r.Get(NewReference(n, 0), true)
		stm, ok := obj.(*Stream)
		if err != nil || !ok {
			t.Errorf("B2-FAIL stream-recover %s obj=%d: %v %v", desc, n, obj, err)
			continue
		}
		rd, err := DecodeStream(r, nil, stm)
		if err != nil {
			t.Errorf("B2-FAIL stream-recover %s obj=%d: %v", desc, n, err)
			continue
		}
		data, err := io.ReadAll(rd)
		if err != nil || string(data) != w {
			t.Errorf("B2-FAIL stream-extent %s obj=%d want=%q got=%q err=%v", desc, n, w, data, err)
		}
	}
}

// TestB2C04ObjStmLayouts: an object stream may put its first object directly behind the
// offset table (no white space), after a space or after an end-of-line.
func TestB2C04ObjStmLayouts(t *testing.T) {
	cases := 0
	for _, sep := range []string{"", " ", "\n", "\r\n  "} {
		for _, first := range []string{"<</K(v)>>", "[1 2]", "(str)", "/Name", "true", "42"} {
			cases++
			if sep == "" && (first == "true" || first == "42" || first == "/Name") {
				// a token that would merge with the last offset needs a separator
				if first != "/Name" {
					continue
				}
			}
			head := "3 0" + sep
			body := head + first
			var b bytes.Buffer
			off := map[int]int{}
			b.WriteString("%PDF-1.7\n")
			off[1] = b.Len()
			b.WriteString("1 0 obj\n<</Type/Catalog/Pages 2 0 R>>\nendobj\n")
			off[2] = b.Len()
			b.WriteString("2 0 obj\n<</Type/Pages/Kids[]/Count 0>>\nendobj\n")
			off[4] = b.Len()
			fmt.Fprintf(&b, "4 0 obj\n<</Type/ObjStm/N 1/First %d/Length %d>>\nstream\n%s\nendstream\nendobj\n", len(head), len(body), body)
			off[5] = b.Len()
			var x bytes.Buffer
			x.Write([]byte{0, 0, 0, 255})
			x.Write([]byte{1, byte(off[1] >> 8), byte(off[1]), 0})
			x.Write([]byte{1, byte(off[2] >> 8), byte(off[2]), 0})
			x.Write([]byte{2, 0, 4, 0})
			x.Write([]byte{1, byte(off[4] >> 8), byte(off[4]), 0})
			x.Write([]byte{1, byte(off[5] >> 8), byte(off[5]), 0})
			fmt.Fprintf(&b, "5 0 obj\n<</Type/XRef/Size 6/W[1 2 1]/Root 1 0 R/Length %d>>\nstream\n", x.Len())
			b.Write(x.Bytes())
			fmt.Fprintf(&b, "\nendstream\nendobj\nstartxref\n%d\n%%%%EOF\n", off[5])
			r, err := NewReader(bytes.NewReader(b.Bytes()), int64(b.Len()), nil)
			if err != nil {
				t.Errorf("B2-FAIL objstm-layout sep=%q first=%q: open: %v", sep, first, err)
				continue
			}
			got, err := r.Get(NewReference(3, 0), true)
			want, _ := b2ParseOne([]byte(first))
			if err != nil || !Equal(got, want) {
				t.Errorf("B2-FAIL objstm-layout sep=%q first=%q: got %v (%v)", sep, first, AsString(got), err)
			}
		}
	}
	t.Logf("B2-CASES %d", cases)
}

// ---- literal strings: every spelling, judged by a decoder written from the specification ----

// c04RefLiteral decodes a literal string per ISO 32000-1 7.3.4.2.  text starts behind the
// opening parenthesis; the result is the value and the number of bytes used including the
// closing parenthesis (ok is false when the string does not end inside text).
//   - balanced unescaped parentheses are part of the string
//   - REVERSE SOLIDUS + one of n r t b f ( ) \ : the character of table 3
//   - REVERSE SOLIDUS + 1 to 3 octal digits: that code, high-order overflow ignored
//   - REVERSE SOLIDUS + end-of-line marker (CR, LF or CR LF): nothing
//   - REVERSE SOLIDUS + anything else: the REVERSE SOLIDUS is ignored
//   - an end-of-line marker (CR, LF or CR LF) without REVERSE SOLIDUS: one LF
func c04RefLiteral(text []byte) (val []byte, used int, ok bool) {
	depth := 1
	i := 0
	for i < len(text) {
		c := text[i]
		i++
		switch c {
		case '(':
			depth++
			val = append(val, c)
		case ')':
			depth--
			if depth == 0 {
				return val, i, true
			}
			val = append(val, c)
		case '\r':
			val = append(val, '\n')
			if i < len(text) && text[i] == '\n' {
				i++
			}
		case '\\':
			if i >= len(text) {
				return nil, 0, false
			}
			e := text[i]
			switch {
			case e == 'n':
				val = append(val, '\n')
				i++
			case e == 'r':
				val = append(val, '\r')
				i++
			case e == 't':
				val = append(val, '\t')
				i++
			case e == 'b':
				val = append(val, '\b')
				i++
			case e == 'f':
				val = append(val, '\f')
				i++
			case e == '(' || e == ')' || e == '\\':
				val = append(val, e)
				i++
			case e >= '0' && e <= '7':
				code := 0
				for k := 0; k < 3 && i < len(text) && text[i] >= '0' && text[i] <= '7'; k++ {
					code = code*8 + int(text[i]-'0')
					i++
				}
				val = append(val, byte(code&0xff))
			case e == '\n':
				i++
			case e == '\r':
				i++
				if i < len(text) && text[i] == '\n' {
					i++
				}
			default:
				// the REVERSE SOLIDUS is ignored; the next byte is ordinary data (it is none of
				// the bytes with a meaning of their own, those are handled above)
			}
		default:
			val = append(val, c)
		}
	}
	return nil, 0, false
}

// c04CheckLiteral reads "[(" body ")/E]" with pad bytes of white space in front and compares
// with the expected string value; the name behind the string shows where the string ended.
func c04CheckLiteral(t *testing.T, kind string, body, want []byte, pad int, fails *int) {
	text := strings.Repeat(" ", pad) + "[(" + string(body) + ")/E]"
	s := newScanner(strings.NewReader(text), nil, nil)
	var got Object
	err := s.SkipWhiteSpace()
	if err == nil {
		got, err = s.ReadObject()
	}
	arr, _ := got.(Array)
	good := err == nil && len(arr) == 2 && arr[1] == Name("E")
	if good {
		str, ok := arr[0].(String)
		good = ok && bytes.Equal(str, want)
	}
	if !good {
		*fails++
		if *fails <= 25 {
			t.Errorf("B2-FAIL %s text=%q pad=%d want=%q got=%s err=%s", kind, "("+string(body)+")", pad, want, b2Short(got), b2ShortErr(err))
		}
	}
}

// TestB2C04LiteralStrings: all literal strings whose body has up to 6 (thorough: 8) bytes over
// the bytes that have a meaning inside a literal string, with the value given by c04RefLiteral.
func TestB2C04LiteralStrings(t *testing.T) {
	alphabet := []byte{'a', '\n', '\r', '\\', '(', ')', '1', 'n'}
	maxLen := 6
	if b2Thorough() {
		maxLen = 8
	}
	cases, fails := 0, 0
	body := make([]byte, 0, maxLen+4)
	var rec func(l int)
	rec = func(l int) {
		// a conforming spelling of a string: the string ends exactly at the parenthesis we add
		full := append(append([]byte{}, body...), ")/E]"...)
		if want, used, ok := c04RefLiteral(full); ok && used == len(body)+1 {
			cases++
			c04CheckLiteral(t, "literal-string", body, want, 0, &fails)
		}
		if l == maxLen {
			return
		}
		for _, c := range alphabet {
			body = append(body, c)
			rec(l + 1)
			body = body[:len(body)-1]
		}
	}
	rec(0)
	if fails > 25 {
		t.Errorf("B2-FAIL literal-string (%d further failures not listed)", fails-25)
	}
	t.Logf("B2-CASES %d", cases)
}

// c04SpellLiteral writes val as the body of a literal string, choosing at random among the
// conforming spellings of every byte: raw, named escape, octal escape with 1 to 3 digits, LF
// also as a raw CR or CR LF, parentheses raw where they balance; line continuations
// (REVERSE SOLIDUS + LF, CR or CR LF) are strewn in.
func c04SpellLiteral(rng *rand.Rand, val []byte) []byte {
	// parentheses that have a partner may stay unescaped (as whole pairs)
	raw := make([]bool, len(val))
	var stack []int
	for i, c := range val {
		if c == '(' {
			stack = append(stack, i)
		} else if c == ')' && len(stack) > 0 {
			j := stack[len(stack)-1]
			stack = stack[:len(stack)-1]
			if rng.Intn(3) > 0 {
				raw[i], raw[j] = true, true
			}
		}
	}
	var out []byte
	lastRawCR := false // a raw LF directly behind a raw CR would join it to one end-of-line marker
	emit := func(s string) {
		out = append(out, s...)
		lastRawCR = s[len(s)-1] == '\r'
	}
	octal := func(c byte, next byte, hasNext bool) {
		digits := 3
		if !hasNext || next < '0' || next > '9' {
			// fewer than three digits only when no digit follows
			digits = 1 + rng.Intn(3)
		}
		full := fmt.Sprintf("%03o", c)
		for digits < 3 && full[:3-digits] != strings.Repeat("0", 3-digits) {
			digits++
		}
		emit("\\" + full[3-digits:])
	}
	for i, c := range val {
		if rng.Intn(6) == 0 {
			emit([]string{"\\\n", "\\\r", "\\\r\n"}[rng.Intn(3)])
		}
		var next byte
		hasNext := i+1 < len(val)
		if hasNext {
			next = val[i+1]
		}
		named := map[byte]string{'\n': "\\n", '\r': "\\r", '\t': "\\t", '\b': "\\b", '\f': "\\f", '(': "\\(", ')': "\\)", '\\': "\\\\"}
		switch {
		case c == '\n':
			switch k := rng.Intn(6); {
			case k == 0 && !lastRawCR:
				emit("\n")
			case k == 1:
				emit("\r")
			case k == 2:
				emit("\r\n")
			case k == 3:
				octal(c, next, hasNext)
			case k == 4 && !lastRawCR:
				emit("\n")
			default:
				emit("\\n")
			}
		case c == '\r' || c == '\\':
			if rng.Intn(3) == 0 {
				octal(c, next, hasNext)
			} else {
				emit(named[c])
			}
		case c == '(' || c == ')':
			if raw[i] {
				emit(string([]byte{c}))
			} else if rng.Intn(4) == 0 {
				octal(c, next, hasNext)
			} else {
				emit(named[c])
			}
		default:
			switch k := rng.Intn(8); {
			case k == 0:
				octal(c, next, hasNext)
			case k == 1 && named[c] != "":
				emit(named[c])
			case k == 2 && strings.IndexByte("nrtbf()\\01234567\r\n", c) < 0:
				// a REVERSE SOLIDUS in front of any other character is ignored
				emit("\\" + string([]byte{c}))
			default:
				emit(string([]byte{c}))
			}
		}
	}
	// a raw LF that the caller appends is not our business: the string ends with ")"
	return out
}

// TestB2C04LiteralStringsRandom: random values (all byte values, multi-line text favoured) in
// random conforming spellings, at random positions relative to the scanner's buffer.
func TestB2C04LiteralStringsRandom(t *testing.T) {
	rng := rand.New(rand.NewSource(c01Seed()))
	rounds := 100000
	if b2Thorough() {
		rounds = 2000000
	}
	fails := 0
	special := []byte("\n\n\n\r\r()\\ \t0189anrtbf\x00\xff")
	for i := 0; i < rounds; i++ {
		n := rng.Intn(40)
		val := make([]byte, n)
		for j := range val {
			if rng.Intn(4) == 0 {
				val[j] = byte(rng.Intn(256))
			} else {
				val[j] = special[rng.Intn(len(special))]
			}
		}
		body := c04SpellLiteral(rng, val)
		// the independent decoder has to agree with the serialiser, else the harness is wrong
		ref, used, ok := c04RefLiteral(append(append([]byte{}, body...), ")/E]"...))
		if !ok || used != len(body)+1 || !bytes.Equal(ref, val) {
			t.Fatalf("harness: spelling %q of %q decodes to %q (%d of %d bytes)", body, val, ref, used, len(body)+1)
		}
		pad := 0
		switch rng.Intn(3) {
		case 1:
			pad = rng.Intn(1100)
		case 2:
			// the string crosses the end of the first buffer
			pad = 1024 - 2 - rng.Intn(len(body)+2)
		}
		c04CheckLiteral(t, "literal-string-random", body, val, pad, &fails)
	}
	if fails > 25 {
		t.Errorf("B2-FAIL literal-string-random (%d further failures not listed)", fails-25)
	}
	t.Logf("B2-CASES %d", rounds)
}

// ---- stream extents without a usable /Length, for every size ----

// c04IsSpace: the six white-space characters of ISO 32000-1 table 1.
func c04IsSpace(c byte) bool {
	return c == 0 || c == '\t' || c == '\n' || c == '\f' || c == '\r' || c == ' '
}

// c04StreamBody makes a stream body of n bytes that neither ends in CR/LF nor contains an
// end-of-line followed by "endstream", but does contain what comes close: CR, LF and CR LF,
// the keyword without an end-of-line in front, an end-of-line followed by a cut keyword.
func c04StreamBody(rng *rand.Rand, n int) []byte {
	body := make([]byte, n)
	letters := "abcdefghijklmnopqrstuvwxyz0123456789 "
	for i := range body {
		body[i] = letters[rng.Intn(len(letters))]
	}
	decoys := []string{"\n", "\r", "\r\n", "xendstream", " endstream ", "\nendstrea\n", "\rendstreaM", "\r\nendstrea", "\nendobj\n", "\nend", "e", "\ne"}
	for k := rng.Intn(4); k > 0 && n > 0; k-- {
		d := decoys[rng.Intn(len(decoys))]
		pos := rng.Intn(n)
		if rng.Intn(2) == 0 {
			pos = n - rng.Intn(min(n, 24)) - 1 // near the end, where the real keyword follows
		}
		copy(body[pos:], d)
	}
	// repair: no EOL + "endstream" inside, no CR/LF at the end, no white space at either end
	// (so that a wrong /Length of 0 or n-1 does not point at white space before the keyword)
	for {
		i := bytes.Index(body, []byte("endstream"))
		if i < 0 {
			break
		}
		if i > 0 && (body[i-1] == '\n' || body[i-1] == '\r') {
			body[i-1] = '_'
		}
		// keep the keyword itself, but do not find it again
		body[i] = 'E'
	}
	body = bytes.ReplaceAll(body, []byte("Endstream"), []byte("endstream"))
	for i := 0; i+9 < len(body); i++ {
		if (body[i] == '\n' || body[i] == '\r') && string(body[i+1:i+10]) == "endstream" {
			body[i] = '_'
		}
	}
	if n > 0 {
		if c04IsSpace(body[0]) {
			body[0] = 'S'
		}
		if c04IsSpace(body[n-1]) {
			body[n-1] = 'Z'
		}
	}
	return body
}

// TestB2C04StreamExtents: a stream whose /Length is missing, wrong (too small, too large,
// beyond the end of the file, negative, not a number, an indirect object with a wrong value)
// or unresolvable is delimited by the end-of-line before endstream.  Body lengths sweep over
// more than two scanner buffers, so that the end-of-line and the keyword lie at every
// position relative to the buffer; another stream follows, so that running past the keyword
// does not go unnoticed.
func TestB2C04StreamExtents(t *testing.T) {
	rng := rand.New(rand.NewSource(c01Seed()))
	maxLen := 2200
	if b2Thorough() {
		maxLen = 5200
	}
	lengths := []string{"", "/Length %SMALL%", "/Length %LARGE%", "/Length 1099511627776", "/Length -1", "/Length /None", "/Length 9 0 R", "/Length 5 0 R"}
	eols := []string{"\n", "\r\n", "\r"}
	cases, fails := 0, 0
	fail := func(format string, args ...any) {
		fails++
		if fails <= 25 {
			t.Errorf(format, args...)
		}
	}
	// the length of the dictionary varies with the seed and with the /Length entry; for a given
	// dictionary the sweep over n reaches every alignment
	fill := strings.Repeat("F", rng.Intn(40))
	for n := 0; n <= maxLen; n++ {
		body := c04StreamBody(rng, n)
		for _, lengthEntry := range lengths {
			for _, eol := range eols {
				var b bytes.Buffer
				off := map[int]int{}
				b.WriteString("%PDF-1.7\n%\xe2\xe3\xcf\xd3\n")
				off[1] = b.Len()
				b.WriteString("1 0 obj\n<</Type/Catalog/Pages 2 0 R>>\nendobj\n")
				off[2] = b.Len()
				b.WriteString("2 0 obj\n<</Type/Pages/Kids[]/Count 0>>\nendobj\n")
				off[3] = b.Len()
				head := fmt.Sprintf("3 0 obj\n<</Probe/%s%s>>\nstream\n", fill, lengthEntry)
				tail := eol + "endstream\nendobj\n"
				next := "4 0 obj\n<</Length 5>>\nstream\nother\nendstream\nendobj\n5 0 obj\n%WRONG%\nendobj\n"
				// wrong lengths must not point at (white space followed by) an endstream keyword:
				// the property excludes those, and the right length is not wrong
				after := string(body) + tail + next
				wrongLen := func(l int) int {
					for {
						p := l
						for p < len(after) && c04IsSpace(after[p]) {
							p++
						}
						if l != n && !strings.HasPrefix(after[p:], "endstream") {
							return l
						}
						l++
					}
				}
				small, large, wrong := 0, n+len(tail)+20, n+1+rng.Intn(30)
				if n > 0 {
					small = rng.Intn(n)
					if rng.Intn(3) == 0 {
						small = n - 1
					}
					if rng.Intn(2) == 0 {
						wrong = rng.Intn(n)
					}
				}
				small, large, wrong = wrongLen(small), wrongLen(large), wrongLen(wrong)
				head = strings.Replace(head, "%SMALL%", fmt.Sprint(small), 1)
				head = strings.Replace(head, "%LARGE%", fmt.Sprint(large), 1)
				next = strings.Replace(next, "%WRONG%", fmt.Sprint(wrong), 1)
				b.WriteString(head)
				b.Write(body)
				b.WriteString(tail)
				off[4] = b.Len()
				off[5] = off[4] + strings.Index(next, "5 0 obj")
				b.WriteString(next)
				xref := b.Len()
				b.WriteString("xref\n0 6\n0000000000 65535 f \n")
				for k := 1; k <= 5; k++ {
					fmt.Fprintf(&b, "%010d 00000 n \n", off[k])
				}
				fmt.Fprintf(&b, "trailer\n<</Size 6/Root 1 0 R>>\nstartxref\n%d\n%%%%EOF\n", xref)
				data := b.Bytes()
				cases++
				desc := fmt.Sprintf("n=%d length=%q eol=%q fill=%d", n, head[len("3 0 obj\n<</Probe/")+len(fill):len(head)-len(">>\nstream\n")], eol, len(fill))
				r, err := NewReader(bytes.NewReader(data), int64(len(data)), nil)
				if err != nil {
					fail("B2-FAIL file-open %s: %v", desc, err)
					continue
				}
				for _, probe := range []struct {
					num  uint32
					want []byte
				}{{3, body}, {4, []byte("other")}} {
					obj, err := r.Get(NewReference(probe.num, 0), true)
					stm, ok := obj.(*Stream)
					if err != nil || !ok {
						fail("B2-FAIL stream-recover %s obj=%d: %s %s", desc, probe.num, b2Short(obj), b2ShortErr(err))
						continue
					}
					rd, err := DecodeStream(r, nil, stm)
					if err != nil {
						fail("B2-FAIL stream-recover %s obj=%d: %s", desc, probe.num, b2ShortErr(err))
						continue
					}
					got, err := io.ReadAll(rd)
					if err != nil || !bytes.Equal(got, probe.want) {
						fail("B2-FAIL stream-extent %s obj=%d want %d bytes ...%.20q got %d bytes ...%.30q err=%s", desc, probe.num, len(probe.want), probe.want[max(0, len(probe.want)-20):], len(got), got[max(0, len(got)-30):], b2ShortErr(err))
					}
				}
			}
		}
	}
	if fails > 25 {
		t.Errorf("B2-FAIL stream-extent (%d further failures not listed)", fails-25)
	}
	t.Logf("B2-CASES %d", cases)
}
