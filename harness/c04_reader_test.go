package pdf

// B2 bounded checks for C04 (labelled bounded, never counted as proved): files and
// tokens are serialised by hand (not by the library's Writer) in many conforming
// ways; the oracle is the document they describe.

import (
	"bytes"
	"compress/zlib"
	"fmt"
	"io"
	"sort"
	"strings"
	"testing"
)

func TestB2C04Tokens(t *testing.T) {
	type tc struct {
		text string
		want Object
	}
	var cases []tc
	// white space and comments between tokens
	for _, ws := range []string{" ", "\x00", "\t", "\n", "\r", "\f", "\r\n", " %c\n", "%a\r%b\n ", "  \n\n"} {
		cases = append(cases,
			tc{"[1" + ws + "2]", Array{Integer(1), Integer(2)}},
			tc{"[/A" + ws + "/B]", Array{Name("A"), Name("B")}},
			tc{"<</K" + ws + "(v)" + ws + ">>", Dict{"K": String("v")}},
			tc{"[" + ws + "true" + ws + "null" + ws + "]", Array{Boolean(true), nil}},
			tc{"[3" + ws + "0" + ws + "R]", Array{NewReference(3, 0)}},
			tc{"<</A" + ws + "3" + ws + "1" + ws + "R/B" + ws + "4>>", Dict{"A": NewReference(3, 1), "B": Integer(4)}},
		)
	}
	// names
	cases = append(cases,
		tc{"/A#20B", Name("A B")}, tc{"/#23", Name("#")}, tc{"/A#42", Name("AB")}, tc{"/a#2fb", Name("a/b")}, tc{"/a#2Fb", Name("a/b")},
		tc{"/", Name("")}, tc{"/A#", Name("A#")}, tc{"/A#4", Name("A#4")}, tc{"/A#zz", Name("A#zz")}, tc{"/ä", Name("ä")}, tc{"/1.5", Name("1.5")},
		tc{"[/A#42/B]", Array{Name("AB"), Name("B")}}, tc{"[/A#42]", Array{Name("AB")}},
	)
	// literal strings
	cases = append(cases,
		tc{"(a(b)c)", String("a(b)c")}, tc{`(a\(b)`, String("a(b")}, tc{`(a\)b)`, String("a)b")}, tc{`(\n\r\t\b\f\\)`, String("\n\r\t\b\f\\")},
		tc{`(\101\1012\7)`, String("AA2\x07")}, tc{`(\0053)`, String("\x053")}, tc{`(\53)`, String("+")}, tc{`(\5)`, String("\x05")}, tc{`(\400)`, String("\x00")},
		tc{"(a\\\nb)", String("ab")}, tc{"(a\\\r\nb)", String("ab")}, tc{"(a\\\rb)", String("ab")},
		tc{"(a\rb)", String("a\nb")}, tc{"(a\r\nb)", String("a\nb")}, tc{"(a\nb)", String("a\nb")}, tc{`(\q)`, String("q")}, tc{"()", String(nil)},
		tc{"(((())))", String("((()))")},
	)
	// hex strings
	cases = append(cases,
		tc{"<4142>", String("AB")}, tc{"<41 42>", String("AB")}, tc{"<4 1\n4\r2>", String("AB")}, tc{"<414>", String("A@")}, tc{"<aBcD>", String("\xab\xcd")}, tc{"<>", String(nil)},
	)
	// numbers
	cases = append(cases,
		tc{"[1 -1 +1 0 007 1. .5 -.5 +.5 4.50 -0]", Array{Integer(1), Integer(-1), Integer(1), Integer(0), Integer(7), Real(1), Real(.5), Real(-.5), Real(.5), Real(4.5), Integer(0)}},
		tc{"[9223372036854775807 -9223372036854775808]", Array{Integer(9223372036854775807), Integer(-9223372036854775808)}},
	)
	// nesting and adjacency without white space
	cases = append(cases,
		tc{"[[1][2]<</A[3]>>(s)<41>/N]", Array{Array{Integer(1)}, Array{Integer(2)}, Dict{"A": Array{Integer(3)}}, String("s"), String("A"), Name("N")}},
		tc{"<</A<</B<</C/D>>>>>>", Dict{"A": Dict{"B": Dict{"C": Name("D")}}}},
		tc{"<</A<41>>>", Dict{"A": String("A")}},
		tc{"[1 2 R 3]", Array{NewReference(1, 2), Integer(3)}}, tc{"[1 2 3 R]", Array{Integer(1), NewReference(2, 3)}},
		tc{"<</A null/B 1>>", Dict{"A": nil, "B": Integer(1)}},
	)
	n := 0
	for _, c := range cases {
		// the text is also padded so that it crosses the scanner's 1024-byte buffer at every offset of interest
		pads := []int{0}
		if b2Thorough() {
			for p := 1024 - len(c.text) - 2; p <= 1024+1; p++ {
				if p > 0 {
					pads = append(pads, p)
				}
			}
		} else {
			for _, p := range []int{1024 - len(c.text), 1024 - len(c.text)/2 - 1, 1022, 1023} {
				if p > 0 {
					pads = append(pads, p)
				}
			}
		}
		for _, pad := range pads {
			n++
			text := strings.Repeat(" ", pad) + c.text
			s := newScanner(strings.NewReader(text), nil, nil)
			if err := s.SkipWhiteSpace(); err != nil {
				t.Errorf("B2-FAIL token-ws %q: %v", c.text, err)
				continue
			}
			got, err := s.ReadObject()
			if err != nil || !Equal(got, c.want) {
				key := b2Key("token", c.want)
				t.Errorf("B2-FAIL %s text=%q pad=%d want=%#v got=%#v err=%v", key, c.text, pad, c.want, got, err)
			}
		}
	}
	t.Logf("B2-CASES %d", n)
}

// ---- whole files ----

type c04Rev struct {
	objs     map[uint32]string // object number -> body text (generation 0 unless gens says otherwise)
	gens     map[uint32]uint16
	free     []uint32
	xrefStm  bool   // write the section as a cross-reference stream
	w        [3]int // field widths for the stream
	split    bool   // classic table: one subsection per run, numbers in ascending order; stream: /Index
	trailer  string // extra trailer entries
	hybridTo bool   // classic table that also carries /XRefStm (hybrid), hiding odd objects in the stream
}

type c04File struct {
	data []byte
	want map[Reference]string // expected AsString of the object, "" = null
	last string               // expected trailer marker
}

func c04Build(preamble, eol string, revs []c04Rev) *c04File {
	var b bytes.Buffer
	b.WriteString(preamble)
	hdr := b.Len()
	b.WriteString("%PDF-1.7" + eol + "%\xe2\xe3\xcf\xd3" + eol)
	state := map[uint32]string{}
	gen := map[uint32]uint16{}
	prev := -1
	maxNum := uint32(0)
	for ri, rev := range revs {
		type ent struct {
			kind byte
			pos  int
			gen  uint16
		}
		ents := map[uint32]ent{}
		nums := []uint32{}
		for n := range rev.objs {
			nums = append(nums, n)
		}
		sort.Slice(nums, func(i, j int) bool { return nums[i] < nums[j] })
		for _, n := range nums {
			g := rev.gens[n]
			ents[n] = ent{'n', b.Len() - hdr, g}
			fmt.Fprintf(&b, "%d %d obj%s%s%sendobj%s", n, g, eol, rev.objs[n], eol, eol)
			state[n] = rev.objs[n]
			gen[n] = g
			if n > maxNum {
				maxNum = n
			}
		}
		for _, n := range rev.free {
			ents[n] = ent{'f', 0, gen[n] + 1}
			delete(state, n)
			gen[n] = gen[n] + 1
			if n > maxNum {
				maxNum = n
			}
		}
		if ri == 0 {
			ents[0] = ent{'f', 0, 65535}
		}
		all := []uint32{}
		for n := range ents {
			all = append(all, n)
		}
		sort.Slice(all, func(i, j int) bool { return all[i] < all[j] })
		size := maxNum + 1
		xrefPos := b.Len() - hdr
		trailer := fmt.Sprintf("/Size %d /Root 1 0 R /Rev %d %s", size, ri, rev.trailer)
		if prev >= 0 {
			trailer += fmt.Sprintf(" /Prev %d", prev)
		}
		if rev.xrefStm {
			num := size
			size++
			trailer = fmt.Sprintf("/Size %d /Root 1 0 R /Rev %d %s", size, ri, rev.trailer)
			if prev >= 0 {
				trailer += fmt.Sprintf(" /Prev %d", prev)
			}
			ents[num] = ent{'n', xrefPos, 0}
			all = append(all, num)
			state[num] = "<xref stream>"
			w := rev.w
			var rows bytes.Buffer
			field := func(v int, width int) {
				for k := width - 1; k >= 0; k-- {
					rows.WriteByte(byte(v >> (8 * k)))
				}
			}
			var index []string
			emit := func(n uint32) {
				e := ents[n]
				tp := 1
				if e.kind == 'f' {
					tp = 0
				}
				field(tp, w[0])
				field(e.pos, w[1])
				field(int(e.gen), w[2])
			}
			if rev.split {
				// one /Index pair per run of consecutive numbers
				for i := 0; i < len(all); {
					j := i
					for j+1 < len(all) && all[j+1] == all[j]+1 {
						j++
					}
					index = append(index, fmt.Sprintf("%d %d", all[i], j-i+1))
					for k := i; k <= j; k++ {
						emit(all[k])
					}
					i = j + 1
				}
			} else {
				for n := uint32(0); n < size; n++ {
					if _, ok := ents[n]; !ok {
						ents[n] = ent{'f', 0, 0}
						if old, ok := state[n]; ok {
							_ = old
						}
					}
				}
				// without /Index every number below /Size needs a row: numbers not touched by this
				// revision repeat their previous entry, so we only use this form in the first revision
				for n := uint32(0); n < size; n++ {
					emit(n)
				}
			}
			var z bytes.Buffer
			zw := zlib.NewWriter(&z)
			zw.Write(rows.Bytes())
			zw.Close()
			idx := ""
			if rev.split {
				idx = "/Index [" + strings.Join(index, " ") + "]"
			}
			fmt.Fprintf(&b, "%d 0 obj%s<</Type/XRef %s /W [%d %d %d] %s /Filter/FlateDecode /Length %d>>%sstream\n", num, eol, trailer, w[0], w[1], w[2], idx, z.Len(), eol)
			b.Write(z.Bytes())
			b.WriteString(eol + "endstream" + eol + "endobj" + eol)
			maxNum = num
		} else {
			if rev.hybridTo {
				// hybrid file: objects with numbers >= 5 are listed only in a cross-reference
				// stream that the classic trailer points to with /XRefStm
				num := size
				size++
				trailer = fmt.Sprintf("/Size %d /Root 1 0 R /Rev %d %s", size, ri, rev.trailer)
				if prev >= 0 {
					trailer += fmt.Sprintf(" /Prev %d", prev)
				}
				var rows bytes.Buffer
				var index []string
				var visible []uint32
				for _, n := range all {
					if n < 5 {
						visible = append(visible, n)
						continue
					}
					e := ents[n]
					tp := byte(1)
					if e.kind == 'f' {
						tp = 0
					}
					rows.Write([]byte{tp, byte(e.pos >> 16), byte(e.pos >> 8), byte(e.pos), byte(e.gen)})
					index = append(index, fmt.Sprintf("%d 1", n))
				}
				stmPos := b.Len() - hdr
				fmt.Fprintf(&b, "%d 0 obj%s<</Type/XRef /Size %d /W [1 3 1] /Index [%s] /Length %d>>%sstream\n", num, eol, size, strings.Join(index, " "), rows.Len(), eol)
				b.Write(rows.Bytes())
				b.WriteString(eol + "endstream" + eol + "endobj" + eol)
				ents[num] = ent{'n', stmPos, 0}
				visible = append(visible, num)
				state[num] = "<xref stream>"
				maxNum = num
				all = visible
				sort.Slice(all, func(i, j int) bool { return all[i] < all[j] })
				trailer += fmt.Sprintf(" /XRefStm %d", stmPos)
				xrefPos = b.Len() - hdr
			}
			b.WriteString("xref" + eol)
			line := func(n uint32) {
				e := ents[n]
				if e.kind == 'n' {
					fmt.Fprintf(&b, "%010d %05d n\r\n", e.pos, e.gen)
				} else {
					fmt.Fprintf(&b, "%010d %05d f\r\n", 0, e.gen)
				}
			}
			for i := 0; i < len(all); {
				j := i
				for j+1 < len(all) && all[j+1] == all[j]+1 {
					j++
				}
				fmt.Fprintf(&b, "%d %d%s", all[i], j-i+1, eol)
				for k := i; k <= j; k++ {
					line(all[k])
				}
				i = j + 1
			}
			fmt.Fprintf(&b, "trailer%s<<%s>>%s", eol, trailer, eol)
		}
		fmt.Fprintf(&b, "startxref%s%d%s%%%%EOF%s", eol, xrefPos, eol, eol)
		prev = xrefPos
	}
	f := &c04File{data: b.Bytes(), want: map[Reference]string{}}
	for n := uint32(1); n <= maxNum+1; n++ {
		if state[n] == "<xref stream>" {
			continue
		}
		if body, ok := state[n]; ok {
			f.want[NewReference(n, gen[n])] = body
			f.want[NewReference(n, gen[n]+1)] = "" // generation mismatch
		} else {
			f.want[NewReference(n, gen[n])] = ""
			if gen[n] > 0 {
				// the generation the object had before it was freed reads as null, too
				f.want[NewReference(n, gen[n]-1)] = ""
			}
		}
	}
	f.last = fmt.Sprintf("%d", len(revs)-1)
	return f
}

func c04Check(t *testing.T, desc string, f *c04File) {
	r, err := NewReader(bytes.NewReader(f.data), int64(len(f.data)), nil)
	if err != nil {
		t.Errorf("B2-FAIL file-open %s: %v", desc, err)
		return
	}
	for ref, body := range f.want {
		got, err := r.Get(ref, true)
		if err != nil {
			t.Errorf("B2-FAIL file-get %s ref=%v: %v", desc, ref, err)
			continue
		}
		if body == "" {
			if got != nil {
				t.Errorf("B2-FAIL file-null %s ref=%v got=%#v", desc, ref, got)
			}
			continue
		}
		if i := strings.Index(body, "\nstream"); i >= 0 {
			body = body[:i]
		}
		s := newScanner(strings.NewReader(body), nil, nil)
		want, perr := s.ReadObject()
		if perr != nil {
			t.Fatalf("harness: cannot parse expected body %q: %v", body, perr)
		}
		if stm, ok := got.(*Stream); ok {
			got = stm.Dict
			if d, ok := want.(Dict); ok {
				delete(d, "Length")
			}
		}
		if !Equal(got, want) {
			t.Errorf("B2-FAIL file-value %s ref=%v want=%s got=%#v", desc, ref, body, got)
		}
	}
}

func TestB2C04Files(t *testing.T) {
	cat := "<</Type/Catalog/Pages 2 0 R>>"
	pages := "<</Type/Pages/Kids[]/Count 0>>"
	base := map[uint32]string{1: cat, 2: pages, 3: "(three)", 4: "[4 4]", 5: "<</Five 5>>", 7: "/Seven"}
	n := 0
	for _, pre := range []string{"", "x", "HTTP/1.1 200 OK\r\n\r\n", strings.Repeat("junk\n", 150)} {
		for _, eol := range []string{"\n", "\r\n", "\r"} {
			for variant := 0; variant < 11; variant++ {
				var revs []c04Rev
				switch variant {
				case 0:
					revs = []c04Rev{{objs: base}}
				case 1:
					revs = []c04Rev{{objs: base, xrefStm: true, w: [3]int{1, 2, 1}}}
				case 2:
					revs = []c04Rev{{objs: base, xrefStm: true, w: [3]int{1, 3, 2}, split: true}}
				case 3:
					revs = []c04Rev{{objs: base}, {objs: map[uint32]string{3: "(three, second)", 9: "9"}, free: []uint32{4}}}
				case 4:
					revs = []c04Rev{{objs: base}, {objs: map[uint32]string{3: "(3b)"}}, {objs: map[uint32]string{3: "(3c)", 5: "null"}, free: []uint32{7}}}
				case 5:
					revs = []c04Rev{{objs: base, xrefStm: true, w: [3]int{1, 2, 2}, split: true}, {objs: map[uint32]string{4: "(4b)", 10: "true"}, xrefStm: true, w: [3]int{0, 4, 0}, split: true}}
				case 6:
					revs = []c04Rev{{objs: base}, {objs: map[uint32]string{4: "(revived)"}, gens: map[uint32]uint16{4: 0}, free: nil}, {free: []uint32{4}}, {objs: map[uint32]string{4: "(again)"}, gens: map[uint32]uint16{4: 1}}}
				case 8:
					revs = []c04Rev{{objs: base, hybridTo: true}}
				case 9:
					revs = []c04Rev{{objs: base}, {objs: map[uint32]string{3: "(3 hybrid)", 7: "(7 hidden)", 12: "12"}, hybridTo: true}}
				case 10:
					// an object with generation 65534 is freed by a cross-reference stream: the free
					// entry carries generation 65535
					revs = []c04Rev{{objs: base, gens: map[uint32]uint16{7: 65534}, xrefStm: true, w: [3]int{1, 2, 2}}, {free: []uint32{7}, xrefStm: true, w: [3]int{1, 2, 2}, split: true}}
				case 7:
					// streams whose /Length is missing, wrong or an unresolvable reference
					revs = []c04Rev{{objs: map[uint32]string{1: cat, 2: pages,
						3:  "<</S 1>>\nstream\nabc\ndef\nendstream",
						4:  "<</S 2/Length 999>>\nstream\nabc\r\nendstream",
						5:  "<</S 3/Length 77 0 R>>\nstream\nabcendstream xyz\nendstream",
						6:  "<</S 4/Length 2>>\nstream\nabcdef\nendstream",
						8:  "<</S 5/Length 0>>\nstream\nendstream",
						9:  "(after the empty stream)",
						10: "<</S 6/Length 0>>\nstream\n\nendstream"}}}
				}
				n++
				f := c04Build(pre, eol, revs)
				desc := fmt.Sprintf("pre=%d eol=%q variant=%d", len(pre), eol, variant)
				c04Check(t, desc, f)
				if variant == 7 {
					c04StreamData(t, desc, f)
				}
			}
		}
	}
	t.Logf("B2-CASES %d", n)
}

func c04StreamData(t *testing.T, desc string, f *c04File) {
	r, err := NewReader(bytes.NewReader(f.data), int64(len(f.data)), nil)
	if err != nil {
		return
	}
	want := map[uint32]string{3: "abc\ndef", 4: "abc", 5: "abcendstream xyz", 6: "abcdef", 8: "", 10: ""}
	for n, w := range want {
		obj, err := r.Get(NewReference(n, 0), true)
		stm, ok := obj.(*Stream)
		if err != nil || !ok {
			t.Errorf("B2-FAIL stream-recover %s obj=%d: %v %v", desc, n, obj, err)
			continue
		}
		rd, err := DecodeStream(r, nil, stm)
		if err != nil {
			t.Errorf("B2-FAIL stream-recover %s obj=%d: %v", desc, n, err)
			continue
		}
		data, err := io.ReadAll(rd)
		if err != nil || string(data) != w {
			t.Errorf("B2-FAIL stream-extent %s obj=%d want=%q got=%q err=%v", desc, n, w, data, err)
		}
	}
}

// TestB2C04ObjStmLayouts: an object stream may put its first object directly behind the
// offset table (no white space), after a space or after an end-of-line.
func TestB2C04ObjStmLayouts(t *testing.T) {
	cases := 0
	for _, sep := range []string{"", " ", "\n", "\r\n  "} {
		for _, first := range []string{"<</K(v)>>", "[1 2]", "(str)", "/Name", "true", "42"} {
			cases++
			if sep == "" && (first == "true" || first == "42" || first == "/Name") {
				// a token that would merge with the last offset needs a separator
				if first != "/Name" {
					continue
				}
			}
			head := "3 0" + sep
			body := head + first
			var b bytes.Buffer
			off := map[int]int{}
			b.WriteString("%PDF-1.7\n")
			off[1] = b.Len()
			b.WriteString("1 0 obj\n<</Type/Catalog/Pages 2 0 R>>\nendobj\n")
			off[2] = b.Len()
			b.WriteString("2 0 obj\n<</Type/Pages/Kids[]/Count 0>>\nendobj\n")
			off[4] = b.Len()
			fmt.Fprintf(&b, "4 0 obj\n<</Type/ObjStm/N 1/First %d/Length %d>>\nstream\n%s\nendstream\nendobj\n", len(head), len(body), body)
			off[5] = b.Len()
			var x bytes.Buffer
			x.Write([]byte{0, 0, 0, 255})
			x.Write([]byte{1, byte(off[1] >> 8), byte(off[1]), 0})
			x.Write([]byte{1, byte(off[2] >> 8), byte(off[2]), 0})
			x.Write([]byte{2, 0, 4, 0})
			x.Write([]byte{1, byte(off[4] >> 8), byte(off[4]), 0})
			x.Write([]byte{1, byte(off[5] >> 8), byte(off[5]), 0})
			fmt.Fprintf(&b, "5 0 obj\n<</Type/XRef/Size 6/W[1 2 1]/Root 1 0 R/Length %d>>\nstream\n", x.Len())
			b.Write(x.Bytes())
			fmt.Fprintf(&b, "\nendstream\nendobj\nstartxref\n%d\n%%%%EOF\n", off[5])
			r, err := NewReader(bytes.NewReader(b.Bytes()), int64(b.Len()), nil)
			if err != nil {
				t.Errorf("B2-FAIL objstm-layout sep=%q first=%q: open: %v", sep, first, err)
				continue
			}
			got, err := r.Get(NewReference(3, 0), true)
			want, _ := b2ParseOne([]byte(first))
			if err != nil || !Equal(got, want) {
				t.Errorf("B2-FAIL objstm-layout sep=%q first=%q: got %v (%v)", sep, first, AsString(got), err)
			}
		}
	}
	t.Logf("B2-CASES %d", cases)
}
