//go:build verif

// Contracts for package content, checked by /verif/bin/gocv (see /verif/DESIGN.md).
// This file contains comments only.

package content

//@ package seehuhn.de/go/pdf/graphics/content

// ---- the content stream scanner never indexes outside its buffer (C05, C15) ----
// Representation invariant of the look-ahead buffer: 0 <= pos <= used <= len(buf), with a
// source to refill from.  Every buffer primitive keeps it; the token readers built on them
// are then panic-free for arbitrary input bytes.
//@ pred cs(s *scanner) = s.src != nil && 0 <= s.pos && s.pos <= s.used && s.used <= len(s.buf) && len(s.buf) >= 16
// kept: no refill happened (the buffered bytes are where they were); holds whenever enough
// bytes were buffered already
//@ pred kept(s *scanner) = s.used == old(s.used) && forall i in 0..len(s.buf) :: s.buf[i] == old(s.buf[i])

//@ func (*scanner).refill (s) (err)
//@   tags C05 C15
//@   requires cs(s)
//@   assigns s.pos, s.used, s.err, elems(s.buf), s.src.rdpos
//@   ensures cs(s) && s.buf == old(s.buf) && s.src == old(s.src)
//@   ensures s.used - s.pos >= old(s.used - s.pos)

//@ func (*scanner).Peek (s) (b, err)
//@   tags C05 C15
//@   requires cs(s)
//@   assigns s.pos, s.used, s.err, elems(s.buf), s.src.rdpos
//@   ensures cs(s) && s.buf == old(s.buf) && s.src == old(s.src)
//@   ensures err == nil ==> s.pos < s.used && b == s.buf[s.pos]
//@   ensures old(s.pos < s.used) ==> err == nil && s.pos == old(s.pos) && kept(s)
//@   loop 1: invariant cs(s) && s.buf == old(s.buf) && s.src == old(s.src)
//@   loop 1: invariant old(s.pos < s.used) ==> s.pos == old(s.pos) && kept(s)

//@ func (*scanner).PeekN (s, n) (view)
//@   tags C05 C15
//@   requires cs(s) && 0 <= n && n <= 16
//@   assigns s.pos, s.used, s.err, elems(s.buf), s.src.rdpos
//@   ensures cs(s) && s.buf == old(s.buf) && s.src == old(s.src)
//@   ensures 0 <= len(view) && len(view) == min(n, s.used - s.pos)
//@   ensures old(s.pos + n <= s.used) ==> s.pos == old(s.pos) && kept(s)
//@   ensures refof(view) == refof(s.buf) && offof(view) == offof(s.buf) + s.pos
//@   loop 1: invariant cs(s) && s.buf == old(s.buf) && s.src == old(s.src)
//@   loop 1: invariant old(s.pos + n <= s.used) ==> s.pos == old(s.pos) && kept(s)

//@ func (*scanner).ReadByte (s) (b, err)
//@   tags C05 C15
//@   requires cs(s)
//@   assigns s.pos, s.used, s.err, elems(s.buf), s.src.rdpos, s.Line, s.Col, s.crSeen
//@   ensures cs(s) && s.buf == old(s.buf) && s.src == old(s.src)
//@   ensures old(s.pos < s.used) ==> err == nil && s.pos == old(s.pos) + 1 && kept(s)

//@ func (*scanner).SkipByte (s) ()
//@   tags C05 C15
//@   requires cs(s)
//@   assigns s.pos, s.used, s.err, elems(s.buf), s.src.rdpos, s.Line, s.Col, s.crSeen
//@   ensures cs(s) && s.buf == old(s.buf) && s.src == old(s.src)

//@ func (*scanner).SkipN (s, n) ()
//@   tags C05 C15
//@   requires cs(s)
//@   assigns s.pos, s.used, s.err, elems(s.buf), s.src.rdpos, s.Line, s.Col, s.crSeen
//@   ensures cs(s) && s.buf == old(s.buf) && s.src == old(s.src)
//@   ensures old(0 <= n && n <= s.used - s.pos) ==> s.pos == old(s.pos) + n && kept(s)
//@   loop 1: invariant cs(s) && s.buf == old(s.buf) && s.src == old(s.src)
//@   loop 1: invariant old(0 <= n && n <= s.used - s.pos) ==> s.pos == old(s.pos) + \done && kept(s)

// ---- token readers: panic-free for arbitrary bytes ----
//@ func hexDigit (c) (d)
//@   tags C05 C15
//@   pure
//@   ensures d == 255 || d <= 15
//@   ensures isHex(c) ==> d == hexVal(c)
//@   ensures !isHex(c) ==> d == 255

//@ func (*scanner).LookingAt (s, str) (ok)
//@   tags C05 C15
//@   requires cs(s) && len(str) <= 16
//@   assigns s.pos, s.used, s.err, elems(s.buf), s.src.rdpos
//@   ensures cs(s) && s.buf == old(s.buf) && s.src == old(s.src)

//@ func (*scanner).SkipString (s, pat) (err)
//@   tags C05 C15
//@   requires cs(s) && len(pat) <= 16
//@   assigns s.pos, s.used, s.err, elems(s.buf), s.src.rdpos, s.Line, s.Col, s.crSeen
//@   ensures cs(s) && s.buf == old(s.buf) && s.src == old(s.src)

//@ func (*scanner).SkipToEOL (s) ()
//@   tags C05 C15
//@   requires cs(s)
//@   assigns s.pos, s.used, s.err, elems(s.buf), s.src.rdpos, s.Line, s.Col, s.crSeen
//@   ensures cs(s) && s.buf == old(s.buf) && s.src == old(s.src)
//@   loop 1: invariant cs(s) && s.buf == old(s.buf) && s.src == old(s.src)

//@ func (*scanner).SkipWhiteSpace (s) (err)
//@   tags C05 C15
//@   requires cs(s)
//@   assigns s.pos, s.used, s.err, elems(s.buf), s.src.rdpos, s.Line, s.Col, s.crSeen
//@   ensures cs(s) && s.buf == old(s.buf) && s.src == old(s.src)
//@   loop 1: invariant cs(s) && s.buf == old(s.buf) && s.src == old(s.src)

//@ func (*scanner).skipWhiteSpaceExceptComments (s) (err)
//@   tags C05 C15
//@   requires cs(s)
//@   assigns s.pos, s.used, s.err, elems(s.buf), s.src.rdpos, s.Line, s.Col, s.crSeen
//@   ensures cs(s) && s.buf == old(s.buf) && s.src == old(s.src)
//@   loop 1: invariant cs(s) && s.buf == old(s.buf) && s.src == old(s.src)

//@ func (*scanner).checkEI (s) (ok)
//@   tags C05 C15
//@   requires cs(s)
//@   assigns s.pos, s.used, s.err, elems(s.buf), s.src.rdpos
//@   ensures cs(s) && s.buf == old(s.buf) && s.src == old(s.src)

// a '#' followed by any two hexadecimal digits is an escape (7.3.5), whatever its value
//@ func (*scanner).tryHex (s) (b, ok)
//@   tags C05 C15
//@   requires cs(s)
//@   assigns s.pos, s.used, s.err, elems(s.buf), s.src.rdpos, s.Line, s.Col, s.crSeen
//@   ensures cs(s) && s.buf == old(s.buf) && s.src == old(s.src)
//@   ensures !ok ==> s.used - s.pos < 3 || !isHex(s.buf[s.pos + 1]) || !isHex(s.buf[s.pos + 2])
//@   ensures ok ==> s.pos >= 3 && isHex(s.buf[s.pos - 2]) && isHex(s.buf[s.pos - 1]) && b == 16 * hexVal(s.buf[s.pos - 2]) + hexVal(s.buf[s.pos - 1])

//@ func (*scanner).ReadComment (s) (c, err)
//@   tags C05 C15
//@   requires cs(s)
//@   assigns s.pos, s.used, s.err, elems(s.buf), s.src.rdpos, s.Line, s.Col, s.crSeen
//@   ensures cs(s) && s.buf == old(s.buf) && s.src == old(s.src)
//@   loop 1: invariant cs(s) && s.buf == old(s.buf) && s.src == old(s.src)

//@ func (*scanner).ReadName (s) (name, err)
//@   tags C05 C15
//@   requires cs(s)
//@   assigns s.pos, s.used, s.err, elems(s.buf), s.src.rdpos, s.Line, s.Col, s.crSeen
//@   ensures cs(s) && s.buf == old(s.buf) && s.src == old(s.src)
//@   loop 1: invariant cs(s) && s.buf == old(s.buf) && s.src == old(s.src)

//@ func (*scanner).ReadHexString (s) (str, err)
//@   tags C05 C15
//@   requires cs(s)
//@   assigns s.pos, s.used, s.err, elems(s.buf), s.src.rdpos, s.Line, s.Col, s.crSeen
//@   ensures cs(s) && s.buf == old(s.buf) && s.src == old(s.src)
//@   loop 1: invariant cs(s) && s.buf == old(s.buf) && s.src == old(s.src)

//@ func (*scanner).ReadString (s) (str, err)
//@   tags C05 C15
//@   requires cs(s)
//@   assigns s.pos, s.used, s.err, elems(s.buf), s.src.rdpos, s.Line, s.Col, s.crSeen
//@   ensures cs(s) && s.buf == old(s.buf) && s.src == old(s.src)
//@   loop 1: invariant cs(s) && s.buf == old(s.buf) && s.src == old(s.src)
//@   loop 2: invariant cs(s) && s.buf == old(s.buf) && s.src == old(s.src)

//@ func parseNumber (b) (x)
//@   trusted
//@   pure

//@ func (*scanner).ScanToken (s) (tok, err)
//@   tags C05 C15
//@   requires cs(s)
//@   assigns *
//@   ensures cs(s) && s.buf == old(s.buf) && s.src == old(s.src)
//@   loop 1: invariant cs(s) && s.buf == old(s.buf) && s.src == old(s.src) && len(s.tokenBuf) >= 1

//@ func (*scanner).readValue (s) (obj, err)
//@   tags C05 C15
//@   requires cs(s)
//@   assigns *
//@   ensures cs(s) && s.buf == old(s.buf) && s.src == old(s.src)

// recursion through arrays and dictionaries is bounded by maxValueDepth = 10: the variants
// below decrease at every recursive call (readValueDepth -> readValueDepth / readDictBody ->
// readValueDepth), so the nesting of calls never exceeds 2 * 11 + 1 frames (C05)
//@ func (*scanner).readValueDepth (s, depth) (obj, err)
//@   tags C05 C15
//@   requires cs(s) && 0 <= depth && depth <= 10
//@   variant 2 * (11 - depth)
//@   assigns *
//@   ensures cs(s) && s.buf == old(s.buf) && s.src == old(s.src)
//@   loop 1: invariant cs(s) && s.buf == old(s.buf) && s.src == old(s.src)

//@ func (*scanner).readDictBody (s, term, valueDepth) (d, err)
//@   tags C05 C15
//@   requires cs(s) && len(term) <= 16 && 0 <= valueDepth && valueDepth <= 10
//@   variant 2 * (11 - valueDepth) + 1
//@   assigns *
//@   ensures cs(s) && s.buf == old(s.buf) && s.src == old(s.src)
//@   loop 1: invariant cs(s) && s.buf == old(s.buf) && s.src == old(s.src)

//@ func getInlineImageInt (d, a, b) (n)
//@   trusted
//@   pure

//@ func getInlineImageFilter (d) (f)
//@   trusted
//@   pure

//@ func isASCIIFilter (f) (ok)
//@   trusted
//@   pure

//@ func (*scanner).readInlineImage (s) (op, err)
//@   tags C05 C15
//@   requires cs(s)
//@   assigns *
//@   ensures cs(s) && s.buf == old(s.buf) && s.src == old(s.src)
//@   loop 1: invariant cs(s) && s.buf == old(s.buf) && s.src == old(s.src)
//@   loop 2: invariant cs(s) && s.buf == old(s.buf) && s.src == old(s.src)
