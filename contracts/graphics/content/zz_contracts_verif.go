//go:build verif

// Contracts for package content, checked by /verif/bin/gocv (see /verif/DESIGN.md).
// This file contains comments only.

package content

//@ package seehuhn.de/go/pdf/graphics/content

// ---- the content stream scanner never indexes outside its buffer (C05, C15) ----
// Representation invariant of the look-ahead buffer: 0 <= pos <= used <= len(buf), with a
// source to refill from.  Every buffer primitive keeps it; the token readers built on them
// are then panic-free for arbitrary input bytes.
//@ pred cs(s *scanner) = s.src != nil && 0 <= s.pos && s.pos <= s.used && s.used <= len(s.buf) && len(s.buf) >= 16

//@ func (*scanner).refill (s) (err)
//@   tags C05 C15
//@   requires cs(s)
//@   assigns s.pos, s.used, s.err, elems(s.buf), s.src.rdpos
//@   ensures cs(s) && s.buf == old(s.buf) && s.src == old(s.src)
//@   ensures s.used - s.pos >= old(s.used - s.pos)

//@ func (*scanner).Peek (s) (b, err)
//@   tags C05 C15
//@   requires cs(s)
//@   assigns s.pos, s.used, s.err, elems(s.buf), s.src.rdpos
//@   ensures cs(s) && s.buf == old(s.buf) && s.src == old(s.src)
//@   ensures err == nil ==> s.pos < s.used && b == s.buf[s.pos]
//@   loop 1: invariant cs(s) && s.buf == old(s.buf) && s.src == old(s.src)

//@ func (*scanner).PeekN (s, n) (view)
//@   tags C05 C15
//@   requires cs(s) && 0 <= n && n <= 16
//@   assigns s.pos, s.used, s.err, elems(s.buf), s.src.rdpos
//@   ensures cs(s) && s.buf == old(s.buf) && s.src == old(s.src)
//@   ensures 0 <= len(view) && len(view) <= n && len(view) <= s.used - s.pos
//@   ensures refof(view) == refof(s.buf) && offof(view) == offof(s.buf) + s.pos
//@   loop 1: invariant cs(s) && s.buf == old(s.buf) && s.src == old(s.src)

//@ func (*scanner).ReadByte (s) (b, err)
//@   tags C05 C15
//@   requires cs(s)
//@   assigns s.pos, s.used, s.err, elems(s.buf), s.src.rdpos, s.Line, s.Col, s.crSeen
//@   ensures cs(s) && s.buf == old(s.buf) && s.src == old(s.src)

//@ func (*scanner).SkipByte (s) ()
//@   tags C05 C15
//@   requires cs(s)
//@   assigns s.pos, s.used, s.err, elems(s.buf), s.src.rdpos, s.Line, s.Col, s.crSeen
//@   ensures cs(s) && s.buf == old(s.buf) && s.src == old(s.src)

//@ func (*scanner).SkipN (s, n) ()
//@   tags C05 C15
//@   requires cs(s)
//@   assigns s.pos, s.used, s.err, elems(s.buf), s.src.rdpos, s.Line, s.Col, s.crSeen
//@   ensures cs(s) && s.buf == old(s.buf) && s.src == old(s.src)
//@   loop 1: invariant cs(s) && s.buf == old(s.buf) && s.src == old(s.src)

// ---- token readers: panic-free for arbitrary bytes ----
//@ func hexDigit (c) (d)
//@   tags C05 C15
//@   pure
//@   ensures d == 255 || d <= 15

//@ func (*scanner).LookingAt (s, str) (ok)
//@   tags C05 C15
//@   requires cs(s) && len(str) <= 16
//@   assigns s.pos, s.used, s.err, elems(s.buf), s.src.rdpos
//@   ensures cs(s) && s.buf == old(s.buf) && s.src == old(s.src)

//@ func (*scanner).SkipString (s, pat) (err)
//@   tags C05 C15
//@   requires cs(s) && len(pat) <= 16
//@   assigns s.pos, s.used, s.err, elems(s.buf), s.src.rdpos, s.Line, s.Col, s.crSeen
//@   ensures cs(s) && s.buf == old(s.buf) && s.src == old(s.src)

//@ func (*scanner).SkipToEOL (s) ()
//@   tags C05 C15
//@   requires cs(s)
//@   assigns s.pos, s.used, s.err, elems(s.buf), s.src.rdpos, s.Line, s.Col, s.crSeen
//@   ensures cs(s) && s.buf == old(s.buf) && s.src == old(s.src)
//@   loop 1: invariant cs(s) && s.buf == old(s.buf) && s.src == old(s.src)

//@ func (*scanner).SkipWhiteSpace (s) (err)
//@   tags C05 C15
//@   requires cs(s)
//@   assigns s.pos, s.used, s.err, elems(s.buf), s.src.rdpos, s.Line, s.Col, s.crSeen
//@   ensures cs(s) && s.buf == old(s.buf) && s.src == old(s.src)
//@   loop 1: invariant cs(s) && s.buf == old(s.buf) && s.src == old(s.src)

//@ func (*scanner).skipWhiteSpaceExceptComments (s) (err)
//@   tags C05 C15
//@   requires cs(s)
//@   assigns s.pos, s.used, s.err, elems(s.buf), s.src.rdpos, s.Line, s.Col, s.crSeen
//@   ensures cs(s) && s.buf == old(s.buf) && s.src == old(s.src)
//@   loop 1: invariant cs(s) && s.buf == old(s.buf) && s.src == old(s.src)

//@ func (*scanner).checkEI (s) (ok)
//@   tags C05 C15
//@   requires cs(s)
//@   assigns s.pos, s.used, s.err, elems(s.buf), s.src.rdpos
//@   ensures cs(s) && s.buf == old(s.buf) && s.src == old(s.src)

//@ func (*scanner).tryHex (s) (b, ok)
//@   tags C05 C15
//@   requires cs(s)
//@   assigns s.pos, s.used, s.err, elems(s.buf), s.src.rdpos, s.Line, s.Col, s.crSeen
//@   ensures cs(s) && s.buf == old(s.buf) && s.src == old(s.src)

//@ func (*scanner).ReadComment (s) (c, err)
//@   tags C05 C15
//@   requires cs(s)
//@   assigns s.pos, s.used, s.err, elems(s.buf), s.src.rdpos, s.Line, s.Col, s.crSeen
//@   ensures cs(s) && s.buf == old(s.buf) && s.src == old(s.src)
//@   loop 1: invariant cs(s) && s.buf == old(s.buf) && s.src == old(s.src)

//@ func (*scanner).ReadName (s) (name, err)
//@   tags C05 C15
//@   requires cs(s)
//@   assigns s.pos, s.used, s.err, elems(s.buf), s.src.rdpos, s.Line, s.Col, s.crSeen
//@   ensures cs(s) && s.buf == old(s.buf) && s.src == old(s.src)
//@   loop 1: invariant cs(s) && s.buf == old(s.buf) && s.src == old(s.src)

//@ func (*scanner).ReadHexString (s) (str, err)
//@   tags C05 C15
//@   requires cs(s)
//@   assigns s.pos, s.used, s.err, elems(s.buf), s.src.rdpos, s.Line, s.Col, s.crSeen
//@   ensures cs(s) && s.buf == old(s.buf) && s.src == old(s.src)
//@   loop 1: invariant cs(s) && s.buf == old(s.buf) && s.src == old(s.src)

//@ func (*scanner).ReadString (s) (str, err)
//@   tags C05 C15
//@   requires cs(s)
//@   assigns s.pos, s.used, s.err, elems(s.buf), s.src.rdpos, s.Line, s.Col, s.crSeen
//@   ensures cs(s) && s.buf == old(s.buf) && s.src == old(s.src)
//@   loop 1: invariant cs(s) && s.buf == old(s.buf) && s.src == old(s.src)
//@   loop 2: invariant cs(s) && s.buf == old(s.buf) && s.src == old(s.src)

//@ func parseNumber (b) (x)
//@   trusted
//@   pure

//@ func (*scanner).ScanToken (s) (tok, err)
//@   tags C05 C15
//@   requires cs(s)
//@   assigns *
//@   ensures cs(s) && s.buf == old(s.buf) && s.src == old(s.src)
//@   loop 1: invariant cs(s) && s.buf == old(s.buf) && s.src == old(s.src) && len(s.tokenBuf) >= 1

//@ func (*scanner).readValue (s) (obj, err)
//@   tags C05 C15
//@   requires cs(s)
//@   assigns *
//@   ensures cs(s) && s.buf == old(s.buf) && s.src == old(s.src)

//@ func (*scanner).readValueDepth (s, depth) (obj, err)
//@   tags C05 C15
//@   requires cs(s)
//@   assigns *
//@   ensures cs(s) && s.buf == old(s.buf) && s.src == old(s.src)
//@   loop 1: invariant cs(s) && s.buf == old(s.buf) && s.src == old(s.src)

//@ func (*scanner).readDictBody (s, term, valueDepth) (d, err)
//@   tags C05 C15
//@   requires cs(s) && len(term) <= 16
//@   assigns *
//@   ensures cs(s) && s.buf == old(s.buf) && s.src == old(s.src)
//@   loop 1: invariant cs(s) && s.buf == old(s.buf) && s.src == old(s.src)

//@ func getInlineImageInt (d, a, b) (n)
//@   trusted
//@   pure

//@ func getInlineImageFilter (d) (f)
//@   trusted
//@   pure

//@ func isASCIIFilter (f) (ok)
//@   trusted
//@   pure

//@ func (*scanner).readInlineImage (s) (op, err)
//@   tags C05 C15
//@   requires cs(s)
//@   assigns *
//@   ensures cs(s) && s.buf == old(s.buf) && s.src == old(s.src)
//@   loop 1: invariant cs(s) && s.buf == old(s.buf) && s.src == old(s.src)
//@   loop 2: invariant cs(s) && s.buf == old(s.buf) && s.src == old(s.src)
