//go:build verif

// Contracts for package pdf, checked by /verif/bin/gocv (see /verif/DESIGN.md).
// This file contains comments only.

package pdf

//@ package seehuhn.de/go/pdf

// ---- lexical classes (ISO 32000-2, 7.2.3) ----
//@ spec func isSpace(c int) bool = c == 0 || c == 9 || c == 10 || c == 12 || c == 13 || c == 32
//@ spec func isDelim(c int) bool = c == '(' || c == ')' || c == '<' || c == '>' || c == '[' || c == ']' || c == '{' || c == '}' || c == '/' || c == '%'
//@ spec func isRegular(c int) bool = !isSpace(c) && !isDelim(c)
//@ spec func isHex(c int) bool = ('0' <= c && c <= '9') || ('A' <= c && c <= 'F') || ('a' <= c && c <= 'f')
//@ spec func hexVal(c int) int = c <= '9' ? c - '0' : c <= 'F' ? c - 'A' + 10 : c - 'a' + 10

//@ func hexDigit (c) (d)
//@   pure
//@   tags C01 C04 C05
//@   ensures isHex(c) ==> d == hexVal(c)
//@   ensures !isHex(c) ==> d == 255

// ---- permissions (ISO 32000-2 Table 22; bits are 1-based) ----
//@ spec func has(perm int, m int) bool = (perm / m) % 2 == 1
//@ spec func specPermToP(perm int) int = 4294967295 - (3 + (has(perm,1) ? 0 : 16) + (has(perm,4) ? 0 : (2048 + (has(perm,2) ? 0 : 4))) + (has(perm,16) ? 0 : (32 + (has(perm,8) ? 0 : 256))) + (has(perm,32) ? 0 : 1024) + (has(perm,64) ? 0 : 8))
//@ spec func closure(perm int) int = perm % 128 + (has(perm,4) && !has(perm,2) ? 2 : 0) + (has(perm,16) && !has(perm,8) ? 8 : 0) + (has(perm,64) && !has(perm,32) ? 32 : 0)
//@ spec func pb(P int, k int) bool = (P / k) % 2 == 1
//@ spec func specPToPerm(R int, P int) int = 1 * (pb(P,16) ? 1 : 0)
//@   | + ((R == 2 ? pb(P,4) : (R >= 3 ? (pb(P,4) || pb(P,2048)) : true)) ? 2 : 0)
//@   | + ((R == 2 ? pb(P,4) : (R >= 3 ? (!pb(P,4) || pb(P,2048)) && (pb(P,4) || pb(P,2048)) : true)) ? 4 : 0)
//@   | + ((pb(P,32) || pb(P,256)) ? 8 : 0) + (pb(P,32) ? 16 : 0) + ((pb(P,8) || pb(P,1024)) ? 32 : 0) + (pb(P,8) ? 64 : 0)

//@ func stdSecPermToP (perm) (P)
//@   pure
//@   tags C09
//@   requires 0 <= perm && perm <= 127
//@   ensures P == specPermToP(perm)

//@ func stdSecPToPerm (R, P) (perm)
//@   pure
//@   tags C09
//@   ensures perm == specPToPerm(R, P)

//@ lemma permRoundTrip(perm int, R int)
//@   tags C09
//@   requires 0 <= perm && perm <= 127 && R >= 3
//@   ensures specPToPerm(R, specPermToP(perm)) == closure(perm)

//@ func decodeInt (buf) (res, err)
//@   pure
//@   tags C02 C04
//@   requires len(buf) <= 8
//@   loop 1: invariant 0 <= res && res < pow256(\done)
//@   loop 1: invariant res == beVal(buf, \done)
//@   ensures err == nil ==> res == beVal(buf, len(buf)) && res >= 0
//@   ensures err != nil ==> beVal(buf, len(buf)) > 9223372036854775807
//@ spec func pow256(k int) int = k <= 0 ? 1 : k == 1 ? 256 : k == 2 ? 65536 : k == 3 ? 16777216 : k == 4 ? 4294967296 : k == 5 ? 1099511627776 : k == 6 ? 281474976710656 : k == 7 ? 72057594037927936 : 18446744073709551616
//@ spec rec func beVal(b seq, k int) int = k <= 0 ? 0 : beVal(b, k-1) * 256 + b[k-1]

//@ func (*xRefEntry).IsFree (entry) (free)
//@   pure
//@   nilrecv
//@   tags C04
//@   ensures free == (entry == nil || entry.Pos < 0)

// ---- scanner: buffer abstraction (DESIGN.md Appendix A) ----
// Ghost: s.src.stream is everything the byte source will ever deliver, s.src.rdpos how
// much of it has been consumed, s.src.fails whether the source ends with a non-EOF error;
// s.P0 is the file offset of stream[0].
//@ ghost P0 int
//@ pred R(s *scanner) = 0 <= s.pos && s.pos <= s.used && s.used <= len(s.buf) && len(s.buf) == 1024 && s.src != nil
//@   | && 0 <= s.P0 && s.P0 <= s.filePos && s.P0 <= 281474976710656 && len(s.src.stream) <= 281474976710656
//@   | && s.src.rdpos == s.filePos - s.P0 + s.used && s.src.rdpos <= len(s.src.stream)
//@   | && (forall j in offof(s.buf)+s.pos..offof(s.buf)+s.used :: raw(s.buf)[j] == s.src.stream[s.filePos - s.P0 + j - offof(s.buf)])
//@   | && (s.err != nil ==> s.src.fails && s.src.rdpos == len(s.src.stream) && s.err != io.EOF && s.err != io.ErrUnexpectedEOF && !malformed(s.err))
//@ pred apos(s *scanner) = s.filePos + s.pos

//@ func (*scanner).refill (s) (err)
//@   tags C01 C02 C04 C05 C19 C20
//@   requires R(s)
//@   assigns s.filePos, s.pos, s.used, s.err, elems(s.buf), s.src.rdpos
//@   ensures R(s)
//@   ensures s.filePos + s.pos == old(s.filePos + s.pos) && s.P0 == old(s.P0)
//@   ensures s.used - s.pos >= old(s.used - s.pos)
//@   ensures old(s.err) == nil ==> s.pos == 0
//@   ensures old(s.err) != nil ==> err == old(s.err) && s.pos == old(s.pos) && s.used == old(s.used)
//@   ensures err == nil && s.err == nil && s.used < 1024 ==> s.src.rdpos == len(s.src.stream) && !s.src.fails
//@   ensures err != nil ==> err == s.err && s.src.fails
//@   ensures err == nil && s.err != nil ==> s.used > 0
//@   ensures err != nil ==> s.used - s.pos == old(s.used - s.pos)
//@   ensures s.src.stream == old(s.src.stream)

//@ pred scanFrame(s *scanner) = s.P0 == old(s.P0) && s.src.stream == old(s.src.stream) && s.src == old(s.src) && s.src.fails == old(s.src.fails) && refof(s.buf) == old(refof(s.buf))
//@ pred atEnd(s *scanner) = s.filePos + s.pos - s.P0 == len(s.src.stream)
//@ pred avail(s *scanner) = len(s.src.stream) - (s.filePos + s.pos - s.P0)

//@ func (*scanner).PeekN (s, n) (view, err)
//@   tags C01 C02 C04 C05 C19 C20
//@   requires R(s) && 0 <= n && n <= 1024
//@   assigns s.filePos, s.pos, s.used, s.err, elems(s.buf), s.src.rdpos
//@   ensures R(s) && scanFrame(s)
//@   ensures apos(s) == old(apos(s))
//@   ensures refof(view) == refof(s.buf) && offof(view) == offof(s.buf) + s.pos && len(view) <= s.used - s.pos
//@   ensures len(view) == min(n, avail(s)) && s.used - s.pos >= old(s.used - s.pos)
//@   ensures err != nil ==> len(view) < n && s.src.fails && err == s.err
//@   ensures len(view) < n && s.src.fails ==> err != nil

//@ func (*scanner).ReadByte (s) (c, err)
//@   tags C01 C02 C04 C05 C19 C20
//@   requires R(s)
//@   assigns s.filePos, s.pos, s.used, s.err, elems(s.buf), s.src.rdpos
//@   ensures R(s) && scanFrame(s)
//@   ensures err == nil ==> apos(s) == old(apos(s)) + 1 && c == s.src.stream[old(apos(s)) - s.P0]
//@   ensures err != nil ==> apos(s) == old(apos(s)) && atEnd(s)
//@   ensures err != nil && err != io.EOF ==> s.src.fails && err == s.err
//@   ensures err == io.EOF ==> !s.src.fails

//@ func (*scanner).ScanBytes (s, accept) (err)
//@   tags C01 C04 C05 C19 C20
//@   inline
//@   callback accept pure
//@   requires R(s)
//@   assigns s.filePos, s.pos, s.used, s.err, elems(s.buf), s.src.rdpos
//@   ensures R(s) && scanFrame(s)
//@   ensures apos(s) >= old(apos(s))
//@   ensures err == io.EOF ==> atEnd(s) && !s.src.fails
//@   ensures err != nil && err != io.EOF ==> s.src.fails && err == s.err && atEnd(s)
//@   ensures s.src.fails && atEnd(s) ==> err != nil
//@   loop 1: invariant R(s) && scanFrame(s) && apos(s) >= old(apos(s)) && (empty <==> apos(s) == old(apos(s)))
//@   loop 1: decreases avail(s), (s.pos < s.used ? 0 : 1)
//@   loop 2: invariant R(s) && scanFrame(s) && apos(s) >= old(apos(s)) && (empty <==> apos(s) == old(apos(s)))
//@   loop 2: decreases s.used - s.pos

//@ func (*scanner).SkipString (s, pat) (err)
//@   tags C01 C04 C05 C19 C20
//@   requires R(s) && len(pat) <= 1024
//@   assigns s.filePos, s.pos, s.used, s.err, elems(s.buf), s.src.rdpos
//@   ensures R(s) && scanFrame(s)
//@   ensures err == nil ==> apos(s) == old(apos(s)) + len(pat)
//@   ensures err == nil ==> forall i in 0..len(pat) :: s.src.stream[old(apos(s)) - s.P0 + i] == pat[i]
//@   ensures err != nil ==> apos(s) == old(apos(s))
//@   ensures err != nil ==> malformed(err) || (s.src.fails && err == s.err)
//@   ensures s.src.fails && old(avail(s)) < len(pat) ==> err != nil && !malformed(err)

//@ func (*scanner).tryHex (s) (b, ok)
//@   tags C01 C04 C05 C19 C20
//@   requires R(s)
//@   assigns s.filePos, s.pos, s.used, s.err, elems(s.buf), s.src.rdpos
//@   ensures R(s) && scanFrame(s)
//@   ensures ok ==> apos(s) == old(apos(s)) + 3 && avail(s) >= 0
//@   ensures ok ==> isHex(s.src.stream[old(apos(s)) - s.P0 + 1]) && isHex(s.src.stream[old(apos(s)) - s.P0 + 2])
//@   ensures ok ==> b == 16 * hexVal(s.src.stream[old(apos(s)) - s.P0 + 1]) + hexVal(s.src.stream[old(apos(s)) - s.P0 + 2])
//@   ensures !ok ==> apos(s) == old(apos(s)) && s.used - s.pos >= old(s.used - s.pos)
//@   ensures !ok ==> old(avail(s)) < 3 || !isHex(s.src.stream[old(apos(s)) - s.P0 + 1]) || !isHex(s.src.stream[old(apos(s)) - s.P0 + 2])

// class table against the lexical classes of ISO 32000-2, 7.2.3 (Tables 1 and 2)
//@ global class (C01 C04 C05 C15) forall c in 0..256 :: class[c] == (isSpace(c) ? 1 : isDelim(c) ? 2 : 0)

// ---- white space and comments (7.2.3, 7.2.4) ----
// inCmt(b, p0, k): scanning from p0 (outside a comment), position k lies inside a comment
//@ spec rec func inCmt(b seq, p0 int, k int) bool = k <= p0 ? false : (inCmt(b, p0, k-1) ? !(b[k-1] == 13 || b[k-1] == 10) : b[k-1] == '%')
//@ spec func wsAt(b seq, p0 int, j int) bool = inCmt(b, p0, j) || b[j] == '%' || isSpace(b[j])

//@ func (*scanner).SkipWhiteSpace (s) (err)
//@   tags C01 C04 C05 C19 C20
//@   requires R(s)
//@   assigns s.filePos, s.pos, s.used, s.err, elems(s.buf), s.src.rdpos
//@   ensures R(s) && scanFrame(s)
//@   ensures apos(s) >= old(apos(s))
//@   ensures forall j in old(apos(s)) - s.P0 .. apos(s) - s.P0 :: wsAt(s.src.stream, old(apos(s)) - s.P0, j)
//@   ensures err == nil ==> avail(s) > 0 && !wsAt(s.src.stream, old(apos(s)) - s.P0, apos(s) - s.P0)
//@   ensures err == io.EOF ==> atEnd(s) && !s.src.fails
//@   ensures err != nil && err != io.EOF ==> s.src.fails && err == s.err && atEnd(s)
//@   ensures s.src.fails && atEnd(s) ==> err != nil && err != io.EOF
//@   loop ScanBytes.1: invariant isComment == inCmt(s.src.stream, old(apos(s)) - s.P0, apos(s) - s.P0)
//@   loop ScanBytes.1: invariant forall j in old(apos(s)) - s.P0 .. apos(s) - s.P0 :: wsAt(s.src.stream, old(apos(s)) - s.P0, j)
//@   loop ScanBytes.2: invariant isComment == inCmt(s.src.stream, old(apos(s)) - s.P0, apos(s) - s.P0)
//@   loop ScanBytes.2: invariant forall j in old(apos(s)) - s.P0 .. apos(s) - s.P0 :: wsAt(s.src.stream, old(apos(s)) - s.P0, j)

// ---- names (7.3.5) ----
//@ spec func nmStop(b seq, p int) bool = p >= len(b) || !isRegular(b[p])
//@ spec func nmEsc(b seq, p int) bool = b[p] == '#' && p + 2 < len(b) && isHex(b[p+1]) && isHex(b[p+2])
//@ spec func nmNext(b seq, p int) int = nmEsc(b, p) ? p + 3 : p + 1
//@ spec func nmByte(b seq, p int) int = nmEsc(b, p) ? 16 * hexVal(b[p+1]) + hexVal(b[p+2]) : b[p]
//@ spec rec func nmPos(b seq, st int, k int) int = k <= 0 ? st : nmNext(b, nmPos(b, st, k-1))

//@ func (*scanner).ReadName (s) (res, err)
//@   tags C01 C04 C05 C19 C20
//@   requires R(s)
//@   assigns s.filePos, s.pos, s.used, s.err, elems(s.buf), s.src.rdpos
//@   ensures R(s) && scanFrame(s)
//@   ensures apos(s) >= old(apos(s))
//@   ensures err == nil ==> s.src.stream[old(apos(s)) - s.P0] == '/'
//@   ensures err == nil ==> apos(s) - s.P0 == nmPos(s.src.stream, old(apos(s)) + 1 - s.P0, len(res)) && nmStop(s.src.stream, apos(s) - s.P0)
//@   ensures err == nil ==> forall k in 0..len(res) :: res[k] == nmByte(s.src.stream, nmPos(s.src.stream, old(apos(s)) + 1 - s.P0, k)) && !nmStop(s.src.stream, nmPos(s.src.stream, old(apos(s)) + 1 - s.P0, k))
//@   ensures err != nil ==> malformed(err) || (s.src.fails && err == s.err)
//@   ensures s.src.fails && atEnd(s) ==> err != nil && !malformed(err)
//@   loop 1: invariant R(s) && scanFrame(s) && apos(s) > old(apos(s))
//@   loop 1: invariant apos(s) - s.P0 == nmPos(s.src.stream, old(apos(s)) + 1 - s.P0, len(res)) && avail(s) >= 0
//@   loop 1: invariant refof(res) == 0 || refof(res) > \top0
//@   loop 1: invariant forall j in offof(res)..offof(res)+len(res) :: raw(res)[j] == nmByte(s.src.stream, nmPos(s.src.stream, old(apos(s)) + 1 - s.P0, j - offof(res))) && !nmStop(s.src.stream, nmPos(s.src.stream, old(apos(s)) + 1 - s.P0, j - offof(res)))
//@   loop 1: decreases avail(s)

// ---- writing names (7.3.5): every byte outside '!'..'~', every delimiter and '#' is written as #xx ----
//@ spec func nameFunny(c int) bool = !isRegular(c) || c < 33 || c > 126 || c == '#'
//@ spec func nameW(c int) int = nameFunny(c) ? 3 : 1
//@ spec rec func nameEncLen(l seq, k int) int = k <= 0 ? 0 : nameEncLen(l, k-1) + nameW(l[k-1])
//@ spec func nameEncAt(o seq, p int, c int) bool = nameFunny(c) ? (o[p] == '#' && o[p+1] == hexLow(c / 16) && o[p+2] == hexLow(c % 16)) : o[p] == c
//@ spec rec func cntFunny(l seq, k int) int = k <= 0 ? 0 : cntFunny(l, k-1) + (nameFunny(l[k-1]) ? 1 : 0)

//@ lemma cntMono(l seq, a int, b int)
//@   tags C01 C15
//@   induct b
//@   requires 0 <= a && a <= b
//@   ensures cntFunny(l, a) <= cntFunny(l, b)
//@   ensures cntFunny(l, a) == cntFunny(l, b) ==> forall j in a..b :: !nameFunny(l[j])

//@ lemma cleanRun(l seq, a int, b int)
//@   tags C01 C15
//@   induct b
//@   requires 0 <= a && a <= b && forall m in a..b :: !nameFunny(l[m])
//@   ensures forall j in a..b+1 :: nameEncLen(l, j) == nameEncLen(l, a) + (j - a)

//@ func formatName (w, name) (err)
//@   tags C01 C15
//@   requires w != nil
//@   assigns w.log
//@   ensures forall i in 0..old(len(w.log)) :: w.log[i] == old(w.log[i])
//@   ensures err == nil ==> len(w.log) == old(len(w.log)) + 1 + nameEncLen(name, len(name)) && w.log[old(len(w.log))] == '/'
//@   ensures err == nil ==> forall j in 0..len(name) :: nameEncAt(w.log, old(len(w.log)) + 1 + nameEncLen(name, j), name[j])
//@   loop 1: invariant len(funny) == cntFunny(l, \done) && (refof(funny) == 0 || refof(funny) > \top0)
//@   loop 1: invariant forall j in offof(funny)..offof(funny)+len(funny) :: 0 <= raw(funny)[j] && raw(funny)[j] < \done && nameFunny(l[raw(funny)[j]]) && cntFunny(l, raw(funny)[j]) == j - offof(funny)
//@   loop 1: invariant forall j in offof(funny)+1..offof(funny)+len(funny) :: raw(funny)[j-1] < raw(funny)[j]
//@   loop 2: invariant pos == (\done == 0 ? 0 : funny[\done - 1] + 1) && 0 <= pos && pos <= n && cntFunny(l, pos) == \done
//@   loop 2: invariant len(w.log) == old(len(w.log)) + 1 + nameEncLen(l, pos) && w.log[old(len(w.log))] == '/' && len(w.log) > old(len(w.log)) && nameEncLen(l, pos) >= 0
//@   loop 2: invariant forall i in 0..old(len(w.log)) :: w.log[i] == old(w.log[i])
//@   loop 2: invariant forall j in 0..pos :: nameEncAt(w.log, old(len(w.log)) + 1 + nameEncLen(l, j), l[j]) && 0 <= nameEncLen(l, j) && nameEncLen(l, j) + nameW(l[j]) <= nameEncLen(l, pos)
//@   loop 2: apply cntMono(l, pos, funny[\done])
//@   loop 2: apply cleanRun(l, pos, funny[\done])
//@   loop 2: apply cntMono(l, pos, n)
//@   loop 2: apply cleanRun(l, pos, n)

// ---- round trip of names at the level of the two specifications: what formatName's
// postcondition describes, ReadName's postcondition decodes to the original bytes ----
//@ lemma encMono(l seq, a int, b int)
//@   tags C01 C15
//@   induct b
//@   requires 0 <= a && a <= b
//@   ensures nameEncLen(l, a) + (b - a) <= nameEncLen(l, b)

//@ lemma nameRoundTrip(l seq, o seq, k int)
//@   tags C01 C15
//@   induct k
//@   requires forall j in 0..len(l) :: nameEncAt(o, nameEncLen(l, j), l[j]) && 0 <= l[j] && l[j] <= 255
//@   requires forall j in 0..len(l) :: nameEncLen(l, j) + nameW(l[j]) <= len(o) && 0 <= nameEncLen(l, j)
//@   requires 0 <= k && k <= len(l)
//@   ensures nmPos(o, 0, k) == nameEncLen(l, k)
//@   ensures k < len(l) ==> nmByte(o, nameEncLen(l, k)) == l[k] && !nmStop(o, nameEncLen(l, k))

// ---- error classes (C19, C20) ----
//@ func IsMalformed (err) (r)
//@   trusted
//@   pure
//@   ensures r == malformed(err)

//@ func Wrap (err, loc) (r)
//@   trusted
//@   assigns nothing
//@   ensures (r == nil) == (err == nil) && malformed(r) == malformed(err)
//@   ensures r != io.EOF && r != io.ErrUnexpectedEOF

//@ func (*scanner).CurrentPos (s) (p)
//@   tags C04 C05
//@   pure
//@   ensures p == s.filePos + s.pos

//@ func (*scanner).Discard (s, n) (err)
//@   tags C04 C05 C19 C20
//@   requires R(s) && 0 <= n && n <= 281474976710656
//@   assigns s.filePos, s.pos, s.used, s.src.rdpos
//@   ensures R(s) && scanFrame(s)
//@   ensures apos(s) >= old(apos(s)) && apos(s) <= old(apos(s)) + n
//@   ensures err == nil ==> apos(s) == old(apos(s)) + n
//@   ensures err != nil ==> atEnd(s)
//@   ensures err != nil && err != io.EOF ==> s.src.fails && !malformed(err)
//@   ensures err == io.EOF ==> !s.src.fails

//@ func (*scanner).ReadInteger (s) (x, err)
//@   tags C01 C04 C05 C19 C20
//@   requires R(s)
//@   assigns s.filePos, s.pos, s.used, s.err, elems(s.buf), s.src.rdpos
//@   ensures R(s) && scanFrame(s) && apos(s) >= old(apos(s))
//@   ensures err != nil && !malformed(err) && err != io.EOF ==> s.src.fails && err == s.err
//@   ensures err == io.EOF ==> atEnd(s) && !s.src.fails
//@   ensures s.src.fails && atEnd(s) ==> err != nil && !malformed(err) && err != io.EOF
//@   loop ScanBytes.1: invariant refof(res) == 0 || refof(res) > \top0
//@   loop ScanBytes.2: invariant refof(res) == 0 || refof(res) > \top0

//@ func (*scanner).ReadNumber (s) (x, err)
//@   tags C01 C04 C05 C19 C20
//@   requires R(s)
//@   assigns s.filePos, s.pos, s.used, s.err, elems(s.buf), s.src.rdpos
//@   ensures R(s) && scanFrame(s) && apos(s) >= old(apos(s))
//@   ensures err != nil && !malformed(err) ==> s.src.fails && err == s.err
//@   ensures s.src.fails && atEnd(s) ==> err != nil && !malformed(err)
//@   loop ScanBytes.1: invariant refof(res) == 0 || refof(res) > \top0
//@   loop ScanBytes.2: invariant refof(res) == 0 || refof(res) > \top0

//@ func (*encryptInfo).DecryptBytes (enc, ref, buf) (out, err)
//@   trusted
//@   assigns elems(buf)
//@   ensures err == nil ==> (refof(out) == refof(buf) && len(out) <= len(buf) && offof(out) >= offof(buf) && offof(out) + len(out) <= offof(buf) + len(buf))
//@   ensures err != io.EOF

//@ func (*scanner).ReadHexString (s) (res, err)
//@   tags C01 C04 C05 C19 C20
//@   requires R(s)
//@   assigns s.filePos, s.pos, s.used, s.err, elems(s.buf), s.src.rdpos
//@   ensures R(s) && scanFrame(s) && apos(s) >= old(apos(s))
//@   ensures s.enc == nil ==> (err != nil && !malformed(err) && err != io.EOF ==> s.src.fails && err == s.err)
//@   ensures err == io.EOF ==> atEnd(s) && !s.src.fails
//@   loop ScanBytes.1: invariant refof(res) == 0 || refof(res) > \top0
//@   loop ScanBytes.2: invariant refof(res) == 0 || refof(res) > \top0

//@ func (*scanner).ReadString (s) (res, err)
//@   tags C01 C04 C05 C19 C20
//@   requires R(s)
//@   assigns s.filePos, s.pos, s.used, s.err, elems(s.buf), s.src.rdpos
//@   ensures R(s) && scanFrame(s) && apos(s) >= old(apos(s))
//@   ensures s.enc == nil ==> (err != nil && !malformed(err) && err != io.EOF ==> s.src.fails && err == s.err)
//@   ensures err == io.EOF ==> atEnd(s) && !s.src.fails
//@   loop 1: invariant R(s) && scanFrame(s) && apos(s) >= old(apos(s)) && (refof(res) == 0 || refof(res) > \top0)
//@   loop 1: decreases avail(s), (ignoreLF ? 1 : 0)
//@   loop 2: invariant R(s) && scanFrame(s) && apos(s) >= pre(apos(s)) && (refof(res) == 0 || refof(res) > \top0)

// ---- references ----
//@ func NewReference (number, generation) (r)
//@   tags C01 C04 C05
//@   pure
//@   requires number < 16777216
//@   ensures r == number + generation * 4294967296

//@ func (Reference).Number (x) (n)
//@   tags C01 C04
//@   pure
//@   ensures n == x % 4294967296

//@ func (Reference).Generation (x) (g)
//@   tags C01 C04
//@   pure
//@   ensures g == (x / 4294967296) % 65536

// ---- composite objects: panic-freedom, buffer invariant, nesting bound, error classes ----
//@ pred RN(s *scanner) = R(s) && 0 <= s.nestDepth && s.nestDepth <= 256

//@ func (*scanner).ReadStreamData (s, dict) (stm, err)
//@   trusted
//@   assigns s.filePos, s.pos, s.used, s.err, elems(s.buf), s.src.rdpos, mapof(dict)
//@   ensures RN(s) && scanFrame(s) && apos(s) >= old(apos(s)) && s.nestDepth == old(s.nestDepth)
//@   ensures err != nil && !malformed(err) ==> s.src.fails
//@   ensures err != io.EOF

// recursion variants (C05): ReadObject -> ReadArray / ReadDict -> ReadObject strictly decreases
// 2 * (257 - nestDepth) (+ 1 for ReadObject), so the call nesting is bounded by the 256-level cap
//@ func (*scanner).ReadArray (s) (array, err)
//@   tags C01 C04 C05 C19 C20
//@   requires RN(s)
//@   variant 2 * (257 - s.nestDepth)
//@   assigns s.filePos, s.pos, s.used, s.err, elems(s.buf), s.src.rdpos, s.nestDepth
//@   ensures RN(s) && scanFrame(s) && apos(s) >= old(apos(s)) && s.nestDepth == old(s.nestDepth)
//@   ensures s.enc == nil ==> (err != nil && !malformed(err) ==> s.src.fails)
//@   ensures err == nil ==> refof(array) > \top0
//@   ensures err != io.EOF
//@   loop 1: invariant R(s) && scanFrame(s) && apos(s) >= old(apos(s)) && s.nestDepth == old(s.nestDepth) + 1 && s.nestDepth <= 256
//@   loop 1: invariant refof(array) > \top0 && 0 <= integersSeen && integersSeen <= len(array)
//@   loop 1: invariant forall j in offof(array) + len(array) - integersSeen .. offof(array) + len(array) :: istype(raw(array)[j], Integer)

//@ func (*scanner).ReadDict (s) (dict, err)
//@   tags C01 C04 C05 C19 C20
//@   requires RN(s)
//@   variant 2 * (257 - s.nestDepth)
//@   assigns s.filePos, s.pos, s.used, s.err, elems(s.buf), s.src.rdpos, s.nestDepth
//@   ensures RN(s) && scanFrame(s) && apos(s) >= old(apos(s)) && s.nestDepth == old(s.nestDepth)
//@   ensures s.enc == nil ==> (err != nil && !malformed(err) ==> s.src.fails)
//@   ensures err == nil ==> dict > \top0
//@   ensures err != io.EOF
//@   loop 1: invariant R(s) && scanFrame(s) && apos(s) >= old(apos(s)) && s.nestDepth == old(s.nestDepth) + 1 && s.nestDepth <= 256
//@   loop 1: invariant dict != nil && dict > \top0

//@ func (*scanner).ReadObject (s) (obj, err)
//@   tags C01 C04 C05 C19 C20
//@   requires RN(s)
//@   variant 2 * (257 - s.nestDepth) + 1
//@   assigns s.filePos, s.pos, s.used, s.err, elems(s.buf), s.src.rdpos, s.nestDepth
//@   ensures RN(s) && scanFrame(s) && apos(s) >= old(apos(s)) && s.nestDepth == old(s.nestDepth)
//@   ensures s.enc == nil ==> (err != nil && !malformed(err) && err != io.EOF ==> s.src.fails)
//@   ensures err == io.EOF ==> atEnd(s) && !s.src.fails

//@ func (*scanner).readIndirectObject (s) (obj, ref, err)
//@   tags C04 C05 C19 C20
//@   requires RN(s)
//@   assigns s.filePos, s.pos, s.used, s.err, elems(s.buf), s.src.rdpos, s.nestDepth, s.enc, s.encRef
//@   ensures RN(s) && scanFrame(s) && apos(s) >= old(apos(s)) && s.nestDepth == old(s.nestDepth)
//@   ensures old(s.enc) == nil ==> (err != nil && !malformed(err) && err != io.EOF ==> s.src.fails)
//@   ensures err == io.EOF ==> !s.src.fails
//@   ensures err == nil ==> ref % 4294967296 < 16777216

//@ func (*scanner).ReadIndirectObject (s) (obj, ref, err)
//@   tags C04 C05 C19 C20
//@   requires RN(s)
//@   assigns s.filePos, s.pos, s.used, s.err, elems(s.buf), s.src.rdpos, s.nestDepth, s.enc, s.encRef
//@   ensures RN(s) && scanFrame(s) && apos(s) >= old(apos(s)) && s.nestDepth == old(s.nestDepth)
//@   ensures old(s.enc) == nil ==> (err != nil && !malformed(err) ==> s.src.fails)
//@   ensures err != io.EOF && err != io.ErrUnexpectedEOF
//@   ensures err == nil ==> ref % 4294967296 < 16777216

// ---- cross-reference streams (7.5.8) ----
//@ func checkXRefStreamDict (dict, rawLen) (w, ss, err)
//@   tags C04 C05
//@   assigns nothing
//@   ensures err != nil ==> malformed(err)
//@   ensures err == nil ==> len(w) == 3 && w[0] + w[1] + w[2] > 0
//@   ensures err == nil ==> forall i in 0..3 :: 0 <= w[i] && w[i] <= 8
//@   ensures err == nil ==> forall k in 0..len(ss) :: ss[k] != nil && ss[k].Start + ss[k].Size <= 16777216
//@   loop 1: invariant len(w) == \done && \done <= 3 && (refof(w) == 0 || refof(w) > \top0)
//@   loop 1: invariant forall j in offof(w)..offof(w)+len(w) :: 0 <= raw(w)[j] && raw(w)[j] <= 8
//@   loop 2: invariant 0 <= i && i <= len(ind) && i % 2 == 0 && len(ind) % 2 == 0 && (refof(ss) == 0 || refof(ss) > \top0)
//@   loop 2: invariant forall j in offof(ss)..offof(ss)+len(ss) :: raw(ss)[j] != nil && raw(ss)[j] > \top0 && raw(ss)[j].Start + raw(ss)[j].Size <= 16777216 && raw(ss)[j].Size <= 16777216
//@   loop 2: decreases len(ind) - i
//@   loop 3: invariant 0 <= total && total <= \done * 16777216
//@   loop 3: invariant forall j in offof(ss)..offof(ss)+len(ss) :: raw(ss)[j] != nil && raw(ss)[j].Size <= 16777216

//@ func decodeXRefStream (xref, r, w, ss) (err)
//@   tags C04 C05
//@   requires xref != nil && r != nil && len(w) == 3 && forall i in 0..3 :: 0 <= w[i] && w[i] <= 8
//@   requires forall k in 0..len(ss) :: ss[k] != nil && ss[k].Start + ss[k].Size <= 16777216
//@   assigns mapof(xref), r.rdpos
//@   ensures forall k int :: old(k in xref) && old(xref[k]) != nil ==> (k in xref) && xref[k] == old(xref[k])
//@   loop 1: invariant wTotal == (\done >= 1 ? w[0] : 0) + (\done >= 2 ? w[1] : 0) + (\done >= 3 ? w[2] : 0)
//@   loop 2: invariant forall k int :: old(k in xref) && old(xref[k]) != nil ==> (k in xref) && xref[k] == old(xref[k])
//@   loop 3: invariant forall k int :: old(k in xref) && old(xref[k]) != nil ==> (k in xref) && xref[k] == old(xref[k])
//@   loop 3: invariant sec.Start <= i && i <= sec.Start + sec.Size
//@   loop 3: decreases sec.Start + sec.Size - i

// ---- error handling policy while opening a file (C19): an error that is not a
// malformed-file error (an I/O failure) always aborts, in every ErrorHandling mode ----
//@ func NewReader$1 (err) (exit)
//@   tags C19
//@   requires opt != nil && r != nil
//@   ensures err == nil ==> !exit
//@   ensures err != nil && !malformed(err) ==> exit

//@ func (*FileInfo).MakeReader$1 (err) (exit)
//@   tags C19
//@   requires opt != nil && r != nil
//@   ensures err == nil ==> !exit
//@   ensures err != nil && !malformed(err) ==> exit

// ---- classic cross-reference sections (7.5.4): the first (= newest) entry for a number wins ----
//@ func decodeXRefSection (xref, s, start, end) (err)
//@   tags C04 C05 C19
//@   requires s != nil && R(s) && xref != nil && start <= end && end <= 16777216
//@   assigns s.filePos, s.pos, s.used, s.err, elems(s.buf), s.src.rdpos, mapof(xref)
//@   ensures R(s) && scanFrame(s)
//@   ensures (start != 1 || (old(0 in xref) && old(xref[0]) != nil)) ==> forall k int :: old(k in xref) && old(xref[k]) != nil ==> (k in xref) && xref[k] == old(xref[k])
//@   ensures (start != 1 || (old(0 in xref) && old(xref[0]) != nil)) ==> forall k int :: (k in xref) && !old(k in xref) ==> start <= k && k < end
//@   ensures forall k int :: (k in xref) && !old(k in xref) ==> start <= k + 1 && k < end
//@   loop 1: invariant R(s) && scanFrame(s) && start <= i && i <= end && (offByOne == 0 || (offByOne == 1 && start == 1 && !(old(0 in xref) && old(xref[0]) != nil)))
//@   loop 1: invariant (start != 1 || (old(0 in xref) && old(xref[0]) != nil)) ==> forall k int :: old(k in xref) && old(xref[k]) != nil ==> (k in xref) && xref[k] == old(xref[k])
//@   loop 1: invariant (start != 1 || (old(0 in xref) && old(xref[0]) != nil)) ==> forall k int :: (k in xref) && !old(k in xref) ==> start <= k && k < i
//@   loop 1: invariant forall k int :: (k in xref) && !old(k in xref) ==> start <= k + 1 && k < i
//@   loop 1: decreases end - i

// ---- writer bookkeeping (C02, C03) ----
//@ func (*posWriter).Write (w, p) (n, err)
//@   tags C02 C03 C19
//@   requires w.w != nil
//@   assigns w.pos, w.w.log
//@   ensures 0 <= n && n <= len(p) && w.pos == old(w.pos) + n
//@   ensures err == nil ==> n == len(p)
//@   ensures len(w.w.log) == old(len(w.w.log)) + n
//@   ensures forall k in old(len(w.w.log))..len(w.w.log) :: w.w.log[k] == p[k - old(len(w.w.log))]
//@   ensures forall i in 0..old(len(w.w.log)) :: w.w.log[i] == old(w.w.log[i])

//@ func (*Writer).Alloc (w) (r)
//@   tags C02 C03 C11
//@   panics-if w.nextRef >= 16777216
//@   assigns w.nextRef
//@   ensures r == old(w.nextRef) && w.nextRef == old(w.nextRef) + 1

//@ func (*Writer).setXRef (w, ref, entry) (err)
//@   tags C02 C03
//@   requires w.xref != nil && ref % 4294967296 < 16777216
//@   assigns w.nextRef, mapof(w.xref)
//@   ensures (err != nil) == old((ref % 4294967296) in w.xref)
//@   ensures err == nil ==> ((ref % 4294967296) in w.xref) && w.xref[ref % 4294967296] == entry && w.nextRef > ref % 4294967296 && w.nextRef >= old(w.nextRef)
//@   ensures err != nil ==> w.nextRef == old(w.nextRef)
//@   ensures forall k int :: k != ref % 4294967296 || err != nil ==> (k in w.xref) == old(k in w.xref) && w.xref[k] == old(w.xref[k])

//@ func checkCompressed (refs, objects) (err)
//@   tags C02 C03
//@   pure
//@   ensures err == nil ==> len(refs) == len(objects)
//@   ensures err == nil ==> forall i in 0..len(refs) :: (refs[i] / 4294967296) % 65536 == 0
//@   loop 1: invariant \done <= len(objects) && forall i in 0..\done :: (refs[i] / 4294967296) % 65536 == 0

//@ func (*Writer).WriteCompressed (w, refs, objects) (err)
//@   tags C02
//@   requires w.xref != nil && w.w != nil
//@   requires forall i in 0..len(refs) :: refs[i] % 4294967296 < 16777216
//@   havoc .Format .Put
//@   loop 1: invariant len(refs) == len(objects)
//@   loop 2: invariant len(refs) == len(objects) && len(objects) >= 1 && w.xref != nil && w.w != nil && forall i in 0..len(refs) :: refs[i] % 4294967296 < 16777216
//@   loop 2: decreases len(objects)
//@   loop 3: invariant len(refs) == len(objects) && w.xref != nil
//@   loop 4: invariant len(refs) == len(objects) && N == len(objects)

//@ func (*Writer).OpenStream (w, ref, dict, filters) (sw, err)
//@   trusted
//@   assigns *
//@   ensures err == nil ==> sw != nil

//@ func (*encryptInfo).EncryptBytes (enc, ref, buf) (out, err)
//@   trusted
//@   assigns elems(buf)
//@   ensures err == nil ==> (refof(out) == refof(buf) && offof(out) == offof(buf) && len(out) == len(buf)) || refof(out) > \top0

// ---- strings: writing never modifies the caller's String (C02), buffer indices stay in range ----
//@ func formatString (w, s, opt) (err)
//@   tags C01 C02 C09 C10 C11
//@   requires w != nil && refof(w) != 0
//@   assigns w.log
//@   loop 3: invariant 0 <= used && used <= 8 && w != nil

// ---- Copier (C11): node-level contracts ----
//@ func (*Writer).Put (w, ref, obj) (err)
//@   trusted
//@   assigns w.all, mapof(w.xref), w.w.all, w.w.w.log
//@   ensures w.w == old(w.w) && w.xref == old(w.xref) && w.w.w == old(w.w.w)

//@ func Resolve (r, obj) (res, err)
//@   trusted
//@   assigns nothing

//@ func IsReadError (err) (r)
//@   trusted
//@   pure
//@   ensures r == (err != nil && !malformed(err))

//@ func (Object).AsPDF (o, opt) (n)
//@   trusted
//@   pure

//@ pred copierOK(c *Copier) = c.w != nil && c.trans != nil && c.w.xref != nil && c.w.w != nil
//@ pred copierStable(c *Copier) = c.w == old(c.w) && c.trans == old(c.trans) && c.w.w == old(c.w.w) && c.w.w.w == old(c.w.w.w) && c.w.xref == old(c.w.xref)

//@ func (*Copier).Copy (c, obj) (res, err)
//@   tags C11
//@   requires copierOK(c)
//@   assigns mapof(c.trans), c.w.all, mapof(c.w.xref), c.w.w.all, c.w.w.w.log
//@   ensures copierOK(c) && copierStable(c)
//@   ensures err == nil ==> tagof(res) == tagof(obj)

//@ func (*Copier).CopyArray (c, obj) (res, err)
//@   tags C11
//@   requires copierOK(c)
//@   assigns mapof(c.trans), c.w.all, mapof(c.w.xref), c.w.w.all, c.w.w.w.log
//@   ensures copierOK(c) && copierStable(c)
//@   ensures err == nil ==> len(res) == len(obj)
//@   ensures err == nil ==> (refof(res) == 0) == (refof(obj) == 0)
//@   ensures err == nil ==> forall i in 0..len(obj) :: (obj[i] == nil ==> res[i] == nil)
//@   loop 1: invariant copierOK(c) && copierStable(c) && len(res) == \done && (refof(res) == 0 || refof(res) > \top0)
//@   loop 1: invariant forall j in offof(res)..offof(res)+len(res) :: (obj[j - offof(res)] == nil ==> raw(res)[j] == nil)

//@ func (*Copier).copyStreamDict (c, src) (res, err)
//@   trusted
//@   assigns mapof(c.trans), c.w.all, mapof(c.w.xref), c.w.w.all, c.w.w.w.log
//@   ensures copierOK(c) && copierStable(c)

//@ func streamCryptRecipe (r, x) (recipe, err)
//@   trusted
//@   assigns nothing

//@ func RawStreamReader (r, x) (rc, err)
//@   trusted
//@   assigns nothing
//@   ensures err == nil ==> rc != nil

//@ func (Dict).SortedKeys (d) (keys)
//@   trusted
//@   pure
//@   fresh keys

//@ func (*Copier).CopyDict (c, obj) (res, err)
//@   tags C11
//@   requires copierOK(c)
//@   assigns mapof(c.trans), c.w.all, mapof(c.w.xref), c.w.w.all, c.w.w.w.log
//@   ensures copierOK(c) && copierStable(c)
//@   ensures err == nil ==> res != nil && res > \top0
//@   loop 1: invariant copierOK(c) && copierStable(c) && res != nil && res > \top0

//@ func (*Copier).CopyReference (c, obj) (res, err)
//@   tags C11
//@   requires copierOK(c)
//@   assigns mapof(c.trans), c.w.all, mapof(c.w.xref), c.w.w.all, c.w.w.w.log
//@   ensures copierOK(c) && copierStable(c)
//@   ensures old(obj in c.trans) ==> err == nil && res == old(c.trans[obj]) && c.w.nextRef == old(c.w.nextRef)

// ---- Reader.get (C04): null for absent, free and generation-mismatched references ----
//@ func (*Reader).scannerFrom (r, pos, canObjStm) (s, err)
//@   trusted
//@   assigns nothing
//@   fresh s
//@   ensures err == nil ==> s != nil && RN(s) && s.enc == r.enc

//@ func getFromObjStm (r, number, sRef, getInt, enc) (obj, err)
//@   tags C05
//@   claims pre/resolve/ pre/getObjStm/
//@   requires r != nil
//@   assigns *

//@ func safeGetInteger (r, canObjStm) (f)
//@   trusted
//@   pure

//@ func (Reference).String (x) (s)
//@   trusted
//@   pure

//@ func (*Reader).get (r, ref, canObjStm, scalarOnly) (obj, err)
//@   tags C04
//@   assigns *
//@   ensures old(!((ref % 4294967296) in r.xref) || r.xref[ref % 4294967296] == nil || r.xref[ref % 4294967296].Pos < 0 || r.xref[ref % 4294967296].Generation != (ref / 4294967296) % 65536) ==> obj == nil && err == nil

// ---- object-stream discipline (C05): what is needed to open an object stream is never
// ---- read from an object stream.  objStmOK is uninterpreted: a function that does not
// ---- require it cannot ask a Getter for compressed objects, so the recursion
// ---- Get -> getFromObjStm -> getObjStm -> DecodeStream -> GetFilters -> Get is cut.
//@ spec func objStmOK(tag int, val int) bool

//@ func (Getter).Get (g, ref, canObjStm) (obj, err)
//@   trusted
//@   requires canObjStm ==> objStmOK(tagof(g), intof(g))
//@   assigns *

//@ func (*CycleCheck).step (path, ref) (next, err)
//@   trusted
//@   nilrecv
//@   assigns nothing
//@   fresh next

//@ func resolvePath (g, path, obj, canObjStm) (n, p, err)
//@   tags C05
//@   requires g != nil
//@   requires canObjStm ==> objStmOK(tagof(g), intof(g))
//@   assigns *

//@ func resolve (r, obj, canObjStm) (n, err)
//@   tags C05
//@   requires r != nil
//@   requires canObjStm ==> objStmOK(tagof(r), intof(r))
//@   assigns *

//@ func getIntegerNoObjStm (r, obj) (n, err)
//@   tags C05
//@   requires r != nil
//@   assigns *

//@ func MakeFilter (name, parms) (f, err)
//@   trusted
//@   assigns nothing

//@ func resolveJBIG2Globals (r, path, f) (err)
//@   tags C05
//@   requires r != nil && f != nil
//@   assigns *

// ReadAll closes the filter chain it opened on every return (C05, C08: a filter's helper
// goroutine ends when its reader is closed).  \local_in is the local variable "in".
//@ func ReadAll (r, path, stream, limit) (data, err)
//@   tags C05 C08
//@   claims post/
//@   assigns *
//@   ensures \local_in != nil ==> \local_in.closed

// the filter chain is capped at 8 entries (C08)
//@ func GetFilters (r, path, dict) (res, err)
//@   tags C05 C08
//@   requires r != nil
//@   assigns *
//@   ensures err == nil ==> len(res) <= 8
//@   loop 1: invariant len(\local_res) <= \done && \done <= 8

//@ func DecodeStream (r, path, x) (rd, err)
//@   tags C05 C08
//@   claims pre/GetFilters/ pre/(Getter).Get/ pre/resolve post/
//@   requires r != nil && x != nil
//@   assigns *
//@   ensures err != nil ==> rd == nil
//@   ensures err != nil && len(\local_filters) > 0 && \local_out != nil ==> \local_out.closed
//@   ensures err != nil ==> forall i in 0..len(\local_lower) :: \local_lower[i].closed
//@   loop 2: invariant \local_out.closed && forall j in 0..\done :: \local_lower[j].closed

// closing the reader returned by DecodeStream closes every layer (found failing on the pinned
// tree: fix 5d066de)
//@ func (*sourceAwareReader).Close (s) (err)
//@   index-hints
//@   tags C05 C08
//@   requires s.inner != nil && forall i in 0..len(s.lower) :: s.lower[i] != nil
//@   assigns \any.closed
//@   ensures s.inner.closed && forall i in 0..len(s.lower) :: s.lower[i].closed
//@   loop 1: invariant s.inner.closed && forall j in 0..\done :: s.lower[j].closed

// a decoder that is not handed to the caller is closed (found failing on the pinned tree:
// fix 4c2399c for getObjStm, 67b5023 for readXRefStream)
//@ func getObjStm (r, stream, getInt, enc) (res, err)
//@   tags C05
//@   claims pre/DecodeStream/ pre/(Getter).Get/ pre/resolve post/
//@   requires r != nil && stream != nil
//@   assigns *
//@   ensures err != nil && \local_decoded != nil ==> \local_decoded.closed

//@ func (*Reader).readXRefStream (r, xref, s) (dict, ref, err)
//@   tags C05
//@   claims post/
//@   assigns *
//@   ensures \local_decoded != nil ==> \local_decoded.closed

// ---- AES-CBC with PKCS#7 padding (C10; ISO 32000-2, 7.6.3.1) ----
// unpadPKCS7 accepts exactly the buffers whose last byte p satisfies 1 <= p <= 16 and whose
// last p bytes all equal p, and strips exactly those p bytes.
//@ spec func padOK(b seq) bool = len(b) >= 16 && len(b) % 16 == 0 && 1 <= b[len(b)-1] && b[len(b)-1] <= 16 && forall i in 0..16 :: i < b[len(b)-1] ==> b[len(b)-1-i] == b[len(b)-1]

//@ func unpadPKCS7 (buf) (out, err)
//@   tags C10 C08
//@   pure
//@   ensures (err == nil) == padOK(buf)
//@   ensures err == nil ==> refof(out) == refof(buf) && offof(out) == offof(buf) && len(out) == len(buf) - buf[len(buf)-1]
//@   ensures err != nil ==> err == errCorrupted
//@   loop 1: invariant 0 <= good && good <= 1 && n == len(buf) && n >= 16 && padByte == buf[n-1]
//@   loop 1: invariant good == 1 <==> (1 <= padByte && padByte <= 16 && forall j in 0..\idx :: j < padByte ==> buf[n-1-j] == padByte)

// The encrypting stream writer hands the cipher exactly the bytes written to it, followed
// on Close by 16-(M mod 16) bytes of that value: the plaintext seen by the cipher is the
// ghost log of w.cbc.
//@ pred ewOK(w *encryptWriter) = w.w != nil && w.cbc != nil && refof(w.w) != refof(w.cbc) && len(w.buf) == 16 && 0 <= w.pos && w.pos < 16

//@ func (*encryptWriter).Close (w) (err)
//@   tags C10
//@   requires ewOK(w)
//@   assigns w.buf, elems(w.buf), w.cbc.log, w.w.log
//@   ensures len(w.cbc.log) == old(len(w.cbc.log)) + 16
//@   ensures forall i in 0..old(len(w.cbc.log)) :: w.cbc.log[i] == old(w.cbc.log[i])
//@   ensures forall k in 0..old(w.pos) :: w.cbc.log[old(len(w.cbc.log)) + k] == old(w.buf[k])
//@   ensures forall k in old(w.pos)..16 :: w.cbc.log[old(len(w.cbc.log)) + k] == 16 - old(w.pos)
//@   loop 1: invariant ewOK(w) && w.pos == old(w.pos) && w.buf == old(w.buf) && kPad == 16 - w.pos && w.pos <= i && i <= 16
//@   loop 1: invariant forall k in 0..w.pos :: w.buf[k] == old(w.buf[k])
//@   loop 1: invariant forall k in w.pos..i :: w.buf[k] == kPad
//@   loop 1: invariant len(w.cbc.log) == old(len(w.cbc.log)) && forall k in 0..len(w.cbc.log) :: w.cbc.log[k] == old(w.cbc.log[k])

//@ func (*encryptWriter).Write (w, p) (n, err)
//@   tags C10
//@   requires ewOK(w)
//@   assigns w.pos, elems(w.buf), w.cbc.log, w.w.log
//@   ensures err == nil ==> ewOK(w) && n == old(len(p))
//@   ensures 0 <= n && n <= old(len(p))
//@   ensures err == nil ==> len(w.cbc.log) + w.pos == old(len(w.cbc.log)) + old(w.pos) + old(len(p))
//@   ensures len(w.cbc.log) % 16 == old(len(w.cbc.log)) % 16
//@   loop 1: invariant ewOK(w) && w.buf == old(w.buf) && w.cbc == old(w.cbc) && w.w == old(w.w) && 0 <= n && n + len(p) == old(len(p))
//@   loop 1: invariant len(w.cbc.log) + w.pos == old(len(w.cbc.log)) + old(w.pos) + n && len(w.cbc.log) % 16 == old(len(w.cbc.log)) % 16
//@   loop 1: decreases len(p)

// ---- per-object keys (C10; ISO 32000-2, 7.6.3.2 Algorithm 1, steps a-c) ----
// For revisions 2-4 the key is the first min(n+5,16) bytes of the MD5 digest of: the file
// key, the low three bytes of the object number and the low two bytes of the generation
// number (low-order byte first), and for AES the four bytes "sAlT".
//@ func (*stdSecHandler).KeyForRef (sec, cf, ref) (key, err)
//@   tags C10
//@   requires cf != nil && sec.keyBytes >= 0
//@   panics-if sec.key != nil && !(2 <= sec.R && sec.R <= 6)
//@   assigns nothing
//@   ensures sec.key == nil ==> err != nil
//@   ensures err == nil && 5 <= sec.R ==> key == sec.key
//@   ensures err == nil && sec.R <= 4 ==> len(key) == min(sec.keyBytes + 5, 16)
//@   ensures err == nil && sec.R <= 4 ==> len(key.digestOf.log) == len(sec.key) + 5 + (cf.Cipher == cipherAES ? 4 : 0)
//@   ensures err == nil && sec.R <= 4 ==> forall i in 0..len(sec.key) :: key.digestOf.log[i] == sec.key[i]
//@   ensures err == nil && sec.R <= 4 ==> key.digestOf.log[len(sec.key)] == (ref % 4294967296) % 256 && key.digestOf.log[len(sec.key)+1] == ((ref % 4294967296) / 256) % 256 && key.digestOf.log[len(sec.key)+2] == ((ref % 4294967296) / 65536) % 256
//@   ensures err == nil && sec.R <= 4 ==> key.digestOf.log[len(sec.key)+3] == (ref / 4294967296) % 256 && key.digestOf.log[len(sec.key)+4] == ((ref / 4294967296) / 256) % 256
//@   ensures err == nil && sec.R <= 4 && cf.Cipher == cipherAES ==> key.digestOf.log[len(sec.key)+5] == 's' && key.digestOf.log[len(sec.key)+6] == 'A' && key.digestOf.log[len(sec.key)+7] == 'l' && key.digestOf.log[len(sec.key)+8] == 'T'

// ---- cross-reference stream fields are written big-endian, most significant byte first (C03) ----
//@ spec func beDigit(x int, w int, k int) int = (x / pow256(w - 1 - k)) % 256

//@ func encodeInt64 (data, x, w) (err)
//@   tags C03 C02
//@   requires data != nil && 0 <= w && w <= 8
//@   assigns data.log
//@   ensures forall i in 0..old(len(data.log)) :: data.log[i] == old(data.log[i])
//@   ensures err == nil ==> len(data.log) == old(len(data.log)) + w
//@   ensures err == nil ==> forall k in 0..w :: data.log[old(len(data.log)) + k] == beDigit(x, w, k)
//@   loop 1: invariant -1 <= i && i <= w - 1 && len(data.log) == old(len(data.log)) + (w - 1 - i)
//@   loop 1: invariant forall j in 0..old(len(data.log)) :: data.log[j] == old(data.log[j])
//@   loop 1: invariant forall k in 0..(w - 1 - i) :: data.log[old(len(data.log)) + k] == beDigit(x, w, k)
//@   loop 1: decreases i + 1

// ---- per-stream budget (C08): JBIG2Decode buffers its whole input, so what it pulls from
// ---- the stage below must be capped by the budget's headroom, not only by the size limit.
// rdpos counts the bytes pulled from r; left is the budget's headroom (ghost, see stdlib.spec).
//@ func asMalformedFilter (rc, err) (res, e)
//@   trusted
//@   assigns nothing

//@ func (*FilterJBIG2).Decode (f, v, r, budget) (rc, err)
//@   tags C08
//@   requires f != nil && r != nil && budget != nil && refof(r) != 0
//@   claims post/ pre/io.LimitReader pre/io.ReadAll
//@   assigns *
//@   ensures r.rdpos <= old(r.rdpos) + max(old(budget.left), 0) + 1
//@   ensures r.rdpos <= old(r.rdpos) + 67108864 + 2

// ---- Copier.Redirect (C11): the redirection always takes effect, also for a reference that
// ---- was copied before; later copies of referring objects point to the new target ----
//@ func (*Copier).Redirect (c, origRef, newRef) ()
//@   tags C11
//@   requires c.trans != nil
//@   assigns mapof(c.trans)
//@   ensures (origRef in c.trans) && c.trans[origRef] == newRef
//@   ensures forall k int :: k != origRef && old(k in c.trans) ==> (k in c.trans) && c.trans[k] == old(c.trans[k])

// ---- seeks on the sink (C19): a failed Seek is never dropped ----
//@ func (*Writer).scannerFrom (w, pos, canObjStm) (s, err)
//@   tags C19
//@   requires w != nil && w.w != nil && impl(w.origW, io.ReadSeeker)
//@   assigns w.origW.seekfails
//@   fresh s
//@   ensures err == nil ==> s != nil && w.origW.seekfails == old(w.origW.seekfails)

// Flush hands buffered bytes to the sinks below: it changes only write logs (assumed).
//@ func (writeFlusher).Flush (f) (err)
//@   trusted
//@   assigns \any.log

//@ func (*Writer).get (w, ref, canObjStm, scalarOnly) (obj, err)
//@   tags C19
//@   claims post/
//@   requires w != nil && w.w != nil && w.w.w != nil
//@   assigns *
//@   ensures err == nil && old(!((ref % 4294967296) in w.xref) || w.xref[ref % 4294967296] == nil || w.xref[ref % 4294967296].InStream == 0) ==> w.origW.seekfails == old(w.origW.seekfails)

// ---- /Filter and /DecodeParms are inlined entry by entry (C11): the arrays keep their length,
// ---- so that the i-th parameter dictionary still belongs to the i-th filter
//@ func inlineFilterRefs (r, val) (res, err)
//@   tags C11
//@   assigns nothing
//@   ensures err == nil && \local_ok ==> istype(res, Array) && len(as(res, Array)) == len(\local_arr)

// ---- filter parameters reach the codecs unchanged (C06, C07): every option of the filter
// ---- value is handed to the internal codec, field by field (ISO 32000-2 Table 11 for CCITT)
//@ func (FilterCCITTFax).toParams (f) (p)
//@   tags C06 C07
//@   assigns nothing
//@   fresh p
//@   ensures p != nil && p.Columns == (f.Columns == 0 ? 1728 : f.Columns) && p.K == f.K && p.MaxRows == f.Rows
//@   ensures p.EndOfLine == f.EndOfLine && p.EncodedByteAlign == f.EncodedByteAlign && p.BlackIs1 == f.BlackIs1
//@   ensures p.IgnoreEndOfBlock == f.IgnoreEndOfBlock && p.DamagedRowsBeforeError == f.DamagedRowsBeforeError

//@ func (FilterCompress).toLZW (f) (l)
//@   tags C06 C07
//@   pure
//@   ensures l.Predictor == f.Predictor && l.Colors == f.Colors && l.BitsPerComponent == f.BitsPerComponent && l.Columns == f.Columns && l.OffByOne

//@ func (FilterCompress).toFlate (f) (l)
//@   tags C06 C07
//@   pure
//@   ensures l.Predictor == f.Predictor && l.Colors == f.Colors && l.BitsPerComponent == f.BitsPerComponent && l.Columns == f.Columns

// the parameter dictionary says how the data was encoded (Table 8): a writer that does not use
// the early change must say so, whatever else the dictionary holds
//@ func (FilterLZW).Info (f, v) (name, parms, err)
//@   tags C02 C06 C07
//@   claims post/
//@   assigns *
//@   ensures err == nil ==> name == "LZWDecode"
//@   ensures err == nil && !f.OffByOne ==> parms != nil && ("EarlyChange" in parms) && istype(parms["EarlyChange"], Integer) && intof(parms["EarlyChange"]) == 0
