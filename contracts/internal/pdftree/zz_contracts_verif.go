//go:build verif

// Contracts for package pdftree, checked by /verif/bin/gocv (see /verif/DESIGN.md).
// This file contains comments only.

package pdftree

//@ package seehuhn.de/go/pdf/internal/pdftree

// ---- keys are stored and read back losslessly (C17): for every 64-bit integer and every
// ---- byte string, decode(encode(k)) == k.  The Cursor methods are assumed to return a
// ---- direct object of the right type unchanged.
//@ func (NumCodec).encode (kc, key) (obj)
//@   tags C17
//@   pure
//@   ensures istype(obj, pdf.Integer) && intof(obj) == key

//@ func (NumCodec).decode (kc, c, obj) (k, err)
//@   tags C17
//@   pure
//@   ensures istype(obj, pdf.Integer) ==> err == nil && k == intof(obj)


//@ func (NameCodec).encode (kc, key) (obj)
//@   tags C17
//@   pure
//@   ensures istype(obj, pdf.String)
