//go:build verif

// Contracts for package lzw, checked by /verif/bin/gocv (see /verif/DESIGN.md).
// This file contains comments only.

package lzw

//@ package seehuhn.de/go/pdf/internal/filter/lzw

// ---- the decoder is total: for every code stream it neither indexes outside its
// ---- tables nor overruns its output buffer (C08) ----
// Representation invariant: hi is below the current code limit, the limit is at most
// 4096, last is invalid or a real code below hi, every prefix link points to a strictly
// smaller code that is not clear/eof (so prefix chains are finite and shorter than the
// free half of the output buffer), and the pending output fits the first half.
//@ spec func pow2w(w int) int = w == 9 ? 512 : w == 10 ? 1024 : w == 11 ? 2048 : 4096
//@ pred lzwOK(r *Reader) = r.src != nil && 257 <= r.hi && r.hi < r.overflow && r.overflow <= 4096 && 9 <= r.currentWidth && r.currentWidth <= 12 && r.overflow == pow2w(r.currentWidth) && r.earlyChange <= 1 && (r.last == 65535 || (r.last < r.hi && r.last != 256 && r.last != 257)) && (forall k in 258..4096 :: r.prefix[k] < k && r.prefix[k] != 256 && r.prefix[k] != 257) && 0 <= r.o && r.o < 4096

//@ func (*Reader).read (r) (code, err)
//@   tags C08
//@   requires r.src != nil && 9 <= r.currentWidth && r.currentWidth <= 12
//@   assigns r.bits, r.nBits, r.src.rdpos
//@   loop 1: invariant r.src != nil && r.src == old(r.src) && r.currentWidth == old(r.currentWidth)

//@ func (*Reader).decode (r) ()
//@   tags C08
//@   requires lzwOK(r)
//@   assigns r.bits, r.nBits, r.src.rdpos, r.err, r.output, r.o, r.suffix, r.prefix, r.last, r.hi, r.currentWidth, r.overflow, r.toRead
//@   ensures lzwOK(r) && r.src == old(r.src) && r.o == 0 && len(r.toRead) <= 8192
//@   loop 1: invariant lzwOK(r) && r.src == old(r.src)
//@   loop 2: invariant c < 4096 && c != 256 && c != 257
//@   loop 2: decreases c
//@   loop 3: invariant c < 4096 && c != 256 && c != 257 && 0 <= i && i <= 8191 && i - c >= 4096
//@   loop 3: decreases c

// Read and NewReader keep and establish the invariant, so every use of the decoder
// through its public interface stays inside the tables.
//@ func (*Reader).Read (r, b) (n, err)
//@   tags C08
//@   requires lzwOK(r)
//@   assigns r.bits, r.nBits, r.src.rdpos, r.err, r.output, r.o, r.suffix, r.prefix, r.last, r.hi, r.currentWidth, r.overflow, r.toRead, elems(b)
//@   ensures lzwOK(r) && 0 <= n && n <= len(b)
//@   loop 1: invariant lzwOK(r) && r.src == old(r.src)

//@ func NewReader (src, earlyChange) (r)
//@   tags C08
//@   requires src != nil
//@   fresh r
//@   assigns nothing
//@   ensures r != nil && lzwOK(r)
