//go:build verif

// Contracts for package jpeg, checked by /verif/bin/gocv (see /verif/DESIGN.md).
// This file contains comments only.

package jpeg

//@ package seehuhn.de/go/pdf/internal/filter/dct/jpeg

// ---- pixel planes (C08): what makeImg allocates has been charged to the budget.
// ---- nil.allocd counts the bytes requested by make (see /verif/trusted/stdlib.spec).
//@ func (*decoder).makeImg (d, mxx, myy) (err)
//@   tags C08
//@   requires d != nil && d.budget != nil && mxx >= 0 && myy >= 0 && d.width >= 0
//@   requires d.nComp == 1 || d.nComp == 3 || d.nComp == 4
//@   requires d.budget.left <= 1099511627776
//@   requires forall i in 0..4 :: 1 <= d.comp[i].h && d.comp[i].h <= 4 && 1 <= d.comp[i].v && d.comp[i].v <= 4
//@   assigns d.all, d.budget.left
//@   ensures err == nil ==> nil.allocd - old(nil.allocd) <= old(d.budget.left) - d.budget.left
//@   ensures err != nil ==> nil.allocd == old(nil.allocd)
