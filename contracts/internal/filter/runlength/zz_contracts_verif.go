//go:build verif

// Contracts for package runlength, checked by /verif/bin/gocv (see /verif/DESIGN.md).
// This file contains comments only.

package runlength

//@ package seehuhn.de/go/pdf/internal/filter/runlength

// ---- encoder (ISO 32000-2, 7.4.5): every flush emits one well-formed packet ----
//@ pred rlInv(w *rlWriter) = w.w != nil && 0 <= w.used && w.used <= 127 && (w.repeatCount == 0 || (3 <= w.repeatCount && w.repeatCount <= 128 && w.used == 0))

//@ func (*rlWriter).flushLiteral (w, count) (err)
//@   tags C06 C07 C08
//@   requires w.w != nil && 1 <= count && count <= 128
//@   assigns w.used, w.buf, w.w.log
//@   ensures w.used == 0 && w.repeatCount == old(w.repeatCount) && w.w == old(w.w)
//@   ensures forall i in 0..old(len(w.w.log)) :: w.w.log[i] == old(w.w.log[i])
//@   ensures err == nil ==> len(w.w.log) == old(len(w.w.log)) + count + 1 && w.w.log[old(len(w.w.log))] == count - 1
//@   ensures err == nil ==> forall k in 0..count :: w.w.log[old(len(w.w.log)) + 1 + k] == old(w.buf[1 + k])
//@   ensures forall k in 1..129 :: w.buf[k] == old(w.buf[k])

//@ func (*rlWriter).flushRepeat (w) (err)
//@   tags C06 C07 C08
//@   requires w.w != nil && 2 <= w.repeatCount && w.repeatCount <= 128
//@   assigns w.repeatCount, w.buf, w.w.log
//@   ensures w.repeatCount == 0 && w.used == old(w.used) && w.w == old(w.w)
//@   ensures forall i in 0..old(len(w.w.log)) :: w.w.log[i] == old(w.w.log[i])
//@   ensures err == nil ==> len(w.w.log) == old(len(w.w.log)) + 2 && w.w.log[old(len(w.w.log))] == 257 - old(w.repeatCount) && w.w.log[old(len(w.w.log)) + 1] == old(w.repeatVal)
//@   ensures 129 <= 257 - old(w.repeatCount) && 257 - old(w.repeatCount) <= 255

//@ func (*rlWriter).Write (w, p) (n, err)
//@   tags C06 C07 C08
//@   requires rlInv(w)
//@   assigns w.used, w.repeatCount, w.repeatVal, w.buf, w.w.log
//@   ensures rlInv(w) && 0 <= n && n <= len(p) && (err == nil ==> n == len(p))
//@   ensures forall i in 0..old(len(w.w.log)) :: w.w.log[i] == old(w.w.log[i])
//@   loop 1: invariant rlInv(w) && w.w == old(w.w) && 0 <= n && n <= len(p)
//@   loop 1: invariant len(w.w.log) >= old(len(w.w.log)) && forall i in 0..old(len(w.w.log)) :: w.w.log[i] == old(w.w.log[i])
//@   loop 1: decreases len(p) - n

//@ func (*rlWriter).Close (w) (err)
//@   tags C06 C07 C08
//@   requires rlInv(w)
//@   assigns w.used, w.repeatCount, w.buf, w.w.log
//@   ensures forall i in 0..old(len(w.w.log)) :: w.w.log[i] == old(w.w.log[i])
//@   ensures err == nil ==> len(w.w.log) > old(len(w.w.log)) && w.w.log[len(w.w.log) - 1] == 128

// ---- decoder: total on arbitrary input ----
//@ func (*rlReader).Read (r, p) (n, err)
//@   tags C06 C07 C08
//@   requires r.br != nil && 0 <= r.count && r.count <= 128
//@   assigns r.err, r.literal, r.count, r.value, elems(p), r.br.rdpos
//@   ensures 0 <= r.count && r.count <= 128 && 0 <= n && n <= len(p)
//@   loop 1: invariant r.br != nil && r.br == old(r.br) && 0 <= r.count && r.count <= 128 && 0 <= n && n + len(p) == old(len(p)) && refof(p) == old(refof(p)) && offof(p) == old(offof(p)) + n
//@   loop 2: invariant 0 <= count && count <= len(p) && count <= r.count
