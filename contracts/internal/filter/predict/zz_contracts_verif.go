//go:build verif

// Contracts for package predict, checked by /verif/bin/gocv (see /verif/DESIGN.md).
// This file contains comments only.

package predict

//@ package seehuhn.de/go/pdf/internal/filter/predict

// ---- geometry of a predictor row (PNG: "bpp is the number of bytes per complete pixel,
// ---- rounding up to one"; TIFF 6.0 section 14; ISO 32000-2 7.4.4.4) ----
//@ func (*Params).bitsPerPixel (p) (n)
//@   tags C06 C07
//@   pure
//@   ensures n == p.Colors * p.BitsPerComponent

//@ func (*Params).bitsPerRow (p) (n)
//@   tags C06 C07
//@   pure
//@   ensures n == p.Colors * p.BitsPerComponent * p.Columns

//@ func (*Params).bytesPerRow (p) (n)
//@   tags C06 C07
//@   pure
//@   requires p.Colors >= 0 && p.BitsPerComponent >= 0 && p.Columns >= 0
//@   ensures 8 * n >= p.Colors * p.BitsPerComponent * p.Columns && 8 * n < p.Colors * p.BitsPerComponent * p.Columns + 8

//@ func (*Params).bytesPerPixel (p) (n)
//@   tags C06 C07
//@   pure
//@   requires p.Colors >= 0 && p.BitsPerComponent >= 0
//@   ensures 8 * n >= p.Colors * p.BitsPerComponent && 8 * n < p.Colors * p.BitsPerComponent + 8
