//go:build verif

// Contracts for package limits, checked by /verif/bin/gocv (see /verif/DESIGN.md).
// This file contains comments only.

package limits

//@ package seehuhn.de/go/pdf/internal/limits

// ---- documented budgets (C05, C08): the formulas in the doc comments, as postconditions ----
// StreamBudget = 8 MiB + min(1024 * rawLen, 256 MiB): never above 264 MiB.
//@ func StreamBudget (rawLen) (n)
//@   tags C05 C08
//@   pure
//@   ensures n == 8388608 + min(1024 * max(rawLen, 0), 268435456)
//@   ensures 8388608 <= n && n <= 276824064

// MaxXRefEntries = 8192 + 32 * rawLen
//@ func MaxXRefEntries (rawLen) (n)
//@   tags C05
//@   pure
//@   ensures n == 8192 + 32 * max(rawLen, 0)

//@ func ShadingBudget (rawLen) (n)
//@   tags C05
//@   pure
//@   ensures n >= 8388608 && (rawLen <= 0 ==> n == 8388608)

//@ func imageDecodedBytes (width, height, channels, bpc) (n)
//@   tags C05
//@   pure
//@   requires width >= 0 && height >= 0 && channels >= 0 && bpc >= 0
//@   ensures n == ((width * channels * bpc + 7) / 8) * height
