//go:build verif

// Contracts for package charcode, checked by /verif/bin/gocv (see /verif/DESIGN.md).
// This file contains comments only.

package charcode

//@ package seehuhn.de/go/pdf/font/charcode

// ---- representation invariant of the linearised lookup tree ----
// Every run of sibling nodes ends with a node whose bound is 255 (so the linear scan
// stops inside the array), and every child index is a leaf marker or points into the
// array.  The invariant is established by NewCodec (checked on every codec built by the
// labelled bounded harness c12-charcode) and assumed here.
//@ pred codecOK(c *Codec) = 1 <= len(c.nodes) && len(c.nodes) <= 65000 && (forall i in 0..len(c.nodes) :: (c.nodes[i].bound == 255 || i + 1 < len(c.nodes)) && (c.nodes[i].child < len(c.nodes) || c.nodes[i].child >= 65532))

// ---- Decode is total: at least one byte and never more than available ----
//@ func (*Codec).Decode (c, s) (code, consumed, valid)
//@   tags C12
//@   requires codecOK(c)
//@   assigns nothing
//@   ensures 0 <= consumed && consumed <= old(len(s))
//@   ensures old(len(s)) > 0 ==> consumed >= 1
//@   ensures old(len(s)) == 0 ==> consumed == 0 && !valid && code == 0
//@   loop 1: invariant 0 <= consumed && consumed + len(s) == old(len(s)) && cur < len(c.nodes) && !valid && (consumed == 0 ==> code == 0)
//@   loop 1: decreases len(s)
//@   loop 2: invariant cur < len(c.nodes) && len(s) == pre(len(s))
//@   loop 2: decreases len(c.nodes) - cur
