//go:build verif

// Contracts for package cmap, checked by /verif/bin/gocv (see /verif/DESIGN.md).
// This file contains comments only.

package cmap

//@ package seehuhn.de/go/pdf/font/cmap

// ---- ranges: a range is a box of equally long codes; the position of a code inside
// ---- the box is its mixed-radix value, last byte fastest (ISO 32000-2, 9.7.5.3) ----
//@ spec rec func rix(first seq, last seq, code seq, k int) int = k <= 0 ? 0 : rix(first, last, code, k-1) * (last[k-1] - first[k-1] + 1) + (code[k-1] - first[k-1])

//@ func rangeIsValid (first, last) (ok)
//@   tags C13
//@   pure
//@   index-hints
//@   ensures ok == (len(first) == len(last) && len(first) > 0 && forall i in 0..len(first) :: first[i] <= last[i])
//@   loop 1: invariant forall i in 0..\done :: first[i] <= last[i]

//@ func rangeIndex (first, last, code) (index, ok)
//@   tags C13
//@   pure
//@   index-hints
//@   ensures ok ==> len(first) == len(code) && len(last) == len(code) && (forall i in 0..len(code) :: first[i] <= code[i] && code[i] <= last[i])
//@   ensures ok ==> index == rix(first, last, code, len(code)) && 0 <= index && index <= 2147483647
//@   ensures !ok && len(first) == len(code) && len(last) == len(code) && (forall i in 0..len(code) :: first[i] <= code[i] && code[i] <= last[i]) ==> (exists k in 0..len(code)+1 :: rix(first, last, code, k) > 2147483647)
//@   loop 1: invariant (forall i in 0..\done :: first[i] <= code[i] && code[i] <= last[i]) && acc == rix(first, last, code, \done) && 0 <= acc && acc <= 2147483647
