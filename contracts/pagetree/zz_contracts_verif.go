//go:build verif

// Contracts for package pagetree, checked by /verif/bin/gocv (see /verif/DESIGN.md).
// This file contains comments only.

package pagetree

//@ package seehuhn.de/go/pdf/pagetree

// ---- a single page becomes a tree (C16): the wrapper node lists the page as its only kid,
// ---- counts one page, and the page's /Parent points to the wrapper ----
//@ func (*Writer).wrapIfLeaf (w, node) (res)
//@   tags C16
//@   requires w.Out != nil && node != nil && node.dictInfo != nil && node.pendingPage == nil && node.dictInfo.dict != nil
//@   claims post/
//@   assigns *
//@   ensures old(tagof(node.dictInfo.dict["Type"])) == 0 ==> res != nil && res != node.dictInfo && istype(old(node.dictInfo.dict)["Parent"], pdf.Reference) && intof(old(node.dictInfo.dict)["Parent"]) == res.ref
//@   ensures old(tagof(node.dictInfo.dict["Type"])) == 0 ==> istype(res.dict["Count"], pdf.Integer) && intof(res.dict["Count"]) == 1
