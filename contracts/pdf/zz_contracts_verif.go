//go:build verif

// Contracts for package pdf, checked by /verif/bin/gocv (see /verif/DESIGN.md).
// This file contains comments only.

package pdf

//@ package seehuhn.de/go/pdf

// ---- lexical classes (ISO 32000-2, 7.2.3) ----
//@ spec func isSpace(c int) bool = c == 0 || c == 9 || c == 10 || c == 12 || c == 13 || c == 32
//@ spec func isDelim(c int) bool = c == '(' || c == ')' || c == '<' || c == '>' || c == '[' || c == ']' || c == '{' || c == '}' || c == '/' || c == '%'
//@ spec func isRegular(c int) bool = !isSpace(c) && !isDelim(c)
//@ spec func isHex(c int) bool = ('0' <= c && c <= '9') || ('A' <= c && c <= 'F') || ('a' <= c && c <= 'f')
//@ spec func hexVal(c int) int = c <= '9' ? c - '0' : c <= 'F' ? c - 'A' + 10 : c - 'a' + 10

//@ func hexDigit (c) (d)
//@   tags C01 C04 C05
//@   ensures isHex(c) ==> d == hexVal(c)
//@   ensures !isHex(c) ==> d == 255

// ---- permissions (ISO 32000-2 Table 22; bits are 1-based) ----
//@ spec func has(perm int, m int) bool = (perm / m) % 2 == 1
//@ spec func specPermToP(perm int) int = 4294967295 - (3 + (has(perm,1) ? 0 : 16) + (has(perm,4) ? 0 : (2048 + (has(perm,2) ? 0 : 4))) + (has(perm,16) ? 0 : (32 + (has(perm,8) ? 0 : 256))) + (has(perm,32) ? 0 : 1024) + (has(perm,64) ? 0 : 8))
//@ spec func closure(perm int) int = perm % 128 + (has(perm,4) && !has(perm,2) ? 2 : 0) + (has(perm,16) && !has(perm,8) ? 8 : 0) + (has(perm,64) && !has(perm,32) ? 32 : 0)
//@ spec func pb(P int, k int) bool = (P / k) % 2 == 1
//@ spec func specPToPerm(R int, P int) int = 1 * (pb(P,16) ? 1 : 0)
//@   | + ((R == 2 ? pb(P,4) : (R >= 3 ? (pb(P,4) || pb(P,2048)) : true)) ? 2 : 0)
//@   | + ((R == 2 ? pb(P,4) : (R >= 3 ? (!pb(P,4) || pb(P,2048)) && (pb(P,4) || pb(P,2048)) : true)) ? 4 : 0)
//@   | + ((pb(P,32) || pb(P,256)) ? 8 : 0) + (pb(P,32) ? 16 : 0) + ((pb(P,8) || pb(P,1024)) ? 32 : 0) + (pb(P,8) ? 64 : 0)

//@ func stdSecPermToP (perm) (P)
//@   tags C09
//@   requires 0 <= perm && perm <= 127
//@   ensures P == specPermToP(perm)

//@ func stdSecPToPerm (R, P) (perm)
//@   tags C09
//@   ensures perm == specPToPerm(R, P)

//@ lemma permRoundTrip(perm int, R int)
//@   tags C09
//@   requires 0 <= perm && perm <= 127 && R >= 3
//@   ensures specPToPerm(R, specPermToP(perm)) == closure(perm)

//@ func decodeInt (buf) (res, err)
//@   tags C02 C04
//@   requires len(buf) <= 8
//@   loop 1: invariant 0 <= res && res < pow256(\done)
//@   loop 1: invariant res == beVal(buf, \done)
//@   ensures err == nil ==> res == beVal(buf, len(buf))
//@   ensures err != nil ==> beVal(buf, len(buf)) > 9223372036854775807
//@ spec func pow256(k int) int = k <= 0 ? 1 : k == 1 ? 256 : k == 2 ? 65536 : k == 3 ? 16777216 : k == 4 ? 4294967296 : k == 5 ? 1099511627776 : k == 6 ? 281474976710656 : k == 7 ? 72057594037927936 : 18446744073709551616
//@ spec rec func beVal(b seq, k int) int = k <= 0 ? 0 : beVal(b, k-1) * 256 + b[k-1]

//@ func (*xRefEntry).IsFree (entry) (free)
//@   tags C04
//@   ensures free == (entry == nil || entry.Pos < 0)
