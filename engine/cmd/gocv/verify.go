package main

import (
	"fmt"
	"go/types"
	"os"
	"path/filepath"
	"sort"
	"strings"

	"golang.org/x/tools/go/packages"
	"golang.org/x/tools/go/ssa"
	"golang.org/x/tools/go/ssa/ssautil"
)

const prelude = `(declare-sort Str 0)
(declare-sort Flt 0)
(declare-fun gs.len (Str) Int)
(declare-fun gs.at (Str Int) Int)
(declare-fun gs.empty () Str)
(assert (= (gs.len gs.empty) 0))
(assert (forall ((s Str)) (! (>= (gs.len s) 0) :pattern ((gs.len s)))))
(assert (forall ((s Str) (i Int)) (! (and (<= 0 (gs.at s i)) (<= (gs.at s i) 255)) :pattern ((gs.at s i)))))
(declare-fun gs.arr (Str) (Array Int Int))
(assert (forall ((s Str) (i Int)) (! (= (select (gs.arr s) i) (gs.at s i)) :pattern ((select (gs.arr s) i)))))
(declare-fun flt.zero () Flt)
(declare-fun flt.add (Flt Flt) Flt)
(declare-fun flt.sub (Flt Flt) Flt)
(declare-fun flt.mul (Flt Flt) Flt)
(declare-fun flt.div (Flt Flt) Flt)
(declare-fun flt.neg (Flt) Flt)
(declare-fun flt.lt (Flt Flt) Bool)
(declare-fun flt.le (Flt Flt) Bool)
(declare-fun flt.ofint (Int) Flt)
(declare-fun flt.toint (Flt) Int)`

type Program struct {
	prog  *ssa.Program
	pkgs  []*ssa.Package
	ppkgs []*packages.Package
	funcs map[string]*ssa.Function // by String()
}

// LoadProgram loads the given package patterns from dir with the verif tag.
func LoadProgram(dir string, patterns []string) (*Program, error) {
	cfg := &packages.Config{Mode: packages.LoadAllSyntax, Dir: dir, BuildFlags: []string{"-tags=verif"}, Env: append(os.Environ(), "GOFLAGS=-mod=mod", "GOPROXY=off")}
	pp, err := packages.Load(cfg, patterns...)
	if err != nil {
		return nil, err
	}
	for _, p := range pp {
		for _, e := range p.Errors {
			return nil, fmt.Errorf("load %s: %v", p.PkgPath, e)
		}
	}
	prog, spkgs := ssautil.AllPackages(pp, ssa.NaiveForm|ssa.InstantiateGenerics)
	prog.Build()
	P := &Program{prog: prog, ppkgs: pp, funcs: map[string]*ssa.Function{}}
	for _, sp := range spkgs {
		if sp != nil {
			P.pkgs = append(P.pkgs, sp)
		}
	}
	for fn := range ssautil.AllFunctions(prog) {
		// generic functions and their synthetic instantiation wrappers print alike: keep
		// the one written in the source (deterministically)
		if old, dup := P.funcs[fn.String()]; dup && old.Synthetic == "" && fn.Synthetic != "" {
			continue
		}
		P.funcs[fn.String()] = fn
	}
	for _, sp := range P.pkgs {
		for _, mem := range sp.Members {
			tn, ok := mem.(*ssa.Type)
			if !ok {
				continue
			}
			for _, t := range []types.Type{tn.Type(), types.NewPointer(tn.Type())} {
				ms := prog.MethodSets.MethodSet(t)
				for i := 0; i < ms.Len(); i++ {
					if fn := prog.MethodValue(ms.At(i)); fn != nil && fn.Synthetic == "" {
						P.funcs[fn.String()] = fn
					}
				}
			}
		}
	}
	return P, nil
}

// FindFunc resolves a contract key (pkgpath::RelName or full name).
func (P *Program) FindFunc(key string) *ssa.Function {
	if i := strings.Index(key, "::"); i >= 0 {
		path, rel := key[:i], key[i+2:]
		for fn := range P.allIn(path) {
			if fn.RelString(fn.Pkg.Pkg) == rel {
				return fn
			}
		}
		// generic functions: match the full name, preferring the body over the
		// synthetic instantiation wrappers
		full := path + "." + rel
		if strings.HasPrefix(rel, "(*") {
			full = "(*" + path + "." + rel[2:]
		} else if strings.HasPrefix(rel, "(") {
			full = "(" + path + "." + rel[1:]
		}
		var cand *ssa.Function
		for _, fn := range P.funcs {
			if fn.String() == full && len(fn.Blocks) > 0 {
				if fn.Synthetic == "" {
					return fn
				}
				cand = fn
			}
		}
		return cand
	}
	return P.funcs[key]
}

func (P *Program) allIn(path string) map[*ssa.Function]bool {
	out := map[*ssa.Function]bool{}
	for _, fn := range P.funcs {
		if fn.Pkg != nil && fn.Pkg.Pkg.Path() == path {
			out[fn] = true
		}
	}
	return out
}

type FuncResult struct {
	Name     string
	Fn       *ssa.Function
	Contract *FuncContract
	Obs      []*Obligation
	Err      string // outside subset / contract error
	Notes    map[string]int
}

// VerifyFunction generates all obligations of one function.
func VerifyFunction(P *Program, C *Contracts, fn *ssa.Function, fc *FuncContract, cfg *Config) (res *FuncResult) {
	name := fn.String()
	resetGlobals()
	res = &FuncResult{Name: name, Fn: fn, Contract: fc, Notes: map[string]int{}}
	e := &Engine{ctx: NewCtx(), prog: P.prog, contracts: C, heapSorts: map[string]string{}, topFn: fn, topName: shortName(name),
		ordinals: map[string]int{}, notes: res.Notes, cfg: cfg, fc: fc}
	if fc != nil {
		e.tags = fc.Tags
		if fc.Overflow {
			c2 := *cfg
			c2.Overflow = true
			e.cfg = &c2
		}
	}
	e.ctx.pre = append(e.ctx.pre, prelude)
	defer func() {
		if r := recover(); r != nil {
			if u, ok := r.(unsupported); ok {
				res.Err = u.msg
				res.Obs = e.obs
				return
			}
			panic(r)
		}
	}()
	st := &State{pc: "true", cells: map[*Cell]Val{}, heap: map[string]string{}, globals: map[*ssa.Global]Val{}, epoch: "0"}
	st.top = e.ctx.Declare("top0", "Int")
	e.ctx.Assume(sx("<=", "0", st.top))
	e.entryTop = st.top
	params := make([]Val, len(fn.Params))
	for i, p := range fn.Params {
		params[i] = e.freshVal("p$"+p.Name(), p.Type(), st)
		params[i].Typ = p.Type()
	}
	if fn.Signature.Recv() != nil && len(params) > 0 && params[0].K == KScalar {
		if _, isPtr := under(fn.Signature.Recv().Type()).(*types.Pointer); isPtr && !(fc != nil && fc.NilRecv) {
			e.ctx.Assume(not(eq(params[0].T, "0")))
			e.note("method receivers are assumed non-nil")
		}
	}
	free := make([]Val, len(fn.FreeVars))
	for i, fv := range fn.FreeVars {
		// free variables are pointers to captured cells of the enclosing function
		t := fv.Type().(*types.Pointer).Elem()
		e.cellID++
		c := &Cell{Name: fv.Name(), Typ: t, ID: e.cellID}
		st.cells[c] = e.freshVal("fv$"+fv.Name(), t, st)
		free[i] = Val{K: KPtr, P: &Ptr{K: PCell, Cell: c, Typ: t}}
	}
	fr := e.newFrame(fn, params, free, st, nil)
	fr.freeCells = map[string]*Cell{}
	for _, f := range free {
		fr.freeCells[f.P.Cell.Name] = f.P.Cell
	}
	fr.top = true
	fr.contract = fc
	ws := newWriteSet()
	e.recorders = append(e.recorders, ws)
	if fc != nil {
		e.assumeLemmas(fc.Uses)
		env := e.baseEnv(fr, st)
		env.curFunc = fc.Name
		for _, r := range fc.Requires {
			e.ctx.Assume(e.evalBool(r.Expr, env))
		}
		fr.entry = st.clone()
		if len(fc.Requires) > 0 {
			o := e.oblige(st, "cover/pre", "false", "", "precondition is satisfiable", fc.Tags)
			o.Expect = "sat"
		}
	}
	rets := e.runBody(fr, st)
	if len(rets) > 0 {
		var pcs []string
		for _, r := range rets {
			pcs = append(pcs, r.st.pc)
		}
		cst := &State{pc: or(pcs...)}
		o := e.oblige(cst, "canary", "false", "", "some return is reachable under all assumptions", nil)
		if o != nil {
			o.Expect = "sat"
			if fc != nil {
				o.Tags = fc.Tags
			}
		}
	}
	res.Obs = e.obs
	if fc != nil && len(fc.Claims) > 0 {
		// a partial contract: only the named groups of obligations are claimed (and
		// solved); everything else about the function is left undecided
		var keep []*Obligation
		for _, o := range e.obs {
			local := strings.TrimPrefix(o.Name, e.topName+"/")
			ok := o.expect() == "sat"
			if strings.Contains(local, "inv-entry/") || strings.Contains(local, "inv-preserved/") {
				// stated loop invariants are assumed at the loop head, so they are
				// always proved, whatever else the partial contract leaves out
				ok = true
			}
			for _, c := range fc.Claims {
				if strings.HasPrefix(local, c) {
					ok = true
				}
			}
			if ok {
				keep = append(keep, o)
			}
		}
		e.note(fmt.Sprintf("partial contract: only the obligations %s of %s are claimed (%d others not attempted)", strings.Join(fc.Claims, ", "), e.topName, len(e.obs)-len(keep)))
		res.Obs = keep
	}
	return res
}

// LoadContracts reads all contract files below root (zz_contracts_verif.go and *.spec).
func LoadContracts(roots ...string) (*Contracts, error) {
	C := NewContracts()
	for _, root := range roots {
		var files []string
		filepath.Walk(root, func(p string, info os.FileInfo, err error) error {
			if err != nil {
				return nil
			}
			if info.IsDir() {
				if n := info.Name(); n == ".git" || n == "vendor" || n == "testdata" {
					return filepath.SkipDir
				}
				return nil
			}
			if strings.HasSuffix(p, "_contracts_verif.go") || strings.HasSuffix(p, ".spec") {
				files = append(files, p)
			}
			return nil
		})
		sort.Strings(files)
		for _, f := range files {
			if err := C.LoadContractFile(f, ""); err != nil {
				return nil, err
			}
		}
	}
	return C, nil
}

// VerifyGlobalInit proves the declared invariants of a package-level variable
// against the slice of the package initialiser that computes its value.
func VerifyGlobalInit(P *Program, C *Contracts, gi GlobalInv) (obs []*Obligation, errs string) {
	var pkg *ssa.Package
	for _, p := range P.prog.AllPackages() {
		if p.Pkg.Path() == gi.Pkg {
			pkg = p
		}
	}
	if pkg == nil {
		return nil, "package not loaded: " + gi.Pkg
	}
	g, ok := pkg.Members[gi.Name].(*ssa.Global)
	if !ok {
		return nil, "no such global: " + gi.Name
	}
	init := pkg.Func("init")
	e := &Engine{ctx: NewCtx(), prog: P.prog, contracts: C, heapSorts: map[string]string{}, topFn: init, topName: "global." + gi.Name,
		ordinals: map[string]int{}, notes: map[string]int{}, cfg: &Config{InlineMax: 0}, tags: gi.Tags}
	e.ctx.pre = append(e.ctx.pre, prelude)
	defer func() {
		if r := recover(); r != nil {
			if u, ok := r.(unsupported); ok {
				errs = u.msg
				return
			}
			panic(r)
		}
	}()
	// backward slice from the stores to g
	need := map[ssa.Instruction]bool{}
	allocs := map[*ssa.Alloc]bool{}
	var work []ssa.Value
	var theStore *ssa.Store
	for _, b := range init.Blocks {
		for _, ins := range b.Instrs {
			if s, ok := ins.(*ssa.Store); ok && s.Addr == ssa.Value(g) {
				if theStore != nil {
					return nil, "global assigned more than once in init"
				}
				theStore = s
				need[s] = true
				work = append(work, s.Val)
			}
		}
	}
	if theStore == nil {
		return nil, "global is not assigned in init"
	}
	if e.mutableGlobal(g) {
		return nil, "global is assigned outside of init"
	}
	for len(work) > 0 {
		v := work[len(work)-1]
		work = work[:len(work)-1]
		ins, ok := v.(ssa.Instruction)
		if !ok || need[ins] {
			continue
		}
		need[ins] = true
		switch x := ins.(type) {
		case *ssa.Alloc:
			allocs[x] = true
			for _, r := range *x.Referrers() {
				switch rr := r.(type) {
				case *ssa.Store:
					if rr.Addr == ssa.Value(x) {
						need[rr] = true
						work = append(work, rr.Val)
					}
				case *ssa.IndexAddr, *ssa.FieldAddr:
					work = append(work, rr.(ssa.Value))
					for _, r2 := range *rr.(ssa.Value).Referrers() {
						if st, ok := r2.(*ssa.Store); ok && st.Addr == rr.(ssa.Value) {
							need[st] = true
							work = append(work, st.Val)
						}
					}
				case *ssa.UnOp, *ssa.Slice:
				default:
					return nil, fmt.Sprintf("initialiser escapes through %T", r)
				}
			}
		case *ssa.Call:
			return nil, "initialiser depends on a call"
		}
		for _, op := range ins.Operands(nil) {
			if *op != nil {
				work = append(work, *op)
			}
		}
	}
	st := &State{pc: "true", cells: map[*Cell]Val{}, heap: map[string]string{}, globals: map[*ssa.Global]Val{}, epoch: "0"}
	st.top = e.ctx.Declare("top0", "Int")
	e.ctx.Assume(sx("<=", "0", st.top))
	fr := e.newFrame(init, nil, nil, st, nil)
	blk := theStore.Block()
	for ins := range need {
		if ins.Block() != blk {
			return nil, "initialiser spans several blocks"
		}
	}
	for _, ins := range blk.Instrs {
		if need[ins] {
			e.execInstr(fr, st, ins)
		}
	}
	env := &Env{e: e, st: st, bound: map[string]Val{}, names: map[string]Val{}, pkg: pkg.Pkg, curFunc: "global " + gi.Name}
	e.contracts = &Contracts{Funcs: C.Funcs, Specs: C.Specs, Ghosts: C.Ghosts, Consts: C.Consts} // no circular use of the invariant
	goal := e.evalBool(gi.Expr, env)
	e.oblige(st, "init", goal, gi.Pos, "initialiser establishes: "+gi.Src, gi.Tags)
	return e.obs, ""
}

// resetGlobals makes the encoding of one function independent of what was verified before it.
func resetGlobals() {
	typeTags = map[string]int{}
	typeTagTypes = map[int]types.Type{}
	embIndex = map[string]int{}
	globalRefs = map[string]int{}
	refHeaps = map[string]bool{}
	mutableCache = map[*ssa.Global]bool{}
	quantN = 0
}
