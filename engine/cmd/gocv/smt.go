package main

// SMT context: an append-only list of declarations, definitions and
// assumptions.  An obligation is a snapshot (prefix length, path condition,
// goal).  Each obligation becomes one SMT-LIB query that is raced on the
// installed solvers.

import (
	"bytes"
	"context"
	"fmt"
	"os"
	"os/exec"
	"path/filepath"
	"regexp"
	"strings"
	"sync"
	"time"
)

type Ctx struct {
	lines []string
	n     int
	decls map[string]bool // global declarations already emitted (by name)
	pre   []string        // global prelude (sorts, spec functions, axioms)
}

func NewCtx() *Ctx { return &Ctx{decls: map[string]bool{}} }

func (c *Ctx) fresh(hint string) string {
	c.n++
	h := sanitize(hint)
	if h == "" {
		h = "v"
	}
	return fmt.Sprintf("%s!%d", h, c.n)
}

func sanitize(s string) string {
	var b strings.Builder
	for _, r := range s {
		switch {
		case r >= 'a' && r <= 'z', r >= 'A' && r <= 'Z', r >= '0' && r <= '9', r == '_', r == '.', r == '$':
			b.WriteRune(r)
		default:
			b.WriteByte('_')
		}
	}
	return b.String()
}

func (c *Ctx) emit(s string) { c.lines = append(c.lines, s) }

// Declare introduces an unconstrained constant.
func (c *Ctx) Declare(hint, sort string) string {
	n := c.fresh(hint)
	c.emit(fmt.Sprintf("(declare-fun %s () %s)", n, sort))
	return n
}

// Define names a term.  Small terms are returned unchanged.
func (c *Ctx) Define(hint, sort, term string) string {
	if len(term) < 40 && !strings.Contains(term, "ite") {
		return term
	}
	n := c.fresh(hint)
	c.emit(fmt.Sprintf("(define-fun %s () %s %s)", n, sort, term))
	return n
}

// Assume adds a hypothesis (must already be guarded by the path condition
// where that matters).
func (c *Ctx) Assume(t string) {
	if t == "true" {
		return
	}
	c.emit(fmt.Sprintf("(assert %s)", t))
}

// Global declares a global symbol once (prelude).
func (c *Ctx) Global(name, decl string) {
	if c.decls[name] {
		return
	}
	c.decls[name] = true
	c.pre = append(c.pre, decl)
}

func (c *Ctx) Mark() int { return len(c.lines) }

// ---- term helpers ----

func sx(op string, args ...string) string {
	return "(" + op + " " + strings.Join(args, " ") + ")"
}

func and(ts ...string) string {
	var out []string
	for _, t := range ts {
		if t == "true" || t == "" {
			continue
		}
		if t == "false" {
			return "false"
		}
		out = append(out, t)
	}
	switch len(out) {
	case 0:
		return "true"
	case 1:
		return out[0]
	}
	return sx("and", out...)
}

func or(ts ...string) string {
	var out []string
	for _, t := range ts {
		if t == "false" || t == "" {
			continue
		}
		if t == "true" {
			return "true"
		}
		out = append(out, t)
	}
	switch len(out) {
	case 0:
		return "false"
	case 1:
		return out[0]
	}
	return sx("or", out...)
}

func not(t string) string {
	switch t {
	case "true":
		return "false"
	case "false":
		return "true"
	}
	if strings.HasPrefix(t, "(not ") && balanced(t[5:len(t)-1]) {
		return t[5 : len(t)-1]
	}
	return sx("not", t)
}

func balanced(s string) bool {
	d := 0
	for i := 0; i < len(s); i++ {
		switch s[i] {
		case '(':
			d++
		case ')':
			d--
			if d < 0 {
				return false
			}
			if d == 0 && i != len(s)-1 {
				return false
			}
		case ' ':
			if d == 0 {
				return false
			}
		}
	}
	return d == 0
}

func implies(a, b string) string {
	if a == "true" {
		return b
	}
	if b == "true" || a == "false" {
		return "true"
	}
	return sx("=>", a, b)
}

func ite(c, a, b string) string {
	if a == b {
		return a
	}
	if c == "true" {
		return a
	}
	if c == "false" {
		return b
	}
	return sx("ite", c, a, b)
}

func eq(a, b string) string {
	if a == b {
		return "true"
	}
	return sx("=", a, b)
}

func num(n int64) string {
	if n < 0 {
		if n == -1<<63 {
			return "(- 9223372036854775808)"
		}
		return fmt.Sprintf("(- %d)", -n)
	}
	return fmt.Sprintf("%d", n)
}

func unum(n uint64) string { return fmt.Sprintf("%d", n) }

// ---- obligations and solving ----

type Obligation struct {
	Name    string   // stable name: pkg.Func/kind/ordinal
	Func    string   // function under contract
	Kind    string   // safety/idx, post, inv-entry, ...
	Tags    []string // properties served
	Mark    int      // context prefix length
	PC      string   // path condition
	Goal    string   // goal term
	Pos     string   // source position (informational)
	Desc    string   // human-readable description
	Expect  string   // "unsat" (default) or "sat" (cover / canary)
	ctx     *Ctx
	Result  string // unsat | sat | unknown | timeout
	Solver  string
	TimeS   float64
	Model   string
	Outputs map[string]string
	SMTSize int
	Extra   []string // extra hypotheses local to this obligation
}

func (o *Obligation) Query(produceModels bool) string { return o.query(produceModels, false) }

// norecQuery is the query without the defining axioms of recursive spec functions (they
// become uninterpreted; sound: fewer hypotheses).  Nonlinear definitions otherwise keep
// the solvers from answering goals that do not depend on them.
func (o *Obligation) norecQuery() string {
	q := o.query(false, false)
	var b strings.Builder
	for _, l := range strings.Split(q, "\n") {
		if strings.HasPrefix(l, "(assert (forall") && strings.Contains(l, ":pattern ((spec.") && strings.Contains(l, "!") {
			continue
		}
		b.WriteString(l)
		b.WriteByte('\n')
	}
	return b.String()
}

// query renders the SMT-LIB text.  The light variant drops every quantified
// hypothesis (sound: fewer hypotheses); only its unsat answers are used.
func (o *Obligation) query(produceModels, light bool) string {
	var b bytes.Buffer
	if produceModels {
		b.WriteString("(set-option :produce-models true)\n")
	}
	b.WriteString("(set-logic ALL)\n")
	for _, l := range o.ctx.pre {
		b.WriteString(l)
		b.WriteByte('\n')
	}
	b.WriteString(zeroArrayDecls(o))
	for _, l := range o.ctx.lines[:o.Mark] {
		if light && strings.HasPrefix(l, "(assert") && (strings.Contains(l, "(forall") || strings.Contains(l, "(exists")) {
			continue
		}
		b.WriteString(l)
		b.WriteByte('\n')
	}
	for _, l := range o.Extra {
		fmt.Fprintf(&b, "(assert %s)\n", l)
	}
	fmt.Fprintf(&b, "(assert %s)\n", o.PC)
	fmt.Fprintf(&b, "(assert (not %s))\n", o.Goal)
	b.WriteString("(check-sat)\n")
	if produceModels {
		b.WriteString("(get-model)\n")
	}
	return b.String()
}

type solverSpec struct {
	name string
	args func(file string, timeoutS int) []string
}

var solvers = []solverSpec{
	{"z3-new", func(f string, t int) []string {
		return []string{"z3-new", fmt.Sprintf("-T:%d", t), fmt.Sprintf("smt.random_seed=%d", globalSeed+seedShift), f}
	}},
	{"z3-new/em", func(f string, t int) []string {
		return []string{"z3-new", fmt.Sprintf("-T:%d", t), "smt.mbqi=false", fmt.Sprintf("smt.random_seed=%d", globalSeed+seedShift+1), f}
	}},
	{"cvc5", func(f string, t int) []string {
		return []string{"cvc5", fmt.Sprintf("--tlimit=%d", t*1000), fmt.Sprintf("--seed=%d", globalSeed+seedShift), f}
	}},
	{"z3", func(f string, t int) []string {
		return []string{"z3", fmt.Sprintf("-T:%d", t), fmt.Sprintf("smt.random_seed=%d", globalSeed+seedShift), f}
	}},
}

// seedShift changes on retries so that a second attempt explores differently
var seedShift = 0

var globalSeed = 0

func seedStr() string { return fmt.Sprintf("%d", globalSeed) }

// Solve races the solvers on one obligation.
func Solve(o *Obligation, dir string, timeoutS int, wantModel bool) {
	solveWith(o, dir, timeoutS, wantModel, 0)
}

func solveWith(o *Obligation, dir string, timeoutS int, wantModel bool, shift int) {
	q := o.Query(wantModel)
	o.SMTSize = len(q)
	if len(q) > 4_000_000 {
		o.Result = "too-large"
		return
	}
	file := filepath.Join(dir, fmt.Sprintf("%s.%08x.smt2", sanitize(o.Name), fnv32(o.Name)))
	if err := os.WriteFile(file, []byte(q), 0o644); err != nil {
		o.Result = "error: " + err.Error()
		return
	}
	lightFile := ""
	if o.expect() == "unsat" && strings.Contains(q, "(forall") {
		lightFile = strings.TrimSuffix(file, ".smt2") + ".light.smt2"
		if err := os.WriteFile(lightFile, []byte(o.query(false, true)), 0o644); err != nil {
			lightFile = ""
		}
		defer os.Remove(lightFile)
	}
	type res struct {
		solver, verdict, out string
		dur              float64
	}
	ctx, cancel := context.WithCancel(context.Background())
	defer cancel()
	runs := append([]solverSpec(nil), solvers...)
	if o.expect() == "unsat" && strings.Contains(q, "(declare-fun spec.") && strings.Contains(q, "!1 (") {
		norecFile := strings.TrimSuffix(file, ".smt2") + ".norec.smt2"
		if err := os.WriteFile(norecFile, []byte(o.norecQuery()), 0o644); err == nil {
			defer os.Remove(norecFile)
			runs = append(runs, solverSpec{"z3-new/norec", func(f string, t int) []string {
				return []string{"z3-new", fmt.Sprintf("-T:%d", t), norecFile}
			}})
		}
	}
	if lightFile != "" {
		runs = append(runs, solverSpec{"z3-new/light", func(f string, t int) []string {
			return []string{"z3-new", fmt.Sprintf("-T:%d", t), lightFile}
		}})
	}
	ch := make(chan res, len(runs))
	start := time.Now()
	for _, s := range runs {
		s := s
		go func() {
			a := s.args(file, timeoutS)
			for i := range a {
				// per-call seed shift (seedShift is only read here)
				if shift != 0 && strings.Contains(a[i], "seed=") {
					j := strings.Index(a[i], "seed=") + 5
					var n int
					fmt.Sscanf(a[i][j:], "%d", &n)
					a[i] = a[i][:j] + fmt.Sprintf("%d", n+shift)
				}
			}
			cmd := exec.CommandContext(ctx, a[0], a[1:]...)
			var out bytes.Buffer
			cmd.Stdout = &out
			cmd.Stderr = &out
			t0 := time.Now()
			_ = cmd.Run()
			first := strings.TrimSpace(strings.SplitN(out.String(), "\n", 2)[0])
			v := "unknown"
			switch first {
			case "unsat", "sat":
				v = first
			case "timeout":
				v = "timeout"
			}
			if (s.name == "z3-new/light" || s.name == "z3-new/norec") && v == "sat" {
				v = "unknown" // a model of fewer hypotheses means nothing
			}
			ch <- res{s.name, v, out.String(), time.Since(t0).Seconds()}
		}()
	}
	o.Outputs = map[string]string{}
	o.Result = "unknown"
	for range runs {
		r := <-ch
		if len(r.out) > 4000 {
			r.out = r.out[:4000]
		}
		o.Outputs[r.solver] = r.verdict
		if r.verdict == "unsat" || r.verdict == "sat" {
			o.Result = r.verdict
			o.Solver = r.solver
			o.TimeS = r.dur
			if r.verdict == "sat" {
				o.Model = r.out
			}
			cancel()
			break
		}
	}
	if o.TimeS == 0 {
		o.TimeS = time.Since(start).Seconds()
	}
	if o.Result == "unsat" && !keepSMT {
		os.Remove(file)
	}
}

var keepSMT = false

// SolveAll discharges obligations with a worker pool.
func SolveAll(obs []*Obligation, dir string, timeoutS, workers int) {
	var wg sync.WaitGroup
	ch := make(chan *Obligation)
	for i := 0; i < workers; i++ {
		wg.Add(1)
		go func() {
			defer wg.Done()
			for o := range ch {
				if o.expect() == "sat" {
					t := timeoutS / 3
					if t < 2 {
						t = 2
					}
					Solve(o, dir, t, false)
					continue
				}
				Solve(o, dir, timeoutS, true)
				if o.Result != "sat" && o.Result != "unsat" {
					// retry once with other seeds and a longer limit before reporting
					solveWith(o, dir, timeoutS*3, true, 17)
				}
			}
		}()
	}
	for _, o := range obs {
		ch <- o
	}
	close(ch)
	wg.Wait()
	// Escalation: what is still undecided is tried once more, two at a time, with eight
	// times the limit.  On a loaded or slow machine a proof that needs a few seconds
	// otherwise runs into the limit; a handful of such obligations is load, many are a
	// real failure (and are reported without further waiting).
	var open []*Obligation
	for _, o := range obs {
		if o.expect() == "unsat" && o.Result != "sat" && o.Result != "unsat" && o.Result != "too-large" && !strings.HasPrefix(o.Result, "not attempted") {
			open = append(open, o)
		}
	}
	if len(open) == 0 || len(open) > 12 {
		return
	}
	ch2 := make(chan *Obligation)
	var wg2 sync.WaitGroup
	for i := 0; i < 2; i++ {
		wg2.Add(1)
		go func() {
			defer wg2.Done()
			for o := range ch2 {
				solveWith(o, dir, timeoutS*8, true, 34)
			}
		}()
	}
	for _, o := range open {
		ch2 <- o
	}
	close(ch2)
	wg2.Wait()
}

func (o *Obligation) expect() string {
	if o.Expect == "" {
		return "unsat"
	}
	return o.Expect
}

func (o *Obligation) OK() bool {
	if o.expect() == "sat" {
		// cover / canary: anything but unsat shows the context is consistent
		return o.Result != "unsat"
	}
	return o.Result == "unsat"
}

func fnv32(s string) uint32 {
	h := uint32(2166136261)
	for i := 0; i < len(s); i++ {
		h = (h ^ uint32(s[i])) * 16777619
	}
	return h
}

var zeroRe = regexp.MustCompile(`zero\.[A-Za-z_]+`)

// zeroArrayDecls declares the all-zero arrays mentioned in the query.
func zeroArrayDecls(o *Obligation) string {
	seen := map[string]bool{}
	var b strings.Builder
	scan := func(l string) {
		if !strings.Contains(l, "zero.") {
			return
		}
		for _, m := range zeroRe.FindAllString(l, -1) {
			if seen[m] {
				continue
			}
			seen[m] = true
			var srt, inner, z string
			switch m {
			case "zero._Array_Int_Int_":
				srt, inner, z = "(Array Int Int)", "Int", "0"
			case "zero._Array_Int_Bool_":
				srt, inner, z = "(Array Int Bool)", "Bool", "false"
			case "zero._Array_Int_Str_":
				srt, inner, z = "(Array Int Str)", "Str", "gs.empty"
			case "zero._Array_Int_Flt_":
				srt, inner, z = "(Array Int Flt)", "Flt", "flt.zero"
			default:
				continue
			}
			_ = inner
			fmt.Fprintf(&b, "(declare-fun %s () %s)\n(assert (forall ((i Int)) (! (= (select %s i) %s) :pattern ((select %s i)))))\n", m, srt, m, z, m)
		}
	}
	for _, l := range o.ctx.lines[:o.Mark] {
		scan(l)
	}
	scan(o.PC)
	scan(o.Goal)
	return b.String()
}
