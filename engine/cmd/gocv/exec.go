package main

import (
	"fmt"
	"os"
	"go/constant"
	"go/token"
	"go/types"
	"sort"
	"strings"

	"golang.org/x/tools/go/ssa"
)

type Frame struct {
	fn       *ssa.Function
	vals     map[ssa.Value]Val
	cells    map[*ssa.Alloc]*Cell
	params   []Val
	free     []Val // free variables (closures)
	entry    *State
	contract *FuncContract
	top      bool
	rets     []retEdge
	loops    map[*ssa.BasicBlock]*loopInfo
	order    []*ssa.BasicBlock
	results  []Val // at a return: current result values (for ensures)
	parent   *Frame
	label    string // prefix of obligation kinds for inlined frames
	freeCells map[string]*Cell // captured variables of a closure verified on its own
}

type retEdge struct {
	st   *State
	vals []Val
}

type deferred struct {
	fr   *Frame
	call *ssa.CallCommon
	fn   Val
	args []Val
}

type loopInfo struct {
	header  *ssa.BasicBlock
	blocks  map[*ssa.BasicBlock]bool
	ordinal int
	pre     *State // state on entry (before havoc)
	head    *State // state at header after havoc + invariants
	variant []string
	frames  []loopFrame
	cellInv []loopCellInv
}

type loopFrame struct {
	key    string
	stable []string
	pre    string
	top    string
}

// loopCellInv: a slice variable that the loop only ever appends to refers either to
// the array it referred to at loop entry or to one allocated during the loop.
type loopCellInv struct {
	cell   *Cell
	preRef string
	top    string
}

// ---- CFG utilities ----

func isBackEdge(from, to *ssa.BasicBlock) bool { return to.Dominates(from) }

func rpo(fn *ssa.Function) []*ssa.BasicBlock {
	seen := map[*ssa.BasicBlock]bool{}
	var post []*ssa.BasicBlock
	var dfs func(b *ssa.BasicBlock)
	dfs = func(b *ssa.BasicBlock) {
		seen[b] = true
		// visit successors in reverse so that the "then" branch comes first in RPO
		for i := len(b.Succs) - 1; i >= 0; i-- {
			s := b.Succs[i]
			if !seen[s] && !isBackEdge(b, s) {
				dfs(s)
			}
		}
		post = append(post, b)
	}
	if len(fn.Blocks) > 0 {
		dfs(fn.Blocks[0])
	}
	for i, j := 0, len(post)-1; i < j; i, j = i+1, j-1 {
		post[i], post[j] = post[j], post[i]
	}
	return post
}

func findLoops(fn *ssa.Function) map[*ssa.BasicBlock]*loopInfo {
	loops := map[*ssa.BasicBlock]*loopInfo{}
	for _, b := range fn.Blocks {
		for _, s := range b.Succs {
			if isBackEdge(b, s) {
				li := loops[s]
				if li == nil {
					li = &loopInfo{header: s, blocks: map[*ssa.BasicBlock]bool{s: true}}
					loops[s] = li
				}
				// natural loop: nodes reaching b without passing through s
				var stack []*ssa.BasicBlock
				if !li.blocks[b] {
					li.blocks[b] = true
					stack = append(stack, b)
				}
				for len(stack) > 0 {
					x := stack[len(stack)-1]
					stack = stack[:len(stack)-1]
					for _, p := range x.Preds {
						if !li.blocks[p] {
							li.blocks[p] = true
							stack = append(stack, p)
						}
					}
				}
			}
		}
	}
	var hs []*ssa.BasicBlock
	for h := range loops {
		hs = append(hs, h)
	}
	sort.Slice(hs, func(i, j int) bool { return hs[i].Index < hs[j].Index })
	for i, h := range hs {
		loops[h].ordinal = i + 1
	}
	return loops
}

// ---- running a function body ----

func (e *Engine) newFrame(fn *ssa.Function, args []Val, free []Val, st *State, parent *Frame) *Frame {
	fr := &Frame{fn: fn, vals: map[ssa.Value]Val{}, cells: map[*ssa.Alloc]*Cell{}, params: args, free: free, parent: parent}
	for i, p := range fn.Params {
		fr.vals[p] = args[i]
	}
	for i, fv := range fn.FreeVars {
		fr.vals[fv] = free[i]
	}
	fr.loops = findLoops(fn)
	fr.order = rpo(fn)
	fr.entry = st.clone()
	return fr
}

// runBody executes all blocks of the frame's function starting from st and
// returns the states at its return instructions.
func (e *Engine) runBody(fr *Frame, st *State) []retEdge {
	if len(fr.fn.Blocks) == 0 {
		unsup("function %s has no body", fr.fn)
	}
	all := map[*ssa.BasicBlock]bool{}
	for _, b := range fr.fn.Blocks {
		all[b] = true
	}
	e.runRegion(fr, all, fr.fn.Blocks[0], st, false)
	return fr.rets
}

// runRegion executes the blocks of region in reverse post-order from entry.
// If entryIsLoop the entry block is the header of the loop being dry-run and
// is treated as a plain block.
func (e *Engine) runRegion(fr *Frame, region map[*ssa.BasicBlock]bool, entry *ssa.BasicBlock, st0 *State, entryIsLoop bool) {
	incoming := map[*ssa.BasicBlock][]edge{}
	incoming[entry] = []edge{{nil, st0}}
	for _, b := range fr.order {
		if !region[b] {
			continue
		}
		in := incoming[b]
		if len(in) == 0 {
			continue // unreachable in this region
		}
		delete(incoming, b)
		st := e.mergeStates(in)
		// phi nodes: pick per incoming edge
		for _, ins := range b.Instrs {
			phi, ok := ins.(*ssa.Phi)
			if !ok {
				break
			}
			var pcs []string
			var vs []Val
			for _, ed := range in {
				idx := -1
				for i, p := range b.Preds {
					if p == ed.from {
						idx = i
					}
				}
				if idx < 0 {
					unsup("phi: predecessor not found")
				}
				pcs = append(pcs, ed.st.pc)
				vs = append(vs, e.val(fr, phi.Edges[idx]))
			}
			have := make([]int, len(vs))
			for i := range have {
				have[i] = i
			}
			fr.vals[phi] = e.mergeVals(phi.Name(), phi.Type(), pcs, have, func(i int) Val { return vs[i] })
		}
		if li := fr.loops[b]; li != nil && !(entryIsLoop && b == entry) {
			st = e.enterLoop(fr, li, st)
		}
		outs := e.execBlock(fr, b, st)
		for _, o := range outs {
			to := o.to
			if isBackEdge(b, to) {
				if li := fr.loops[to]; li != nil && !(entryIsLoop && to == entry) {
					e.closeLoop(fr, li, o.st)
				}
				continue
			}
			if !region[to] {
				continue
			}
			incoming[to] = append(incoming[to], edge{b, o.st})
		}
	}
}

type outEdge struct {
	to *ssa.BasicBlock
	st *State
}

// loopClauses collects the invariants and variant for a loop: from the function's
// own contract and, for inlined frames, from "loop Callee.N:" clauses of its callers.
func (e *Engine) loopApplies(fr *Frame, li *loopInfo, end bool) (out []Clause) {
	add := func(lc *LoopContract) {
		if lc == nil {
			return
		}
		if end {
			out = append(out, lc.ApplyEnd...)
		} else {
			out = append(out, lc.Apply...)
		}
	}
	if fr.contract != nil {
		add(fr.contract.Loops[li.ordinal])
	}
	key := fmt.Sprintf("%s.%d", fr.fn.Name(), li.ordinal)
	for a := fr.parent; a != nil; a = a.parent {
		if a.contract != nil && a.contract.InlLoops != nil {
			add(a.contract.InlLoops[key])
		}
	}
	return
}

func (e *Engine) loopClauses(fr *Frame, li *loopInfo) (invs []Clause, decr []Clause) {
	if fr.contract != nil {
		if lc := fr.contract.Loops[li.ordinal]; lc != nil {
			invs = append(invs, lc.Invariants...)
			decr = append(decr, lc.Decreases...)
		}
	}
	key := fmt.Sprintf("%s.%d", fr.fn.Name(), li.ordinal)
	for a := fr.parent; a != nil; a = a.parent {
		if a.contract != nil && a.contract.InlLoops != nil {
			if lc := a.contract.InlLoops[key]; lc != nil {
				invs = append(invs, lc.Invariants...)
				if len(decr) == 0 {
					decr = append(decr, lc.Decreases...)
				}
			}
		}
	}
	return
}

func (e *Engine) enterLoop(fr *Frame, li *loopInfo, st *State) *State {
	invs, decr := e.loopClauses(fr, li)
	li.pre = st.clone()
	// invariants hold on entry
	if e.dry == 0 {
		for i, inv := range invs {
			g := e.evalBool(inv.Expr, e.envAt(fr, st, li))
			e.oblige(st, fr.label+fmt.Sprintf("inv-entry/%d.%d", li.ordinal, i+1), g, inv.Pos, "loop invariant holds on entry: "+inv.Src, inv.Tags)
		}
	}
	// write set of the loop body by a dry run
	dry := func(from *State, markLines int) *WriteSet {
		ws := newWriteSet()
		e.recorders = append(e.recorders, ws)
		e.dry++
		saved := fr.rets
		e.runRegion(fr, li.blocks, li.header, from.clone(), true)
		fr.rets = saved
		e.dry--
		e.recorders = e.recorders[:len(e.recorders)-1]
		// nothing defined during a dry run is referred to afterwards: drop it from the context
		e.ctx.lines = e.ctx.lines[:markLines]
		return ws
	}
	ws := dry(st, len(e.ctx.lines))
	mark := -1
	granular := false
	for _, hw := range ws.heap {
		if !hw.whole {
			granular = true
		}
	}
	if granular && !ws.all {
		// Second pass from a state in which everything the loop writes is already
		// unknown: a written reference is loop-invariant iff its term does not
		// mention any of the names introduced by that havoc.
		coarse := newWriteSet()
		coarse.alloc = ws.alloc
		for c := range ws.cells {
			coarse.cells[c] = true
		}
		for g := range ws.globals {
			coarse.globals[g] = true
		}
		for k := range ws.heap {
			coarse.addHeap(k, "")
		}
		scratch := st.clone()
		mark = e.ctx.n
		ml := len(e.ctx.lines)
		e.dry++
		savedRec := e.recorders
		e.recorders = nil // the scratch havoc is not a write of the program
		e.havoc(scratch, coarse, "dry")
		e.recorders = savedRec
		e.dry--
		ws2 := dry(scratch, ml)
		for _, hw := range ws2.heap {
			for r := range hw.refs {
				if maxID(r) > mark {
					hw.whole = true
				}
			}
		}
		for c := range ws.cells {
			ws2.cells[c] = true
		}
		for c := range ws.nonAppend {
			ws2.nonAppend[c] = true
		}
		for g := range ws.globals {
			ws2.globals[g] = true
		}
		for k := range ws.heap {
			if ws2.heap[k] == nil {
				ws2.addHeap(k, "")
			}
		}
		ws2.alloc = ws2.alloc || ws.alloc
		ws2.all = ws2.all || ws.all
		ws = ws2
	}
	if os.Getenv("GOCV_DEBUG") != "" && e.dry == 0 {
		fmt.Fprintf(os.Stderr, "loop %s%d of %s: all=%v mark=%d\n", fr.label, li.ordinal, fr.fn.Name(), ws.all, mark)
		for k, hw := range ws.heap {
			fmt.Fprintf(os.Stderr, "   %s whole=%v refs=%d\n", k, hw.whole, len(hw.refs))
			for r := range hw.refs {
				fmt.Fprintf(os.Stderr, "        %s (maxid %d)\n", r, maxID(r))
			}
		}
	}
	// havoc and assume invariants
	h := st.clone()
	e.havoc(h, ws, fmt.Sprintf("L%d", li.ordinal))
	e.rangeLoopFacts(fr, li, h)
	// automatic frame invariant: objects that existed before the loop and are not
	// written through a loop-invariant reference keep their contents
	li.frames = nil
	li.cellInv = nil
	framesOK := true
	for c := range ws.cells {
		pv, ok := li.pre.cells[c]
		if !ok || pv.K != KSlice {
			continue
		}
		if ws.nonAppend[c] {
			framesOK = false // reassigned from elsewhere: no automatic frame for this loop
		}
	}
	if framesOK && e.fc != nil && e.fc.HasAssigns && !e.fc.AssignsAll && !ws.all && mark >= 0 {
		for c := range ws.cells {
			pv, ok := li.pre.cells[c]
			if !ok || pv.K != KSlice {
				continue
			}
			if cur, live := h.cells[c]; live && cur.K == KSlice {
				ci := loopCellInv{cell: c, preRef: pv.Fs[0].T, top: li.pre.top}
				li.cellInv = append(li.cellInv, ci)
				e.ctx.Assume(implies(h.pc, or(eq(cur.Fs[0].T, ci.preRef), sx(">", cur.Fs[0].T, ci.top))))
			}
		}
		sort.Slice(li.cellInv, func(i, j int) bool { return li.cellInv[i].cell.ID < li.cellInv[j].cell.ID })
	}
	if framesOK && e.fc != nil && e.fc.HasAssigns && !e.fc.AssignsAll && !ws.all && mark >= 0 {
		var keys []string
		for k, hw := range ws.heap {
			if hw.whole && !strings.HasPrefix(k, "B$") {
				keys = append(keys, k)
			}
		}
		sort.Strings(keys)
		// locations the function may assign anyway (its assigns clause, at entry)
		root := fr
		for root.parent != nil {
			root = root.parent
		}
		allowed := map[string][]string{}
		if root.contract != nil {
			aenv := e.baseEnv(root, root.entry)
			for _, a := range root.contract.Assigns {
				e.allowedLocation(aenv, a, allowed)
			}
		}
		for _, k := range keys {
			if e.freeGhostKey(k) {
				continue // bookkeeping ghosts: no frame assumed, none to prove
			}
			anyRef := false
			for _, a := range allowed[k] {
				if a == "*" {
					anyRef = true
				}
			}
			if anyRef {
				continue
			}
			lf := loopFrame{key: k, pre: e.heapTerm(li.pre, k, e.heapSorts[k]), top: li.pre.top}
			for r := range ws.heap[k].refs {
				if maxID(r) <= mark {
					lf.stable = append(lf.stable, r)
				}
			}
			// objects reachable through loop-modified local variables at loop entry may
			// be written in place (append): they are not covered by the frame either
			for c := range ws.cells {
				if v, ok := li.pre.cells[c]; ok {
					lf.stable = append(lf.stable, refTerms(v)...)
				}
			}
			lf.stable = append(lf.stable, allowed[k]...)
			sort.Strings(lf.stable)
			li.frames = append(li.frames, lf)
			e.ctx.Assume(implies(h.pc, e.frameFormula(lf, h.heap[k], "")))
		}
	}
	for _, inv := range invs {
		g := e.evalBool(inv.Expr, e.envAt(fr, h, li))
		e.ctx.Assume(implies(h.pc, g))
	}
	for _, ap := range e.loopApplies(fr, li, false) {
		e.applyLemma(e.envAt(fr, h, li), h, ap)
	}
	li.variant = nil
	for _, d := range decr {
		v := e.evalInt(d.Expr, e.envAt(fr, h, li))
		li.variant = append(li.variant, e.ctx.Define("variant", "Int", v))
	}
	li.head = h.clone()
	if e.dry == 0 {
		// vacuity guard: the loop head must be reachable under the invariants
		if o := e.oblige(h, fr.label+fmt.Sprintf("cover/loop/%d", li.ordinal), "false", "", "loop head is reachable under its invariants", nil); o != nil {
			o.Expect = "sat"
		}
	}
	return h
}

// rangeLoopFacts: the hidden index of a range-over-slice loop satisfies
// -1 <= idx < len at the loop header (it starts at -1 and the header only
// continues into the body after idx+1 < len).
func (e *Engine) rangeLoopFacts(fr *Frame, li *loopInfo, h *State) {
	var cell *Cell
	var bound ssa.Value
	for _, ins := range li.header.Instrs {
		switch x := ins.(type) {
		case *ssa.Store:
			if a, ok := x.Addr.(*ssa.Alloc); ok && a.Comment == "rangeindex" {
				cell = fr.cells[a]
			}
		case *ssa.BinOp:
			if x.Op == token.LSS && cell != nil {
				bound = x.Y
			}
		}
	}
	if cell == nil {
		// range over an integer: the header is the body block; it is entered only
		// after "iter < n" succeeded, and iter starts at 0 and is only incremented
		if ic, n := rangeIntLoop(fr, li); ic != nil && n != nil {
			if v, ok := h.cells[ic]; ok {
				b, ok := fr.vals[n]
				if c, isConst := n.(*ssa.Const); isConst && !ok {
					b, ok = e.constVal(c), true
				}
				if ok && b.K == KScalar {
					e.ctx.Assume(implies(h.pc, and(sx("<=", "0", v.T), sx("<", v.T, b.T))))
				}
			}
		}
		return
	}
	if bound == nil {
		return
	}
	v, ok := h.cells[cell]
	if !ok {
		return
	}
	b, ok := fr.vals[bound]
	if !ok {
		return
	}
	e.ctx.Assume(implies(h.pc, and(sx("<=", "(- 1)", v.T), sx("<", v.T, ite(sx("<", b.T, "0"), "0", b.T)))))
}

func (e *Engine) closeLoop(fr *Frame, li *loopInfo, st *State) {
	if e.dry > 0 {
		return
	}
	invs, decr := e.loopClauses(fr, li)
	for _, ap := range e.loopApplies(fr, li, true) {
		e.applyLemma(e.envAt(fr, st, li), st, ap)
	}
	for i, inv := range invs {
		g := e.evalBool(inv.Expr, e.envAt(fr, st, li))
		e.oblige(st, fr.label+fmt.Sprintf("inv-preserved/%d.%d", li.ordinal, i+1), g, inv.Pos, "loop invariant preserved: "+inv.Src, inv.Tags)
	}
	for _, ci := range li.cellInv {
		if cur, live := st.cells[ci.cell]; live && cur.K == KSlice {
			e.oblige(st, fr.label+fmt.Sprintf("inv-frame/%d/var:%s", li.ordinal, ci.cell.Name), or(eq(cur.Fs[0].T, ci.preRef), sx(">", cur.Fs[0].T, ci.top)), "", "loop frame: slice variable "+ci.cell.Name+" still refers to its array at loop entry or to one allocated in the loop", nil)
		}
	}
	for _, lf := range li.frames {
		r := e.ctx.Declare("fr", "Int")
		now := e.heapTerm(st, lf.key, e.heapSorts[lf.key])
		e.oblige(st, fr.label+fmt.Sprintf("inv-frame/%d/%s", li.ordinal, lf.key), e.frameFormula(lf, now, r), "", "loop frame: objects allocated before the loop keep their "+lf.key+" unless written through a loop-invariant reference", nil)
	}
	if len(decr) > 0 && len(li.variant) == len(decr) {
		// lexicographic decrease, each component bounded below by 0
		var news []string
		for _, d := range decr {
			news = append(news, e.evalInt(d.Expr, e.envAt(fr, st, li)))
		}
		var disj []string
		prefixEq := "true"
		for i := range news {
			disj = append(disj, and(prefixEq, sx("<", news[i], li.variant[i]), sx("<=", "0", li.variant[i])))
			prefixEq = and(prefixEq, eq(news[i], li.variant[i]))
		}
		e.oblige(st, fr.label+fmt.Sprintf("variant/%d", li.ordinal), or(disj...), decr[0].Pos, "loop variant decreases: "+decr[0].Src, decr[0].Tags)
	}
}

// oblige records a proof obligation at state st.
func (e *Engine) oblige(st *State, kind, goal, pos, desc string, tags []string) *Obligation {
	if e.dry > 0 {
		return nil
	}
	if goal == "true" {
		// trivially true goals are still counted (discharged syntactically)
	}
	key := kind
	name := kind
	if strings.HasPrefix(kind, "safety/") || kind == "overflow" || strings.HasPrefix(kind, "pre/") || strings.HasPrefix(kind, "post/") {
		e.ordinals[key]++
		if !strings.HasPrefix(kind, "post/") {
			name = fmt.Sprintf("%s/%d", kind, e.ordinals[key])
		} else {
			name = fmt.Sprintf("%s@%d", kind, e.ordinals[key])
		}
	} else {
		e.ordinals[key]++
		if e.ordinals[key] > 1 {
			name = fmt.Sprintf("%s@%d", kind, e.ordinals[key])
		}
	}
	parts := splitAnd(goal)
	var last *Obligation
	for i, g := range parts {
		n := name
		if len(parts) > 1 {
			n = fmt.Sprintf("%s#%d", name, i+1)
		}
		o := &Obligation{Name: e.topName + "/" + n, Func: e.topName, Kind: kind, Mark: e.ctx.Mark(), PC: st.pc, Goal: g, Pos: pos, Desc: desc, ctx: e.ctx}
		o.Tags = append(o.Tags, tags...)
		if len(o.Tags) == 0 {
			o.Tags = append(o.Tags, e.tags...)
		}
		e.obs = append(e.obs, o)
		last = o
	}
	return last
}

// splitAnd flattens a top-level conjunction into its conjuncts.
func splitAnd(t string) []string {
	if strings.HasPrefix(t, "(forall (") {
		// (forall (vars) (=> G (and A B))) distributes over the conjunction
		d := 0
		end := -1
		for i := len("(forall "); i < len(t); i++ {
			if t[i] == '(' {
				d++
			} else if t[i] == ')' {
				d--
				if d == 0 {
					end = i
					break
				}
			}
		}
		if end > 0 {
			vars := t[len("(forall ") : end+1]
			body := strings.TrimSpace(t[end+1 : len(t)-1])
			guard := ""
			if strings.HasPrefix(body, "(=> ") {
				parts := topLevelArgs(body[4 : len(body)-1])
				if len(parts) == 2 {
					guard, body = parts[0], parts[1]
				}
			}
			sub := splitAnd(body)
			if len(sub) > 1 {
				var out []string
				for _, s := range sub {
					if guard != "" {
						s = "(=> " + guard + " " + s + ")"
					}
					out = append(out, "(forall "+vars+" "+s+")")
				}
				return out
			}
		}
		return []string{t}
	}
	if strings.HasPrefix(t, "(=> ") {
		parts := topLevelArgs(t[4 : len(t)-1])
		if len(parts) == 2 {
			sub := splitAnd(parts[1])
			if len(sub) > 1 {
				var out []string
				for _, s := range sub {
					out = append(out, "(=> "+parts[0]+" "+s+")")
				}
				return out
			}
		}
		return []string{t}
	}
	if !strings.HasPrefix(t, "(and ") {
		return []string{t}
	}
	var out []string
	body := t[5 : len(t)-1]
	d, start := 0, 0
	for i := 0; i <= len(body); i++ {
		if i == len(body) || (body[i] == ' ' && d == 0) {
			if i > start {
				out = append(out, splitAnd(body[start:i])...)
			}
			start = i + 1
			continue
		}
		switch body[i] {
		case '(':
			d++
		case ')':
			d--
		}
	}
	return out
}

func (e *Engine) posOf(fr *Frame, p token.Pos) string {
	if !p.IsValid() {
		return ""
	}
	pp := e.prog.Fset.Position(p)
	return fmt.Sprintf("%s:%d", shortFile(pp.Filename), pp.Line)
}

func shortFile(f string) string {
	return strings.TrimPrefix(f, repoRoot+"/")
}

// ---- values ----

func (e *Engine) val(fr *Frame, v ssa.Value) Val {
	if x, ok := fr.vals[v]; ok {
		return x
	}
	switch v := v.(type) {
	case *ssa.Const:
		return e.constVal(v)
	case *ssa.Global:
		return Val{K: KPtr, P: &Ptr{K: PGlobal, Global: v, Typ: v.Type().(*types.Pointer).Elem()}}
	case *ssa.Function:
		return Val{K: KFunc, Fn: v}
	case *ssa.Builtin:
		return Val{K: KFunc}
	}
	unsup("value %s (%T) not defined", v.Name(), v)
	return Val{}
}

func (e *Engine) constVal(c *ssa.Const) Val {
	t := c.Type()
	if c.Value == nil {
		return zero(t)
	}
	switch u := under(t).(type) {
	case *types.Basic:
		switch {
		case u.Info()&types.IsBoolean != 0:
			if constant.BoolVal(c.Value) {
				return boolv("true")
			}
			return boolv("false")
		case u.Info()&types.IsInteger != 0:
			return intv(constIntTerm(c.Value))
		case u.Info()&types.IsString != 0:
			return scalar(e.strLit(constant.StringVal(c.Value)), "Str")
		case u.Info()&types.IsFloat != 0:
			return scalar(e.fltLit(c.Value.ExactString()), "Flt")
		}
	case *types.TypeParam:
		_ = u
	}
	unsup("constant %s of type %s", c, t)
	return Val{}
}

func constIntTerm(v constant.Value) string {
	s := constant.ToInt(v).ExactString()
	if strings.HasPrefix(s, "-") {
		return "(- " + s[1:] + ")"
	}
	return s
}

func (e *Engine) strLit(s string) string {
	name := "strlit$" + fmt.Sprintf("%x", s)
	if len(name) > 60 {
		name = fmt.Sprintf("strlit$%x$%d", s[:16], len(s))
		// disambiguate by content hash
		h := uint32(2166136261)
		for i := 0; i < len(s); i++ {
			h = (h ^ uint32(s[i])) * 16777619
		}
		name += fmt.Sprintf("$%08x", h)
	}
	if !e.ctx.decls[name] {
		var b strings.Builder
		fmt.Fprintf(&b, "(declare-fun %s () Str)\n(assert (= (gs.len %s) %d))", name, name, len(s))
		for i := 0; i < len(s) && i < 256; i++ {
			fmt.Fprintf(&b, "\n(assert (= (gs.at %s %d) %d))", name, i, s[i])
		}
		e.ctx.Global(name, b.String())
	}
	return name
}

func (e *Engine) fltLit(s string) string {
	name := "fltlit$" + sanitize(s)
	e.ctx.Global(name, fmt.Sprintf("(declare-fun %s () Flt)", name))
	return name
}

// ---- block execution ----

func (e *Engine) execBlock(fr *Frame, b *ssa.BasicBlock, st *State) []outEdge {
	for _, ins := range b.Instrs {
		switch ins := ins.(type) {
		case *ssa.Phi:
			continue
		case *ssa.If:
			c := e.val(fr, ins.Cond).T
			t, f := st, st.clone()
			base := st.pc
			t.pc = e.ctx.Define("pc", "Bool", and(base, c))
			f.pc = e.ctx.Define("pc", "Bool", and(base, not(c)))
			return []outEdge{{b.Succs[0], t}, {b.Succs[1], f}}
		case *ssa.Jump:
			return []outEdge{{b.Succs[0], st}}
		case *ssa.Return:
			vs := make([]Val, len(ins.Results))
			for i, r := range ins.Results {
				vs[i] = e.val(fr, r)
			}
			fr.rets = append(fr.rets, retEdge{st, vs})
			if fr.top {
				e.checkPost(fr, st, vs, e.posOf(fr, ins.Pos()))
			}
			return nil
		case *ssa.Panic:
			e.execPanic(fr, st, ins)
			return nil
		default:
			e.execInstr(fr, st, ins)
		}
	}
	return nil
}

func (e *Engine) execPanic(fr *Frame, st *State, ins *ssa.Panic) {
	// An explicit panic must be unreachable unless the contract allows it
	// (panics-if: a documented panic under a condition on the entry state).
	goal := "false"
	top := fr
	for top.parent != nil {
		top = top.parent
	}
	if top.contract != nil && len(top.contract.PanicsIf) > 0 {
		env := e.baseEnv(top, top.entry)
		var cs []string
		for _, c := range top.contract.PanicsIf {
			cs = append(cs, e.evalBool(c.Expr, env))
		}
		goal = or(cs...)
	}
	e.oblige(st, "safety/panic", goal, e.posOf(fr, ins.Pos()), "explicit panic is unreachable (or allowed by panics-if)", nil)
}

func (e *Engine) execInstr(fr *Frame, st *State, ins ssa.Instruction) {
	switch ins := ins.(type) {
	case *ssa.Alloc:
		e.execAlloc(fr, st, ins)
	case *ssa.Store:
		e.store(fr, st, e.val(fr, ins.Addr), e.val(fr, ins.Val), ins.Val.Type(), e.posOf(fr, ins.Pos()))
	case *ssa.UnOp:
		fr.vals[ins] = e.execUnOp(fr, st, ins)
	case *ssa.BinOp:
		fr.vals[ins] = e.execBinOp(fr, st, ins)
	case *ssa.FieldAddr:
		fr.vals[ins] = e.fieldAddr(fr, st, e.val(fr, ins.X), ins.X.Type(), ins.Field, e.posOf(fr, ins.Pos()))
	case *ssa.IndexAddr:
		fr.vals[ins] = e.indexAddr(fr, st, ins)
	case *ssa.Field:
		x := e.val(fr, ins.X)
		if x.K != KStruct {
			unsup("field of non-struct value")
		}
		fr.vals[ins] = x.Fs[ins.Field]
	case *ssa.Index:
		fr.vals[ins] = e.execIndex(fr, st, ins)
	case *ssa.Slice:
		fr.vals[ins] = e.execSlice(fr, st, ins)
	case *ssa.Convert:
		fr.vals[ins] = e.execConvert(fr, st, ins)
	case *ssa.ChangeType:
		v := e.val(fr, ins.X)
		v.Typ = ins.Type()
		fr.vals[ins] = v
	case *ssa.ChangeInterface:
		fr.vals[ins] = e.val(fr, ins.X)
	case *ssa.MakeInterface:
		fr.vals[ins] = e.makeInterface(st, e.val(fr, ins.X), ins.X.Type())
	case *ssa.TypeAssert:
		fr.vals[ins] = e.typeAssert(fr, st, ins)
	case *ssa.Extract:
		t := e.val(fr, ins.Tuple)
		if t.K != KTuple || ins.Index >= len(t.Fs) {
			unsup("extract from non-tuple")
		}
		fr.vals[ins] = t.Fs[ins.Index]
	case *ssa.Call:
		fr.vals[ins] = e.execCall(fr, st, ins, &ins.Call, ins.Type())
	case *ssa.MakeSlice:
		fr.vals[ins] = e.makeSlice(fr, st, ins)
	case *ssa.MakeMap:
		r := e.freshRef(st, "map")
		e.mapInit(st, ins.Type(), r)
		fr.vals[ins] = intv(r)
	case *ssa.MapUpdate:
		e.mapUpdate(fr, st, ins)
	case *ssa.Lookup:
		fr.vals[ins] = e.lookup(fr, st, ins)
	case *ssa.MakeClosure:
		bs := make([]Val, len(ins.Bindings))
		for i, b := range ins.Bindings {
			bs[i] = e.val(fr, b)
		}
		fr.vals[ins] = Val{K: KClosure, Cl: &Closure{Fn: ins.Fn.(*ssa.Function), Bindings: bs}}
	case *ssa.Defer:
		d := deferred{call: &ins.Call}
		d.fn = e.val(fr, ins.Call.Value)
		for _, a := range ins.Call.Args {
			d.args = append(d.args, e.val(fr, a))
		}
		for _, li := range fr.loops {
			if li.blocks[ins.Block()] {
				unsup("defer inside a loop")
			}
		}
		d.fr = fr
		st.defers = append(append([]*deferred(nil), st.defers...), &d)
	case *ssa.RunDefers:
		var mine, rest []*deferred
		for _, d := range st.defers {
			if d.fr == fr {
				mine = append(mine, d)
			} else {
				rest = append(rest, d)
			}
		}
		st.defers = rest
		for i := len(mine) - 1; i >= 0; i-- {
			e.execDeferred(fr, st, *mine[i], e.posOf(fr, ins.Pos()))
		}
	case *ssa.DebugRef:
	case *ssa.Range:
		fr.vals[ins] = e.val(fr, ins.X)
	case *ssa.Next:
		fr.vals[ins] = e.execNext(fr, st, ins)
	case *ssa.Go:
		unsup("go statement")
	case *ssa.Send, *ssa.Select, *ssa.MakeChan:
		unsup("channel operation")
	case *ssa.SliceToArrayPointer:
		unsup("slice to array pointer conversion")
	case *ssa.MultiConvert:
		unsup("multiconvert")
	default:
		unsup("instruction %T", ins)
	}
}

func (e *Engine) execAlloc(fr *Frame, st *State, ins *ssa.Alloc) {
	t := ins.Type().(*types.Pointer).Elem()
	switch under(t).(type) {
	case *types.Array:
		r := e.freshRef(st, "arr")
		e.storeArrayObject(st, t, r, zero(t))
		fr.vals[ins] = intv(r)
		return
	case *types.Struct:
		if ins.Heap {
			r := e.freshRef(st, "obj")
			e.zeroStruct(st, t, r)
			fr.vals[ins] = intv(r)
			return
		}
	}
	c := fr.cells[ins]
	if c == nil {
		e.cellID++
		c = &Cell{Name: ins.Comment, Typ: t, ID: e.cellID}
		fr.cells[ins] = c
	}
	st.cells[c] = zero(t)
	e.record(func(w *WriteSet) { w.cells[c] = true })
	fr.vals[ins] = Val{K: KPtr, P: &Ptr{K: PCell, Cell: c, Typ: t}}
}

func (e *Engine) zeroStruct(st *State, t types.Type, ref string) {
	s := under(t).(*types.Struct)
	for i := 0; i < s.NumFields(); i++ {
		e.storeHeapField(st, t, ref, []int{i}, zero(s.Field(i).Type()))
	}
}

// deref turns a pointer value into a Ptr location.
func (e *Engine) ptrOf(v Val, pt types.Type) *Ptr {
	if v.K == KPtr {
		return v.P
	}
	if v.K != KScalar {
		unsup("pointer value of kind %d", v.K)
	}
	p, ok := under(pt).(*types.Pointer)
	if !ok {
		unsup("dereference of non-pointer type %s", pt)
	}
	el := p.Elem()
	switch under(el).(type) {
	case *types.Struct:
		return &Ptr{K: PHeap, Ref: v.T, Struct: el, Typ: el}
	case *types.Array:
		return &Ptr{K: PElem, Ref: v.T, Idx: "", Elem: under(el).(*types.Array).Elem(), Typ: el}
	}
	return &Ptr{K: PElem, Ref: v.T, Idx: "0", Elem: el, Typ: el}
}

func (e *Engine) nilCheck(fr *Frame, st *State, v Val, pos, what string) {
	if v.K == KScalar {
		e.oblige(st, "safety/nil", not(eq(v.T, "0")), pos, "nil dereference: "+what, nil)
	}
}

func getPath(v Val, path []int) Val {
	for _, i := range path {
		if v.K != KStruct {
			unsup("path into non-struct value")
		}
		v = v.Fs[i]
	}
	return v
}

func setPath(v Val, path []int, nv Val) Val {
	if len(path) == 0 {
		return nv
	}
	if v.K != KStruct {
		unsup("path into non-struct value")
	}
	fs := append([]Val(nil), v.Fs...)
	fs[path[0]] = setPath(fs[path[0]], path[1:], nv)
	v.Fs = fs
	return v
}

func (e *Engine) load(fr *Frame, st *State, addr Val, pt types.Type, pos string) Val {
	e.nilCheck(fr, st, addr, pos, "load")
	p := e.ptrOf(addr, pt)
	return e.loadPtr(st, p)
}

func (e *Engine) loadPtr(st *State, p *Ptr) Val {
	switch p.K {
	case PCell:
		v, ok := st.cells[p.Cell]
		if !ok {
			unsup("load from dead cell %s", p.Cell.Name)
		}
		return getPath(v, p.Path)
	case PHeap:
		if len(p.Path) == 0 {
			// whole struct
			s := under(p.Struct).(*types.Struct)
			v := Val{K: KStruct, Typ: p.Struct}
			for i := 0; i < s.NumFields(); i++ {
				v.Fs = append(v.Fs, e.loadHeapField(st, p.Struct, p.Ref, []int{i}))
			}
			return v
		}
		return e.loadHeapField(st, p.Struct, p.Ref, p.Path)
	case PElem:
		if p.Idx == "" {
			return e.loadArrayObject(st, p.Typ, p.Ref)
		}
		v := e.loadElem(st, p.Elem, p.Ref, p.Idx)
		return getPath(v, p.Path)
	case PGlobal:
		if _, isArr := under(p.Typ).(*types.Array); isArr && len(p.Path) == 0 {
			return e.loadArrayObject(st, p.Typ, e.globalRef(p.Global))
		}
		v, ok := st.globals[p.Global]
		if !ok {
			v = e.globalInitAt(p.Global, st.epoch)
			e.assumeWF(v, p.Global.Type().(*types.Pointer).Elem(), nil)
			v = e.sentinelFacts(p.Global, v)
			st.globals[p.Global] = v
		}
		return getPath(v, p.Path)
	}
	unsup("load: pointer kind")
	return Val{}
}

func (e *Engine) store(fr *Frame, st *State, addr Val, v Val, vt types.Type, pos string) {
	e.nilCheck(fr, st, addr, pos, "store")
	var pt types.Type = types.NewPointer(vt)
	p := e.ptrOf(addr, pt)
	e.storePtr(st, p, v)
}

func (e *Engine) storePtr(st *State, p *Ptr, v Val) {
	switch p.K {
	case PCell:
		old, ok := st.cells[p.Cell]
		if !ok {
			unsup("store to dead cell")
		}
		st.cells[p.Cell] = setPath(old, p.Path, v)
		c := p.Cell
		e.record(func(w *WriteSet) { w.cells[c] = true })
		if v.K == KSlice && old.K == KSlice && len(p.Path) == 0 {
			nr, or_ := v.Fs[0].T, old.Fs[0].T
			if !(nr == or_ || v.AppOf == or_ || v.Fresh || nr == "0") {
				e.record(func(w *WriteSet) { w.nonAppend[c] = true })
			}
		}
	case PHeap:
		if len(p.Path) == 0 {
			s := under(p.Struct).(*types.Struct)
			if v.K != KStruct {
				unsup("store of non-struct into struct")
			}
			for i := 0; i < s.NumFields(); i++ {
				e.storeHeapField(st, p.Struct, p.Ref, []int{i}, v.Fs[i])
			}
			return
		}
		e.storeHeapField(st, p.Struct, p.Ref, p.Path, v)
	case PElem:
		if p.Idx == "" {
			e.storeArrayObject(st, p.Typ, p.Ref, v)
			return
		}
		if len(p.Path) > 0 {
			old := e.loadElem(st, p.Elem, p.Ref, p.Idx)
			v = setPath(old, p.Path, v)
		}
		e.storeElem(st, p.Elem, p.Ref, p.Idx, v)
	case PGlobal:
		if _, isArr := under(p.Typ).(*types.Array); isArr && len(p.Path) == 0 {
			e.storeArrayObject(st, p.Typ, e.globalRef(p.Global), v)
			return
		}
		old, ok := st.globals[p.Global]
		if !ok {
			old = e.globalInitAt(p.Global, st.epoch)
		}
		st.globals[p.Global] = setPath(old, p.Path, v)
		g := p.Global
		e.record(func(w *WriteSet) { w.globals[g] = true })
	}
}

func (e *Engine) fieldAddr(fr *Frame, st *State, x Val, xt types.Type, field int, pos string) Val {
	e.nilCheck(fr, st, x, pos, "field address")
	p := e.ptrOf(x, xt)
	st2 := under(p.Typ).(*types.Struct)
	np := *p
	np.Path = append(append([]int(nil), p.Path...), field)
	np.Typ = st2.Field(field).Type()
	return Val{K: KPtr, P: &np}
}

func (e *Engine) indexAddr(fr *Frame, st *State, ins *ssa.IndexAddr) Val {
	x := e.val(fr, ins.X)
	idx := e.val(fr, ins.Index).T
	pos := e.posOf(fr, ins.Pos())
	switch xt := under(ins.X.Type()).(type) {
	case *types.Slice:
		e.oblige(st, "safety/idx", and(sx("<=", "0", idx), sx("<", idx, x.Fs[2].T)), pos, "slice index in range", nil)
		return Val{K: KPtr, P: &Ptr{K: PElem, Ref: x.Fs[0].T, Idx: plus(x.Fs[1].T, idx), Elem: xt.Elem(), Typ: xt.Elem()}}
	case *types.Pointer:
		at := under(xt.Elem()).(*types.Array)
		e.nilCheck(fr, st, x, pos, "array index")
		e.oblige(st, "safety/idx", and(sx("<=", "0", idx), sx("<", idx, num(at.Len()))), pos, "array index in range", nil)
		ref := e.arrayRefOf(x, ins.X.Type())
		if x.K == KPtr && x.P.K == PGlobal {
			e.assumeGlobalInv(fr, st, x.P.Global)
		}
		return Val{K: KPtr, P: &Ptr{K: PElem, Ref: ref, Idx: idx, Elem: at.Elem(), Typ: at.Elem()}}
	}
	unsup("indexaddr on %s", ins.X.Type())
	return Val{}
}

// arrayRefOf gives the array-memory reference for a pointer-to-array value.
func (e *Engine) arrayRefOf(x Val, pt types.Type) string {
	if x.K == KScalar {
		return x.T
	}
	p := x.P
	switch p.K {
	case PGlobal:
		if len(p.Path) == 0 {
			return e.globalRef(p.Global)
		}
	case PHeap:
		_, fname := fieldPathType(p.Struct, p.Path)
		return e.embRef(p.Struct, fname, p.Ref)
	case PElem:
		if p.Idx == "" && len(p.Path) == 0 {
			return p.Ref
		}
	}
	unsup("array inside a local value or nested array")
	return ""
}

func plus(a, b string) string {
	if a == "0" {
		return b
	}
	if b == "0" {
		return a
	}
	return sx("+", a, b)
}

func (e *Engine) execIndex(fr *Frame, st *State, ins *ssa.Index) Val {
	x := e.val(fr, ins.X)
	idx := e.val(fr, ins.Index).T
	pos := e.posOf(fr, ins.Pos())
	switch xt := under(ins.X.Type()).(type) {
	case *types.Array:
		e.oblige(st, "safety/idx", and(sx("<=", "0", idx), sx("<", idx, num(xt.Len()))), pos, "array index in range", nil)
		cs := flat(xt.Elem())
		ts := make([]string, len(cs))
		for i := range cs {
			ts[i] = sx("select", x.Fs[i].T, idx)
		}
		return e.nameVal("ix", xt.Elem(), buildAll(xt.Elem(), ts), st)
	case *types.Basic: // string
		e.oblige(st, "safety/idx", and(sx("<=", "0", idx), sx("<", idx, sx("gs.len", x.T))), pos, "string index in range", nil)
		v := intv(sx("gs.at", x.T, idx))
		return v
	}
	unsup("index on %s", ins.X.Type())
	return Val{}
}

func (e *Engine) execSlice(fr *Frame, st *State, ins *ssa.Slice) Val {
	x := e.val(fr, ins.X)
	pos := e.posOf(fr, ins.Pos())
	get := func(v ssa.Value) string {
		if v == nil {
			return ""
		}
		return e.val(fr, v).T
	}
	lo, hi, mx := get(ins.Low), get(ins.High), get(ins.Max)
	switch xt := under(ins.X.Type()).(type) {
	case *types.Slice:
		ref, off, ln, cp := x.Fs[0].T, x.Fs[1].T, x.Fs[2].T, x.Fs[3].T
		if lo == "" {
			lo = "0"
		}
		if hi == "" {
			hi = ln
		}
		bound := cp
		if mx != "" {
			e.oblige(st, "safety/slice", and(sx("<=", hi, mx), sx("<=", mx, cp)), pos, "slice max in range", nil)
			bound = mx
		}
		e.oblige(st, "safety/slice", and(sx("<=", "0", lo), sx("<=", lo, hi), sx("<=", hi, bound)), pos, "slice bounds in range", nil)
		noff := e.ctx.Define("off", "Int", plus(off, lo))
		return Val{K: KSlice, Typ: ins.Type(), Fs: []Val{intv(ref), intv(noff), intv(e.ctx.Define("len", "Int", sx("-", hi, lo))), intv(e.ctx.Define("cap", "Int", sx("-", bound, lo)))}}
	case *types.Pointer:
		at := under(xt.Elem()).(*types.Array)
		e.nilCheck(fr, st, x, pos, "slice of array")
		n := num(at.Len())
		if lo == "" {
			lo = "0"
		}
		if hi == "" {
			hi = n
		}
		bound := n
		if mx != "" {
			e.oblige(st, "safety/slice", and(sx("<=", hi, mx), sx("<=", mx, n)), pos, "slice max in range", nil)
			bound = mx
		}
		e.oblige(st, "safety/slice", and(sx("<=", "0", lo), sx("<=", lo, hi), sx("<=", hi, bound)), pos, "slice bounds in range", nil)
		ref := e.arrayRefOf(x, ins.X.Type())
		return Val{K: KSlice, Typ: ins.Type(), Fs: []Val{intv(ref), intv(lo), intv(e.ctx.Define("len", "Int", sx("-", hi, lo))), intv(e.ctx.Define("cap", "Int", sx("-", bound, lo)))}}
	case *types.Basic: // string
		ln := sx("gs.len", x.T)
		if lo == "" {
			lo = "0"
		}
		if hi == "" {
			hi = ln
		}
		e.oblige(st, "safety/slice", and(sx("<=", "0", lo), sx("<=", lo, hi), sx("<=", hi, ln)), pos, "string slice bounds in range", nil)
		return scalar(e.strSub(x.T, lo, hi), "Str")
	}
	unsup("slice of %s", ins.X.Type())
	return Val{}
}

// strSub returns a fresh string equal to s[lo:hi].
func (e *Engine) strSub(s, lo, hi string) string {
	if lo == "0" && hi == sx("gs.len", s) {
		return s
	}
	n := e.ctx.Declare("sub", "Str")
	e.ctx.Assume(and(
		eq(sx("gs.len", n), sx("-", hi, lo)),
		fmt.Sprintf("(forall ((i Int)) (! (=> (and (<= 0 i) (< i (- %s %s))) (= (gs.at %s i) (gs.at %s (+ %s i)))) :pattern ((gs.at %s i))))", hi, lo, n, s, lo, n)))
	return n
}

func (e *Engine) makeSlice(fr *Frame, st *State, ins *ssa.MakeSlice) Val {
	ln := e.val(fr, ins.Len).T
	cp := e.val(fr, ins.Cap).T
	pos := e.posOf(fr, ins.Pos())
	e.oblige(st, "safety/makeslice", and(sx("<=", "0", ln), sx("<=", ln, cp), sx("<=", cp, maxLen)), pos, "make: length and capacity in range", nil)
	el := under(ins.Type()).(*types.Slice).Elem()
	if _, ok := e.contracts.Ghosts["allocd"]; ok {
		// allocation counter: bytes requested by make([]T, n) so far (nil.allocd in contracts)
		a := e.heapTerm(st, "G$allocd", "(Array Int Int)")
		sz := types.SizesFor("gc", "amd64").Sizeof(el)
		e.heapSet(st, "G$allocd", "(Array Int Int)", "0", sx("store", a, "0", sx("+", sx("select", a, "0"), sx("*", cp, num(sz)))))
		root := fr
		for root.parent != nil {
			root = root.parent
		}
		if root.contract != nil {
			for _, c := range root.contract.Ensures {
				if strings.Contains(c.Src, "allocd") {
					e.note("allocation counter: counts make([]T, n) in this function and in callees executed in line; append, new and callees with their own contract are not counted")
					break
				}
			}
		}
	}
	r := e.freshRef(st, "mk")
	for _, c := range flat(el) {
		name := memName(el, c.Suffix)
		sortM := "(Array Int (Array Int " + c.Sort + "))"
		m := e.heapTerm(st, name, sortM)
		e.heapSet(st, name, sortM, r, sx("store", m, r, zeroTerm("(Array Int "+c.Sort+")")))
	}
	return Val{K: KSlice, Typ: ins.Type(), Fs: []Val{intv(r), intv("0"), intv(ln), intv(cp)}, Fresh: true}
}

// sentinelFacts: a package-level interface variable that is assigned only in its
// package initialiser, from errors.New / fmt.Errorf or from a freshly allocated
// object, is non-nil and distinct from every other such variable.
func (e *Engine) sentinelFacts(g *ssa.Global, v Val) Val {
	if v.K != KIface || e.mutableGlobal(g) || g.Pkg == nil {
		return v
	}
	init := g.Pkg.Func("init")
	if init == nil {
		return v
	}
	kind := ""
	objTag := 0
	for _, b := range init.Blocks {
		for _, ins := range b.Instrs {
			s, ok := ins.(*ssa.Store)
			if !ok || s.Addr != ssa.Value(g) {
				continue
			}
			switch x := s.Val.(type) {
			case *ssa.Call:
				if f := x.Call.StaticCallee(); f != nil {
					switch f.String() {
					case "errors.New", "fmt.Errorf":
						kind = "new"
					}
				}
			case *ssa.MakeInterface:
				if a, ok := x.X.(*ssa.Alloc); ok && a.Heap {
					kind = "obj"
					objTag = typeTag(x.X.Type())
				}
			}
		}
	}
	if kind == "" {
		return v
	}
	e.note("package-level error sentinels are non-nil, pairwise distinct and never reassigned")
	e.ctx.Assume(not(eq(v.Fs[0].T, "0")))
	res := Val{K: KIface, Typ: v.Typ, Fs: []Val{v.Fs[0], intv(e.globalRef(g))}}
	if kind == "obj" {
		res.Fs[0] = intv(num(int64(objTag)))
		return res
	}
	if e.prog != nil {
		// created by errors.New / fmt.Errorf without %w of a malformed error, or a fresh object of another type
		func() {
			defer func() { recover() }() // package pdf may not be loaded: then malformed() is not expressible
			e.ctx.Assume(not(e.malformedTerm(res)))
		}()
	}
	return res
}

// assumeGlobalInv adds the declared invariants of an immutable package-level
// variable (proved separately against the package initialiser) in the current state.
func (e *Engine) assumeGlobalInv(fr *Frame, st *State, g *ssa.Global) {
	if g.Pkg == nil || e.mutableGlobal(g) {
		return
	}
	for i, gi := range e.contracts.Globals {
		if gi.Pkg != g.Pkg.Pkg.Path() || gi.Name != g.Name() {
			continue
		}
		env := &Env{e: e, fr: nil, st: st, bound: map[string]Val{}, names: map[string]Val{}, pkg: g.Pkg.Pkg, curFunc: "global " + gi.Name}
		t := e.evalBool(gi.Expr, env)
		key := fmt.Sprintf("ginv#%d#%s", i, t)
		if e.ctx.decls[key] {
			continue
		}
		if e.dry == 0 {
			e.ctx.decls[key] = true
		}
		e.ctx.Assume(t)
		e.note("invariant of immutable global " + gi.Name + " (proved against the package initialiser)")
	}
}

// frameFormula: forall r alive before the loop and not among the stable written
// references, now[r] == pre[r].  With a Skolem constant the quantifier is dropped.
func (e *Engine) frameFormula(lf loopFrame, now, skolem string) string {
	r := skolem
	if r == "" {
		r = "r"
	}
	alive := or(and(sx(">", r, "0"), sx("<=", r, lf.top)),
		and(sx("<", r, "0"), sx("<=", sx("div", sx("-", r), num(embStride)), lf.top)))
	conds := []string{alive}
	for _, s := range lf.stable {
		conds = append(conds, not(eq(r, s)))
	}
	body := implies(and(conds...), eq(sx("select", now, r), sx("select", lf.pre, r)))
	if skolem != "" {
		return body
	}
	return fmt.Sprintf("(forall ((r Int)) (! %s :pattern ((select %s r))))", body, now)
}

// topLevelArgs splits "a (b c) d" into its top-level s-expressions.
func topLevelArgs(body string) []string {
	var out []string
	d, start := 0, 0
	for i := 0; i <= len(body); i++ {
		if i == len(body) || (body[i] == ' ' && d == 0) {
			if i > start {
				out = append(out, body[start:i])
			}
			start = i + 1
			continue
		}
		switch body[i] {
		case '(':
			d++
		case ')':
			d--
		}
	}
	return out
}

// refTerms lists the object references held directly in a value.
func refTerms(v Val) []string {
	switch v.K {
	case KSlice:
		return []string{v.Fs[0].T}
	case KIface:
		return []string{v.Fs[1].T}
	case KScalar:
		if v.Sort == "Int" && v.Typ != nil {
			switch under(v.Typ).(type) {
			case *types.Pointer, *types.Map:
				return []string{v.T}
			}
		}
	case KStruct:
		var out []string
		for _, f := range v.Fs {
			out = append(out, refTerms(f)...)
		}
		return out
	}
	return nil
}

// appendOnly: every store to the cell inside the loop assigns append(cell, ...),
// a fresh make/conversion, or nil.
func appendOnly(fr *Frame, li *loopInfo, c *Cell) bool {
	var alloc *ssa.Alloc
	for a, cc := range fr.cells {
		if cc == c {
			alloc = a
		}
	}
	if alloc == nil {
		return false // belongs to another frame (captured variable)
	}
	for b := range li.blocks {
		for _, ins := range b.Instrs {
			st, ok := ins.(*ssa.Store)
			if !ok || st.Addr != ssa.Value(alloc) {
				continue
			}
			switch v := st.Val.(type) {
			case *ssa.Call:
				if bi, ok := v.Call.Value.(*ssa.Builtin); ok && bi.Name() == "append" {
					if ld, ok := v.Call.Args[0].(*ssa.UnOp); ok && ld.X == ssa.Value(alloc) {
						continue
					}
					if sl, ok := v.Call.Args[0].(*ssa.Slice); ok {
						if ld, ok := sl.X.(*ssa.UnOp); ok && ld.X == ssa.Value(alloc) {
							continue
						}
					}
				}
				return false
			case *ssa.MakeSlice, *ssa.Convert:
				continue
			case *ssa.Const:
				if v.Value == nil {
					continue
				}
				return false
			default:
				return false
			}
		}
	}
	return true
}

// rangeIntLoop recognises the lowering of "for i := range n": it returns the
// hidden counter cell and the bound value.
func rangeIntLoop(fr *Frame, li *loopInfo) (*Cell, ssa.Value) {
	var iter *ssa.Alloc
	for _, ins := range li.header.Instrs {
		if u, ok := ins.(*ssa.UnOp); ok {
			if a, ok := u.X.(*ssa.Alloc); ok && a.Comment == "rangeint.iter" {
				iter = a
				break
			}
		}
	}
	if iter == nil {
		return nil, nil
	}
	var bound ssa.Value
	for _, p := range li.header.Preds {
		if len(p.Instrs) == 0 {
			return nil, nil
		}
		iff, ok := p.Instrs[len(p.Instrs)-1].(*ssa.If)
		if !ok || p.Succs[0] != li.header {
			return nil, nil
		}
		cmp, ok := iff.Cond.(*ssa.BinOp)
		if !ok || cmp.Op != token.LSS {
			return nil, nil
		}
		if bound != nil && bound != cmp.Y {
			return nil, nil
		}
		bound = cmp.Y
	}
	c := fr.cells[iter]
	if c == nil {
		return nil, nil
	}
	return c, bound
}
