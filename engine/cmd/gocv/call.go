package main

import (
	"fmt"
	"go/types"
	"strings"

	"golang.org/x/tools/go/ssa"
)

const modulePrefix = "seehuhn.de/go/pdf"

func (e *Engine) lookupContract(fn *ssa.Function) *FuncContract {
	if fn == nil {
		return nil
	}
	if fn.Pkg != nil {
		key := fn.Pkg.Pkg.Path() + "::" + fn.RelString(fn.Pkg.Pkg)
		if fc, ok := e.contracts.Funcs[key]; ok {
			return fc
		}
	}
	if fc, ok := e.contracts.Funcs[fn.String()]; ok {
		return fc
	}
	// instantiations of generics: try the origin
	if o := fn.Origin(); o != nil && o != fn {
		return e.lookupContract(o)
	}
	return nil
}

func (e *Engine) execCall(fr *Frame, st *State, instr ssa.Instruction, call *ssa.CallCommon, resT types.Type) Val {
	pos := e.posOf(fr, instr.Pos())
	args := make([]Val, len(call.Args))
	for i, a := range call.Args {
		args[i] = e.val(fr, a)
		if args[i].Typ == nil && (args[i].K == KScalar || args[i].K == KSlice || args[i].K == KIface) {
			args[i].Typ = a.Type()
		}
	}
	if call.IsInvoke() {
		return e.execInvoke(fr, st, call, e.val(fr, call.Value), args, resT, pos)
	}
	return e.execCallRest(fr, st, instr, call, args, resT, pos)
}

func (e *Engine) execInvoke(fr *Frame, st *State, call *ssa.CallCommon, recv Val, args []Val, resT types.Type, pos string) Val {
	{
		e.oblige(st, "safety/nil", not(eq(recv.Fs[0].T, "0")), pos, "method call on nil interface", nil)
		// known dynamic type: resolve statically
		if k, ok := litVal(recv.Fs[0].T); ok {
			if ct, found := typeTagTypes[int(k)]; found {
				if m := e.prog.LookupMethod(ct, call.Method.Pkg(), call.Method.Name()); m != nil {
					rv := e.unbox(st, recv.Fs[1].T, ct)
					rv.Typ = ct
					return e.callFunction(fr, st, m, append([]Val{rv}, args...), nil, resT, pos)
				}
			}
		}
		key := "(" + types.TypeString(types.Unalias(call.Value.Type()), nil) + ")." + call.Method.Name()
		if _, ok := e.contracts.Funcs[key]; !ok {
			// a method promoted from an embedded interface: (io.Writer).Write
			key = call.Method.FullName()
		}
		if _, ok := e.contracts.Funcs[key]; !ok {
			// an interface declared in a package under contract: pkgpath::(Iface).Method
			if n, isNamed := types.Unalias(call.Value.Type()).(*types.Named); isNamed && n.Obj().Pkg() != nil {
				k2 := n.Obj().Pkg().Path() + "::(" + n.Obj().Name() + ")." + call.Method.Name()
				if _, ok := e.contracts.Funcs[k2]; ok {
					key = k2
				}
			}
		}
		recv.Typ = call.Value.Type()
		all := append([]Val{recv}, args...)
		if fc, ok := e.contracts.Funcs[key]; ok {
			sig := call.Method.Type().(*types.Signature)
			return e.callModular(fr, st, fc, key, sig, true, all, resT, pos)
		}
		return e.callUnknown(fr, st, key, all, resT, pos)
	}
}

func (e *Engine) execCallRest(fr *Frame, st *State, instr ssa.Instruction, call *ssa.CallCommon, args []Val, resT types.Type, pos string) Val {
	switch f := call.Value.(type) {
	case *ssa.Builtin:
		return e.execBuiltin(fr, st, f, call, args, resT, pos)
	case *ssa.Function:
		return e.callFunction(fr, st, f, args, nil, resT, pos)
	}
	fv := e.val(fr, call.Value)
	switch fv.K {
	case KClosure:
		return e.callFunction(fr, st, fv.Cl.Fn, args, fv.Cl.Bindings, resT, pos)
	case KFunc:
		if fv.Fn != nil {
			return e.callFunction(fr, st, fv.Fn, args, nil, resT, pos)
		}
	}
	if fv.K == KScalar {
		if name := paramOfCallee(call.Value); name != "" && fr.contract != nil && fr.contract.Callbacks[name] == "pure" {
			// a function-typed parameter declared "callback pure": no heap effect, arbitrary result
			e.note("callback parameter " + name + " of " + shortName(fr.fn.String()) + " assumed to have no effect on the heap (callers inline the closure)")
			return e.freshResult(st, "cb$"+name, resT)
		}
		e.oblige(st, "safety/nil", not(eq(fv.T, "0")), pos, "call of nil function value", nil)
	}
	return e.callUnknown(fr, st, "func value "+call.Value.Name(), args, resT, pos)
}

// paramOfCallee: the callee value is a load of the spilled parameter cell "name".
func paramOfCallee(v ssa.Value) string {
	if u, ok := v.(*ssa.UnOp); ok {
		if a, ok := u.X.(*ssa.Alloc); ok {
			for _, p := range a.Parent().Params {
				if p.Name() == a.Comment {
					return a.Comment
				}
			}
		}
	}
	if p, ok := v.(*ssa.Parameter); ok {
		return p.Name()
	}
	return ""
}

func (e *Engine) inStack(fr *Frame, fn *ssa.Function) bool {
	for f := fr; f != nil; f = f.parent {
		if f.fn == fn {
			return true
		}
	}
	return false
}

func (e *Engine) frameDepth(fr *Frame) int {
	d := 0
	for f := fr; f != nil; f = f.parent {
		d++
	}
	return d
}

func (e *Engine) callFunction(fr *Frame, st *State, fn *ssa.Function, args []Val, free []Val, resT types.Type, pos string) Val {
	fc := e.lookupContract(fn)
	name := fn.String()
	if fc != nil && !fc.Inline {
		return e.callModular(fr, st, fc, name, fn.Signature, false, args, resT, pos)
	}
	isClosure := free != nil || fn.Parent() != nil
	inModule := fn.Pkg != nil && strings.HasPrefix(fn.Pkg.Pkg.Path(), modulePrefix)
	if fn.Pkg == nil && fn.Parent() != nil {
		inModule = true
	}
	blocked := false
	if e.fc != nil {
		for _, n := range e.fc.NoInline {
			if strings.HasSuffix(name, n) {
				blocked = true
			}
		}
	}
	max := e.cfg.InlineMax
	if isClosure {
		max += 2
	}
	if len(fn.Blocks) > 0 && inModule && !blocked && !e.inStack(fr, fn) && e.frameDepth(fr) <= max && len(fn.Blocks) <= 120 {
		return e.callInline(fr, st, fn, fc, args, free, resT, pos)
	}
	// closure that cannot be inlined: its captured variables may change
	for _, b := range free {
		if b.K == KPtr {
			e.havocPtr(st, b.P)
		}
	}
	return e.callUnknown(fr, st, name, args, resT, pos)
}

func (e *Engine) callInline(fr *Frame, st *State, fn *ssa.Function, fc *FuncContract, args []Val, free []Val, resT types.Type, pos string) Val {
	e.steps += len(fn.Blocks)
	if e.steps > 60000 {
		unsup("inlining budget exceeded")
	}
	nf := e.newFrame(fn, args, free, st, fr)
	nf.contract = fc
	nf.label = "inl:" + fn.Name() + "/"
	rets := e.runBody(nf, st.clone())
	if len(rets) == 0 {
		// callee never returns normally
		st.pc = "false"
		return e.zeroResult(resT)
	}
	edges := make([]edge, len(rets))
	pcs := make([]string, len(rets))
	for i, r := range rets {
		edges[i] = edge{nil, r.st}
		pcs[i] = r.st.pc
	}
	merged := e.mergeStates(edges)
	// drop the callee's cells
	for a, c := range nf.cells {
		_ = a
		delete(merged.cells, c)
	}
	*st = *merged
	res := fn.Signature.Results()
	have := make([]int, len(rets))
	for i := range have {
		have[i] = i
	}
	switch res.Len() {
	case 0:
		return Val{K: KUnit}
	case 1:
		v := e.mergeVals("ret", res.At(0).Type(), pcs, have, func(i int) Val { return rets[i].vals[0] })
		v.Typ = res.At(0).Type()
		return v
	}
	tv := Val{K: KTuple}
	for k := 0; k < res.Len(); k++ {
		k := k
		v := e.mergeVals("ret", res.At(k).Type(), pcs, have, func(i int) Val { return rets[i].vals[k] })
		v.Typ = res.At(k).Type()
		tv.Fs = append(tv.Fs, v)
	}
	return tv
}

func (e *Engine) zeroResult(resT types.Type) Val {
	if resT == nil {
		return Val{K: KUnit}
	}
	if t, ok := resT.(*types.Tuple); ok {
		if t.Len() == 0 {
			return Val{K: KUnit}
		}
		v := Val{K: KTuple}
		for i := 0; i < t.Len(); i++ {
			v.Fs = append(v.Fs, zero(t.At(i).Type()))
		}
		return v
	}
	return zero(resT)
}

func (e *Engine) freshResult(st *State, hint string, resT types.Type) Val {
	if resT == nil {
		return Val{K: KUnit}
	}
	if t, ok := resT.(*types.Tuple); ok {
		if t.Len() == 0 {
			return Val{K: KUnit}
		}
		v := Val{K: KTuple}
		for i := 0; i < t.Len(); i++ {
			f := e.freshVal(fmt.Sprintf("%s#%d", hint, i), t.At(i).Type(), st)
			f.Typ = t.At(i).Type()
			v.Fs = append(v.Fs, f)
		}
		return v
	}
	v := e.freshVal(hint, resT, st)
	v.Typ = resT
	return v
}

// havocAll forgets the whole heap and all mutable globals.
func (e *Engine) havocAll(st *State) {
	st.epoch = e.ctx.fresh("ep")
	st.heap = map[string]string{}
	for g := range st.globals {
		if e.mutableGlobal(g) {
			delete(st.globals, g)
		}
	}
	nt := e.ctx.Declare("top", "Int")
	e.ctx.Assume(sx(">=", nt, st.top))
	st.top = nt
	e.record(func(w *WriteSet) { w.all = true; w.alloc = true })
}

func (e *Engine) havocPtr(st *State, p *Ptr) {
	switch p.K {
	case PCell:
		if old, ok := st.cells[p.Cell]; ok && old.K != KClosure && old.K != KFunc && old.K != KPtr {
			st.cells[p.Cell] = e.freshVal("hv$"+p.Cell.Name, p.Cell.Typ, st)
			c := p.Cell
			e.record(func(w *WriteSet) { w.cells[c] = true })
		}
	default:
		v := e.freshVal("hv", p.Typ, st)
		e.storePtr(st, p, v)
	}
}

func (e *Engine) callUnknown(fr *Frame, st *State, name string, args []Val, resT types.Type, pos string) Val {
	e.note("call to " + shortName(name) + " without contract: heap havocked, result unconstrained")
	for _, a := range args {
		if a.K == KPtr || (a.K == KIface && a.P != nil) {
			e.havocPtr(st, a.P)
		}
		if a.K == KClosure {
			for _, b := range a.Cl.Bindings {
				if b.K == KPtr {
					e.havocPtr(st, b.P)
				}
			}
		}
	}
	e.havocAll(st)
	return e.freshResult(st, "r$"+shortName(name), resT)
}

func shortName(n string) string {
	n = strings.ReplaceAll(n, modulePrefix+"/", "")
	n = strings.ReplaceAll(n, modulePrefix+".", "")
	return n
}

// ---- modular calls ----

func (e *Engine) calleeEnv(fr *Frame, st *State, pre *State, fc *FuncContract, sig *types.Signature, invoke bool, args []Val) *Env {
	env := &Env{e: e, fr: fr, st: st, oldSt: pre, bound: map[string]Val{}, names: map[string]Val{}, curFunc: fc.Name, top0: pre.top}
	if fr != nil && fr.fn.Pkg != nil {
		env.pkg = fr.fn.Pkg.Pkg
	}
	var names []string
	if sig.Recv() != nil || invoke {
		n := "this"
		if sig.Recv() != nil && sig.Recv().Name() != "" && sig.Recv().Name() != "_" {
			n = sig.Recv().Name()
		}
		names = append(names, n)
	}
	for i := 0; i < sig.Params().Len(); i++ {
		names = append(names, sig.Params().At(i).Name())
	}
	if fc.ParamNames != nil {
		for i, n := range fc.ParamNames {
			if i < len(names) {
				names[i] = n
			}
		}
	}
	// a callee-side Env must not see the caller's locals
	envFr := *fr
	envFr.cells = map[*ssa.Alloc]*Cell{}
	env.fr = &envFr
	for i, n := range names {
		if i < len(args) && n != "" && n != "_" {
			v := args[i]
			if v.Typ == nil {
				if sig.Recv() != nil && i == 0 {
					v.Typ = sig.Recv().Type()
				} else {
					k := i
					if sig.Recv() != nil || invoke {
						k--
					}
					if k >= 0 && k < sig.Params().Len() {
						v.Typ = sig.Params().At(k).Type()
					}
				}
			}
			env.names[n] = v
		}
	}
	return env
}

func (e *Engine) callModular(fr *Frame, st *State, fc *FuncContract, name string, sig *types.Signature, invoke bool, args []Val, resT types.Type, pos string) Val {
	if fc.Trusted {
		e.note("trusted contract: " + shortName(name))
	}
	if sig.Recv() != nil && !invoke && !fc.NilRecv && len(args) > 0 && args[0].K == KScalar {
		if _, isPtr := under(sig.Recv().Type()).(*types.Pointer); isPtr {
			e.oblige(st, "safety/nil", not(eq(args[0].T, "0")), pos, "method call on nil receiver", nil)
		}
	}
	pre := st.clone()
	env := e.calleeEnv(fr, st, pre, fc, sig, invoke, args)
	if fn := e.calleePkg(name); fn != nil {
		env.pkg = fn
	}
	if fc.Delegate != "" {
		return e.callDelegate(fr, st, fc, env, resT, pos)
	}
	for _, p := range fc.PanicsIf {
		// the call returned, so the documented panic condition did not hold
		e.ctx.Assume(implies(st.pc, not(e.evalBool(p.Expr, env))))
		e.note("documented panic of " + shortName(name) + " is accepted behaviour at its call sites")
	}
	for i, r := range fc.Requires {
		g := e.evalBool(r.Expr, env)
		e.oblige(st, "pre/"+shortName(name), g, pos, fmt.Sprintf("precondition %d of %s: %s", i+1, shortName(name), r.Src), fc.Tags)
	}
	if len(fc.Variant) > 0 {
		// recursion variant: the callee's measure (at its arguments) is below the measure the
		// function under verification had at entry, and not negative
		root := fr
		for root.parent != nil {
			root = root.parent
		}
		if root.contract != nil && len(root.contract.Variant) > 0 {
			mine := e.baseEnv(root, root.entry).eval(root.contract.Variant[0].Expr).T
			theirs := env.eval(fc.Variant[0].Expr).T
			e.oblige(st, "variant/"+shortName(name), and(sx("<=", "0", theirs), sx("<", theirs, mine)), pos,
				fmt.Sprintf("recursion variant decreases: %s of %s below %s at entry", fc.Variant[0].Src, shortName(name), root.contract.Variant[0].Src), root.contract.Tags)
		}
	}
	// frame
	switch {
	case fc.Pure:
	case !fc.HasAssigns || fc.AssignsAll:
		for _, a := range args {
			if a.K == KPtr {
				e.havocPtr(st, a.P)
			}
		}
		e.havocAll(st)
	default:
		for _, a := range args {
			if (a.K == KPtr || (a.K == KIface && a.P != nil)) && fc.Trusted {
				e.havocPtr(st, a.P) // a trusted callee may write through pointer arguments
			}
		}
		for _, a := range fc.Assigns {
			e.havocLocation(env, st, a)
		}
		nt := e.ctx.Declare("top", "Int")
		e.ctx.Assume(sx(">=", nt, st.top))
		st.top = nt
		e.record(func(w *WriteSet) { w.alloc = true })
	}
	if len(fc.Fresh) > 0 && fc.Pure {
		// the callee allocates its result: advance the frontier before the result is named
		nt := e.ctx.Declare("top", "Int")
		e.ctx.Assume(sx(">", nt, st.top))
		st.top = nt
		e.record(func(w *WriteSet) { w.alloc = true })
	}
	res := e.freshResult(st, "r$"+sanitize(shortName(name)), resT)
	// bind results
	post := e.calleeEnv(fr, st, pre, fc, sig, invoke, args)
	post.pkg = env.pkg
	rn := resultNames(sig, fc)
	switch res.K {
	case KTuple:
		for i, n := range rn {
			post.names[n] = res.Fs[i]
		}
		if len(rn) > 0 {
			post.names["\\result"] = res.Fs[0]
		}
	case KUnit:
	default:
		if len(rn) > 0 {
			post.names[rn[0]] = res
		}
		post.names["\\result"] = res
	}
	for _, f := range fc.Fresh {
		v, ok := post.names[f]
		if !ok {
			cerr("fresh: unknown result %s", f)
		}
		var r string
		switch v.K {
		case KSlice:
			r = v.Fs[0].T
		case KIface:
			r = v.Fs[1].T
		default:
			r = v.T
		}
		e.ctx.Assume(implies(st.pc, or(eq(r, "0"), and(sx(">", r, pre.top), sx("<=", r, st.top)))))
	}
	for _, en := range fc.Ensures {
		if strings.Contains(en.Src, "\\local_") {
			// a postcondition about the callee's local variables says nothing to a caller
			continue
		}
		g := e.evalClause(en, post, "ensures of "+shortName(name))
		e.ctx.Assume(implies(st.pc, g))
	}
	return res
}

func (e *Engine) calleePkg(name string) *types.Package {
	// name like "pkg/path.Func" or "(*pkg/path.T).M"
	n := strings.TrimPrefix(strings.TrimPrefix(name, "("), "*")
	i := strings.LastIndex(n, "/")
	j := strings.Index(n[i+1:], ".")
	if j < 0 {
		return nil
	}
	path := n[:i+1+j]
	for _, p := range e.prog.AllPackages() {
		if p.Pkg.Path() == path {
			return p.Pkg
		}
	}
	return nil
}

// havocLocation forgets one assignable location named in an assigns clause.
func (e *Engine) havocLocation(env *Env, st *State, loc Expr) {
	pre := env.with(env.oldSt)
	switch x := loc.(type) {
	case EField:
		if id, ok := x.X.(EIdent); ok && id.Name == "\\any" {
			// \any.g: the ghost field g of every object
			g, ok := e.contracts.Ghosts[x.Name]
			if !ok {
				cerr("assigns \\any.%s: not a ghost field", x.Name)
			}
			for _, k := range ghostKeys(g) {
				fv := e.ctx.Declare("hv$"+x.Name, k.sort)
				if isGhostLen(k.name) {
					e.ctx.Assume(fmt.Sprintf("(forall ((r Int)) (<= 0 (select %s r)))", fv))
				}
				e.heapSet(st, k.name, k.sort, "", fv)
			}
			return
		}
		base := pre.eval(x.X)
		ref := base.T
		if base.K == KIface {
			ref = base.Fs[1].T
		}
		if g, ok := e.contracts.Ghosts[x.Name]; ok {
			for _, k := range ghostKeys(g) {
				arr := e.heapTerm(st, k.name, k.sort)
				fv := e.ctx.Declare("hv$"+x.Name, k.sort[len("(Array Int ") : len(k.sort)-1])
				if isGhostLen(k.name) {
					e.ctx.Assume(sx("<=", "0", fv))
				}
				e.heapSet(st, k.name, k.sort, ref, sx("store", arr, ref, fv))
			}
			return
		}
		if base.Typ == nil {
			cerr("assigns: untyped base in .%s", x.Name)
		}
		pt, ok := under(base.Typ).(*types.Pointer)
		if !ok {
			cerr("assigns: base of .%s is not a pointer", x.Name)
		}
		stt := under(pt.Elem()).(*types.Struct)
		for i := 0; i < stt.NumFields(); i++ {
			if stt.Field(i).Name() == x.Name || x.Name == "all" {
				ft := stt.Field(i).Type()
				if at, isArr := under(ft).(*types.Array); isArr {
					_, fname := fieldPathType(pt.Elem(), []int{i})
					e.havocArray(st, at.Elem(), e.embRef(pt.Elem(), fname, ref))
					continue
				}
				fv := e.freshVal("hv$"+stt.Field(i).Name(), ft, st)
				e.storeHeapField(st, pt.Elem(), ref, []int{i}, fv)
			}
		}
	case ECall:
		switch x.Fn {
		case "elems":
			v := pre.eval(x.Args[0])
			if v.K != KSlice {
				cerr("assigns elems(): not a slice")
			}
			e.havocWindow(st, sliceElem(v.Typ), v.Fs[0].T, v.Fs[1].T, v.Fs[2].T)
			return
		case "mapof":
			v := pre.eval(x.Args[0])
			if v.Typ == nil {
				cerr("assigns mapof(): untyped")
			}
			dom, domSort, vals, valSorts, _ := mapNames(v.Typ)
			names := append([]string{dom}, vals...)
			sorts := append([]string{domSort}, valSorts...)
			for i := range names {
				arr := e.heapTerm(st, names[i], sorts[i])
				inner := sorts[i][len("(Array Int ") : len(sorts[i])-1]
				e.heapSet(st, names[i], sorts[i], v.T, sx("store", arr, v.T, e.ctx.Declare("hv$map", inner)))
			}
			l := e.heapTerm(st, mapLenName, "(Array Int Int)")
			e.heapSet(st, mapLenName, "(Array Int Int)", v.T, sx("store", l, v.T, e.ctx.Declare("hv$maplen", "Int")))
			return
		}
		cerr("assigns: unsupported location %s(...)", x.Fn)
	default:
		cerr("assigns: unsupported location %T", loc)
	}
}

func (e *Engine) havocArray(st *State, elem types.Type, ref string) {
	for _, c := range flat(elem) {
		name := memName(elem, c.Suffix)
		sortM := "(Array Int (Array Int " + c.Sort + "))"
		m := e.heapTerm(st, name, sortM)
		e.heapSet(st, name, sortM, ref, sx("store", m, ref, e.ctx.Declare("hv$arr", "(Array Int "+c.Sort+")")))
	}
}

// havocWindow forgets the elements [off, off+n) of array ref and keeps the others.
func (e *Engine) havocWindow(st *State, elem types.Type, ref, off, n string) {
	for _, c := range flat(elem) {
		name := memName(elem, c.Suffix)
		srtA := "(Array Int " + c.Sort + ")"
		sortM := "(Array Int " + srtA + ")"
		m := e.heapTerm(st, name, sortM)
		old := e.ctx.Define("old", srtA, sx("select", m, ref))
		a := e.ctx.Declare("hv$win", srtA)
		e.ctx.Assume(fmt.Sprintf("(forall ((i Int)) (! (=> (not (and (<= %s i) (< i (+ %s %s)))) (= (select %s i) (select %s i))) :pattern ((select %s i))))", off, off, n, a, old, a))
		e.heapSet(st, name, sortM, ref, sx("store", m, ref, a))
	}
}

type ghostKey struct{ name, sort string }

func ghostKeys(g *GhostField) []ghostKey {
	switch g.Type {
	case "int":
		return []ghostKey{{"G$" + g.Name, "(Array Int Int)"}}
	case "bool":
		return []ghostKey{{"G$" + g.Name, "(Array Int Bool)"}}
	case "seq":
		return []ghostKey{{"G$" + g.Name + "$arr", "(Array Int (Array Int Int))"}, {"G$" + g.Name + "$len", "(Array Int Int)"}}
	}
	return nil
}

// ---- postconditions and frame of the function under verification ----

func (e *Engine) checkPost(fr *Frame, st *State, vals []Val, pos string) {
	fc := fr.contract
	if fc == nil || e.dry > 0 {
		return
	}
	env := e.baseEnv(fr, st)
	env.curFunc = fc.Name
	rn := resultNames(fr.fn.Signature, fc)
	for i, n := range rn {
		if i < len(vals) {
			v := vals[i]
			if v.Typ == nil {
				v.Typ = fr.fn.Signature.Results().At(i).Type()
			}
			env.names[n] = v
			if i == 0 {
				env.names["\\result"] = v
			}
		}
	}
	if len(fc.Apply) > 0 {
		loc := *env
		loc.locals = true
		for _, ap := range fc.Apply {
			e.applyLemma(&loc, st, ap)
		}
	}
	for i, en := range fc.Ensures {
		g := e.evalBool(en.Expr, env)
		e.oblige(st, fmt.Sprintf("post/%d", i+1), g, en.Pos, "postcondition: "+en.Src+" (return at "+pos+")", fc.Tags)
	}
	e.checkFrame(fr, st, pos)
}

// checkFrame: every heap location that existed at entry and is not covered by
// the assigns clause is unchanged.
func (e *Engine) checkFrame(fr *Frame, st *State, pos string) {
	fc := fr.contract
	if !fc.HasAssigns || fc.AssignsAll {
		return
	}
	if st.epoch != fr.entry.epoch {
		// something was havocked wholesale: the frame cannot be established
		e.oblige(st, "frame", "false", pos, "frame: a callee without an assigns clause was called", fc.Tags)
		return
	}
	allowed := map[string][]string{} // heap key -> allowed refs
	env := e.baseEnv(fr, fr.entry)
	for _, a := range fc.Assigns {
		e.allowedLocation(env, a, allowed)
	}
	var keys []string
	for k := range st.heap {
		keys = append(keys, k)
	}
	sortStrings(keys)
	for _, k := range keys {
		now := st.heap[k]
		was := e.heapTerm(fr.entry, k, e.heapSorts[k])
		if now == was {
			continue
		}
		if e.freeGhostKey(k) {
			continue // bookkeeping ghosts declared free: any function may change them
		}
		if strings.HasPrefix(k, "B$") {
			continue // box memory holds only immutable boxed values under fresh ids
		}
		whole := false
		for _, a := range allowed[k] {
			if a == "*" {
				whole = true
			}
		}
		if whole {
			continue
		}
		r := e.ctx.Declare("fr", "Int")
		var excl []string
		for _, a := range allowed[k] {
			excl = append(excl, not(eq(r, a)))
		}
		alive := or(and(sx(">", r, "0"), sx("<=", r, fr.entry.top)),
			and(sx("<", r, "0"), sx("<=", sx("div", sx("-", r), num(embStride)), fr.entry.top)))
		goal := implies(and(append([]string{alive}, excl...)...), eq(sx("select", now, r), sx("select", was, r)))
		e.oblige(st, "frame/"+sanitize(k), goal, pos, "frame: "+k+" unchanged outside the assigns clause", fc.Tags)
	}
}

func (e *Engine) allowedLocation(env *Env, loc Expr, allowed map[string][]string) {
	switch x := loc.(type) {
	case EField:
		if id, ok := x.X.(EIdent); ok && id.Name == "\\any" {
			if g, ok := e.contracts.Ghosts[x.Name]; ok {
				for _, k := range ghostKeys(g) {
					allowed[k.name] = append(allowed[k.name], "*")
				}
				return
			}
			cerr("assigns \\any.%s: not a ghost field", x.Name)
		}
		base := env.eval(x.X)
		ref := base.T
		if base.K == KIface {
			ref = base.Fs[1].T
		}
		if g, ok := e.contracts.Ghosts[x.Name]; ok {
			for _, k := range ghostKeys(g) {
				allowed[k.name] = append(allowed[k.name], ref)
			}
			return
		}
		pt, ok := under(base.Typ).(*types.Pointer)
		if !ok {
			cerr("assigns: base of .%s is not a pointer", x.Name)
		}
		stt := under(pt.Elem()).(*types.Struct)
		for i := 0; i < stt.NumFields(); i++ {
			if stt.Field(i).Name() == x.Name || x.Name == "all" {
				ft := stt.Field(i).Type()
				_, fname := fieldPathType(pt.Elem(), []int{i})
				if at, isArr := under(ft).(*types.Array); isArr {
					for _, c := range flat(at.Elem()) {
						k := memName(at.Elem(), c.Suffix)
						allowed[k] = append(allowed[k], e.embRef(pt.Elem(), fname, ref))
					}
					continue
				}
				for _, c := range flat(ft) {
					k := heapName(pt.Elem(), fname, c.Suffix)
					allowed[k] = append(allowed[k], ref)
				}
			}
		}
	case ECall:
		switch x.Fn {
		case "elems":
			v := env.eval(x.Args[0])
			el := sliceElem(v.Typ)
			for _, c := range flat(el) {
				k := memName(el, c.Suffix)
				allowed[k] = append(allowed[k], v.Fs[0].T)
			}
		case "mapof":
			v := env.eval(x.Args[0])
			dom, _, vals, _, _ := mapNames(v.Typ)
			for _, k := range append([]string{dom, mapLenName}, vals...) {
				allowed[k] = append(allowed[k], v.T)
			}
		}
	}
}

func sortStrings(s []string) {
	for i := 1; i < len(s); i++ {
		for j := i; j > 0 && s[j] < s[j-1]; j-- {
			s[j], s[j-1] = s[j-1], s[j]
		}
	}
}

// ---- deferred calls ----

func (e *Engine) execDeferred(fr *Frame, st *State, d deferred, pos string) {
	call := d.call
	if call.IsInvoke() {
		// the receiver was evaluated when the defer statement ran
		e.execInvoke(fr, st, call, d.fn, d.args, nil, pos)
		return
	}
	switch f := call.Value.(type) {
	case *ssa.Function:
		e.callFunction(fr, st, f, d.args, nil, nil, pos)
		return
	case *ssa.Builtin:
		unsup("deferred builtin")
	}
	switch d.fn.K {
	case KClosure:
		e.callFunction(fr, st, d.fn.Cl.Fn, d.args, d.fn.Cl.Bindings, nil, pos)
	case KFunc:
		e.callFunction(fr, st, d.fn.Fn, d.args, nil, nil, pos)
	default:
		unsup("deferred call of unknown function value")
	}
}

// ---- builtins ----

func (e *Engine) execBuiltin(fr *Frame, st *State, b *ssa.Builtin, call *ssa.CallCommon, args []Val, resT types.Type, pos string) Val {
	switch b.Name() {
	case "len":
		x := args[0]
		switch under(call.Args[0].Type()).(type) {
		case *types.Slice:
			return intv(x.Fs[2].T)
		case *types.Basic:
			return intv(sx("gs.len", x.T))
		case *types.Map:
			return intv(e.mapLen(st, x.T))
		case *types.Pointer:
			at := under(under(call.Args[0].Type()).(*types.Pointer).Elem()).(*types.Array)
			return intv(num(at.Len()))
		case *types.Array:
			return intv(num(under(call.Args[0].Type()).(*types.Array).Len()))
		}
		unsup("len of %s", call.Args[0].Type())
	case "cap":
		if _, ok := under(call.Args[0].Type()).(*types.Slice); ok {
			return intv(args[0].Fs[3].T)
		}
		unsup("cap of %s", call.Args[0].Type())
	case "append":
		return e.execAppend(fr, st, call, args, pos)
	case "copy":
		return e.execCopy(fr, st, call, args, pos)
	case "delete":
		e.mapDelete(st, call.Args[0].Type(), args[0].T, args[1])
		return Val{K: KUnit}
	case "min", "max":
		if !isInteger(call.Args[0].Type()) {
			unsup("min/max on non-integers")
		}
		r := args[0].T
		for _, a := range args[1:] {
			if b.Name() == "min" {
				r = ite(sx("<=", r, a.T), r, a.T)
			} else {
				r = ite(sx(">=", r, a.T), r, a.T)
			}
		}
		return intv(e.ctx.Define(b.Name(), "Int", r))
	case "print", "println":
		return Val{K: KUnit}
	case "ssa:wrapnilchk":
		e.nilCheck(fr, st, args[0], pos, "method value on nil pointer")
		return args[0]
	case "ssa:deferstack":
		return intv("0")
	case "clear":
		unsup("clear")
	case "recover":
		unsup("recover")
	}
	unsup("builtin %s", b.Name())
	return Val{}
}

// copyInto returns an array equal to dst except that n elements starting at
// dstStart equal src[srcStart...].
func (e *Engine) copyInto(srt, dst, dstStart string, src func(idx string) string, srcStart, n string) string {
	if k, ok := litVal(n); ok && k <= 4 {
		r := dst
		for j := int64(0); j < k; j++ {
			r = sx("store", r, plus(dstStart, num(j)), src(plus(srcStart, num(j))))
		}
		return r
	}
	a := e.ctx.Declare("cp", srt)
	in := fmt.Sprintf("(and (<= %s i) (< i (+ %s %s)))", dstStart, dstStart, n)
	e.ctx.Assume(fmt.Sprintf("(forall ((i Int)) (! (=> %s (= (select %s i) %s)) :pattern ((select %s i))))", in, a, src(sx("+", sx("-", "i", dstStart), srcStart)), a))
	e.ctx.Assume(fmt.Sprintf("(forall ((i Int)) (! (=> (not %s) (= (select %s i) (select %s i))) :pattern ((select %s i))))", in, a, dst, a))
	return a
}

func (e *Engine) execAppend(fr *Frame, st *State, call *ssa.CallCommon, args []Val, pos string) Val {
	s := args[0]
	st0 := under(call.Args[0].Type()).(*types.Slice)
	el := st0.Elem()
	ref, off, ln, cp := s.Fs[0].T, s.Fs[1].T, s.Fs[2].T, s.Fs[3].T
	// source
	var n string
	var srcOf func(ci int, srt string) func(idx string) string
	if isString(call.Args[1].Type()) {
		str := args[1].T
		n = sx("gs.len", str)
		srcOf = func(ci int, srt string) func(string) string {
			return func(idx string) string { return sx("gs.at", str, idx) }
		}
	} else {
		t := args[1]
		n = t.Fs[2].T
		srcOf = func(ci int, srt string) func(string) string {
			c := flat(el)[ci]
			m := e.heapTerm(st, memName(el, c.Suffix), "(Array Int (Array Int "+c.Sort+"))")
			arr := e.ctx.Define("src", "(Array Int "+c.Sort+")", sx("select", m, t.Fs[0].T))
			toff := t.Fs[1].T
			return func(idx string) string { return sx("select", arr, plus(toff, idx)) }
		}
	}
	nlen := e.ctx.Define("alen", "Int", sx("+", ln, n))
	e.ctx.Assume(implies(st.pc, sx("<=", nlen, maxLen))) // standing assumption: no slice exceeds 2^48 elements
	fits := e.ctx.Define("fits", "Bool", and(sx("<=", nlen, cp), not(eq(ref, "0"))))
	// The result is (rref, roff, nlen, rcap): the same array in place when the
	// capacity suffices, otherwise a freshly allocated one.
	fresh := e.freshRef(st, "app")
	rref := e.ctx.Define("aref", "Int", ite(fits, ref, fresh))
	roff := e.ctx.Define("aoff", "Int", ite(fits, off, "0"))
	ncap := e.ctx.Declare("acap", "Int")
	e.ctx.Assume(and(sx("<=", nlen, ncap), sx("<=", ncap, maxLen)))
	rcap := e.ctx.Define("acap", "Int", ite(fits, cp, ncap))
	for ci, c := range flat(el) {
		name := memName(el, c.Suffix)
		srtA := "(Array Int " + c.Sort + ")"
		sortM := "(Array Int " + srtA + ")"
		m := e.heapTerm(st, name, sortM)
		old := e.ctx.Define("old", srtA, sx("select", m, ref))
		src := srcOf(ci, srtA)
		na := e.ctx.Declare("app", srtA)
		// kept prefix
		e.ctx.Assume(fmt.Sprintf("(forall ((j Int)) (! (=> (and (<= %s j) (< j (+ %s %s))) (= (select %s j) (select %s (+ (- j %s) %s)))) :pattern ((select %s j))))", roff, roff, ln, na, old, roff, off, na))
		// appended elements
		if k, ok := litVal(n); ok && k <= 4 {
			for j := int64(0); j < k; j++ {
				e.ctx.Assume(eq(sx("select", na, sx("+", roff, ln, num(j))), src(num(j))))
			}
		} else {
			e.ctx.Assume(fmt.Sprintf("(forall ((j Int)) (! (=> (and (<= (+ %s %s) j) (< j (+ %s %s))) (= (select %s j) %s)) :pattern ((select %s j))))", roff, ln, roff, nlen, na, src(sx("-", "j", sx("+", roff, ln))), na))
		}
		// in place: everything outside the appended window is untouched
		e.ctx.Assume(fmt.Sprintf("(=> %s (forall ((j Int)) (! (=> (or (< j (+ %s %s)) (>= j (+ %s %s))) (= (select %s j) (select %s j))) :pattern ((select %s j)))))", fits, off, ln, off, nlen, na, old, na))
		e.heapSet(st, name, sortM, rref, sx("store", m, rref, na))
	}
	return Val{K: KSlice, Typ: call.Args[0].Type(), Fs: []Val{intv(rref), intv(roff), intv(nlen), intv(rcap)}, AppOf: ref}
}

func (e *Engine) execCopy(fr *Frame, st *State, call *ssa.CallCommon, args []Val, pos string) Val {
	d := args[0]
	el := under(call.Args[0].Type()).(*types.Slice).Elem()
	var slen string
	if isString(call.Args[1].Type()) {
		slen = sx("gs.len", args[1].T)
	} else {
		slen = args[1].Fs[2].T
	}
	n := e.ctx.Define("ncopy", "Int", ite(sx("<=", d.Fs[2].T, slen), d.Fs[2].T, slen))
	for _, c := range flat(el) {
		name := memName(el, c.Suffix)
		srtA := "(Array Int " + c.Sort + ")"
		sortM := "(Array Int " + srtA + ")"
		m := e.heapTerm(st, name, sortM)
		old := e.ctx.Define("old", srtA, sx("select", m, d.Fs[0].T))
		var src func(string) string
		if isString(call.Args[1].Type()) {
			str := args[1].T
			src = func(idx string) string { return sx("gs.at", str, idx) }
		} else {
			s := args[1]
			sarr := e.ctx.Define("src", srtA, sx("select", m, s.Fs[0].T))
			src = func(idx string) string { return sx("select", sarr, plus(s.Fs[1].T, idx)) }
		}
		na := e.copyInto(srtA, old, d.Fs[1].T, src, "0", n)
		e.heapSet(st, name, sortM, d.Fs[0].T, sx("store", m, d.Fs[0].T, na))
	}
	return intv(n)
}

// callDelegate: a trusted function that formats some bytes and hands them to
// exactly one call of a method (Write) of one of its arguments.
func (e *Engine) callDelegate(fr *Frame, st *State, fc *FuncContract, env *Env, resT types.Type, pos string) Val {
	d := fc.Delegate // "w.Write(out)"
	i, j, k := strings.Index(d, "."), strings.Index(d, "("), strings.Index(d, ")")
	if i < 0 || j < i || k < j {
		cerr("delegate: want param.Method(out)")
	}
	pname, mname, oname := d[:i], d[i+1:j], d[j+1:k]
	recv, ok := env.names[pname]
	if !ok || recv.K != KIface {
		cerr("delegate: %s is not an interface parameter", pname)
	}
	for _, r := range fc.Requires {
		g := e.evalBool(r.Expr, env)
		e.oblige(st, "pre/"+shortName(fc.Name), g, pos, "precondition of "+shortName(fc.Name)+": "+r.Src, fc.Tags)
	}
	// the formatted bytes: a fresh slice about which only the ensures-out clauses are known
	bt := types.NewSlice(types.Typ[types.Uint8])
	ref := e.freshRef(st, "fmt")
	ln := e.ctx.Declare("fmtlen", "Int")
	e.ctx.Assume(and(sx("<=", "0", ln), sx("<=", ln, maxLen)))
	e.havocArray(st, types.Typ[types.Uint8], ref)
	out := Val{K: KSlice, Typ: bt, Fs: []Val{intv(ref), intv("0"), intv(ln), intv(ln)}}
	oenv := *env
	oenv.names = map[string]Val{}
	for n, v := range env.names {
		oenv.names[n] = v
	}
	oenv.names[oname] = out
	oenv.st = st
	for _, c := range fc.EnsuresOut {
		e.ctx.Assume(implies(st.pc, e.evalBool(c.Expr, &oenv)))
	}
	// dispatch the method
	e.oblige(st, "safety/nil", not(eq(recv.Fs[0].T, "0")), pos, "method call on nil interface", nil)
	it, _ := under(recv.Typ).(*types.Interface)
	var msel *types.Func
	if it != nil {
		for m := 0; m < it.NumMethods(); m++ {
			if it.Method(m).Name() == mname {
				msel = it.Method(m)
			}
		}
	}
	if msel == nil {
		cerr("delegate: interface has no method %s", mname)
	}
	mres := msel.Type().(*types.Signature).Results()
	if kk, ok := litVal(recv.Fs[0].T); ok {
		if ct, found := typeTagTypes[int(kk)]; found {
			if m := e.prog.LookupMethod(ct, msel.Pkg(), mname); m != nil {
				rv := e.unbox(st, recv.Fs[1].T, ct)
				rv.Typ = ct
				return e.callFunction(fr, st, m, []Val{rv, out}, nil, mres, pos)
			}
		}
	}
	key := "(" + types.TypeString(types.Unalias(recv.Typ), nil) + ")." + mname
	if mc, ok := e.contracts.Funcs[key]; ok {
		return e.callModular(fr, st, mc, key, msel.Type().(*types.Signature), true, []Val{recv, out}, mres, pos)
	}
	return e.callUnknown(fr, st, key, []Val{recv, out}, mres, pos)
}

// evalClause evaluates a boolean clause and adds the clause text to contract errors.
func (e *Engine) evalClause(c Clause, env *Env, what string) (t string) {
	defer func() {
		if r := recover(); r != nil {
			if u, ok := r.(unsupported); ok {
				panic(unsupported{u.msg + " [" + what + ": " + c.Src + "]"})
			}
			panic(r)
		}
	}()
	return e.evalBool(c.Expr, env)
}

func (e *Engine) freeGhostKey(k string) bool {
	if !strings.HasPrefix(k, "G$") {
		return false
	}
	for _, g := range e.contracts.Ghosts {
		if !g.Free {
			continue
		}
		for _, gk := range ghostKeys(g) {
			if gk.name == k {
				return true
			}
		}
	}
	return false
}
