package main

// Contract expression language: evaluation to SMT terms in a program state.

import (
	"fmt"
	"go/constant"
	"go/token"
	"go/types"
	"sort"
	"strings"

	"golang.org/x/tools/go/ssa"
)

const KSeq Kind = 100 // Fs = arr (Array Int Int), off, len : a mathematical byte/int sequence

type Env struct {
	e       *Engine
	fr      *Frame
	st      *State
	oldSt   *State
	preSt   *State
	bound   map[string]Val
	names   map[string]Val // parameters / results by name
	li      *loopInfo
	locals  bool // resolve identifiers to local cells
	pkg     *types.Package
	pure    bool // inside a spec function: no state access
	curFunc string
	top0    string // allocation frontier that \top0 denotes (callee contracts: the pre-call frontier)
	qdepth  int    // > 0 inside a quantifier body
}

func (e *Engine) baseEnv(fr *Frame, st *State) *Env {
	env := &Env{e: e, fr: fr, st: st, oldSt: fr.entry, bound: map[string]Val{}, names: map[string]Val{}}
	if fr.fn.Pkg != nil {
		env.pkg = fr.fn.Pkg.Pkg
	}
	pn := paramNames(fr.fn, fr.contract)
	for i, n := range pn {
		if i < len(fr.params) && n != "" && n != "_" {
			v := fr.params[i]
			if v.Typ == nil && i < len(fr.fn.Params) {
				v.Typ = fr.fn.Params[i].Type()
			}
			env.names[n] = v
		}
	}
	return env
}

func paramNames(fn *ssa.Function, fc *FuncContract) []string {
	var out []string
	sig := fn.Signature
	if sig.Recv() != nil {
		out = append(out, sig.Recv().Name())
	}
	for i := 0; i < sig.Params().Len(); i++ {
		out = append(out, sig.Params().At(i).Name())
	}
	if len(fn.Params) == len(out) {
		for i, p := range fn.Params {
			out[i] = p.Name()
		}
	}
	if fc != nil && fc.ParamNames != nil {
		for i, n := range fc.ParamNames {
			if i < len(out) {
				out[i] = n
			}
		}
	}
	return out
}

func resultNames(sig *types.Signature, fc *FuncContract) []string {
	var out []string
	for i := 0; i < sig.Results().Len(); i++ {
		n := sig.Results().At(i).Name()
		if n == "" || n == "_" {
			n = fmt.Sprintf("\\result%d", i)
		}
		out = append(out, n)
	}
	if fc != nil && fc.ResNames != nil {
		for i, n := range fc.ResNames {
			if i < len(out) {
				out[i] = n
			}
		}
	}
	return out
}

// envAt: environment for loop invariants (identifiers are local variables).
func (e *Engine) envAt(fr *Frame, st *State, li *loopInfo) *Env {
	env := e.baseEnv(fr, st)
	env.locals = true
	env.li = li
	if li != nil {
		env.preSt = li.pre
	}
	return env
}

func (env *Env) with(st *State) *Env {
	n := *env
	n.st = st
	return &n
}

func (env *Env) bind(name string, v Val) *Env {
	n := *env
	n.bound = make(map[string]Val, len(env.bound)+1)
	for k, x := range env.bound {
		n.bound[k] = x
	}
	n.bound[name] = v
	return &n
}

func (e *Engine) evalBool(x Expr, env *Env) string {
	v := env.eval(x)
	if v.K != KScalar || v.Sort != "Bool" {
		unsup("contract: expected a boolean expression, got kind %d sort %s in %s", v.K, v.Sort, env.curFunc)
	}
	return v.T
}

func (e *Engine) evalInt(x Expr, env *Env) string {
	v := env.eval(x)
	if v.K != KScalar || v.Sort != "Int" {
		unsup("contract: expected an integer expression")
	}
	return v.T
}

func cerr(format string, a ...any) { panic(unsupported{"contract: " + fmt.Sprintf(format, a...)}) }

func (env *Env) eval(x Expr) Val {
	e := env.e
	switch x := x.(type) {
	case EInt:
		return intv(x.V)
	case EStr:
		return Val{K: KScalar, T: e.strLit(x.S), Sort: "Str", Typ: types.Typ[types.String]}
	case EIdent:
		return env.ident(x.Name)
	case EUn:
		v := env.eval(x.X)
		switch x.Op {
		case "!":
			return boolv(not(v.T))
		case "-":
			return intv(sx("-", v.T))
		}
	case ECond:
		c := env.eval(x.C).T
		a, b := env.eval(x.A), env.eval(x.B)
		return env.iteVal(c, a, b)
	case EBin:
		return env.evalBin(x)
	case EField:
		return env.evalField(x)
	case EIndex:
		return env.evalIndex(x)
	case ESlice:
		return env.evalSlice(x)
	case ECall:
		return env.evalCall(x)
	case EQuant:
		return env.evalQuant(x)
	}
	cerr("cannot evaluate %T", x)
	return Val{}
}

func (env *Env) iteVal(c string, a, b Val) Val {
	if a.K == KScalar && b.K == KScalar {
		return Val{K: KScalar, T: ite(c, a.T, b.T), Sort: a.Sort, Typ: a.Typ}
	}
	if a.K != b.K || len(a.Fs) != len(b.Fs) {
		cerr("conditional with different shapes")
	}
	out := a
	out.Fs = make([]Val, len(a.Fs))
	for i := range a.Fs {
		out.Fs[i] = env.iteVal(c, a.Fs[i], b.Fs[i])
	}
	return out
}

func (env *Env) ident(name string) Val {
	e := env.e
	if v, ok := env.bound[name]; ok {
		return v
	}
	switch name {
	case "true":
		return boolv("true")
	case "false":
		return boolv("false")
	case "nil":
		return Val{K: KScalar, T: "0", Sort: "Int"}
	case "\\idx", "\\done":
		if env.li == nil {
			cerr("%s outside of a loop clause", name)
		}
		if ic, _ := rangeIntLoop(env.fr, env.li); ic != nil {
			// range over an integer: the counter is the number of completed iterations
			return intv(env.st.cells[ic].T)
		}
		c := env.rangeIndexCell()
		v := env.st.cells[c]
		if name == "\\done" {
			return intv(sx("+", v.T, "1"))
		}
		return intv(v.T)
	case "\\ltop":
		if env.li == nil || env.li.pre == nil {
			cerr("\\ltop outside of a loop clause")
		}
		return intv(env.li.pre.top)
	default:
		if strings.HasPrefix(name, "\\local_") {
			// a local variable of the function, by its source name (for names that are
			// keywords of the contract language, and in postconditions)
			if c := env.findCell(name[len("\\local_"):]); c != nil {
				v := env.st.cells[c]
				if v.Typ == nil {
					v.Typ = c.Typ
				}
				return v
			}
			// declared but not yet reached on this path: the zero value
			for _, b := range env.fr.fn.Blocks {
				for _, ins := range b.Instrs {
					if a, ok := ins.(*ssa.Alloc); ok && a.Comment == name[len("\\local_"):] {
						t := a.Type().(*types.Pointer).Elem()
						v := zero(t)
						v.Typ = t
						return v
					}
				}
			}
			cerr("no local variable %s in %s", name[len("\\local_"):], env.curFunc)
		}
	case "\\top0":
		if env.top0 != "" {
			return intv(env.top0)
		}
		return intv(env.fr.entry.top)
	}
	if env.pure {
		if c, ok := e.contracts.Consts[name]; ok {
			ex, err := ParseExpr(c)
			if err != nil {
				cerr("const %s: %v", name, err)
			}
			return env.eval(ex)
		}
		cerr("identifier %q not bound in spec function", name)
	}
	if env.locals {
		if c := env.findCell(name); c != nil {
			v := env.st.cells[c]
			if v.Typ == nil {
				v.Typ = c.Typ
			}
			return v
		}
	}
	if v, ok := env.names[name]; ok {
		return v
	}
	if !env.locals {
		if c := env.findCell(name); c != nil {
			v := env.st.cells[c]
			if v.Typ == nil {
				v.Typ = c.Typ
			}
			return v
		}
	}
	if c, ok := e.contracts.Consts[name]; ok {
		ex, err := ParseExpr(c)
		if err != nil {
			cerr("const %s: %v", name, err)
		}
		return env.eval(ex)
	}
	// package-level constants and variables
	if env.pkg != nil {
		if v, ok := env.pkgObject(env.pkg, name); ok {
			return v
		}
	}
	cerr("unknown identifier %q in %s", name, env.curFunc)
	return Val{}
}

func (env *Env) pkgObject(pkg *types.Package, name string) (Val, bool) {
	e := env.e
	obj := pkg.Scope().Lookup(name)
	switch obj := obj.(type) {
	case *types.Const:
		switch obj.Val().Kind() {
		case constant.Int:
			return intv(constIntTerm(obj.Val())), true
		case constant.Bool:
			if constant.BoolVal(obj.Val()) {
				return boolv("true"), true
			}
			return boolv("false"), true
		case constant.String:
			return Val{K: KScalar, T: e.strLit(constant.StringVal(obj.Val())), Sort: "Str", Typ: obj.Type()}, true
		}
	case *types.Var:
		sp := e.prog.Package(pkg)
		if sp == nil {
			return Val{}, false
		}
		g, ok := sp.Members[name].(*ssa.Global)
		if !ok {
			return Val{}, false
		}
		p := &Ptr{K: PGlobal, Global: g, Typ: obj.Type()}
		if _, isArr := under(obj.Type()).(*types.Array); isArr {
			// array globals evaluate to a sequence view of their memory
			at := under(obj.Type()).(*types.Array)
			m := e.heapTerm(env.st, memName(at.Elem(), ""), "(Array Int (Array Int Int))")
			return Val{K: KSeq, Fs: []Val{scalar(sx("select", m, e.globalRef(g)), "(Array Int Int)"), intv("0"), intv(num(at.Len()))}, Typ: obj.Type()}, true
		}
		v := e.loadPtr(env.st, p)
		if v.Typ == nil {
			v.Typ = obj.Type()
		}
		return v, true
	case *types.TypeName:
		return Val{K: KScalar, T: num(int64(typeTag(obj.Type()))), Sort: "Int"}, true
	}
	return Val{}, false
}

func (env *Env) rangeIndexCell() *Cell {
	// the rangeindex cell stored in the loop header
	for _, ins := range env.li.header.Instrs {
		if s, ok := ins.(*ssa.Store); ok {
			if a, ok := s.Addr.(*ssa.Alloc); ok && a.Comment == "rangeindex" {
				if c := env.fr.cells[a]; c != nil {
					return c
				}
			}
		}
	}
	cerr("loop %d is not a range loop over a slice", env.li.ordinal)
	return nil
}

// findCell resolves a local variable name to a live cell.
func (env *Env) findCell(name string) *Cell {
	for fr := env.fr; fr != nil; fr = fr.parent {
		if c := env.findCellIn(fr, name); c != nil {
			return c
		}
		if c, ok := fr.freeCells[name]; ok {
			if _, live := env.st.cells[c]; live {
				return c
			}
		}
	}
	return nil
}

func (env *Env) findCellIn(fr *Frame, name string) *Cell {
	var cands []*ssa.Alloc
	for a, c := range fr.cells {
		if a.Comment == name {
			if _, live := env.st.cells[c]; live {
				cands = append(cands, a)
			}
		}
	}
	if len(cands) == 0 {
		return nil
	}
	if len(cands) > 1 {
		// prefer allocations that dominate the loop header / come first in source order
		sort.Slice(cands, func(i, j int) bool {
			bi, bj := cands[i].Block().Index, cands[j].Block().Index
			if bi != bj {
				return bi < bj
			}
			return cands[i].Pos() < cands[j].Pos()
		})
		if env.li != nil && fr == env.fr {
			var dom []*ssa.Alloc
			for _, a := range cands {
				if a.Block().Dominates(env.li.header) && !env.li.blocks[a.Block()] {
					dom = append(dom, a)
				}
			}
			if len(dom) > 0 {
				return fr.cells[dom[len(dom)-1]]
			}
		}
	}
	return fr.cells[cands[0]]
}

func (env *Env) evalBin(x EBin) Val {
	e := env.e
	switch x.Op {
	case "==>":
		return boolv(implies(env.eval(x.L).T, env.eval(x.R).T))
	case "<==>":
		return boolv(eq(env.eval(x.L).T, env.eval(x.R).T))
	case "&&":
		return boolv(and(env.eval(x.L).T, env.eval(x.R).T))
	case "||":
		return boolv(or(env.eval(x.L).T, env.eval(x.R).T))
	case "in":
		k := env.eval(x.L)
		m := env.eval(x.R)
		if m.Typ == nil {
			cerr("'in' needs a map-typed right operand")
		}
		_, ok := e.mapLoadQuiet(env.st, m.Typ, m.T, k)
		return boolv(ok)
	}
	l, r := env.eval(x.L), env.eval(x.R)
	switch x.Op {
	case "==", "!=":
		t := env.equalVals(l, r)
		if x.Op == "!=" {
			t = not(t)
		}
		return boolv(t)
	case "<", "<=", ">", ">=":
		if l.Sort == "Str" {
			e.ctx.Global("gs.lt", "(declare-fun gs.lt (Str Str) Bool)")
			switch x.Op {
			case "<":
				return boolv(sx("gs.lt", l.T, r.T))
			case ">":
				return boolv(sx("gs.lt", r.T, l.T))
			case "<=":
				return boolv(not(sx("gs.lt", r.T, l.T)))
			default:
				return boolv(not(sx("gs.lt", l.T, r.T)))
			}
		}
		return boolv(sx(x.Op, l.T, r.T))
	case "+", "-", "*":
		return intv(sx(x.Op, l.T, r.T))
	case "/":
		return intv(sx("div", l.T, r.T))
	case "%":
		return intv(sx("mod", l.T, r.T))
	case "<<":
		k, ok := litVal(r.T)
		if !ok {
			e.declPow2()
			return intv(sx("*", l.T, sx("pow2", r.T)))
		}
		return intv(sx("*", l.T, pow2(int(k))))
	case ">>":
		k, ok := litVal(r.T)
		if !ok {
			e.declPow2()
			return intv(sx("div", l.T, sx("pow2", r.T)))
		}
		return intv(sx("div", l.T, pow2(int(k))))
	case "&", "|", "^", "&^":
		op := map[string]token.Token{"&": token.AND, "|": token.OR, "^": token.XOR, "&^": token.AND_NOT}[x.Op]
		return intv(e.bitop(op, l.T, r.T, types.Typ[types.Uint16]))
	}
	cerr("operator %s", x.Op)
	return Val{}
}

func (env *Env) equalVals(l, r Val) string {
	// nil comparisons
	if r.K == KScalar && r.T == "0" && r.Typ == nil {
		switch l.K {
		case KSlice:
			return eq(l.Fs[0].T, "0")
		case KIface:
			return eq(l.Fs[0].T, "0")
		}
	}
	if l.K == KScalar && l.T == "0" && l.Typ == nil {
		switch r.K {
		case KSlice:
			return eq(r.Fs[0].T, "0")
		case KIface:
			return eq(r.Fs[0].T, "0")
		}
	}
	if l.K == KScalar && r.K == KScalar {
		return eq(l.T, r.T)
	}
	if l.K == KIface && r.K == KIface {
		return and(eq(l.Fs[0].T, r.Fs[0].T), eq(l.Fs[1].T, r.Fs[1].T))
	}
	if l.K == KSlice && r.K == KSlice {
		// identity of slice headers
		return and(eq(l.Fs[0].T, r.Fs[0].T), eq(l.Fs[1].T, r.Fs[1].T), eq(l.Fs[2].T, r.Fs[2].T))
	}
	if l.K == KSeq && r.K == KSeq {
		// same underlying array and window (sufficient for "unchanged")
		return and(eq(l.Fs[0].T, r.Fs[0].T), eq(l.Fs[1].T, r.Fs[1].T), eq(l.Fs[2].T, r.Fs[2].T))
	}
	if l.K == KStruct && r.K == KStruct && len(l.Fs) == len(r.Fs) {
		var cs []string
		for i := range l.Fs {
			cs = append(cs, env.equalVals(l.Fs[i], r.Fs[i]))
		}
		return and(cs...)
	}
	cerr("cannot compare values of kinds %d and %d (%v / %v) l=%v r=%v", l.K, r.K, l.Typ, r.Typ, terms(l), terms(r))
	return ""
}

func (env *Env) evalField(x EField) Val {
	e := env.e
	// qualified identifier pkg.Name
	if id, ok := x.X.(EIdent); ok && env.pkg != nil && !env.pure {
		if _, isBound := env.bound[id.Name]; !isBound {
			if _, isName := env.names[id.Name]; !isName && env.findCell(id.Name) == nil {
				cands := append([]*types.Package{env.pkg}, env.pkg.Imports()...)
				for _, sp := range e.prog.AllPackages() {
					cands = append(cands, sp.Pkg)
				}
				for _, imp := range cands {
					if imp.Name() == id.Name {
						if v, ok := env.pkgObject(imp, x.Name); ok {
							return v
						}
					}
				}
			}
		}
	}
	v := env.eval(x.X)
	// ghost fields
	if g, ok := e.contracts.Ghosts[x.Name]; ok {
		if v.K == KScalar && v.Typ != nil {
			if pt, isPtr := under(v.Typ).(*types.Pointer); isPtr {
				if stt, isStruct := under(pt.Elem()).(*types.Struct); isStruct && promotedPath(stt, x.Name) != nil {
					cerr("%s is both a ghost field and a field of %s: rename the ghost", x.Name, pt.Elem())
				}
			}
		}
		ref := v.T
		switch v.K {
		case KIface:
			ref = v.Fs[1].T
		case KSlice:
			// ghost fields of a slice belong to its backing array
			ref = v.Fs[0].T
		}
		if ref == "" {
			cerr("ghost field %s of a value without a reference", x.Name)
		}
		return e.ghostLoad(env.st, g, ref)
	}
	switch v.K {
	case KStruct:
		st, ok := under(v.Typ).(*types.Struct)
		if !ok {
			cerr("field %s of untyped struct", x.Name)
		}
		for i := 0; i < st.NumFields(); i++ {
			if st.Field(i).Name() == x.Name {
				f := v.Fs[i]
				if f.Typ == nil {
					f.Typ = st.Field(i).Type()
				}
				return f
			}
		}
		cerr("no field %s in %s", x.Name, v.Typ)
	case KScalar:
		if v.Typ == nil {
			cerr("field %s of a value of unknown type", x.Name)
		}
		pt, ok := under(v.Typ).(*types.Pointer)
		if !ok {
			cerr("field %s of non-pointer %s", x.Name, v.Typ)
		}
		st, ok := under(pt.Elem()).(*types.Struct)
		if !ok {
			cerr("field %s of pointer to non-struct", x.Name)
		}
		if path := promotedPath(st, x.Name); path != nil {
			ft, fname := fieldPathType(pt.Elem(), path)
			if at, isArr := under(ft).(*types.Array); isArr {
				ref := e.embRef(pt.Elem(), fname, v.T)
				return Val{K: KSlice, Typ: types.NewSlice(at.Elem()), Fs: []Val{intv(ref), intv("0"), intv(num(at.Len())), intv(num(at.Len()))}}
			}
			f := e.loadHeapFieldQuiet(env.st, pt.Elem(), v.T, path)
			f.Typ = ft
			if env.qdepth == 0 && !strings.Contains(v.T, "_q") {
				e.assumeWF(f, ft, nil) // range facts of the field's type (ground term)
			}
			return f
		}
		cerr("no field %s in %s", x.Name, pt.Elem())
	}
	cerr("field access .%s on value of kind %d", x.Name, v.K)
	return Val{}
}

// loadHeapFieldQuiet reads a field without emitting definitions or assumptions
// (safe inside quantifier bodies).
func (e *Engine) loadHeapFieldQuiet(st *State, structT types.Type, ref string, path []int) Val {
	ft, fname := fieldPathType(structT, path)
	cs := flat(ft)
	ts := make([]string, len(cs))
	for i, c := range cs {
		hn := heapName(structT, fname, c.Suffix)
		if len(cs) == 1 {
			noteRefHeap(hn, ft)
		}
		arr := e.heapTerm(st, hn, "(Array Int "+c.Sort+")")
		ts[i] = sx("select", arr, ref)
	}
	return buildAll(ft, ts)
}

func (e *Engine) ghostLoad(st *State, g *GhostField, ref string) Val {
	switch g.Type {
	case "int":
		a := e.heapTerm(st, "G$"+g.Name, "(Array Int Int)")
		return intv(sx("select", a, ref))
	case "bool":
		a := e.heapTerm(st, "G$"+g.Name, "(Array Int Bool)")
		return boolv(sx("select", a, ref))
	case "seq":
		a := e.heapTerm(st, "G$"+g.Name+"$arr", "(Array Int (Array Int Int))")
		l := e.heapTerm(st, "G$"+g.Name+"$len", "(Array Int Int)")
		return Val{K: KSeq, Fs: []Val{scalar(sx("select", a, ref), "(Array Int Int)"), intv("0"), intv(sx("select", l, ref))}}
	}
	cerr("ghost field %s has unknown type %s", g.Name, g.Type)
	return Val{}
}

func (env *Env) evalIndex(x EIndex) Val {
	e := env.e
	v := env.eval(x.X)
	i := env.eval(x.I)
	switch v.K {
	case KSlice:
		el := sliceElem(v.Typ)
		cs := flat(el)
		ts := make([]string, len(cs))
		for k, c := range cs {
			m := e.heapTerm(env.st, memName(el, c.Suffix), "(Array Int (Array Int "+c.Sort+"))")
			ts[k] = sx("select", sx("select", m, v.Fs[0].T), plus(v.Fs[1].T, i.T))
		}
		r := buildAll(el, ts)
		r.Typ = el
		return r
	case KSeq:
		return intv(sx("select", v.Fs[0].T, plus(v.Fs[1].T, i.T)))
	case KArray:
		at := under(v.Typ).(*types.Array)
		cs := flat(at.Elem())
		ts := make([]string, len(cs))
		for k := range cs {
			ts[k] = sx("select", v.Fs[k].T, i.T)
		}
		return buildAll(at.Elem(), ts)
	case KScalar:
		if v.Sort == "Str" {
			return intv(sx("gs.at", v.T, i.T))
		}
		if v.Typ != nil {
			if _, ok := under(v.Typ).(*types.Map); ok {
				r, _ := e.mapLoadQuiet(env.st, v.Typ, v.T, i)
				return r
			}
		}
	}
	cerr("cannot index a value of kind %d", v.K)
	return Val{}
}

func (e *Engine) mapLoadQuiet(st *State, mt types.Type, ref string, k Val) (Val, string) {
	dom, domSort, vals, valSorts, _ := mapNames(mt)
	m := under(mt).(*types.Map)
	kt := terms(k)[0]
	d := e.heapTerm(st, dom, domSort)
	ok := and(not(eq(ref, "0")), sx("select", sx("select", d, ref), kt))
	ts := make([]string, len(vals))
	for i := range vals {
		a := e.heapTerm(st, vals[i], valSorts[i])
		ts[i] = sx("select", sx("select", a, ref), kt)
	}
	v := buildAll(m.Elem(), ts)
	v.Typ = m.Elem()
	return v, ok
}

func sliceElem(t types.Type) types.Type {
	if t == nil {
		return types.Typ[types.Uint8]
	}
	if s, ok := under(t).(*types.Slice); ok {
		return s.Elem()
	}
	cerr("not a slice type: %s", t)
	return nil
}

func (env *Env) evalSlice(x ESlice) Val {
	v := env.eval(x.X)
	lo := "0"
	if x.Lo != nil {
		lo = env.eval(x.Lo).T
	}
	switch v.K {
	case KSlice:
		hi := v.Fs[2].T
		if x.Hi != nil {
			hi = env.eval(x.Hi).T
		}
		return Val{K: KSlice, Typ: v.Typ, Fs: []Val{v.Fs[0], intv(plus(v.Fs[1].T, lo)), intv(sx("-", hi, lo)), intv(sx("-", v.Fs[3].T, lo))}}
	case KSeq:
		hi := v.Fs[2].T
		if x.Hi != nil {
			hi = env.eval(x.Hi).T
		}
		return Val{K: KSeq, Fs: []Val{v.Fs[0], intv(plus(v.Fs[1].T, lo)), intv(sx("-", hi, lo))}}
	}
	cerr("cannot slice a value of kind %d", v.K)
	return Val{}
}

// toSeq views a slice / string-free value as a sequence.
func (env *Env) toSeq(v Val) Val {
	e := env.e
	switch v.K {
	case KSeq:
		return v
	case KScalar:
		if v.Sort == "Str" {
			return Val{K: KSeq, Fs: []Val{scalar(sx("gs.arr", v.T), "(Array Int Int)"), intv("0"), intv(sx("gs.len", v.T))}}
		}
	case KSlice:
		el := sliceElem(v.Typ)
		cs := flat(el)
		if len(cs) != 1 || cs[0].Sort != "Int" {
			cerr("only integer slices can be used as sequences")
		}
		m := e.heapTerm(env.st, memName(el, ""), "(Array Int (Array Int Int))")
		return Val{K: KSeq, Fs: []Val{scalar(sx("select", m, v.Fs[0].T), "(Array Int Int)"), v.Fs[1], v.Fs[2]}}
	}
	cerr("cannot use a value of kind %d as a sequence", v.K)
	return Val{}
}

func (env *Env) evalCall(x ECall) Val {
	e := env.e
	switch x.Fn {
	case "len":
		v := env.eval(x.Args[0])
		switch v.K {
		case KSlice, KSeq:
			return intv(v.Fs[2].T)
		case KArray:
			return intv(num(under(v.Typ).(*types.Array).Len()))
		case KScalar:
			if v.Sort == "Str" {
				return intv(sx("gs.len", v.T))
			}
			if v.Typ != nil {
				if _, ok := under(v.Typ).(*types.Map); ok {
					l := e.heapTerm(env.st, mapLenName, "(Array Int Int)")
					return intv(sx("select", l, v.T))
				}
			}
		}
		cerr("len of value kind %d", v.K)
	case "cap":
		v := env.eval(x.Args[0])
		if v.K == KSlice {
			return intv(v.Fs[3].T)
		}
		cerr("cap of non-slice")
	case "old":
		if env.oldSt == nil {
			cerr("old() not available here")
		}
		n := env.with(env.oldSt)
		n.locals = false
		return n.eval(x.Args[0])
	case "pre":
		if env.preSt == nil {
			cerr("pre() outside of a loop clause")
		}
		return env.with(env.preSt).eval(x.Args[0])
	case "istype":
		v := env.eval(x.Args[0])
		t := env.eval(x.Args[1])
		if v.K != KIface {
			cerr("istype on non-interface")
		}
		return boolv(eq(v.Fs[0].T, t.T))
	case "impl":
		// impl(x, pkg.Iface): the dynamic type of x implements the interface
		v := env.eval(x.Args[0])
		t := env.eval(x.Args[1])
		if v.K != KIface {
			cerr("impl on non-interface")
		}
		k, ok := litVal(t.T)
		if !ok {
			cerr("impl: second argument must be a type name")
		}
		ty, found := typeTagTypes[int(k)]
		if !found {
			cerr("impl: unknown type")
		}
		return boolv(e.implements(v.Fs[0].T, ty))
	case "as":
		v := env.eval(x.Args[0])
		tn, ok := x.Args[1].(EIdent)
		if !ok || env.pkg == nil {
			cerr("as(x, T): T must be a type name")
		}
		obj, ok := env.pkg.Scope().Lookup(tn.Name).(*types.TypeName)
		if !ok {
			cerr("as: unknown type %s", tn.Name)
		}
		r := e.unboxQuiet(env.st, v.Fs[1].T, obj.Type())
		r.Typ = obj.Type()
		return r
	case "malformed":
		v := env.eval(x.Args[0])
		if v.K != KIface {
			cerr("malformed() on non-interface")
		}
		return boolv(e.malformedTerm(v))
	case "pointee":
		// pointee(p, T): p is the address of a variable of type *T (decided statically)
		v := env.eval(x.Args[0])
		tn, ok := x.Args[1].(EIdent)
		if !ok {
			cerr("pointee(p, T): T must be a type name")
		}
		if (v.K != KPtr && v.K != KIface) || v.P == nil || v.P.Typ == nil {
			return boolv("false")
		}
		pt, isPtr := under(v.P.Typ).(*types.Pointer)
		if !isPtr {
			return boolv("false")
		}
		if n, isNamed := types.Unalias(pt.Elem()).(*types.Named); isNamed && n.Obj().Name() == tn.Name {
			return boolv("true")
		}
		return boolv("false")
	case "intof":
		v := env.eval(x.Args[0])
		if v.K != KIface {
			cerr("intof on non-interface")
		}
		return intv(v.Fs[1].T)
	case "tagof":
		v := env.eval(x.Args[0])
		if v.K != KIface {
			cerr("tagof on non-interface")
		}
		return intv(v.Fs[0].T)
	case "refof":
		v := env.eval(x.Args[0])
		switch v.K {
		case KIface:
			return intv(v.Fs[1].T)
		case KSlice:
			return intv(v.Fs[0].T)
		case KScalar:
			return intv(v.T)
		}
		cerr("refof")
	case "offof":
		v := env.eval(x.Args[0])
		if v.K == KSlice {
			return intv(v.Fs[1].T)
		}
		cerr("offof")
	case "seq":
		return env.toSeq(env.eval(x.Args[0]))
	case "raw":
		// the whole backing array of a slice, indexed absolutely
		v0 := env.eval(x.Args[0])
		if v0.K == KSlice {
			if !isInteger(sliceElem(v0.Typ)) {
				return Val{K: KSlice, Typ: v0.Typ, Fs: []Val{v0.Fs[0], intv("0"), intv(sx("+", v0.Fs[1].T, v0.Fs[2].T)), intv(sx("+", v0.Fs[1].T, v0.Fs[3].T))}}
			}
		}
		v := env.toSeq(v0)
		return Val{K: KSeq, Fs: []Val{v.Fs[0], intv("0"), intv(sx("+", v.Fs[1].T, v.Fs[2].T))}}
	case "min":
		a, b := env.eval(x.Args[0]).T, env.eval(x.Args[1]).T
		return intv(ite(sx("<=", a, b), a, b))
	case "max":
		a, b := env.eval(x.Args[0]).T, env.eval(x.Args[1]).T
		return intv(ite(sx(">=", a, b), a, b))
	case "str":
		// str(b): the string with the bytes of sequence b (uninterpreted constructor)
		v := env.toSeq(env.eval(x.Args[0]))
		e.ctx.Global("gs.ofseq", "(declare-fun gs.ofseq ((Array Int Int) Int Int) Str)")
		return Val{K: KScalar, Sort: "Str", T: sx("gs.ofseq", v.Fs[0].T, v.Fs[1].T, v.Fs[2].T)}
	}
	sf, ok := e.contracts.Specs[x.Fn]
	if !ok {
		cerr("unknown function %s", x.Fn)
	}
	if len(x.Args) != len(sf.Params) {
		cerr("%s: expected %d arguments, got %d", x.Fn, len(sf.Params), len(x.Args))
	}
	args := make([]Val, len(x.Args))
	for i, a := range x.Args {
		args[i] = env.eval(a)
	}
	if sf.Pred {
		n := *env
		n.bound = map[string]Val{}
		for k, v := range env.bound {
			n.bound[k] = v
		}
		for i, p := range sf.Params {
			n.bound[p.Name] = args[i]
		}
		sub := &n
		sub.locals = false
		saved := sub.names
		sub.names = map[string]Val{}
		r := sub.eval(sf.Body)
		sub.names = saved
		return r
	}
	e.declareSpec(sf)
	var ts []string
	for i, p := range sf.Params {
		switch p.Type {
		case "seq":
			s := env.toSeq(args[i])
			ts = append(ts, s.Fs[0].T, s.Fs[1].T, s.Fs[2].T)
		default:
			if args[i].K != KScalar {
				cerr("%s: argument %d must be a scalar", x.Fn, i+1)
			}
			ts = append(ts, args[i].T)
		}
	}
	srt := specSort(sf.Result)
	if len(ts) == 0 {
		return Val{K: KScalar, T: "spec." + sf.Name, Sort: srt}
	}
	return Val{K: KScalar, T: sx("spec."+sf.Name, ts...), Sort: srt}
}

func (e *Engine) unboxQuiet(st *State, payload string, t types.Type) Val {
	cs := flat(t)
	if len(cs) == 1 && cs[0].Sort == "Int" {
		return buildAll(t, []string{payload})
	}
	return e.unbox(st, payload, t)
}

func specSort(t string) string {
	switch t {
	case "int":
		return "Int"
	case "bool":
		return "Bool"
	case "string":
		return "Str"
	}
	cerr("unknown spec type %s", t)
	return ""
}

// declareSpec emits the SMT definition of a spec function (and its callees).
func (e *Engine) declareSpec(sf *SpecFunc) {
	name := "spec." + sf.Name
	if e.ctx.decls[name] {
		return
	}
	e.ctx.decls[name] = true // cut recursion
	env := &Env{e: e, bound: map[string]Val{}, names: map[string]Val{}, pure: true, curFunc: "spec " + sf.Name}
	var ps []string
	for _, p := range sf.Params {
		switch p.Type {
		case "seq":
			ps = append(ps, fmt.Sprintf("(%s.arr (Array Int Int)) (%s.off Int) (%s.len Int)", p.Name, p.Name, p.Name))
			env.bound[p.Name] = Val{K: KSeq, Fs: []Val{scalar(p.Name+".arr", "(Array Int Int)"), intv(p.Name + ".off"), intv(p.Name + ".len")}}
		default:
			ps = append(ps, fmt.Sprintf("(%s %s)", p.Name, specSort(p.Type)))
			env.bound[p.Name] = Val{K: KScalar, T: p.Name, Sort: specSort(p.Type)}
		}
	}
	if sf.Body == nil {
		var sorts []string
		for _, p := range sf.Params {
			if p.Type == "seq" {
				sorts = append(sorts, "(Array Int Int)", "Int", "Int")
			} else {
				sorts = append(sorts, specSort(p.Type))
			}
		}
		e.ctx.pre = append(e.ctx.pre, fmt.Sprintf("(declare-fun %s (%s) %s)", name, strings.Join(sorts, " "), specSort(sf.Result)))
		return
	}
	body := env.eval(sf.Body)
	if body.K != KScalar {
		cerr("spec %s: body must be scalar", sf.Name)
	}
	if !sf.Rec {
		decl := fmt.Sprintf("(define-fun %s (%s) %s %s)", name, strings.Join(ps, " "), specSort(sf.Result), body.T)
		// definitions must follow those they use: append now (callees were appended during eval)
		e.ctx.pre = append(e.ctx.pre, decl)
		return
	}
	// Recursive spec functions are encoded with fuel (as in Dafny): the function
	// unfolds at most twice from every term that occurs in the query, which keeps
	// quantifier instantiation from looping through the definition.
	var sorts, args []string
	for _, p := range sf.Params {
		switch p.Type {
		case "seq":
			sorts = append(sorts, "(Array Int Int)", "Int", "Int")
			args = append(args, p.Name+".arr", p.Name+".off", p.Name+".len")
		default:
			sorts = append(sorts, specSort(p.Type))
			args = append(args, p.Name)
		}
	}
	call := func(n string) string { return "(" + n + " " + strings.Join(args, " ") + ")" }
	withFuel := func(b, n string) string {
		b = strings.ReplaceAll(b, "("+name+" ", "("+n+" ")
		return b
	}
	var b strings.Builder
	for _, n := range []string{name, name + "!1", name + "!0"} {
		fmt.Fprintf(&b, "(declare-fun %s (%s) %s)\n", n, strings.Join(sorts, " "), specSort(sf.Result))
	}
	vars := strings.Join(ps, " ")
	fmt.Fprintf(&b, "(assert (forall (%s) (! (= %s %s) :pattern (%s))))\n", vars, call(name), withFuel(body.T, name+"!1"), call(name))
	fmt.Fprintf(&b, "(assert (forall (%s) (! (= %s %s) :pattern (%s))))\n", vars, call(name+"!1"), withFuel(body.T, name+"!0"), call(name+"!1"))
	fmt.Fprintf(&b, "(assert (forall (%s) (! (= %s %s) :pattern (%s))))\n", vars, call(name), call(name+"!1"), call(name))
	fmt.Fprintf(&b, "(assert (forall (%s) (! (= %s %s) :pattern (%s))))", vars, call(name+"!1"), call(name+"!0"), call(name+"!1"))
	e.ctx.pre = append(e.ctx.pre, b.String())
}

var quantN int

func (env *Env) evalQuant(x EQuant) Val {
	n := env
	var vars []string
	var guards []string
	var names []string
	for _, v := range x.Vars {
		quantN++
		name := fmt.Sprintf("%s_q%d", v, quantN)
		names = append(names, name)
		n = n.bind(v, intv(name))
		n.qdepth++
		vars = append(vars, fmt.Sprintf("(%s Int)", name))
		if x.Lo != nil {
			lo, hi := env.eval(x.Lo).T, env.eval(x.Hi).T
			guards = append(guards, sx("<=", lo, name), sx("<", name, hi))
		}
	}
	body := n.eval(x.Body)
	if body.K != KScalar || body.Sort != "Bool" {
		cerr("quantifier body must be boolean")
	}
	// Instance hints: a bounded quantifier is logically equivalent to itself together with
	// its instances at the indices of the range loops that are live at this point
	// (forall: conjoined, exists: disjoined).  Solvers normalise the arithmetic inside
	// "(+ off i)" index terms, so E-matching often misses exactly these instances.
	var hints []string
	if len(x.Vars) == 1 && x.Lo != nil && env.qdepth == 0 && !env.pure && env.e.fc != nil && env.e.fc.IndexHints {
		hints = env.indexHints()
	}
	inst := func(t string, f string) string { return replaceToken(f, names[0], t) }
	if x.Forall {
		matrix := implies(and(guards...), body.T)
		rel := fmt.Sprintf("(forall (%s) %s)", strings.Join(vars, " "), matrix)
		parts := []string{rel}
		if len(x.Vars) == 1 && x.Lo != nil {
			if abs := absoluteForm(names[0], env.eval(x.Lo).T, env.eval(x.Hi).T, body.T); abs != "" {
				parts = append(parts, abs)
			}
		}
		for _, h := range hints {
			parts = append(parts, inst(h, matrix))
		}
		return boolv(and(parts...))
	}
	matrix := and(append(guards, body.T)...)
	ex := fmt.Sprintf("(exists (%s) %s)", strings.Join(vars, " "), matrix)
	if len(hints) == 0 {
		return boolv(ex)
	}
	parts := []string{ex}
	for _, h := range hints {
		parts = append(parts, inst(h, matrix))
	}
	return boolv(or(parts...))
}

// indexHints returns the terms of the hidden range-loop indices that are live in the
// current state (and their successors).
func (env *Env) indexHints() []string {
	if env.fr == nil || env.st == nil {
		return nil
	}
	var out []string
	var cells []*Cell
	for al, c := range env.fr.cells {
		if al.Comment == "rangeindex" {
			if _, live := env.st.cells[c]; live {
				cells = append(cells, c)
			}
		}
	}
	sort.Slice(cells, func(i, j int) bool { return cells[i].ID < cells[j].ID })
	for _, c := range cells {
		if len(out) >= 6 {
			break
		}
		v := env.st.cells[c]
		if v.K == KScalar && v.T != "" {
			out = append(out, v.T, sx("+", v.T, "1"))
		}
	}
	return out
}

// replaceToken replaces every occurrence of the identifier tok in the S-expression f.
func replaceToken(f, tok, by string) string {
	var b strings.Builder
	for i := 0; i < len(f); {
		if strings.HasPrefix(f[i:], tok) {
			j := i + len(tok)
			before := i == 0 || f[i-1] == ' ' || f[i-1] == '('
			after := j == len(f) || f[j] == ' ' || f[j] == ')'
			if before && after {
				b.WriteString(by)
				i = j
				continue
			}
		}
		b.WriteByte(f[i])
		i++
	}
	return b.String()
}

// malformedTerm: "errors.As(err, **MalformedFileError) succeeds".  True for the
// dynamic type *pdf.MalformedFileError; otherwise an uninterpreted property of
// the error value (wrapped errors), false for nil.
func (e *Engine) malformedTerm(v Val) string {
	if !e.ctx.decls["err.malformed"] {
		tag := 0
		for _, p := range e.prog.AllPackages() {
			if p.Pkg.Path() == modulePrefix {
				if tn, ok := p.Pkg.Scope().Lookup("MalformedFileError").(*types.TypeName); ok {
					tag = typeTag(types.NewPointer(tn.Type()))
				}
			}
		}
		if tag == 0 {
			// package pdf is not part of this program: no value can be a *pdf.MalformedFileError
			tag = -1
		}
		e.ctx.Global("err.malformed", fmt.Sprintf("(declare-fun err.wm (Int Int) Bool)\n(assert (forall ((v Int)) (! (not (err.wm 0 v)) :pattern ((err.wm 0 v)))))\n(define-fun err.malformed ((t Int) (v Int)) Bool (or (= t %s) (err.wm t v)))", num(int64(tag))))
	}
	return sx("err.malformed", v.Fs[0].T, v.Fs[1].T)
}

// absoluteForm restates "forall k in lo..hi :: P(x[k])" over the absolute index
// j = off + k when every slice access in the body has the shape (+ OFF k) for one
// offset term OFF.  Solvers normalise arithmetic inside index terms, so the
// relative form is often not matched by E-matching while (select A j) is.
func absoluteForm(k, lo, hi, body string) string {
	pat := " " + k + ")"
	off := ""
	rest := body
	for {
		i := strings.Index(rest, pat)
		if i < 0 {
			break
		}
		// find the start of the enclosing "(+ OFF k)"
		end := i + len(pat)
		start := -1
		d := 0
		for j := end - 1; j >= 0; j-- {
			switch rest[j] {
			case ')':
				d++
			case '(':
				d--
				if d == 0 {
					start = j
				}
			}
			if start >= 0 {
				break
			}
		}
		if start < 0 {
			return ""
		}
		expr := rest[start:end]
		if strings.HasPrefix(expr, "(+ ") {
			args := topLevelArgs(expr[3 : len(expr)-1])
			if len(args) == 2 && args[1] == k {
				if off == "" {
					off = args[0]
				} else if off != args[0] {
					return ""
				}
			}
		}
		rest = rest[end:]
	}
	if off == "" || off == "0" || strings.Contains(off, k) {
		return ""
	}
	quantN++
	j := fmt.Sprintf("j_q%d", quantN)
	nb := strings.ReplaceAll(body, "(+ "+off+" "+k+")", j)
	nb = replaceIdent(nb, k, "(- "+j+" "+off+")")
	return fmt.Sprintf("(forall ((%s Int)) (=> (and (<= (+ %s %s) %s) (< %s (+ %s %s))) %s))", j, off, lo, j, j, off, hi, nb)
}

// replaceIdent replaces whole-token occurrences of an identifier in an s-expression.
func replaceIdent(s, id, by string) string {
	var b strings.Builder
	for i := 0; i < len(s); {
		if strings.HasPrefix(s[i:], id) {
			before := i == 0 || s[i-1] == ' ' || s[i-1] == '('
			after := i+len(id) == len(s) || s[i+len(id)] == ' ' || s[i+len(id)] == ')'
			if before && after {
				b.WriteString(by)
				i += len(id)
				continue
			}
		}
		b.WriteByte(s[i])
		i++
	}
	return b.String()
}

// promotedPath finds the field path of name in st, looking through embedded
// (non-pointer) struct fields breadth first, as Go's selector rules do.
func promotedPath(st *types.Struct, name string) []int {
	type item struct {
		st   *types.Struct
		path []int
	}
	queue := []item{{st, nil}}
	for depth := 0; depth < 4 && len(queue) > 0; depth++ {
		var next []item
		for _, it := range queue {
			for i := 0; i < it.st.NumFields(); i++ {
				if it.st.Field(i).Name() == name {
					return append(append([]int{}, it.path...), i)
				}
			}
			for i := 0; i < it.st.NumFields(); i++ {
				f := it.st.Field(i)
				if !f.Embedded() {
					continue
				}
				if sub, ok := under(f.Type()).(*types.Struct); ok {
					next = append(next, item{sub, append(append([]int{}, it.path...), i)})
				}
			}
		}
		queue = next
	}
	return nil
}
