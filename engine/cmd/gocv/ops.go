package main

import (
	"fmt"
	"go/token"
	"go/types"
	"strconv"
	"strings"

	"golang.org/x/tools/go/ssa"
)

func isUnsigned(t types.Type) bool {
	b, ok := under(t).(*types.Basic)
	return ok && b.Info()&types.IsUnsigned != 0
}

func isInteger(t types.Type) bool {
	b, ok := under(t).(*types.Basic)
	return ok && b.Info()&types.IsInteger != 0
}

func isString(t types.Type) bool {
	b, ok := under(t).(*types.Basic)
	return ok && b.Info()&types.IsString != 0
}

func isFloat(t types.Type) bool {
	b, ok := under(t).(*types.Basic)
	return ok && b.Info()&(types.IsFloat|types.IsComplex) != 0
}

func litVal(t string) (int64, bool) {
	if strings.HasPrefix(t, "(- ") && strings.HasSuffix(t, ")") {
		n, err := strconv.ParseInt(t[3:len(t)-1], 10, 64)
		return -n, err == nil
	}
	n, err := strconv.ParseInt(t, 10, 64)
	return n, err == nil
}

func (e *Engine) execUnOp(fr *Frame, st *State, ins *ssa.UnOp) Val {
	x := e.val(fr, ins.X)
	switch ins.Op {
	case token.MUL:
		return e.load(fr, st, x, ins.X.Type(), e.posOf(fr, ins.Pos()))
	case token.NOT:
		return boolv(not(x.T))
	case token.SUB:
		if isFloat(ins.Type()) {
			return scalar(sx("flt.neg", x.T), "Flt")
		}
		return e.arithResult(st, sx("-", x.T), ins.Type(), e.posOf(fr, ins.Pos()))
	case token.XOR:
		bits, signed := intBits(ins.Type())
		if signed {
			return intv(sx("-", sx("-", x.T), "1"))
		}
		return intv(sx("-", sx("-", pow2(bits), "1"), x.T))
	case token.ARROW:
		unsup("channel receive")
	}
	unsup("unop %s", ins.Op)
	return Val{}
}

// arithResult applies the arithmetic policy of DESIGN 3.4 to a mathematical result.
func (e *Engine) arithResult(st *State, term string, t types.Type, pos string) Val {
	if isUnsigned(t) {
		return intv(e.ctx.Define("u", "Int", wrap(term, t)))
	}
	lo, hi, _ := intRange(t)
	n := e.ctx.Define("a", "Int", term)
	if e.cfg.Overflow {
		e.oblige(st, "overflow", and(sx("<=", lo, n), sx("<=", n, hi)), pos, "signed arithmetic does not overflow", nil)
	} else {
		e.note("machine arithmetic treated as mathematical (signed overflow not checked) in " + e.topName)
	}
	return intv(n)
}

func (e *Engine) execBinOp(fr *Frame, st *State, ins *ssa.BinOp) Val {
	x, y := e.val(fr, ins.X), e.val(fr, ins.Y)
	xt := ins.X.Type()
	pos := e.posOf(fr, ins.Pos())
	switch ins.Op {
	case token.EQL, token.NEQ:
		t := e.equal(x, y, xt, ins.Y.Type())
		if ins.Op == token.NEQ {
			t = not(t)
		}
		return boolv(e.ctx.Define("c", "Bool", t))
	case token.LSS, token.LEQ, token.GTR, token.GEQ:
		op := map[token.Token]string{token.LSS: "<", token.LEQ: "<=", token.GTR: ">", token.GEQ: ">="}[ins.Op]
		switch {
		case isInteger(xt):
			return boolv(sx(op, x.T, y.T))
		case isString(xt):
			e.ctx.Global("gs.lt", "(declare-fun gs.lt (Str Str) Bool)")
			switch ins.Op {
			case token.LSS:
				return boolv(sx("gs.lt", x.T, y.T))
			case token.GTR:
				return boolv(sx("gs.lt", y.T, x.T))
			case token.LEQ:
				return boolv(not(sx("gs.lt", y.T, x.T)))
			default:
				return boolv(not(sx("gs.lt", x.T, y.T)))
			}
		case isFloat(xt):
			switch ins.Op {
			case token.LSS:
				return boolv(sx("flt.lt", x.T, y.T))
			case token.GTR:
				return boolv(sx("flt.lt", y.T, x.T))
			case token.LEQ:
				return boolv(sx("flt.le", x.T, y.T))
			default:
				return boolv(sx("flt.le", y.T, x.T))
			}
		}
		unsup("comparison on %s", xt)
	}
	t := ins.Type()
	if isFloat(t) {
		op := map[token.Token]string{token.ADD: "flt.add", token.SUB: "flt.sub", token.MUL: "flt.mul", token.QUO: "flt.div"}[ins.Op]
		if op == "" {
			unsup("float op %s", ins.Op)
		}
		return scalar(sx(op, x.T, y.T), "Flt")
	}
	if isString(t) {
		if ins.Op == token.ADD {
			return scalar(e.strConcat(x.T, y.T), "Str")
		}
		unsup("string op %s", ins.Op)
	}
	if b, ok := under(t).(*types.Basic); ok && b.Info()&types.IsBoolean != 0 {
		switch ins.Op {
		case token.AND, token.LAND:
			return boolv(and(x.T, y.T))
		case token.OR, token.LOR:
			return boolv(or(x.T, y.T))
		}
		unsup("bool op %s", ins.Op)
	}
	if !isInteger(t) {
		unsup("binop %s on %s", ins.Op, t)
	}
	bits, signed := intBits(t)
	switch ins.Op {
	case token.ADD:
		return e.arithResult(st, sx("+", x.T, y.T), t, pos)
	case token.SUB:
		return e.arithResult(st, sx("-", x.T, y.T), t, pos)
	case token.MUL:
		return e.arithResult(st, sx("*", x.T, y.T), t, pos)
	case token.QUO:
		e.oblige(st, "safety/div", not(eq(y.T, "0")), pos, "division by zero", nil)
		if !signed {
			return intv(e.ctx.Define("q", "Int", sx("div", x.T, y.T)))
		}
		return e.arithResult(st, tdiv(x.T, y.T), t, pos)
	case token.REM:
		e.oblige(st, "safety/div", not(eq(y.T, "0")), pos, "division by zero", nil)
		if !signed {
			return intv(e.ctx.Define("r", "Int", sx("mod", x.T, y.T)))
		}
		return intv(e.ctx.Define("r", "Int", sx("-", x.T, sx("*", y.T, tdiv(x.T, y.T)))))
	case token.SHL:
		yt := ins.Y.Type()
		if !isUnsigned(yt) {
			if _, isConst := ins.Y.(*ssa.Const); !isConst {
				e.oblige(st, "safety/shift", sx("<=", "0", y.T), pos, "negative shift count", nil)
			}
		}
		var raw string
		if k, ok := litVal(y.T); ok {
			if k >= int64(bits) {
				return intv("0")
			}
			raw = sx("*", x.T, pow2(int(k)))
		} else {
			e.declPow2()
			raw = ite(sx(">=", y.T, num(int64(bits))), "0", sx("*", x.T, sx("pow2", y.T)))
		}
		// shifts wrap silently in Go for both signed and unsigned operands
		return intv(e.ctx.Define("shl", "Int", wrap(raw, t)))
	case token.SHR:
		yt := ins.Y.Type()
		if !isUnsigned(yt) {
			if _, isConst := ins.Y.(*ssa.Const); !isConst {
				e.oblige(st, "safety/shift", sx("<=", "0", y.T), pos, "negative shift count", nil)
			}
		}
		if k, ok := litVal(y.T); ok {
			if k >= int64(bits) {
				if signed {
					return intv(ite(sx("<", x.T, "0"), "(- 1)", "0"))
				}
				return intv("0")
			}
			return intv(e.ctx.Define("shr", "Int", sx("div", x.T, pow2(int(k)))))
		}
		e.declPow2()
		big := "0"
		if signed {
			big = ite(sx("<", x.T, "0"), "(- 1)", "0")
		}
		return intv(e.ctx.Define("shr", "Int", ite(sx(">=", y.T, num(int64(bits))), big, sx("div", x.T, sx("pow2", y.T)))))
	case token.AND, token.OR, token.XOR, token.AND_NOT:
		r := e.ctx.Define("bit", "Int", e.bitop(ins.Op, x.T, y.T, t))
		if ins.Op == token.OR || ins.Op == token.XOR {
			// (a << k) | b with 0 <= b < 2^k is a + b: sound for every a that is a multiple of 2^k
			for _, p := range [][2]ssa.Value{{ins.X, ins.Y}, {ins.Y, ins.X}} {
				if sh, ok := p[0].(*ssa.BinOp); ok && sh.Op == token.SHL {
					if c, ok := sh.Y.(*ssa.Const); ok && c.Value != nil {
						if k, ok := litVal(constIntTerm(c.Value)); ok && k > 0 && k < 64 {
							a, b := e.val(fr, p[0]).T, e.val(fr, p[1]).T
							e.ctx.Assume(implies(and(eq(sx("mod", a, pow2(int(k))), "0"), sx("<=", "0", b), sx("<", b, pow2(int(k))), sx("<=", "0", a)), eq(r, sx("+", a, b))))
						}
					}
				}
			}
		}
		return intv(r)
	}
	unsup("binop %s", ins.Op)
	return Val{}
}

func tdiv(x, y string) string {
	// Go's truncated division from SMT's floor/euclidean div
	return ite(sx(">=", x, "0"),
		ite(sx(">", y, "0"), sx("div", x, y), sx("-", sx("div", x, sx("-", y)))),
		ite(sx(">", y, "0"), sx("-", sx("div", sx("-", x), y)), sx("div", sx("-", x), sx("-", y))))
}

func (e *Engine) declPow2() {
	if e.ctx.decls["pow2"] {
		return
	}
	var b strings.Builder
	b.WriteString("(define-fun pow2 ((n Int)) Int ")
	for i := 0; i < 64; i++ {
		fmt.Fprintf(&b, "(ite (= n %d) %s ", i, pow2(i))
	}
	b.WriteString(pow2(64))
	b.WriteString(strings.Repeat(")", 64))
	b.WriteString(")")
	e.ctx.Global("pow2", b.String())
}

// bitop encodes a bitwise operation on mathematical integers of type t.
func (e *Engine) bitop(op token.Token, x, y string, t types.Type) string {
	bits, signed := intBits(t)
	kx, xc := litVal(x)
	ky, yc := litVal(y)
	if xc && !yc && op != token.AND_NOT {
		x, y, kx, ky, xc, yc = y, x, ky, kx, yc, xc
	}
	if yc && ky >= 0 {
		switch op {
		case token.AND:
			if ky == 0 {
				return "0"
			}
			if ky&(ky+1) == 0 { // mask 2^k-1
				k := 0
				for (int64(1) << uint(k)) <= ky {
					k++
				}
				return sx("mod", x, pow2(k))
			}
			return bitsum(x, uint64(ky), false)
		case token.OR:
			if ky == 0 {
				return x
			}
			// x | m = x + sum over set bits of m that are clear in x
			return sx("+", x, bitsum(x, uint64(ky), true))
		case token.XOR:
			if ky == 0 {
				return x
			}
			// x ^ m = x + (bits of m clear in x) - (bits of m set in x)
			return sx("-", sx("+", x, bitsum(x, uint64(ky), true)), bitsum(x, uint64(ky), false))
		case token.AND_NOT:
			return sx("-", x, bitsum(x, uint64(ky), false))
		}
	}
	_ = kx
	if yc && ky < 0 && signed {
		// negative constant mask on a signed type: ky == ^m with m >= 0
		m := uint64(^ky)
		switch op {
		case token.AND: // x & ^m == x &^ m
			return sx("-", x, bitsum(x, m, false))
		case token.OR: // x | ^m == ^(^x & m) == -1 - (bits of m clear in x)
			return sx("-", "(- 1)", bitsum(x, m, true))
		case token.XOR: // x ^ ^m == ^(x ^ m)
			return sx("-", "(- 1)", sx("-", sx("+", x, bitsum(x, m, true)), bitsum(x, m, false)))
		case token.AND_NOT: // x &^ ^m == x & m
			return bitsum(x, m, false)
		}
	}
	if bits <= 16 && !signed {
		// expand bit by bit
		var parts []string
		for i := 0; i < bits; i++ {
			bx := sx("=", sx("mod", sx("div", x, pow2(i)), "2"), "1")
			by := sx("=", sx("mod", sx("div", y, pow2(i)), "2"), "1")
			var c string
			switch op {
			case token.AND:
				c = and(bx, by)
			case token.OR:
				c = or(bx, by)
			case token.XOR:
				c = sx("xor", bx, by)
			case token.AND_NOT:
				c = and(bx, not(by))
			}
			parts = append(parts, ite(c, pow2(i), "0"))
		}
		return sx("+", parts...)
	}
	// wide, both symbolic: uninterpreted with sound bounds
	name := map[token.Token]string{token.AND: "bit.and", token.OR: "bit.or", token.XOR: "bit.xor", token.AND_NOT: "bit.andnot"}[op]
	e.ctx.Global(name, fmt.Sprintf("(declare-fun %s (Int Int) Int)", name))
	e.note("wide bitwise operation abstracted by an uninterpreted function with bounds in " + e.topName)
	r := e.ctx.Define("bitw", "Int", sx(name, x, y))
	lo, hi, _ := intRange(t)
	facts := []string{sx("<=", lo, r), sx("<=", r, hi)}
	nonneg := and(sx("<=", "0", x), sx("<=", "0", y))
	switch op {
	case token.AND:
		facts = append(facts, implies(nonneg, and(sx("<=", "0", r), sx("<=", r, x), sx("<=", r, y))))
	case token.OR:
		facts = append(facts, implies(nonneg, and(sx("<=", x, r), sx("<=", y, r), sx("<=", r, sx("+", x, y)))))
	case token.XOR:
		facts = append(facts, implies(nonneg, and(sx("<=", "0", r), sx("<=", r, sx("+", x, y)))))
	case token.AND_NOT:
		facts = append(facts, implies(nonneg, and(sx("<=", "0", r), sx("<=", r, x))))
	}
	// exact on 0/1-valued operands (flags combined with bit operations, as in constant-time code)
	flags := and(sx("<=", "0", x), sx("<=", x, "1"), sx("<=", "0", y), sx("<=", y, "1"))
	switch op {
	case token.AND:
		facts = append(facts, implies(flags, eq(r, ite(and(eq(x, "1"), eq(y, "1")), "1", "0"))))
	case token.OR:
		facts = append(facts, implies(flags, eq(r, ite(or(eq(x, "1"), eq(y, "1")), "1", "0"))))
	case token.XOR:
		facts = append(facts, implies(flags, eq(r, ite(eq(x, y), "0", "1"))))
	case token.AND_NOT:
		facts = append(facts, implies(flags, eq(r, ite(and(eq(x, "1"), eq(y, "0")), "1", "0"))))
	}
	e.ctx.Assume(and(facts...))
	return r
}

// bitsum = sum over set bits i of m of 2^i * [bit i of x is set]  (or clear, if inverted)
func bitsum(x string, m uint64, inverted bool) string {
	var parts []string
	for i := 0; i < 64; i++ {
		if m&(1<<uint(i)) == 0 {
			continue
		}
		bit := sx("mod", sx("div", x, pow2(i)), "2")
		if inverted {
			bit = sx("-", "1", bit)
		}
		if i == 0 {
			parts = append(parts, bit)
		} else {
			parts = append(parts, sx("*", pow2(i), bit))
		}
	}
	if len(parts) == 0 {
		return "0"
	}
	if len(parts) == 1 {
		return parts[0]
	}
	return sx("+", parts...)
}

func (e *Engine) equal(x, y Val, xt, yt types.Type) string {
	// comparison with nil constants of slices / interfaces etc.
	switch under(xt).(type) {
	case *types.Slice:
		// only comparable with nil
		if y.K == KSlice && y.Fs[0].T == "0" {
			return eq(x.Fs[0].T, "0")
		}
		if x.K == KSlice && x.Fs[0].T == "0" {
			return eq(y.Fs[0].T, "0")
		}
		unsup("slice comparison")
	case *types.Interface:
		if _, yi := under(yt).(*types.Interface); !yi {
			unsup("mixed interface comparison")
		}
		return and(eq(x.Fs[0].T, y.Fs[0].T), eq(x.Fs[1].T, y.Fs[1].T))
	case *types.Signature:
		if y.K == KScalar && y.T == "0" {
			if x.K == KClosure || x.K == KFunc {
				return "false"
			}
			return eq(x.T, "0")
		}
		unsup("func comparison")
	}
	if x.K == KPtr || y.K == KPtr {
		if x.K == KPtr && y.K == KScalar && y.T == "0" || y.K == KPtr && x.K == KScalar && x.T == "0" {
			return "false"
		}
		unsup("interior pointer comparison")
	}
	xs, ys := terms(x), terms(y)
	if len(xs) != len(ys) {
		unsup("comparison shape mismatch")
	}
	var cs []string
	for i := range xs {
		cs = append(cs, eq(xs[i], ys[i]))
	}
	return and(cs...)
}

func (e *Engine) strConcat(a, b string) string {
	n := e.ctx.Declare("cat", "Str")
	e.ctx.Assume(and(
		eq(sx("gs.len", n), sx("+", sx("gs.len", a), sx("gs.len", b))),
		fmt.Sprintf("(forall ((i Int)) (! (=> (and (<= 0 i) (< i (gs.len %s))) (= (gs.at %s i) (gs.at %s i))) :pattern ((gs.at %s i))))", a, n, a, n),
		fmt.Sprintf("(forall ((i Int)) (! (=> (and (<= 0 i) (< i (gs.len %s))) (= (gs.at %s (+ (gs.len %s) i)) (gs.at %s i))) :pattern ((gs.at %s i))))", b, n, a, b, b)))
	return n
}

func (e *Engine) execConvert(fr *Frame, st *State, ins *ssa.Convert) Val {
	x := e.val(fr, ins.X)
	from, to := ins.X.Type(), ins.Type()
	switch {
	case isInteger(from) && isInteger(to):
		flo, fhi, _ := intRange(from)
		tlo, thi, _ := intRange(to)
		if rangeWithin(flo, fhi, tlo, thi) {
			return intv(x.T)
		}
		if k, ok := litVal(x.T); ok {
			_ = k
		}
		return intv(e.ctx.Define("cv", "Int", wrap(x.T, to)))
	case isInteger(from) && isFloat(to):
		return scalar(sx("flt.ofint", x.T), "Flt")
	case isFloat(from) && isInteger(to):
		v := e.ctx.Define("cv", "Int", sx("flt.toint", x.T))
		lo, hi, _ := intRange(to)
		e.ctx.Assume(and(sx("<=", lo, v), sx("<=", v, hi)))
		e.note("float to integer conversion is uninterpreted")
		return intv(v)
	case isFloat(from) && isFloat(to):
		return x
	case isString(from) && isString(to):
		return x
	case isString(to) && isInteger(from):
		e.ctx.Global("gs.ofrune", "(declare-fun gs.ofrune (Int) Str)")
		return scalar(sx("gs.ofrune", x.T), "Str")
	case isString(to):
		if sl, ok := under(from).(*types.Slice); ok && isByte(sl.Elem()) {
			return scalar(e.bytesToStr(st, x), "Str")
		}
	case isString(from):
		if sl, ok := under(to).(*types.Slice); ok && isByte(sl.Elem()) {
			return e.strToBytes(st, x.T, to)
		}
	}
	if types.Identical(under(from), under(to)) {
		x.Typ = to
		return x
	}
	if _, ok := under(to).(*types.Pointer); ok {
		if _, ok2 := under(from).(*types.Pointer); ok2 {
			return x
		}
	}
	unsup("convert %s -> %s", from, to)
	return Val{}
}

func isByte(t types.Type) bool {
	b, ok := under(t).(*types.Basic)
	return ok && b.Kind() == types.Uint8
}

func rangeWithin(flo, fhi, tlo, thi string) bool {
	cmp := func(a, b string) int { // compare decimal terms possibly negative
		na, nb := strings.HasPrefix(a, "(- "), strings.HasPrefix(b, "(- ")
		da, db := strings.Trim(strings.TrimPrefix(a, "(- "), ")"), strings.Trim(strings.TrimPrefix(b, "(- "), ")")
		c := 0
		if len(da) != len(db) {
			if len(da) < len(db) {
				c = -1
			} else {
				c = 1
			}
		} else {
			c = strings.Compare(da, db)
		}
		switch {
		case na && nb:
			return -c
		case na:
			return -1
		case nb:
			return 1
		}
		return c
	}
	return cmp(tlo, flo) <= 0 && cmp(fhi, thi) <= 0
}

// bytesToStr: string(b) for a byte slice value.
func (e *Engine) bytesToStr(st *State, x Val) string {
	m := e.heapTerm(st, memName(types.Typ[types.Uint8], ""), "(Array Int (Array Int Int))")
	n := e.ctx.Declare("str", "Str")
	arr := e.ctx.Define("arr", "(Array Int Int)", sx("select", m, x.Fs[0].T))
	e.ctx.Assume(and(
		eq(sx("gs.len", n), x.Fs[2].T),
		fmt.Sprintf("(forall ((i Int)) (! (=> (and (<= 0 i) (< i %s)) (= (gs.at %s i) (select %s (+ %s i)))) :pattern ((gs.at %s i))))", x.Fs[2].T, n, arr, x.Fs[1].T, n)))
	return n
}

// strToBytes: []byte(s) allocates a fresh array holding the bytes of s.
func (e *Engine) strToBytes(st *State, s string, to types.Type) Val {
	r := e.freshRef(st, "bytes")
	name := memName(types.Typ[types.Uint8], "")
	sortM := "(Array Int (Array Int Int))"
	m := e.heapTerm(st, name, sortM)
	ln := sx("gs.len", s)
	e.heapSet(st, name, sortM, r, sx("store", m, r, sx("gs.arr", s)))
	return Val{K: KSlice, Typ: to, Fs: []Val{intv(r), intv("0"), intv(ln), intv(ln)}, Fresh: true}
}

// ---- interfaces ----

var typeTags = map[string]int{}
var typeTagTypes = map[int]types.Type{}

func typeTag(t types.Type) int {
	t = types.Unalias(t)
	key := types.TypeString(t, nil)
	id, ok := typeTags[key]
	if !ok {
		id = len(typeTags) + 1
		typeTags[key] = id
		typeTagTypes[id] = t
	}
	return id
}

func (e *Engine) makeInterface(st *State, x Val, xt types.Type) Val {
	tag := num(int64(typeTag(xt)))
	if x.K == KPtr {
		// an interior pointer (address of a local variable) stored in an interface:
		// the payload is an opaque fresh reference, the location is remembered Go-side
		return Val{K: KIface, Fs: []Val{intv(tag), intv(e.freshRef(st, "addr"))}, P: x.P}
	}
	return Val{K: KIface, Fs: []Val{intv(tag), intv(e.box(st, x, xt))}}
}

func (e *Engine) box(st *State, x Val, xt types.Type) string {
	cs := flat(xt)
	if len(cs) == 0 {
		return "0"
	}
	if len(cs) == 1 {
		switch cs[0].Sort {
		case "Int":
			return x.T
		case "Bool":
			return ite(x.T, "1", "0")
		case "Str":
			e.declBox("Str")
			return sx("box.Str", x.T)
		case "Flt":
			e.declBox("Flt")
			return sx("box.Flt", x.T)
		}
	}
	// multi-component values live in box memory under a fresh id
	id := e.freshRef(st, "box")
	ts := terms(x)
	for i, c := range cs {
		name := "B$" + typeKey(xt) + sanitize(c.Suffix)
		srt := "(Array Int " + c.Sort + ")"
		a := e.heapTerm(st, name, srt)
		e.heapSet(st, name, srt, id, sx("store", a, id, ts[i]))
	}
	return id
}

func (e *Engine) declBox(srt string) {
	e.ctx.Global("box."+srt, fmt.Sprintf("(declare-fun box.%s (%s) Int)\n(declare-fun unbox.%s (Int) %s)\n(assert (forall ((x %s)) (! (= (unbox.%s (box.%s x)) x) :pattern ((box.%s x)))))", srt, srt, srt, srt, srt, srt, srt, srt))
}

func (e *Engine) unbox(st *State, payload string, t types.Type) Val {
	cs := flat(t)
	if len(cs) == 0 {
		return Val{K: KStruct, Typ: t}
	}
	if len(cs) == 1 {
		switch cs[0].Sort {
		case "Int":
			return buildAll(t, []string{payload})
		case "Bool":
			return boolv(eq(payload, "1"))
		case "Str":
			e.declBox("Str")
			return scalar(sx("unbox.Str", payload), "Str")
		case "Flt":
			e.declBox("Flt")
			return scalar(sx("unbox.Flt", payload), "Flt")
		}
	}
	ts := make([]string, len(cs))
	for i, c := range cs {
		name := "B$" + typeKey(t) + sanitize(c.Suffix)
		a := e.heapTerm(st, name, "(Array Int "+c.Sort+")")
		ts[i] = sx("select", a, payload)
	}
	return buildAll(t, ts)
}

func (e *Engine) typeAssert(fr *Frame, st *State, ins *ssa.TypeAssert) Val {
	x := e.val(fr, ins.X)
	pos := e.posOf(fr, ins.Pos())
	tag, payload := x.Fs[0].T, x.Fs[1].T
	at := ins.AssertedType
	var ok string
	var v Val
	if _, isIface := under(at).(*types.Interface); isIface {
		// interface-to-interface: holds iff the dynamic type implements it
		ok = e.implements(tag, at)
		v = x
	} else {
		ok = eq(tag, num(int64(typeTag(at))))
		v = e.unbox(st, payload, at)
	}
	if ins.CommaOk {
		okn := e.ctx.Define("ok", "Bool", ok)
		// the value is the zero value when the assertion fails
		zs := terms(zero(at))
		vs := terms(v)
		cs := flat(at)
		out := make([]string, len(vs))
		for i := range vs {
			out[i] = e.ctx.Define("ta", cs[i].Sort, ite(okn, vs[i], zs[i]))
		}
		res := buildAll(at, out)
		e.ctx.Assume(implies(okn, e.wfTerm(res, at, st)))
		if _, isPtr := under(at).(*types.Pointer); isPtr && res.K == KScalar {
			// standing assumption: interface values do not hold typed nil pointers
			e.ctx.Assume(implies(okn, not(eq(res.T, "0"))))
			e.note("interface values are assumed not to hold typed nil pointers")
		}
		return Val{K: KTuple, Fs: []Val{res, boolv(okn)}}
	}
	e.oblige(st, "safety/assert", ok, pos, "type assertion succeeds", nil)
	cs := flat(at)
	vs := terms(v)
	for i := range vs {
		vs[i] = e.ctx.Define("ta", cs[i].Sort, vs[i])
	}
	res := buildAll(at, vs)
	e.assumeWF(res, at, st)
	return res
}

func (e *Engine) wfTerm(v Val, t types.Type, st *State) string {
	var fs []string
	e.wfFacts(v, t, st, &fs)
	return and(fs...)
}

// implements: tag-level predicate "dynamic type implements interface it"
func (e *Engine) implements(tag string, it types.Type) string {
	name := "impl$" + typeKey(it)
	if !e.ctx.decls[name] {
		e.ctx.Global(name, fmt.Sprintf("(declare-fun %s (Int) Bool)\n(assert (not (%s 0)))", name, name))
	}
	// ground facts for known tags are added lazily
	if k, ok := litVal(tag); ok {
		if ct, found := typeTagTypes[int(k)]; found {
			if iface, isI := under(it).(*types.Interface); isI {
				if types.Implements(ct, iface) {
					return "true"
				}
				return "false"
			}
		}
	}
	return sx(name, tag)
}

// ---- maps ----

func mapNames(mt types.Type) (dom, domSort string, vals []string, valSorts []string, ksort string) {
	m := under(mt).(*types.Map)
	kc := flat(m.Key())
	if len(kc) != 1 {
		unsup("map with composite key type %s", m.Key())
	}
	ksort = kc[0].Sort
	dom = "MapDom$" + typeKey(mt)
	domSort = "(Array Int (Array " + ksort + " Bool))"
	for _, c := range flat(m.Elem()) {
		vals = append(vals, "MapVal$"+typeKey(mt)+sanitize(c.Suffix))
		valSorts = append(valSorts, "(Array Int (Array "+ksort+" "+c.Sort+"))")
	}
	return
}

const mapLenName = "MapLen"

func (e *Engine) mapInit(st *State, mt types.Type, ref string) {
	dom, domSort, _, _, ksort := mapNames(mt)
	d := e.heapTerm(st, dom, domSort)
	e.heapSet(st, dom, domSort, ref, sx("store", d, ref, fmt.Sprintf("((as const (Array %s Bool)) false)", ksort)))
	l := e.heapTerm(st, mapLenName, "(Array Int Int)")
	e.heapSet(st, mapLenName, "(Array Int Int)", ref, sx("store", l, ref, "0"))
}

func (e *Engine) mapLen(st *State, ref string) string {
	l := e.heapTerm(st, mapLenName, "(Array Int Int)")
	t := e.ctx.Define("maplen", "Int", sx("select", l, ref))
	e.ctx.Assume(and(sx("<=", "0", t), sx("<=", t, maxLen), implies(eq(ref, "0"), eq(t, "0"))))
	return t
}

func (e *Engine) mapUpdate(fr *Frame, st *State, ins *ssa.MapUpdate) {
	m := e.val(fr, ins.Map)
	k := e.val(fr, ins.Key)
	v := e.val(fr, ins.Value)
	pos := e.posOf(fr, ins.Pos())
	e.oblige(st, "safety/mapnil", not(eq(m.T, "0")), pos, "assignment to entry in nil map", nil)
	e.mapStore(st, ins.Map.Type(), m.T, k, v)
}

func (e *Engine) mapStore(st *State, mt types.Type, ref string, k, v Val) {
	dom, domSort, vals, valSorts, _ := mapNames(mt)
	kt := e.keyTerm(st, k, under(mt).(*types.Map).Key())
	d := e.heapTerm(st, dom, domSort)
	had := sx("select", sx("select", d, ref), kt)
	l := e.heapTerm(st, mapLenName, "(Array Int Int)")
	e.heapSet(st, mapLenName, "(Array Int Int)", ref, sx("store", l, ref, sx("+", sx("select", l, ref), ite(had, "0", "1"))))
	e.heapSet(st, dom, domSort, ref, sx("store", d, ref, sx("store", sx("select", d, ref), kt, "true")))
	ts := terms(v)
	for i := range vals {
		a := e.heapTerm(st, vals[i], valSorts[i])
		e.heapSet(st, vals[i], valSorts[i], ref, sx("store", a, ref, sx("store", sx("select", a, ref), kt, ts[i])))
	}
}

func (e *Engine) mapDelete(st *State, mt types.Type, ref string, k Val) {
	dom, domSort, _, _, _ := mapNames(mt)
	kt := e.keyTerm(st, k, under(mt).(*types.Map).Key())
	d := e.heapTerm(st, dom, domSort)
	had := sx("select", sx("select", d, ref), kt)
	l := e.heapTerm(st, mapLenName, "(Array Int Int)")
	// deleting from a nil map is a no-op
	e.heapSet(st, mapLenName, "(Array Int Int)", ref, sx("store", l, ref, sx("-", sx("select", l, ref), ite(and(had, not(eq(ref, "0"))), "1", "0"))))
	e.heapSet(st, dom, domSort, ref, sx("store", d, ref, sx("store", sx("select", d, ref), kt, "false")))
}

func (e *Engine) keyTerm(st *State, k Val, kt types.Type) string {
	ts := terms(k)
	if len(ts) != 1 {
		unsup("composite map key")
	}
	return ts[0]
}

func (e *Engine) lookup(fr *Frame, st *State, ins *ssa.Lookup) Val {
	x := e.val(fr, ins.X)
	k := e.val(fr, ins.Index)
	if isString(ins.X.Type()) {
		pos := e.posOf(fr, ins.Pos())
		e.oblige(st, "safety/idx", and(sx("<=", "0", k.T), sx("<", k.T, sx("gs.len", x.T))), pos, "string index in range", nil)
		return intv(sx("gs.at", x.T, k.T))
	}
	mt := ins.X.Type()
	v, ok := e.mapLoad(st, mt, x.T, k)
	if ins.CommaOk {
		return Val{K: KTuple, Fs: []Val{v, boolv(ok)}}
	}
	return v
}

func (e *Engine) mapLoad(st *State, mt types.Type, ref string, k Val) (Val, string) {
	dom, domSort, vals, valSorts, _ := mapNames(mt)
	m := under(mt).(*types.Map)
	kt := e.keyTerm(st, k, m.Key())
	d := e.heapTerm(st, dom, domSort)
	ok := e.ctx.Define("in", "Bool", and(not(eq(ref, "0")), sx("select", sx("select", d, ref), kt)))
	zs := terms(zero(m.Elem()))
	cs := flat(m.Elem())
	ts := make([]string, len(vals))
	for i := range vals {
		a := e.heapTerm(st, vals[i], valSorts[i])
		ts[i] = e.ctx.Define("mv", cs[i].Sort, ite(ok, sx("select", sx("select", a, ref), kt), zs[i]))
	}
	v := buildAll(m.Elem(), ts)
	e.ctx.Assume(implies(ok, e.wfTerm(v, m.Elem(), st)))
	return v, ok
}

// execNext: iteration over maps and strings yields arbitrary elements.
func (e *Engine) execNext(fr *Frame, st *State, ins *ssa.Next) Val {
	rng := ins.Iter.(*ssa.Range)
	tup := ins.Type().(*types.Tuple)
	ok := e.ctx.Declare("next.ok", "Bool")
	if ins.IsString {
		x := e.val(fr, rng.X)
		i := e.ctx.Declare("next.i", "Int")
		r := e.ctx.Declare("next.r", "Int")
		e.ctx.Assume(implies(ok, and(sx("<=", "0", i), sx("<", i, sx("gs.len", x.T)), sx("<=", "0", r), sx("<=", r, "1114111"))))
		e.note("range over string: iteration order and UTF-8 decoding abstracted")
		return Val{K: KTuple, Fs: []Val{boolv(ok), intv(i), intv(r)}}
	}
	mt := rng.X.Type()
	m := e.val(fr, rng.X)
	mm := under(mt).(*types.Map)
	k := e.freshVal("next.k", mm.Key(), st)
	v, in := e.mapLoad(st, mt, m.T, k)
	e.ctx.Assume(implies(ok, in))
	e.note("range over map: each iteration yields an arbitrary present key (visit-once not modelled)")
	_ = tup
	return Val{K: KTuple, Fs: []Val{boolv(ok), k, v}}
}
