package main

import (
	"flag"
	"fmt"
	"os"
	"sort"
	"strings"
	"time"
)

func main() {
	if len(os.Args) < 2 {
		fmt.Fprintln(os.Stderr, "usage: gocv <verify|check|replay|sweep|ssa> ...")
		os.Exit(2)
	}
	switch os.Args[1] {
	case "verify":
		cmdVerify(os.Args[2:])
	case "check":
		cmdCheck(os.Args[2:])
	case "sweep":
		cmdSweep(os.Args[2:])
	case "ssa":
		cmdSSA(os.Args[2:])
	case "replay":
		cmdReplay(os.Args[2:])
	default:
		fmt.Fprintln(os.Stderr, "unknown command", os.Args[1])
		os.Exit(2)
	}
}

func cmdSSA(args []string) {
	fs := flag.NewFlagSet("ssa", flag.ExitOnError)
	dir := fs.String("dir", "/repo", "module directory")
	pkg := fs.String("pkg", ".", "package pattern")
	fs.Parse(args)
	P, err := LoadProgram(*dir, []string{*pkg})
	if err != nil {
		fmt.Fprintln(os.Stderr, err)
		os.Exit(2)
	}
	for _, name := range fs.Args() {
		found := false
		for k, fn := range P.funcs {
			if k == name || strings.HasSuffix(k, name) {
				fn.WriteTo(os.Stdout)
				found = true
			}
		}
		if !found {
			fmt.Println("not found:", name)
		}
	}
}

// cmdVerify: development command; verifies the contracted functions of a package
// and prints every obligation.
func cmdVerify(args []string) {
	fs := flag.NewFlagSet("verify", flag.ExitOnError)
	dir := fs.String("dir", "/repo", "module directory")
	pkg := fs.String("pkg", ".", "package pattern(s), comma separated")
	cdirs := fs.String("contracts", "", "contract roots, comma separated")
	only := fs.String("func", "", "only functions whose name contains this")
	timeout := fs.Int("timeout", 10, "solver timeout (s)")
	workers := fs.Int("j", 8, "parallel obligations")
	overflow := fs.Bool("overflow", false, "generate overflow obligations")
	keep := fs.Bool("keep", false, "keep SMT files")
	out := fs.String("out", "/tmp/gocv-smt", "SMT output directory")
	verbose := fs.Bool("v", false, "print every obligation")
	obFilter := fs.String("ob", "", "only solve obligations whose name contains this")
	fs.Parse(args)
	keepSMT = *keep
	if sd := os.Getenv("VERIF_SEED"); sd != "" {
		fmt.Sscanf(sd, "%d", &globalSeed)
	}
	t0 := time.Now()
	P, err := LoadProgram(*dir, strings.Split(*pkg, ","))
	if err != nil {
		fmt.Fprintln(os.Stderr, err)
		os.Exit(2)
	}
	C, err := LoadContracts(strings.Split(*cdirs, ",")...)
	if err != nil {
		fmt.Fprintln(os.Stderr, err)
		os.Exit(2)
	}
	fmt.Printf("loaded in %.1fs: %d functions, %d contracts\n", time.Since(t0).Seconds(), len(P.funcs), len(C.Funcs))
	os.MkdirAll(*out, 0o755)
	cfg := &Config{Overflow: *overflow, InlineMax: 3}
	var keys []string
	for k := range C.Funcs {
		keys = append(keys, k)
	}
	sort.Strings(keys)
	bad := 0
	for _, k := range keys {
		fc := C.Funcs[k]
		if fc.Trusted {
			continue
		}
		if *only != "" && !strings.Contains(k, *only) {
			continue
		}
		fn := P.FindFunc(k)
		if fn == nil {
			fmt.Printf("UNBOUND %s\n", k)
			bad++
			continue
		}
		t1 := time.Now()
		res := VerifyFunction(P, C, fn, fc, cfg)
		gen := time.Since(t1).Seconds()
		if *obFilter != "" {
			var keepObs []*Obligation
			for _, o := range res.Obs {
				if strings.Contains(o.Name, *obFilter) {
					keepObs = append(keepObs, o)
				}
			}
			res.Obs = keepObs
		}
		SolveAll(res.Obs, *out, *timeout, *workers)
		nok := 0
		for _, o := range res.Obs {
			if o.OK() {
				nok++
			}
		}
		status := "ok"
		if res.Err != "" {
			status = "OUTSIDE: " + res.Err
			bad++
		} else if nok != len(res.Obs) {
			status = "FAILED"
			bad++
		}
		fmt.Printf("%-60s %3d/%3d  gen %.2fs total %.2fs  %s\n", shortName(res.Name), nok, len(res.Obs), gen, time.Since(t1).Seconds(), status)
		for _, o := range res.Obs {
			if *verbose || !o.OK() {
				fmt.Printf("    %-8s %-7s %5.2fs %-40s %s  [%s]\n", o.Result, o.Solver, o.TimeS, strings.TrimPrefix(o.Name, o.Func+"/"), o.Pos, o.Desc)
			}
		}
		if *verbose {
			var ns []string
			for n, c := range res.Notes {
				ns = append(ns, fmt.Sprintf("%s (x%d)", n, c))
			}
			sort.Strings(ns)
			for _, n := range ns {
				fmt.Println("    note:", n)
			}
		}
	}
	var extra []*Obligation
	for _, lm := range C.Lemmas {
		if *only != "" && !strings.Contains(lm.Name, *only) {
			continue
		}
		obs, lerr := VerifyLemma(C, lm)
		if lerr != "" {
			fmt.Println("lemma error:", lm.Name, lerr)
			bad++
		}
		extra = append(extra, obs...)
	}
	for _, gi := range C.Globals {
		if *only != "" && !strings.Contains(gi.Name, *only) {
			continue
		}
		obs, gerr := VerifyGlobalInit(P, C, gi)
		if gerr != "" {
			fmt.Println("global error:", gi.Name, gerr)
			bad++
		}
		extra = append(extra, obs...)
	}
	SolveAll(extra, *out, *timeout, *workers)
	for _, o := range extra {
		if *verbose || !o.OK() {
			fmt.Printf("    %-8s %-7s %5.2fs %-40s %s  [%s]\n", o.Result, o.Solver, o.TimeS, o.Name, o.Pos, o.Desc)
		}
		if !o.OK() {
			bad++
		}
	}
	fmt.Printf("lemmas/globals: %d obligations\n", len(extra))
	fmt.Printf("total %.1fs\n", time.Since(t0).Seconds())
	if bad > 0 {
		os.Exit(1)
	}
}


// cmdSweep: zero-annotation safety sweep over all functions defined in the given files.
func cmdSweep(args []string) {
	fs := flag.NewFlagSet("sweep", flag.ExitOnError)
	dir := fs.String("dir", "/repo", "module directory")
	pkg := fs.String("pkg", ".", "package pattern")
	files := fs.String("files", "", "comma separated file names (base names); empty = all")
	cdirs := fs.String("contracts", "/verif/contracts,/verif/trusted", "contract roots")
	timeout := fs.Int("timeout", 5, "solver timeout (s)")
	workers := fs.Int("j", 8, "parallel obligations")
	out := fs.String("out", "/tmp/gocv-sweep", "SMT output directory")
	verbose := fs.Bool("v", false, "print failing obligations")
	fs.Parse(args)
	P, err := LoadProgram(*dir, strings.Split(*pkg, ","))
	if err != nil {
		fmt.Fprintln(os.Stderr, err)
		os.Exit(2)
	}
	C, err := LoadContracts(strings.Split(*cdirs, ",")...)
	if err != nil {
		fmt.Fprintln(os.Stderr, err)
		os.Exit(2)
	}
	os.MkdirAll(*out, 0o755)
	want := map[string]bool{}
	for _, f := range strings.Split(*files, ",") {
		if f != "" {
			want[f] = true
		}
	}
	var fns []string
	for name, fn := range P.funcs {
		if fn.Pkg == nil || len(fn.Blocks) == 0 || fn.Synthetic != "" {
			continue
		}
		inPkg := false
		for _, sp := range P.pkgs {
			if fn.Pkg == sp {
				inPkg = true
			}
		}
		if !inPkg {
			continue
		}
		pos := P.prog.Fset.Position(fn.Pos())
		if len(want) > 0 && !want[filepathBase(pos.Filename)] {
			continue
		}
		fns = append(fns, name)
	}
	sort.Strings(fns)
	cfg := &Config{InlineMax: 1}
	totalOK, total, outside := 0, 0, 0
	for _, name := range fns {
		fn := P.funcs[name]
		fc := (&Engine{contracts: C}).lookupContract(fn)
		t1 := time.Now()
		res := VerifyFunction(P, C, fn, fc, cfg)
		var obs []*Obligation
		for _, o := range res.Obs {
			if strings.HasPrefix(o.Kind, "safety/") {
				obs = append(obs, o)
			}
		}
		SolveAll(obs, *out, *timeout, *workers)
		nok := 0
		for _, o := range obs {
			if o.OK() {
				nok++
			}
		}
		status := ""
		if res.Err != "" {
			status = "OUTSIDE: " + res.Err
			outside++
		}
		totalOK += nok
		total += len(obs)
		fmt.Printf("%-64s %3d/%3d %5.1fs %s\n", shortName(name), nok, len(obs), time.Since(t1).Seconds(), status)
		if *verbose {
			for _, o := range obs {
				if !o.OK() {
					fmt.Printf("      %-8s %-28s %s [%s]\n", o.Result, strings.TrimPrefix(o.Name, o.Func+"/"), o.Pos, o.Desc)
				}
			}
		}
	}
	fmt.Printf("sweep: %d functions (%d outside subset), %d/%d safety obligations discharged\n", len(fns), outside, totalOK, total)
}

func filepathBase(p string) string {
	if i := strings.LastIndex(p, "/"); i >= 0 {
		return p[i+1:]
	}
	return p
}
