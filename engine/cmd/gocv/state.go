package main

import (
	"fmt"
	"go/types"
	"regexp"
	"sort"
	"strconv"
	"strings"

	"golang.org/x/tools/go/ssa"
)

// State is the symbolic program state at one program point.
type State struct {
	pc      string
	cells   map[*Cell]Val
	heap    map[string]string // heap array name -> current term (absent: name@0)
	globals map[*ssa.Global]Val
	top     string // allocation frontier
	epoch   string // names the initial value of untouched heap arrays
	defers  []*deferred
}

func (s *State) clone() *State {
	n := &State{pc: s.pc, top: s.top, epoch: s.epoch, defers: s.defers,
		cells:   make(map[*Cell]Val, len(s.cells)),
		heap:    make(map[string]string, len(s.heap)),
		globals: make(map[*ssa.Global]Val, len(s.globals))}
	for k, v := range s.cells {
		n.cells[k] = v
	}
	for k, v := range s.heap {
		n.heap[k] = v
	}
	for k, v := range s.globals {
		n.globals[k] = v
	}
	return n
}

// WriteSet records what a region of code may assign.
type heapWrite struct {
	whole bool
	refs  map[string]bool
}

type WriteSet struct {
	cells   map[*Cell]bool
	heap    map[string]*heapWrite
	globals map[*ssa.Global]bool
	alloc   bool
	all     bool
	// slice variables assigned something other than append(self, ...), a fresh
	// allocation, nil or a re-slicing of themselves
	nonAppend map[*Cell]bool
}

func newWriteSet() *WriteSet {
	return &WriteSet{cells: map[*Cell]bool{}, heap: map[string]*heapWrite{}, globals: map[*ssa.Global]bool{}, nonAppend: map[*Cell]bool{}}
}

func (w *WriteSet) addHeap(name, ref string) {
	hw := w.heap[name]
	if hw == nil {
		hw = &heapWrite{refs: map[string]bool{}}
		w.heap[name] = hw
	}
	if ref == "" {
		hw.whole = true
	} else {
		hw.refs[ref] = true
	}
}

var idRe = regexp.MustCompile(`!(\d+)`)

// maxID is the largest fresh-name counter mentioned in a term.
func maxID(t string) int {
	m := 0
	for _, g := range idRe.FindAllStringSubmatch(t, -1) {
		n, _ := strconv.Atoi(g[1])
		if n > m {
			m = n
		}
	}
	return m
}

// Engine verifies one top-level function at a time.
type Engine struct {
	ctx       *Ctx
	prog      *ssa.Program
	contracts *Contracts
	obs       []*Obligation
	recorders []*WriteSet
	dry       int
	heapSorts map[string]string
	topFn     *ssa.Function
	topName   string
	ordinals  map[string]int
	notes     map[string]int // assumptions / havocs / trusted uses, with counts
	cellID    int
	tags      []string
	inlDepth  int
	steps     int
	entryTop  string
	cfg       *Config
	fc        *FuncContract // contract of the top-level function
	covers    []*Obligation
}

type Config struct {
	Overflow   bool // generate overflow obligations
	InlineMax  int
	SafetyOnly bool
}

func (e *Engine) note(s string) { e.notes[s]++ }

func (e *Engine) record(f func(w *WriteSet)) {
	for _, w := range e.recorders {
		f(w)
	}
}

// ---- heap access ----

func (e *Engine) heapTerm(st *State, name, sort string) string {
	if t, ok := st.heap[name]; ok {
		return t
	}
	e.heapSorts[name] = sort
	init := name + "@" + st.epoch
	if !e.ctx.decls["wf:"+init] {
		e.ctx.Global(init, fmt.Sprintf("(declare-fun %s () %s)", init, sort))
		if e.dry == 0 {
			e.ctx.decls["wf:"+init] = true
		}
		// heap well-formedness: every reference stored in the heap denotes an allocated object
		if isGhostLen(name) {
			e.ctx.Assume(fmt.Sprintf("(forall ((r Int)) (! (<= 0 (select %s r)) :pattern ((select %s r))))", init, init))
		}
		if strings.HasSuffix(name, ".ref") || strings.HasSuffix(name, ".val") || refHeaps[name] {
			switch sort {
			case "(Array Int Int)":
				e.ctx.Assume(fmt.Sprintf("(forall ((r Int)) (! (<= (select %s r) %s) :pattern ((select %s r))))", init, st.top, init))
			case "(Array Int (Array Int Int))":
				e.ctx.Assume(fmt.Sprintf("(forall ((r Int) (i Int)) (! (<= (select (select %s r) i) %s) :pattern ((select (select %s r) i))))", init, st.top, init))
			}
		}
	}
	return init
}

// heapSet replaces a heap array; ref names the only index that changed ("" = unknown).
func (e *Engine) heapSet(st *State, name, sort, ref, term string) {
	e.heapSorts[name] = sort
	st.heap[name] = e.ctx.Define(name, sort, term)
	e.record(func(w *WriteSet) { w.addHeap(name, ref) })
}

// fieldComps lists heap arrays for the field path of a struct type.
func fieldPathType(t types.Type, path []int) (types.Type, string) {
	name := ""
	for _, i := range path {
		st, ok := under(t).(*types.Struct)
		if !ok {
			unsup("field path through non-struct %s", t)
		}
		name += "." + st.Field(i).Name()
		t = st.Field(i).Type()
	}
	return t, name
}

func heapName(structT types.Type, fieldPath string, suffix string) string {
	return "H$" + typeKey(structT) + sanitize(fieldPath+suffix)
}

// isGhostLen: the length component of a ghost sequence field (never negative)
func isGhostLen(name string) bool {
	return strings.HasPrefix(name, "G$") && strings.HasSuffix(name, "$len")
}

// refHeaps: heap arrays whose values are object references (pointer, map, chan fields)
var refHeaps = map[string]bool{}

func noteRefHeap(name string, t types.Type) {
	switch under(t).(type) {
	case *types.Pointer, *types.Map, *types.Chan:
		refHeaps[name] = true
	}
}

func memName(elem types.Type, suffix string) string {
	return "M$" + typeKey(elem) + sanitize(suffix)
}

// loadHeapField reads field path of object ref.
func (e *Engine) loadHeapField(st *State, structT types.Type, ref string, path []int) Val {
	ft, fname := fieldPathType(structT, path)
	if _, isArr := under(ft).(*types.Array); isArr {
		// embedded array: its elements live in array memory under a derived ref
		return e.loadArrayObject(st, ft, e.embRef(structT, fname, ref))
	}
	cs := flat(ft)
	ts := make([]string, len(cs))
	for i, c := range cs {
		hn := heapName(structT, fname, c.Suffix)
		if len(cs) == 1 {
			noteRefHeap(hn, ft)
		}
		arr := e.heapTerm(st, hn, "(Array Int "+c.Sort+")")
		ts[i] = sx("select", arr, ref)
	}
	v := buildAll(ft, ts)
	return e.nameVal("ld"+fname, ft, v, st)
}

func (e *Engine) storeHeapField(st *State, structT types.Type, ref string, path []int, v Val) {
	ft, fname := fieldPathType(structT, path)
	if _, isArr := under(ft).(*types.Array); isArr {
		e.storeArrayObject(st, ft, e.embRef(structT, fname, ref), v)
		return
	}
	cs := flat(ft)
	ts := terms(v)
	if len(ts) != len(cs) {
		unsup("store: shape mismatch for field %s of %s", fname, structT)
	}
	for i, c := range cs {
		name := heapName(structT, fname, c.Suffix)
		sortA := "(Array Int " + c.Sort + ")"
		arr := e.heapTerm(st, name, sortA)
		e.heapSet(st, name, sortA, ref, sx("store", arr, ref, ts[i]))
	}
}

// embedded arrays get a derived reference: negative, injective in (ref, field)
var embIndex = map[string]int{}

const embStride = 4096

func (e *Engine) embRef(structT types.Type, fname string, ref string) string {
	key := typeKey(structT) + fname
	k, ok := embIndex[key]
	if !ok {
		k = len(embIndex) + 1
		embIndex[key] = k
	}
	// -(ref*stride + k): distinct from every allocated ref (>0) and from globals (-1..-stride+1)
	return sx("-", sx("+", sx("*", ref, num(embStride)), num(int64(k))))
}

var globalRefs = map[string]int{}

func (e *Engine) globalRef(g *ssa.Global) string {
	key := g.String()
	k, ok := globalRefs[key]
	if !ok {
		k = len(globalRefs) + 1
		globalRefs[key] = k
	}
	if k >= embStride {
		unsup("too many global arrays")
	}
	return num(int64(-k))
}

// array objects: memory M$E : Array Int (Array Int sort) per element component
func (e *Engine) loadArrayObject(st *State, arrT types.Type, ref string) Val {
	at := under(arrT).(*types.Array)
	v := Val{K: KArray, Typ: arrT}
	for _, c := range flat(at.Elem()) {
		m := e.heapTerm(st, memName(at.Elem(), c.Suffix), "(Array Int (Array Int "+c.Sort+"))")
		v.Fs = append(v.Fs, scalar(sx("select", m, ref), "(Array Int "+c.Sort+")"))
	}
	return v
}

func (e *Engine) storeArrayObject(st *State, arrT types.Type, ref string, v Val) {
	at := under(arrT).(*types.Array)
	for i, c := range flat(at.Elem()) {
		name := memName(at.Elem(), c.Suffix)
		sortM := "(Array Int (Array Int " + c.Sort + "))"
		m := e.heapTerm(st, name, sortM)
		e.heapSet(st, name, sortM, ref, sx("store", m, ref, v.Fs[i].T))
	}
}

func (e *Engine) loadElem(st *State, elem types.Type, ref, idx string) Val {
	cs := flat(elem)
	ts := make([]string, len(cs))
	for i, c := range cs {
		m := e.heapTerm(st, memName(elem, c.Suffix), "(Array Int (Array Int "+c.Sort+"))")
		ts[i] = sx("select", sx("select", m, ref), idx)
	}
	v := buildAll(elem, ts)
	return e.nameVal("el", elem, v, st)
}

func (e *Engine) storeElem(st *State, elem types.Type, ref, idx string, v Val) {
	cs := flat(elem)
	ts := terms(v)
	if len(ts) != len(cs) {
		unsup("store elem: shape mismatch for %s", elem)
	}
	for i, c := range cs {
		name := memName(elem, c.Suffix)
		sortM := "(Array Int (Array Int " + c.Sort + "))"
		m := e.heapTerm(st, name, sortM)
		e.heapSet(st, name, sortM, ref, sx("store", m, ref, sx("store", sx("select", m, ref), idx, ts[i])))
	}
}

// nameVal gives loaded values short names and adds their type's range facts.
func (e *Engine) nameVal(hint string, t types.Type, v Val, st *State) Val {
	cs := flat(t)
	ts := terms(v)
	for i := range ts {
		if len(ts[i]) > 60 {
			ts[i] = e.ctx.Define(hint, cs[i].Sort, ts[i])
		}
	}
	v = buildAll(t, ts)
	e.assumeWF(v, t, st)
	return v
}

const maxLen = "281474976710656" // 2^48: standing assumption on slice/string sizes

// assumeWF adds the facts every well-typed value satisfies.
func (e *Engine) assumeWF(v Val, t types.Type, st *State) {
	var fs []string
	e.wfFacts(v, t, st, &fs)
	if len(fs) > 0 {
		e.ctx.Assume(and(fs...))
	}
}

func (e *Engine) wfFacts(v Val, t types.Type, st *State, out *[]string) {
	switch u := under(t).(type) {
	case *types.Basic:
		if lo, hi, ok := intRange(t); ok && v.K == KScalar {
			if isLiteral(v.T) {
				return
			}
			*out = append(*out, sx("<=", lo, v.T), sx("<=", v.T, hi))
		}
		if u.Info()&types.IsString != 0 && v.K == KScalar && !strings.HasPrefix(v.T, "strlit") {
			*out = append(*out, sx("<=", sx("gs.len", v.T), maxLen))
		}
	case *types.Pointer, *types.Map, *types.Chan:
		if v.K == KScalar && !isLiteral(v.T) {
			*out = append(*out, sx("<=", "0", v.T))
			if st != nil {
				*out = append(*out, sx("<=", v.T, st.top))
			}
		}
	case *types.Slice:
		if v.K == KSlice {
			r, o, l, c := v.Fs[0].T, v.Fs[1].T, v.Fs[2].T, v.Fs[3].T
			*out = append(*out, sx("<=", "0", o), sx("<=", "0", l), sx("<=", l, c), sx("<=", c, maxLen), sx("<=", o, maxLen),
				sx("=>", sx("=", r, "0"), sx("=", c, "0")))
			if st != nil {
				*out = append(*out, sx("<=", r, st.top))
			}
		}
	case *types.Interface:
		if v.K == KIface {
			*out = append(*out, sx("<=", "0", v.Fs[0].T), sx("=>", sx("=", v.Fs[0].T, "0"), sx("=", v.Fs[1].T, "0")))
			if st != nil {
				*out = append(*out, sx("<=", v.Fs[1].T, st.top))
			}
		}
	case *types.Struct:
		if v.K == KStruct {
			for i := 0; i < u.NumFields(); i++ {
				e.wfFacts(v.Fs[i], u.Field(i).Type(), st, out)
			}
		}
	case *types.Tuple:
		if v.K == KTuple {
			for i := 0; i < u.Len(); i++ {
				e.wfFacts(v.Fs[i], u.At(i).Type(), st, out)
			}
		}
	}
}

func isLiteral(t string) bool {
	if t == "" {
		return false
	}
	if t[0] >= '0' && t[0] <= '9' {
		return true
	}
	return strings.HasPrefix(t, "(- ") && !strings.Contains(t[3:], " ")
}

// freshVal declares an unconstrained well-formed value of type t.
func (e *Engine) freshVal(hint string, t types.Type, st *State) Val {
	cs := flat(t)
	ts := make([]string, len(cs))
	for i, c := range cs {
		ts[i] = e.ctx.Declare(hint+c.Suffix, c.Sort)
	}
	v := buildAll(t, ts)
	e.assumeWF(v, t, st)
	return v
}

// freshRef allocates a new object reference.
func (e *Engine) freshRef(st *State, hint string) string {
	r := e.ctx.Declare(hint, "Int")
	e.ctx.Assume(sx(">", r, st.top))
	st.top = r
	e.record(func(w *WriteSet) { w.alloc = true })
	return r
}

// ---- merging ----

type edge struct {
	from *ssa.BasicBlock
	st   *State
}

func (e *Engine) mergeStates(edges []edge) *State {
	if len(edges) == 1 {
		return edges[0].st.clone()
	}
	pcs := make([]string, len(edges))
	for i, ed := range edges {
		pcs[i] = ed.st.pc
	}
	out := &State{cells: map[*Cell]Val{}, heap: map[string]string{}, globals: map[*ssa.Global]Val{}}
	out.pc = e.ctx.Define("pc", "Bool", or(pcs...))
	out.defers = edges[0].st.defers
	for _, ed := range edges[1:] {
		if len(ed.st.defers) != len(out.defers) {
			unsup("paths with different sets of deferred calls join")
		}
		for i := range out.defers {
			if ed.st.defers[i] != out.defers[i] {
				unsup("paths with different deferred calls join")
			}
		}
	}
	// top
	out.top = e.mergeTerms("top", "Int", pcs, func(i int) string { return edges[i].st.top })
	// cells
	cellSet := map[*Cell]bool{}
	for _, ed := range edges {
		for c := range ed.st.cells {
			cellSet[c] = true
		}
	}
	cells := make([]*Cell, 0, len(cellSet))
	for c := range cellSet {
		cells = append(cells, c)
	}
	sort.Slice(cells, func(i, j int) bool { return cells[i].ID < cells[j].ID })
	for _, c := range cells {
		var have []int
		for i, ed := range edges {
			if _, ok := ed.st.cells[c]; ok {
				have = append(have, i)
			}
		}
		first := edges[have[0]].st.cells[c]
		if len(have) < len(edges) {
			// allocated on some paths only: it is dead on the others
			if len(have) == 1 {
				out.cells[c] = first
				continue
			}
		}
		out.cells[c] = e.mergeVals(c.Name, c.Typ, pcs, have, func(i int) Val { return edges[i].st.cells[c] })
	}
	// heap
	hs := map[string]bool{}
	out.epoch = edges[0].st.epoch
	for _, ed := range edges {
		for k := range ed.st.heap {
			hs[k] = true
		}
		if ed.st.epoch != out.epoch {
			out.epoch = ""
		}
	}
	if out.epoch == "" {
		// different histories of wholesale havoc: merge every known heap array explicitly
		out.epoch = e.ctx.fresh("ep")
		for k := range e.heapSorts {
			hs[k] = true
		}
	}
	keys := make([]string, 0, len(hs))
	for k := range hs {
		keys = append(keys, k)
	}
	sort.Strings(keys)
	for _, k := range keys {
		srt := e.heapSorts[k]
		t := e.mergeTerms(k, srt, pcs, func(i int) string { return e.heapTerm(edges[i].st, k, srt) })
		out.heap[k] = t
	}
	// globals
	gs := map[*ssa.Global]bool{}
	for _, ed := range edges {
		for g := range ed.st.globals {
			gs[g] = true
		}
	}
	for g := range gs {
		var have []int
		for i, ed := range edges {
			if _, ok := ed.st.globals[g]; ok {
				have = append(have, i)
			}
		}
		if len(have) != len(edges) {
			// loaded lazily on some paths only; value equals the entry value there
			for _, ed := range edges {
				if _, ok := ed.st.globals[g]; !ok {
					ed.st.globals[g] = e.globalInitAt(g, ed.st.epoch)
				}
			}
			have = have[:0]
			for i := range edges {
				have = append(have, i)
			}
		}
		out.globals[g] = e.mergeVals(g.Name(), g.Type().(*types.Pointer).Elem(), pcs, have, func(i int) Val { return edges[i].st.globals[g] })
	}
	return out
}

func (e *Engine) mergeTerms(hint, srt string, pcs []string, get func(i int) string) string {
	t := get(len(pcs) - 1)
	same := true
	for i := len(pcs) - 2; i >= 0; i-- {
		ti := get(i)
		if ti != t {
			same = false
		}
		t = ite(pcs[i], ti, t)
	}
	if same {
		return get(0)
	}
	n := e.ctx.fresh(hint)
	e.ctx.emit(fmt.Sprintf("(define-fun %s () %s %s)", n, srt, t))
	return n
}

func (e *Engine) mergeVals(hint string, t types.Type, pcs []string, have []int, get func(i int) Val) Val {
	first := get(have[0])
	if first.K == KClosure || first.K == KFunc || first.K == KPtr {
		for _, i := range have[1:] {
			o := get(i)
			if o.K != first.K || (first.K == KClosure && o.Cl.Fn != first.Cl.Fn) || (first.K == KFunc && o.Fn != first.Fn) || (first.K == KPtr && !samePtr(o.P, first.P)) {
				unsup("merge of different function/pointer values in %s", hint)
			}
		}
		return first
	}
	cs := flat(t)
	all := make([][]string, len(have))
	for j, i := range have {
		all[j] = terms(get(i))
		if len(all[j]) != len(cs) {
			unsup("merge: shape mismatch for %s", hint)
		}
	}
	sub := make([]string, len(have))
	for j, i := range have {
		sub[j] = pcs[i]
	}
	ts := make([]string, len(cs))
	for k, c := range cs {
		ts[k] = e.mergeTerms(hint+c.Suffix, c.Sort, sub, func(j int) string { return all[j][k] })
	}
	return buildAll(t, ts)
}

func samePtr(a, b *Ptr) bool {
	if a.K != b.K || a.Cell != b.Cell || a.Ref != b.Ref || a.Idx != b.Idx || a.Global != b.Global || len(a.Path) != len(b.Path) {
		return false
	}
	for i := range a.Path {
		if a.Path[i] != b.Path[i] {
			return false
		}
	}
	return true
}

// havoc replaces everything in w by fresh unconstrained values.
func (e *Engine) havoc(st *State, w *WriteSet, hint string) {
	if w.all {
		e.havocAll(st)
	}
	cells := make([]*Cell, 0, len(w.cells))
	for c := range w.cells {
		if _, live := st.cells[c]; live {
			cells = append(cells, c)
		}
	}
	sort.Slice(cells, func(i, j int) bool { return cells[i].ID < cells[j].ID })
	if w.alloc {
		nt := e.ctx.Declare("top", "Int")
		e.ctx.Assume(sx(">=", nt, st.top))
		st.top = nt
	}
	for _, c := range cells {
		old := st.cells[c]
		if old.K == KClosure || old.K == KFunc || old.K == KPtr {
			continue
		}
		st.cells[c] = e.freshVal(hint+"$"+c.Name, c.Typ, st)
		e.record(func(w *WriteSet) { w.cells[c] = true })
	}
	keys := make([]string, 0, len(w.heap))
	for k := range w.heap {
		keys = append(keys, k)
	}
	sort.Strings(keys)
	for _, k := range keys {
		if w.all {
			break
		}
		srt := e.heapSorts[k]
		hw := w.heap[k]
		if hw.whole {
			st.heap[k] = e.ctx.Declare(hint+"$"+k, srt)
			if isGhostLen(k) {
				e.ctx.Assume(fmt.Sprintf("(forall ((r Int)) (! (<= 0 (select %s r)) :pattern ((select %s r))))", st.heap[k], st.heap[k]))
			}
			e.record(func(w *WriteSet) { w.addHeap(k, "") })
			continue
		}
		inner := srt[len("(Array Int ") : len(srt)-1]
		refs := make([]string, 0, len(hw.refs))
		for r := range hw.refs {
			refs = append(refs, r)
		}
		sort.Strings(refs)
		cur := e.heapTerm(st, k, srt)
		for _, r := range refs {
			fv := e.ctx.Declare(hint+"$"+k, inner)
			if isGhostLen(k) {
				e.ctx.Assume(sx("<=", "0", fv))
			}
			cur = sx("store", cur, r, fv)
			r := r
			e.record(func(w *WriteSet) { w.addHeap(k, r) })
		}
		st.heap[k] = e.ctx.Define(k, srt, cur)
	}
	for g := range w.globals {
		if w.all {
			break
		}
		st.globals[g] = e.freshVal(hint+"$"+g.Name(), g.Type().(*types.Pointer).Elem(), st)
		e.record(func(w *WriteSet) { w.globals[g] = true })
	}
}

// mutableGlobal: package-level variables of the module that some function other
// than init assigns.  Variables of imported packages (error sentinels such as
// io.EOF) are assumed never to be reassigned.
func (e *Engine) mutableGlobal(g *ssa.Global) bool {
	if g.Pkg == nil || !strings.HasPrefix(g.Pkg.Pkg.Path(), modulePrefix) {
		return false
	}
	if m, ok := mutableCache[g]; ok {
		return m
	}
	mut := false
	for _, mem := range g.Pkg.Members {
		fn, ok := mem.(*ssa.Function)
		if !ok || fn.Name() == "init" {
			continue
		}
		if storesGlobal(fn, g) {
			mut = true
		}
	}
	if !mut {
		// methods and anonymous functions
		for _, mem := range g.Pkg.Members {
			if tn, ok := mem.(*ssa.Type); ok {
				for _, t := range []types.Type{tn.Type(), types.NewPointer(tn.Type())} {
					ms := e.prog.MethodSets.MethodSet(t)
					for i := 0; i < ms.Len(); i++ {
						if fn := e.prog.MethodValue(ms.At(i)); fn != nil && storesGlobal(fn, g) {
							mut = true
						}
					}
				}
			}
		}
	}
	mutableCache[g] = mut
	return mut
}

var mutableCache = map[*ssa.Global]bool{}

func storesGlobal(fn *ssa.Function, g *ssa.Global) bool {
	for _, b := range fn.Blocks {
		for _, ins := range b.Instrs {
			if s, ok := ins.(*ssa.Store); ok {
				root := s.Addr
				for {
					switch x := root.(type) {
					case *ssa.FieldAddr:
						root = x.X
						continue
					case *ssa.IndexAddr:
						root = x.X
						continue
					}
					break
				}
				if root == ssa.Value(g) {
					return true
				}
			}
		}
	}
	for _, a := range fn.AnonFuncs {
		if storesGlobal(a, g) {
			return true
		}
	}
	return false
}

func (e *Engine) globalInit(g *ssa.Global) Val { return e.globalInitAt(g, "0") }

func (e *Engine) globalInitAt(g *ssa.Global, epoch string) Val {
	t := g.Type().(*types.Pointer).Elem()
	cs := flat(t)
	ts := make([]string, len(cs))
	for i, c := range cs {
		n := "G$" + sanitize(g.String()) + sanitize(c.Suffix)
		if epoch != "0" && e.mutableGlobal(g) {
			n += "@" + epoch
		}
		e.ctx.Global(n, fmt.Sprintf("(declare-fun %s () %s)", n, c.Sort))
		ts[i] = n
	}
	return buildAll(t, ts)
}
