package main

// Contract expression language: parser.

import (
	"fmt"
	"math/big"
	"strconv"
	"strings"
	"unicode"
)

type Expr interface{}

type EIdent struct{ Name string }
type EInt struct{ V string }
type EStr struct{ S string }
type EBin struct {
	Op   string
	L, R Expr
}
type EUn struct {
	Op string
	X  Expr
}
type ECond struct{ C, A, B Expr }
type ECall struct {
	Fn   string
	Args []Expr
}
type EIndex struct{ X, I Expr }
type ESlice struct{ X, Lo, Hi Expr }
type EField struct {
	X    Expr
	Name string
}
type EQuant struct {
	Forall bool
	Vars   []string
	Lo, Hi Expr // nil: unbounded
	Body   Expr
	Trig   []Expr
}

type tok struct {
	kind string // id, int, str, op, eof
	text string
}

type lexer struct {
	toks []tok
	pos  int
}

var ops = []string{"<==>", "==>", "&&", "||", "==", "!=", "<=", ">=", "<<", ">>", "&^", "::", "..",
	"+", "-", "*", "/", "%", "&", "|", "^", "<", ">", "!", "(", ")", "[", "]", ".", ",", "?", ":", "{", "}"}

func lex(s string) ([]tok, error) {
	var out []tok
	i := 0
	for i < len(s) {
		c := s[i]
		switch {
		case c == ' ' || c == '\t':
			i++
		case c == '/' && i+1 < len(s) && s[i+1] == '/':
			i = len(s)
		case unicode.IsLetter(rune(c)) || c == '_' || c == '\\':
			j := i + 1
			for j < len(s) && (unicode.IsLetter(rune(s[j])) || unicode.IsDigit(rune(s[j])) || s[j] == '_' || s[j] == '$') {
				j++
			}
			out = append(out, tok{"id", s[i:j]})
			i = j
		case c >= '0' && c <= '9':
			j := i + 1
			for j < len(s) && (unicode.IsDigit(rune(s[j])) || unicode.IsLetter(rune(s[j])) || s[j] == '_') {
				j++
			}
			// ".." must not be swallowed
			txt := strings.ReplaceAll(s[i:j], "_", "")
			n, ok := new(big.Int).SetString(txt, 0)
			if !ok {
				return nil, fmt.Errorf("bad number %q", s[i:j])
			}
			out = append(out, tok{"int", n.String()})
			i = j
		case c == '\'':
			j := i + 1
			for j < len(s) && s[j] != '\'' {
				if s[j] == '\\' {
					j++
				}
				j++
			}
			if j >= len(s) {
				return nil, fmt.Errorf("unterminated char literal")
			}
			r, _, _, err := strconv.UnquoteChar(s[i+1:j], '\'')
			if err != nil {
				return nil, fmt.Errorf("bad char literal %s", s[i:j+1])
			}
			out = append(out, tok{"int", strconv.Itoa(int(r))})
			i = j + 1
		case c == '"':
			j := i + 1
			for j < len(s) && s[j] != '"' {
				if s[j] == '\\' {
					j++
				}
				j++
			}
			if j >= len(s) {
				return nil, fmt.Errorf("unterminated string literal")
			}
			str, err := strconv.Unquote(s[i : j+1])
			if err != nil {
				return nil, err
			}
			out = append(out, tok{"str", str})
			i = j + 1
		default:
			matched := false
			for _, op := range ops {
				if strings.HasPrefix(s[i:], op) {
					out = append(out, tok{"op", op})
					i += len(op)
					matched = true
					break
				}
			}
			if !matched {
				return nil, fmt.Errorf("unexpected character %q", c)
			}
		}
	}
	out = append(out, tok{"eof", ""})
	return out, nil
}

func ParseExpr(s string) (e Expr, err error) {
	toks, err := lex(s)
	if err != nil {
		return nil, err
	}
	lx := &lexer{toks: toks}
	defer func() {
		if r := recover(); r != nil {
			if pe, ok := r.(parseErr); ok {
				err = fmt.Errorf("%s", string(pe))
				return
			}
			panic(r)
		}
	}()
	e = lx.parseIff()
	if lx.peek().kind != "eof" {
		return nil, fmt.Errorf("unexpected %q", lx.peek().text)
	}
	return e, nil
}

type parseErr string

func (l *lexer) peek() tok { return l.toks[l.pos] }
func (l *lexer) next() tok { t := l.toks[l.pos]; l.pos++; return t }
func (l *lexer) isOp(op string) bool {
	t := l.peek()
	return t.kind == "op" && t.text == op
}
func (l *lexer) expect(op string) {
	if !l.isOp(op) {
		panic(parseErr(fmt.Sprintf("expected %q, found %q", op, l.peek().text)))
	}
	l.pos++
}

func (l *lexer) parseIff() Expr {
	x := l.parseImpl()
	for l.isOp("<==>") {
		l.next()
		y := l.parseImpl()
		x = EBin{"<==>", x, y}
	}
	return x
}

func (l *lexer) parseImpl() Expr {
	x := l.parseCond()
	if l.isOp("==>") {
		l.next()
		y := l.parseImpl()
		return EBin{"==>", x, y}
	}
	return x
}

func (l *lexer) parseCond() Expr {
	c := l.parseBin(0)
	if l.isOp("?") {
		l.next()
		a := l.parseCond()
		l.expect(":")
		b := l.parseCond()
		return ECond{c, a, b}
	}
	return c
}

var precs = [][]string{
	{"||"},
	{"&&"},
	{"==", "!=", "<", "<=", ">", ">="},
	{"+", "-", "|", "^"},
	{"*", "/", "%", "<<", ">>", "&", "&^"},
}

func (l *lexer) parseBin(level int) Expr {
	if level >= len(precs) {
		return l.parseUnary()
	}
	x := l.parseBin(level + 1)
	for {
		t := l.peek()
		found := false
		if t.kind == "op" {
			for _, op := range precs[level] {
				if t.text == op {
					found = true
				}
			}
		}
		if t.kind == "id" && t.text == "in" && level == 2 {
			l.next()
			y := l.parseBin(level + 1)
			x = EBin{"in", x, y}
			continue
		}
		if !found {
			return x
		}
		l.next()
		y := l.parseBin(level + 1)
		x = EBin{t.text, x, y}
	}
}

func (l *lexer) parseUnary() Expr {
	if l.isOp("!") {
		l.next()
		return EUn{"!", l.parseUnary()}
	}
	if l.isOp("-") {
		l.next()
		return EUn{"-", l.parseUnary()}
	}
	return l.parsePostfix()
}

func (l *lexer) parsePostfix() Expr {
	x := l.parsePrimary()
	for {
		switch {
		case l.isOp("."):
			l.next()
			t := l.next()
			if t.kind != "id" {
				panic(parseErr("expected field name"))
			}
			x = EField{x, t.text}
		case l.isOp("["):
			l.next()
			var lo Expr
			if !l.isOp(":") {
				lo = l.parseCond()
			}
			if l.isOp(":") {
				l.next()
				var hi Expr
				if !l.isOp("]") {
					hi = l.parseCond()
				}
				l.expect("]")
				x = ESlice{x, lo, hi}
			} else {
				l.expect("]")
				x = EIndex{x, lo}
			}
		default:
			return x
		}
	}
}

func (l *lexer) parsePrimary() Expr {
	t := l.next()
	switch t.kind {
	case "int":
		return EInt{t.text}
	case "str":
		return EStr{t.text}
	case "op":
		if t.text == "(" {
			x := l.parseIff()
			l.expect(")")
			return x
		}
	case "id":
		if t.text == "forall" || t.text == "exists" {
			q := EQuant{Forall: t.text == "forall"}
			for {
				v := l.next()
				if v.kind != "id" {
					panic(parseErr("expected bound variable"))
				}
				q.Vars = append(q.Vars, v.text)
				if l.isOp(",") {
					l.next()
					continue
				}
				break
			}
			if nt := l.peek(); nt.kind == "id" && nt.text == "in" {
				l.next()
				q.Lo = l.parseBin(3)
				l.expect("..")
				q.Hi = l.parseBin(3)
			} else if nt.kind == "id" && nt.text == "int" {
				l.next()
			}
			l.expect("::")
			q.Body = l.parseIff()
			return q
		}
		if l.isOp("(") {
			l.next()
			var args []Expr
			for !l.isOp(")") {
				args = append(args, l.parseIff())
				if l.isOp(",") {
					l.next()
				}
			}
			l.expect(")")
			return ECall{t.text, args}
		}
		return EIdent{t.text}
	}
	panic(parseErr(fmt.Sprintf("unexpected %q", t.text)))
}
