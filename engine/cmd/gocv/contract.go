package main

// Contract files: comment-only Go files (//go:build verif) whose //@ lines
// carry Gobra-style contracts, or .spec files (same syntax, the //@ prefix is
// optional).  See DESIGN.md section 4.

import (
	"fmt"
	"os"
	"path/filepath"
	"strconv"
	"strings"
	"unicode"
)

type Clause struct {
	Expr Expr
	Src  string
	Pos  string
	Tags []string
}

type LoopContract struct {
	Invariants []Clause
	Decreases  []Clause
	Apply      []Clause // lemma instances assumed at the loop head (expression is an ECall of the lemma)
	ApplyEnd   []Clause // lemma instances assumed at the back edge
}

type FuncContract struct {
	Name       string // pkgpath.Func or pkgpath.(*T).Method
	ParamNames []string
	ResNames   []string
	Tags       []string
	Requires   []Clause
	Ensures    []Clause
	Assigns    []Expr
	AssignsAll bool
	HasAssigns bool
	Loops      map[int]*LoopContract
	InlLoops   map[string]*LoopContract // "Callee.N": extra clauses for loops of inlined callees
	Trusted    bool
	Pure       bool
	Inline     bool
	Overflow   bool
	NilRecv    bool // the method accepts a nil pointer receiver
	IndexHints bool     // add instances of bounded quantifiers at live range-loop indices
	Claims     []string // partial contract: prefixes of the obligation names that are claimed
	NoInline   []string // callees to treat by havoc
	PanicsIf   []Clause
	Variant    []Clause // recursion variant: a non-negative integer that decreases at every call to a function with a variant
	File       string
	Fresh      []string // results that are freshly allocated
	Unroll     int
	Callbacks  map[string]string // parameter name -> "pure"
	Uses       []string          // lemmas available as hypotheses
	Delegate   string            // "param.Method(out)": the call is one call of that method on a fresh byte slice
	EnsuresOut []Clause          // facts about the delegated byte slice
	Apply      []Clause          // lemma instances assumed at every return
}

type SpecParam struct {
	Name string
	Type string // int, bool, seq, string
}

type SpecFunc struct {
	Name   string
	Params []SpecParam
	Result string
	Body   Expr
	Rec    bool
	Pred   bool // state-dependent macro
	Src    string
}

type Lemma struct {
	Name     string
	Params   []SpecParam
	Requires []Clause
	Ensures  []Clause
	Induct   string
	Uses     []string
	Tags     []string
	Pos      string
}

type GhostField struct {
	Name string
	Type string // int, bool, seq
	Free bool   // exempt from frame checks (monotone bookkeeping: counters, closed flags)
}

type GlobalInv struct {
	Pkg  string
	Name string
	Tags []string
	Expr Expr
	Src  string
	Pos  string
}

type Contracts struct {
	Funcs   map[string]*FuncContract
	Specs   map[string]*SpecFunc
	SpecOrd []string
	Lemmas  []*Lemma
	Ghosts  map[string]*GhostField
	Globals []GlobalInv
	Consts  map[string]string
}

func NewContracts() *Contracts {
	return &Contracts{Funcs: map[string]*FuncContract{}, Specs: map[string]*SpecFunc{}, Ghosts: map[string]*GhostField{}, Consts: map[string]string{}}
}

// LoadContractFile parses one file.  pkgPath qualifies unqualified function names.
func (c *Contracts) LoadContractFile(file, pkgPath string) error {
	data, err := os.ReadFile(file)
	if err != nil {
		return err
	}
	isGo := strings.HasSuffix(file, ".go")
	var cur *FuncContract
	var curLemma *Lemma
	var lines []struct {
		text string
		no   int
	}
	for i, raw := range strings.Split(string(data), "\n") {
		l := strings.TrimSpace(raw)
		if isGo {
			if !strings.HasPrefix(l, "//@") {
				continue
			}
			l = strings.TrimSpace(l[3:])
		} else {
			l = strings.TrimSpace(strings.TrimPrefix(l, "//@"))
			if strings.HasPrefix(l, "#") {
				continue
			}
		}
		if l == "" || strings.HasPrefix(l, "//") {
			continue
		}
		// continuation lines start with '|'
		if strings.HasPrefix(l, "|") && len(lines) > 0 {
			lines[len(lines)-1].text += " " + strings.TrimSpace(l[1:])
			continue
		}
		lines = append(lines, struct {
			text string
			no   int
		}{l, i + 1})
	}
	for _, ln := range lines {
		l := ln.text
		pos := fmt.Sprintf("%s:%d", filepath.Base(file), ln.no)
		fail := func(err error) error { return fmt.Errorf("%s: %v (in %q)", pos, err, l) }
		word, rest := splitWord(l)
		switch word {
		case "package":
			pkgPath = strings.TrimSpace(rest)
		case "spec", "pred":
			sf, err := parseSpecFunc(word, rest)
			if err != nil {
				return fail(err)
			}
			sf.Src = l
			if _, dup := c.Specs[sf.Name]; !dup {
				c.SpecOrd = append(c.SpecOrd, sf.Name)
			}
			c.Specs[sf.Name] = sf
			cur, curLemma = nil, nil
		case "ghost":
			w2, r2 := splitWord(rest)
			ty, flag := splitWord(strings.TrimSpace(r2))
			c.Ghosts[w2] = &GhostField{Name: w2, Type: ty, Free: strings.TrimSpace(flag) == "free"}
		case "const":
			w2, r2 := splitWord(rest)
			c.Consts[w2] = strings.TrimSpace(strings.TrimPrefix(strings.TrimSpace(r2), "="))
		case "global":
			// global NAME (TAGS) EXPR
			gname, r2 := splitWord(rest)
			var tags []string
			r2 = strings.TrimSpace(r2)
			if strings.HasPrefix(r2, "(") {
				j := strings.Index(r2, ")")
				if j < 0 {
					return fail(fmt.Errorf("global: missing ')'"))
				}
				tags = strings.Fields(r2[1:j])
				r2 = r2[j+1:]
			}
			ex, err := ParseExpr(r2)
			if err != nil {
				return fail(err)
			}
			c.Globals = append(c.Globals, GlobalInv{Pkg: pkgPath, Name: gname, Tags: tags, Expr: ex, Src: strings.TrimSpace(r2), Pos: pos})
		case "func":
			name, params, results, err := parseFuncHeader(rest)
			if err != nil {
				return fail(err)
			}
			name = qualify(pkgPath, name)
			cur = &FuncContract{Name: name, ParamNames: params, ResNames: results, Loops: map[int]*LoopContract{}, File: file}
			c.Funcs[name] = cur
			curLemma = nil
		case "lemma":
			lm, err := parseLemmaHeader(rest)
			if err != nil {
				return fail(err)
			}
			lm.Pos = pos
			c.Lemmas = append(c.Lemmas, lm)
			curLemma = lm
			cur = nil
		default:
			if curLemma != nil {
				switch word {
				case "requires", "ensures":
					ex, err := ParseExpr(rest)
					if err != nil {
						return fail(err)
					}
					cl := Clause{Expr: ex, Src: rest, Pos: pos}
					if word == "requires" {
						curLemma.Requires = append(curLemma.Requires, cl)
					} else {
						curLemma.Ensures = append(curLemma.Ensures, cl)
					}
				case "induct":
					curLemma.Induct = strings.TrimSpace(rest)
				case "uses":
					curLemma.Uses = append(curLemma.Uses, strings.Fields(strings.ReplaceAll(rest, ",", " "))...)
				case "tags":
					curLemma.Tags = strings.Fields(rest)
				default:
					return fail(fmt.Errorf("unknown lemma clause %q", word))
				}
				continue
			}
			if cur == nil {
				return fail(fmt.Errorf("clause outside of a func/lemma block"))
			}
			if err := parseClause(cur, word, rest, pos); err != nil {
				return fail(err)
			}
		}
	}
	return nil
}

func qualify(pkg, name string) string {
	if pkg == "" {
		return name
	}
	return pkg + "::" + name
}

func splitWord(l string) (string, string) {
	l = strings.TrimSpace(l)
	i := strings.IndexFunc(l, func(r rune) bool { return unicode.IsSpace(r) })
	if i < 0 {
		return l, ""
	}
	return strings.TrimSuffix(l[:i], ":"), strings.TrimSpace(l[i:])
}

func parseClause(fc *FuncContract, word, rest, pos string) error {
	mk := func() (Clause, error) {
		ex, err := ParseExpr(rest)
		return Clause{Expr: ex, Src: rest, Pos: pos}, err
	}
	switch word {
	case "tags":
		fc.Tags = strings.Fields(rest)
	case "trusted":
		fc.Trusted = true
	case "pure":
		fc.Pure = true
		fc.HasAssigns = true
	case "inline":
		fc.Inline = true
	case "overflow":
		fc.Overflow = true
	case "nilrecv":
		fc.NilRecv = true
	case "index-hints":
		fc.IndexHints = true
	case "claims":
		fc.Claims = append(fc.Claims, strings.Fields(rest)...)
	case "unroll":
		n, err := strconv.Atoi(strings.TrimSpace(rest))
		if err != nil {
			return err
		}
		fc.Unroll = n
	case "fresh":
		fc.Fresh = append(fc.Fresh, splitComma(rest)...)
	case "apply":
		cl, err := mk()
		if err != nil {
			return err
		}
		if _, ok := cl.Expr.(ECall); !ok {
			return fmt.Errorf("apply: expected LEMMA(args)")
		}
		fc.Apply = append(fc.Apply, cl)
	case "uses":
		fc.Uses = append(fc.Uses, strings.Fields(strings.ReplaceAll(rest, ",", " "))...)
	case "delegate":
		fc.Delegate = strings.TrimSpace(rest)
	case "ensures-out":
		cl, err := mk()
		if err != nil {
			return err
		}
		fc.EnsuresOut = append(fc.EnsuresOut, cl)
	case "callback":
		f := strings.Fields(rest)
		if len(f) != 2 || f[1] != "pure" {
			return fmt.Errorf("callback: want 'callback NAME pure'")
		}
		if fc.Callbacks == nil {
			fc.Callbacks = map[string]string{}
		}
		fc.Callbacks[f[0]] = f[1]
	case "havoc":
		fc.NoInline = append(fc.NoInline, strings.Fields(rest)...)
	case "requires":
		cl, err := mk()
		if err != nil {
			return err
		}
		fc.Requires = append(fc.Requires, cl)
	case "ensures":
		cl, err := mk()
		if err != nil {
			return err
		}
		// optional per-clause tags: "ensures [C01 C15] expr"
		fc.Ensures = append(fc.Ensures, cl)
	case "panics-if":
		cl, err := mk()
		if err != nil {
			return err
		}
		fc.PanicsIf = append(fc.PanicsIf, cl)
	case "variant":
		cl, err := mk()
		if err != nil {
			return err
		}
		fc.Variant = append(fc.Variant, cl)
	case "assigns":
		fc.HasAssigns = true
		if strings.TrimSpace(rest) == "*" {
			fc.AssignsAll = true
			return nil
		}
		if strings.TrimSpace(rest) == "nothing" {
			return nil
		}
		for _, part := range splitComma(rest) {
			ex, err := ParseExpr(part)
			if err != nil {
				return err
			}
			fc.Assigns = append(fc.Assigns, ex)
		}
	case "loop":
		// loop N: invariant E | loop N: decreases E, E
		w2, r2 := splitWord(rest)
		w2 = strings.TrimSuffix(w2, ":")
		w3, r3 := splitWord(r2)
		var lc *LoopContract
		if n, err := strconv.Atoi(w2); err == nil {
			lc = fc.Loops[n]
			if lc == nil {
				lc = &LoopContract{}
				fc.Loops[n] = lc
			}
		} else if strings.Contains(w2, ".") {
			if fc.InlLoops == nil {
				fc.InlLoops = map[string]*LoopContract{}
			}
			lc = fc.InlLoops[w2]
			if lc == nil {
				lc = &LoopContract{}
				fc.InlLoops[w2] = lc
			}
		} else {
			return fmt.Errorf("loop ordinal: %q", w2)
		}
		switch w3 {
		case "invariant":
			ex, err := ParseExpr(r3)
			if err != nil {
				return err
			}
			lc.Invariants = append(lc.Invariants, Clause{Expr: ex, Src: r3, Pos: pos})
		case "apply", "apply-end":
			ex, err := ParseExpr(r3)
			if err != nil {
				return err
			}
			if _, ok := ex.(ECall); !ok {
				return fmt.Errorf("apply: expected LEMMA(args)")
			}
			if w3 == "apply" {
				lc.Apply = append(lc.Apply, Clause{Expr: ex, Src: r3, Pos: pos})
			} else {
				lc.ApplyEnd = append(lc.ApplyEnd, Clause{Expr: ex, Src: r3, Pos: pos})
			}
		case "decreases":
			for _, part := range splitComma(r3) {
				ex, err := ParseExpr(part)
				if err != nil {
					return err
				}
				lc.Decreases = append(lc.Decreases, Clause{Expr: ex, Src: part, Pos: pos})
			}
		default:
			return fmt.Errorf("unknown loop clause %q", w3)
		}
	default:
		return fmt.Errorf("unknown clause %q", word)
	}
	return nil
}

// splitComma splits at top-level commas.
func splitComma(s string) []string {
	var out []string
	d := 0
	start := 0
	for i, r := range s {
		switch r {
		case '(', '[', '{':
			d++
		case ')', ']', '}':
			d--
		case ',':
			if d == 0 {
				out = append(out, strings.TrimSpace(s[start:i]))
				start = i + 1
			}
		}
	}
	if strings.TrimSpace(s[start:]) != "" {
		out = append(out, strings.TrimSpace(s[start:]))
	}
	return out
}

// parseFuncHeader: NAME [ "(" names ")" [ "(" names ")" ] ]
func parseFuncHeader(s string) (name string, params, results []string, err error) {
	s = strings.TrimSpace(s)
	// the name may itself start with "(*T)."
	i := 0
	if strings.HasPrefix(s, "(") {
		j := strings.Index(s, ")")
		if j < 0 {
			return "", nil, nil, fmt.Errorf("bad receiver")
		}
		i = j + 1
	}
	for i < len(s) && !unicode.IsSpace(rune(s[i])) && s[i] != '(' {
		i++
	}
	name = s[:i]
	rest := strings.TrimSpace(s[i:])
	if rest == "" {
		return
	}
	grp := func(r string) ([]string, string, error) {
		if !strings.HasPrefix(r, "(") {
			return nil, r, fmt.Errorf("expected '('")
		}
		j := strings.Index(r, ")")
		if j < 0 {
			return nil, r, fmt.Errorf("missing ')'")
		}
		return splitComma(r[1:j]), strings.TrimSpace(r[j+1:]), nil
	}
	params, rest, err = grp(rest)
	if err != nil {
		return
	}
	if params == nil {
		params = []string{}
	}
	if rest != "" {
		results, rest, err = grp(rest)
	}
	return
}

func parseParams(s string) ([]SpecParam, error) {
	var out []SpecParam
	for _, p := range splitComma(s) {
		f := strings.Fields(p)
		if len(f) != 2 {
			return nil, fmt.Errorf("bad parameter %q (want: name type)", p)
		}
		out = append(out, SpecParam{f[0], f[1]})
	}
	return out, nil
}

// parseSpecFunc: [rec] func NAME(params) TYPE = EXPR      (after "spec")
//                NAME(params) = EXPR                       (after "pred")
func parseSpecFunc(kind, s string) (*SpecFunc, error) {
	sf := &SpecFunc{}
	s = strings.TrimSpace(s)
	if kind == "pred" {
		sf.Pred = true
		sf.Result = "bool"
	} else {
		if strings.HasPrefix(s, "rec ") {
			sf.Rec = true
			s = strings.TrimSpace(s[4:])
		}
		if !strings.HasPrefix(s, "func ") {
			return nil, fmt.Errorf("expected 'func'")
		}
		s = strings.TrimSpace(s[5:])
	}
	i := strings.Index(s, "(")
	if i < 0 {
		return nil, fmt.Errorf("expected '('")
	}
	sf.Name = strings.TrimSpace(s[:i])
	j := matchParen(s, i)
	if j < 0 {
		return nil, fmt.Errorf("unbalanced parentheses")
	}
	ps, err := parseParams(s[i+1 : j])
	if err != nil {
		return nil, err
	}
	sf.Params = ps
	rest := strings.TrimSpace(s[j+1:])
	k := strings.Index(rest, "=")
	if k < 0 {
		// no body: an uninterpreted function (nothing is known about it but that it is a function)
		if sf.Pred || sf.Rec || rest == "" {
			return nil, fmt.Errorf("expected '='")
		}
		sf.Result = rest
		return sf, nil
	}
	if !sf.Pred {
		sf.Result = strings.TrimSpace(rest[:k])
	}
	body, err := ParseExpr(rest[k+1:])
	if err != nil {
		return nil, err
	}
	sf.Body = body
	return sf, nil
}

func matchParen(s string, i int) int {
	d := 0
	for j := i; j < len(s); j++ {
		switch s[j] {
		case '(':
			d++
		case ')':
			d--
			if d == 0 {
				return j
			}
		}
	}
	return -1
}

func parseLemmaHeader(s string) (*Lemma, error) {
	i := strings.Index(s, "(")
	if i < 0 {
		return nil, fmt.Errorf("expected '('")
	}
	j := matchParen(s, i)
	if j < 0 {
		return nil, fmt.Errorf("unbalanced")
	}
	ps, err := parseParams(s[i+1 : j])
	if err != nil {
		return nil, err
	}
	return &Lemma{Name: strings.TrimSpace(s[:i]), Params: ps}, nil
}
