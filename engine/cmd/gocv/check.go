package main

// gocv check / ledger: the per-property entry points registered in MANIFEST.json.

import (
	"bytes"
	"encoding/json"
	"flag"
	"fmt"
	"os"
	"os/exec"
	"path/filepath"
	"regexp"
	"sort"
	"strconv"
	"strings"
	"time"
)

const verifRoot = "/verif"

// repoRoot is the tree under verification; GOCV_REPO redirects a development run (for
// instance the evaluation of a seeded change) to a scratch worktree, GOCV_OUT its
// evidence and replay files, so that /repo and /verif/evidence stay untouched.
var repoRoot = envOr("GOCV_REPO", "/repo")
var outRoot = envOr("GOCV_OUT", verifRoot)

func envOr(k, d string) string {
	if v := os.Getenv(k); v != "" {
		return v
	}
	return d
}

type LedgerFunc struct {
	Name       string   `json:"name"`
	Complete   bool     `json:"complete"`   // every obligation of the function discharged on the pinned tree
	Discharged []string `json:"discharged"` // obligation names discharged on the pinned tree
	Undecided  []string `json:"undecided,omitempty"`
	OutOfReach string   `json:"out_of_reach,omitempty"`
}

type Ledger struct {
	Property string                 `json:"property"`
	Funcs    map[string]*LedgerFunc `json:"functions"`
	Lemmas   []string               `json:"lemmas"`
}

type KnownFinding struct {
	Property string
	Key      string // obligation name or harness case
	Text     string
	Fixed    bool
}

func loadKnownFindings() []KnownFinding {
	data, err := os.ReadFile(filepath.Join(verifRoot, "known-findings.txt"))
	if err != nil {
		return nil
	}
	var out []KnownFinding
	re := regexp.MustCompile(`^(finding|fixed): property=(\S+) key=(\S+) (.*)$`)
	for _, l := range strings.Split(string(data), "\n") {
		m := re.FindStringSubmatch(strings.TrimSpace(l))
		if m == nil {
			continue
		}
		out = append(out, KnownFinding{Property: m[2], Key: m[3], Text: m[4], Fixed: m[1] == "fixed"})
	}
	return out
}

type Violation struct {
	Key     string
	Replay  string
	NoInput bool
	Text    string
}

type checkRun struct {
	prop      string
	tier      string
	seed      int
	update    bool
	timeout   int
	workers   int
	contracts *Contracts
	prog      *Program
	results   []*FuncResult
	lemmaObs  []*Obligation
	smtDir    string
	replayDir string
	start     time.Time
}

func repoContractRoots() []string {
	// contracts live in /repo (tag-guarded comment-only files); /verif/contracts is the mirror used when absent
	var roots []string
	found := false
	filepath.Walk(repoRoot, func(p string, info os.FileInfo, err error) error {
		if err == nil && !info.IsDir() && strings.HasSuffix(p, "zz_contracts_verif.go") {
			found = true
			return filepath.SkipAll
		}
		if err == nil && info.IsDir() && (info.Name() == ".git" || info.Name() == "testdata") {
			return filepath.SkipDir
		}
		return nil
	})
	if found && os.Getenv("GOCV_CONTRACTS") != "mirror" {
		roots = append(roots, repoRoot)
	} else {
		roots = append(roots, filepath.Join(verifRoot, "contracts"))
	}
	roots = append(roots, filepath.Join(verifRoot, "trusted"), filepath.Join(verifRoot, "spec"))
	return roots
}

func hasTag(tags []string, p string) bool {
	for _, t := range tags {
		if t == p {
			return true
		}
	}
	return false
}

func cmdCheck(args []string) {
	fs := flag.NewFlagSet("check", flag.ExitOnError)
	prop := fs.String("property", "", "property id")
	tier := fs.String("tier", "quick", "quick|thorough")
	update := fs.Bool("update-ledger", false, "development: rewrite the ledger from this run")
	fs.Parse(args)
	if t := os.Getenv("VERIF_TIER"); t != "" {
		*tier = t
	}
	seed := 0
	if s := os.Getenv("VERIF_SEED"); s != "" {
		seed, _ = strconv.Atoi(s)
	}
	globalSeed = seed
	r := &checkRun{prop: *prop, tier: *tier, seed: seed, update: *update, start: time.Now()}
	r.timeout, r.workers = 10, 8
	if *tier == "thorough" {
		r.timeout = 40
	}
	os.Exit(r.run())
}

func (r *checkRun) run() int {
	var err error
	r.contracts, err = LoadContracts(repoContractRoots()...)
	if err != nil {
		fmt.Println("contract error:", err)
		return 2
	}
	// functions and lemmas serving this property
	var keys []string
	pkgSet := map[string]bool{}
	for k, fc := range r.contracts.Funcs {
		if fc.Trusted || !hasTag(fc.Tags, r.prop) {
			continue
		}
		keys = append(keys, k)
		if i := strings.Index(k, "::"); i >= 0 {
			pkgSet[k[:i]] = true
		}
	}
	sort.Strings(keys)
	var pats []string
	for p := range pkgSet {
		pats = append(pats, p)
	}
	sort.Strings(pats)
	tmp, err := os.MkdirTemp("", "gocv-"+r.prop+"-")
	if err != nil {
		fmt.Println(err)
		return 2
	}
	defer os.RemoveAll(tmp)
	r.smtDir = tmp
	r.replayDir = filepath.Join(outRoot, "replays", r.prop)
	ledger := r.loadLedger()
	cfg := &Config{InlineMax: 3}
	if len(pats) > 0 {
		r.prog, err = LoadProgram(repoRoot, pats)
		if err != nil {
			// the tree does not build: nothing can be decided
			fmt.Println("load error:", err)
			return 2
		}
	}
	var all []*Obligation
	unbound := map[string]bool{}
	for _, k := range keys {
		fn := r.prog.FindFunc(k)
		if fn == nil {
			unbound[k] = true
			continue
		}
		res := VerifyFunction(r.prog, r.contracts, fn, r.contracts.Funcs[k], cfg)
		res.Name = k
		r.results = append(r.results, res)
		lf := ledger.Funcs[k]
		if !r.update && lf != nil && !lf.Complete {
			// an incomplete function: only the obligations of the ledger (and the vacuity
			// guards) are decided; the others were never proved and stay undecided
			want := map[string]bool{}
			for _, n := range lf.Discharged {
				want[n] = true
			}
			for _, o := range res.Obs {
				if want[o.Name] || o.expect() == "sat" {
					all = append(all, o)
				} else {
					o.Result = "not attempted (never discharged on the pinned tree)"
				}
			}
			continue
		}
		all = append(all, res.Obs...)
	}
	for _, lm := range r.contracts.Lemmas {
		if hasTag(lm.Tags, r.prop) {
			obs, lerr := VerifyLemma(r.contracts, lm)
			if lerr != "" {
				fmt.Println("lemma error:", lm.Name, lerr)
				return 2
			}
			r.lemmaObs = append(r.lemmaObs, obs...)
			all = append(all, obs...)
		}
	}
	for _, gi := range r.contracts.Globals {
		if hasTag(gi.Tags, r.prop) && r.prog != nil {
			obs, gerr := VerifyGlobalInit(r.prog, r.contracts, gi)
			if gerr != "" {
				fmt.Println("global invariant outside reach:", gi.Name, gerr)
				continue
			}
			r.lemmaObs = append(r.lemmaObs, obs...)
			all = append(all, obs...)
		}
	}
	SolveAll(all, r.smtDir, r.timeout, r.workers)

	if r.update {
		return r.writeLedger()
	}

	// ---- verdicts ----
	known := loadKnownFindings()
	var violations []Violation
	var knownHit []string
	required, discharged := 0, 0
	var undecided []string
	byBackend := map[string]int{}
	solverTime := 0.0
	machinery := false
	var funcsUnder []string
	notes := map[string]int{}
	var samples []any
	fail := func(key, text string, o *Obligation) {
		for _, kf := range known {
			if kf.Property == r.prop && kf.Key == key && !kf.Fixed {
				knownHit = append(knownHit, fmt.Sprintf("KNOWN-FINDING: property=%s %s (%s)", r.prop, kf.Text, key))
				return
			}
		}
		v := Violation{Key: key, Text: text, NoInput: true}
		v.Replay = r.writeReplay(key, text, o)
		violations = append(violations, v)
	}
	for k := range unbound {
		lf := ledger.Funcs[k]
		if lf != nil && len(lf.Discharged) > 0 {
			required += len(lf.Discharged)
			fail(k+"/unbound", "contracted function no longer found: "+k, nil)
		}
	}
	for _, res := range r.results {
		lf := ledger.Funcs[res.Name]
		funcsUnder = append(funcsUnder, shortName(res.Name))
		for n, c := range res.Notes {
			notes[n] += c
		}
		if lf == nil {
			for _, o := range res.Obs {
				undecided = append(undecided, o.Name+" (function not in ledger)")
			}
			continue
		}
		if res.Err != "" {
			if len(lf.Discharged) > 0 {
				required += len(lf.Discharged)
				fail(res.Name+"/outside-subset", "function left the verified subset: "+res.Err, nil)
			}
			continue
		}
		want := map[string]bool{}
		for _, n := range lf.Discharged {
			want[n] = true
		}
		seen := map[string]bool{}
		for _, o := range res.Obs {
			seen[o.Name] = true
			solverTime += o.TimeS
			if o.expect() == "sat" {
				if !o.OK() {
					machinery = true
					fmt.Printf("MACHINERY: vacuity guard %s is unsatisfiable: the assumptions of %s are contradictory\n", o.Name, o.Func)
				}
				continue
			}
			need := want[o.Name] || lf.Complete
			if !need {
				if !o.OK() {
					undecided = append(undecided, o.Name)
				}
				continue
			}
			required++
			if o.OK() {
				discharged++
				byBackend[o.Solver]++
				if len(samples) < 6 {
					samples = append(samples, map[string]any{"obligation": o.Name, "kind": o.Kind, "what": o.Desc, "at": o.Pos, "solver": o.Solver, "time_s": round3(o.TimeS), "smt_bytes": o.SMTSize})
				}
			} else {
				fail(o.Name, o.Desc+" ["+o.Result+"]", o)
			}
		}
		for n := range want {
			if !seen[n] {
				required++
				fail(n, "obligation discharged on the pinned tree is no longer generated (contract does not bind)", nil)
			}
		}
	}
	wantLemma := map[string]bool{}
	for _, n := range ledger.Lemmas {
		wantLemma[n] = true
	}
	for _, o := range r.lemmaObs {
		solverTime += o.TimeS
		if !wantLemma[o.Name] {
			if !o.OK() {
				undecided = append(undecided, o.Name)
			}
			continue
		}
		required++
		if o.OK() {
			discharged++
			byBackend[o.Solver]++
		} else {
			fail(o.Name, o.Desc+" ["+o.Result+"]", o)
		}
	}

	// ---- bounded stand-ins (B2 harnesses on the real code) ----
	bounded, hv := r.runHarnesses(known, &knownHit)
	violations = append(violations, hv...)
	if harnessBroken {
		// a stand-in that could not run (build error, no cases) decides nothing
		machinery = true
	}

	// ---- evidence ----
	var assumptions []string
	for n, c := range notes {
		assumptions = append(assumptions, fmt.Sprintf("%s (x%d)", n, c))
	}
	sort.Strings(assumptions)
	assumptions = append(assumptions,
		"go/packages, go/types, go/ssa (x/tools v0.50.0) build the SSA faithfully; gocv's SMT encoding of each SSA instruction is right (guarded by /verif/selftest)",
		"z3 4.8.12, z3 5.1.0 (z3-new), cvc5 1.0.3 are sound for unsat",
		"no slice, string or map exceeds 2^48 elements",
		"termination is proved only where a decreases clause was discharged")
	sort.Strings(funcsUnder)
	sort.Strings(undecided)
	if len(undecided) > 40 {
		undecided = append(undecided[:40], fmt.Sprintf("... and %d more", len(undecided)-40))
	}
	if samples == nil {
		samples = []any{}
	}
	ev := map[string]any{
		"property_id": r.prop, "tier": r.tier, "seed": r.seed, "level": "proof",
		"coverage": map[string]any{
			"obligations": required, "discharged": discharged,
			"checker_cmd":              fmt.Sprintf("/verif/bin/gocv check --property %s --tier %s", r.prop, r.tier),
			"trusted_base":             trustedList(r.contracts, notes),
			"functions_under_contract": funcsUnder,
			"by_backend":               byBackend,
			"solver_time_s":            round3(solverTime),
			"bounded_checks":           bounded,
			"undecided":                undecided,
			"samples":                  samples,
			"explanation":              "obligations = weakest-precondition proof obligations generated from /repo's current go/ssa (naive form) for the functions under contract and listed in the ledger as discharged on the pinned tree; bounded_checks are labelled stand-ins and are not counted as obligations",
		},
		"assumptions": assumptions,
		"wall_s":      round3(time.Since(r.start).Seconds()),
		"violations":  len(violations),
	}
	os.MkdirAll(filepath.Join(outRoot, "evidence"), 0o755)
	data, _ := json.MarshalIndent(ev, "", " ")
	os.WriteFile(filepath.Join(outRoot, "evidence", r.prop+".json"), data, 0o644)

	seenKF := map[string]bool{}
	for _, l := range knownHit {
		if !seenKF[l] {
			seenKF[l] = true
			fmt.Println(l)
		}
	}
	fmt.Printf("%s: %d/%d ledger obligations discharged, %d functions, %d undecided extra, %d bounded checks, %.1fs\n", r.prop, discharged, required, len(funcsUnder), len(undecided), len(bounded), time.Since(r.start).Seconds())
	if machinery {
		return 2
	}
	if required == 0 && len(bounded) == 0 {
		fmt.Println("MACHINERY: no obligations were generated for", r.prop)
		return 2
	}
	if len(violations) > 0 {
		for _, v := range violations {
			suffix := ""
			if v.NoInput {
				suffix = " no-failing-input-found"
			}
			fmt.Printf("VIOLATION property=%s replay=%s%s\n", r.prop, v.Replay, suffix)
			fmt.Printf("  failed: %s: %s\n", v.Key, v.Text)
		}
		return 1
	}
	return 0
}

func round3(f float64) float64 { return float64(int(f*1000+0.5)) / 1000 }

func trustedList(C *Contracts, notes map[string]int) []string {
	var out []string
	for n, c := range notes {
		if strings.HasPrefix(n, "trusted contract: ") {
			out = append(out, fmt.Sprintf("%s (used %d times)", n, c))
		}
	}
	sort.Strings(out)
	out = append(out, "golang.org/x/tools go/ssa builder", "gocv VC generator", "SMT solvers (unsat answers)")
	return out
}

func (r *checkRun) ledgerPath() string {
	return filepath.Join(verifRoot, "ledger", r.prop+".json")
}

func (r *checkRun) loadLedger() *Ledger {
	l := &Ledger{Property: r.prop, Funcs: map[string]*LedgerFunc{}}
	data, err := os.ReadFile(r.ledgerPath())
	if err == nil {
		json.Unmarshal(data, l)
	}
	if l.Funcs == nil {
		l.Funcs = map[string]*LedgerFunc{}
	}
	return l
}

func (r *checkRun) writeLedger() int {
	l := &Ledger{Property: r.prop, Funcs: map[string]*LedgerFunc{}}
	limit := float64(r.timeout) * 0.4
	bad := 0
	for _, res := range r.results {
		lf := &LedgerFunc{Name: res.Name, Complete: res.Err == ""}
		if res.Err != "" {
			lf.OutOfReach = res.Err
		}
		for _, o := range res.Obs {
			if o.expect() == "sat" {
				if !o.OK() {
					fmt.Printf("MACHINERY: vacuity guard %s unsatisfiable\n", o.Name)
					bad++
				}
				continue
			}
			if o.OK() && o.TimeS > 1.0 {
				fmt.Printf("      slow: %s %.1fs\n", o.Name, o.TimeS)
			}
			if o.OK() && o.TimeS <= limit {
				lf.Discharged = append(lf.Discharged, o.Name)
			} else {
				lf.Complete = false
				lf.Undecided = append(lf.Undecided, fmt.Sprintf("%s [%s %.1fs] %s", o.Name, o.Result, o.TimeS, o.Desc))
			}
		}
		l.Funcs[res.Name] = lf
		fmt.Printf("%-70s %3d discharged, %d undecided%s\n", shortName(res.Name), len(lf.Discharged), len(lf.Undecided), map[bool]string{true: "", false: "  " + lf.OutOfReach}[lf.OutOfReach == ""])
		for _, u := range lf.Undecided {
			fmt.Println("      undecided:", u)
		}
	}
	for _, o := range r.lemmaObs {
		if o.OK() && o.TimeS <= limit {
			l.Lemmas = append(l.Lemmas, o.Name)
		} else {
			fmt.Printf("      lemma undecided: %s [%s]\n", o.Name, o.Result)
		}
	}
	sort.Strings(l.Lemmas)
	os.MkdirAll(filepath.Dir(r.ledgerPath()), 0o755)
	data, _ := json.MarshalIndent(l, "", " ")
	os.WriteFile(r.ledgerPath(), data, 0o644)
	fmt.Printf("ledger written: %s (%.1fs)\n", r.ledgerPath(), time.Since(r.start).Seconds())
	if bad > 0 {
		return 2
	}
	return 0
}

// writeReplay stores the failed obligation with the solver output.
func (r *checkRun) writeReplay(key, text string, o *Obligation) string {
	os.MkdirAll(r.replayDir, 0o755)
	base := filepath.Join(r.replayDir, fmt.Sprintf("%s.%08x", sanitize(key), fnv32(key)))
	rep := map[string]any{"property": r.prop, "obligation": key, "what": text}
	if o != nil {
		q := o.Query(true)
		os.WriteFile(base+".smt2", []byte(q), 0o644)
		rep["smt_query"] = base + ".smt2"
		rep["position"] = o.Pos
		rep["result"] = o.Result
		rep["solver_verdicts"] = o.Outputs
		if o.Model != "" {
			m := o.Model
			if len(m) > 6000 {
				m = m[:6000]
			}
			rep["model"] = m
		}
		rep["reproduce"] = "z3-new " + base + ".smt2   # sat/unknown = obligation not discharged"
	}
	data, _ := json.MarshalIndent(rep, "", " ")
	os.WriteFile(base+".json", data, 0o644)
	return base + ".json"
}

// ---- B2 harnesses: bounded contract checks run on the real code ----

type harnessSpec struct {
	Property string   `json:"property"`
	Name     string   `json:"name"`
	Pkg      string   `json:"pkg"`   // directory below /repo
	Files    []string `json:"files"` // harness test files below /verif/harness
	Run      string   `json:"run"`   // -run pattern
	Bound    string   `json:"bound"`
	Tier     string   `json:"tier"` // quick | thorough
	Timeout  string   `json:"timeout"`
}

func (r *checkRun) runHarnesses(known []KnownFinding, knownHit *[]string) ([]map[string]any, []Violation) {
	var specs []harnessSpec
	data, err := os.ReadFile(filepath.Join(verifRoot, "harness", "harnesses.json"))
	if err != nil {
		return []map[string]any{}, nil
	}
	if err := json.Unmarshal(data, &specs); err != nil {
		fmt.Println("harnesses.json:", err)
		return []map[string]any{}, nil
	}
	out := []map[string]any{}
	var vs []Violation
	for _, h := range specs {
		if h.Property != r.prop {
			continue
		}
		if h.Tier == "thorough" && r.tier != "thorough" {
			continue
		}
		res := runHarness(h, r.tier, r.seed)
		entry := map[string]any{"name": h.Name, "kind": "B2 bounded contract check on the real code", "bound": h.Bound, "cases": res.cases, "wall_s": round3(res.wall), "labelled": "bounded, not counted as proved"}
		out = append(out, entry)
		for _, f := range res.failures {
			key := "harness:" + h.Name + ":" + f.key
			hit := false
			for _, kf := range known {
				if kf.Property == r.prop && kf.Key == key && !kf.Fixed {
					*knownHit = append(*knownHit, fmt.Sprintf("KNOWN-FINDING: property=%s %s (%s)", r.prop, kf.Text, key))
					hit = true
				}
			}
			if hit {
				continue
			}
			os.MkdirAll(r.replayDir, 0o755)
			p := filepath.Join(r.replayDir, sanitize(key)+".txt")
			os.WriteFile(p, []byte(fmt.Sprintf("property: %s\nharness: %s\nbound: %s\ncase: %s\nreproduce: /verif/bin/gocv replay %s   (runs %s with the files %v of /verif/harness overlaid into the package)\n\n%s\n", r.prop, h.Name, h.Bound, f.key, p, res.cmd, h.Files, f.text)), 0o644)
			vs = append(vs, Violation{Key: key, Replay: p, Text: firstLine(f.text)})
		}
		if res.err != "" {
			fmt.Printf("MACHINERY: harness %s did not run: %s\n", h.Name, res.err)
			harnessBroken = true
		}
	}
	return out, vs
}

func firstLine(s string) string {
	if i := strings.Index(s, "\n"); i >= 0 {
		return s[:i]
	}
	return s
}

type harnessFailure struct{ key, text string }

var harnessBroken bool

type harnessResult struct {
	cases    int
	failures []harnessFailure
	wall     float64
	err      string
	cmd      string
}

var caseRe = regexp.MustCompile(`(?m)^\s*(?:\S+: )?B2-CASES (\d+)`)
var failRe = regexp.MustCompile(`(?m)^\s*(?:\S+: )?B2-FAIL (\S+) (.*)$`)

func runHarness(h harnessSpec, tier string, seed int) harnessResult {
	t0 := time.Now()
	dir, err := os.MkdirTemp("", "gocv-h-")
	if err != nil {
		return harnessResult{err: err.Error()}
	}
	defer os.RemoveAll(dir)
	ov := map[string]map[string]string{"Replace": {}}
	for _, f := range h.Files {
		ov["Replace"][filepath.Join(repoRoot, h.Pkg, "zz_verif_"+filepath.Base(f))] = filepath.Join(verifRoot, "harness", f)
	}
	data, _ := json.Marshal(ov)
	ovp := filepath.Join(dir, "ov.json")
	os.WriteFile(ovp, data, 0o644)
	to := h.Timeout
	if to == "" {
		to = "120s"
	}
	args := []string{"test", "-overlay", ovp, "-vet=off", "-count=1", "-timeout", to, "-run", h.Run, "-v", "./" + h.Pkg}
	cmd := exec.Command("go", args...)
	cmd.Dir = repoRoot
	cmd.Env = append(os.Environ(), "GOFLAGS=-mod=mod", "GOPROXY=off", "VERIF_TIER="+tier, fmt.Sprintf("VERIF_SEED=%d", seed))
	var out bytes.Buffer
	cmd.Stdout = &out
	cmd.Stderr = &out
	runErr := cmd.Run()
	res := harnessResult{wall: time.Since(t0).Seconds(), cmd: "cd /repo && go " + strings.Join(args, " ")}
	for _, m := range caseRe.FindAllStringSubmatch(out.String(), -1) {
		n, _ := strconv.Atoi(m[1])
		res.cases += n
	}
	for _, m := range failRe.FindAllStringSubmatch(out.String(), -1) {
		res.failures = append(res.failures, harnessFailure{m[1], m[2]})
	}
	if runErr == nil && res.cases == 0 && len(res.failures) == 0 {
		// vacuity guard: a harness that exercised nothing decides nothing
		res.err = "the harness reported no cases (B2-CASES line missing or zero)\n" + out.String()
		if len(res.err) > 2000 {
			res.err = res.err[:2000]
		}
	}
	if runErr != nil && len(res.failures) == 0 {
		// the harness failed without a structured failure line: panic, timeout or build error
		full := out.String()
		txt := full
		if len(txt) > 4000 {
			txt = txt[:2000] + "\n[...]\n" + txt[len(txt)-2000:]
		}
		if strings.Contains(full, "panic:") || strings.Contains(full, "fatal error:") || strings.Contains(full, "test timed out") || strings.Contains(full, "--- FAIL") || strings.Contains(full, "signal: ") {
			res.failures = append(res.failures, harnessFailure{"crash", txt})
		} else {
			res.err = txt
		}
	}
	return res
}
