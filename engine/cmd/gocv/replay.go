package main

import (
	"encoding/json"
	"fmt"
	"os"
	"os/exec"
	"path/filepath"
	"regexp"
	"strings"
)

// cmdReplay re-runs what a replay file describes against the current tree:
//   - a failed obligation (<name>.json next to <name>.smt2): the stored query is given to
//     the solvers again and the verdicts and the model are printed;
//   - a failed bounded harness case (<name>.txt): the harness is run again on /repo's
//     working tree and its failure lines are printed.
//
// Exit status 1 means the failure reproduces, 0 that it does not.
func cmdReplay(args []string) {
	if len(args) != 1 {
		fmt.Fprintln(os.Stderr, "usage: gocv replay <replay file>")
		os.Exit(2)
	}
	path := args[0]
	data, err := os.ReadFile(path)
	if err != nil {
		fmt.Fprintln(os.Stderr, err)
		os.Exit(2)
	}
	if strings.HasSuffix(path, ".json") {
		var rep map[string]any
		if err := json.Unmarshal(data, &rep); err != nil {
			fmt.Fprintln(os.Stderr, "replay file:", err)
			os.Exit(2)
		}
		fmt.Printf("property %v\nobligation %v\n%v\nat %v\n", rep["property"], rep["obligation"], rep["what"], rep["position"])
		q, _ := rep["smt_query"].(string)
		if q == "" {
			fmt.Println("no solver query is attached (the obligation was not generated any more, or the function left the verified subset)")
			os.Exit(1)
		}
		failed := true
		for _, s := range solvers {
			out := runCmd(s.args(q, 20))
			first := strings.TrimSpace(strings.SplitN(out, "\n", 2)[0])
			fmt.Printf("  %-10s %s\n", s.name, first)
			if first == "unsat" {
				failed = false
			}
			if first == "sat" && strings.Contains(out, "define-fun") {
				m := out
				if len(m) > 3000 {
					m = m[:3000] + "\n  ..."
				}
				fmt.Println(m)
				break
			}
		}
		if failed {
			fmt.Println("the obligation is not discharged: the violation reproduces (no-failing-input-found: the model above is over the verifier's state, not a Go test)")
			os.Exit(1)
		}
		fmt.Println("the stored query is unsatisfiable: the obligation is discharged")
		return
	}
	text := string(data)
	m := regexp.MustCompile(`(?m)^harness: (\S+)$`).FindStringSubmatch(text)
	c := regexp.MustCompile(`(?m)^case: (\S+)$`).FindStringSubmatch(text)
	if m == nil {
		fmt.Fprintln(os.Stderr, "not a replay file of gocv")
		os.Exit(2)
	}
	var specs []harnessSpec
	hd, err := os.ReadFile(filepath.Join(verifRoot, "harness", "harnesses.json"))
	if err == nil {
		err = json.Unmarshal(hd, &specs)
	}
	if err != nil {
		fmt.Fprintln(os.Stderr, err)
		os.Exit(2)
	}
	for _, h := range specs {
		if h.Name != m[1] {
			continue
		}
		tier := os.Getenv("VERIF_TIER")
		if tier == "" {
			tier = "quick"
		}
		res := runHarness(h, tier, 0)
		fmt.Printf("harness %s (%s): %d cases, %d failure lines\n", h.Name, h.Bound, res.cases, len(res.failures))
		hit := false
		for _, f := range res.failures {
			if c == nil || f.key == c[1] {
				hit = true
				fmt.Printf("  B2-FAIL %s %s\n", f.key, f.text)
			}
		}
		if res.err != "" {
			fmt.Println(res.err)
			os.Exit(2)
		}
		if hit {
			os.Exit(1)
		}
		fmt.Println("the case does not fail on the current tree")
		return
	}
	fmt.Fprintln(os.Stderr, "harness", m[1], "is not registered")
	os.Exit(2)
}

func runCmd(args []string) string {
	cmd := exec.Command(args[0], args[1:]...)
	out, _ := cmd.CombinedOutput()
	return string(out)
}
