package main

// Symbolic values.  Every Go value is a tree whose leaves are SMT terms of
// sort Int, Bool, Str (uninterpreted, strings) or Flt (uninterpreted, floats).

import (
	"fmt"
	"go/types"
	"regexp"
	"strings"

	"golang.org/x/tools/go/ssa"
)

type Kind int

const (
	KScalar Kind = iota
	KSlice       // Fs = ref, off, len, cap
	KIface       // Fs = tag, val
	KStruct      // Fs = fields
	KTuple       // Fs = components
	KArray       // Fs = one SMT array per flattened element component
	KPtr         // interior pointer (Go-side only)
	KClosure
	KFunc
	KUnit
)

type Val struct {
	K    Kind
	T    string // scalar term
	Sort string // scalar sort
	Fs   []Val
	P    *Ptr
	Cl   *Closure
	Fn   *ssa.Function
	Typ  types.Type
	// provenance of slice values (used for the automatic loop frame)
	AppOf string // result of append(x, ...): the array reference of x
	Fresh bool   // freshly allocated (make, conversion)
}

type PtrKind int

const (
	PCell PtrKind = iota
	PHeap         // field path of heap struct object
	PElem         // element of array memory
	PGlobal
)

type Ptr struct {
	K      PtrKind
	Cell   *Cell
	Ref    string      // PHeap: object ref; PElem: array ref
	Struct types.Type  // PHeap: the (named) struct type of the object
	Idx    string      // PElem: index
	Elem   types.Type  // PElem: element type of the memory
	Path   []int       // field path below the base location
	Global *ssa.Global // PGlobal
	Typ    types.Type  // pointee type
}

type Cell struct {
	Name string
	Typ  types.Type
	ID   int
}

type Closure struct {
	Fn       *ssa.Function
	Bindings []Val
}

type Comp struct {
	Suffix string
	Sort   string
}

type unsupported struct{ msg string }

func unsup(format string, a ...any) { panic(unsupported{fmt.Sprintf(format, a...)}) }

func scalar(t, sort string) Val { return Val{K: KScalar, T: t, Sort: sort} }
func intv(t string) Val         { return scalar(t, "Int") }
func boolv(t string) Val        { return scalar(t, "Bool") }

func under(t types.Type) types.Type { return types.Unalias(t).Underlying() }

// flat lists the scalar components of a value of type t.
func flat(t types.Type) []Comp {
	switch u := under(t).(type) {
	case *types.Basic:
		switch {
		case u.Info()&types.IsBoolean != 0:
			return []Comp{{"", "Bool"}}
		case u.Info()&types.IsInteger != 0:
			return []Comp{{"", "Int"}}
		case u.Info()&types.IsFloat != 0, u.Info()&types.IsComplex != 0:
			return []Comp{{"", "Flt"}}
		case u.Info()&types.IsString != 0:
			return []Comp{{"", "Str"}}
		case u.Kind() == types.UnsafePointer, u.Kind() == types.UntypedNil:
			return []Comp{{"", "Int"}}
		}
	case *types.Pointer, *types.Map, *types.Chan, *types.Signature:
		return []Comp{{"", "Int"}}
	case *types.Slice:
		return []Comp{{".ref", "Int"}, {".off", "Int"}, {".len", "Int"}, {".cap", "Int"}}
	case *types.Interface:
		return []Comp{{".tag", "Int"}, {".val", "Int"}}
	case *types.Struct:
		var out []Comp
		for i := 0; i < u.NumFields(); i++ {
			for _, c := range flat(u.Field(i).Type()) {
				out = append(out, Comp{"." + u.Field(i).Name() + c.Suffix, c.Sort})
			}
		}
		return out
	case *types.Array:
		var out []Comp
		for _, c := range flat(u.Elem()) {
			out = append(out, Comp{"[]" + c.Suffix, "(Array Int " + c.Sort + ")"})
		}
		return out
	case *types.Tuple:
		var out []Comp
		for i := 0; i < u.Len(); i++ {
			for _, c := range flat(u.At(i).Type()) {
				out = append(out, Comp{fmt.Sprintf("#%d%s", i, c.Suffix), c.Sort})
			}
		}
		return out
	case *types.TypeParam:
		return []Comp{{"", "Int"}}
	}
	unsup("flat: type %s", t)
	return nil
}

// terms flattens a value to its scalar terms in the order of flat().
func terms(v Val) []string {
	switch v.K {
	case KScalar:
		return []string{v.T}
	case KSlice, KIface, KStruct, KTuple, KArray:
		var out []string
		for _, f := range v.Fs {
			out = append(out, terms(f)...)
		}
		return out
	case KUnit:
		return nil
	case KClosure, KFunc:
		return []string{"0"}
	}
	unsup("terms: cannot flatten value kind %d (interior pointer used as a value)", v.K)
	return nil
}

// build is the inverse of terms for a given type.
func build(t types.Type, ts []string) (Val, []string) {
	switch u := under(t).(type) {
	case *types.Slice:
		return Val{K: KSlice, Fs: []Val{intv(ts[0]), intv(ts[1]), intv(ts[2]), intv(ts[3])}, Typ: t}, ts[4:]
	case *types.Interface:
		return Val{K: KIface, Fs: []Val{intv(ts[0]), intv(ts[1])}, Typ: t}, ts[2:]
	case *types.Struct:
		v := Val{K: KStruct, Typ: t}
		for i := 0; i < u.NumFields(); i++ {
			var f Val
			f, ts = build(u.Field(i).Type(), ts)
			v.Fs = append(v.Fs, f)
		}
		return v, ts
	case *types.Tuple:
		v := Val{K: KTuple, Typ: t}
		for i := 0; i < u.Len(); i++ {
			var f Val
			f, ts = build(u.At(i).Type(), ts)
			v.Fs = append(v.Fs, f)
		}
		return v, ts
	case *types.Array:
		v := Val{K: KArray, Typ: t}
		for _, c := range flat(u.Elem()) {
			v.Fs = append(v.Fs, scalar(ts[0], "(Array Int "+c.Sort+")"))
			ts = ts[1:]
		}
		return v, ts
	}
	cs := flat(t)
	if len(cs) != 1 {
		unsup("build: %s", t)
	}
	return Val{K: KScalar, T: ts[0], Sort: cs[0].Sort, Typ: t}, ts[1:]
}

func buildAll(t types.Type, ts []string) Val {
	v, rest := build(t, ts)
	if len(rest) != 0 {
		unsup("build: %d terms left over for %s", len(rest), t)
	}
	return v
}

func zeroTerm(sort string) string {
	switch sort {
	case "Int":
		return "0"
	case "Bool":
		return "false"
	case "Str":
		return "gs.empty"
	case "Flt":
		return "flt.zero"
	}
	if strings.HasPrefix(sort, "(Array Int ") {
		// a declared all-zero array (cvc5 cannot connect different constant arrays by stores)
		return "zero." + sanitize(sort)
	}
	unsup("zero of sort %s", sort)
	return ""
}

func zero(t types.Type) Val {
	cs := flat(t)
	ts := make([]string, len(cs))
	for i, c := range cs {
		ts[i] = zeroTerm(c.Sort)
	}
	return buildAll(t, ts)
}

var byteRe = regexp.MustCompile(`\bbyte\b`)
var runeRe = regexp.MustCompile(`\brune\b`)

func typeKey(t types.Type) string {
	s := types.TypeString(types.Unalias(t), func(p *types.Package) string { return p.Name() })
	s = byteRe.ReplaceAllString(s, "uint8")
	s = runeRe.ReplaceAllString(s, "int32")
	return sanitize(s)
}

// intRange returns the range of an integer type (ok=false for non-integers).
func intRange(t types.Type) (lo, hi string, ok bool) {
	b, isB := under(t).(*types.Basic)
	if !isB || b.Info()&types.IsInteger == 0 {
		return "", "", false
	}
	switch b.Kind() {
	case types.Int8:
		return "(- 128)", "127", true
	case types.Int16:
		return "(- 32768)", "32767", true
	case types.Int32:
		return "(- 2147483648)", "2147483647", true
	case types.Int, types.Int64, types.UntypedInt, types.UntypedRune:
		return "(- 9223372036854775808)", "9223372036854775807", true
	case types.Uint8:
		return "0", "255", true
	case types.Uint16:
		return "0", "65535", true
	case types.Uint32:
		return "0", "4294967295", true
	case types.Uint, types.Uint64, types.Uintptr:
		return "0", "18446744073709551615", true
	}
	return "", "", false
}

func intBits(t types.Type) (bits int, signed bool) {
	b, isB := under(t).(*types.Basic)
	if !isB {
		return 64, true
	}
	switch b.Kind() {
	case types.Int8:
		return 8, true
	case types.Int16:
		return 16, true
	case types.Int32:
		return 32, true
	case types.Uint8:
		return 8, false
	case types.Uint16:
		return 16, false
	case types.Uint32:
		return 32, false
	case types.Uint, types.Uint64, types.Uintptr:
		return 64, false
	}
	return 64, true
}

func pow2(n int) string {
	if n < 63 {
		return fmt.Sprintf("%d", uint64(1)<<uint(n))
	}
	switch n {
	case 63:
		return "9223372036854775808"
	case 64:
		return "18446744073709551616"
	}
	// general
	s := "1"
	for i := 0; i < n; i++ {
		s = mulDec2(s)
	}
	return s
}

func mulDec2(s string) string {
	out := make([]byte, 0, len(s)+1)
	carry := 0
	for i := len(s) - 1; i >= 0; i-- {
		d := int(s[i]-'0')*2 + carry
		out = append(out, byte('0'+d%10))
		carry = d / 10
	}
	if carry > 0 {
		out = append(out, byte('0'+carry))
	}
	for i, j := 0, len(out)-1; i < j; i, j = i+1, j-1 {
		out[i], out[j] = out[j], out[i]
	}
	return string(out)
}

// wrap reduces a mathematical integer term to the range of t.
func wrap(term string, t types.Type) string {
	bits, signed := intBits(t)
	m := pow2(bits)
	if !signed {
		return sx("mod", term, m)
	}
	h := pow2(bits - 1)
	return sx("-", sx("mod", sx("+", term, h), m), h)
}
