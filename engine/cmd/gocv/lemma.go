package main

import (
	"fmt"
	"go/types"

	"golang.org/x/tools/go/ssa"
)

// VerifyLemma checks a spec-level lemma: parameters are arbitrary, requires are
// assumed, each ensures is a goal.  With "induct k" the lemma may be used as a
// hypothesis for k-1 (k > 0): the classical structural induction on naturals.
func VerifyLemma(C *Contracts, lm *Lemma) (obs []*Obligation, errs string) {
	e := &Engine{ctx: NewCtx(), contracts: C, heapSorts: map[string]string{}, topName: "lemma." + lm.Name,
		ordinals: map[string]int{}, notes: map[string]int{}, cfg: &Config{}, tags: lm.Tags}
	e.ctx.pre = append(e.ctx.pre, prelude)
	defer func() {
		if r := recover(); r != nil {
			if u, ok := r.(unsupported); ok {
				errs = u.msg
				return
			}
			panic(r)
		}
	}()
	st := &State{pc: "true", cells: map[*Cell]Val{}, heap: map[string]string{}, globals: map[*ssa.Global]Val{}, epoch: "0", top: "0"}
	mkEnv := func(suffix string, shift string) *Env {
		env := &Env{e: e, st: st, bound: map[string]Val{}, names: map[string]Val{}, pure: true, curFunc: "lemma " + lm.Name}
		for _, p := range lm.Params {
			switch p.Type {
			case "seq":
				a := e.ctx.Declare(p.Name+".arr"+suffix, "(Array Int Int)")
				o := e.ctx.Declare(p.Name+".off"+suffix, "Int")
				l := e.ctx.Declare(p.Name+".len"+suffix, "Int")
				e.ctx.Assume(and(sx("<=", "0", o), sx("<=", "0", l)))
				env.bound[p.Name] = Val{K: KSeq, Fs: []Val{scalar(a, "(Array Int Int)"), intv(o), intv(l)}}
			default:
				srt := specSort(p.Type)
				n := e.ctx.Declare(p.Name+suffix, srt)
				env.bound[p.Name] = Val{K: KScalar, T: n, Sort: srt}
			}
		}
		return env
	}
	env := mkEnv("", "")
	for _, r := range lm.Requires {
		e.ctx.Assume(e.evalBool(r.Expr, env))
	}
	if lm.Induct != "" {
		k, ok := env.bound[lm.Induct]
		if !ok {
			return nil, "induct: unknown parameter " + lm.Induct
		}
		// induction hypothesis: the lemma for k-1, all other parameters equal
		ih := *env
		ih.bound = map[string]Val{}
		for n, v := range env.bound {
			ih.bound[n] = v
		}
		ih.bound[lm.Induct] = intv(sx("-", k.T, "1"))
		var pre, post []string
		for _, r := range lm.Requires {
			pre = append(pre, e.evalBool(r.Expr, &ih))
		}
		for _, en := range lm.Ensures {
			post = append(post, e.evalBool(en.Expr, &ih))
		}
		e.ctx.Assume(implies(and(append([]string{sx(">", k.T, "0")}, pre...)...), and(post...)))
		e.ctx.Assume(sx("<=", "0", k.T))
	}
	for i, en := range lm.Ensures {
		g := e.evalBool(en.Expr, env)
		e.oblige(st, fmt.Sprintf("ensures/%d", i+1), g, lm.Pos, "lemma "+lm.Name+": "+en.Src, lm.Tags)
	}
	o := e.oblige(st, "canary", "false", lm.Pos, "lemma hypotheses are satisfiable", lm.Tags)
	o.Expect = "sat"
	_ = types.Typ
	return e.obs, ""
}
