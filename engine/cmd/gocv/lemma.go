package main

import (
	"fmt"
	"go/types"
	"strings"

	"golang.org/x/tools/go/ssa"
)

// VerifyLemma checks a spec-level lemma: parameters are arbitrary, requires are
// assumed, each ensures is a goal.  With "induct k" the lemma may be used as a
// hypothesis for k-1 (k > 0): the classical structural induction on naturals.
func VerifyLemma(C *Contracts, lm *Lemma) (obs []*Obligation, errs string) {
	resetGlobals()
	e := &Engine{ctx: NewCtx(), contracts: C, heapSorts: map[string]string{}, topName: "lemma." + lm.Name,
		ordinals: map[string]int{}, notes: map[string]int{}, cfg: &Config{}, tags: lm.Tags}
	e.ctx.pre = append(e.ctx.pre, prelude)
	defer func() {
		if r := recover(); r != nil {
			if u, ok := r.(unsupported); ok {
				errs = u.msg
				return
			}
			panic(r)
		}
	}()
	st := &State{pc: "true", cells: map[*Cell]Val{}, heap: map[string]string{}, globals: map[*ssa.Global]Val{}, epoch: "0", top: "0"}
	mkEnv := func(suffix string, shift string) *Env {
		env := &Env{e: e, st: st, bound: map[string]Val{}, names: map[string]Val{}, pure: true, curFunc: "lemma " + lm.Name}
		for _, p := range lm.Params {
			switch p.Type {
			case "seq":
				a := e.ctx.Declare(p.Name+".arr"+suffix, "(Array Int Int)")
				o := e.ctx.Declare(p.Name+".off"+suffix, "Int")
				l := e.ctx.Declare(p.Name+".len"+suffix, "Int")
				e.ctx.Assume(and(sx("<=", "0", o), sx("<=", "0", l)))
				env.bound[p.Name] = Val{K: KSeq, Fs: []Val{scalar(a, "(Array Int Int)"), intv(o), intv(l)}}
			default:
				srt := specSort(p.Type)
				n := e.ctx.Declare(p.Name+suffix, srt)
				env.bound[p.Name] = Val{K: KScalar, T: n, Sort: srt}
			}
		}
		return env
	}
	e.assumeLemmas(lm.Uses)
	env := mkEnv("", "")
	for _, r := range lm.Requires {
		e.ctx.Assume(e.evalBool(r.Expr, env))
	}
	if lm.Induct != "" {
		k, ok := env.bound[lm.Induct]
		if !ok {
			return nil, "induct: unknown parameter " + lm.Induct
		}
		// induction hypothesis: the lemma for k-1, all other parameters equal
		ih := *env
		ih.bound = map[string]Val{}
		for n, v := range env.bound {
			ih.bound[n] = v
		}
		ih.bound[lm.Induct] = intv(sx("-", k.T, "1"))
		var pre, post []string
		for _, r := range lm.Requires {
			pre = append(pre, e.evalBool(r.Expr, &ih))
		}
		for _, en := range lm.Ensures {
			post = append(post, e.evalBool(en.Expr, &ih))
		}
		e.ctx.Assume(implies(and(append([]string{sx(">", k.T, "0")}, pre...)...), and(post...)))
		e.ctx.Assume(sx("<=", "0", k.T))
	}
	for i, en := range lm.Ensures {
		g := e.evalBool(en.Expr, env)
		e.oblige(st, fmt.Sprintf("ensures/%d", i+1), g, lm.Pos, "lemma "+lm.Name+": "+en.Src, lm.Tags)
	}
	o := e.oblige(st, "canary", "false", lm.Pos, "lemma hypotheses are satisfiable", lm.Tags)
	o.Expect = "sat"
	_ = types.Typ
	return e.obs, ""
}

// lemmaAxiom renders a (separately proved) lemma as a universally quantified hypothesis.
func (e *Engine) lemmaAxiom(name string) string {
	var lm *Lemma
	for _, l := range e.contracts.Lemmas {
		if l.Name == name {
			lm = l
		}
	}
	if lm == nil {
		cerr("uses: unknown lemma %s", name)
	}
	env := &Env{e: e, bound: map[string]Val{}, names: map[string]Val{}, pure: true, curFunc: "lemma " + lm.Name}
	var vars []string
	for _, p := range lm.Params {
		q := "L_" + lm.Name + "_" + p.Name
		switch p.Type {
		case "seq":
			vars = append(vars, fmt.Sprintf("(%s.arr (Array Int Int)) (%s.off Int) (%s.len Int)", q, q, q))
			env.bound[p.Name] = Val{K: KSeq, Fs: []Val{scalar(q+".arr", "(Array Int Int)"), intv(q + ".off"), intv(q + ".len")}}
		default:
			vars = append(vars, fmt.Sprintf("(%s %s)", q, specSort(p.Type)))
			env.bound[p.Name] = Val{K: KScalar, T: q, Sort: specSort(p.Type)}
		}
	}
	var pre, post []string
	for _, r := range lm.Requires {
		pre = append(pre, e.evalBool(r.Expr, env))
	}
	for _, en := range lm.Ensures {
		post = append(post, e.evalBool(en.Expr, env))
	}
	return fmt.Sprintf("(forall (%s) %s)", strings.Join(vars, " "), implies(and(pre...), and(post...)))
}

func (e *Engine) assumeLemmas(names []string) {
	for _, n := range names {
		e.ctx.Assume(e.lemmaAxiom(n))
		e.note("lemma " + n + " used as a hypothesis (proved separately)")
	}
}

// applyLemma assumes one instance of a (separately proved) lemma in state st.
func (e *Engine) applyLemma(env *Env, st *State, cl Clause) {
	call := cl.Expr.(ECall)
	var lm *Lemma
	for _, l := range e.contracts.Lemmas {
		if l.Name == call.Fn {
			lm = l
		}
	}
	if lm == nil {
		cerr("apply: unknown lemma %s", call.Fn)
	}
	if len(call.Args) != len(lm.Params) {
		cerr("apply %s: expected %d arguments", lm.Name, len(lm.Params))
	}
	inst := &Env{e: e, st: st, bound: map[string]Val{}, names: map[string]Val{}, pure: true, curFunc: "lemma " + lm.Name}
	for i, p := range lm.Params {
		v := env.eval(call.Args[i])
		if p.Type == "seq" {
			v = env.toSeq(v)
		}
		inst.bound[p.Name] = v
	}
	var pre, post []string
	for _, r := range lm.Requires {
		pre = append(pre, e.evalBool(r.Expr, inst))
	}
	for _, en := range lm.Ensures {
		post = append(post, e.evalBool(en.Expr, inst))
	}
	e.ctx.Assume(implies(and(append([]string{st.pc}, pre...)...), and(post...)))
	e.note("lemma " + lm.Name + " instantiated (proved separately)")
}
