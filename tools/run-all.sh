#!/bin/sh
# Runs every claimed check (quick tier) and prints a summary; regenerates /verif/evidence.
cd /verif
rc=0
for p in $(python3 -c "import json;print(' '.join(c['property_id'] for c in json.load(open('MANIFEST.json'))['checks']))"); do
  out=$(/verif/bin/gocv check --property $p --tier ${1:-quick} 2>&1); r=$?
  echo "$out" | tail -3
  [ $r -ne 0 ] && rc=1
done
exit $rc
