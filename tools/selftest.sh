#!/bin/sh
# Self-test of the VC generator on a small module (/verif/selftest/mod): every function must verify
# except the deliberately broken ones: badIndex (unguarded index, refuted with a model), closesBad
# (a closer left open on one path: ghost closed, \local_), depthBad (recursion variant does not
# decrease), allocBad (allocation counter exceeds what was charged) and partialBad (an unproved
# loop invariant in a partial contract).  Run after every engine change.  (The must-fail corpus
# on the real code is /verif/seeded, see tools/eval_mutant.py.)
out=$(/verif/bin/gocv verify -dir /verif/selftest/mod -pkg . -contracts /verif/selftest/mod,/verif/trusted 2>&1)
echo "$out" | grep -E "ok$|FAILED$|OUTSIDE"
ok=$(echo "$out" | grep -c " ok$")
fails=$(echo "$out" | grep -c "FAILED$")
outside=$(echo "$out" | grep -c "OUTSIDE")
sat=$(echo "$out" | grep -c "sat .*safety/idx/1")
expected=1
for f in badIndex closesBad depthBad allocBad partialBad; do
  n=$(echo "$out" | grep -c "selftest.$f .*FAILED$")
  [ "$n" -eq 1 ] || { echo "selftest: $f was not refuted"; expected=0; }
done
if [ "$ok" -eq 10 ] && [ "$fails" -eq 5 ] && [ "$outside" -eq 0 ] && [ "$sat" -ge 1 ] && [ "$expected" -eq 1 ]; then echo "selftest passed"; exit 0; fi
echo "selftest FAILED"; exit 1
