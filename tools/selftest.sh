#!/bin/sh
# Self-test of the VC generator on a small module (/verif/selftest/mod): every function must verify
# except badIndex, whose unguarded index expression must be refuted with a model.  Run after every
# engine change.  (The must-fail corpus on the real code is /verif/seeded, see tools/eval_mutant.py.)
out=$(/verif/bin/gocv verify -dir /verif/selftest/mod -pkg . -contracts /verif/selftest/mod,/verif/trusted 2>&1)
echo "$out" | grep -E "ok$|FAILED$"
ok=$(echo "$out" | grep -c " ok$")
bad=$(echo "$out" | grep -c "selftest.badIndex .*FAILED$")
fails=$(echo "$out" | grep -c "FAILED$")
sat=$(echo "$out" | grep -c "sat .*safety/idx/1")
if [ "$ok" -eq 6 ] && [ "$bad" -eq 1 ] && [ "$fails" -eq 1 ] && [ "$sat" -ge 1 ]; then echo "selftest passed"; exit 0; fi
echo "selftest FAILED"; exit 1
