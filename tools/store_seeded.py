#!/usr/bin/env python3
"""Stores the confirmed seeded changes under /verif/seeded/<P>-m<k>/ (patch.diff, demonstration, README of the
seeding agent, meta.json) from the scratch directories of a seeding session and the eval_*.json files written
by tools/eval_mutant.py.  usage: store_seeded.py <scratch-root> (default /tmp/mut)"""
import sys, os, json, glob, shutil, re
root = sys.argv[1] if len(sys.argv) > 1 else '/tmp/mut'
label = sys.argv[2] if len(sys.argv) > 2 else 'm'      # change names are <P>-<label><k>
needs = json.load(open('/verif/tools/seeded_needs.json'))
# changes of a later round are described by the title line of the seeding agent's README
for d in sorted(glob.glob(os.path.join(root, 'C??', 'out', 'm?'))):
    prop = d.split('/')[-3]
    key = '%s-%s%s' % (prop, label, d[-1])
    if key not in needs:
        title = ''
        for f in glob.glob(os.path.join(d, 'README*')):
            lines = [l.strip() for l in open(f) if l.strip() and not set(l.strip()) <= set('=-')]
            if lines: title = re.sub(r'^(C\d\d )?[Ss]eeded (?:bug|change) m\d\s*(--|:|-|\u2014)?\s*', '', lines[0])
        needs[key] = title or '(see README)'
keys = [k for k in sorted(needs) if re.match(r'C\d\d-%s\d$' % label, k)]
def load(f):
    try: return json.load(open(f))
    except Exception: return None
def verdict(ev, prop):
    if not ev or prop not in ev.get('checks', {}): return None
    c = ev['checks'][prop]
    caught = c['exit'] == 1 and any(l.startswith('VIOLATION') for l in c['lines'])
    by = []
    for l in c['lines']:
        m = re.match(r'\s*failed: (.+?): ', l)
        if m:
            k = m.group(1)
            by.append('harness ' + k.split(':')[1] if k.startswith('harness:') else 'obligation ' + k)
    return {'caught': caught, 'by': sorted(set(by))[:4]}
for key in keys:
    prop, m = key.split('-')
    m = 'm' + m[-1]
    src = os.path.join(root, prop, 'out', m)
    if not os.path.isdir(src): continue
    dst = os.path.join('/verif/seeded', key)
    os.makedirs(dst, exist_ok=True)
    for f in os.listdir(src):
        if f.endswith('.log'): continue
        shutil.copy(os.path.join(src, f), os.path.join(dst, f))
    tag = '%s_out_%s' % (prop, m)
    if label != 'm':
        tag = label + '_' + tag
    runs = [('first', load(os.path.join(root, 'eval_%s.json' % tag))), ('second', load(os.path.join(root, 'eval3_%s.json' % tag))), ('final', load(os.path.join(root, 'eval4_%s.json' % tag)))]
    conf = next((e for _, e in runs if e and 'existing_tests_pass_with_patch' in e), None)
    meta = {'property': prop, 'change': key, 'origin': 'fresh agent given only the property text and a scratch worktree of /repo',
            'needs_to_manifest': needs[key],
            'confirmed': {'how': 'tools/eval_mutant.py in a scratch worktree: git apply patch.diff; go build; go test of the touched packages and the root package; demonstration copied next to the package sources and run with and without the patch',
                          'existing_tests_pass_with_patch': conf and conf.get('existing_tests_pass_with_patch'),
                          'demo_fails_with_patch': conf and conf.get('demo_fails_with_patch'),
                          'demo_passes_without_patch': conf and conf.get('demo_passes_without_patch'),
                          'applies_to_current_head': (runs[-1][1] or runs[-2][1] or runs[0][1] or {}).get('applies', conf is not None)},
            'check_runs': {name: verdict(e, prop) for name, e in runs if e}}
    json.dump(meta, open(os.path.join(dst, 'meta.json'), 'w'), indent=1)
print('stored', len(glob.glob('/verif/seeded/*/meta.json')))
